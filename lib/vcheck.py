"""Shared plumbing for /verif/bin/check.

Nothing in here judges a property.  It builds the Go harness against the
repository's *working tree*, runs TLC, parses TLC's own output, writes evidence
files and replay bundles, and matches failures against known_findings.json.

Exit codes used by bin/check:
  0  the property held on everything explored (KNOWN-FINDING lines allowed)
  1  a VIOLATION line was printed
  2  nothing conclusive could be run (build failure, TLC missing, ...)
"""
import json
import os
import re
import shutil
import subprocess
import sys
import time

VERIF = os.path.dirname(os.path.dirname(os.path.abspath(__file__)))
TLA_JAR = "/opt/veriftools/tla/tla2tools.jar"
TLA_CM = "/opt/veriftools/tla/CommunityModules-deps.jar"
NCPU = os.cpu_count() or 4


class Inconclusive(Exception):
    """Raised when a stage could not run at all (exit 2, never a violation)."""


class Ctx:
    def __init__(self, prop, tier, seed, keep=False):
        self.prop = prop
        self.tier = tier
        self.seed = seed
        self.keep = keep
        self.repo = os.environ.get("VERIF_REPO", "/repo")
        self.t0 = time.time()
        self.scratch = os.path.join(VERIF, ".scratch", "%s-%d" % (prop, os.getpid()))
        if os.path.exists(self.scratch):
            shutil.rmtree(self.scratch)
        os.makedirs(self.scratch)
        # everything a child leaves in its temp dir (the repository's own code creates
        # raft-storage-* engine directories in os.TempDir()) lands in the scratch directory and
        # goes away with it - nothing a check does stays behind in /tmp
        os.environ["TMPDIR"] = self.sub("tmp")
        self.violations = []      # list of dicts (printed as VIOLATION)
        self.known = []           # list of (finding id, text)
        self.notes = []           # free text collected into the evidence
        self.skipped = 0
        self._nrep = 0
        self.bins = {}

    def sub(self, name):
        p = os.path.join(self.scratch, name)
        os.makedirs(p, exist_ok=True)
        return p

    def quick(self):
        return self.tier == "quick"

    def log(self, *a):
        print("[%s %6.1fs]" % (self.prop, time.time() - self.t0), *a, flush=True)

    def cleanup(self):
        if not self.keep:
            shutil.rmtree(self.scratch, ignore_errors=True)
            try:
                os.rmdir(os.path.join(VERIF, ".scratch"))
            except OSError:
                pass


# --------------------------------------------------------------------------- Go

def go_env():
    e = dict(os.environ)
    e.update(GOFLAGS="-mod=mod", GOPROXY="off", GOSUMDB="off", GOTOOLCHAIN="local",
             CGO_ENABLED="1")
    e.setdefault("GOCACHE", os.path.join(os.path.expanduser("~"), ".cache", "go-build"))
    return e


def _modfile(ctx):
    """harness/go.mod with the ZanRedisDB replace pointing at ctx.repo."""
    src = open(os.path.join(VERIF, "harness", "go.mod")).read()
    src = src.replace("=> /repo", "=> " + ctx.repo)
    src = src.replace("=> /verif/", "=> " + VERIF + "/")
    mf = os.path.join(ctx.scratch, "go.mod")
    open(mf, "w").write(src)
    shutil.copy(os.path.join(ctx.repo, "go.sum"), os.path.join(ctx.scratch, "go.sum"))
    return mf


def go_build(ctx, pkg="./cmd/zrdrive", name=None, tags="verif", overlay=None, files=None):
    """Build one harness command against ctx.repo's working tree; returns the binary.
    files=["engsim.go", ...]: build only main.go plus these files of the package directory,
    so that a check depends on its own driver files only (other drivers under construction
    or needing other hooks cannot break it)."""
    name = name or os.path.basename(pkg)
    out = os.path.join(ctx.sub("bin"), name)
    cmd = ["go", "build", "-modfile=" + _modfile(ctx), "-tags", tags, "-o", out]
    if overlay:
        cmd += ["-overlay", overlay]
    if files:
        fl = list(files)
        if "main.go" not in fl:
            fl.insert(0, "main.go")
        cmd += [os.path.join(pkg, f) for f in fl]
    else:
        cmd.append(pkg)
    t = time.time()
    p = subprocess.run(cmd, cwd=os.path.join(VERIF, "harness"), env=go_env(),
                       stdout=subprocess.PIPE, stderr=subprocess.STDOUT, text=True)
    if p.returncode != 0:
        sys.stdout.write(p.stdout)
        raise Inconclusive("go build of %s failed (the tree does not compile with -tags %s)" % (pkg, tags))
    ctx.log("built %s in %.1fs" % (name, time.time() - t))
    ctx.bins[name] = out
    return out


def run(ctx, argv, timeout=None, env=None, cwd=None, stdin=None, check=False):
    e = dict(os.environ)
    if env:
        e.update(env)
    try:
        p = subprocess.run(argv, cwd=cwd or ctx.scratch, env=e, input=stdin, text=True,
                           stdout=subprocess.PIPE, stderr=subprocess.STDOUT, timeout=timeout)
    except subprocess.TimeoutExpired as ex:
        out = ex.stdout or ""
        if isinstance(out, bytes):
            out = out.decode("utf-8", "replace")
        return 124, out
    if check and p.returncode != 0:
        sys.stdout.write(p.stdout[-4000:])
        raise Inconclusive("command failed: %s" % " ".join(argv[:4]))
    return p.returncode, p.stdout


# -------------------------------------------------------------------------- TLC

class TLCResult:
    def __init__(self):
        self.rc = None
        self.out = ""
        self.generated = 0
        self.distinct = 0
        self.depth = 0
        self.ok = False              # "No error has been found" and no postcondition failure
        self.timed_out = False
        self.violated = None         # name of violated invariant / property
        self.post_false = False
        self.error = None            # other TLC error text (parse, eval)
        self.prints = []             # PrintT tuples as raw strings
        self.wall = 0.0
        self.coverage = {}

    def summary(self):
        return dict(ok=self.ok, generated=self.generated, distinct=self.distinct,
                    depth=self.depth, violated=self.violated, post_false=self.post_false,
                    timed_out=self.timed_out, error=self.error, wall_s=round(self.wall, 1))


_re_gen = re.compile(r"(\d[\d,]*) states generated, (\d[\d,]*) distinct states found")
_re_depth = re.compile(r"The depth of the complete state graph search is (\d+)")
_re_inv = re.compile(r"Invariant (\S+) is violated")
_re_prop = re.compile(r"(?:Temporal properties were violated|Action property (\S+) is violated|property (\S+) is violated)")
_re_sim = re.compile(r"The number of states generated: (\d+)")


def parse_tlc(out, res):
    for m in _re_gen.finditer(out):
        res.generated = int(m.group(1).replace(",", ""))
        res.distinct = int(m.group(2).replace(",", ""))
    m = _re_sim.search(out)
    if m and not res.generated:
        res.generated = int(m.group(1))
        res.distinct = res.distinct or 0
    m = _re_depth.search(out)
    if m:
        res.depth = int(m.group(1))
    m = _re_inv.search(out)
    if m:
        res.violated = m.group(1)
    m = _re_prop.search(out)
    if m and not res.violated:
        res.violated = m.group(1) or m.group(2) or "temporal"
    if "Deadlock reached" in out and not res.violated:
        res.violated = "Deadlock"
    if re.search(r"[Pp]ost-?condition\s+\S*\s*(is|was) (false|violated)", out) or "POSTCONDITION" in out and "false" in out:
        res.post_false = True
    for line in out.splitlines():
        if line.startswith("<<") and line.rstrip().endswith(">>"):
            res.prints.append(line.strip())
    if "No error has been found" in out or "Model checking completed. No error" in out:
        res.ok = not res.post_false and not res.violated
    if not res.ok and not res.violated and not res.post_false:
        m = re.search(r"(Error: .*(?:\n.*){0,6})", out)
        if m:
            res.error = m.group(1)[:1200]
    return res


def tlc(ctx, module, cfg, specdir=None, workers=None, timeout=600, simulate=None,
        depth=None, seed=None, env=None, extra=None, deque=False, heap=None,
        coverage=False, tag=None, files=None, deadlock=False):
    """Run TLC on spec/<module>.tla with spec/<cfg> in a scratch copy of the spec dir."""
    specdir = specdir or os.path.join(VERIF, "spec")
    tag = tag or (module + "-" + os.path.splitext(os.path.basename(cfg))[0])
    wd = ctx.sub("tlc-" + tag)
    for f in os.listdir(specdir):
        if f.endswith(".tla") or f.endswith(".cfg"):
            try:
                shutil.copy(os.path.join(specdir, f), wd)
            except FileNotFoundError:
                pass            # a generated cfg of a concurrent run that has just been removed
    for src, dst in (files or {}).items():
        shutil.copy(src, os.path.join(wd, dst))
    meta = os.path.join(wd, "meta")
    jtmp = os.path.join(wd, "jtmp")
    os.makedirs(jtmp, exist_ok=True)
    java = ["java", "-XX:+UseParallelGC", "-Xss64m", "-Djava.io.tmpdir=" + jtmp]
    if (workers or NCPU) <= 2:
        java.append("-XX:ParallelGCThreads=2")
    # default heap caps: several TLC JVMs run in parallel (and other checks may run on the
    # same machine); the JVM default of 25% RAM each got JVMs OOM-killed
    if not heap:
        heap = "3g" if (workers or NCPU) <= 2 else "8g"
    java.append("-Xmx" + heap)
    if deque:
        java.append("-Dtlc2.tool.queue.IStateQueue=StateDeque")
    java += ["-cp", TLA_JAR + ":" + TLA_CM, "tlc2.TLC"]
    args = ["-metadir", meta, "-config", os.path.basename(cfg), "-noGenerateSpecTE"]
    args += ["-workers", str(workers or NCPU)]
    if not deadlock:
        args.append("-deadlock")        # -deadlock switches deadlock checking OFF
    if simulate:
        args += ["-simulate", simulate]
        if depth:
            args += ["-depth", str(depth)]
    if seed is not None:
        args += ["-seed", str(seed)]
    if coverage:
        args += ["-coverage", "1"]
    args += (extra or [])
    args.append(module)
    e = dict(os.environ)
    e.pop("JAVA_TOOL_OPTIONS", None)
    if env:
        e.update(env)
    res = TLCResult()
    t = time.time()
    try:
        p = subprocess.run(java + args, cwd=wd, env=e, text=True, stdout=subprocess.PIPE,
                           stderr=subprocess.STDOUT, timeout=timeout)
        res.rc = p.returncode
        res.out = p.stdout
    except subprocess.TimeoutExpired as ex:
        res.timed_out = True
        o = ex.stdout or ""
        res.out = o.decode("utf-8", "replace") if isinstance(o, bytes) else o
    except FileNotFoundError:
        raise Inconclusive("java not found")
    res.wall = time.time() - t
    parse_tlc(res.out, res)
    if res.timed_out:
        res.ok = False
    open(os.path.join(wd, "tlc.out"), "w").write(res.out)
    res.dir = wd
    shutil.rmtree(meta, ignore_errors=True)
    shutil.rmtree(jtmp, ignore_errors=True)
    return res


def require_model_ok(ctx, res, what):
    """An exhaustive/simulation run of the *design* must pass; it does not depend on /repo,
    so a failure here is a broken specification (exit 2), never a verdict on the code."""
    if res.ok:
        return
    if res.timed_out:
        ctx.notes.append("%s: TLC timed out after %.0fs (%d states); counted as not run" % (what, res.wall, res.distinct))
        ctx.skipped += 1
        return
    sys.stdout.write(res.out[-3000:])
    raise Inconclusive("%s: model run failed (%s)" % (what, res.violated or res.error or "post"))


# ------------------------------------------------------------ findings / verdict

def load_known():
    """known_findings.json plus known_findings.d/*.json (one finding or a list per file)."""
    out, seen = [], set()
    # known_findings.d/*.json are the editable source of truth and win over the merged
    # known_findings.json (which bin/mkdesign regenerates from them)
    paths = []
    d = os.path.join(VERIF, "known_findings.d")
    if os.path.isdir(d):
        paths += sorted(os.path.join(d, f) for f in os.listdir(d) if f.endswith(".json"))
    paths.append(os.path.join(VERIF, "known_findings.json"))
    for p in paths:
        if not os.path.exists(p):
            continue
        j = json.load(open(p))
        for f in (j if isinstance(j, list) else [j]):
            if f.get("id") not in seen:
                seen.add(f.get("id"))
                out.append(f)
    return out


def match_known(prop, sig):
    """sig: dict describing a failure.  A known finding matches when every key of its
    'signature' equals the failure's value for that key."""
    for f in load_known():
        if f.get("status") != "open":
            continue
        if prop not in ([f.get("property")] + f.get("also", [])):
            continue
        s = f.get("signature", {})
        if s and all(sig.get(k) == v for k, v in s.items()):
            return f
    return None


def report_failure(ctx, sig, what, files=None, script=None):
    """Either a KNOWN-FINDING (listed, open) or a VIOLATION with a replay bundle."""
    f = match_known(ctx.prop, sig)
    if f is not None:
        key = f["id"]
        if key not in [k for k, _ in ctx.known]:
            ctx.known.append((key, f.get("what", what)))
        return False
    ctx._nrep += 1
    if ctx._nrep > 20:
        ctx.violations.append(dict(sig=sig, what=what, replay=None))
        return True
    d = os.path.join(VERIF, "replays", "%s-%d-p%d-%d" % (ctx.prop, ctx.seed, os.getpid(), ctx._nrep))
    if os.path.exists(d):
        shutil.rmtree(d)
    os.makedirs(d)
    for src in (files or []):
        if os.path.isdir(src):
            shutil.copytree(src, os.path.join(d, os.path.basename(src)))
        elif os.path.exists(src):
            shutil.copy(src, d)
    json.dump(dict(property=ctx.prop, tier=ctx.tier, seed=ctx.seed, signature=sig, what=what,
                   script=script), open(os.path.join(d, "why.json"), "w"), indent=1, default=str)
    open(os.path.join(d, "replay.sh"), "w").write(
        "#!/bin/sh\n# re-run the check that produced this bundle on the current tree\n"
        "cd %s && VERIF_SEED=%d exec bin/check %s --tier %s\n" % (VERIF, ctx.seed, ctx.prop, ctx.tier))
    os.chmod(os.path.join(d, "replay.sh"), 0o755)
    ctx.violations.append(dict(sig=sig, what=what, replay=d))
    if len(ctx.violations) <= 20:
        print("VIOLATION property=%s replay=%s" % (ctx.prop, d), flush=True)
        print("  what: %s" % what[:600], flush=True)
    return True


def write_evidence(ctx, level, coverage, assumptions=None):
    ev = dict(property_id=ctx.prop, tier=ctx.tier, seed=ctx.seed, level=level,
              coverage=coverage, assumptions=assumptions or [],
              wall_s=round(time.time() - ctx.t0, 1), violations=len(ctx.violations))
    if ctx.notes:
        ev["coverage"]["notes"] = ctx.notes
    if ctx.known:
        ev["coverage"]["known_findings_seen"] = [k for k, _ in ctx.known]
    ev["coverage"]["skipped_subruns"] = ctx.skipped
    # evidence/ describes runs against /repo itself; a run against another tree (VERIF_REPO: a
    # scratch worktree with a seeded change) leaves its evidence in the ignored replay area
    edir = os.path.join(VERIF, "evidence")
    if os.path.realpath(ctx.repo) != os.path.realpath("/repo"):
        edir = os.path.join(VERIF, "replays", "evidence-other-tree")
    os.makedirs(edir, exist_ok=True)
    p = os.path.join(edir, ctx.prop + ".json")
    tmp = p + ".tmp%d" % os.getpid()
    json.dump(ev, open(tmp, "w"), indent=1, default=str)
    os.replace(tmp, p)
    return p


def finish(ctx):
    for key, what in ctx.known:
        print("KNOWN-FINDING: property=%s %s [%s]" % (ctx.prop, what, key), flush=True)
    if ctx.violations:
        if len(ctx.violations) > 20:
            print("(%d further violations not printed)" % (len(ctx.violations) - 20))
        return 1
    print("OK property=%s tier=%s seed=%d wall=%.0fs" % (ctx.prop, ctx.tier, ctx.seed, time.time() - ctx.t0), flush=True)
    return 0


# ------------------------------------------------------------------- small utils

def read_ndjson(path):
    out = []
    with open(path) as f:
        for line in f:
            line = line.strip()
            if line:
                out.append(json.loads(line))
    return out


def write_ndjson(path, recs):
    with open(path, "w") as f:
        for r in recs:
            f.write(json.dumps(r, separators=(",", ":")) + "\n")


def parallel(fn, items, n=None):
    """Run fn(item) for all items on a thread pool (the work is in child processes)."""
    from concurrent.futures import ThreadPoolExecutor
    with ThreadPoolExecutor(max_workers=n or NCPU) as ex:
        return list(ex.map(fn, items))


# ------------------------------------------- deterministic-family trace validation

_re_mis = re.compile(r'^<<"MISMATCH", (\d+), (.*)>>$')


def validate_seq_trace(ctx, module, cfg, trace_path, tag, timeout=900, env=None, heap="3g"):
    """Validate one ndjson trace (segments separated by `reset`) with a trace spec of the
    'skip the rest of the segment after the first mismatch' kind.  Returns
    (consumed_all, [ (line_no, expected_text) ... ], TLCResult)."""
    e = {"ZR_TRACE": trace_path}
    if env:
        e.update(env)
    res = tlc(ctx, module, cfg, workers=1, timeout=timeout, env=e, tag=tag, heap=heap)
    mism = []
    for p in res.prints:
        m = _re_mis.match(p)
        if m:
            mism.append((int(m.group(1)), m.group(2)))
    consumed = res.ok
    return consumed, mism, res


def segment_of(events, line_no, reset_ev="reset"):
    """events: list of dicts (the trace); line_no: 1-based.  Returns (start_idx0, seg_events
    up to and including the failing line)."""
    i = line_no - 1
    s = i
    while s > 0 and events[s].get("ev") != reset_ev:
        s -= 1
    return s, events[s:i + 1]
