package main

// helpers shared by the ckptsim / syncsim / routesim drivers (properties C14, C19, C15)

import (
	"net"
	"strconv"
	"strings"
)

func ckErrStr(err error) string {
	if err == nil {
		return ""
	}
	return err.Error()
}

func ckAtoi(s string) int {
	v, err := strconv.Atoi(strings.TrimSpace(s))
	if err != nil {
		panic("bad int in label: " + s)
	}
	return v
}

// ckFreePorts asks the kernel for n free TCP ports on the loopback interface.
func ckFreePorts(n int) ([]int, error) {
	var ls []net.Listener
	var out []int
	defer func() {
		for _, l := range ls {
			l.Close()
		}
	}()
	for i := 0; i < n; i++ {
		l, err := net.Listen("tcp", "127.0.0.1:0")
		if err != nil {
			return nil, err
		}
		ls = append(ls, l)
		out = append(out, l.Addr().(*net.TCPAddr).Port)
	}
	return out, nil
}
