package main

// helpers shared by the ckptsim / syncsim / routesim drivers (properties C14, C19, C15)

import (
	"net"
	"strconv"
	"strings"
)

func ckErrStr(err error) string {
	if err == nil {
		return ""
	}
	return err.Error()
}

func ckAtoi(s string) int {
	v, err := strconv.Atoi(strings.TrimSpace(s))
	if err != nil {
		panic("bad int in label: " + s)
	}
	return v
}

// ckFreePorts asks the kernel for n free TCP ports on the loopback interface.
func ckFreePorts(n int) ([]int, error) {
	var ls []net.Listener
	var out []int
	defer func() {
		for _, l := range ls {
			l.Close()
		}
	}()
	for i := 0; i < n; i++ {
		l, err := net.Listen("tcp", "127.0.0.1:0")
		if err != nil {
			return nil, err
		}
		ls = append(ls, l)
		out = append(out, l.Addr().(*net.TCPAddr).Port)
	}
	return out, nil
}

// ckMix derives an independent random seed from (seed, n) (splitmix64 finaliser);
// consecutive seeds of math/rand give correlated first values.
func ckMix(seed, n int64) int64 {
	z := uint64(seed)*0x9e3779b97f4a7c15 + uint64(n)*0xbf58476d1ce4e5b9 + 0x94d049bb133111eb
	z = (z ^ (z >> 30)) * 0xbf58476d1ce4e5b9
	z = (z ^ (z >> 27)) * 0x94d049bb133111eb
	z ^= z >> 31
	return int64(z & 0x7fffffffffffffff)
}
