package main

// helpers shared by the ckptsim / syncsim / routesim drivers (properties C14, C19, C15)

import (
	"bufio"
	"fmt"
	"io/ioutil"
	"log"
	"net"
	"os"
	"path"
	"regexp"
	"strconv"
	"strings"
	"time"

	"github.com/youzan/ZanRedisDB/cluster"
	"github.com/youzan/ZanRedisDB/common"
	"github.com/youzan/ZanRedisDB/engine"
	"github.com/youzan/ZanRedisDB/node"
	"github.com/youzan/ZanRedisDB/rockredis"
	"github.com/youzan/ZanRedisDB/server"
	"github.com/youzan/ZanRedisDB/slow"
	"github.com/youzan/ZanRedisDB/transport/rafthttp"
	"zrverif/graph"
)

func ckErrStr(err error) string {
	if err == nil {
		return ""
	}
	return err.Error()
}

func ckAtoi(s string) int {
	v, err := strconv.Atoi(strings.TrimSpace(s))
	if err != nil {
		panic("bad int in label: " + s)
	}
	return v
}

// ckFreePorts asks the kernel for n free TCP ports on the loopback interface.
func ckFreePorts(n int) ([]int, error) {
	var ls []net.Listener
	var out []int
	defer func() {
		for _, l := range ls {
			l.Close()
		}
	}()
	for i := 0; i < n; i++ {
		l, err := net.Listen("tcp", "127.0.0.1:0")
		if err != nil {
			return nil, err
		}
		ls = append(ls, l)
		out = append(out, l.Addr().(*net.TCPAddr).Port)
	}
	return out, nil
}

// ckMix derives an independent random seed from (seed, n) (splitmix64 finaliser);
// consecutive seeds of math/rand give correlated first values.
func ckMix(seed, n int64) int64 {
	z := uint64(seed)*0x9e3779b97f4a7c15 + uint64(n)*0xbf58476d1ce4e5b9 + 0x94d049bb133111eb
	z = (z ^ (z >> 30)) * 0xbf58476d1ce4e5b9
	z = (z ^ (z >> 27)) * 0x94d049bb133111eb
	z ^= z >> 31
	return int64(z & 0x7fffffffffffffff)
}

// ckServer is a real data-node server in this process hosting P single-replica partitions
// (raft groups) of the namespace "default".
type ckServer struct {
	kv     *server.Server
	dir    string
	redis  int
	grpc   int
	nsConf []*node.NamespaceConfig
}

func ckSilence() {
	log.SetOutput(ioutil.Discard)
	slow.SetLogger(0, common.NewLogger())
	engine.SetLogLevel(0)
	rockredis.SetLogLevel(0)
	node.SetLogLevel(0)
	server.SetLogger(0, common.NewLogger())
	cluster.SetLogLevel(0)
	rafthttp.SetLogLevel(0)
}

// ckStartServer starts a server with partitions `hosted` (subset of 0..P-1) of namespace
// "default" (PartitionNum = P), engine `eng`, raft snapshot every snapCount entries.
func ckStartServer(dir, eng string, P int, hosted []int, snapCount int) (*ckServer, error) {
	ports, err := ckFreePorts(4)
	if err != nil {
		return nil, err
	}
	os.MkdirAll(dir, 0755)
	ioutil.WriteFile(path.Join(dir, "myid"), []byte("1"), common.FILE_PERM)
	raftAddr := "http://127.0.0.1:" + strconv.Itoa(ports[2])
	conf := server.ServerConfig{ClusterID: "verif", DataDir: dir, RedisAPIPort: ports[0], HttpAPIPort: ports[1],
		GrpcAPIPort: ports[3], ProfilePort: -1, LocalRaftAddr: raftAddr, BroadcastAddr: "127.0.0.1",
		TickMs: 20, ElectionTick: 5}
	conf.RocksDBOpts.EngineType = eng
	kv, err := server.NewServer(conf)
	if err != nil {
		return nil, err
	}
	cs := &ckServer{kv: kv, dir: dir, redis: ports[0], grpc: ports[3]}
	for _, p := range hosted {
		nc := node.NewNSConfig()
		nc.Name = "default-" + strconv.Itoa(p)
		nc.BaseName = "default"
		nc.EngType = rockredis.EngType
		nc.PartitionNum = P
		nc.Replicator = 1
		if snapCount > 0 {
			nc.SnapCount = snapCount
			nc.SnapCatchup = snapCount / 2
		}
		nc.RaftGroupConf.GroupID = uint64(1000 + p)
		nc.RaftGroupConf.SeedNodes = []node.ReplicaInfo{{NodeID: 1, ReplicaID: uint64(1 + p), RaftAddr: raftAddr}}
		nc.ExpirationPolicy = common.WaitCompactExpirationPolicy
		nc.DataVersion = common.ValueHeaderV1Str
		if _, err := kv.InitKVNamespace(uint64(1+p), nc, false); err != nil {
			return nil, err
		}
		cs.nsConf = append(cs.nsConf, nc)
	}
	kv.Start()
	return cs, nil
}

// addPartitions registers further partitions on the running server with partition number P
// (the namespace was re-created with another partition count while older partitions are
// still registered) and starts them.
func (cs *ckServer) addPartitions(P int, parts []int) error {
	raftAddr := cs.nsConf[0].RaftGroupConf.SeedNodes[0].RaftAddr
	for _, p := range parts {
		nc := node.NewNSConfig()
		nc.Name = "default-" + strconv.Itoa(p)
		nc.BaseName = "default"
		nc.EngType = rockredis.EngType
		nc.PartitionNum = P
		nc.Replicator = 1
		nc.RaftGroupConf.GroupID = uint64(2000 + p)
		nc.RaftGroupConf.SeedNodes = []node.ReplicaInfo{{NodeID: 1, ReplicaID: uint64(101 + p), RaftAddr: raftAddr}}
		nc.ExpirationPolicy = common.WaitCompactExpirationPolicy
		nc.DataVersion = common.ValueHeaderV1Str
		n, err := cs.kv.InitKVNamespace(uint64(101+p), nc, false)
		if err != nil {
			return err
		}
		if err := n.Start(false); err != nil {
			return err
		}
		cs.nsConf = append(cs.nsConf, nc)
	}
	return nil
}

// addNamespace hosts partitions `hosted` of a further namespace `base` (P partitions) on the
// running server.
func (cs *ckServer) addNamespace(base string, P int, hosted []int, gidBase int) error {
	raftAddr := cs.nsConf[0].RaftGroupConf.SeedNodes[0].RaftAddr
	for _, p := range hosted {
		nc := node.NewNSConfig()
		nc.Name = base + "-" + strconv.Itoa(p)
		nc.BaseName = base
		nc.EngType = rockredis.EngType
		nc.PartitionNum = P
		nc.Replicator = 1
		nc.RaftGroupConf.GroupID = uint64(gidBase + p)
		nc.RaftGroupConf.SeedNodes = []node.ReplicaInfo{{NodeID: 1, ReplicaID: uint64(gidBase + p), RaftAddr: raftAddr}}
		nc.ExpirationPolicy = common.WaitCompactExpirationPolicy
		nc.DataVersion = common.ValueHeaderV1Str
		n, err := cs.kv.InitKVNamespace(uint64(gidBase+p), nc, false)
		if err != nil {
			return err
		}
		if err := n.Start(false); err != nil {
			return err
		}
		cs.nsConf = append(cs.nsConf, nc)
	}
	return nil
}

// ckStartCluster starts n servers in this process that form ONE raft group (namespace
// default-0, n replicas).
func ckStartCluster(dir, eng string, n int) ([]*server.Server, error) {
	ports, err := ckFreePorts(4 * n)
	if err != nil {
		return nil, err
	}
	var seeds []node.ReplicaInfo
	for i := 0; i < n; i++ {
		seeds = append(seeds, node.ReplicaInfo{NodeID: uint64(1 + i), ReplicaID: uint64(1 + i),
			RaftAddr: "http://127.0.0.1:" + strconv.Itoa(ports[i*4+2])})
	}
	var kvs []*server.Server
	for i := 0; i < n; i++ {
		d := path.Join(dir, strconv.Itoa(i))
		os.MkdirAll(d, 0755)
		ioutil.WriteFile(path.Join(d, "myid"), []byte(strconv.Itoa(1+i)), common.FILE_PERM)
		conf := server.ServerConfig{ClusterID: "verif", DataDir: d, RedisAPIPort: ports[i*4], HttpAPIPort: ports[i*4+1],
			GrpcAPIPort: ports[i*4+3], ProfilePort: -1, LocalRaftAddr: seeds[i].RaftAddr, BroadcastAddr: "127.0.0.1",
			TickMs: 20, ElectionTick: 20}
		conf.RocksDBOpts.EngineType = eng
		kv, err := server.NewServer(conf)
		if err != nil {
			return kvs, err
		}
		nc := node.NewNSConfig()
		nc.Name, nc.BaseName, nc.EngType, nc.PartitionNum, nc.Replicator = "default-0", "default", rockredis.EngType, 1, n
		nc.SnapCount, nc.SnapCatchup = 1000000, 500000
		nc.RaftGroupConf.GroupID = 1000
		nc.RaftGroupConf.SeedNodes = seeds
		nc.ExpirationPolicy = common.WaitCompactExpirationPolicy
		nc.DataVersion = common.ValueHeaderV1Str
		if _, err := kv.InitKVNamespace(uint64(1+i), nc, false); err != nil {
			return kvs, err
		}
		kv.Start()
		kvs = append(kvs, kv)
	}
	return kvs, nil
}

// ckLeaderOf returns the index of the server whose replica of default-0 leads (-1: none in time).
func ckLeaderOf(kvs []*server.Server, wait time.Duration) int {
	deadline := time.Now().Add(wait)
	for {
		for i, kv := range kvs {
			n := kv.GetNamespaceFromFullName("default-0")
			if n != nil && n.IsReady() && n.Node.IsLead() {
				return i
			}
		}
		if time.Now().After(deadline) {
			return -1
		}
		time.Sleep(20 * time.Millisecond)
	}
}

// waitLeaders waits until every hosted partition has elected itself.
func (cs *ckServer) waitLeaders(d time.Duration) error {
	deadline := time.Now().Add(d)
	for _, nc := range cs.nsConf {
		for {
			n := cs.kv.GetNamespaceFromFullName(nc.Name)
			if n != nil && n.IsReady() && n.Node.IsLead() {
				break
			}
			if time.Now().After(deadline) {
				return fmt.Errorf("partition %s has no leader", nc.Name)
			}
			time.Sleep(20 * time.Millisecond)
		}
	}
	return nil
}

var reSimLabel = regexp.MustCompile(`^\\\* <([A-Za-z]+)(\(([^)]*)\))? line`)

// loadSimLabels reads one behaviour file written by `tlc -simulate file=...` and returns its
// action labels (names and integer arguments only).
func loadSimLabels(path string) ([]graph.Edge, error) {
	fh, err := os.Open(path)
	if err != nil {
		return nil, err
	}
	defer fh.Close()
	var out []graph.Edge
	sc := bufio.NewScanner(fh)
	sc.Buffer(make([]byte, 1<<20), 1<<24)
	for sc.Scan() {
		m := reSimLabel.FindStringSubmatch(sc.Text())
		if m == nil || m[1] == "Init" {
			continue
		}
		e := graph.Edge{Label: m[1] + m[2], Name: strings.TrimPrefix(m[1], "M")}
		if m[3] != "" {
			for _, a := range strings.Split(m[3], ",") {
				e.Args = append(e.Args, strings.TrimSpace(a))
			}
		}
		out = append(out, e)
	}
	return out, sc.Err()
}
