package main

// raftsim: single-goroutine deterministic driver of N x raft.Node (the real raft package
// of the repository) over MemoryStorage or RocksStorage(mem|pebble).  It executes a
// schedule - a seeded phased nemesis or a script derived from a TLC behaviour of
// spec/ZRaft.tla - and records one ndjson event per specification action with the
// arguments and the projected post state (DESIGN.md Appendix A).  It never judges:
// spec/ZRaftTrace.tla (TLC) decides.

import (
	"bufio"
	"context"
	"encoding/json"
	"flag"
	"fmt"
	"io/ioutil"
	"math/rand"
	"os"
	"reflect"
	"sort"
	"strconv"
	"strings"

	"github.com/youzan/ZanRedisDB/engine"
	"github.com/youzan/ZanRedisDB/raft"
	pb "github.com/youzan/ZanRedisDB/raft/raftpb"
	"zrverif/trace"
)

func init() { commands["raftsim"] = raftsim }

// ---------------------------------------------------------------- quiet logger

type rsLogger struct{}

func (rsLogger) Debug(v ...interface{})                   {}
func (rsLogger) Debugf(format string, v ...interface{})   {}
func (rsLogger) Error(v ...interface{})                   {}
func (rsLogger) Errorf(format string, v ...interface{})   {}
func (rsLogger) Info(v ...interface{})                    {}
func (rsLogger) Infof(format string, v ...interface{})    {}
func (rsLogger) Warning(v ...interface{})                 {}
func (rsLogger) Warningf(format string, v ...interface{}) {}
func (rsLogger) Fatal(v ...interface{})                   { panic(fmt.Sprint(v...)) }
func (rsLogger) Fatalf(format string, v ...interface{})   { panic(fmt.Sprintf(format, v...)) }
func (rsLogger) Panic(v ...interface{})                   { panic(fmt.Sprint(v...)) }
func (rsLogger) Panicf(format string, v ...interface{})   { panic(fmt.Sprintf(format, v...)) }

// ---------------------------------------------------------------- trace records

type rs_jent struct {
	T uint64 `json:"t"`
	K string `json:"k"`
	V uint64 `json:"v"`
}
type rs_jsnap struct {
	Idx      uint64   `json:"idx"`
	Term     uint64   `json:"term"`
	Voters   []uint64 `json:"voters"`
	Learners []uint64 `json:"learners"`
}
type rs_jmsg struct {
	T     string `json:"t"`
	From  uint64 `json:"from"`
	To    uint64 `json:"to"`
	Term  uint64 `json:"term"`
	LT    uint64 `json:"lt"`
	Idx   uint64 `json:"idx"`
	C     uint64 `json:"c"`
	Ents  []rs_jent `json:"ents"`
	Rej   bool   `json:"rej"`
	Hint  uint64 `json:"hint"`
	Snap  rs_jsnap  `json:"snap"`
	Force bool   `json:"force"`
}
type rs_jrd struct {
	Has    bool   `json:"has"`
	First  uint64 `json:"first"`
	Ents   []rs_jent `json:"ents"`
	HsSet  bool   `json:"hsset"`
	HTerm  uint64 `json:"hterm"`
	HVote  uint64 `json:"hvote"`
	HCmt   uint64 `json:"hcommit"`
	Snap   rs_jsnap  `json:"snap"`
	CFirst uint64 `json:"cfirst"`
	CEnts  []rs_jent `json:"cents"`
	More   bool   `json:"more"`
	NL     bool   `json:"nl"`
	Sync   bool   `json:"sync"`
	Msgs   []rs_jmsg `json:"msgs"`
	Reads  []rs_jread `json:"reads"`
}
type rs_jread struct {
	Ctx uint64 `json:"ctx"`
	Idx uint64 `json:"idx"`
}
type rs_jpost struct {
	Up       bool     `json:"up"`
	Term     uint64   `json:"term"`
	Vote     uint64   `json:"vote"`
	Role     string   `json:"role"`
	Lead     uint64   `json:"lead"`
	Commit   uint64   `json:"commit"`
	Applied  uint64   `json:"applied"`
	First    uint64   `json:"first"`
	Last     uint64   `json:"last"`
	LastTerm uint64   `json:"lastTerm"`
	Stable   uint64   `json:"stable"`
	PSnap    uint64   `json:"psnap"`
	Voters   []uint64 `json:"voters"`
	Learners []uint64 `json:"learners"`
	IsL      bool     `json:"isl"`
	PC       bool     `json:"pc"`
	Tr       uint64   `json:"tr"`
}
type rs_jdbg struct {
	Granted  []uint64          `json:"granted"`
	Rejected []uint64          `json:"rejected"`
	Match    map[string]uint64 `json:"match"`
	Step     int               `json:"step"`
	Phase    string            `json:"phase"`
}
type rs_jcfg struct {
	N        int      `json:"n"`
	Voters   []uint64 `json:"voters"`
	Learners []uint64 `json:"learners"`
	PreVote  bool     `json:"prevote"`
	CQ       bool     `json:"cq"`
	MaxSz    uint64   `json:"maxsz"`
	MaxCSz   uint64   `json:"maxcsz"`
	Storage  string   `json:"storage"`
	Seed     int64    `json:"seed"`
	Profile  string   `json:"profile"`
}
type rs_jev struct {
	Ev   string `json:"ev"`
	N    uint64 `json:"n"`
	M    rs_jmsg   `json:"m"`
	Out  []rs_jmsg `json:"out"`
	Rd   rs_jrd    `json:"rd"`
	CC   rs_jent   `json:"cc"`
	A    uint64 `json:"a"`
	B    uint64 `json:"b"`
	S    string `json:"s"`
	Cfg  rs_jcfg   `json:"cfg"`
	Post rs_jpost  `json:"post"`
	Dbg  rs_jdbg   `json:"dbg"`
}

func rs_nz(a []uint64) []uint64 {
	if a == nil {
		return []uint64{}
	}
	return a
}

func rs_kindOf(e pb.Entry) rs_jent {
	j := rs_jent{T: e.Term, K: "n"}
	if e.Type == pb.EntryConfChange {
		var cc pb.ConfChange
		if err := cc.Unmarshal(e.Data); err != nil {
			j.K = "bad"
			return j
		}
		j.V = cc.ReplicaID
		switch cc.Type {
		case pb.ConfChangeAddNode:
			j.K = "av"
		case pb.ConfChangeAddLearnerNode:
			j.K = "al"
		case pb.ConfChangeRemoveNode:
			j.K = "rm"
		default:
			j.K = "up"
		}
		return j
	}
	if len(e.Data) > 0 {
		// payload = decimal id, optionally followed by '.' padding (entries of unequal size)
		d := string(e.Data)
		if k := strings.IndexByte(d, '.'); k >= 0 {
			d = d[:k]
		}
		v, _ := strconv.ParseUint(d, 10, 64)
		j.V = v
	}
	return j
}

func rs_convEnts(es []pb.Entry) []rs_jent {
	out := make([]rs_jent, 0, len(es))
	for _, e := range es {
		out = append(out, rs_kindOf(e))
	}
	return out
}

func rs_convSnap(s pb.Snapshot) rs_jsnap {
	return rs_jsnap{Idx: s.Metadata.Index, Term: s.Metadata.Term,
		Voters: rs_nz(append([]uint64{}, s.Metadata.ConfState.Nodes...)), Learners: rs_nz(append([]uint64{}, s.Metadata.ConfState.Learners...))}
}

func rs_noSnap() rs_jsnap { return rs_jsnap{Voters: []uint64{}, Learners: []uint64{}} }

func rs_convMsg(m pb.Message) rs_jmsg {
	j := rs_jmsg{T: m.Type.String(), From: m.From, To: m.To, Term: m.Term, LT: m.LogTerm, Idx: m.Index, C: m.Commit,
		Rej: m.Reject, Hint: m.RejectHint, Ents: rs_convEnts(m.Entries), Snap: rs_noSnap(),
		Force: string(m.Context) == "CampaignTransfer"}
	if m.Type == pb.MsgSnap {
		j.Snap = rs_convSnap(m.Snapshot)
	}
	// on heartbeats, heartbeat responses and read-index messages `hint` carries the read request id
	switch m.Type {
	case pb.MsgHeartbeat, pb.MsgHeartbeatResp:
		if len(m.Context) > 0 {
			j.Hint, _ = strconv.ParseUint(string(m.Context), 10, 64)
		}
	case pb.MsgReadIndex, pb.MsgReadIndexResp:
		if len(m.Entries) > 0 {
			j.Hint, _ = strconv.ParseUint(string(m.Entries[0].Data), 10, 64)
		}
		j.Ents = []rs_jent{}
	}
	sort.Slice(j.Snap.Voters, func(a, b int) bool { return j.Snap.Voters[a] < j.Snap.Voters[b] })
	sort.Slice(j.Snap.Learners, func(a, b int) bool { return j.Snap.Learners[a] < j.Snap.Learners[b] })
	return j
}

// rs_wireCopy: a message crosses the wire by value; the receiver must not share the entry
// slice with the sender's log or with a duplicate still in flight (the leader rewrites the
// term of proposed entries in place).
func rs_wireCopy(m pb.Message) pb.Message {
	if len(m.Entries) > 0 {
		es := make([]pb.Entry, len(m.Entries))
		for i, e := range m.Entries {
			es[i] = e
			if e.Data != nil {
				es[i].Data = append([]byte{}, e.Data...)
			}
		}
		m.Entries = es
	}
	return m
}

func rs_noMsg() rs_jmsg { return rs_jmsg{T: "none", Ents: []rs_jent{}, Snap: rs_noSnap()} }
func rs_noRd() rs_jrd {
	return rs_jrd{Ents: []rs_jent{}, CEnts: []rs_jent{}, Snap: rs_noSnap(), Msgs: []rs_jmsg{}, Reads: []rs_jread{}}
}

// ---------------------------------------------------------------- simulation state

type rs_rep struct {
	id      uint64
	n       raft.Node
	st      raft.IExtRaftStorage
	started bool
	down    bool
	gone    bool // applied its own removal and was stopped for good
	learner bool // started in learner role

	rd        *raft.Ready
	pEnts     bool // entries (+snapshot) of rd persisted
	pHS       bool // hard state of rd persisted
	sent      bool
	newLeader bool

	pendq     []pb.Entry // handed out, not yet applied by the "application"
	rdConfEnd int        // number of leading pendq entries that belong to Readys that must be applied before send
	appIdx    uint64     // application's applied index
	appTerm   uint64
	confState pb.ConfState
	syncedHS  pb.HardState
	restarts  int
	snapSent  []uint64 // peers to which a MsgSnap left (ReportSnapshot owed)
	forceLoss bool
	stallLeft int
}

type rs_sim struct {
	rng      *rand.Rand
	w        *trace.Writer
	reps     map[uint64]*rs_rep
	ids      []uint64
	net      []pb.Message
	cfg      rs_jcfg
	elTick   int
	hbTick   int
	blocked  map[uint64]bool
	phase    string
	step     int
	nextVal  uint64
	allow1   bool
	dir      string
	storage  string
	diverged int
	scripted int
	cnt      map[string]int
	panicked bool
	removedEver map[uint64]bool
	autopipe bool
	noAvoid  bool
	slow     uint64 // replica that only gets one hand-out page per delivered message
	owed     [][3]uint64 // snapshot status reports owed to a busy sender: leader, peer, ok
	noApply  uint64      // replica whose application does NOT apply conf changes before Advance (study only)
	nextRead uint64
	side     map[uint64]int // network partition: messages only flow between replicas on the same side (nil = none)
}

func (s *rs_sim) inc(k string) { s.cnt[k]++ }

func rs_grp(id uint64) pb.Group { return pb.Group{NodeId: id, Name: "g", GroupId: 1, RaftReplicaId: id} }

func (s *rs_sim) config(r *rs_rep) *raft.Config {
	return &raft.Config{ID: r.id, Group: rs_grp(r.id), ElectionTick: s.elTick, HeartbeatTick: s.hbTick, Storage: r.st,
		MaxSizePerMsg: s.cfg.MaxSz, MaxCommittedSizePerReady: s.cfg.MaxCSz, MaxInflightMsgs: 8,
		PreVote: s.cfg.PreVote, CheckQuorum: s.cfg.CQ, Logger: rsLogger{}}
}

func (s *rs_sim) newStorage(id uint64) raft.IExtRaftStorage {
	if s.storage == "memory" {
		return raft.NewRealMemoryStorage()
	}
	dir, err := ioutil.TempDir(s.dir, "zrst")
	if err != nil {
		panic(err)
	}
	c := engine.NewRockConfig()
	c.DataDir = dir
	c.EngineType = strings.TrimPrefix(s.storage, "rocks-")
	c.DisableWAL = true
	eng, err := engine.NewKVEng(c)
	if err != nil {
		panic(err)
	}
	if err := eng.OpenEng(); err != nil {
		panic(err)
	}
	return raft.NewRocksStorage(id, 1, false, eng)
}

func (s *rs_sim) post(r *rs_rep) (rs_jpost, rs_jdbg) {
	d := rs_jdbg{Granted: []uint64{}, Rejected: []uint64{}, Match: map[string]uint64{}, Step: s.step, Phase: s.phase}
	if r.down || !r.started || r.n == nil {
		return rs_jpost{Up: false, Role: "down", Voters: []uint64{}, Learners: []uint64{}}, d
	}
	v := raft.VerifState(r.n)
	d.Granted, d.Rejected = rs_nz(v.Granted), rs_nz(v.Rejected)
	for k, m := range v.Match {
		d.Match[strconv.FormatUint(k, 10)] = m
	}
	return rs_jpost{Up: true, Term: v.Term, Vote: v.Vote, Role: v.Role, Lead: v.Lead, Commit: v.Commit, Applied: v.Applied,
		First: v.First, Last: v.Last, LastTerm: v.LastTerm, Stable: v.Offset - 1, PSnap: v.PendingSnap,
		Voters: rs_nz(v.Voters), Learners: rs_nz(v.Learners), IsL: v.IsLearner, PC: v.PendingConf, Tr: v.Transferee}, d
}

func (s *rs_sim) emit(r *rs_rep, e rs_jev) {
	e.N = r.id
	if e.M.T == "" {
		e.M = rs_noMsg()
	}
	if e.Out == nil {
		e.Out = []rs_jmsg{}
	}
	if e.Rd.Ents == nil {
		e.Rd = rs_noRd()
	}
	if e.Cfg.Voters == nil {
		e.Cfg = rs_jcfg{Voters: []uint64{}, Learners: []uint64{}}
	}
	if e.CC.K == "" {
		e.CC = rs_jent{K: "none"}
	}
	e.Post, e.Dbg = s.post(r)
	s.w.Emit(e)
}

func rs_sortMsgs(ms []pb.Message) []pb.Message {
	out := append([]pb.Message{}, ms...)
	sort.SliceStable(out, func(a, b int) bool { return out[a].To < out[b].To })
	return out
}

func rs_convMsgs(ms []pb.Message) []rs_jmsg {
	out := make([]rs_jmsg, 0, len(ms))
	for _, m := range ms {
		out = append(out, rs_convMsg(m))
	}
	return out
}

// guard runs f; a Go panic inside the code under test becomes a `panic` event.
func (s *rs_sim) guard(r *rs_rep, what string, f func()) (ok bool) {
	defer func() {
		if e := recover(); e != nil {
			s.panicked = true
			s.inc("panics")
			r.n = nil
			r.down = true
			r.rd = nil
			s.emit(r, rs_jev{Ev: "panic", S: what + ": " + fmt.Sprint(e)})
			ok = false
		}
	}()
	f()
	return true
}

func (s *rs_sim) live(r *rs_rep) bool { return r.started && !r.down && !r.gone && r.n != nil }

// take: call StepNode once after an input was enqueued (or with no input: ev == "poll");
// logs the input event and, if a Ready came back, the `ready` event.
func (s *rs_sim) take(r *rs_rep, e rs_jev, moreApply, busySnap bool) {
	var rd raft.Ready
	var has bool
	before := len(raft.VerifOutbox(r.n))
	pre := raft.VerifState(r.n)
	prePost, _ := s.post(r)
	if !s.guard(r, e.Ev, func() { rd, has = r.n.StepNode(moreApply, busySnap) }) {
		return
	}
	outAll := rs_sortMsgs(raft.VerifOutbox(r.n))
	_ = before
	postv := raft.VerifState(r.n)
	if e.Ev != "poll" {
		// messages produced by this input = the whole outbox minus what was there before
		all := raft.VerifOutbox(r.n)
		e.Out = rs_convMsgs(rs_sortMsgs(all[before:]))
		if busySnap {
			e.B = 1
		}
		// a tick that changed nothing the specification sees and produced nothing is not logged
		noop := len(e.Out) == 0 && !has && reflect.DeepEqual(prePost, func() rs_jpost { p, _ := s.post(r); return p }())
		if !(e.Ev == "tick" && noop) {
			s.emit(r, e)
		} else {
			s.inc("noop_ticks")
		}
		s.observeInput(r, e, pre, postv)
	}
	_ = outAll
	if !has {
		return
	}
	r.rd = &rd
	r.pEnts, r.pHS, r.sent = false, false, false
	r.newLeader = rd.SoftState != nil && rd.SoftState.RaftState == raft.StateLeader
	j := rs_noRd()
	j.Has = true
	if len(rd.Entries) > 0 {
		j.First = rd.Entries[0].Index
		j.Ents = rs_convEnts(rd.Entries)
	}
	if !raft.IsEmptyHardState(rd.HardState) {
		j.HsSet = true
		j.HTerm, j.HVote, j.HCmt = rd.HardState.Term, rd.HardState.Vote, rd.HardState.Commit
	}
	if !raft.IsEmptySnap(rd.Snapshot) {
		j.Snap = rs_convSnap(rd.Snapshot)
		s.inc("snapshot_installs")
	}
	if len(rd.CommittedEntries) > 0 {
		j.CFirst = rd.CommittedEntries[0].Index
		j.CEnts = rs_convEnts(rd.CommittedEntries)
		s.inc("handouts")
		if fi, la := rd.CommittedEntries[0].Index, rd.CommittedEntries[len(rd.CommittedEntries)-1].Index; fi < pre.Offset && la >= postv.Offset {
			s.inc("handouts_spanning_stable_and_unstable")
		}
		if fi := rd.CommittedEntries[0].Index; fi < pre.Offset && postv.Last >= postv.Offset && postv.Commit >= postv.Offset {
			s.inc("handouts_with_committed_unstable_behind_stable_backlog")
		}
		s.cnt["entries_handed_out"] += len(rd.CommittedEntries)
	}
	j.More = rd.MoreCommittedEntries
	if j.More {
		s.inc("paginated_handouts")
	}
	j.NL = r.newLeader
	j.Sync = rd.MustSync
	j.Msgs = rs_convMsgs(rs_sortMsgs(rd.Messages))
	for _, x := range rd.ReadStates {
		c, _ := strconv.ParseUint(string(x.RequestCtx), 10, 64)
		j.Reads = append(j.Reads, rs_jread{Ctx: c, Idx: x.Index})
		s.inc("read_states_handed_out")
	}
	// the application side: a snapshot supersedes everything queued before it
	if !raft.IsEmptySnap(rd.Snapshot) {
		r.pendq = nil
		r.rdConfEnd = 0
		r.appIdx, r.appTerm = rd.Snapshot.Metadata.Index, rd.Snapshot.Metadata.Term
		r.confState = rd.Snapshot.Metadata.ConfState
	}
	r.pendq = append(r.pendq, rd.CommittedEntries...)
	if !r.newLeader && s.noApply != r.id {
		// production waits for the configuration changes of this Ready to be applied before it
		// sends the Ready's messages and advances (node/raft.go processReady, waitApply)
		last := -1
		for i, en := range r.pendq {
			if en.Type == pb.EntryConfChange {
				last = i
			}
		}
		r.rdConfEnd = last + 1
	}
	s.emit(r, rs_jev{Ev: "ready", Rd: j})
}

func (s *rs_sim) observeInput(r *rs_rep, e rs_jev, pre, post raft.VState) {
	if post.Role == "StateLeader" && pre.Role != "StateLeader" {
		s.inc("leaders_elected")
	}
	if (post.Role == "StateCandidate" || post.Role == "StatePreCandidate") && (pre.Role != post.Role || pre.Term != post.Term) {
		s.inc("campaigns")
		contested, withLearner := false, false
		for _, id := range s.ids {
			o := s.reps[id]
			if o == r || !s.live(o) {
				continue
			}
			ov := raft.VerifState(o.n)
			if ov.Role != "StateFollower" {
				contested = true
			}
			if ov.IsLearner {
				withLearner = true
			}
		}
		if contested {
			s.inc("contested_elections")
		}
		if withLearner {
			s.inc("elections_with_learner_present")
		}
		if post.Commit > post.Applied {
			s.inc("campaigns_with_unapplied_entries")
		}
	}
	if e.Ev == "tick" && pre.Transferee != 0 && post.Transferee == 0 && post.Role == "StateLeader" {
		s.inc("transfer_aborted_by_timeout")
	}
	if e.Ev == "recv" {
		if e.M.T == "MsgVote" && post.Vote == e.M.From && (pre.Vote != post.Vote || pre.Term != post.Term) {
			s.inc("votes_granted")
			if pre.Term == post.Term {
				s.inc("votes_without_term_change")
			}
			if r.restarts > 0 {
				s.inc("votes_after_restart")
			}
		}
		if e.M.T == "MsgTimeoutNow" && post.Role == "StateCandidate" && pre.Role == "StateFollower" {
			s.inc("timeoutnow_campaigns")
		}
		if e.M.T == "MsgVote" && e.M.Force && post.Vote == e.M.From && pre.Lead != 0 && pre.Term < post.Term {
			s.inc("forced_votes_granted_while_leader_known")
		}
		if (e.M.T == "MsgVote" || e.M.T == "MsgPreVote") && post.IsLearner {
			s.inc("vote_requests_at_learner")
		}
		if e.M.T == "MsgApp" && (post.Last < pre.Last || (post.Last == pre.Last && post.LastTerm != pre.LastTerm)) {
			s.inc("divergent_suffix_truncations")
		}
		if e.M.T == "MsgSnap" && post.PendingSnap > 0 && pre.PendingSnap != post.PendingSnap {
			s.inc("snapshot_restores")
		}
	}
}

// ---- Ready pipeline

func (s *rs_sim) persist(r *rs_rep, part string) {
	rd := r.rd
	ok := s.guard(r, "persist", func() {
		if part == "all" || part == "ents" {
			if !raft.IsEmptySnap(rd.Snapshot) {
				r.st.ApplySnapshot(rd.Snapshot)
			}
			if err := r.st.Append(rd.Entries); err != nil {
				panic(err)
			}
			r.pEnts = true
		}
		if part == "all" || part == "hs" {
			if !raft.IsEmptyHardState(rd.HardState) {
				r.st.SetHardState(rd.HardState)
			}
			if !rd.MustSync && raft.IsEmptySnap(rd.Snapshot) && !raft.IsEmptyHardState(rd.HardState) &&
				(rd.HardState.Term != r.syncedHS.Term || rd.HardState.Vote != r.syncedHS.Vote) {
				// term or vote were written without a sync: schedule a power loss once the
				// messages of this Ready have left (scheduling only; TLC judges the restart)
				r.forceLoss = true
				s.inc("unsynced_term_or_vote_writes")
			}
			if rd.MustSync || !raft.IsEmptySnap(rd.Snapshot) {
				// a synchronous WAL write (and saving a snapshot) makes everything written so far durable
				r.syncedHS, _, _ = r.st.InitialState()
			}
			r.pHS = true
		}
	})
	if ok {
		s.emit(r, rs_jev{Ev: "persist", S: part})
	}
}

func (s *rs_sim) send(r *rs_rep) {
	for _, m := range rs_sortMsgs(r.rd.Messages) {
		if m.To == r.id || m.To == 0 {
			continue
		}
		s.net = append(s.net, m)
		if m.Type == pb.MsgSnap {
			s.inc("msgsnap_sent")
		}
	}
	r.sent = true
	s.emit(r, rs_jev{Ev: "send"})
}

func (s *rs_sim) advance(r *rs_rep) {
	rd := *r.rd
	if s.guard(r, "advance", func() { r.n.Advance(rd) }) {
		r.rd = nil
		s.emit(r, rs_jev{Ev: "advance"})
	}
}

// applyOne: the application applies the next queued entry; a conf change goes through
// ApplyConfChange, served on the driver goroutine the way processReady serves it.
func (s *rs_sim) applyOne(r *rs_rep) {
	if len(r.pendq) == 0 {
		return
	}
	e := r.pendq[0]
	r.pendq = r.pendq[1:]
	if r.rdConfEnd > 0 {
		r.rdConfEnd--
	}
	r.appIdx, r.appTerm = e.Index, e.Term
	if e.Type != pb.EntryConfChange {
		return
	}
	var cc pb.ConfChange
	cc.Unmarshal(e.Data)
	before := len(raft.VerifOutbox(r.n))
	ok := s.guard(r, "applyconf", func() {
		done := make(chan *pb.ConfState, 1)
		go func() { done <- r.n.ApplyConfChange(cc) }()
		c2 := <-r.n.ConfChangedCh()
		r.n.HandleConfChanged(c2)
		cs := <-done
		r.confState = *cs
	})
	if !ok {
		return
	}
	s.inc("conf_applied")
	all := raft.VerifOutbox(r.n)
	ev := rs_jev{Ev: "applyconf", CC: rs_kindOf(e), A: e.Index, Out: rs_convMsgs(rs_sortMsgs(all[before:]))}
	s.emit(r, ev)
	if cc.Type == pb.ConfChangeRemoveNode && cc.ReplicaID == r.id {
		// the data node stops its raft node when it applies its own removal
		r.gone = true
		r.down = true
		r.n = nil
		r.rd = nil
		s.inc("self_removed")
		s.emit(r, rs_jev{Ev: "crash", S: "removed", A: 0})
	}
}

func (s *rs_sim) applyThroughConf(r *rs_rep) {
	for s.live(r) && len(r.pendq) > 0 {
		isConf := r.pendq[0].Type == pb.EntryConfChange
		s.applyOne(r)
		if isConf {
			return
		}
	}
}

func (s *rs_sim) pipelineStep(r *rs_rep) {
	if r.rd == nil {
		return
	}
	persisted := r.pEnts && r.pHS
	switch {
	case !persisted && r.newLeader && !r.sent && s.rng.Intn(2) == 0:
		s.send(r) // processReady sends before it persists in the Ready that makes it leader
	case !persisted:
		if !raft.IsEmptySnap(r.rd.Snapshot) || s.rng.Intn(3) > 0 || r.pEnts {
			if r.pEnts {
				s.persist(r, "hs")
			} else {
				s.persist(r, "all")
			}
		} else {
			s.persist(r, "ents")
		}
	case !r.sent:
		if r.rdConfEnd > 0 {
			s.applyThroughConf(r)
			return
		}
		s.send(r)
	default:
		if r.rdConfEnd > 0 && !r.newLeader {
			s.applyThroughConf(r)
			return
		}
		s.advance(r)
	}
}

func (s *rs_sim) stageName(r *rs_rep) string {
	switch {
	case r.rd == nil:
		return "idle"
	case r.pEnts && r.pHS && r.sent:
		return "sent"
	case r.pEnts && r.pHS:
		return "persisted"
	case r.pEnts:
		return "ents"
	case r.sent:
		return "earlysent"
	}
	return "taken"
}

func (s *rs_sim) crash(r *rs_rep) {
	stage := s.stageName(r)
	v := raft.VerifState(r.n)
	if v.Commit > uint64(len(s.cfg.Voters)) {
		s.inc("crash_after_commit_" + stage)
	}
	s.inc("crashes")
	lost := uint64(0)
	hs, _, _ := r.st.InitialState()
	if (hs.Term != r.syncedHS.Term || hs.Vote != r.syncedHS.Vote || hs.Commit != r.syncedHS.Commit) && (r.forceLoss || s.rng.Intn(2) == 0) {
		// the last hard state write was not one that had to be synced (Ready.MustSync false):
		// a crash may lose it
		r.st.SetHardState(r.syncedHS)
		lost = 1
		s.inc("unsynced_hardstate_lost")
	}
	r.n = nil
	r.rd = nil
	r.down = true
	r.pendq = nil
	r.rdConfEnd = 0
	r.forceLoss = false
	s.emit(r, rs_jev{Ev: "crash", S: stage, A: lost})
}

func (s *rs_sim) restart(r *rs_rep) {
	if hs0, _, _ := r.st.InitialState(); raft.IsEmptyHardState(hs0) {
		if li, _ := r.st.LastIndex(); li == 0 {
			// nothing was ever persisted: there is no WAL, so the data node bootstraps again
			// (node/raft.go startRaft: !wal.Exist -> StartNode with the configured peers)
			r.down = false
			r.restarts++
			s.inc("rebootstraps")
			s.startNode(r, r.learner)
			return
		}
	}
	// production rebuilds the raft storage from the newest snapshot and the WAL entries behind
	// it (node/raft.go replayWAL): nothing at or below the snapshot index survives a restart
	snap, _ := r.st.Snapshot()
	if old, isRocks := r.st.(*raft.RocksStorage); isRocks {
		// cold caches: a new RocksStorage object over the same engine, rebuilt the way replayWAL
		// rebuilds the raft storage (ApplySnapshot, SetHardState, Append of the entries behind the
		// snapshot) - the entries are what the ENGINE holds, read without the old object's caches
		hs, _, _ := old.InitialState()
		ns := raft.NewRocksStorage(r.id, 1, false, old.Eng())
		var ents []pb.Entry
		if fi, e1 := ns.FirstIndex(); e1 == nil {
			if li, e2 := ns.LastIndex(); e2 == nil {
				lo := fi
				if snap.Metadata.Index+1 > lo {
					lo = snap.Metadata.Index + 1
				}
				if li >= lo {
					ents, _ = ns.Entries(lo, li+1, 1<<62)
					ents = append([]pb.Entry{}, ents...)
				}
			}
		}
		if snap.Metadata.Index > 0 {
			ns.ApplySnapshot(snap)
		}
		ns.SetHardState(hs)
		if len(ents) > 0 {
			ns.Append(ents)
		}
		r.st = ns
	} else if snap.Metadata.Index > 0 {
		r.st.Compact(snap.Metadata.Index)
	}
	r.appIdx, r.appTerm = snap.Metadata.Index, snap.Metadata.Term
	r.confState = snap.Metadata.ConfState
	ok := s.guard(r, "restart", func() { r.n = raft.RestartNode(s.config(r)) })
	if !ok {
		return
	}
	r.down = false
	r.restarts++
	s.inc("restarts")
	s.emit(r, rs_jev{Ev: "restart"})
}

func (s *rs_sim) start(r *rs_rep, learner bool) {
	r.st = s.newStorage(r.id)
	s.startNode(r, learner)
}

func (s *rs_sim) startNode(r *rs_rep, learner bool) {
	r.learner = learner
	var peers []raft.Peer
	boot := false
	for _, v := range s.cfg.Voters {
		if v == r.id {
			boot = true
		}
	}
	if boot {
		for _, v := range s.cfg.Voters {
			peers = append(peers, raft.Peer{NodeID: v, ReplicaID: v})
		}
	}
	r.n = raft.StartNode(s.config(r), peers, learner)
	r.started = true
	e := rs_jev{Ev: "start", A: 0}
	if boot {
		e.A = 1
	}
	if learner {
		e.B = 1
	}
	s.emit(r, e)
}

// snapshot: the application snapshots at its applied index and compacts the raft storage.
func (s *rs_sim) snapshot(r *rs_rep) {
	li, _ := r.st.LastIndex()
	snap, _ := r.st.Snapshot()
	if r.appIdx == 0 || r.appIdx > li || r.appIdx <= snap.Metadata.Index {
		return
	}
	cs := r.confState
	var err error
	ok := s.guard(r, "snapshot", func() { _, err = r.st.CreateSnapshot(r.appIdx, &cs, nil) })
	if !ok || err != nil {
		return
	}
	s.inc("snapshots_taken")
	r.syncedHS, _, _ = r.st.InitialState() // saving a snapshot syncs the WAL
	js := rs_jsnap{Idx: r.appIdx, Term: r.appTerm, Voters: rs_nz(append([]uint64{}, cs.Nodes...)), Learners: rs_nz(append([]uint64{}, cs.Learners...))}
	sort.Slice(js.Voters, func(a, b int) bool { return js.Voters[a] < js.Voters[b] })
	sort.Slice(js.Learners, func(a, b int) bool { return js.Learners[a] < js.Learners[b] })
	ev := rs_jev{Ev: "snapshot", A: r.appIdx}
	ev.Rd = rs_noRd()
	ev.Rd.Snap = js
	s.emit(r, ev)
	keep := uint64(s.rng.Intn(3))
	if r.appIdx > keep {
		if s.guard(r, "compact", func() { err = r.st.Compact(r.appIdx - keep) }) && err == nil {
			s.inc("compactions")
			s.emit(r, rs_jev{Ev: "compact", A: r.appIdx - keep})
		}
	}
}

// ---- inputs

func (s *rs_sim) leaderID() uint64 {
	var best uint64
	var bt uint64
	for _, id := range s.ids {
		r := s.reps[id]
		if s.live(r) {
			v := raft.VerifState(r.n)
			if v.Role == "StateLeader" && v.Term >= bt {
				best, bt = id, v.Term
			}
		}
	}
	return best
}

func (s *rs_sim) tick(r *rs_rep) {
	r.n.Tick()
	s.inc("ticks")
	s.take(r, rs_jev{Ev: "tick"}, s.moreApplyFor(r), false)
}

// moreApplyFor: the application's apply queue has room (StepNode's moreEntriesToApply).  Besides
// single refusals there are "apply stalls": several consecutive Readys are taken with
// moreApply=false, so the applied cursor lags while entries keep committing across the
// stable/unstable boundary (hand-outs then span storage and unstable entries under the size cap).
func (s *rs_sim) moreApplyFor(r *rs_rep) bool {
	if r.stallLeft > 0 {
		r.stallLeft--
		s.inc("stalled_steps")
		return false
	}
	p := 14
	if s.cfg.Profile == "stall" {
		p = 5
	}
	if s.rng.Intn(p) == 0 {
		r.stallLeft = 3 + s.rng.Intn(7)
		s.inc("apply_stalls")
		return false
	}
	return true
}

func (s *rs_sim) campaign(r *rs_rep) {
	r.n.Campaign(context.TODO())
	s.take(r, rs_jev{Ev: "campaign"}, s.moreApplyFor(r), false)
}

func (s *rs_sim) propose(r *rs_rep) {
	s.nextVal++
	v := s.nextVal
	data := strconv.FormatUint(v, 10)
	big := 2
	if s.cfg.Profile == "stall" {
		big = 4
	}
	if x := s.rng.Intn(10); x < big {
		data += strings.Repeat(".", 1900+s.rng.Intn(200)) // a 2000-byte entry among small ones: size limits cut in odd places
	} else if x == big {
		data += strings.Repeat(".", 150+s.rng.Intn(100))
	}
	r.n.Propose(context.TODO(), []byte(data))
	s.inc("proposals")
	s.take(r, rs_jev{Ev: "propose", A: v}, s.moreApplyFor(r), false)
}

func rs_contains(a []uint64, x uint64) bool {
	for _, y := range a {
		if y == x {
			return true
		}
	}
	return false
}

func (s *rs_sim) proposeConfRandom(r *rs_rep) {
	v := raft.VerifState(r.n)
	target := s.ids[s.rng.Intn(len(s.ids))]
	t := s.reps[target]
	if t.gone {
		return
	}
	var typ pb.ConfChangeType
	switch {
	case rs_contains(v.Voters, target):
		if len(v.Voters) <= 2 && !s.allow1 {
			return
		}
		if target == r.id {
			// the leader is not asked to remove itself: the driver stops a replica as soon as it
			// applies its own removal (as the data node does), and a leader that stops before the
			// others learn the commit index can leave a group whose only other up-to-date voter
			// cannot win an election (observed: the promoted learner still lags) - liveness only
			s.inc("leader_self_removal_avoided")
			return
		}
		if len(v.Voters) <= 1 {
			return
		}
		typ = pb.ConfChangeRemoveNode
	case rs_contains(v.Learners, target):
		if s.rng.Intn(3) > 0 {
			typ = pb.ConfChangeAddNode
		} else {
			typ = pb.ConfChangeRemoveNode
		}
	default:
		if s.rng.Intn(2) == 0 {
			typ = pb.ConfChangeAddNode
		} else {
			typ = pb.ConfChangeAddLearnerNode
		}
	}
	s.proposeConf(r, typ, target)
}

func (s *rs_sim) proposeConf(r *rs_rep, typ pb.ConfChangeType, target uint64) {
	t := s.reps[target]
	if t == nil || t.gone {
		return
	}
	if typ == pb.ConfChangeRemoveNode {
		s.removedEver[target] = true
	} else if s.removedEver[target] {
		// replica ids are not reused: a replica whose removal was ever proposed is not added again
		return
	}
	if !t.started {
		s.start(t, typ == pb.ConfChangeAddLearnerNode)
	}
	cc := pb.ConfChange{Type: typ, ReplicaID: target, NodeGroup: rs_grp(target)}
	r.n.ProposeConfChange(context.TODO(), cc)
	s.inc("conf_proposals")
	d, _ := cc.Marshal()
	k := rs_kindOf(pb.Entry{Type: pb.EntryConfChange, Data: d})
	s.take(r, rs_jev{Ev: "proposeconf", CC: k}, s.moreApplyFor(r), false)
}

// readsOK: read requests are part of every run.  (Until the fix of finding
// raft-readindex-counts-learner-acks they were kept out of runs in which a learner can exist.)
func (s *rs_sim) readsOK() bool { return true }

// scenarioStaleReadViaLearner (profile readlearner; the schedule of the fixed finding
// raft-readindex-counts-learner-acks, now a strict stage): the leader is
// partitioned away together with its learner, the other voters elect a new leader and commit,
// a read is requested at the old leader: only the learner acknowledges the heartbeat round.
func (s *rs_sim) scenarioStaleReadViaLearner() {
	s.phase = "stale-read-via-learner"
	l := s.electLeader()
	if l == 0 || len(s.cfg.Learners) == 0 {
		return
	}
	lr := s.reps[l]
	lid := s.cfg.Learners[0]
	s.finishReady(lr)
	s.proposeConf(lr, pb.ConfChangeAddLearnerNode, lid)
	s.calmRounds(8)
	if !s.live(s.reps[lid]) || !rs_contains(raft.VerifState(lr.n).Learners, lid) {
		return
	}
	s.side = map[uint64]int{}
	for _, id := range s.ids {
		s.side[id] = 2
	}
	s.side[l], s.side[lid] = 1, 1
	var l2 uint64
	for k := 0; k < 120 && l2 == 0 && !s.panicked; k++ {
		for _, id := range s.ids {
			r := s.reps[id]
			if s.side[id] != 2 || !s.live(r) {
				continue
			}
			s.drain(r)
			if v := raft.VerifState(r.n); v.Role == "StateLeader" {
				l2 = id
			} else if s.live(r) && r.rd == nil {
				s.tick(r)
			}
		}
		s.calmRounds(1)
	}
	if l2 != 0 {
		s.finishReady(s.reps[l2])
		if s.reps[l2].rd == nil {
			s.proposeSized(s.reps[l2], 0)
		}
		s.calmRounds(4)
	}
	if s.live(lr) && raft.VerifState(lr.n).Role == "StateLeader" {
		s.finishReady(lr)
		s.readIndex(lr)
		s.inc("scenario_stale_read_requested")
		s.calmRounds(4)
	}
	s.side = nil
}

// readIndex: a linearizable read request (Node.ReadIndex) issued at r; the ReadState comes back
// in a later Ready of the same replica.
func (s *rs_sim) readIndex(r *rs_rep) {
	s.nextRead++
	id := 5000 + s.nextRead
	r.n.ReadIndex(context.TODO(), []byte(strconv.FormatUint(id, 10)))
	s.inc("read_requests")
	s.take(r, rs_jev{Ev: "readindex", A: id}, s.moreApplyFor(r), false)
}

func (s *rs_sim) transfer(r *rs_rep, to uint64) {
	r.n.TransferLeadership(context.TODO(), r.id, to)
	s.inc("transfers")
	s.take(r, rs_jev{Ev: "transfer", A: to}, s.moreApplyFor(r), false)
}

func (s *rs_sim) deliver(i int, keep bool, busySnap bool) {
	m := s.net[i]
	if !keep {
		s.net = append(s.net[:i], s.net[i+1:]...)
	} else {
		s.inc("duplicated_deliveries")
	}
	r := s.reps[m.To]
	if !s.live(r) || r.rd != nil {
		if m.Type == pb.MsgSnap {
			s.reportSnap(m.From, m.To, false)
		}
		return
	}
	if m.Type == pb.MsgProp && raft.VerifState(r.n).Lead == 0 {
		// a forwarded proposal at a node without a known leader would sit in the node's proposal
		// queue and be stepped together with a later input; the driver treats it as lost
		s.inc("drops")
		return
	}
	jm := rs_convMsg(m)
	r.n.Step(context.TODO(), rs_wireCopy(m))
	s.inc("deliveries")
	s.take(r, rs_jev{Ev: "recv", M: jm}, s.moreApplyFor(r), busySnap)
	if m.Type == pb.MsgSnap {
		s.reportSnap(m.From, m.To, true)
	}
}

// reportSnap: the transport reports the outcome of a snapshot transfer to the sender
// (ReportSnapshot).  The report is never lost: if the sender is busy with a Ready it is owed
// and delivered as soon as the sender is idle (flushReports); a sender that crashed forgets.
func (s *rs_sim) reportSnap(leader, peer uint64, ok bool) {
	l := s.reps[leader]
	if !s.live(l) {
		return
	}
	if l.rd != nil {
		s.owed = append(s.owed, [3]uint64{leader, peer, map[bool]uint64{true: 1, false: 0}[ok]})
		return
	}
	st := raft.SnapshotFinish
	e := rs_jev{Ev: "reportsnap", A: peer, B: 1}
	if !ok {
		st = raft.SnapshotFailure
		e.B = 0
	}
	l.n.ReportSnapshot(peer, rs_grp(peer), st)
	s.take(l, e, s.moreApplyFor(l), false)
}

func (s *rs_sim) flushReports() {
	if len(s.owed) == 0 {
		return
	}
	owed := s.owed
	s.owed = nil
	for _, o := range owed {
		if l := s.reps[o[0]]; s.live(l) {
			s.reportSnap(o[0], o[1], o[2] == 1) // re-queues itself if the sender is still busy
		}
	}
}

func (s *rs_sim) cut(from, to uint64) bool {
	return s.blocked[to] || s.blocked[from] || (s.side != nil && s.side[from] != s.side[to])
}

func (s *rs_sim) eligible() []int {
	var el []int
	for j, m := range s.net {
		if s.cut(m.From, m.To) {
			continue
		}
		t := s.reps[m.To]
		if t == nil || !s.live(t) || t.rd != nil {
			continue
		}
		el = append(el, j)
	}
	return el
}

// ---- the seeded phased nemesis

func (s *rs_sim) liveIDs() []uint64 {
	var out []uint64
	for _, id := range s.ids {
		if s.live(s.reps[id]) {
			out = append(out, id)
		}
	}
	return out
}

func (s *rs_sim) newPhase() int {
	s.blocked = map[uint64]bool{}
	x := s.rng.Intn(100)
	live := s.liveIDs()
	if l := s.leaderID(); l != 0 && s.rng.Intn(5) == 0 {
		if lv := raft.VerifState(s.reps[l].n); len(lv.Learners) > 0 {
			// the leader reaches only its learners: every other voter is cut off
			// (a commit must still need a voter majority)
			s.phase = "leader-with-learners"
			for _, id := range lv.Voters {
				if id != l {
					s.blocked[id] = true
				}
			}
			s.inc("phases_leader_with_learners")
			return 60 + s.rng.Intn(80)
		}
	}
	switch {
	case x < 22:
		s.phase = "calm"
		return 40 + s.rng.Intn(60)
	case x < 50:
		s.phase = "isolate-leader"
		if l := s.leaderID(); l != 0 {
			s.blocked[l] = true
		} else if len(live) > 0 {
			s.blocked[live[s.rng.Intn(len(live))]] = true
		}
		s.inc("phases_isolate_leader")
		return 50 + s.rng.Intn(120)
	case x < 68:
		s.phase = "partition"
		for _, id := range live {
			if s.rng.Intn(5) < 2 {
				s.blocked[id] = true
			}
		}
		s.inc("phases_partition")
		return 50 + s.rng.Intn(100)
	case x < 86:
		s.phase = "crashy"
		s.inc("phases_crashy")
		return 60 + s.rng.Intn(80)
	default:
		s.phase = "chaos"
		return 40 + s.rng.Intn(80)
	}
}

func (s *rs_sim) downCount() int {
	n := 0
	for _, id := range s.ids {
		r := s.reps[id]
		if r.started && r.down && !r.gone {
			n++
		}
	}
	return n
}

func (s *rs_sim) randomStep() {
	s.flushReports()
	id := s.ids[s.rng.Intn(len(s.ids))]
	// half of the steps go to whoever has something to do: a delivery or a pipeline stage
	if s.rng.Intn(100) < 55 {
		var busy []uint64
		for _, x := range s.ids {
			if o := s.reps[x]; s.live(o) && o.rd != nil {
				busy = append(busy, x)
			}
		}
		el := s.eligible()
		if len(busy) > 0 && (len(el) == 0 || s.rng.Intn(2) == 0) {
			id = busy[s.rng.Intn(len(busy))]
		} else if len(el) > 0 {
			id = s.net[el[s.rng.Intn(len(el))]].To
			if r := s.reps[id]; s.live(r) && r.rd == nil {
				s.deliverSome(r)
				return
			}
		}
	}
	r := s.reps[id]
	if !r.started || r.gone {
		return
	}
	if r.down {
		p := 12
		if s.phase == "crashy" {
			p = 5
		}
		if s.rng.Intn(p) == 0 {
			s.restart(r)
		}
		return
	}
	if r.forceLoss && (r.rd == nil || r.sent) && !(r.learner) {
		s.crash(r)
		return
	}
	crashP := 400
	if s.phase == "crashy" {
		crashP = 14
	} else if s.phase == "chaos" {
		crashP = 60
	}
	if r.rd != nil {
		if s.rng.Intn(crashP) == 0 && s.downCount() < len(s.ids) {
			s.crash(r)
			return
		}
		if len(r.pendq) > 0 && s.rng.Intn(4) == 0 {
			s.applyThroughConf(r)
			return
		}
		s.pipelineStep(r)
		return
	}
	if s.rng.Intn(crashP*2) == 0 {
		s.crash(r)
		return
	}
	x := s.rng.Intn(100)
	v := raft.VerifState(r.n)
	isLeader := v.Role == "StateLeader"
	if s.readsOK() && (s.rng.Intn(16) == 0 || (s.phase == "leader-with-learners" && s.rng.Intn(5) == 0)) {
		// at any replica: served by the leader, forwarded by a follower, dropped without a leader;
		// two times out of three at the current leader (if it is idle)
		t := r
		if l := s.leaderID(); l != 0 && s.rng.Intn(3) > 0 && s.reps[l].rd == nil {
			t = s.reps[l]
		}
		s.readIndex(t)
		return
	}
	if s.cfg.Profile == "stall" && isLeader && s.rng.Intn(5) == 0 {
		s.propose(r)
		return
	}
	if !isLeader && v.Commit > v.Applied && s.rng.Intn(4) == 0 {
		s.campaign(r) // a campaign while committed entries (possibly a configuration change) are unapplied
		return
	}
	switch {
	case x < 3:
		s.campaign(r)
	case x < 22:
		s.tick(r)
	case x < 32:
		if isLeader {
			s.propose(r)
		} else if s.rng.Intn(4) == 0 && v.Lead != 0 {
			// proposal at a follower that knows a leader: forwarded as MsgProp.  (Without a known
			// leader the node queues proposals and steps them together with a later input; the
			// driver keeps one input per StepNode so that every step can be logged.)
			s.propose(r)
		} else {
			s.tick(r)
		}
	case x < 36:
		if isLeader && s.cfg.Profile != "noconf" && s.cfg.Profile != "growone" && s.cfg.Profile != "snapdiv" && s.cfg.Profile != "shrinkq" && s.cfg.Profile != "readlearner" && s.cfg.Profile != "lostvote" && s.cfg.Profile != "learnervote" {
			s.proposeConfRandom(r)
		} else {
			s.tick(r)
		}
	case x < 38:
		if isLeader && len(v.Voters) > 1 {
			to := v.Voters[s.rng.Intn(len(v.Voters))]
			if s.rng.Intn(6) == 0 && len(v.Learners) > 0 {
				to = v.Learners[0]
			}
			s.transfer(r, to)
		}
	case x < 43:
		if len(r.pendq) > 0 {
			s.applyThroughConf(r)
		} else {
			s.take(r, rs_jev{Ev: "poll"}, true, false)
		}
	case x < 46:
		s.snapshot(r)
	case x < 47:
		if isLeader {
			peer := s.ids[s.rng.Intn(len(s.ids))]
			r.n.ReportUnreachable(peer, rs_grp(peer))
			s.take(r, rs_jev{Ev: "unreachable", A: peer}, s.moreApplyFor(r), false)
		}
	default:
		s.deliverSome(r)
	}
}

func (s *rs_sim) deliverSome(r *rs_rep) {
	id := r.id
	{
		el := s.eligible()
		var mine []int
		for _, j := range el {
			if s.net[j].To == id {
				mine = append(mine, j)
			}
		}
		if len(mine) == 0 {
			if s.rng.Intn(2) == 0 {
				s.tick(r)
			} else {
				s.take(r, rs_jev{Ev: "poll"}, true, false)
			}
			return
		}
		i := mine[s.rng.Intn(len(mine))]
		if s.phase == "calm" {
			i = mine[0]
		}
		y := s.rng.Intn(100)
		dropP, dupP := 4, 8
		if s.phase == "chaos" {
			dropP, dupP = 12, 15
		}
		if s.phase == "calm" {
			dropP, dupP = 0, 0
		}
		if y < dropP {
			m := s.net[i]
			s.net = append(s.net[:i], s.net[i+1:]...)
			s.inc("drops")
			if m.Type == pb.MsgSnap {
				s.reportSnap(m.From, m.To, false)
			}
			return
		}
		s.deliver(i, y < dropP+dupP, s.rng.Intn(25) == 0)
	}
}

// ---- directed scenario (from MC_ZRaft_Conf behaviours): a learner is promoted, the voters
// apply the promotion while the learner is cut off, one of them campaigns, and the vote
// request reaches the replica while it still is a learner in its own applied configuration.
func (s *rs_sim) scenarioLearnerVote() {
	l := s.leaderID()
	if l == 0 || s.reps[l].rd != nil {
		return
	}
	lv := raft.VerifState(s.reps[l].n)
	if len(lv.Learners) == 0 || lv.PendingConf || lv.Transferee != 0 {
		return
	}
	L := lv.Learners[0]
	if !s.live(s.reps[L]) || s.removedEver[L] {
		return
	}
	s.inc("scenario_learner_vote_started")
	old := s.phase
	s.phase = "calm"
	s.blocked = map[uint64]bool{L: true}
	s.proposeConf(s.reps[l], pb.ConfChangeAddNode, L)
	var V uint64
	for k := 0; k < 400 && V == 0 && !s.panicked; k++ {
		s.randomStep()
		for _, id := range s.ids {
			r := s.reps[id]
			if id != L && s.live(r) && rs_contains(raft.VerifState(r.n).Voters, L) && raft.VerifState(r.n).Role != "StateLeader" {
				V = id
			}
		}
	}
	if V != 0 && s.live(s.reps[V]) {
		v := s.reps[V]
		s.drain(v)
		if s.live(v) && v.rd == nil {
			s.campaign(v)
			s.drain(v)
		}
		s.blocked = map[uint64]bool{}
		lr := s.reps[L]
		for pass := 0; pass < 4; pass++ {
			for j := 0; j < len(s.net); j++ {
				m := s.net[j]
				if m.To == L && (m.Type == pb.MsgVote || m.Type == pb.MsgPreVote) && s.live(lr) {
					s.drain(lr)
					if lr.rd == nil && raft.VerifState(lr.n).IsLearner {
						s.inc("scenario_learner_vote_delivered")
					}
					s.deliver(j, false, false)
					j--
				}
			}
		}
	}
	s.blocked = map[uint64]bool{}
	s.phase = old
}

// scenarioLearnerVoteDirected (profile learnervote): scenarioLearnerVote for every learner named on
// the command line, up front and independent of the nemesis' dice - the learner is added, the group
// settles, then the promotion / cut-off / campaign / delivery schedule runs.
func (s *rs_sim) scenarioLearnerVoteDirected() {
	for _, L := range s.cfg.Learners {
		for try := 0; try < 6 && !s.panicked; try++ {
			s.blocked = map[uint64]bool{}
			if s.electLeader() == 0 {
				return
			}
			s.calmRounds(2)
			l := s.leaderID()
			if l == 0 {
				continue
			}
			lr := s.reps[l]
			if lr.rd != nil {
				s.finishReady(lr)
			}
			lv := raft.VerifState(lr.n)
			if rs_contains(lv.Voters, L) {
				break
			}
			if lv.PendingConf || lr.rd != nil {
				s.calmRounds(2)
				continue
			}
			if !rs_contains(lv.Learners, L) {
				s.proposeConf(lr, pb.ConfChangeAddLearnerNode, L)
				s.calmRounds(4)
				continue
			}
			before := s.cnt["scenario_learner_vote_delivered"]
			s.scenarioLearnerVote()
			s.calmRounds(3)
			if s.cnt["scenario_learner_vote_delivered"] > before {
				break
			}
		}
	}
	s.blocked = map[uint64]bool{}
}

// finishReady completes the outstanding Ready of r (persist, owed conf changes, send, advance)
// without applying or polling anything else.
func (s *rs_sim) finishReady(r *rs_rep) {
	for k := 0; k < 16 && s.live(r) && r.rd != nil; k++ {
		switch {
		case !(r.pEnts && r.pHS):
			s.persist(r, "all")
		case r.rdConfEnd > 0:
			s.applyThroughConf(r)
		case !r.sent:
			s.send(r)
		default:
			s.advance(r)
		}
	}
}

// calmRounds: n rounds in which every unblocked live replica completes its pipeline and
// applies, the leader ticks once, and everything in flight between unblocked replicas is delivered.
func (s *rs_sim) calmRounds(n int) {
	for k := 0; k < n && !s.panicked; k++ {
		s.flushReports()
		for _, id := range s.ids {
			if r := s.reps[id]; s.live(r) && !s.blocked[id] {
				s.settleOne(r)
			}
		}
		if l := s.leaderID(); l != 0 && !s.blocked[l] && s.reps[l].rd == nil {
			s.tick(s.reps[l])
			s.drain(s.reps[l])
		}
		batch := s.net
		s.net = nil
		for _, m := range batch {
			if s.cut(m.From, m.To) {
				s.net = append(s.net, m)
				continue
			}
			r := s.reps[m.To]
			if r == nil || !s.live(r) {
				continue
			}
			s.settleOne(r)
			if !s.live(r) || r.rd != nil || (m.Type == pb.MsgProp && raft.VerifState(r.n).Lead == 0) {
				continue
			}
			jm := rs_convMsg(m)
			r.n.Step(context.TODO(), rs_wireCopy(m))
			s.inc("deliveries")
			// the slow replica's application only has room when an append with entries arrives
			ma := s.slow != r.id || (m.Type == pb.MsgApp && len(m.Entries) > 0)
			s.take(r, rs_jev{Ev: "recv", M: jm}, ma, false)
			s.settleOne(r)
			if m.Type == pb.MsgSnap {
				if l := s.reps[m.From]; s.live(l) {
					s.drain(l)
				}
				s.reportSnap(m.From, m.To, true)
			}
		}
	}
}

// settleOne: complete r's pipeline and apply everything - except for the replica marked slow,
// which only completes its outstanding Ready (one hand-out page per delivered message).
func (s *rs_sim) settleOne(r *rs_rep) {
	if s.noApply == r.id {
		s.finishReady(r)
		return
	}
	if s.slow == r.id {
		s.finishReady(r)
		for s.live(r) && r.rd == nil && len(r.pendq) > 0 {
			s.applyThroughConf(r)
		}
		return
	}
	s.drain(r)
}

func (s *rs_sim) proposeSized(r *rs_rep, size int) {
	s.nextVal++
	v := s.nextVal
	data := strconv.FormatUint(v, 10)
	if size > 0 {
		data += strings.Repeat(".", size)
	}
	r.n.Propose(context.TODO(), []byte(data))
	s.inc("proposals")
	s.take(r, rs_jev{Ev: "propose", A: v}, true, false)
}

// scenarioStallCatchup (profile stall; from the restart rule of MC_ZRaft_Crash and the hand-out
// pagination of TakeReady): a follower persists a run of committed entries of mixed sizes
// (small, ~2000 bytes, small ...), crashes, the others commit more entries, the follower
// restarts (applied = snapshot index: a multi-page backlog of stable committed entries) and
// works through the backlog one Ready page per delivered message while the leader's catch-up
// appends (entries and a commit index that covers them in one message) keep arriving.
func (s *rs_sim) scenarioStallCatchup() {
	s.phase = "stall-catchup"
	for k := 0; k < 80 && s.leaderID() == 0 && !s.panicked; k++ {
		for _, id := range s.ids {
			if r := s.reps[id]; s.live(r) {
				s.drain(r)
				if s.live(r) && r.rd == nil && s.leaderID() == 0 {
					s.tick(r)
				}
			}
		}
		s.calmRounds(1)
	}
	l := s.leaderID()
	if l == 0 {
		return
	}
	s.calmRounds(3)
	lv := raft.VerifState(s.reps[l].n)
	var f uint64
	for _, id := range lv.Voters {
		if id != l && s.live(s.reps[id]) && !s.reps[id].learner {
			f = id
		}
	}
	if f == 0 {
		return
	}
	sizes := func(n int) []int {
		out := make([]int, n)
		for i := range out {
			switch s.rng.Intn(10) {
			case 0, 1, 2:
				out[i] = 1900 + s.rng.Intn(200)
			case 3:
				out[i] = 150 + s.rng.Intn(100)
			}
		}
		return out
	}
	fr := s.reps[f]
	withRestart := s.rng.Intn(3) > 0
	if !withRestart {
		// the variant without a restart: the follower's application stalls while the first run
		// of entries commits (a stable, committed, unapplied backlog), then the follower lags
		s.slow = f
		fr.stallLeft = 1 << 20
	}
	for _, sz := range sizes(10 + s.rng.Intn(5)) {
		if lr := s.reps[s.leaderID()]; s.leaderID() != 0 && s.live(lr) && lr.rd == nil {
			s.proposeSized(lr, sz)
		}
		s.calmRounds(2)
	}
	if !s.live(fr) {
		return
	}
	if withRestart {
		s.drain(fr)
		s.crash(fr)
	} else {
		s.finishReady(fr)
		s.blocked = map[uint64]bool{f: true}
	}
	for _, sz := range sizes(5 + s.rng.Intn(4)) {
		if lr := s.reps[s.leaderID()]; s.leaderID() != 0 && s.live(lr) && lr.rd == nil {
			s.proposeSized(lr, sz)
		}
		s.calmRounds(2)
	}
	if fr.down && !fr.gone {
		s.restart(fr)
	}
	fr.stallLeft = 0
	s.blocked = map[uint64]bool{}
	if !s.live(fr) {
		return
	}
	s.inc("scenario_stall_catchup_started")
	s.slow = f
	s.calmRounds(40)
	s.slow = 0
	s.calmRounds(2)
}

// electLeader: fair ticks and deliveries until some replica leads (bounded).
func (s *rs_sim) electLeader() uint64 {
	for k := 0; k < 80 && s.leaderID() == 0 && !s.panicked; k++ {
		for _, id := range s.ids {
			if r := s.reps[id]; s.live(r) && !s.blocked[id] {
				s.drain(r)
				if s.live(r) && r.rd == nil && s.leaderID() == 0 {
					s.tick(r)
				}
			}
		}
		s.calmRounds(1)
	}
	s.calmRounds(3)
	return s.leaderID()
}

// deliverTo delivers every message in flight from `from` to `to` of type t (bounded), each
// followed by the receiver's complete Ready pipeline.
func (s *rs_sim) deliverTo(from, to uint64, t pb.MessageType) int {
	n := 0
	for pass := 0; pass < 4; pass++ {
		for j := 0; j < len(s.net); j++ {
			m := s.net[j]
			if m.From == from && m.To == to && m.Type == t {
				r := s.reps[to]
				if !s.live(r) {
					return n
				}
				s.finishReady(r)
				s.deliver(j, false, false)
				if s.live(r) {
					s.finishReady(r)
				}
				n++
				j--
			}
		}
	}
	return n
}

// scenarioVoteSameTerm (PreVote and CheckQuorum off, >= 3 voters; from MC_ZRaft_Election_00
// behaviours with two candidates in one term): voter B reaches term T by REJECTING candidate C
// (C's log is behind) and then grants its vote, still in term T, to candidate A - a hard state
// write that changes the vote but not the term.  What happens to that write across a crash is
// for the specification to judge (PersistHS: a vote is must-sync).
func (s *rs_sim) scenarioVoteSameTerm() {
	s.phase = "vote-same-term"
	a := s.electLeader()
	if a == 0 {
		return
	}
	av := raft.VerifState(s.reps[a].n)
	var others []uint64
	for _, id := range av.Voters {
		if id != a && s.live(s.reps[id]) {
			others = append(others, id)
		}
	}
	if len(others) < 2 {
		return
	}
	b, c := others[0], others[1]
	ar, br, cr := s.reps[a], s.reps[b], s.reps[c]
	s.blocked = map[uint64]bool{}
	for _, id := range others[1:] {
		s.blocked[id] = true // only B keeps up
	}
	if ar.rd != nil {
		s.finishReady(ar)
	}
	s.propose(ar)
	s.calmRounds(3)
	// C campaigns while A is cut off: B rejects (C's log is behind) and moves to C's term
	s.blocked = map[uint64]bool{a: true}
	for _, id := range others[2:] {
		s.blocked[id] = true
	}
	if !s.live(cr) || !s.live(br) {
		s.blocked = map[uint64]bool{}
		return
	}
	s.finishReady(cr)
	s.campaign(cr)
	s.finishReady(cr)
	s.deliverTo(c, b, pb.MsgVote)
	// A restarts (a follower of the old term with the complete log), campaigns for the same
	// term as C and asks B
	if !s.live(ar) {
		s.blocked = map[uint64]bool{}
		return
	}
	s.finishReady(ar)
	s.crash(ar)
	if ar.down && !ar.gone {
		s.restart(ar)
	}
	if !s.live(ar) {
		s.blocked = map[uint64]bool{}
		return
	}
	s.drain(ar)
	s.blocked = map[uint64]bool{}
	for _, id := range others[1:] {
		s.blocked[id] = true
	}
	if s.live(ar) && raft.VerifState(ar.n).Role != "StateLeader" {
		s.campaign(ar)
		s.finishReady(ar)
		if s.deliverTo(a, b, pb.MsgVote) > 0 {
			s.inc("scenario_vote_same_term_delivered")
		}
	}
	s.blocked = map[uint64]bool{}
}

// scenarioLostVote (profile lostvote; PreVote and CheckQuorum off, 5 voters; from MC_ZRaft_Crash
// behaviours with a crash between the hard state write and a second candidate of the same term):
// voter B answers candidate A's vote request for term T and loses power right after the answer
// left; restarted, it is asked by candidate D, who could not hear A and campaigns for the same
// term T.  Variant 0: B's vote comes with the move to term T (one write changes term and vote).
// Variant 1: B reaches term T first by REJECTING candidate C (whose log is behind), so the vote for
// A changes the vote only.  Whether the write survives the power loss is decided by the sync flag
// the real node computed (the driver is the disk); what B may answer D afterwards is for the
// specification to judge on the following lines (VoteOncePerTerm, ElectionSafety).
func (s *rs_sim) scenarioLostVote(variant int) {
	s.phase = "lost-vote"
	s.blocked = map[uint64]bool{}
	if s.electLeader() == 0 {
		return
	}
	s.calmRounds(3)
	b := s.leaderID()
	if b == 0 {
		return
	}
	bv := raft.VerifState(s.reps[b].n)
	var others []uint64
	for _, id := range bv.Voters {
		if id != b && s.live(s.reps[id]) {
			others = append(others, id)
		}
	}
	if len(others) < 3 {
		return
	}
	a, d, c := others[0], others[1], others[2]
	ar, br, dr, cr := s.reps[a], s.reps[b], s.reps[d], s.reps[c]
	blockAll := func() {
		s.blocked = map[uint64]bool{}
		for _, id := range s.ids {
			s.blocked[id] = true
		}
	}
	defer func() { s.blocked = map[uint64]bool{} }()
	if variant == 1 {
		// C misses one committed entry
		s.blocked = map[uint64]bool{c: true}
		if br.rd != nil {
			s.finishReady(br)
		}
		s.propose(br)
		s.calmRounds(3)
	}
	blockAll()
	for _, id := range s.ids {
		if r := s.reps[id]; s.live(r) {
			s.finishReady(r)
		}
	}
	if !s.live(ar) || !s.live(br) || !s.live(dr) || !s.live(cr) {
		return
	}
	if variant == 1 {
		s.campaign(cr)
		s.finishReady(cr)
		if s.deliverTo(c, b, pb.MsgVote) == 0 {
			return
		}
	}
	s.campaign(ar)
	s.finishReady(ar)
	if !s.live(br) || s.deliverTo(a, b, pb.MsgVote) == 0 || !s.live(br) {
		return
	}
	s.finishReady(br)
	// power loss at B: whatever was written without a sync is gone
	br.forceLoss = true
	s.crash(br)
	if br.down && !br.gone {
		s.restart(br)
	}
	if !s.live(br) {
		return
	}
	s.drain(br)
	if !s.live(dr) || raft.VerifState(dr.n).Term >= raft.VerifState(ar.n).Term {
		return
	}
	s.campaign(dr)
	s.finishReady(dr)
	if s.live(br) && s.deliverTo(d, b, pb.MsgVote) > 0 {
		s.inc("scenario_lost_vote_second_candidate_asked")
	}
	s.deliverTo(b, a, pb.MsgVoteResp)
	s.deliverTo(b, d, pb.MsgVoteResp)
	s.blocked = map[uint64]bool{}
	s.calmRounds(3)
}

// scenarioDivergentSuffix (rocks-* storages; from MC_ZRaft_Log behaviours with a leader change):
// leader A persists a run of entries nobody else gets, the others elect B and commit FEWER
// entries, then A hears from B again - either an append that truncates A's longer suffix and
// leaves a SHORTER log (variant 0), or, after B snapshotted and compacted, a snapshot installed
// over A's longer divergent log (variant 1).  What A's storage holds afterwards is what a
// restart (and raftLog.lastIndex) will see.
func (s *rs_sim) scenarioDivergentSuffix(variant int) {
	s.phase = "divergent-suffix"
	s.blocked = map[uint64]bool{}
	a := s.electLeader()
	if a == 0 {
		return
	}
	ar := s.reps[a]
	av := raft.VerifState(ar.n)
	for _, id := range s.ids {
		if id != a {
			s.blocked[id] = true
		}
	}
	for i := 0; i < 3+s.rng.Intn(3) && s.live(ar); i++ {
		s.finishReady(ar)
		if s.live(ar) && ar.rd == nil {
			s.proposeSized(ar, 0)
		}
	}
	if !s.live(ar) {
		s.blocked = map[uint64]bool{}
		return
	}
	s.finishReady(ar)
	s.blocked = map[uint64]bool{a: true}
	var b uint64
	for k := 0; k < 120 && b == 0 && !s.panicked; k++ {
		for _, id := range av.Voters {
			r := s.reps[id]
			if id == a || !s.live(r) {
				continue
			}
			s.drain(r)
			if v := raft.VerifState(r.n); v.Role == "StateLeader" && v.Term > av.Term {
				b = id
			} else if s.live(r) && r.rd == nil {
				s.tick(r)
			}
		}
		s.calmRounds(1)
	}
	if b == 0 {
		s.blocked = map[uint64]bool{}
		return
	}
	br := s.reps[b]
	s.calmRounds(2)
	if s.live(br) && br.rd == nil {
		s.proposeSized(br, 0)
	}
	s.calmRounds(3)
	if variant == 1 && s.live(br) {
		s.drain(br)
		before := s.cnt["snapshots_taken"]
		s.snapshot(br)
		if s.cnt["snapshots_taken"] > before {
			if snap, _ := br.st.Snapshot(); snap.Metadata.Index > 0 {
				br.st.Compact(snap.Metadata.Index) // the follower must need the snapshot
			}
		}
	}
	if variant == 1 {
		// what B sent to A while A was cut off is lost: A first hears from B after the compaction
		kept := s.net[:0]
		for _, m := range s.net {
			if m.To != a && m.From != a {
				kept = append(kept, m)
			}
		}
		s.net = kept
	}
	s.inc("scenario_divergent_suffix_healed")
	s.blocked = map[uint64]bool{}
	s.calmRounds(8)
	if variant == 0 && s.live(ar) {
		// what does a restart (cold storage caches) see after the suffix was replaced by a shorter one?
		s.drain(ar)
		if s.live(ar) && ar.rd == nil {
			s.crash(ar)
			if ar.down && !ar.gone {
				s.restart(ar)
			}
			s.calmRounds(3)
		}
	}
}

// applyPages: the application of r takes hand-out pages (one StepNode each) and applies them
// until it has applied index upto (needs MaxCommittedSizePerReady = 1 for exact control).
func (s *rs_sim) applyPages(r *rs_rep, upto uint64) {
	for k := 0; k < 40 && s.live(r) && r.appIdx < upto; k++ {
		s.finishReady(r)
		for s.live(r) && len(r.pendq) > 0 && r.appIdx < upto {
			s.applyOne(r)
		}
		if !s.live(r) || r.appIdx >= upto || r.rd != nil {
			continue
		}
		s.take(r, rs_jev{Ev: "poll"}, true, false)
		s.finishReady(r)
	}
}

// scenarioSnapshotOverDivergentTail (profile snapdiv: 5 voters, CheckQuorum off,
// MaxCommittedSizePerReady = 1; a family derived from MC_ZRaft_Log behaviours with three
// leaderships): leader X (term t) gets two entries to Y only; Z is elected in t+1 by the three
// that lack them and appends entries of its own that nobody gets; Y is elected in t+2, commits
// X's entries, snapshots right at the last of them (an index whose term is t), compacts; Z
// returns: its probe is rejected and Y sends the snapshot.  Z's log is LONGER than the snapshot
// and its tail has a HIGHER term but diverges.  variant 1: Z appends nothing after its election
// (tail of equal length); variant 2: Z is cut off before it even appends (shorter log, plain
// catch-up by snapshot).  What Z may do with that snapshot is the restore rule of the design.
func (s *rs_sim) scenarioSnapshotOverDivergentTail(variant int) {
	s.phase = "snapshot-divergent-tail"
	s.blocked = map[uint64]bool{}
	x := s.electLeader()
	if x == 0 {
		return
	}
	xr := s.reps[x]
	xv := raft.VerifState(xr.n)
	var o []uint64
	for _, id := range xv.Voters {
		if id != x && s.live(s.reps[id]) {
			o = append(o, id)
		}
	}
	if len(o) < 4 {
		return
	}
	y, z, a, b := o[0], o[1], o[2], o[3]
	yr, zr := s.reps[y], s.reps[z]
	s.calmRounds(3)
	// 1. X's entries reach Y only
	s.blocked = map[uint64]bool{z: true, a: true, b: true}
	for i := 0; i < 2 && s.live(xr); i++ {
		s.finishReady(xr)
		if xr.rd == nil {
			s.proposeSized(xr, 0)
		}
		s.calmRounds(2)
	}
	base := raft.VerifState(xr.n).Last
	// 2. Z is elected by Z, a, b; nothing it appends afterwards is replicated
	s.blocked = map[uint64]bool{x: true, y: true}
	if variant != 2 {
		for k := 0; k < 10 && s.live(zr) && raft.VerifState(zr.n).Role != "StateLeader"; k++ {
			s.finishReady(zr)
			if k%5 == 0 && zr.rd == nil {
				s.campaign(zr)
			}
			s.calmRounds(1)
		}
		if !s.live(zr) || raft.VerifState(zr.n).Role != "StateLeader" {
			s.blocked = map[uint64]bool{}
			return
		}
		s.blocked[z] = true
		s.finishReady(zr)
		if variant == 0 {
			for i := 0; i < 2 && s.live(zr); i++ {
				if zr.rd == nil {
					s.proposeSized(zr, 0)
				}
				s.finishReady(zr)
			}
		}
	}
	// 3. Y is elected by X, Y, a, b and commits X's entries (its application stalls meanwhile)
	s.blocked = map[uint64]bool{z: true}
	yr.stallLeft = 1 << 20
	for k := 0; k < 25 && s.live(yr) && raft.VerifState(yr.n).Role != "StateLeader"; k++ {
		s.finishReady(yr)
		if k%5 == 0 && yr.rd == nil {
			s.campaign(yr)
		}
		s.slow = y
		s.calmRounds(1)
	}
	if !s.live(yr) || raft.VerifState(yr.n).Role != "StateLeader" {
		s.slow, yr.stallLeft = 0, 0
		s.blocked = map[uint64]bool{}
		return
	}
	for k := 0; k < 8 && s.live(yr) && raft.VerifState(yr.n).Commit < base+1; k++ {
		s.calmRounds(1)
	}
	s.slow, yr.stallLeft = 0, 0
	if !s.live(yr) || raft.VerifState(yr.n).Commit < base {
		s.blocked = map[uint64]bool{}
		return
	}
	// 4. Y's application applies exactly up to X's last entry, snapshots there and compacts
	s.applyPages(yr, base)
	if !s.live(yr) || yr.appIdx != base {
		s.blocked = map[uint64]bool{}
		return
	}
	before := s.cnt["snapshots_taken"]
	s.snapshot(yr)
	if s.cnt["snapshots_taken"] == before {
		s.blocked = map[uint64]bool{}
		return
	}
	yr.st.Compact(base)
	s.drain(yr)
	// 5. Z returns; what it was sent while cut off is lost
	kept := s.net[:0]
	for _, m := range s.net {
		if m.To != z && m.From != z {
			kept = append(kept, m)
		}
	}
	s.net = kept
	s.inc("scenario_snapshot_divergent_tail_healed")
	s.blocked = map[uint64]bool{}
	s.calmRounds(10)
}

// scenarioShrinkingQuorum (profile shrinkq - a STUDY, not part of any registered tier: it breaks
// the application contract on purpose).  5 voters, PreVote/CheckQuorum off.  Replica C advances
// the Readys that hand out "remove X" and "remove Y" WITHOUT applying them (what node/raft.go
// processReady never does: it waits for the configuration changes of a Ready before Advance),
// campaigns with its stale 5-voter configuration, collects X's vote, applies both removals
// (quorum 3 -> 2) and then counts {C, X} as a quorum of {L, C, B} on the next response, while B
// is elected in the same term by L.
func (s *rs_sim) scenarioShrinkingQuorum() {
	s.phase = "shrinking-quorum"
	l := s.electLeader()
	if l == 0 {
		return
	}
	lr := s.reps[l]
	lv := raft.VerifState(lr.n)
	var o []uint64
	for _, id := range lv.Voters {
		if id != l {
			o = append(o, id)
		}
	}
	if len(o) < 4 {
		return
	}
	c, b, x, y := o[0], o[1], o[2], o[3]
	cr, br := s.reps[c], s.reps[b]
	s.calmRounds(3)
	s.noApply = c
	s.blocked = map[uint64]bool{x: true, y: true}
	for _, id := range []uint64{x, y} {
		s.finishReady(lr)
		if !s.live(lr) || lr.rd != nil {
			return
		}
		s.proposeConf(lr, pb.ConfChangeRemoveNode, id)
		s.calmRounds(5)
	}
	if len(raft.VerifState(lr.n).Voters) != 3 || len(raft.VerifState(cr.n).Voters) != 5 || len(cr.pendq) < 2 {
		s.inc("scenario_shrinking_quorum_setup_failed")
		return
	}
	// C campaigns with the stale configuration and gets X's vote
	s.blocked = map[uint64]bool{}
	s.finishReady(cr)
	s.campaign(cr)
	s.finishReady(cr)
	s.deliverTo(c, x, pb.MsgVote)
	s.deliverTo(x, c, pb.MsgVoteResp)
	// B campaigns in the same term and is elected by L
	s.finishReady(br)
	s.campaign(br)
	s.finishReady(br)
	s.deliverTo(b, l, pb.MsgVote)
	s.deliverTo(l, b, pb.MsgVoteResp)
	// now C's application applies the two removals ...
	for k := 0; k < 4 && s.live(cr) && len(cr.pendq) > 0; k++ {
		s.applyThroughConf(cr)
	}
	// ... and the next response (B's rejection) makes C count its votes against the smaller set
	s.deliverTo(c, b, pb.MsgVote)
	s.deliverTo(b, c, pb.MsgVoteResp)
	s.inc("scenario_shrinking_quorum_done")
	s.noApply = 0
}

// scenarioTransferRaces (>= 3 voters; from MC behaviours with FTransfer): leadership transfer
// racing a configuration change and crashes.
//  variant 0: "remove T" is proposed and still unapplied when the leader is asked to transfer to T;
//             T gets MsgTimeoutNow, campaigns with the force flag (inside the lease under CheckQuorum).
//  variant 1: the leader crashes right after MsgTimeoutNow left; T campaigns, the old leader restarts.
//  variant 2: T crashes before MsgTimeoutNow arrives; the leader's transfer times out (ticks), it
//             accepts proposals again; T restarts.
// A committed entry proposed just before the transfer must survive all of them (the invariants).
func (s *rs_sim) scenarioTransferRaces(variant int) {
	s.phase = "transfer-races"
	s.blocked = map[uint64]bool{}
	l := s.electLeader()
	if l == 0 {
		return
	}
	lr := s.reps[l]
	lv := raft.VerifState(lr.n)
	var t uint64
	for _, id := range lv.Voters {
		if id != l && s.live(s.reps[id]) && !s.reps[id].learner {
			t = id
		}
	}
	if t == 0 || len(lv.Voters) < 3 {
		return
	}
	tr := s.reps[t]
	s.calmRounds(2)
	s.finishReady(lr)
	if lr.rd == nil {
		s.proposeSized(lr, 0)
	}
	s.calmRounds(2)
	if !s.live(lr) || raft.VerifState(lr.n).Role != "StateLeader" {
		return
	}
	s.finishReady(lr)
	switch variant {
	case 0:
		if len(lv.Voters) > 3 && !s.removedEver[t] && s.cfg.Profile == "mixed" {
			s.blocked = map[uint64]bool{t: true} // T lags: the transfer has to wait for it
			s.proposeConf(lr, pb.ConfChangeRemoveNode, t)
			s.finishReady(lr)
			s.blocked = map[uint64]bool{}
		}
		if s.live(lr) && lr.rd == nil {
			s.transfer(lr, t)
		}
		s.calmRounds(6)
	case 1:
		s.transfer(lr, t)
		s.finishReady(lr) // MsgTimeoutNow (or the catch-up append) has left
		s.calmRounds(1)
		if s.live(lr) {
			s.finishReady(lr)
			s.crash(lr)
		}
		s.calmRounds(5)
		if lr.down && !lr.gone {
			s.restart(lr)
		}
		s.calmRounds(4)
	default:
		s.blocked = map[uint64]bool{t: true}
		s.transfer(lr, t)
		s.finishReady(lr)
		if s.live(tr) {
			s.finishReady(tr)
			s.crash(tr)
		}
		s.blocked = map[uint64]bool{}
		for k := 0; k < 3*s.elTick && s.live(lr); k++ { // the transfer times out
			s.finishReady(lr)
			if lr.rd == nil {
				s.tick(lr)
			}
		}
		s.finishReady(lr)
		if s.live(lr) && lr.rd == nil && raft.VerifState(lr.n).Role == "StateLeader" {
			s.proposeSized(lr, 0) // accepted again once the transfer was aborted
		}
		if tr.down && !tr.gone {
			s.restart(tr)
		}
		s.calmRounds(5)
	}
	s.inc("scenario_transfer_races_done")
}

// scenarioGrowOne (profile growone; from MC_ZRaft_Conf behaviours and the restart rule): the
// group grows from the single voter 1; replica 1 snapshots while it is alone, more than one
// Ready page of ordinary entries and then AddNode 2, AddNode 3 follow in its log; 1 crashes,
// the others elect a leader, 1 restarts from the old snapshot (membership {1}) and its election
// timer fires before the application has re-applied the configuration entries.
func (s *rs_sim) scenarioGrowOne() {
	s.phase = "grow-one"
	r1 := s.reps[1]
	if !s.live(r1) {
		return
	}
	s.drain(r1)
	s.campaign(r1)
	s.drain(r1)
	if !s.live(r1) || raft.VerifState(r1.n).Role != "StateLeader" {
		return
	}
	for i := 0; i < 3; i++ {
		s.propose(r1)
		s.drain(r1)
	}
	s.snapshot(r1)
	for i := 0; i < 4+s.rng.Intn(3); i++ {
		s.propose(r1)
		s.drain(r1)
	}
	for _, id := range []uint64{2, 3} {
		if s.reps[id] == nil || !s.live(r1) || r1.rd != nil {
			return
		}
		s.proposeConf(r1, pb.ConfChangeAddNode, id)
		s.calmRounds(8)
	}
	if !s.live(r1) || r1.rd != nil {
		return
	}
	s.propose(r1)
	s.calmRounds(4)
	if !s.live(r1) || len(raft.VerifState(r1.n).Voters) < 3 {
		return
	}
	s.drain(r1)
	s.crash(r1)
	for k := 0; k < 60 && !s.panicked; k++ {
		if l := s.leaderID(); l != 0 && l != 1 {
			break
		}
		for _, id := range []uint64{2, 3} {
			if r := s.reps[id]; s.live(r) {
				s.drain(r)
				if s.live(r) && r.rd == nil {
					s.tick(r)
				}
			}
		}
		s.calmRounds(1)
	}
	s.calmRounds(2)
	if r1.down && !r1.gone {
		s.restart(r1)
	}
	if !s.live(r1) {
		return
	}
	s.inc("scenario_grow_one_restarted")
	s.blocked = map[uint64]bool{1: true}
	r1.stallLeft = 1 << 20 // the application has not re-applied anything yet
	for k := 0; k < 3*s.elTick && s.live(r1) && !s.panicked; k++ {
		s.finishReady(r1)
		if s.live(r1) && r1.rd == nil {
			s.tick(r1)
		}
	}
	s.finishReady(r1)
	r1.stallLeft = 0
	s.blocked = map[uint64]bool{}
}

// ---- heal and settle (logical time): every live replica gets fair rounds of one tick,
// delivery of everything in flight, a complete Ready pipeline and a complete apply.

func (s *rs_sim) drain(r *rs_rep) {
	for k := 0; k < 64 && s.live(r); k++ {
		if r.rd != nil {
			switch {
			case !(r.pEnts && r.pHS):
				if r.pEnts {
					s.persist(r, "hs")
				} else {
					s.persist(r, "all")
				}
			case r.rdConfEnd > 0:
				s.applyThroughConf(r)
			case !r.sent:
				s.send(r)
			default:
				s.advance(r)
			}
			continue
		}
		if len(r.pendq) > 0 {
			s.applyThroughConf(r)
			continue
		}
		before := s.w.N
		s.take(r, rs_jev{Ev: "poll"}, true, false)
		if r.rd == nil && s.w.N == before {
			return
		}
	}
}

func (s *rs_sim) settledNow() bool {
	l := s.leaderID()
	if l == 0 {
		return false
	}
	lv := raft.VerifState(s.reps[l].n)
	if lv.Commit != lv.Last || lv.Applied != lv.Commit || len(s.reps[l].pendq) > 0 {
		return false
	}
	members := append(append([]uint64{}, lv.Voters...), lv.Learners...)
	for _, id := range members {
		r := s.reps[id]
		if r == nil || !s.live(r) {
			return false
		}
		v := raft.VerifState(r.n)
		if v.Commit != lv.Commit || v.Applied != lv.Commit || v.Last != lv.Last || v.Term != lv.Term || len(r.pendq) > 0 || r.rd != nil {
			return false
		}
	}
	return true
}

func (s *rs_sim) settle() bool {
	s.phase = "settle"
	s.blocked = map[uint64]bool{}
	for _, id := range s.ids {
		r := s.reps[id]
		if r.started && r.down && !r.gone {
			s.restart(r)
		}
	}
	maxRounds := 50 * 2 * s.elTick
	for round := 0; round < maxRounds; round++ {
		s.flushReports()
		for _, id := range s.ids {
			r := s.reps[id]
			if !s.live(r) {
				continue
			}
			s.drain(r)
			if s.live(r) && r.rd == nil {
				s.tick(r)
				s.drain(r)
			}
		}
		for pass := 0; pass < 40 && len(s.net) > 0; pass++ {
			batch := s.net
			s.net = nil
			for _, m := range batch {
				r := s.reps[m.To]
				if r == nil || !s.live(r) {
					if m.Type == pb.MsgSnap {
						s.reportSnap(m.From, m.To, false)
					}
					continue
				}
				s.drain(r)
				if !s.live(r) || r.rd != nil {
					continue
				}
				if m.Type == pb.MsgProp && raft.VerifState(r.n).Lead == 0 {
					continue
				}
				jm := rs_convMsg(m)
				r.n.Step(context.TODO(), rs_wireCopy(m))
				s.inc("deliveries")
				s.take(r, rs_jev{Ev: "recv", M: jm}, true, false)
				s.drain(r)
				if m.Type == pb.MsgSnap {
					if l := s.reps[m.From]; s.live(l) {
						s.drain(l)
					}
					s.reportSnap(m.From, m.To, true)
				}
			}
		}
		if s.panicked {
			return false
		}
		if round >= 2 && s.settledNow() {
			s.cnt["settle_rounds"] = round + 1
			return true
		}
	}
	return false
}

// ---------------------------------------------------------------- scripts (TLC behaviours)

type rs_scriptOp struct {
	Op   string `json:"op"`
	N    uint64 `json:"n"`
	From uint64 `json:"from"`
	T    string `json:"t"`
	K    string `json:"k"`
	V    uint64 `json:"v"`
}

func (s *rs_sim) runScript(path string) {
	f, err := os.Open(path)
	if err != nil {
		return
	}
	defer f.Close()
	sc := bufio.NewScanner(f)
	sc.Buffer(make([]byte, 1<<20), 1<<20)
	s.phase = "script"
	// the model's initial state is the bootstrapped group: initial configuration entries
	// persisted and applied on every replica
	for _, id := range s.ids {
		if r := s.reps[id]; s.live(r) {
			s.drain(r)
		}
	}
	for sc.Scan() {
		var op rs_scriptOp
		if json.Unmarshal(sc.Bytes(), &op) != nil || op.Op == "" {
			continue
		}
		if s.panicked {
			return
		}
		if !s.scriptStep(op) {
			s.diverged++
			s.inc("script_diverged_ops")
			s.inc("script_div_" + op.Op + "_" + op.T)
		} else {
			s.scripted++
		}
		if s.autopipe {
			// behaviours of a family with the collapsed Ready pipeline: complete the pipeline
			for _, id := range s.ids {
				if r := s.reps[id]; s.live(r) && (r.rd != nil || op.N == id) {
					s.drain(r)
				}
			}
		}
	}
}

// scriptStep executes one specification action on the real system if it is enabled there.
func (s *rs_sim) scriptStep(op rs_scriptOp) bool {
	r := s.reps[op.N]
	if r == nil {
		return false
	}
	s.step++
	switch op.Op {
	case "restart":
		if r.started && r.down && !r.gone {
			s.restart(r)
			return true
		}
		return false
	}
	if !s.live(r) {
		return false
	}
	switch op.Op {
	case "campaign", "tick", "propose", "proposeconf", "transfer", "deliver", "dupdeliver":
		// an input for a replica that still has a Ready outstanding (the real replica produced
		// one where the model's did not, e.g. re-applied entries after a restart): complete it
		// first - the script only steers
		if r.rd != nil {
			s.finishReady(r)
			if !s.live(r) {
				return false
			}
		}
	}
	idle := r.rd == nil
	switch op.Op {
	case "crash":
		s.crash(r)
	case "campaign":
		if !idle {
			return false
		}
		s.campaign(r)
	case "tick":
		if !idle {
			return false
		}
		s.tick(r)
	case "propose":
		if !idle || raft.VerifState(r.n).Lead == 0 {
			return false
		}
		s.propose(r)
	case "proposeconf":
		if !idle || raft.VerifState(r.n).Lead == 0 {
			return false
		}
		typ := pb.ConfChangeAddNode
		if op.K == "al" {
			typ = pb.ConfChangeAddLearnerNode
		} else if op.K == "rm" {
			typ = pb.ConfChangeRemoveNode
		}
		s.proposeConf(r, typ, op.V)
	case "transfer":
		if !idle {
			return false
		}
		s.transfer(r, op.V)
	case "deliver", "dupdeliver":
		if !idle {
			return false
		}
		for j, m := range s.net {
			if m.To == op.N && m.From == op.From && m.Type.String() == op.T {
				s.deliver(j, op.Op == "dupdeliver", false)
				return true
			}
		}
		return false
	case "ready":
		if idle {
			s.take(r, rs_jev{Ev: "poll"}, true, false)
		}
	case "persist":
		if idle || (r.pEnts && r.pHS) {
			return false
		}
		part := op.K
		if part == "" || !raft.IsEmptySnap(r.rd.Snapshot) {
			part = "all"
		}
		if r.pEnts {
			part = "hs"
		}
		s.persist(r, part)
	case "send":
		if idle || r.sent || (!(r.pEnts && r.pHS) && !r.newLeader) {
			return false
		}
		for r.rdConfEnd > 0 && s.live(r) {
			s.applyThroughConf(r)
		}
		if s.live(r) {
			s.send(r)
		}
	case "advance":
		if idle || !r.sent || !(r.pEnts && r.pHS) {
			return false
		}
		for r.rdConfEnd > 0 && s.live(r) {
			s.applyThroughConf(r)
		}
		if s.live(r) {
			s.advance(r)
		}
	case "applyconf":
		if len(r.pendq) == 0 {
			return false
		}
		s.applyThroughConf(r)
	case "snapshot":
		before := s.cnt["snapshots_taken"]
		s.snapshot(r)
		return s.cnt["snapshots_taken"] > before
	default:
		return false
	}
	return true
}

// ---------------------------------------------------------------- entry point

func rs_parseIDs(sv string) []uint64 {
	var out []uint64
	for _, p := range strings.Split(sv, ",") {
		p = strings.TrimSpace(p)
		if p == "" {
			continue
		}
		v, _ := strconv.ParseUint(p, 10, 64)
		out = append(out, v)
	}
	return out
}

func raftsim(args []string) error {
	fs := flag.NewFlagSet("raftsim", flag.ContinueOnError)
	seed := fs.Int64("seed", 1, "")
	steps := fs.Int("steps", 600, "scheduler steps before heal+settle")
	outp := fs.String("o", "trace.ndjson", "")
	n := fs.Int("n", 3, "replica ids 1..n that may ever exist")
	voters := fs.String("voters", "1,2,3", "bootstrap voters")
	learners := fs.String("learners", "", "replicas started in join mode as learners and added by the first leader")
	prevote := fs.Bool("prevote", false, "")
	cq := fs.Bool("cq", false, "")
	maxsz := fs.Uint64("maxsz", 1<<20, "")
	maxcsz := fs.Uint64("maxcsz", 0, "")
	storage := fs.String("storage", "memory", "memory|rocks-mem|rocks-pebble")
	profile := fs.String("profile", "mixed", "mixed|noconf")
	script := fs.String("script", "", "ndjson script of specification actions (from a TLC behaviour)")
	allow1 := fs.Bool("allow1", false, "allow shrinking to a single voter (trigger of a recorded finding)")
	eltick := fs.Int("eltick", 0, "")
	noavoid := fs.Bool("noavoid", false, "do not keep the triggers of recorded findings out of the schedule")
	autopipe := fs.Bool("autopipe", false, "script mode: complete the Ready pipeline after every scripted step")
	nosettle := fs.Bool("nosettle", false, "")
	if err := fs.Parse(args); err != nil {
		return err
	}
	engine.SetLogLevel(0)
	raft.SetLogger(rsLogger{})
	raft.VerifSeed(*seed)
	w, err := trace.Create(*outp)
	if err != nil {
		return err
	}
	s := &rs_sim{rng: rand.New(rand.NewSource(*seed)), w: w, reps: map[uint64]*rs_rep{}, blocked: map[uint64]bool{},
		cnt: map[string]int{}, removedEver: map[uint64]bool{}, allow1: *allow1, storage: *storage, nextVal: 100}
	s.autopipe = *autopipe
	s.noAvoid = *noavoid
	s.dir = os.Getenv("ZR_SCRATCH")
	if s.dir == "" {
		s.dir = "."
	}
	s.elTick = *eltick
	if s.elTick == 0 {
		s.elTick = 4 + s.rng.Intn(3)
	}
	s.hbTick = 1
	if s.elTick >= 5 && s.rng.Intn(2) == 0 {
		s.hbTick = 2
	}
	s.cfg = rs_jcfg{N: *n, Voters: rs_nz(rs_parseIDs(*voters)), Learners: rs_nz(rs_parseIDs(*learners)), PreVote: *prevote, CQ: *cq,
		MaxSz: *maxsz, MaxCSz: *maxcsz, Storage: *storage, Seed: *seed, Profile: *profile}
	for i := 1; i <= *n; i++ {
		id := uint64(i)
		s.ids = append(s.ids, id)
		s.reps[id] = &rs_rep{id: id}
	}
	// the first line carries the run's configuration
	first := rs_jev{Ev: "config", Cfg: s.cfg}
	first.M, first.Out, first.Rd, first.CC = rs_noMsg(), []rs_jmsg{}, rs_noRd(), rs_jent{K: "none"}
	first.Post = rs_jpost{Role: "down", Voters: []uint64{}, Learners: []uint64{}}
	first.Dbg = rs_jdbg{Granted: []uint64{}, Rejected: []uint64{}, Match: map[string]uint64{}}
	w.Emit(first)
	for _, id := range s.cfg.Voters {
		s.start(s.reps[id], false)
	}
	func() {
		defer func() {
			if e := recover(); e != nil {
				// a panic outside a guarded call (driver bug or storage failure): record and stop
				s.panicked = true
				ev := rs_jev{Ev: "panic", S: "driver: " + fmt.Sprint(e)}
				ev.N = 0
				ev.M, ev.Out, ev.Rd, ev.CC = rs_noMsg(), []rs_jmsg{}, rs_noRd(), rs_jent{K: "none"}
				ev.Cfg = rs_jcfg{Voters: []uint64{}, Learners: []uint64{}}
				ev.Post = rs_jpost{Role: "down", Voters: []uint64{}, Learners: []uint64{}}
				ev.Dbg = rs_jdbg{Granted: []uint64{}, Rejected: []uint64{}, Match: map[string]uint64{}}
				w.Emit(ev)
				s.inc("driver_panics")
			}
		}()
		if *script != "" {
			s.runScript(*script)
		}
		if s.cfg.Profile == "growone" {
			s.scenarioGrowOne()
		}
		if s.cfg.Profile == "readlearner" {
			s.scenarioStaleReadViaLearner()
		}
		if s.cfg.Profile == "learnervote" {
			s.scenarioLearnerVoteDirected()
		}
		if s.cfg.Profile == "lostvote" && len(s.cfg.Voters) >= 4 && !s.cfg.CQ && !s.cfg.PreVote {
			for v := 0; v < 2 && !s.panicked; v++ {
				s.scenarioLostVote((int(*seed) + v) % 2)
			}
		}
		if s.cfg.Profile == "shrinkq" && len(s.cfg.Voters) >= 5 && !s.cfg.CQ && !s.cfg.PreVote {
			s.scenarioShrinkingQuorum()
		}
		if s.cfg.Profile == "snapdiv" && len(s.cfg.Voters) >= 5 && !s.cfg.CQ {
			for v := 0; v < 3 && !s.panicked; v++ {
				s.scenarioSnapshotOverDivergentTail((int(*seed) + v) % 3)
			}
		}
		if (s.cfg.Profile == "mixed" || s.cfg.Profile == "noconf") && !s.cfg.PreVote && !s.cfg.CQ && len(s.cfg.Voters) >= 3 {
			s.scenarioVoteSameTerm()
		}
		if (s.cfg.Profile == "mixed" || s.cfg.Profile == "noconf") && len(s.cfg.Voters) >= 3 && int(*seed)%2 == 0 {
			s.scenarioTransferRaces(int(*seed/2) % 3)
			s.scenarioTransferRaces(int(*seed/2+1) % 3)
		}
		if (s.cfg.Profile == "mixed" || s.cfg.Profile == "noconf") && strings.HasPrefix(s.storage, "rocks") && len(s.cfg.Voters) >= 3 {
			s.scenarioDivergentSuffix(int(*seed) % 2)
			s.scenarioDivergentSuffix(int(*seed+1) % 2)
		}
		if s.cfg.Profile == "stall" {
			for i := 0; i < 3 && !s.panicked; i++ {
				s.scenarioStallCatchup()
			}
		}
		// learners named on the command line: added by whoever leads, early in the run
		pendingLearnersDone := s.cfg.Profile == "readlearner" || s.cfg.Profile == "learnervote"
		pendingLearners := append([]uint64{}, s.cfg.Learners...)
		phaseEnd := 0
		for s.step = 0; s.step < *steps && !s.panicked; s.step++ {
			if s.step >= phaseEnd {
				if s.cfg.Profile == "mixed" && s.rng.Intn(3) == 0 {
					s.scenarioLearnerVote()
				}
				phaseEnd = s.step + s.newPhase()
			}
			if len(pendingLearners) > 0 && !pendingLearnersDone {
				if l := s.leaderID(); l != 0 && s.reps[l].rd == nil {
					lv := raft.VerifState(s.reps[l].n)
					if !lv.PendingConf {
						s.proposeConf(s.reps[l], pb.ConfChangeAddLearnerNode, pendingLearners[0])
						pendingLearners = pendingLearners[1:]
						continue
					}
				}
			}
			s.randomStep()
		}
		if !*nosettle && !s.panicked {
			ok := s.settle()
			any := s.reps[s.ids[0]]
			for _, id := range s.ids {
				if s.live(s.reps[id]) {
					any = s.reps[id]
					break
				}
			}
			if ok {
				s.inc("settled")
				s.emitSettled(any, "settled")
			} else if !s.panicked {
				s.inc("unsettled")
				s.emitSettled(any, "unsettled")
			}
		}
	}()
	w.Close()
	sum := map[string]interface{}{"driver": "raftsim", "seed": *seed, "events": w.N, "cfg": s.cfg, "eltick": s.elTick,
		"hbtick": s.hbTick, "diverged": s.diverged, "scripted_ops": s.scripted, "counters": s.cnt, "trace": *outp}
	summary(sum)
	return nil
}

// emitSettled: end-of-run marker; `out` is unused, the applied/commit of every live replica
// is in a pseudo message list (one per replica: from = id, idx = applied, c = commit, term).
func (s *rs_sim) emitSettled(r *rs_rep, ev string) {
	var lst []rs_jmsg
	for _, id := range s.ids {
		o := s.reps[id]
		if !s.live(o) {
			continue
		}
		v := raft.VerifState(o.n)
		m := rs_noMsg()
		m.T = "state"
		m.From, m.Idx, m.C, m.Term, m.LT = id, v.Applied, v.Commit, v.Term, v.Last
		lst = append(lst, m)
	}
	s.emit(r, rs_jev{Ev: ev, Out: lst, A: s.leaderID()})
}
