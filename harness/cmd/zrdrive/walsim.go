package main

// walsim: executes save histories on the real `wal` package and reopens crash images of
// the log directory the way node/raft.go openWAL does (ValidSnapshotEntries, Open, ReadAll,
// on error Repair once and retry).  Histories come from
//   -sim dir     behaviours written by `tlc -simulate file=...` for spec/MC_ZWal (only the
//                action labels are parsed), and
//   -random N    seeded histories (rewritten suffixes, natural cuts with a tiny segment
//                size, snapshot markers, lock release, clean restarts, both fsync modes,
//                with -big entries larger than the 1 MB encode buffers).
// Crash images after every call: the directory as it is (process crash); for the tail
// segment every / sampled byte offset from the durable offset (reported by the wal sync
// hook) to the end: truncate there (zero tail), zero only up to the next sector boundary,
// zero one whole sector of the unsynced region; single bit flips in the synced region.
// The driver's frame parser maps each image to the abstract crash class
// "n whole records, then nothing / short / torn".  Nothing is judged here:
// spec/ZWalTrace.tla (TLC) decides every line.

import (
	"bufio"
	"bytes"
	"crypto/sha1"
	"encoding/binary"
	"flag"
	"fmt"
	"hash/crc32"
	"io/ioutil"
	"math/rand"
	"os"
	"path/filepath"
	"regexp"
	"runtime"
	"sort"
	"strconv"
	"strings"

	"time"

	"github.com/coreos/pkg/capnslog"
	"github.com/youzan/ZanRedisDB/pkg/fileutil"
	"github.com/youzan/ZanRedisDB/pkg/pbutil"
	"github.com/youzan/ZanRedisDB/raft/raftpb"
	snappkg "github.com/youzan/ZanRedisDB/snap"
	"github.com/youzan/ZanRedisDB/wal"
	"github.com/youzan/ZanRedisDB/wal/walpb"
	"zrverif/trace"
)

func init() { commands["walsim"] = walsim }

const walSector = 512

type wHS struct {
	T int `json:"t"`
	V int `json:"v"`
	C int `json:"c"`
}
type wEnt struct {
	I int `json:"i"`
	T int `json:"t"`
	X int `json:"x"`
}
type wSnap struct {
	I int `json:"i"`
	T int `json:"t"`
}
type wRes struct {
	Err  string `json:"err"`
	Meta int    `json:"meta"`
	HS   wHS    `json:"hs"`
	Ents []wEnt `json:"ents"`
}
type wLife struct {
	On   bool   `json:"on"`
	Ents []wEnt `json:"ents"`
	Err  string `json:"err"`
	Res  wRes   `json:"res"`
}
type wFile struct {
	I  int  `json:"i"`
	T  int  `json:"t"`
	OK bool `json:"ok"`
	X  int  `json:"x"`
}
type wSnapFile struct {
	name string
	i, t int
	x    int
	data []byte
	msg  []byte // the marshalled raftpb.Snapshot that was saved
}
type wValid struct {
	Err   string  `json:"err"`
	Snaps []wSnap `json:"snaps"`
}

// one call of a history
type wCall struct {
	kind    string // create save snap release close restart
	opt     bool
	hs      wHS
	ents    []wEnt
	size    []int // payload sizes
	cut     bool  // force a cut in this Save
	snap    wSnap
	rel     int // release index / purge keep count
	removed int
}

type wFrame struct{ off, end int64 }

type wSeg struct {
	name   string
	data   []byte
	frames []wFrame // whole valid frames (CRC-checked)
	marks  []wSnap  // per frame: the snapshot marker it holds, or {-1,-1}
}

type walDrv struct {
	tw      *trace.Writer
	rng     *rand.Rand
	scratch string
	thor    bool
	opt     bool
	segSize int64
	dir     string
	w       *wal.WAL
	durOff  map[string]int64 // base name -> durable offset (from the sync hook)
	byHash  map[[20]byte]int
	nextX   int
	// legality mirror (steering only)
	last      wHS
	enti      int
	maxMarker int
	termOf    map[int]int
	// counters
	nImages, nHist, nCalls, nCuts, nRestarts, nBigEnts int
	byKind                                             map[string]int
	byTail                                             map[string]int
	byOutcome                                          map[string]int
	nRepaired                                          int
	imgDir                                             string
	saved                                              []wSnap // markers saved by the running history
	where                                              string
	typeFlips, misname, entiLost, procOnly, hole0      bool
	purgedRecs, nPurged, nReleases, nSyncs             int
	segFirst, lifeAll, snapOn                          bool
	snapDir                                            string
	ss                                                 *snappkg.Snapshotter
	snapFiles                                          []wSnapFile
	snapX, nSnapImgs                                   int
	bySnapMode                                         map[string]int
	lifeX, nLives, nZeroLives                          int
	nConcBatches                                       int
	maxEntBytes                                        int
	lastEnt, maxMark                                   int
	imgBase                                            string
	imgSeq                                             int
	lastHS                                             wHS
	maxImgPerCall                                      int
}

var wCrcTable = crc32.MakeTable(crc32.Castagnoli)

func wDecodeFrameSize(lenField int64) (recBytes int64, padBytes int64) {
	recBytes = int64(uint64(lenField) & ^(uint64(0xff) << 56))
	if lenField < 0 {
		padBytes = int64((uint64(lenField) >> 56) & 0x7)
	}
	return
}

// parse the whole valid frames of one segment; crc is the running CRC at its start
// (chained across segments), returns the running CRC at the end
func wParseSeg(b []byte, crc uint32, first bool) ([]wFrame, []wSnap, uint32) {
	var fr []wFrame
	var marks []wSnap
	off := int64(0)
	for off+8 <= int64(len(b)) {
		l := int64(binary.LittleEndian.Uint64(b[off:]))
		if l == 0 {
			break
		}
		rb, pb := wDecodeFrameSize(l)
		end := off + 8 + rb + pb
		if rb < 0 || end > int64(len(b)) {
			break
		}
		var rec walpb.Record
		if err := rec.Unmarshal(b[off+8 : off+8+rb]); err != nil {
			break
		}
		if rec.Type == 4 { // crc record
			if !(first && len(fr) == 0) && rec.Crc != crc {
				break
			}
			crc = rec.Crc
		} else {
			crc = crc32.Update(crc, wCrcTable, rec.Data)
			if rec.Crc != crc {
				break
			}
		}
		fr = append(fr, wFrame{off, end})
		mk := wSnap{-1, -1}
		if rec.Type == 5 {
			var sn walpb.Snapshot
			if sn.Unmarshal(rec.Data) == nil {
				mk = wSnap{int(sn.Index), int(sn.Term)}
			}
		}
		marks = append(marks, mk)
		off = end
	}
	return fr, marks, crc
}

func (d *walDrv) readDir() []*wSeg {
	names, _ := filepath.Glob(filepath.Join(d.dir, "*.wal"))
	sort.Strings(names)
	var segs []*wSeg
	crc := uint32(0)
	for i, n := range names {
		b, err := ioutil.ReadFile(n)
		if err != nil {
			continue
		}
		s := &wSeg{name: filepath.Base(n), data: b}
		s.frames, s.marks, crc = wParseSeg(b, crc, i == 0)
		segs = append(segs, s)
	}
	return segs
}

func wNrec(segs []*wSeg) int {
	n := 0
	for _, s := range segs {
		n += len(s.frames)
	}
	return n
}

func wEndOf(s *wSeg) int64 {
	if len(s.frames) == 0 {
		return 0
	}
	return s.frames[len(s.frames)-1].end
}

// number of leading records covered by completed fdatasyncs
func (d *walDrv) durCount(segs []*wSeg) int {
	n := 0
	for _, s := range segs {
		do := d.durOff[s.name]
		k := 0
		for _, f := range s.frames {
			if f.end <= do {
				k++
			}
		}
		n += k
		if k < len(s.frames) {
			break
		}
	}
	return n
}

func (d *walDrv) payload(x, size int) []byte {
	if size == 0 {
		return nil
	}
	b := make([]byte, size)
	if size > 4*1024*1024 {
		// large payloads: a seeded 64 KB block repeated with a running counter (no zero bytes)
		r := rand.New(rand.NewSource(int64(x)*7919 + 13))
		blk := make([]byte, 65536)
		for i := range blk {
			blk[i] = byte(1 + r.Intn(255))
		}
		for o := 0; o < size; o += len(blk) {
			n := copy(b[o:], blk)
			if n >= 8 {
				binary.LittleEndian.PutUint32(b[o+4:], uint32(o)|0x01010101)
			}
		}
		binary.LittleEndian.PutUint32(b[0:], uint32(x)|0x80000000)
		return b
	}
	r := rand.New(rand.NewSource(int64(x)*7919 + 13))
	zeroRun := x%5 == 0 && size > 1200 // some payloads carry a long run of zero bytes
	for i := range b {
		b[i] = byte(1 + r.Intn(255))
	}
	if zeroRun {
		for i := size / 4; i < size/4+1100 && i < size; i++ {
			b[i] = 0
		}
	}
	binary.LittleEndian.PutUint32(b[0:], uint32(x)|0x80000000)
	return b
}

func (d *walDrv) entry(e wEnt, size int) raftpb.Entry {
	if size < 4 {
		size = 4
	}
	data := d.payload(e.X, size)
	d.byHash[sha1.Sum(data)] = e.X
	return raftpb.Entry{Index: uint64(e.I), Term: uint64(e.T), Data: data}
}

func wErrKind(err error) string {
	if err == nil {
		return ""
	}
	s := err.Error()
	if len(s) > 60 {
		s = s[:60]
	}
	return s
}

func wMeta(id int) []byte { return []byte(fmt.Sprintf("meta-%d", id)) }
func wMetaID(b []byte) int {
	if b == nil {
		return 0
	}
	s := string(b)
	if strings.HasPrefix(s, "meta-") {
		if v, err := strconv.Atoi(s[5:]); err == nil {
			return v
		}
	}
	return -1
}

// reopen as node/raft.go openWAL does; keep=true leaves the WAL open (clean restart)
func (d *walDrv) reopen(dir string, snap wSnap, keep bool) (r wRes, repaired bool, w *wal.WAL) {
	r.Ents = []wEnt{}
	var cur *wal.WAL // the WAL that is open right now (closed again if ReadAll panics)
	defer func() {
		if e := recover(); e != nil {
			if cur != nil {
				func() {
					defer func() { recover() }()
					cur.Close()
				}()
			}
			s := fmt.Sprint(e)
			if strings.Contains(s, "should never fail") {
				r = wRes{Err: "deliberate panic: undecodable record", Ents: []wEnt{}}
			} else {
				if len(s) > 80 {
					s = s[:80]
				}
				r = wRes{Err: "PANIC " + s, Ents: []wEnt{}}
			}
			w = nil
		}
	}()
	ws := walpb.Snapshot{Index: uint64(snap.I), Term: uint64(snap.T)}
	for {
		ww, err := wal.Open(dir, ws, d.opt)
		if err != nil {
			return wRes{Err: "open: " + wErrKind(err), Ents: []wEnt{}}, repaired, nil
		}
		cur = ww
		meta, st, ents, err := ww.ReadAll()
		if err != nil {
			cur = nil
			ww.Close()
			if !repaired && wal.Repair(dir) {
				repaired = true
				continue
			}
			return wRes{Err: "readall: " + wErrKind(err), Ents: []wEnt{}}, repaired, nil
		}
		r = wRes{Meta: wMetaID(meta), HS: wHS{int(st.Term), int(st.Vote), int(st.Commit)}, Ents: make([]wEnt, 0, len(ents))}
		for _, e := range ents {
			x, ok := d.byHash[sha1.Sum(e.Data)]
			if !ok {
				x = -1
			}
			if e.Type != 0 || e.ID != 0 || e.DataType != 0 || e.Timestamp != 0 {
				x = -2
			}
			r.Ents = append(r.Ents, wEnt{int(e.Index), int(e.Term), x})
		}
		cur = nil
		if keep {
			return r, repaired, ww
		}
		ww.Close()
		return r, repaired, nil
	}
}

func (d *walDrv) valid(dir string) (v wValid) {
	v.Snaps = []wSnap{}
	defer func() {
		if e := recover(); e != nil {
			s := fmt.Sprint(e)
			if strings.Contains(s, "should never fail") {
				v = wValid{Err: "deliberate panic: undecodable record", Snaps: []wSnap{}}
			} else {
				v = wValid{Err: "PANIC " + s, Snaps: []wSnap{}}
			}
		}
	}()
	snaps, err := wal.ValidSnapshotEntries(dir)
	if err != nil {
		v.Err = wErrKind(err)
		return
	}
	for _, s := range snaps {
		v.Snaps = append(v.Snaps, wSnap{int(s.Index), int(s.Term)})
	}
	return
}

func (d *walDrv) verify(dir string, snap wSnap) (s string) {
	defer func() {
		if e := recover(); e != nil {
			s = "panic"
			if !strings.Contains(fmt.Sprint(e), "should never fail") {
				s = "PANIC " + fmt.Sprint(e)
			}
		}
	}()
	err := wal.Verify(dir, walpb.Snapshot{Index: uint64(snap.I), Term: uint64(snap.T)})
	return wErrKind(err)
}

func wNewest(v wValid) wSnap {
	best := wSnap{}
	for _, s := range v.Snaps {
		if s.I >= best.I {
			best = s
		}
	}
	return best
}

// classify an image of the tail segment against the pristine tail: number of leading
// intact frames, and what follows them
func wClassify(pr *wSeg, img []byte) (n int, tail string) {
	n = 0
	for _, f := range pr.frames {
		if f.end <= int64(len(img)) && bytes.Equal(img[f.off:f.end], pr.data[f.off:f.end]) {
			n++
		} else {
			break
		}
	}
	F := int64(0)
	if n > 0 {
		F = pr.frames[n-1].end
	}
	allZero := func(b []byte) bool {
		for _, c := range b {
			if c != 0 {
				return false
			}
		}
		return true
	}
	if F >= int64(len(img)) || allZero(img[F:]) {
		return n, "none"
	}
	if F+8 > int64(len(img)) {
		return n, "short"
	}
	if allZero(img[F : F+8]) {
		return n, "torn" // the sector holding the next length field never arrived; data behind it did
	}
	if n >= len(pr.frames) {
		return n, "short" // bytes behind the last whole record that are not a record of the history
	}
	if !bytes.Equal(img[F:F+8], pr.data[F:F+8]) {
		return n, "short"
	}
	end := pr.frames[n].end
	if end > int64(len(img)) {
		return n, "short"
	}
	// data extent of the damaged record split on sector boundaries
	for p := F + 8; p < end; {
		q := (p/walSector + 1) * walSector
		if q > end {
			q = end
		}
		if allZero(img[p:q]) {
			return n, "torn"
		}
		p = q
	}
	return n, "short"
}

// emitImage builds one crash image (segment imgSeg replaced by tailImg; nil = the directory
// as it is), reopens it and logs what came back.
func (d *walDrv) emitImage(kind string, off int64, segs []*wSeg, tailImg []byte, imgSeg int, flipRec int, snapMode int) {
	d.imgSeq++
	d.imgDir = filepath.Join(d.imgBase, fmt.Sprintf("i%d", d.imgSeq))
	os.MkdirAll(d.imgDir, 0755)
	defer os.RemoveAll(d.imgDir)
	ti := len(segs) - 1
	for i, s := range segs {
		b := s.data
		if i == imgSeg && tailImg != nil {
			b = tailImg
		}
		ioutil.WriteFile(filepath.Join(d.imgDir, s.name), b, 0600)
	}
	n, tail := d.purgedRecs, "none"
	for i, s := range segs {
		if i < ti {
			n += len(s.frames)
		}
	}
	if kind == "flip" || kind == "hole" {
		n = d.purgedRecs + wNrec(segs)
	} else if tailImg != nil {
		k, t := wClassify(segs[ti], tailImg)
		n, tail = n+k, t
	} else {
		n += len(segs[ti].frames)
		// the directory as it is: bytes behind the last whole record (a partly handed-over record)?
		e := wEndOf(segs[ti])
		for _, c := range segs[ti].data[e:] {
			if c != 0 {
				tail = "short"
				break
			}
		}
	}
	v := d.valid(d.imgDir)
	snap := wSnap{}
	if v.Err == "" {
		switch snapMode {
		case 0:
			snap = wNewest(v)
		case 1: // the beginning of the log
		case 2: // an older valid marker
			if len(v.Snaps) > 0 {
				snap = v.Snaps[d.rng.Intn(len(v.Snaps))]
			}
		case 3: // a marker that was never saved
			snap = wSnap{I: 1 + d.rng.Intn(3), T: 99}
		case 4: // any marker the history saved, valid or not
			if len(d.saved) > 0 {
				snap = d.saved[d.rng.Intn(len(d.saved))]
			}
		}
	}
	// is the marker the image is opened at among the records that are intact in the image?
	hasMarker := false
	g := d.purgedRecs
	for _, s := range segs {
		for fi := range s.frames {
			g++
			if kind == "flip" || kind == "hole" {
				if g == flipRec {
					continue
				}
			} else if g > n {
				break
			}
			if s.marks[fi] == snap {
				hasMarker = true
			}
		}
	}
	files := []wFile{}
	picked := wSnap{-2, -2}
	pdata := 0
	smode := ""
	if d.snapOn {
		// the snapshot directory of the image: as it is, or with the newest file torn / empty /
		// flipped / gone, or with a file whose marker never reached the log; then the restart's
		// own choice: LoadNewestAvailable(ValidSnapshotEntries(...))
		sdir := d.imgDir + "-snap"
		os.MkdirAll(sdir, 0755)
		defer os.RemoveAll(sdir)
		smode = []string{"asis", "asis", "torn", "empty", "flip", "gone", "orphan", "torn+older-flip"}[d.rng.Intn(8)]
		nf := len(d.snapFiles)
		for k, f := range d.snapFiles {
			b := f.data
			ok := true
			newest := k == nf-1
			switch {
			case newest && (smode == "torn" || smode == "torn+older-flip") && len(b) > 1:
				b = b[:d.rng.Intn(len(b))]
				ok = false
			case newest && smode == "empty":
				b = nil
				ok = false
			case (newest && smode == "flip") || (k == nf-2 && smode == "torn+older-flip"):
				b = append([]byte(nil), b...)
				b[d.rng.Intn(len(b))] ^= 1 << uint(d.rng.Intn(8))
				ok = false
				// a flipped bit the format does not look at (e.g. above bit 31 of the crc varint)
				// leaves an intact file: intact = it still reads back with exactly the saved content
				tmp := filepath.Join(sdir, "probe.tmp")
				ioutil.WriteFile(tmp, b, 0600)
				if sn, err := snappkg.Read(tmp); err == nil && sn != nil && bytes.Equal(pbutil.MustMarshal(sn), f.msg) {
					ok = true
				}
				os.Remove(tmp)
			case newest && smode == "gone":
				continue
			}
			ioutil.WriteFile(filepath.Join(sdir, f.name), b, 0600)
			files = append(files, wFile{f.i, f.t, ok, f.x})
		}
		if smode == "orphan" {
			oi, ot := d.maxMark+1+d.rng.Intn(3), wMax(d.lastHS.T, 1)
			if nf > 0 && d.snapFiles[nf-1].t > ot {
				ot = d.snapFiles[nf-1].t
			}
			d.snapX++
			x := 2<<20 + d.snapX
			data := d.payload(x, 60)
			d.byHash[sha1.Sum(data)] = x
			snappkg.New(sdir).SaveSnap(raftpb.Snapshot{Data: data, Metadata: raftpb.SnapshotMetadata{Index: uint64(oi), Term: uint64(ot),
				ConfState: raftpb.ConfState{Nodes: []uint64{1, 2, 3}}}})
			files = append(files, wFile{oi, ot, true, x})
		}
		picked = wSnap{-1, -1}
		if v.Err == "" {
			var ws []walpb.Snapshot
			for _, m := range v.Snaps {
				ws = append(ws, walpb.Snapshot{Index: uint64(m.I), Term: uint64(m.T)})
			}
			func() {
				defer func() {
					if e := recover(); e != nil {
						picked = wSnap{-3, -3}
					}
				}()
				sn, err := snappkg.New(sdir).LoadNewestAvailable(ws)
				if err == nil && sn != nil {
					picked = wSnap{int(sn.Metadata.Index), int(sn.Metadata.Term)}
					x, ok := d.byHash[sha1.Sum(sn.Data)]
					if !ok {
						x = -1
					}
					if len(sn.Metadata.ConfState.Nodes) != 3 {
						x = -2
					}
					pdata = x
				}
			}()
			// the node opens the log at the snapshot it loaded, or at the beginning
			snap = wSnap{}
			if picked.I >= 0 {
				snap = picked
			}
		}
		d.nSnapImgs++
		d.bySnapMode[smode]++
	}
	ver := d.verify(d.imgDir, snap)
	life := wLife{Ents: []wEnt{}, Res: wRes{Ents: []wEnt{}}}
	damaged := kind == "trunc" || kind == "zfill" || kind == "sector"
	planLife := (damaged && (d.lifeAll || d.rng.Intn(2) == 0)) || (!damaged && d.rng.Intn(6) == 0)
	// half of the second lives go on with the very WAL object the first reopen returned (its
	// encoder continues the decoder's CRC), the other half reopen once more before saving
	sameWAL := planLife && d.rng.Intn(2) == 0
	res, rep, ww0 := d.reopen(d.imgDir, snap, sameWAL)
	res2 := res
	wantLife := res.Err == "" && planLife
	if !wantLife && ww0 != nil {
		ww0.Close()
		ww0 = nil
	}
	if wantLife {
		// a second life: go on saving (byte-identical re-sends of entries the crash took, fewer of
		// them and without a hard state, or fresh entries, some mostly zero bytes), close, reopen
		r2, ww := res, ww0
		if ww == nil {
			r2, _, ww = d.reopen(d.imgDir, snap, true)
		}
		res2 = r2
		if r2.Err == "" && ww != nil {
			var ents []raftpb.Entry
			if damaged && tailImg != nil {
				base := d.purgedRecs
				for i, sg := range segs {
					if i < ti {
						base += len(sg.frames)
					}
				}
				var lost []raftpb.Entry
				for k := n - base; k >= 0 && k < len(segs[ti].frames); k++ {
					f := segs[ti].frames[k]
					rb, _ := wDecodeFrameSize(int64(binary.LittleEndian.Uint64(segs[ti].data[f.off:])))
					var rec walpb.Record
					if rec.Unmarshal(segs[ti].data[f.off+8:f.off+8+rb]) != nil || rec.Type != 2 {
						break
					}
					var e raftpb.Entry
					if e.Unmarshal(rec.Data) != nil {
						break
					}
					lost = append(lost, e)
				}
				if len(lost) >= 2 && d.rng.Intn(3) > 0 {
					ents = lost[:1+d.rng.Intn(len(lost)-1)]
				} else if len(lost) == 1 && d.rng.Intn(2) == 0 {
					ents = lost
				}
			}
			if ents == nil {
				start := snap.I + len(r2.Ents) + 1
				term := wMax(r2.HS.T, 1)
				if k := len(r2.Ents); k > 0 && r2.Ents[k-1].T > term {
					term = r2.Ents[k-1].T
				}
				zeroHeavy := d.rng.Intn(2) == 0
				for j := 0; j < 1+d.rng.Intn(2); j++ {
					d.lifeX++
					if zeroHeavy {
						// a payload that is mostly zero bytes: at least one whole 512-byte sector of the
						// record reads as zeros although nothing is torn
						e := d.entry(wEnt{start + j, term, 1<<20 + d.lifeX}, 1300+d.rng.Intn(900))
						delete(d.byHash, sha1.Sum(e.Data))
						for q := 8; q < len(e.Data)-8; q++ {
							e.Data[q] = 0
						}
						d.byHash[sha1.Sum(e.Data)] = 1<<20 + d.lifeX
						ents = append(ents, e)
						d.nZeroLives++
						continue
					}
					ents = append(ents, d.entry(wEnt{start + j, term, 1<<20 + d.lifeX}, 20+d.rng.Intn(300)))
				}
			}
			for _, e := range ents {
				x, ok := d.byHash[sha1.Sum(e.Data)]
				if !ok {
					x = -1
				}
				life.Ents = append(life.Ents, wEnt{int(e.Index), int(e.Term), x})
			}
			func() {
				defer func() {
					if e := recover(); e != nil {
						life.Err = "PANIC " + fmt.Sprint(e)
					}
				}()
				wal.SegmentSizeBytes = 1 << 40 // no roll inside the second life
				err := ww.Save(raftpb.HardState{}, ents)
				wal.SegmentSizeBytes = d.segSize
				if err != nil {
					life.Err = wErrKind(err)
				}
				ww.Close()
			}()
			wal.SegmentSizeBytes = d.segSize
			life.On = true
			life.Res, _, _ = d.reopen(d.imgDir, snap, false)
			d.nLives++
		} else if ww != nil {
			ww.Close()
		}
	} else if res.Err == "" && (rep || d.rng.Intn(4) == 0) {
		res2, _, _ = d.reopen(d.imgDir, snap, false)
	}
	mk := kind
	if kind == "hole" {
		mk = "flip" // judged like a corrupted record: error, cut at the hole, or no visible effect
	} else if kind != "proc" && kind != "flip" {
		mk = "power"
	}
	where := ""
	if kind == "flip" || kind == "hole" {
		where = d.where
	}
	pan := strings.HasPrefix(life.Err, "PANIC") || strings.HasPrefix(life.Res.Err, "PANIC") || strings.HasPrefix(res.Err, "PANIC") || strings.HasPrefix(res2.Err, "PANIC") || strings.HasPrefix(v.Err, "PANIC") || strings.HasPrefix(ver, "PANIC")
	d.tw.Emit(trace.M{"ev": "image", "panic": pan, "kind": mk, "how": kind, "hasmarker": hasMarker, "where": where, "segfirst": d.segFirst || (kind == "hole" && flipRec == d.purgedRecs+2), "dur": d.durCount(segs), "off": off, "n": n, "tail": tail, "flip": flipRec,
		"snap": snap, "valid": v, "verify": ver, "res": res, "rep": rep, "res2": res2, "life": life,
		"snapon": d.snapOn, "files": files, "picked": picked, "pdata": pdata, "smode": smode})
	d.nImages++
	d.byKind[kind]++
	d.byTail[tail]++
	switch {
	case strings.HasPrefix(res.Err, "PANIC"):
		d.byOutcome["panic"]++
	case res.Err != "":
		d.byOutcome["error"]++
	case rep:
		d.byOutcome["ok-after-repair"]++
	default:
		d.byOutcome["ok"]++
	}
	if rep {
		d.nRepaired++
	}
}

// all crash images of the current state of the live directory
func (d *walDrv) images(dense bool) {
	segs := d.readDir()
	if len(segs) == 0 {
		return
	}
	ti := len(segs) - 1
	tailSeg := segs[ti]
	// process crash: the directory as it is
	d.emitImage("proc", 0, segs, nil, -1, 0, 0)
	if d.rng.Intn(4) == 0 {
		d.emitImage("proc", 0, segs, nil, -1, 0, 1+d.rng.Intn(4))
	}
	if d.hole0 && len(segs) < 2 {
		return
	}
	if d.procOnly {
		// size-threshold histories: the directory as it is, opened at several snapshots
		d.emitImage("proc", 0, segs, nil, -1, 0, 1)
		d.emitImage("proc", 0, segs, nil, -1, 0, 4)
		return
	}
	end := wEndOf(tailSeg)
	dur := d.durOff[tailSeg.name]
	if dur > end {
		dur = end
	}
	size := int64(len(tailSeg.data))
	// offsets
	offs := map[int64]bool{}
	add := func(o int64) {
		if o >= dur && o <= end {
			offs[o] = true
		}
	}
	if dense && end-dur <= 40000 {
		for o := dur; o <= end; o++ {
			offs[o] = true
		}
	} else {
		add(dur)
		add(end)
		for _, f := range tailSeg.frames {
			for _, o := range []int64{f.off - 1, f.off, f.off + 1, f.off + 3, f.off + 7, f.off + 8, f.off + 9, f.end - 1} {
				add(o)
			}
		}
		for s := dur / walSector; s <= end/walSector+1; s++ {
			add(s*walSector - 1)
			add(s * walSector)
			add(s*walSector + 1)
		}
		k := 12
		if dense {
			k = 400
		}
		for i := 0; i < k && end > dur; i++ {
			add(dur + d.rng.Int63n(end-dur+1))
		}
	}
	var ol []int64
	for o := range offs {
		ol = append(ol, o)
	}
	sort.Slice(ol, func(a, b int) bool { return ol[a] < ol[b] })
	if !dense && d.maxImgPerCall > 0 && len(ol) > d.maxImgPerCall {
		// keep a seeded subset, always including both ends
		keep := map[int]bool{0: true, len(ol) - 1: true}
		for len(keep) < d.maxImgPerCall {
			keep[d.rng.Intn(len(ol))] = true
		}
		var o2 []int64
		for i, o := range ol {
			if keep[i] {
				o2 = append(o2, o)
			}
		}
		ol = o2
	}
	if d.hole0 {
		ol = nil
	}
	for _, o := range ol {
		img := make([]byte, size)
		copy(img, tailSeg.data[:o])
		d.emitImage("trunc", o, segs, img, ti, 0, d.snapMode())
		if o%walSector != 0 {
			nb := (o/walSector + 1) * walSector
			if nb < end {
				img2 := make([]byte, size)
				copy(img2, tailSeg.data)
				for p := o; p < nb; p++ {
					img2[p] = 0
				}
				d.emitImage("zfill", o, segs, img2, ti, 0, d.snapMode())
			}
		}
	}
	// one whole sector of the unsynced region never arrived
	nsect := (end-dur)/walSector + 1
	for s := dur / walSector; s*walSector < end && !d.hole0; s++ {
		if !dense && nsect > 8 && s != dur/walSector && (s+1)*walSector < end && d.rng.Int63n(nsect) >= 6 {
			continue // sparse mode: first, last and about six sampled sectors
		}
		lo, hi := s*walSector, (s+1)*walSector
		if lo < dur {
			lo = dur
		}
		if hi > size {
			hi = size
		}
		if lo >= hi {
			continue
		}
		img := make([]byte, size)
		copy(img, tailSeg.data)
		for p := lo; p < hi; p++ {
			img[p] = 0
		}
		d.emitImage("sector", lo, segs, img, ti, 0, d.snapMode())
	}
	// an older segment that ends early at a record boundary (its last records never reached
	// the disk, zeros or EOF instead) while the following segments are intact: the CRC chain
	// across segments has to notice the hole
	gbase := d.purgedRecs
	for si, s := range segs[:ti] {
		nf := len(s.frames)
		if d.hole0 && si > 0 {
			break
		}
		if nf >= 2 && (dense || d.hole0 || d.rng.Intn(2) == 0) {
			cutAt := nf - 1 - d.rng.Intn(wMin(3, nf-1)) // first missing frame (0-based), at least one frame stays
			if si == 0 && cutAt < 2 {
				// known finding C05-crc-chain-vacuous-after-first-crc: a first segment that keeps
				// nothing but its leading crc record is left to the isolate stage
				cutAt = 2
				if nf <= 2 {
					gbase += nf
					continue
				}
			}
			if d.hole0 {
				cutAt = 1
			}
			f := s.frames[cutAt]
			for v := 0; v < 2; v++ {
				var img []byte
				if v == 0 {
					img = make([]byte, len(s.data)) // zeros instead of the lost records
					copy(img, s.data[:f.off])
				} else {
					img = append([]byte(nil), s.data[:f.off]...) // the file simply ends there
				}
				d.where = "hole"
				d.emitImage("hole", f.off, segs, img, si, gbase+cutAt+1, d.snapMode())
			}
		}
		gbase += nf
	}
	if d.hole0 {
		// ... and the length field of every segment's leading crc record, all 64 bits
		hb := d.purgedRecs
		for si, s := range segs {
			if len(s.frames) > 0 && s.frames[0].end <= d.durOff[s.name] {
				f := s.frames[0]
				for p := f.off; p < f.off+8; p++ {
					for bit := uint(0); bit < 8; bit++ {
						img := append([]byte(nil), s.data...)
						img[p] ^= 1 << bit
						d.where = "len"
						d.segFirst = true
						d.emitImage("flip", p*8+int64(bit), segs, img, si, hb+1, 0)
						d.segFirst = false
					}
				}
			}
			hb += len(s.frames)
		}
		return
	}
	// single bit flips in the synced region of any segment
	base := d.purgedRecs
	for si, s := range segs {
		do := d.durOff[s.name]
		for fi, f := range s.frames {
			if f.end > do {
				break
			}
			var pos []int64
			if d.typeFlips {
				// isolate stage of C05-record-type-unprotected: the record's type tag and value
				pos = append(pos, f.off+8, f.off+9)
			} else if dense {
				for p := f.off; p < f.off+8; p++ {
					pos = append(pos, p)
				}
				for p := f.off + 10; p < f.end && p < f.off+20; p++ {
					pos = append(pos, p)
				}
				pos = append(pos, f.off+8+d.rng.Int63n(f.end-f.off-8), f.end-1)
			} else if d.rng.Intn(3) == 0 {
				pos = append(pos, f.off+d.rng.Int63n(8))
				if f.end-f.off > 10 {
					// known finding C05-record-type-unprotected: the two bytes holding the record
					// type (not covered by the CRC) are kept out of the general flip corpus
					pos = append(pos, f.off+10+d.rng.Int63n(f.end-f.off-10))
				}
			}
			for _, p := range pos {
				if fi == 0 && p < f.off+8 && !d.hole0 {
					// known finding C05-crc-chain-vacuous-after-first-crc: the length field of a
					// segment's leading crc record (zero length = "empty file", running CRC 0)
					continue
				}
				bits := []uint{uint(d.rng.Intn(8))}
				if (dense && p < f.off+8) || d.typeFlips {
					bits = []uint{0, 1, 2, 3, 4, 5, 6, 7}
				}
				d.where = "body"
				switch {
				case p < f.off+8:
					d.where = "len"
				case p == f.off+8:
					d.where = "typetag"
				case p == f.off+9:
					d.where = "type"
				}
				for _, bit := range bits {
					img := make([]byte, len(s.data))
					copy(img, s.data)
					img[p] ^= 1 << bit
					d.emitImage("flip", p*8+int64(bit), segs, img, si, base+fi+1, 0)
				}
			}
		}
		base += len(s.frames)
	}
}

func (d *walDrv) snapMode() int {
	if d.rng.Intn(5) == 0 {
		return 1 + d.rng.Intn(4)
	}
	return 0
}

func (d *walDrv) post(ev trace.M, err error) {
	segs := d.readDir()
	ev["err"] = wErrKind(err)
	ev["nrec"] = d.purgedRecs + wNrec(segs)
	ev["dur"] = d.purgedRecs + d.durCount(segs)
	ev["names"] = wNames(segs)
	d.tw.Emit(ev)
}

type wName struct {
	S int `json:"s"`
	I int `json:"i"`
}

// the <seq>-<index> pairs of the segment files that exist
func wNames(segs []*wSeg) []wName {
	out := []wName{}
	for _, s := range segs {
		var seq, idx uint64
		if _, err := fmt.Sscanf(s.name, "%016x-%016x.wal", &seq, &idx); err == nil {
			out = append(out, wName{int(seq), int(idx)})
		}
	}
	return out
}

// one pass of the real background purge (fileutil.PurgeFile): the stop channel is already
// closed, so the loop removes what it may remove once and ends
func (d *walDrv) purge(max int) (removed int, err error) {
	before := d.readDir()
	stop := make(chan struct{})
	close(stop)
	donec, errc := fileutil.PurgeFileWithDoneNotify(d.dir, "wal", uint(max), time.Hour, stop)
	<-donec
	select {
	case err = <-errc:
	default:
	}
	left := map[string]bool{}
	for _, n := range d.readDirNames() {
		left[n] = true
	}
	for _, s := range before {
		if !left[s.name] {
			removed++
			d.purgedRecs += len(s.frames)
			d.nPurged++
		}
	}
	return
}

// run one history; images after every call
func (d *walDrv) history(calls []wCall, dense bool, imgEvery int) {
	hd := filepath.Join(d.scratch, fmt.Sprintf("h%d", d.nHist))
	os.RemoveAll(hd)
	os.MkdirAll(hd, 0755)
	defer os.RemoveAll(hd)
	d.dir = filepath.Join(hd, "w")
	d.imgBase = filepath.Join(hd, "img")
	d.durOff = map[string]int64{}
	d.byHash = map[[20]byte]int{}
	d.saved = []wSnap{{0, 0}}
	d.lastHS = wHS{}
	d.entiLost, d.lastEnt, d.maxMark = false, 0, 0
	d.purgedRecs = 0
	d.snapFiles = nil
	if d.snapOn {
		d.snapDir = filepath.Join(hd, "snap")
		os.MkdirAll(d.snapDir, 0755)
		d.ss = snappkg.New(d.snapDir)
	}
	d.w = nil
	d.nHist++
	wal.SegmentSizeBytes = d.segSize
	wal.VerifSyncHook = func(file string, off int64) {
		if dd := filepath.Dir(file); dd != d.dir && dd != d.dir+".tmp" {
			return
		}
		d.durOff[filepath.Base(file)] = off
	}
	d.tw.Emit(trace.M{"ev": "reset", "seg": d.segSize})
	defer func() {
		if d.w != nil {
			func() {
				defer func() { recover() }()
				d.w.Close()
			}()
			d.w = nil
		}
	}()
	for ci, c := range calls {
		var err error
		paniced := ""
		nseg := len(d.readDirNames())
		func() {
			defer func() {
				if e := recover(); e != nil {
					paniced = fmt.Sprint(e)
				}
			}()
			switch c.kind {
			case "create":
				d.opt = c.opt
				d.w, err = wal.Create(d.dir, wMeta(1), c.opt)
			case "save":
				ents := make([]raftpb.Entry, 0, len(c.ents))
				for i, e := range c.ents {
					ents = append(ents, d.entry(e, c.size[i]))
				}
				// -misname: after a restart whose newest marker is ahead of the last entry, roll
				// before the next entry is saved (fixed finding C05-segment-misnamed-after-restart)
				if c.cut || (d.entiLost && d.misname) {
					wal.SegmentSizeBytes = 1
				}
				if len(c.ents) > 0 {
					d.entiLost = false
					d.lastEnt = c.ents[len(c.ents)-1].I
				}
				if c.hs != (wHS{}) {
					d.lastHS = c.hs
				}
				err = d.w.Save(raftpb.HardState{Term: uint64(c.hs.T), Vote: uint64(c.hs.V), Commit: uint64(c.hs.C)}, ents)
				wal.SegmentSizeBytes = d.segSize
			case "snap":
				d.saved = append(d.saved, c.snap)
				if c.snap.I > d.maxMark {
					d.maxMark = c.snap.I
				}
				if d.snapOn && c.snap.I > 0 {
					// as raftPersistStorage.SaveSnap: the snapshot file first, the marker second
					d.snapX++
					x := 2<<20 + d.snapX
					data := d.payload(x, 40+d.rng.Intn(400))
					d.byHash[sha1.Sum(data)] = x
					sn := raftpb.Snapshot{Data: data, Metadata: raftpb.SnapshotMetadata{Index: uint64(c.snap.I), Term: uint64(c.snap.T),
						ConfState: raftpb.ConfState{Nodes: []uint64{1, 2, 3}}}}
					if err = d.ss.SaveSnap(sn); err != nil {
						break
					}
					name := fmt.Sprintf("%016x-%016x.snap", c.snap.T, c.snap.I)
					b, _ := ioutil.ReadFile(filepath.Join(d.snapDir, name))
					d.snapFiles = append(d.snapFiles, wSnapFile{name, c.snap.I, c.snap.T, x, b, pbutil.MustMarshal(&sn)})
				}
				err = d.w.SaveSnapshot(walpb.Snapshot{Index: uint64(c.snap.I), Term: uint64(c.snap.T)})
			case "release":
				d.nReleases++
				err = d.w.ReleaseLockTo(uint64(c.rel))
			case "sync":
				d.nSyncs++
				err = d.w.Sync()
			case "purge":
				c.removed, err = d.purge(c.rel)
			case "close":
				err = d.w.Close()
			case "restart":
				v := d.valid(d.dir)
				snap := wNewest(v)
				c.snap = snap
				r, _, ww := d.reopen(d.dir, snap, true)
				if r.Err != "" {
					err = fmt.Errorf("%s", r.Err)
				}
				d.w = ww
				d.nRestarts++
				d.entiLost = d.maxMark > d.lastEnt
			}
		}()
		d.nCalls++
		if paniced != "" {
			d.tw.Emit(trace.M{"ev": "panic", "call": c.kind, "what": paniced})
			return
		}
		// a new segment keeps the durable offset that was reported under its temporary name
		names := d.readDirNames()
		cut := len(names) > nseg && c.kind == "save"
		if cut {
			d.nCuts++
			for k, v := range d.durOff {
				if strings.HasSuffix(k, ".tmp") {
					d.durOff[names[len(names)-1]] = v
					delete(d.durOff, k)
				}
			}
		}
		switch c.kind {
		case "create":
			d.post(trace.M{"ev": "create", "opt": c.opt, "meta": 1}, err)
		case "save":
			ents := c.ents
			if ents == nil {
				ents = []wEnt{}
			}
			d.post(trace.M{"ev": "save", "hs": c.hs, "ents": ents, "cut": cut}, err)
		case "snap":
			d.post(trace.M{"ev": "snap", "i": c.snap.I, "t": c.snap.T}, err)
		case "release":
			d.post(trace.M{"ev": "release", "i": c.rel}, err)
		case "sync":
			d.post(trace.M{"ev": "sync"}, err)
		case "purge":
			d.post(trace.M{"ev": "purge", "max": c.rel, "removed": c.removed}, err)
		case "close":
			d.post(trace.M{"ev": "close"}, err)
		case "restart":
			d.post(trace.M{"ev": "restart", "snap": c.snap}, err)
		}
		if err != nil {
			return
		}
		if c.kind == "release" || c.kind == "restart" || c.kind == "sync" || (c.kind == "purge" && c.removed == 0) {
			continue
		}
		if imgEvery <= 1 || ci%imgEvery == imgEvery-1 || ci == len(calls)-1 || cut {
			d.images(dense)
		}
	}
}

// concHistory: the raft loop (Save) and the snapshot goroutine (SaveSnapshot, ReleaseLockTo)
// of node/raft.go use one WAL concurrently.  Two goroutines do that on the real WAL in
// batches; afterwards the order in which the WAL's mutex serialized the calls is read off
// the file (each call's records are contiguous, records appear in mutex order), the durable
// count after each call from the sync-hook reports (taken under the same mutex), and the
// calls are logged in that order like a sequential history.  Then Close, images, reopen.
func (d *walDrv) concHistory() {
	hd := filepath.Join(d.scratch, fmt.Sprintf("h%d", d.nHist))
	os.RemoveAll(hd)
	os.MkdirAll(hd, 0755)
	defer os.RemoveAll(hd)
	d.dir = filepath.Join(hd, "w")
	d.imgBase = filepath.Join(hd, "img")
	d.durOff = map[string]int64{}
	d.byHash = map[[20]byte]int{}
	d.saved = []wSnap{{0, 0}}
	d.purgedRecs = 0
	d.nHist++
	d.segSize = 512 * 1024
	wal.SegmentSizeBytes = d.segSize
	var hookOffs []int64
	wal.VerifSyncHook = func(file string, off int64) {
		if dd := filepath.Dir(file); dd != d.dir && dd != d.dir+".tmp" {
			return
		}
		d.durOff[filepath.Base(file)] = off
		hookOffs = append(hookOffs, off)
	}
	d.tw.Emit(trace.M{"ev": "reset", "seg": d.segSize})
	d.opt = d.rng.Intn(2) == 0
	w, err := wal.Create(d.dir, wMeta(1), d.opt)
	d.w = w
	d.post(trace.M{"ev": "create", "opt": d.opt, "meta": 1}, err)
	if err != nil {
		return
	}
	defer func() {
		if d.w != nil {
			func() {
				defer func() { recover() }()
				d.w.Close()
			}()
			d.w = nil
		}
	}()
	m := &wMirror{termOf: map[int]int{}}
	sz := func() int { return 8 + d.rng.Intn(180) }
	var pendSave []wCall // saver calls whose records have not been seen in the file yet
	var pendSnap []wSnap
	seen := 3 // frames already attributed
	flush := func(final bool) bool {
		segs := d.readDir()
		if len(segs) != 1 {
			return false
		}
		fr := segs[0].frames
		durAt := func(end int64) int {
			var best int64
			for _, h := range hookOffs {
				if h <= end && h > best {
					best = h
				}
			}
			n := 0
			for _, f := range fr {
				if f.end <= best {
					n++
				}
			}
			return n
		}
		for seen < len(fr) {
			if mk := segs[0].marks[seen]; mk.I >= 0 {
				if len(pendSnap) == 0 || pendSnap[0] != mk {
					d.tw.Emit(trace.M{"ev": "panic", "call": "snap", "what": "a marker record that no SaveSnapshot call wrote"})
					return false
				}
				pendSnap = pendSnap[1:]
				seen++
				d.tw.Emit(trace.M{"ev": "snap", "i": mk.I, "t": mk.T, "err": "", "nrec": seen, "dur": durAt(fr[seen-1].end), "names": wNames(segs)})
				continue
			}
			if len(pendSave) == 0 {
				d.tw.Emit(trace.M{"ev": "panic", "call": "save", "what": "records that no Save call wrote"})
				return false
			}
			c := pendSave[0]
			need := len(c.ents)
			if c.hs != (wHS{}) {
				need++
			}
			if seen+need > len(fr) {
				break // the rest of this call is still in the page writer's buffer
			}
			pendSave = pendSave[1:]
			seen += need
			ents := c.ents
			if ents == nil {
				ents = []wEnt{}
			}
			d.tw.Emit(trace.M{"ev": "save", "hs": c.hs, "ents": ents, "cut": false, "err": "", "nrec": seen, "dur": durAt(fr[seen-1].end), "names": wNames(segs)})
		}
		return true
	}
	for batch := 0; batch < 3+d.rng.Intn(3); batch++ {
		var saves []wCall
		cBefore := m.last.C
		for k := 2 + d.rng.Intn(5); k > 0; k-- {
			kind := []string{"zero", "commit", "commit", "term"}[d.rng.Intn(4)]
			n := 1 + d.rng.Intn(3)
			if kind == "term" {
				if m.last.T >= 6 {
					kind = "commit"
				} else if d.rng.Intn(2) == 0 {
					n = 0
				}
			}
			saves = append(saves, m.save(kind, m.enti+1, n, false, sz))
		}
		var snaps []wSnap
		// markers at indexes that were committed before this batch began
		for i := m.maxMarker + 1; i <= cBefore && len(snaps) < 3; i += 1 + d.rng.Intn(3) {
			snaps = append(snaps, wSnap{i, wMax(m.termOf[i], 1)})
			m.maxMarker = i
		}
		ents := make([][]raftpb.Entry, len(saves))
		for i, c := range saves {
			for j, e := range c.ents {
				ents[i] = append(ents[i], d.entry(e, c.size[j]))
			}
		}
		pendSave = append(pendSave, saves...)
		pendSnap = append(pendSnap, snaps...)
		d.saved = append(d.saved, snaps...)
		errc := make(chan string, 2)
		go func() {
			defer func() {
				if e := recover(); e != nil {
					errc <- fmt.Sprint("panic: ", e)
					return
				}
			}()
			for i, c := range saves {
				if err := d.w.Save(raftpb.HardState{Term: uint64(c.hs.T), Vote: uint64(c.hs.V), Commit: uint64(c.hs.C)}, ents[i]); err != nil {
					errc <- err.Error()
					return
				}
				if i%2 == 0 {
					runtime.Gosched()
				}
			}
			errc <- ""
		}()
		go func() {
			defer func() {
				if e := recover(); e != nil {
					errc <- fmt.Sprint("panic: ", e)
					return
				}
			}()
			for _, sn := range snaps {
				if err := d.w.SaveSnapshot(walpb.Snapshot{Index: uint64(sn.I), Term: uint64(sn.T)}); err != nil {
					errc <- err.Error()
					return
				}
				if err := d.w.ReleaseLockTo(uint64(sn.I)); err != nil {
					errc <- err.Error()
					return
				}
				runtime.Gosched()
			}
			errc <- ""
		}()
		e1, e2 := <-errc, <-errc
		d.nCalls += len(saves) + len(snaps)
		d.nConcBatches++
		if e1 != "" || e2 != "" {
			d.tw.Emit(trace.M{"ev": "panic", "call": "concurrent batch", "what": e1 + e2})
			return
		}
		if !flush(false) {
			return
		}
	}
	err = d.w.Close()
	if !flush(true) || len(pendSave) > 0 || len(pendSnap) > 0 {
		d.tw.Emit(trace.M{"ev": "panic", "call": "close", "what": "records of a returned call are not in the file after Close"})
		return
	}
	d.post(trace.M{"ev": "close"}, err)
	d.images(false)
}

func (d *walDrv) readDirNames() []string {
	names, _ := filepath.Glob(filepath.Join(d.dir, "*.wal"))
	sort.Strings(names)
	for i := range names {
		names[i] = filepath.Base(names[i])
	}
	return names
}

// ---------------------------------------------------------------- history sources

func wMin(a, b int) int {
	if a < b {
		return a
	}
	return b
}

func wMax(a, b int) int {
	if a > b {
		return a
	}
	return b
}

// legality mirror used to turn action labels / random choices into concrete calls
type wMirror struct {
	last      wHS
	enti      int
	maxMarker int
	termOf    map[int]int
	nextX     int
	closed    bool
}

func (m *wMirror) hsOf(kind string, newLast int) wHS {
	switch kind {
	case "commit":
		return wHS{wMax(m.last.T, 1), m.last.V, newLast}
	case "term":
		return wHS{m.last.T + 1, 1, m.last.C}
	case "term0":
		return wHS{m.last.T + 1, 0, m.last.C}
	case "vote":
		return wHS{m.last.T, 1, m.last.C}
	}
	return wHS{}
}

func (m *wMirror) save(kind string, f, n int, cut bool, sizes func() int) wCall {
	newLast := m.enti
	if n > 0 {
		newLast = f + n - 1
	}
	hs := m.hsOf(kind, newLast)
	et := wMax(m.last.T, 1)
	if hs != (wHS{}) {
		et = hs.T
	}
	c := wCall{kind: "save", hs: hs, cut: cut}
	for j := 0; j < n; j++ {
		m.nextX++
		c.ents = append(c.ents, wEnt{f + j, et, m.nextX})
		c.size = append(c.size, sizes())
		m.termOf[f+j] = et
	}
	if n > 0 {
		for i := range m.termOf {
			if i > newLast {
				delete(m.termOf, i)
			}
		}
		m.enti = newLast
	}
	if hs != (wHS{}) {
		m.last = hs
	}
	return c
}

func (m *wMirror) snap(i, t int) wCall {
	m.enti = wMax(m.enti, i)
	m.maxMarker = wMax(m.maxMarker, i)
	return wCall{kind: "snap", snap: wSnap{i, t}}
}

var wReLabel = regexp.MustCompile(`^\\\* <(\w+)(?:\(([^)]*)\))? line`)

func wLoadSim(path string, sizes func() int) ([]wCall, error) {
	fh, err := os.Open(path)
	if err != nil {
		return nil, err
	}
	defer fh.Close()
	m := &wMirror{termOf: map[int]int{}}
	var calls []wCall
	sc := bufio.NewScanner(fh)
	sc.Buffer(make([]byte, 1<<20), 1<<24)
	for sc.Scan() {
		mm := wReLabel.FindStringSubmatch(sc.Text())
		if mm == nil {
			continue
		}
		var a []string
		if mm[2] != "" {
			for _, s := range strings.Split(mm[2], ",") {
				a = append(a, strings.Trim(strings.TrimSpace(s), `"`))
			}
		}
		ai := func(k int) int { v, _ := strconv.Atoi(a[k]); return v }
		switch mm[1] {
		case "DoCreate":
			calls = append(calls, wCall{kind: "create", opt: a[0] == "TRUE"})
		case "DoSave":
			calls = append(calls, m.save(a[0], ai(1), ai(2), a[3] == "TRUE", sizes))
		case "DoSnap":
			calls = append(calls, m.snap(ai(0), ai(1)))
		case "DoRelease":
			calls = append(calls, wCall{kind: "release", rel: ai(0)})
		case "DoSync":
			calls = append(calls, wCall{kind: "sync"})
		case "DoPurge":
			calls = append(calls, wCall{kind: "purge", rel: ai(0)})
		case "DoClose":
			calls = append(calls, wCall{kind: "close"})
		case "DoRestart":
			calls = append(calls, wCall{kind: "restart"})
		}
	}
	// drop a trailing close/restart ping-pong
	for len(calls) > 2 && calls[len(calls)-1].kind == "restart" && calls[len(calls)-2].kind == "close" &&
		(calls[len(calls)-3].kind == "restart" || calls[len(calls)-3].kind == "close") {
		calls = calls[:len(calls)-2]
	}
	return calls, sc.Err()
}

// sizes around the thresholds the wal code knows: 4 KB page of the page writer, its
// 128 KB buffer watermark, the 1 MB marshal buffers of WAL.saveEntry / encoder.encode,
// 2*MaxValueSize = 16 MB, the 64 MB segment, the decoder's 100 MB frame bound
func wThresholdSize(rng *rand.Rand, class int) int {
	j := rng.Intn(129) - 64
	switch class {
	case 0:
		return 4096 + j
	case 1:
		return 128*1024 + j
	case 2:
		return 128*1024 + 4096 + j
	case 3:
		return 1024*1024 + j
	case 4:
		return 16*1024*1024 + j
	case 5:
		return 17*1024*1024 + rng.Intn(1<<20)
	case 6:
		return 100*1024*1024 - 4096 + j // just below the decoder's frame bound
	}
	return 64 + rng.Intn(64)
}

// scripted history whose entries sit just below / at / above those thresholds; variant 0
// (quick) has one entry above 16 MB; variant 1 fills the 64 MB segment so that it rolls;
// variant 2 has an entry just below 100 MB
func wSizesHistory(rng *rand.Rand, variant int) []wCall {
	m := &wMirror{termOf: map[int]int{}}
	var pool []int
	sz := func() int {
		if len(pool) > 0 {
			v := pool[0]
			pool = pool[1:]
			return v
		}
		return 32 + rng.Intn(200)
	}
	calls := []wCall{{kind: "create", opt: rng.Intn(2) == 0}}
	// one Save whose entries cross the page-writer watermark at different alignments
	pool = []int{wThresholdSize(rng, 0), 60000 + rng.Intn(100), wThresholdSize(rng, 1) - 64100, wThresholdSize(rng, 0)}
	calls = append(calls, m.save("term", 1, 4, false, sz))
	pool = []int{wThresholdSize(rng, 1), wThresholdSize(rng, 2), wThresholdSize(rng, 3)}
	calls = append(calls, m.save("commit", m.enti+1, 3, false, sz))
	switch variant {
	case 0:
		pool = []int{wThresholdSize(rng, 5)}
		calls = append(calls, m.save("zero", m.enti+1, 1, false, sz))
	case 1:
		pool = []int{wThresholdSize(rng, 4), wThresholdSize(rng, 5)}
		calls = append(calls, m.save("zero", m.enti+1, 2, false, sz))
		pool = []int{wThresholdSize(rng, 5), 14*1024*1024 - 200000 + rng.Intn(400000)}
		calls = append(calls, m.save("vote", m.enti+1, 2, false, sz))
	case 2:
		pool = []int{wThresholdSize(rng, 6)}
		calls = append(calls, m.save("zero", m.enti+1, 1, false, sz))
	}
	calls = append(calls, m.save("commit", m.enti+1, 1, false, sz))
	calls = append(calls, m.snap(m.last.C, wMax(m.last.T, 1)))
	calls = append(calls, wCall{kind: "close"}, wCall{kind: "restart"})
	pool = []int{wThresholdSize(rng, 3), wThresholdSize(rng, 1)}
	calls = append(calls, m.save("zero", m.enti+1, 2, false, sz))
	calls = append(calls, m.save("commit", m.enti+1, 0, false, sz))
	return calls
}

// scripted history around lock release and purge: tiny segments that roll often, snapshots
// (local at the commit index, or received ahead of the log), then what the node does -
// wal.Sync(), ReleaseLockTo(snapshot index), a pass of the background purge - clean restarts
// at the newest valid marker (which lock only the segments from the selected one on) and
// further purge passes
func wPurgeHistory(rng *rand.Rand) []wCall {
	m := &wMirror{termOf: map[int]int{}}
	sz := func() int { return 200 + rng.Intn(700) }
	calls := []wCall{{kind: "create", opt: rng.Intn(2) == 0}}
	calls = append(calls, m.save("term", 1, 1+rng.Intn(2), false, sz))
	rounds := 2 + rng.Intn(3)
	for r := 0; r < rounds; r++ {
		for k := 1 + rng.Intn(3); k > 0; k-- {
			kind := []string{"zero", "commit", "commit", "term"}[rng.Intn(4)]
			if kind == "term" && m.last.T >= 5 {
				kind = "commit"
			}
			calls = append(calls, m.save(kind, m.enti+1, 1+rng.Intn(3), rng.Intn(3) == 0, sz))
		}
		if rng.Intn(4) == 0 {
			// snapshot received from the leader, ahead of the log, then the state that commits it
			calls = append(calls, m.snap(m.enti+1+rng.Intn(3), wMax(m.last.T, 1)))
			for k := range m.termOf {
				delete(m.termOf, k)
			}
			calls = append(calls, m.save("commit", m.enti+1, 0, rng.Intn(2) == 0, sz))
		} else if m.last.C > m.maxMarker {
			i := m.maxMarker + 1 + rng.Intn(m.last.C-m.maxMarker)
			t, ok := m.termOf[i]
			if !ok {
				t = wMax(m.last.T, 1)
			}
			calls = append(calls, m.snap(i, t))
			if rng.Intn(3) == 0 {
				// a marker behind the log, then a Save without entries that rolls the segment,
				// then a later marker in the new segment (segment names must not move backwards)
				kind := "term"
				if m.last.T >= 5 {
					kind = "vote"
				}
				calls = append(calls, m.save(kind, m.enti+1, 0, true, sz))
				if m.last.C > m.maxMarker {
					j := m.maxMarker + 1 + rng.Intn(m.last.C-m.maxMarker)
					tj, ok := m.termOf[j]
					if !ok {
						tj = wMax(m.last.T, 1)
					}
					calls = append(calls, m.snap(j, tj))
				}
			}
		}
		if m.maxMarker > 0 && m.maxMarker <= m.last.C {
			calls = append(calls, wCall{kind: "sync"}, wCall{kind: "release", rel: m.maxMarker})
		}
		calls = append(calls, wCall{kind: "purge", rel: rng.Intn(4)})
		if rng.Intn(2) == 0 {
			calls = append(calls, wCall{kind: "close"}, wCall{kind: "restart"})
			calls = append(calls, wCall{kind: "purge", rel: rng.Intn(4)})
			if rng.Intn(2) == 0 {
				// a roll right after the restart, before any entry (segment naming)
				calls = append(calls, m.save("term", m.enti+1, 0, true, sz))
			}
		}
	}
	calls = append(calls, m.save("commit", m.enti+1, 1+rng.Intn(2), false, sz))
	return calls
}

// seeded history of about n calls
func wRandomHistory(rng *rand.Rand, n int, big bool, stateFirst bool) []wCall {
	m := &wMirror{termOf: map[int]int{}}
	calls := []wCall{{kind: "create", opt: rng.Intn(2) == 0}}
	sizes := func() int {
		if big && rng.Intn(3) == 0 {
			// around and above the 1 MB marshal buffers of WAL.saveEntry and encoder.encode
			return 1024*1024 - 40 + rng.Intn(80) + rng.Intn(2)*300000
		}
		switch r := rng.Intn(20); {
		case r < 3:
			return 4
		case r < 10:
			return 8 + rng.Intn(90)
		case r < 17:
			return 200 + rng.Intn(600)
		case r < 19:
			return 1500 + rng.Intn(2500)
		default:
			if big {
				return 1024*1024 - 40 + rng.Intn(80) + rng.Intn(2)*300000
			}
			return 5000 + rng.Intn(3000)
		}
	}
	afterRestart := false
	for len(calls) < n {
		r := rng.Intn(100)
		switch {
		case m.closed:
			calls = append(calls, wCall{kind: "restart"})
			m.closed = false
			afterRestart = true
		case r < 70:
			var kinds []string
			kinds = append(kinds, "zero", "zero", "commit")
			if m.last.T < 6 {
				kinds = append(kinds, "term")
				if rng.Intn(3) == 0 {
					kinds = append(kinds, "term0")
				}
			}
			if m.last.T >= 1 && m.last.V == 0 {
				kinds = append(kinds, "vote", "vote")
			}
			kind := kinds[rng.Intn(len(kinds))]
			if m.maxMarker > m.last.C {
				kind = "commit" // the hard state that commits a received snapshot comes next
			}
			if afterRestart && stateFirst && kind == "zero" {
				// what raft does: the first Ready after a restart carries the hard state
				kind = "commit"
			}
			nents := rng.Intn(4)
			floor := wMax(m.last.C, m.maxMarker)
			f := m.enti + 1
			if nents > 0 && rng.Intn(5) == 0 && m.enti > floor {
				f = floor + 1 + rng.Intn(m.enti-floor)
			}
			newLast := m.enti
			if nents > 0 {
				newLast = f + nents - 1
			}
			if kind == "commit" && newLast <= m.last.C {
				if nents == 0 {
					nents = 1
					newLast = f
				}
			}
			if kind == "zero" && nents == 0 {
				nents = 1
			}
			calls = append(calls, m.save(kind, f, nents, rng.Intn(25) == 0, sizes))
			afterRestart = false
		case r < 80:
			// local snapshot at a committed index, or one received from a leader (ahead of the log)
			if m.last.C > m.maxMarker && rng.Intn(3) > 0 {
				i := m.maxMarker + 1 + rng.Intn(m.last.C-m.maxMarker)
				t, ok := m.termOf[i]
				if !ok {
					t = wMax(m.last.T, 1)
				}
				calls = append(calls, m.snap(i, t))
			} else if rng.Intn(2) == 0 {
				i := m.enti + 1 + rng.Intn(3)
				calls = append(calls, m.snap(i, wMax(m.last.T, 1)))
				for k := range m.termOf {
					delete(m.termOf, k)
				}
			}
		case r < 88:
			// what the node does after a snapshot: wal.Sync(), release the locks up to the
			// snapshot index, and at some point the background purge runs
			if m.maxMarker > 0 && m.maxMarker <= m.last.C {
				calls = append(calls, wCall{kind: "sync"}, wCall{kind: "release", rel: m.maxMarker})
				if rng.Intn(3) > 0 {
					calls = append(calls, wCall{kind: "purge", rel: rng.Intn(3)})
				}
			} else {
				calls = append(calls, wCall{kind: "sync"})
			}
		case r < 94:
			calls = append(calls, wCall{kind: "close"})
			m.closed = true
		}
	}
	return calls
}

func walsim(args []string) error {
	fs := flag.NewFlagSet("walsim", flag.ExitOnError)
	out := fs.String("o", "", "trace file")
	seed := fs.Int64("seed", 1, "seed")
	sim := fs.String("sim", "", "directory with TLC -simulate behaviours of MC_ZWal")
	part := fs.Int("part", 0, "this process handles histories k with k % parts == part")
	parts := fs.Int("parts", 1, "number of driver processes")
	nrand := fs.Int("random", 0, "number of seeded histories")
	hlen := fs.Int("len", 12, "calls per seeded history")
	dense := fs.Bool("dense", false, "every byte offset of the unsynced tail, every header bit")
	big := fs.Bool("big", false, "entries larger than the 1 MB buffers (sampled offsets)")
	maxImg := fs.Int("maximg", 0, "cap on truncation offsets per call (sparse mode)")
	imgEvery := fs.Int("imgevery", 1, "images after every k-th call only")
	misname := fs.Bool("misname", false, "scripted histories: marker ahead of the log, commit, close, restart, term change with a roll (regression stage of the fixed finding C05-segment-misnamed-after-restart)")
	nsizes := fs.Int("sizes", 0, "number of scripted size-threshold histories (default segment size, process-crash images only)")
	sizeVariants := fs.Int("sizevariants", 1, "1: one entry > 16 MB; 2: also a history that fills the 64 MB segment; 3: also an entry just below 100 MB")
	nconc := fs.Int("conc", 0, "number of histories in which Save and SaveSnapshot/ReleaseLockTo run in two goroutines")
	lifeAll := fs.Bool("lifeall", false, "a second life (reopen, save on, reopen) after every damaged image, not every second one")
	bigBatch := fs.Bool("bigbatch", false, "scripted histories with Saves of 8..21 entries that span several pages (torn multi-page batches)")
	snapFiles := fs.Bool("snapfiles", false, "keep a real snap.Snapshotter directory next to the log (file first, marker second), damage it in the images and let LoadNewestAvailable pick the snapshot to open at")
	purgeStage := fs.Bool("purge", false, "scripted histories around wal.Sync / ReleaseLockTo / the background purge / restarts")
	hole0 := fs.Bool("hole0", false, "isolate stage of C05-crc-chain-vacuous-after-first-crc: only images whose first segment keeps nothing but its leading crc record")
	typeFlips := fs.Bool("typeflips", false, "only bit flips in the record-type bytes (isolate stage of C05-record-type-unprotected)")
	noStateFirst := fs.Bool("zero-after-restart", false, "scripted histories: restart, entry-only Save that rolls the segment (regression stage of the fixed finding C05-header-without-state-after-restart)")
	fs.Parse(args)
	capnslog.SetGlobalLogLevel(capnslog.CRITICAL)
	wal.VerifQuiet()
	snappkg.VerifQuiet()
	scratch := os.Getenv("ZR_SCRATCH")
	if scratch == "" {
		return fmt.Errorf("ZR_SCRATCH not set")
	}
	scratch = filepath.Join(scratch, fmt.Sprintf("walsim-%d", *part))
	os.MkdirAll(scratch, 0755)
	defer os.RemoveAll(scratch)
	tw, err := trace.Create(*out)
	if err != nil {
		return err
	}
	d := &walDrv{tw: tw, scratch: scratch, byKind: map[string]int{}, byTail: map[string]int{}, byOutcome: map[string]int{},
		maxImgPerCall: *maxImg, typeFlips: *typeFlips, misname: *misname, hole0: *hole0, lifeAll: *lifeAll, snapOn: *snapFiles, bySnapMode: map[string]int{}}
	k := 0
	nsim := 0
	if *sim != "" {
		files, _ := filepath.Glob(filepath.Join(*sim, "*"))
		sort.Strings(files)
		for _, f := range files {
			k++
			if k%*parts != *part {
				continue
			}
			d.rng = rand.New(rand.NewSource(*seed*1000003 + int64(k)))
			sizes := func() int { return 4 + d.rng.Intn(120) + (d.rng.Intn(6)/5)*(400+d.rng.Intn(700)) }
			calls, err := wLoadSim(f, sizes)
			if err != nil || len(calls) < 2 {
				continue
			}
			d.segSize = 4096
			d.history(calls, *dense, *imgEvery)
			nsim++
		}
	}
	for i := 0; i < *nconc; i++ {
		k++
		if k%*parts != *part {
			continue
		}
		d.rng = rand.New(rand.NewSource(*seed*1000003 + int64(k)))
		d.concHistory()
	}
	for i := 0; i < *nsizes; i++ {
		k++
		if k%*parts != *part {
			continue
		}
		d.rng = rand.New(rand.NewSource(*seed*1000003 + int64(k)))
		d.segSize = 64 * 1000 * 1000 // the default segment size of the package
		d.procOnly = true
		calls := wSizesHistory(d.rng, i%*sizeVariants)
		for _, c := range calls {
			for _, s := range c.size {
				if s > 1024*1024 {
					d.nBigEnts++
				}
				if s > d.maxEntBytes {
					d.maxEntBytes = s
				}
			}
		}
		d.history(calls, false, 1)
		d.procOnly = false
	}
	for i := 0; i < *nrand; i++ {
		k++
		if k%*parts != *part {
			continue
		}
		d.rng = rand.New(rand.NewSource(*seed*1000003 + int64(k)))
		if *big {
			d.segSize = 3 * 1024 * 1024
		} else {
			d.segSize = int64(1024 * (2 + d.rng.Intn(7)))
		}
		calls := wRandomHistory(d.rng, *hlen, *big, false)
		if *noStateFirst {
			// isolate stage: restart, entry-only Save that rolls the segment, then more calls
			m := &wMirror{termOf: map[int]int{}}
			sz := func() int { return 20 + d.rng.Intn(200) }
			calls = []wCall{{kind: "create", opt: d.rng.Intn(2) == 0}}
			calls = append(calls, m.save("term", 1, 1+d.rng.Intn(3), false, sz))
			calls = append(calls, m.save("commit", m.enti+1, 1, false, sz))
			calls = append(calls, wCall{kind: "close"}, wCall{kind: "restart"})
			calls = append(calls, m.save("zero", m.enti+1, 1+d.rng.Intn(2), true, sz))
			calls = append(calls, m.save("zero", m.enti+1, 1, false, sz))
			calls = append(calls, m.snap(m.enti, wMax(m.last.T, 1)))
			calls = append(calls, m.save("commit", m.enti+1, 1, false, sz))
		}
		if *bigBatch {
			// batches of many entries that span several 4 KB pages inside one roomy segment
			m := &wMirror{termOf: map[int]int{}}
			sz := func() int { return 250 + d.rng.Intn(700) }
			calls = []wCall{{kind: "create", opt: d.rng.Intn(2) == 0}}
			calls = append(calls, m.save("term", 1, 2, false, sz))
			for r := 2 + d.rng.Intn(2); r > 0; r-- {
				kind := []string{"zero", "commit", "term"}[d.rng.Intn(3)]
				calls = append(calls, m.save(kind, m.enti+1, 8+d.rng.Intn(14), false, sz))
				if d.rng.Intn(2) == 0 {
					calls = append(calls, m.save("commit", m.enti+1, 1+d.rng.Intn(2), false, sz))
				}
			}
			d.segSize = 96 * 1024
		}
		if *purgeStage {
			calls = wPurgeHistory(d.rng)
			d.segSize = int64(1024 * (1 + d.rng.Intn(3)))
		}
		if *misname {
			m := &wMirror{termOf: map[int]int{}}
			sz := func() int { return 20 + d.rng.Intn(200) }
			calls = []wCall{{kind: "create", opt: d.rng.Intn(2) == 0}}
			if d.rng.Intn(2) == 0 {
				calls = append(calls, m.save("term", 1, 1+d.rng.Intn(3), false, sz))
			}
			calls = append(calls, m.snap(m.enti+2+d.rng.Intn(4), wMax(m.last.T, 1)))
			calls = append(calls, m.save("commit", m.enti+1, 0, false, sz))
			calls = append(calls, wCall{kind: "close"}, wCall{kind: "restart"})
			calls = append(calls, m.save("term", m.enti+1, 0, true, sz))
			if d.rng.Intn(2) == 0 {
				calls = append(calls, m.save("zero", m.enti+1, 2, false, sz))
			}
		}
		for _, c := range calls {
			for _, s := range c.size {
				if s > 1024*1024 {
					d.nBigEnts++
				}
			}
		}
		d.history(calls, *dense && !*big, *imgEvery)
	}
	tw.Close()
	summary(map[string]interface{}{"driver": "walsim", "part": *part, "histories": d.nHist, "sim_histories": nsim,
		"calls": d.nCalls, "cuts": d.nCuts, "restarts": d.nRestarts, "images": d.nImages, "by_kind": d.byKind,
		"by_tail": d.byTail, "by_outcome": d.byOutcome, "repaired": d.nRepaired, "big_entries": d.nBigEnts, "segments_purged": d.nPurged, "snapshot_dir_images": d.nSnapImgs, "by_snapshot_damage": d.bySnapMode, "second_lives": d.nLives, "second_life_zero_heavy_entries": d.nZeroLives, "concurrent_batches": d.nConcBatches, "releases": d.nReleases, "syncs": d.nSyncs, "max_entry_bytes": d.maxEntBytes, "events": tw.N})
	return nil
}
