package main

// engconc: one writer committing batches while readers iterate, on a real engine.
// Every call is logged with its begin and end (stamps from one atomic counter, so the merged
// trace is consistent with real time); spec/ZEngineConc.tla decides whether some placement
// of the internal "takes effect" / "fixes its view" points explains every iterator result.

import (
	"flag"
	"fmt"
	"io/ioutil"
	"math/rand"
	"os"
	"sort"
	"sync"
	"sync/atomic"

	"github.com/youzan/ZanRedisDB/engine"
	"zrverif/trace"
)

func init() { commands["engconc"] = engconc }

type stamped struct {
	t  int64
	ev trace.M
}

func engconc(args []string) error {
	fs := flag.NewFlagSet("engconc", flag.ExitOnError)
	et := fs.String("eng", "pebble", "engine type")
	outp := fs.String("o", "conc.ndjson", "output trace")
	seed := fs.Int64("seed", 1, "")
	rounds := fs.Int("rounds", 20, "segments (each starts from an empty engine)")
	commits := fs.Int("commits", 40, "batches committed per segment")
	readers := fs.Int("readers", 3, "reader goroutines")
	pooli := fs.Int("pool", 0, "key pool")
	fs.Parse(args)
	engine.SetLogLevel(0)
	dir, err := ioutil.TempDir(os.Getenv("ZR_SCRATCH"), "zrengc")
	if err != nil {
		return err
	}
	defer os.RemoveAll(dir)
	eng, err := openEngine(*et, dir)
	if err != nil {
		return err
	}
	defer eng.CloseAll()
	tw, err := trace.Create(*outp)
	if err != nil {
		return err
	}
	pool := engPools[*pooli]
	pos := map[string]int{}
	for i, k := range pool {
		pos[k] = i + 1
	}
	key := func(p int) []byte {
		if p == 0 {
			return nil
		}
		return []byte(pool[p-1])
	}
	nreads, ncommits, overlaps := 0, 0, 0
	for round := 0; round < *rounds; round++ {
		// empty engine
		wb := eng.NewWriteBatch()
		for _, k := range pool {
			wb.Delete([]byte(k))
		}
		if err := eng.Write(wb); err != nil {
			return err
		}
		wb.Destroy()
		var clock int64
		var mu sync.Mutex
		var evs []stamped
		emit := func(t int64, m trace.M) {
			mu.Lock()
			evs = append(evs, stamped{t, m})
			mu.Unlock()
		}
		var stop int32
		var inCommit int32
		var wg sync.WaitGroup
		for r := 1; r <= *readers; r++ {
			wg.Add(1)
			go func(r int) {
				defer wg.Done()
				rng := rand.New(rand.NewSource(*seed*1000 + int64(round*10+r)))
				for atomic.LoadInt32(&stop) == 0 {
					mn, mx := rng.Intn(3), 0
					if rng.Intn(3) == 0 {
						mx = 5 + rng.Intn(3)
					}
					rt := rangeTypes[rng.Intn(4)]
					rev := rng.Intn(2) == 0
					opts := engine.IteratorOpts{
						Range:    engine.Range{Min: key(mn), Max: append([]byte(nil), key(mx)...), Type: uint8(rt)},
						Limit:    engine.Limit{Offset: 0, Count: -1},
						Reverse:  rev,
						WithSnap: rng.Intn(2) == 0,
					}
					if mx == 0 {
						opts.Max = nil
					}
					over := atomic.LoadInt32(&inCommit)
					tb := atomic.AddInt64(&clock, 1)
					it, err := engine.NewDBRangeIteratorWithOpts(eng, opts)
					res := [][2]int{}
					if err == nil {
						for n := 0; it.Valid() && n < 64; it.Next() {
							p, ok := pos[string(it.Key())]
							if !ok {
								p = -2
							}
							res = append(res, [2]int{p, decVal(it.Value())})
							n++
						}
						it.Close()
					}
					te := atomic.AddInt64(&clock, 1)
					if over != 0 || atomic.LoadInt32(&inCommit) != 0 {
						mu.Lock()
						overlaps++
						mu.Unlock()
					}
					emit(tb, trace.M{"ev": "rbegin", "r": r})
					emit(te, trace.M{"ev": "rend", "r": r, "mn": mn, "mx": mx, "rt": rt, "rev": rev,
						"off": 0, "cnt": -1, "res": res, "snap": opts.WithSnap, "err": errStr(err)})
					mu.Lock()
					nreads++
					mu.Unlock()
				}
			}(r)
		}
		wrng := rand.New(rand.NewSource(*seed*77 + int64(round)))
		np := len(pool)
		for g := 1; g <= *commits; g++ {
			type op struct {
				Op string `json:"op"`
				K  int    `json:"k"`
				V  int    `json:"v"`
			}
			var ops []op
			b := eng.NewWriteBatch()
			if wrng.Intn(4) == 0 {
				// a batch that is filled and cleared must never be seen
				b.Put(key(1+wrng.Intn(np)), encVal(9999))
				b.Clear()
				emit(atomic.AddInt64(&clock, 1), trace.M{"ev": "cleared"})
			}
			n := 2 + wrng.Intn(4)
			for i := 0; i < n; i++ {
				switch wrng.Intn(10) {
				case 0:
					lo, hi := 1+wrng.Intn(np), 1+wrng.Intn(np)
					if lo > hi {
						lo, hi = hi, lo
					}
					b.DeleteRange(key(lo), key(hi))
					ops = append(ops, op{"delrange", lo, hi})
				case 1:
					k := 1 + wrng.Intn(np)
					b.Delete(key(k))
					ops = append(ops, op{"del", k, 0})
				case 2:
					k := 1 + wrng.Intn(np)
					b.Merge(key(k), encVal(1))
					ops = append(ops, op{"merge", k, 1})
				default:
					// the same generation value on several keys: a torn batch shows as mixed values
					k := 1 + wrng.Intn(np)
					b.Put(key(k), encVal(g))
					ops = append(ops, op{"put", k, g})
				}
			}
			tb := atomic.AddInt64(&clock, 1)
			atomic.StoreInt32(&inCommit, 1)
			err := eng.Write(b)
			atomic.StoreInt32(&inCommit, 0)
			te := atomic.AddInt64(&clock, 1)
			b.Destroy()
			emit(tb, trace.M{"ev": "cbegin", "ops": ops})
			emit(te, trace.M{"ev": "cend", "err": errStr(err)})
			ncommits++
		}
		atomic.StoreInt32(&stop, 1)
		wg.Wait()
		sort.Slice(evs, func(i, j int) bool { return evs[i].t < evs[j].t })
		tw.Emit(trace.M{"ev": "reset"})
		for _, e := range evs {
			tw.Emit(e.ev)
		}
	}
	tw.Close()
	summary(trace.M{"mode": "conc", "eng": *et, "pool": *pooli, "segments": *rounds, "commits": ncommits,
		"reads": nreads, "reads_overlapping_a_commit": overlaps, "events": tw.N})
	fmt.Fprintln(os.Stderr, "engconc done")
	return nil
}
