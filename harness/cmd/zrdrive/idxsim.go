package main

// idxsim: secondary hash indexes and table-prefix neighbours (property C12).  On the real
// state machine: hashes with the indexed field in three tables whose names are prefixes of
// each other (tab / tabx / tab_2, ...), index DDL through schema-change proposals exactly as
// the cluster sends them (add, state building -> the store's asynchronous rebuild loop runs,
// polled through a hook until it reports build-done, state ready; state deleted -> the clean
// loop), searches through the real HsetIndexSearch after build-on-existing-data and after
// incremental writes.  spec/ZIndexTrace.tla decides: a search on table T answers exactly the
// primary keys of T.

import (
	"encoding/json"
	"flag"
	"fmt"
	"math/rand"
	"os"
	"strings"
	"time"

	"github.com/youzan/ZanRedisDB/common"
	"github.com/youzan/ZanRedisDB/node"
	"github.com/youzan/ZanRedisDB/rockredis"
	"zrverif/trace"
)

func init() { commands["idxsim"] = idxsim }

const (
	idxNT = 3
	idxNK = 5
	idxNV = 5
)

var idxTables = [][idxNT]string{
	{"tab", "tabx", "tab_2"},
	{"t", "t0", "tt"},
	{"a", "a;", "a!"},
	{"order", "orders", "order2"},
}

type idxDrv struct {
	wd                                 *scnWorld
	tw                                 *trace.Writer
	rng                                *rand.Rand
	tabs                               [idxNT]string
	keys                               [idxNK]string
	kpos                               map[string]int
	ready                              [idxNT]bool
	has                                [idxNT]bool // the index exists (any state)
	nW, nQ, nDDL, nBuildExisting, nErr int
	// kind of the index of each table: integer-typed or string-typed, unique or not
	intv, uniq [idxNT]bool
	cur        [idxNT][idxNK]int // value position every hash currently has (input generation only)
	extremes   bool
	nRange     int
}

// ordered pools of field values: 64-bit integers incl. the smallest and the largest, and strings
var idxInts = [idxNV]string{"-9223372036854775808", "-5", "0", "7", "9223372036854775807"}
var idxStrs = [idxNV]string{"a", "ab", "b", "x", "\xff"}

func (d *idxDrv) valStr(t, v int) string {
	if d.intv[t-1] {
		return idxInts[v-1]
	}
	return idxStrs[v-1]
}

func (d *idxDrv) schema(t int, typ node.SchemaChangeType, state common.IndexState) error {
	hs := common.HsetIndexSchema{Name: "idx_f", IndexField: "f", ValueType: common.StringV, State: state}
	if d.intv[t-1] {
		hs.ValueType = common.Int64V
	}
	if d.uniq[t-1] {
		hs.Unique = 1
	}
	data, _ := json.Marshal(hs)
	sc := node.SchemaChange{Type: typ, Table: d.tabs[t-1], SchemaData: data}
	raw, err := sc.Marshal()
	if err != nil {
		return err
	}
	r := d.wd.applyReq(node.SchemaChangeReq, raw, d.wd.nextTs())
	if e, ok := r.(error); ok {
		return e
	}
	return nil
}

func (d *idxDrv) waitState(t int, want int) error {
	deadline := time.Now().Add(60 * time.Second)
	for {
		st := d.wd.store.VerifScanHsetIndexState(d.tabs[t-1], "f")
		if st == want {
			return nil
		}
		if time.Now().After(deadline) {
			return fmt.Errorf("index state %d, wanted %d", st, want)
		}
		time.Sleep(2 * time.Millisecond)
	}
}

func errText(err error) string {
	if err == nil {
		return ""
	}
	return err.Error()
}

// add + build on the existing data + ready
func (d *idxDrv) makeReady(t int) {
	var err error
	if !d.has[t-1] {
		err = d.schema(t, node.SchemaChangeAddHsetIndex, common.InitIndex)
	}
	if err == nil {
		err = d.schema(t, node.SchemaChangeUpdateHsetIndex, common.BuildingIndex)
	}
	if err == nil {
		err = d.waitState(t, int(common.BuildDoneIndex))
	}
	if err == nil {
		err = d.schema(t, node.SchemaChangeUpdateHsetIndex, common.ReadyIndex)
	}
	d.tw.Emit(trace.M{"ev": "ddl", "t": t, "op": "ready", "err": errText(err)})
	d.nDDL++
	if err == nil {
		d.has[t-1], d.ready[t-1] = true, true
	} else {
		d.nErr++
	}
}

func (d *idxDrv) drop(t int) {
	err := d.schema(t, node.SchemaChangeDeleteHsetIndex, common.DeletedIndex)
	if err == nil {
		err = d.waitState(t, -1)
	}
	d.tw.Emit(trace.M{"ev": "ddl", "t": t, "op": "drop", "err": errText(err)})
	d.nDDL++
	if err == nil {
		d.has[t-1], d.ready[t-1] = false, false
	} else {
		d.nErr++
	}
}

func (d *idxDrv) write(t, k, v int) {
	if v > 0 && d.uniq[t-1] {
		// a unique index: no two hashes of the table carry the same value
		for kk := range d.cur[t-1] {
			if kk != k-1 && d.cur[t-1][kk] == v {
				v = 0
			}
		}
	}
	d.cur[t-1][k-1] = v
	key := d.tabs[t-1] + ":" + d.keys[k-1]
	var r interface{}
	switch {
	case v > 0:
		r = d.wd.apply("hset", key, "f", d.valStr(t, v))
		if d.rng.Intn(3) == 0 {
			d.wd.apply("hset", key, "g", "x") // a field that is not indexed
		}
	case d.rng.Intn(2) == 0:
		r = d.wd.apply("hdel", key, "f")
	default:
		r = d.wd.apply("hclear", key)
	}
	e, _ := r.(error)
	d.tw.Emit(trace.M{"ev": "w", "t": t, "k": k, "v": v, "err": errText(e)})
	d.nW++
}

// query: one search with the condition lo <(=) f <(=) hi (positions of the value pool, 0 = unbounded)
func (d *idxDrv) query(t, lo int, il bool, hi int, ih bool) {
	if d.intv[t-1] && !d.extremes && ((lo == idxNV && !il) || (hi == 1 && !ih)) {
		// "> largest int64" / "< smallest int64" (fixed finding C12-index-int-bound-wraps) can be left out
		return
	}
	res := []int{}
	errs := ""
	func() {
		defer func() {
			if e := recover(); e != nil {
				errs = fmt.Sprintf("PANIC: %v", e)
				d.wd.panics++
			}
		}()
		cond := &rockredis.IndexCondition{IncludeStart: il, IncludeEnd: ih, Limit: 1000}
		if lo > 0 {
			cond.StartKey = []byte(d.valStr(t, lo))
		}
		if hi > 0 {
			cond.EndKey = []byte(d.valStr(t, hi))
		}
		_, _, rs, err := d.wd.store.HsetIndexSearch([]byte(d.tabs[t-1]), []byte("f"), cond, false)
		if err != nil {
			errs = err.Error()
			return
		}
		pre := d.tabs[t-1] + ":"
		for _, r := range rs {
			p := -1
			if s := string(r.PKey); strings.HasPrefix(s, pre) {
				if q, ok := d.kpos[s[len(pre):]]; ok {
					p = q
				}
			}
			res = append(res, p)
		}
	}()
	d.tw.Emit(trace.M{"ev": "q", "t": t, "lo": lo, "il": il, "hi": hi, "ih": ih, "res": res, "err": errs})
	d.nQ++
	if lo != hi || !il || !ih {
		d.nRange++
	}
}

// every comparison operator with every stored value as the bound, plus a few range pairs
func (d *idxDrv) queryAll() {
	for t := 1; t <= idxNT; t++ {
		if !d.ready[t-1] {
			continue
		}
		for v := 1; v <= idxNV; v++ {
			d.query(t, v, true, v, true)  // =
			d.query(t, 0, true, v, false) // <
			d.query(t, 0, true, v, true)  // <=
			d.query(t, v, false, 0, true) // >
			d.query(t, v, true, 0, true)  // >=
		}
		for i := 0; i < 4; i++ {
			lo, hi := 1+d.rng.Intn(idxNV), 1+d.rng.Intn(idxNV)
			d.query(t, lo, d.rng.Intn(2) == 0, hi, d.rng.Intn(2) == 0)
		}
	}
}

func (d *idxDrv) queryOne(t int) {
	v := 1 + d.rng.Intn(idxNV)
	switch d.rng.Intn(6) {
	case 0:
		d.query(t, v, true, v, true)
	case 1:
		d.query(t, 0, true, v, false)
	case 2:
		d.query(t, 0, true, v, true)
	case 3:
		d.query(t, v, false, 0, true)
	case 4:
		d.query(t, v, true, 0, true)
	default:
		d.query(t, v, d.rng.Intn(2) == 0, 1+d.rng.Intn(idxNV), d.rng.Intn(2) == 0)
	}
}

func idxsim(args []string) error {
	fs := flag.NewFlagSet("idxsim", flag.ExitOnError)
	et := fs.String("eng", "pebble", "engine type: mem | pebble")
	outp := fs.String("o", "idx", "output prefix")
	parts := fs.Int("parts", 1, "")
	seed := fs.Int64("seed", 1, "")
	nseg := fs.Int("segments", 6, "number of worlds")
	slen := fs.Int("len", 40, "steps per world")
	policy := fs.String("policy", "local", "expiry policy: local | compact")
	extremes := fs.Bool("extremes", true, "also '> largest int64' and '< smallest int64' (fixed finding C12-index-int-bound-wraps)")
	fs.Parse(args)
	pol := common.LocalDeletion
	if *policy == "compact" {
		pol = common.WaitCompact
	}
	wd, err := scnOpen(*et, pol, os.Getenv("ZR_SCRATCH"))
	if err != nil {
		return err
	}
	defer wd.close()
	rng := rand.New(rand.NewSource(*seed))
	tws := make([]*trace.Writer, *parts)
	for i := range tws {
		if tws[i], err = trace.Create(fmt.Sprintf("%s.%d.ndjson", *outp, i)); err != nil {
			return err
		}
	}
	d := &idxDrv{wd: wd, rng: rng, extremes: *extremes}
	pool := scnPools[0].names // plain, prefix-free names (usable on both engines)
	for seg := 0; seg < *nseg; seg++ {
		if err := wd.clean(); err != nil {
			return err
		}
		d.tw = tws[seg%len(tws)]
		d.tabs = idxTables[rng.Intn(len(idxTables))]
		rng.Shuffle(idxNT, func(i, j int) { d.tabs[i], d.tabs[j] = d.tabs[j], d.tabs[i] })
		copy(d.keys[:], pool[:idxNK])
		d.kpos = map[string]int{}
		for i, n := range d.keys {
			d.kpos[n] = i + 1
		}
		d.ready, d.has = [idxNT]bool{}, [idxNT]bool{}
		d.cur = [idxNT][idxNK]int{}
		for t := 0; t < idxNT; t++ {
			d.intv[t], d.uniq[t] = rng.Intn(2) == 0, rng.Intn(2) == 0
		}
		d.tw.Emit(trace.M{"ev": "reset", "tabs": d.tabs[:], "int": d.intv[:], "unique": d.uniq[:]})
		// data first, in every table, so that the first index is built on existing data
		for t := 1; t <= idxNT; t++ {
			for k := 1; k <= idxNK; k++ {
				if rng.Intn(100) < 70 {
					d.write(t, k, 1+rng.Intn(idxNV))
				}
			}
		}
		for i := 0; i < *slen; i++ {
			switch x := rng.Intn(100); {
			case x < 12:
				t := 1 + rng.Intn(idxNT)
				if !d.ready[t-1] {
					d.makeReady(t)
					d.nBuildExisting++
					d.queryAll()
				}
			case x < 16:
				t := 1 + rng.Intn(idxNT)
				if d.ready[t-1] {
					d.drop(t)
					d.queryAll()
				}
			case x < 70:
				v := rng.Intn(idxNV + 1)
				d.write(1+rng.Intn(idxNT), 1+rng.Intn(idxNK), v)
			default:
				t := 1 + rng.Intn(idxNT)
				if d.ready[t-1] {
					d.queryOne(t)
				}
			}
		}
		d.queryAll()
	}
	for _, tw := range tws {
		tw.Close()
	}
	summary(trace.M{"driver": "idxsim", "eng": *et, "policy": *policy, "segments": *nseg, "writes": d.nW, "searches": d.nQ, "range_searches": d.nRange,
		"ddl": d.nDDL, "builds_on_existing_data": d.nBuildExisting, "errors": d.nErr, "panics": wd.panics})
	return nil
}
