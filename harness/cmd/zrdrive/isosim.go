package main

// isosim: applies a mixed command set (writes of the five data types, the per-type clear
// commands, DEL, ZREMRANGEBYSCORE, whole-table delete, the per-type expire commands and the
// expiry pass of the local-deletion policy, key scans) to the real state machine and, after
// EVERY command, reads back the full content of EVERY (type, table, key) tuple of the world
// from the real store.  spec/ZIsolateTrace.tla decides (property C12: an operation on one
// tuple never changes or reads another one).
//
// Tables, keys and sub-keys come from the adversarial pools of scansim.go.  Generator
// constraints (documented in the check): log timestamps are distinct and increasing;
// after an expire command a tuple is not written again before the next expiry pass;
// expire commands only under the local-deletion policy; lists stay below 6 elements.

import (
	"flag"
	"fmt"
	"math/rand"
	"os"
	"strconv"
	"strings"
	"time"
	"unicode/utf8"

	"github.com/youzan/ZanRedisDB/common"
	"github.com/youzan/ZanRedisDB/node"
	"zrverif/trace"
)

func init() { commands["isosim"] = isosim }

const (
	isoNTy = 8 // 1 kv, 2 hash, 3 list, 4 set, 5 zset, 6 bitmap, 7 json, 8 hyperloglog
	isoNT  = 3
	isoNK  = 4
	isoNS  = 3
)

type isoDrv struct {
	wd   *scnWorld
	tw   *trace.Writer
	rng  *rand.Rand
	tabs [isoNT]string
	keys [isoNK]string
	subs [isoNS]string
	spos map[string]int
	kpos map[string]int
	// driver-side bookkeeping, only to generate sensible commands (never logged as truth)
	size     [isoNTy * isoNT * isoNK]int
	doomed   [isoNTy * isoNT * isoNK]bool
	local    bool
	hung     bool
	watchdog time.Duration
	hot      [][3]int
	// every bulkEvery-th step (on average) is a bulk clear episode; 0 = never
	bulkEvery, nBulk   int
	probeEvery, nProbe int
	compact            bool
	partial            bool // partial-range DeleteTableRange in the mix
	delw               int  // ... in this many steps out of 100
	delAnyLen          bool
	lastDump           [][][2]int // what the store showed after the last command (input generation only)
	delExt             bool
	nty                int // data types in the command mix (5, or 8 with bitmap / json / hll)
	ncmd               int
	nErr               int
	byOp               map[string]int
	touched            map[int]bool
}

// bit offsets of the bitmap tuples: two in the first 8 192-bit segment, the first bit of the
// second and one far away
var isoBitOffsets = []int64{0, 9, 8192, 1000000}

// HyperLogLog data lives in the kv keyspace: HLL tuples use the key name + this suffix so that
// they never share a stored key with a kv tuple
const isoHLLSuffix = "~h"

// SETBIT works on strings in Redis and BITSETV2 converts an existing kv value of the same key,
// so bitmap tuples get names of their own as well
const isoBitSuffix = "~b"

func isoTup(ty, t, k int) int { return ((ty-1)*isoNT+(t-1))*isoNK + k }

func (d *isoDrv) rkey(t, k int) string { return d.tabs[t-1] + ":" + d.keys[k-1] }

func isoVal(b []byte) int {
	s := string(b)
	if strings.HasPrefix(s, "v") {
		if n, err := strconv.Atoi(s[1:]); err == nil {
			return n
		}
	}
	return -7
}

func (d *isoDrv) subPos(b []byte) int {
	if p, ok := d.spos[string(b)]; ok {
		return p
	}
	return -1
}

// dump reads every tuple back through the store's enumerating read commands
func (d *isoDrv) dump() [][][2]int {
	db := d.wd.store
	out := make([][][2]int, 0, isoNTy*isoNT*isoNK)
	for ty := 1; ty <= isoNTy; ty++ {
		for t := 1; t <= isoNT; t++ {
			for k := 1; k <= isoNK; k++ {
				key := []byte(d.rkey(t, k))
				if ty == 8 {
					key = []byte(d.rkey(t, k) + isoHLLSuffix)
				}
				if ty == 6 {
					key = []byte(d.rkey(t, k) + isoBitSuffix)
				}
				v := [][2]int{}
				func() {
					defer func() {
						if e := recover(); e != nil {
							d.wd.panics++
							v = [][2]int{{-9, -9}}
						}
					}()
					switch ty {
					case 1:
						b, err := db.KVGet(key)
						if err != nil {
							v = append(v, [2]int{-8, -8})
						} else if b != nil {
							v = append(v, [2]int{isoVal(b), 0})
						}
					case 2:
						_, recs, err := db.HGetAll(key)
						if err != nil {
							v = append(v, [2]int{-8, -8})
						}
						for _, r := range recs {
							v = append(v, [2]int{d.subPos(r.Rec.Key), isoVal(r.Rec.Value)})
						}
					case 3:
						vals, err := db.LRange(key, 0, -1)
						if err != nil {
							v = append(v, [2]int{-8, -8})
						}
						for _, b := range vals {
							v = append(v, [2]int{isoVal(b), 0})
						}
					case 4:
						ms, err := db.SMembers(key)
						if err != nil {
							v = append(v, [2]int{-8, -8})
						}
						for _, m := range ms {
							v = append(v, [2]int{d.subPos(m), 0})
						}
					case 6:
						for i, off := range isoBitOffsets {
							b, err := db.BitGetV2(key, off)
							if err != nil {
								v = append(v, [2]int{-8, -8})
							} else if b != 0 {
								v = append(v, [2]int{i + 1, 0})
							}
						}
					case 7:
						ex, err := db.JKeyExists(key)
						if err != nil {
							v = append(v, [2]int{-8, -8})
						} else if ex != 0 {
							vals, err := db.JGet(key, []byte(""))
							n := -7
							if err == nil && len(vals) == 1 {
								if x, e := strconv.Atoi(vals[0]); e == nil {
									n = x
								}
							}
							v = append(v, [2]int{n, 0})
						}
					case 8:
						n, err := db.PFCount(time.Now().UnixNano(), key)
						if err != nil {
							v = append(v, [2]int{-8, -8})
						} else if n != 0 {
							v = append(v, [2]int{int(n), 0})
						}
					case 5:
						sps, err := db.ZRange(key, 0, -1)
						if err != nil {
							v = append(v, [2]int{-8, -8})
						}
						for _, sp := range sps {
							v = append(v, [2]int{d.subPos(sp.Member), int(sp.Score)})
						}
					}
				}()
				out = append(out, v)
			}
		}
	}
	return out
}

func isoReply(r interface{}) int {
	switch v := r.(type) {
	case int64:
		return int(v)
	case int:
		return v
	case nil:
		return -1
	case string:
		if v == "OK" {
			return 0
		}
		return -997
	case []byte:
		if v == nil {
			return -1
		}
		return isoVal(v)
	case error:
		return -998
	}
	return -996
}

func (d *isoDrv) emit(op string, u, a, b int, r int, rl []int) {
	if rl == nil {
		rl = []int{}
	}
	d.lastDump = d.dump()
	d.tw.Emit(trace.M{"ev": "cmd", "op": op, "u": u, "a": a, "b": b, "r": r, "rl": rl, "d": d.lastDump})
	d.ncmd++
	d.byOp[op]++
}

func (d *isoDrv) one(op string, ty, t, k, a, b int) {
	u := isoTup(ty, t, k)
	key := d.rkey(t, k)
	it := strconv.Itoa
	var r interface{}
	switch op {
	case "set":
		r = d.wd.apply("set", key, "v"+it(a))
		d.size[u-1] = 1
	case "del":
		if ty == 8 {
			key += isoHLLSuffix
		}
		r = d.wd.apply("del", key)
		d.size[u-1] = 0
	case "hset":
		r = d.wd.apply("hset", key, d.subs[a-1], "v"+it(b))
		d.size[u-1] = 1
	case "hdel":
		r = d.wd.apply("hdel", key, d.subs[a-1])
	case "rpush":
		r = d.wd.apply("rpush", key, "v"+it(a))
		d.size[u-1]++
	case "lpop":
		r = d.wd.apply("lpop", key)
		if d.size[u-1] > 0 {
			d.size[u-1]--
		}
	case "sadd":
		r = d.wd.apply("sadd", key, d.subs[a-1])
		d.size[u-1] = 1
	case "srem":
		r = d.wd.apply("srem", key, d.subs[a-1])
	case "zadd":
		r = d.wd.apply("zadd", key, it(b), d.subs[a-1])
		d.size[u-1] = 1
	case "zrem":
		r = d.wd.apply("zrem", key, d.subs[a-1])
	case "zrembyscore":
		r = d.wd.apply("zremrangebyscore", key, it(a), it(b))
	case "bitset":
		r = d.wd.apply("setbitv2", key+isoBitSuffix, strconv.FormatInt(isoBitOffsets[a-1], 10), "1")
		d.size[u-1] = 1
	case "jset":
		r = d.wd.apply("json.set", key, ".", it(a))
		if _, bad := r.(error); !bad {
			r = "OK" // the apply-side handler's success value; the client sees OK
		}
		d.size[u-1] = 1
	case "jdel":
		r = d.wd.apply("json.del", key)
		d.size[u-1] = 0
	case "pfadd":
		r = d.wd.apply("pfadd", key+isoHLLSuffix, "e"+it(a))
		d.size[u-1] = 1
	case "clear":
		if ty == 6 {
			key += isoBitSuffix
		}
		r = d.wd.apply([]string{"", "", "hclear", "lclear", "sclear", "zclear", "bitclear"}[ty], key)
		d.size[u-1] = 0
	case "expire":
		r = d.wd.apply([]string{"", "expire", "hexpire", "lexpire", "sexpire", "zexpire"}[ty], key, "1")
		d.doomed[u-1] = true
	}
	if _, ok := r.(error); ok {
		d.nErr++
	}
	d.touched[u] = true
	rr := isoReply(r)
	if op == "set" && rr == 1 {
		// the apply-side SET handler answers 1; the leader-side wrapper turns that into "OK"
		rr = 0
	}
	d.emit(op, u, a, b, rr, nil)
}

func (d *isoDrv) emitMulti(op string, a, r int, rl, ks, vs []int) {
	if rl == nil {
		rl = []int{}
	}
	if vs == nil {
		vs = []int{}
	}
	d.lastDump = d.dump()
	d.tw.Emit(trace.M{"ev": "cmd", "op": op, "u": 1, "a": a, "b": 0, "r": r, "rl": rl, "ks": ks, "vs": vs, "d": d.lastDump})
	d.ncmd++
	d.byOp[op]++
}

// multiKey: MGET / EXISTS / DEL / MSET over several kv tuples of any tables: existing, absent and
// (not for MSET) INVALID names - no ':' separator, empty table, over-long - in every position.
func (d *isoDrv) multiKey() {
	n := 2 + d.rng.Intn(4)
	kind := []int{0, 0, 0, 0, 1, 1, 2, 2, 3, 3}[d.rng.Intn(10)] // 0 mget, 1 exists, 2 del, 3 mset
	var existing [][2]int
	for t := 1; t <= isoNT; t++ {
		for k := 1; k <= isoNK; k++ {
			if d.size[isoTup(1, t, k)-1] > 0 {
				existing = append(existing, [2]int{t, k})
			}
		}
	}
	var ks, vs []int
	var names []string
	for i := 0; i < n; i++ {
		if kind != 3 && d.rng.Intn(4) == 0 {
			code := -1 - d.rng.Intn(3)
			ks = append(ks, code)
			switch code {
			case -1:
				names = append(names, "nosep"+d.keys[d.rng.Intn(isoNK)])
			case -2:
				names = append(names, ":"+d.keys[d.rng.Intn(isoNK)])
			default:
				names = append(names, d.tabs[d.rng.Intn(isoNT)]+":"+strings.Repeat("L", 10300))
			}
			continue
		}
		t, k := 1+d.rng.Intn(isoNT), 1+d.rng.Intn(isoNK)
		if len(existing) > 0 && d.rng.Intn(2) == 0 {
			x := existing[d.rng.Intn(len(existing))] // a key that holds a value
			t, k = x[0], x[1]
		}
		if len(ks) > 0 && ks[len(ks)-1] > 0 && d.rng.Intn(5) == 0 {
			// the same key twice
			names = append(names, names[len(names)-1])
			ks = append(ks, ks[len(ks)-1])
			vs = append(vs, 1+d.rng.Intn(3))
			continue
		}
		u := isoTup(1, t, k)
		if kind >= 2 && d.doomed[u-1] {
			return // a tuple with an expiry is not written before the next pass
		}
		ks = append(ks, u)
		vs = append(vs, 1+d.rng.Intn(3))
		names = append(names, d.rkey(t, k))
	}
	switch kind {
	case 0:
		keys := make([][]byte, len(names))
		for i, nm := range names {
			keys[i] = []byte(nm)
		}
		rl := make([]int, len(names))
		func() {
			defer func() {
				if e := recover(); e != nil {
					d.wd.panics++
					for i := range rl {
						rl[i] = -999
					}
				}
			}()
			vals, errs := d.wd.store.MGet(keys...)
			for i := range names {
				switch {
				case i < len(errs) && errs[i] != nil:
					rl[i] = -998
				case i >= len(vals) || vals[i] == nil:
					rl[i] = -1
				default:
					rl[i] = isoVal(vals[i])
				}
			}
		}()
		d.emitMulti("mget", 0, 0, rl, ks, nil)
	case 1:
		keys := make([][]byte, len(names))
		for i, nm := range names {
			keys[i] = []byte(nm)
		}
		rr := -998
		if c, err := d.wd.store.KVExists(keys...); err == nil {
			rr = int(c)
		}
		d.emitMulti("mexists", 0, rr, nil, ks, nil)
	case 2:
		r := d.wd.apply(append([]string{"del"}, names...)...)
		for _, u := range ks {
			if u > 0 {
				d.size[u-1] = 0
			}
		}
		d.emitMulti("mdel", 0, isoReply(r), nil, ks, nil)
	default:
		args := []string{"mset"}
		for i, nm := range names {
			args = append(args, nm, "v"+strconv.Itoa(vs[i]))
		}
		r := d.wd.apply(args...)
		rr := 0
		if _, bad := r.(error); bad {
			rr = -998
		}
		for _, u := range ks {
			d.size[u-1] = 1
		}
		d.emitMulti("mset", 0, rr, nil, ks, vs)
	}
}

// delRange: DeleteTableRange of a PARTIAL key range [start, end) of one table, start / end being
// key names of the world (or absent = open side), proposed like KVNode.DeleteRange does.
func (d *isoDrv) delRange() {
	t := 1 + d.rng.Intn(isoNT)
	for ty := 6; ty <= isoNTy; ty++ {
		for k := 1; k <= isoNK; k++ {
			if d.size[isoTup(ty, t, k)-1] > 0 {
				return // see delTable: open finding on bitmap / JSON / HLL data
			}
		}
	}
	for ty := 1; ty <= 5; ty++ {
		for k := 1; k <= isoNK; k++ {
			if d.doomed[isoTup(ty, t, k)-1] {
				return
			}
		}
	}
	if !d.delAnyLen {
		// open finding C12-delrange-partial-length-order: with key names of different lengths the
		// data range of the collection types (key behind a length prefix) is not the key range
		for _, k := range d.keys {
			if len(k) != len(d.keys[0]) {
				return
			}
		}
	}
	lo, hi := d.rng.Intn(isoNK+1), d.rng.Intn(isoNK+1)
	if lo == 0 && hi == 0 {
		hi = 1 + d.rng.Intn(isoNK)
	}
	dr := node.DeleteTableRange{Table: d.tabs[t-1]}
	if lo > 0 {
		dr.StartFrom = []byte(d.keys[lo-1])
	}
	if hi > 0 {
		dr.EndTo = []byte(d.keys[hi-1])
	}
	rr := 0
	if err := dr.CheckValid(); err != nil {
		rr = -998
	} else if r := d.wd.delRange(dr); r != nil {
		rr = -998
		d.nErr++
	}
	if rr == 0 {
		for ty := 1; ty <= 5; ty++ {
			for k := 1; k <= isoNK; k++ {
				if (lo == 0 || k >= lo) && (hi == 0 || k < hi) {
					d.size[isoTup(ty, t, k)-1] = 0
				}
			}
		}
	}
	d.emitMulti("delrange", t, rr, nil, []int{lo, hi}, nil)
}

// lexOp: ZRANGEBYLEX / ZLEXCOUNT / ZREMRANGEBYLEX with bounds drawn from the sub-key names (the
// empty name included: "[" or "(" alone) and the unbounded sides.  Redis defines lexicographic
// ranges only for sorted sets whose members all have the same score, so the command is only
// issued when the last dump showed that.
func (d *isoDrv) lexOp(t, k int) {
	u := isoTup(5, t, k)
	if d.doomed[u-1] {
		return
	}
	if d.lastDump != nil {
		for _, e := range d.lastDump[u-1] {
			if e[1] != d.lastDump[u-1][0][1] {
				return
			}
		}
	}
	lo, hi, il, ih := d.rng.Intn(isoNS+1), d.rng.Intn(isoNS+1), d.rng.Intn(2), d.rng.Intn(2)
	if d.rng.Intn(3) == 0 {
		hi = lo // a range addressed to one member
	}
	bound := func(s, incl int, inf string) string {
		if s == 0 {
			return inf
		}
		if incl == 1 {
			return "[" + d.subs[s-1]
		}
		return "(" + d.subs[s-1]
	}
	mn, mx := bound(lo, il, "-"), bound(hi, ih, "+")
	a, b := lo*10+il, hi*10+ih
	key := d.rkey(t, k)
	switch d.rng.Intn(3) {
	case 0:
		r := d.wd.apply("zremrangebylex", key, mn, mx)
		if _, bad := r.(error); bad {
			d.nErr++
		}
		d.emit("zrembylex", u, a, b, isoReply(r), nil)
	case 1:
		rr := -998
		if pmin, pmax, rt, err := node.VerifScanLexRange([]byte(mn), []byte(mx)); err == nil {
			if n, err := d.wd.store.ZLexCount([]byte(key), pmin, pmax, rt); err == nil {
				rr = int(n)
			}
		}
		d.emit("zlexcount", u, a, b, rr, nil)
	default:
		rr := -998
		rl := []int{}
		if pmin, pmax, rt, err := node.VerifScanLexRange([]byte(mn), []byte(mx)); err == nil {
			if ms, err := d.wd.store.ZRangeByLex([]byte(key), pmin, pmax, rt, 0, -1); err == nil {
				rr = len(ms)
				for _, m := range ms {
					rl = append(rl, d.subPos(m))
				}
			}
		}
		d.emit("zrangebylex", u, a, b, rr, rl)
	}
}

func (d *isoDrv) delTable(t int) {
	if !d.delExt {
		// open finding C12-deltable-skips-bitmap-json-hll: the whole-table delete leaves bitmap,
		// JSON and (cached) HyperLogLog data behind - kept out of the general corpus
		for ty := 6; ty <= isoNTy; ty++ {
			for k := 1; k <= isoNK; k++ {
				if d.size[isoTup(ty, t, k)-1] > 0 {
					return
				}
			}
		}
	}
	if err := (node.DeleteTableRange{Table: d.tabs[t-1], DeleteAll: true}).CheckValid(); err != nil {
		// rejected before it would be proposed (KVNode.DeleteRange; a table name that is not
		// valid UTF-8 cannot be carried by the JSON proposal - fixed finding
		// C12-deltable-nonutf8-table): logged with reply -998, nothing may change
		d.emit("deltable", 1, t, 0, -998, nil)
		return
	}
	r := d.wd.delTable(d.tabs[t-1])
	if r != nil {
		d.nErr++
	}
	for ty := 1; ty <= isoNTy; ty++ {
		for k := 1; k <= isoNK; k++ {
			d.size[isoTup(ty, t, k)-1] = 0
		}
	}
	rr := 0
	if r != nil {
		rr = -998
	}
	d.emit("deltable", 1, t, 0, rr, nil)
}

func (d *isoDrv) runExpiry() {
	// the pass runs under a watchdog: on the mem engine it can block forever (known finding
	// C12-mem-expiry-pass-deadlock; 20 s there, 120 s on pebble so that a starved machine is not mistaken for it); then the event is logged with reply -997 and the run ends
	done := make(chan error, 1)
	go func() { done <- d.wd.store.VerifScanLocalExpireOnce() }()
	rr := 0
	select {
	case err := <-done:
		if err != nil {
			rr = -998
			d.nErr++
		}
	case <-time.After(d.watchdog):
		d.tw.Emit(trace.M{"ev": "cmd", "op": "runexpiry", "u": 1, "a": 0, "b": 0, "r": -997, "rl": []int{}, "d": [][][2]int{}})
		d.hung = true
		return
	}
	for i := range d.doomed {
		d.doomed[i] = false
	}
	d.emit("runexpiry", 1, 0, 0, rr, nil)
}

// keys: a complete ADVSCAN of one (type, table) key space through the node-level handler
func (d *isoDrv) keysOf(ty, t int) {
	tyn := []string{"", "KV", "HASH", "LIST", "SET", "ZSET"}[ty]
	rl := []int{}
	rr := 0
	func() {
		defer func() {
			if e := recover(); e != nil {
				d.wd.panics++
				rr = -999
			}
		}()
		res, err := d.wd.nd.VerifScanKeys(scnCmd("advscan", "default:"+d.tabs[t-1]+":", tyn, "count", "100"))
		sr, ok := res.(*common.ScanResult)
		if err != nil || !ok || sr.Error != nil {
			rr = -998
			return
		}
		pre := d.tabs[t-1] + ":"
		for _, k := range sr.Keys {
			s := string(k)
			if ty == 1 && (strings.HasSuffix(s, isoHLLSuffix) || strings.HasSuffix(s, isoBitSuffix)) {
				continue // HLL tuples live in the kv keyspace under names of their own
			}
			p := -1
			if strings.HasPrefix(s, pre) {
				if q, ok := d.kpos[s[len(pre):]]; ok {
					p = q
				}
			}
			rl = append(rl, p)
		}
	}()
	d.emit("keys", isoTup(ty, t, 1), 0, 0, rr, rl)
}

// bulkClear: the > 5 000-element branch of the clears (engine DeleteRange instead of single
// deletes).  The tuple must be non-empty in the specification's view; the driver adds 5 002
// further elements that are NOT logged (names outside the pools) and immediately clears the
// tuple with a logged clear: whatever the range delete removes beyond the tuple shows in the
// full dump, and the unlogged elements never outlive the step.
func (d *isoDrv) bulkClear() {
	ty := []int{2, 3, 4, 5}[d.rng.Intn(4)]
	t, k := 1+d.rng.Intn(isoNT), 1+d.rng.Intn(isoNK)
	u := isoTup(ty, t, k)
	// collections above 128 elements on a table whose name is not valid UTF-8 panic in a
	// metric label (recorded for C11): bulk episodes stay on valid names
	// ... and on short names (5 002 engine keys of 10 kB each only stall the engine)
	if d.doomed[u-1] || !utf8.ValidString(d.tabs[t-1]) || len(d.rkey(t, k)) > 300 {
		return
	}
	switch ty {
	case 2:
		d.one("hset", ty, t, k, 1+d.rng.Intn(isoNS), 1)
	case 3:
		d.one("rpush", ty, t, k, 1, 0)
	case 4:
		d.one("sadd", ty, t, k, 1+d.rng.Intn(isoNS), 0)
	case 5:
		d.one("zadd", ty, t, k, 1+d.rng.Intn(isoNS), 2)
	}
	key := d.rkey(t, k)
	for part := 0; part < 2; part++ {
		args := []string{[]string{"", "", "hmset", "rpush", "sadd", "zadd"}[ty], key}
		for i := 0; i < 2501; i++ {
			n := fmt.Sprintf("bulk-%d-%05d", part, i)
			switch ty {
			case 2:
				args = append(args, n, "x")
			case 3, 4:
				args = append(args, n)
			case 5:
				args = append(args, "7", n)
			}
		}
		if _, bad := d.wd.apply(args...).(error); bad {
			d.nErr++
		}
	}
	d.nBulk++
	d.one("clear", ty, t, k, 0, 0)
}

// limitProbe: one command whose key, sub-key or value length sits at a documented limit
// (limit-1, limit, limit+1) or around the 16-bit length prefix (65535, 65536, 65537, and
// 65536+n aliasing the n-byte pool key k as "k:<padding>").  Logged as op "limit" with the
// lengths; the specification knows the limits and says refused / accepted, and nothing in
// the world may change.  What an accepted probe wrote (always on a key outside the pools)
// is removed again before the dump is taken.
func (d *isoDrv) limitProbe() {
	t := 1 + d.rng.Intn(isoNT)
	table := d.tabs[t-1]
	pad := func(n int, pre string) string {
		if n <= len(pre) {
			return pre[:n]
		}
		return pre + strings.Repeat("p", n-len(pre))
	}
	lens := []int{10239, 10240, 10241, 65535, 65536, 65537}
	kl, kf, sl, vl := 0, 0, 0, 0
	var r interface{}
	u := isoTup(1, t, 1)
	switch kind := d.rng.Intn(9); {
	case kind < 2: // kv: the limit applies to the whole "table:key"
		L := lens[d.rng.Intn(len(lens))]
		if L-len(table)-1 < 4 {
			return
		}
		key := table + ":" + pad(L-len(table)-1, "zzp")
		kl, kf = L, L
		r = d.wd.apply("set", key, "v1")
		d.wd.apply("del", key)
	case kind < 6: // collections: the limit applies to the key without its table
		ty := 2 + d.rng.Intn(4)
		u = isoTup(ty, t, 1)
		var rk string
		if d.rng.Intn(3) == 0 {
			k := d.keys[d.rng.Intn(isoNK)]
			rk = pad(65536+len(k), k+":") // would alias k behind a 16-bit length prefix
		} else {
			rk = pad(lens[d.rng.Intn(len(lens))], "zzp")
		}
		kl = len(rk)
		key := table + ":" + rk
		kf = len(key)
		if d.compact && kl <= 10240 {
			// wait_compact: such a collection can be written but not emptied again (open
			// finding C13-compact-long-key-scan: HDEL/HSCAN refuse the version-encoded key),
			// so the probe could not be cleaned up
			return
		}
		switch ty {
		case 2:
			r = d.wd.apply("hset", key, "f", "v1")
			d.wd.apply("hdel", key, "f")
		case 3:
			r = d.wd.apply("rpush", key, "v1")
			d.wd.apply("lpop", key)
		case 4:
			r = d.wd.apply("sadd", key, "m")
			d.wd.apply("srem", key, "m")
		case 5:
			r = d.wd.apply("zadd", key, "1", "m")
			d.wd.apply("zrem", key, "m")
		}
	case kind < 8: // sub-key length
		ty := []int{2, 4, 5}[d.rng.Intn(3)]
		u = isoTup(ty, t, 1)
		sl = []int{10239, 10240, 10241}[d.rng.Intn(3)]
		kl = len("zz-probe")
		key, sub := table+":zz-probe", pad(sl, "s")
		kf = len(key)
		switch ty {
		case 2:
			r = d.wd.apply("hset", key, sub, "v1")
			d.wd.apply("hdel", key, sub)
		case 4:
			r = d.wd.apply("sadd", key, sub)
			d.wd.apply("srem", key, sub)
		case 5:
			r = d.wd.apply("zadd", key, "1", sub)
			d.wd.apply("zrem", key, sub)
		}
	default: // value length (8 MiB)
		vl = 8388608 - 1 + d.rng.Intn(3)
		key := table + ":zz-probe"
		kl, kf = len(key), len(key)
		r = d.wd.apply("set", key, pad(vl, "v"))
		d.wd.apply("del", key)
	}
	rr := 0
	if _, bad := r.(error); bad {
		rr = -998
	}
	d.nProbe++
	d.emit("limit", u, kl, sl, rr, []int{vl, kf})
}

func (d *isoDrv) step() {
	if d.probeEvery > 0 && d.rng.Intn(d.probeEvery) == 0 {
		d.limitProbe()
		return
	}
	if d.bulkEvery > 0 && d.rng.Intn(d.bulkEvery) == 0 {
		d.bulkClear()
		return
	}
	r := d.rng.Intn(100)
	switch {
	case r < 3:
		d.delTable(1 + d.rng.Intn(isoNT))
		return
	case r < 7 && d.local:
		d.runExpiry()
		return
	case r >= 17 && r < 24:
		d.multiKey()
		return
	case r >= 24 && r < 24+d.delw && d.partial:
		d.delRange()
		return
	case r < 17 && r >= 12:
		// lexicographic member ranges on a sorted set, preferably a hot one
		t, k := 1+d.rng.Intn(isoNT), 1+d.rng.Intn(isoNK)
		for _, h := range d.hot {
			if h[0] == 5 {
				t, k = h[1], h[2]
			}
		}
		d.lexOp(t, k)
		return
	case r < 12:
		d.keysOf(1+d.rng.Intn(5), 1+d.rng.Intn(isoNT))
		return
	}
	ty, t, k := 1+d.rng.Intn(d.nty), 1+d.rng.Intn(isoNT), 1+d.rng.Intn(isoNK)
	if len(d.hot) > 0 && d.rng.Intn(10) < 6 {
		// most commands go to a few hot tuples, so that one tuple sees write / clear /
		// re-create sequences while all the others are watched
		h := d.hot[d.rng.Intn(len(d.hot))]
		ty, t, k = h[0], h[1], h[2]
	}
	u := isoTup(ty, t, k)
	if d.doomed[u-1] {
		return // not written again before the next expiry pass (generator constraint)
	}
	s, v := 1+d.rng.Intn(isoNS), 1+d.rng.Intn(3)
	x := d.rng.Intn(100)
	if d.local && x < 6 && ty <= 5 {
		d.one("expire", ty, t, k, 0, 0)
		return
	}
	switch ty {
	case 1:
		if x < 70 {
			d.one("set", ty, t, k, v, 0)
		} else {
			d.one("del", ty, t, k, 0, 0)
		}
	case 2:
		switch {
		case x < 60:
			d.one("hset", ty, t, k, s, v)
		case x < 85:
			d.one("hdel", ty, t, k, s, 0)
		default:
			d.one("clear", ty, t, k, 0, 0)
		}
	case 3:
		switch {
		case x < 55 && d.size[u-1] < 5:
			d.one("rpush", ty, t, k, v, 0)
		case x < 85:
			d.one("lpop", ty, t, k, 0, 0)
		default:
			d.one("clear", ty, t, k, 0, 0)
		}
	case 4:
		switch {
		case x < 60:
			d.one("sadd", ty, t, k, s, 0)
		case x < 85:
			d.one("srem", ty, t, k, s, 0)
		default:
			d.one("clear", ty, t, k, 0, 0)
		}
	case 6:
		if x < 75 {
			d.one("bitset", ty, t, k, 1+d.rng.Intn(len(isoBitOffsets)), 0)
		} else {
			d.one("clear", ty, t, k, 0, 0)
		}
	case 7:
		if x < 70 {
			d.one("jset", ty, t, k, v, 0)
		} else {
			d.one("jdel", ty, t, k, 0, 0)
		}
	case 8:
		if x < 75 {
			d.one("pfadd", ty, t, k, s, 0)
		} else {
			d.one("del", ty, t, k, 0, 0)
		}
	case 5:
		switch {
		case x < 55:
			if d.rng.Intn(10) < 6 {
				v = 2 // mostly one score, so that the lexicographic range commands are defined
			}
			d.one("zadd", ty, t, k, s, v)
		case x < 72:
			d.one("zrem", ty, t, k, s, 0)
		case x < 80:
			lo := 1 + d.rng.Intn(3)
			d.one("zrembyscore", ty, t, k, lo, lo+d.rng.Intn(4-lo))
		case x < 93:
			d.lexOp(t, k)
		default:
			d.one("clear", ty, t, k, 0, 0)
		}
	}
}

// pick n names out of a pool, keeping the pool order
func isoPick(rng *rand.Rand, names [scnNPos]string, n int) []string {
	idx := rng.Perm(scnNPos)[:n]
	for i := 0; i < n; i++ {
		for j := i + 1; j < n; j++ {
			if idx[j] < idx[i] {
				idx[i], idx[j] = idx[j], idx[i]
			}
		}
	}
	out := make([]string, n)
	for i, x := range idx {
		out[i] = names[x]
	}
	return out
}

func isosim(args []string) error {
	fs := flag.NewFlagSet("isosim", flag.ExitOnError)
	et := fs.String("eng", "pebble", "engine type: mem | pebble")
	outp := fs.String("o", "iso", "output prefix; parts are <prefix>.<i>.ndjson")
	parts := fs.Int("parts", 1, "")
	seed := fs.Int64("seed", 1, "")
	nseg := fs.Int("segments", 10, "number of worlds")
	slen := fs.Int("len", 60, "commands per world")
	policy := fs.String("policy", "local", "expiry policy: local | compact")
	longLen := fs.Int("long", 9900, "length of the shared prefix of the long names")
	tabsel := fs.Int("tables", -1, "force the table triple (-1: by seed)")
	bulkEvery := fs.Int("bulk", 0, "one step in N is a > 5 000-element clear episode (0 = none)")
	probeEvery := fs.Int("probe", 25, "one step in N is a limit probe (0 = none)")
	ntypes := fs.Int("types", 8, "data types in the command mix: 5, or 6..8 to add bitmap, json, hyperloglog")
	delExt := fs.Bool("deltable-ext", false, "whole-table delete also while the table holds bitmap / json / hll data (open finding)")
	partial := fs.Bool("delrange", true, "partial-range DeleteTableRange [start, end) in the command mix")
	delw := fs.Int("delrange-w", 2, "partial-range deletes: steps out of 100")
	delAnyLen := fs.Bool("delrange-anylen", false, "partial-range deletes also in worlds whose key names differ in length (open finding)")
	keyPool := fs.Int("keypool", -1, "force the pool of the key names (-1: by seed)")
	burst := fs.Bool("burst", false, "local policy: start every world with keys of three types expiring in one pass")
	expire := fs.Bool("expire", true, "local policy: include expire commands and the expiry pass")
	fs.Parse(args)
	scnPools = scnBuildPools(*longLen)

	pol := common.LocalDeletion
	if *policy == "compact" {
		pol = common.WaitCompact
	}
	wd, err := scnOpen(*et, pol, os.Getenv("ZR_SCRATCH"))
	if err != nil {
		return err
	}
	defer wd.close()
	rng := rand.New(rand.NewSource(*seed))
	tws := make([]*trace.Writer, *parts)
	for i := range tws {
		if tws[i], err = trace.Create(fmt.Sprintf("%s.%d.ndjson", *outp, i)); err != nil {
			return err
		}
	}
	var usable []int
	for i, p := range scnPools {
		if *et != "mem" || p.prefixFree {
			usable = append(usable, i)
		}
	}
	d := &isoDrv{wd: wd, rng: rng, local: pol == common.LocalDeletion && *expire, byOp: map[string]int{}, touched: map[int]bool{}, bulkEvery: *bulkEvery, nty: *ntypes, partial: *partial, delw: *delw, delAnyLen: *delAnyLen, delExt: *delExt, probeEvery: *probeEvery, compact: pol == common.WaitCompact, watchdog: 120 * time.Second}
	if *et == "mem" {
		d.watchdog = 20 * time.Second // the engine the recorded deadlock is about
	}
	poolsUsed := map[int]bool{}
	tablesUsed := map[int]bool{}
	for seg := 0; seg < *nseg; seg++ {
		if err := wd.clean(); err != nil {
			return err
		}
		d.tw = tws[seg%len(tws)]
		ki, si, ti := usable[rng.Intn(len(usable))], usable[rng.Intn(len(usable))], rng.Intn(len(scnTables))
		if *keyPool >= 0 {
			ki = *keyPool
		}
		if *tabsel >= 0 {
			ti = *tabsel
		}
		if ki == 5 || ki == 7 {
			for len(scnTables[ti][0])+*longLen+10 > common.MaxKeySize {
				ti = rng.Intn(len(scnTables))
			}
		}
		poolsUsed[ki], poolsUsed[si], tablesUsed[ti] = true, true, true
		d.tabs = scnTables[ti]
		copy(d.keys[:], isoPick(rng, scnPools[ki].names, isoNK))
		copy(d.subs[:], isoPick(rng, scnPools[si].names, isoNS))
		if *et != "mem" && rng.Intn(2) == 0 {
			// the empty field / member name is legal and sorts first: it sits exactly on the
			// start key of its collection's range (not on mem: that key is a proper prefix of
			// the collection's other keys, see the recorded radix-iterator finding)
			d.subs[0] = ""
		}
		d.kpos, d.spos = map[string]int{}, map[string]int{}
		for i, n := range d.keys {
			d.kpos[n] = i + 1
		}
		for i, n := range d.subs {
			d.spos[n] = i + 1
		}
		hx := func(ss []string) []string {
			o := make([]string, len(ss))
			for i, x := range ss {
				if len(x) > 40 {
					x = x[:4] + fmt.Sprintf("..(%d)..", len(x)) + x[len(x)-4:]
				}
				o[i] = fmt.Sprintf("%x", x)
			}
			return o
		}
		// the concrete names are for the report only
		d.tw.Emit(trace.M{"ev": "reset", "tabs": hx(d.tabs[:]), "keys": hx(d.keys[:]), "subs": hx(d.subs[:]),
			"klens": []int{len(d.keys[0]), len(d.keys[1]), len(d.keys[2]), len(d.keys[3])}})
		d.hot = nil
		for i := 0; i < 6; i++ {
			d.hot = append(d.hot, [3]int{1 + rng.Intn(d.nty), 1 + rng.Intn(isoNT), 1 + rng.Intn(isoNK)})
		}
		d.size = [isoNTy * isoNT * isoNK]int{}
		d.lastDump = nil
		d.doomed = [isoNTy * isoNT * isoNK]bool{}
		if *burst && d.local {
			// keys of two data types expire in the same pass
			d.one("set", 1, 1, 1, 1, 0)
			d.one("hset", 2, 1, 1, 1, 1)
			d.one("sadd", 4, 2, 2, 1, 0)
			d.one("expire", 1, 1, 1, 0, 0)
			d.one("expire", 2, 1, 1, 0, 0)
			d.one("expire", 4, 2, 2, 0, 0)
			d.runExpiry()
		}
		for i := 0; i < *slen && !d.hung; i++ {
			d.step()
		}
		if d.local && !d.hung {
			d.runExpiry()
		}
		if d.hung {
			break
		}
	}
	if d.hung {
		for _, tw := range tws {
			tw.Close()
		}
		summary(trace.M{"driver": "isosim", "eng": *et, "policy": *policy, "commands": d.ncmd, "hung": true})
		os.Exit(0) // the store cannot be closed any more
	}
	for _, tw := range tws {
		tw.Close()
	}
	var pu, tu []int
	for i := range scnPools {
		if poolsUsed[i] {
			pu = append(pu, i)
		}
	}
	for i := range scnTables {
		if tablesUsed[i] {
			tu = append(tu, i)
		}
	}
	summary(trace.M{"driver": "isosim", "eng": *et, "policy": *policy, "segments": *nseg, "commands": d.ncmd,
		"by_op": d.byOp, "tuples_dumped_per_command": isoNTy * isoNT * isoNK, "dumps": d.ncmd, "errors": d.nErr,
		"panics": wd.panics, "bulk_clears": d.nBulk, "limit_probes": d.nProbe, "pools": pu, "table_sets": tu, "applied": wd.napply})
	return nil
}
