package main

// codecsim: drives the real peer stream codecs of transport/rafthttp (msgAppV2Encoder /
// msgAppV2Decoder and messageEncoder / messageDecoder, built through the verif-tagged
// constructors) with message sequences and records, per message, what was written (all
// fields, frame kind = first byte, byte length) and what was read back (all fields or the
// error).  Sources of sequences:
//   -dot g.dot    every edge of TLC's dumped state graph of MC_ZCodec_walk
//   -random N     N seeded random msgappv2 sequences (interleaved groups, term changes,
//                 near-continuations, heartbeats, entry sizes around the buffer limits)
//   -msg N        N seeded random sequences over all message types through the generic codec
//   -explore N    byte-level exploration of N recorded streams: every (or a sample of the)
//                 truncation points, single-byte corruptions of header bytes
// The driver never judges; spec/ZCodecTrace.tla (TLC) evaluates every line.

import (
	"bytes"
	"context"
	"crypto/sha1"
	"encoding/binary"
	"encoding/hex"
	"encoding/json"
	"flag"
	"fmt"
	"hash/crc32"
	"io"
	"io/ioutil"
	"math"
	"math/rand"
	"net/http"
	"net/http/httptest"
	"os"
	"os/exec"
	"path/filepath"
	"sort"
	"strconv"
	"strings"
	"sync"
	"time"

	"github.com/youzan/ZanRedisDB/pkg/types"
	"github.com/youzan/ZanRedisDB/raft"
	"github.com/youzan/ZanRedisDB/raft/raftpb"
	"github.com/youzan/ZanRedisDB/transport/rafthttp"
	"zrverif/graph"
	"zrverif/trace"
)

func init() { commands["codecsim"] = codecsim }

const cdBuf = rafthttp.VerifMsgAppV2BufSize

// group pairs of the bounded instance (spec/MC_ZCodec.tla Pairs) and a few more for the
// random generator: one stream from node 1 to node 2 shared by several raft groups
func cdGroup(node, gid, rep uint64) raftpb.Group {
	// Group.Name is a function of the group id (node/namespace.go: groups[GroupID] = name)
	return raftpb.Group{NodeId: node, GroupId: gid, RaftReplicaId: rep, Name: "ns-" + strconv.Itoa(int(gid-7))}
}

var cdPairs = [][2]raftpb.Group{
	{cdGroup(1, 7, 1), cdGroup(2, 7, 2)},
	{cdGroup(1, 8, 1), cdGroup(2, 8, 2)},
	{cdGroup(1, 7, 1), cdGroup(2, 7, 5)},
	{cdGroup(1, 7, 9), cdGroup(2, 7, 2)},   // sender's replica re-added
	{cdGroup(1, 9, 2), cdGroup(2, 9, 1)},   // replica ids swapped in another group
	{cdGroup(1, 10, 3), cdGroup(2, 10, 4)}, // unrelated group
}

type cdDrv struct {
	tw  *trace.Writer
	rng *rand.Rand
	big [][]byte // pool of large pseudo-random byte slices
	// counters
	nenc, ndec, nseg, ncont, nfull, nhb, nlate  int
	nbigent, nexact, nover, n64k                int
	ntrunc, ncorrupt, npanic, nerrpath, nhuge   int
	bytesTotal                                  int64
	nhugeRun, ncrash, nbatch, nchild, ncrashRun int
	nchunked, nresend                           int
	nconn, nreconnect, nstreamMsg, nstreamHB    int
	nstreamDropped, nstreamAborted              int
	nconnCut, nscenario, ndeliver               int
	npost, nsnappost                            int
	nburst, nburstMsg, nburstMissing            int
	nreport, nreportSkipped                     int
	reportKinds                                 map[string]int
	burstSizes                                  []int
	inproc                                      bool
	nnotrun                                     int
	hugeLeft                                    int    // corruptions with a huge length still to be run in a child process
	scratch                                     string // directory for the child's input
	truncClasses, corruptClasses, corruptFields map[string]int
}

// ------------------------------------------------------------------ recording

func cdCRC(b []byte) string { return fmt.Sprintf("%d:%08x", len(b), crc32.ChecksumIEEE(b)) }

func cdNum(v uint64, str bool) interface{} {
	if str {
		return strconv.FormatUint(v, 10)
	}
	if v > math.MaxInt32 {
		// the msgappv2 corpus keeps numbers below 2^31 (TLC integers); anything else is
		// made visible instead of being wrapped
		return int(math.MaxInt32)
	}
	return int(v)
}

func cdGroupRec(g *raftpb.Group, str bool) trace.M {
	return trace.M{"node": cdNum(g.NodeId, str), "gid": cdNum(g.GroupId, str), "rep": cdNum(g.RaftReplicaId, str), "name": g.Name}
}

func cdTypeName(t raftpb.MessageType) string {
	if s, ok := raftpb.MessageType_name[int32(t)]; ok {
		return s
	}
	return "T" + strconv.Itoa(int(t))
}

func cdGroupsDigest(gs []*raftpb.Group) string {
	var sb strings.Builder
	for _, g := range gs {
		if g == nil {
			sb.WriteString("nil;")
			continue
		}
		fmt.Fprintf(&sb, "%d/%d/%d/%q;", g.NodeId, g.GroupId, g.RaftReplicaId, g.Name)
	}
	return sb.String()
}

// rest: digest of the fields an append on the msgappv2 stream never carries
func cdRest(m *raftpb.Message) string {
	s := &m.Snapshot
	cs := &s.Metadata.ConfState
	if !m.Reject && m.RejectHint == 0 && len(m.Context) == 0 && len(s.Data) == 0 && s.Metadata.Index == 0 &&
		s.Metadata.Term == 0 && len(cs.Nodes) == 0 && len(cs.Groups) == 0 && len(cs.Learners) == 0 && len(cs.LearnerGroups) == 0 {
		return ""
	}
	return fmt.Sprintf("rej=%v hint=%d ctx=%s snap=%s@%d/%d nodes=%v groups=%s learners=%v lgroups=%s",
		m.Reject, m.RejectHint, cdCRC(m.Context), cdCRC(s.Data), s.Metadata.Index, s.Metadata.Term,
		cs.Nodes, cdGroupsDigest(cs.Groups), cs.Learners, cdGroupsDigest(cs.LearnerGroups))
}

// msgRec renders every field of a message; str: numbers as decimal strings (generic
// stream, arbitrary uint64 values) instead of ints (msgappv2 corpus, below 2^31)
func cdMsgRec(m *raftpb.Message, str bool) trace.M {
	ents := make([]trace.M, 0, len(m.Entries))
	for i := range m.Entries {
		e := &m.Entries[i]
		ents = append(ents, trace.M{"index": cdNum(e.Index, str), "term": cdNum(e.Term, str),
			"d": fmt.Sprintf("%d:%d:%d:%d:%s", int32(e.Type), e.DataType, e.ID, e.Timestamp, cdCRC(e.Data))})
	}
	return trace.M{"type": cdTypeName(m.Type), "from": cdNum(m.From, str), "to": cdNum(m.To, str),
		"term": cdNum(m.Term, str), "logterm": cdNum(m.LogTerm, str), "index": cdNum(m.Index, str),
		"commit": cdNum(m.Commit, str), "ents": ents, "fg": cdGroupRec(&m.FromGroup, str),
		"tg": cdGroupRec(&m.ToGroup, str), "rest": cdRest(m)}
}

func cdDigest(m *raftpb.Message) string {
	b, _ := json.Marshal(cdMsgRec(m, true))
	h := sha1.Sum(b)
	return hex.EncodeToString(h[:8])
}

func cdErrClass(err error) string {
	switch {
	case err == nil:
		return "none"
	case err == io.EOF:
		return "eof"
	case err == io.ErrUnexpectedEOF:
		return "unexpected_eof"
	case err == rafthttp.ErrExceedSizeLimit:
		return "size_limit"
	}
	return "other"
}

func cdErrText(err error) string {
	if err == nil {
		return ""
	}
	s := err.Error()
	if len(s) > 120 {
		s = s[:120]
	}
	return s
}

// ------------------------------------------------------------------ a stream under test

type cdStream struct {
	v2         bool
	buffered   bool
	local, rem uint64
	out        bytes.Buffer // everything the encoder wrote
	rd         *cdReader
	enc        rafthttp.VerifEncoder
	dec        rafthttp.VerifDecoder
	ends       []int // cumulative byte offset after each frame
	sent       []raftpb.Message
	sentDig    []string
	got        []raftpb.Message // decoded messages kept for the late digests
	closed     bool
	chunk      int // > 0: the decoder's reader returns at most this many bytes per Read
}

// cdReader reads what has been written so far (never more); at the current end it
// reports io.EOF like a closed connection
type cdReader struct {
	s   *cdStream
	off int
}

// cdChunk limits every Read of r to at most n bytes (a connection delivering a frame in
// pieces); n <= 0: no limit
type cdChunk struct {
	r io.Reader
	n int
}

func (c *cdChunk) Read(p []byte) (int, error) {
	if c.n > 0 && len(p) > c.n {
		p = p[:c.n]
	}
	return c.r.Read(p)
}

func (r *cdReader) Read(p []byte) (int, error) {
	b := r.s.out.Bytes()
	if r.off >= len(b) {
		return 0, io.EOF
	}
	n := copy(p, b[r.off:])
	r.off += n
	return n, nil
}

func cdNewDecoder(v2, buffered bool, r io.Reader, local, remote uint64) rafthttp.VerifDecoder {
	if v2 {
		return rafthttp.VerifNewMsgAppV2Decoder(r, types.ID(local), types.ID(remote))
	}
	return rafthttp.VerifNewMessageDecoder(r, buffered)
}

func (d *cdDrv) newStream(v2, buffered bool, local, remote uint64, stage string) *cdStream {
	s := &cdStream{v2: v2, buffered: buffered, local: local, rem: remote}
	s.rd = &cdReader{s: s}
	if v2 {
		s.enc = rafthttp.VerifNewMsgAppV2Encoder(&s.out)
	} else {
		s.enc = rafthttp.VerifNewMessageEncoder(&s.out)
	}
	// every third stream is read through a reader that delivers short reads
	if d.nseg%3 == 1 {
		s.chunk = []int{1, 7, 256, 4096, 65536, 1000000}[d.rng.Intn(6)]
		d.nchunked++
	}
	s.dec = cdNewDecoder(v2, buffered, &cdChunk{s.rd, s.chunk}, local, remote)
	stream := "msg"
	if v2 {
		stream = "v2"
	}
	d.tw.Emit(trace.M{"ev": "reset", "stream": stream, "local": int(local), "remote": int(remote), "buffered": buffered, "stage": stage})
	d.nseg++
	return s
}

func (d *cdDrv) panicEv(where string, r interface{}) {
	d.npanic++
	d.tw.Emit(trace.M{"ev": "panic", "where": where, "what": fmt.Sprint(r)})
}

// encode one message with the real encoder and log it
func (d *cdDrv) encode(s *cdStream, m raftpb.Message) {
	before := s.out.Len()
	var err error
	func() {
		defer func() {
			if r := recover(); r != nil {
				d.panicEv("encode", r)
				err = fmt.Errorf("panic")
			}
		}()
		err = s.enc.Encode(&m)
	}()
	n := s.out.Len() - before
	kind := "none"
	if n > 0 {
		if s.v2 {
			switch s.out.Bytes()[before] {
			case rafthttp.VerifMsgTypeLinkHeartbeat:
				kind = "hb"
			case rafthttp.VerifMsgTypeAppEntries:
				kind = "cont"
			case rafthttp.VerifMsgTypeApp:
				kind = "full"
			default:
				kind = "unknown"
			}
		} else {
			kind = "full"
		}
	}
	switch kind {
	case "hb":
		d.nhb++
	case "cont":
		d.ncont++
	case "full":
		d.nfull++
	}
	dig := cdDigest(&m)
	s.ends = append(s.ends, s.out.Len())
	s.sent = append(s.sent, m)
	s.sentDig = append(s.sentDig, dig)
	d.nenc++
	d.bytesTotal += int64(n)
	d.tw.Emit(trace.M{"ev": "enc", "m": cdMsgRec(&m, !s.v2), "dig": dig, "kind": kind, "nbytes": n, "err": cdErrText(err)})
}

// decode the next message with the real decoder and log it; false when the stream ended
func (d *cdDrv) decode(s *cdStream) bool {
	if s.closed {
		return false
	}
	var m raftpb.Message
	var err error
	func() {
		defer func() {
			if r := recover(); r != nil {
				d.panicEv("decode", r)
				err = fmt.Errorf("panic")
			}
		}()
		m, err = s.dec.Decode()
	}()
	d.ndec++
	if err != nil {
		s.closed = true
		d.nerrpath++
		var z raftpb.Message
		d.tw.Emit(trace.M{"ev": "dec", "m": cdMsgRec(&z, !s.v2), "dig": "", "err": cdErrText(err), "errclass": cdErrClass(err)})
		return false
	}
	s.got = append(s.got, m)
	d.tw.Emit(trace.M{"ev": "dec", "m": cdMsgRec(&m, !s.v2), "dig": cdDigest(&m), "err": "", "errclass": "none"})
	return true
}

// late digests: the messages decoded earlier in this segment, digested again now, so that
// a later decode overwriting an earlier message's bytes (buffer reuse) becomes visible
func (d *cdDrv) late(s *cdStream) {
	for i := range s.got {
		if len(s.got) > 12 && i >= 6 && i < len(s.got)-6 {
			continue
		}
		d.nlate++
		d.tw.Emit(trace.M{"ev": "late", "i": i + 1, "dig": cdDigest(&s.got[i])})
	}
}

// ------------------------------------------------------------------ payloads

func (d *cdDrv) bytesOf(n int) []byte {
	if n == 0 {
		if d.rng.Intn(2) == 0 {
			return nil
		}
		return []byte{}
	}
	p := d.big[d.rng.Intn(len(d.big))]
	off := d.rng.Intn(len(p) - n + 1)
	return p[off : off+n : off+n]
}

// entry whose marshalled size is exactly `target`
func (d *cdDrv) entrySized(e raftpb.Entry, target int) raftpb.Entry {
	n := target - 24
	if n < 0 {
		n = 0
	}
	for i := 0; i < 6; i++ {
		e.Data = d.bytesOf(n)
		diff := target - e.Size()
		if diff == 0 {
			break
		}
		n += diff
		if n < 0 {
			n = 0
			break
		}
	}
	return e
}

// sizeClass 1: small (0..96 bytes, sometimes empty); 2: around the internal buffers
func (d *cdDrv) fillEntry(e raftpb.Entry, sizeClass int) raftpb.Entry {
	if sizeClass <= 1 {
		switch d.rng.Intn(6) {
		case 0:
			e.Data = d.bytesOf(0)
		default:
			e.Data = d.bytesOf(1 + d.rng.Intn(96))
		}
		return e
	}
	d.nbigent++
	switch d.rng.Intn(8) {
	case 0:
		d.nexact++
		return d.entrySized(e, cdBuf)
	case 1:
		d.nexact++
		return d.entrySized(e, cdBuf-1)
	case 2:
		d.nover++
		return d.entrySized(e, cdBuf+1)
	case 3:
		d.nover++
		e.Data = d.bytesOf(cdBuf + cdBuf/2 + d.rng.Intn(1000))
	case 4:
		d.n64k++
		e.Data = d.bytesOf(65536 + d.rng.Intn(3) - 1)
	case 5:
		d.n64k++
		e.Data = d.bytesOf(70000 + d.rng.Intn(100000))
	case 6:
		d.nover++
		e.Data = d.bytesOf(cdBuf) // data alone fills the buffer, the entry is larger
	default:
		d.n64k++
		e.Data = d.bytesOf(65535 - 20 + d.rng.Intn(40))
	}
	return e
}

func (d *cdDrv) appMsg(pair [2]raftpb.Group, term, logterm, index uint64, n int, sizeClass int, commit uint64) raftpb.Message {
	m := raftpb.Message{Type: raftpb.MsgApp, From: pair[0].RaftReplicaId, To: pair[1].RaftReplicaId,
		Term: term, LogTerm: logterm, Index: index, Commit: commit, FromGroup: pair[0], ToGroup: pair[1]}
	for j := 1; j <= n; j++ {
		e := raftpb.Entry{Index: index + uint64(j), Term: term}
		if d.rng.Intn(3) == 0 {
			e.Type = raftpb.EntryType(d.rng.Intn(2))
			e.ID = uint64(d.rng.Intn(1 << 30))
			e.DataType = int32(d.rng.Intn(3))
			e.Timestamp = d.rng.Int63()
		}
		sc := sizeClass
		if sc == 2 && j > 1 && d.rng.Intn(2) == 0 {
			sc = 1
		}
		m.Entries = append(m.Entries, d.fillEntry(e, sc))
	}
	return m
}

// ------------------------------------------------------------------ (a1) TLC's state graph

func (d *cdDrv) walk(g *graph.Graph, limit int) (steps, covered int, err error) {
	w := graph.CoverWalk(g, d.rng, 40, limit, nil)
	seen := map[int]bool{}
	var s *cdStream
	atoi := func(x string) int { v, _ := strconv.Atoi(x); return v }
	finish := func() {
		if s != nil {
			for d.decode(s) {
			}
			d.late(s)
		}
	}
	for _, st := range w {
		if st.Reset {
			finish()
			s = d.newStream(true, true, 2, 1, "walk")
			continue
		}
		e := &g.Edges[st.Edge]
		seen[st.Edge] = true
		steps++
		switch e.Name {
		case "Encode":
			if len(e.Args) != 7 {
				return steps, len(seen), fmt.Errorf("label %q", e.Label)
			}
			a := e.Args
			d.encode(s, d.appMsg(cdPairs[atoi(a[0])-1], uint64(atoi(a[1])), uint64(atoi(a[2])), uint64(atoi(a[3])),
				atoi(a[4]), atoi(a[5]), uint64(atoi(a[6]))))
		case "EncodeHB":
			d.encode(s, rafthttp.VerifLinkHeartbeatMessage())
		case "Decode":
			d.decode(s)
		default:
			return steps, len(seen), fmt.Errorf("unknown action label %q", e.Label)
		}
	}
	// every segment ends with the stream drained to EOF
	finish()
	return steps, len(seen), nil
}

// ------------------------------------------------------------------ (a2) random msgappv2 sequences

type cdCursor struct{ term, index uint64 }

func (d *cdDrv) randomV2(s *cdStream, length int, bigProb float64) {
	npairs := 2 + d.rng.Intn(len(cdPairs)-1)
	cur := make([]cdCursor, npairs)
	t0 := uint64(1 + d.rng.Intn(3))
	i0 := uint64(d.rng.Intn(5))
	for i := range cur {
		cur[i] = cdCursor{t0, i0}
	}
	// what the previous append ended with (independent of what the codec does with it)
	last := cdCursor{0, 0}
	g := d.rng.Intn(npairs)
	first, lastG := uint64(0), g
	pending := 0
	for step := 0; step < length && !s.closed; step++ {
		if d.rng.Intn(12) == 0 {
			d.encode(s, rafthttp.VerifLinkHeartbeatMessage())
		} else {
			if d.rng.Intn(3) == 0 {
				g = d.rng.Intn(npairs)
			}
			c := &cur[g]
			term, logterm, index := c.term, c.term, c.index
			switch d.rng.Intn(15) {
			case 0: // new leader term: the first append carries the old log term
				c.term += uint64(1 + d.rng.Intn(2))
				term = c.term
			case 1: // probe further back
				if index > 0 {
					index -= uint64(1 + d.rng.Intn(int(index)))
				}
			case 2, 3, 4: // the same position as the previous append, whichever group that was
				term, logterm, index = last.term, last.term, last.index
				c.term = term
			case 5: // previous position, index off by one
				term, logterm, index = last.term, last.term, last.index+1
				c.term = term
			case 6: // previous position, term differs
				term, logterm, index = last.term+1, last.term, last.index
				c.term = term
			case 7: // log term below the term although nothing else changed
				if term > 1 {
					logterm = term - 1
				}
			case 8: // back at the first term of this stream, at the previous position and group
				if first > 0 {
					g = lastG
					c = &cur[g]
					term, logterm, index = first, first, last.index
					c.term = term
				}
			}
			if first == 0 {
				first = term
			}
			if term == 0 {
				term, logterm = 1, 1
				c.term = 1
			}
			n := 0
			switch d.rng.Intn(6) {
			case 0:
			case 1, 2, 3:
				n = 1
			case 4:
				n = 2
			default:
				n = 1 + d.rng.Intn(4)
			}
			sc := 1
			if n > 0 && d.rng.Float64() < bigProb {
				sc = 2
			}
			commit := uint64(d.rng.Intn(int(index) + 3))
			m := d.appMsg(cdPairs[g], term, logterm, index, n, sc, commit)
			d.encode(s, m)
			c.index = index + uint64(n)
			last = cdCursor{term, c.index}
			lastG = g
		}
		pending++
		for pending > 0 && d.rng.Intn(3) != 0 {
			if !d.decode(s) {
				break
			}
			pending--
		}
	}
	for d.decode(s) {
	}
	d.late(s)
}

// full frames whose marshalled message size is around the buffer limit
func (d *cdDrv) v2MessageSizes(s *cdStream) {
	pair := cdPairs[0]
	idx := uint64(3)
	for _, target := range []int{cdBuf - 1, cdBuf, cdBuf + 1, 65535, 65536, 65537} {
		m := raftpb.Message{Type: raftpb.MsgApp, From: pair[0].RaftReplicaId, To: pair[1].RaftReplicaId,
			Term: 4, LogTerm: 3, Index: idx, Commit: 1, FromGroup: pair[0], ToGroup: pair[1],
			Entries: []raftpb.Entry{{Index: idx + 1, Term: 4}}}
		d.sizeMessage(&m, target)
		d.encode(s, m)
		d.decode(s)
		// and a continuation right behind it
		m2 := d.appMsg(pair, 4, 4, idx+1, 1, 1, 2)
		d.encode(s, m2)
		d.decode(s)
		idx += 5
	}
	for d.decode(s) {
	}
	d.late(s)
}

// the leader streams a large entry in a continuation frame and, not acknowledged, sends
// again from the same previous index (probe after MsgUnreachable / reject); for every size
// class around the buffer
func (d *cdDrv) v2ResendAfterBig(s *cdStream) {
	pair := cdPairs[d.rng.Intn(3)]
	idx := uint64(5)
	for _, target := range []int{cdBuf - 1, cdBuf, cdBuf + 1, cdBuf + cdBuf/2 + 17, 65536, 70000} {
		d.nresend++
		// full frame, then continuation mode
		d.encode(s, d.appMsg(pair, 2, 1, idx, 1, 1, idx))
		idx++
		d.encode(s, d.appMsg(pair, 2, 2, idx, 0, 1, idx))
		// continuation carrying the large entry (and sometimes a small one behind it)
		m := raftpb.Message{Type: raftpb.MsgApp, From: pair[0].RaftReplicaId, To: pair[1].RaftReplicaId,
			Term: 2, LogTerm: 2, Index: idx, Commit: idx, FromGroup: pair[0], ToGroup: pair[1]}
		m.Entries = append(m.Entries, d.entrySized(raftpb.Entry{Index: idx + 1, Term: 2}, target))
		if d.rng.Intn(2) == 0 {
			m.Entries = append(m.Entries, d.fillEntry(raftpb.Entry{Index: idx + 2, Term: 2}, 1))
		}
		d.encode(s, m)
		for d.rng.Intn(2) == 0 && d.decode(s) {
		}
		// not acknowledged: the same append again from the same previous index, then on
		d.encode(s, m)
		idx += uint64(len(m.Entries))
		d.encode(s, d.appMsg(pair, 2, 2, idx, 1, 1, idx))
		idx++
		for len(s.got) < len(s.sent) && d.decode(s) {
		}
		if s.closed {
			break
		}
	}
	for d.decode(s) {
	}
	d.late(s)
}

// adjust the last entry's data so that m.Size() == target
func (d *cdDrv) sizeMessage(m *raftpb.Message, target int) {
	e := &m.Entries[len(m.Entries)-1]
	n := target - m.Size() - 8
	if n < 0 {
		n = 0
	}
	for i := 0; i < 8; i++ {
		e.Data = d.bytesOf(n)
		diff := target - m.Size()
		if diff == 0 {
			d.nexact++
			return
		}
		n += diff
		if n < 0 {
			n = 0
		}
	}
}

// ------------------------------------------------------------------ (b) generic message stream

func (d *cdDrv) u64() uint64 {
	switch d.rng.Intn(8) {
	case 0:
		return 0
	case 1:
		return math.MaxUint64
	case 2:
		return 1 << 63
	case 3:
		return uint64(math.MaxUint32) + uint64(d.rng.Intn(3)) - 1
	case 4:
		return d.rng.Uint64()
	}
	return uint64(d.rng.Intn(1000))
}

func (d *cdDrv) rndGroup() raftpb.Group {
	g := raftpb.Group{NodeId: d.u64(), GroupId: d.u64(), RaftReplicaId: d.u64()}
	switch d.rng.Intn(4) {
	case 0:
	case 1:
		g.Name = "ns-" + strconv.Itoa(d.rng.Intn(100))
	case 2:
		g.Name = string(d.bytesOf(1 + d.rng.Intn(40)))
		g.Name = strings.ToValidUTF8(g.Name, "?")
	default:
		g.Name = "名前-" + strconv.Itoa(d.rng.Intn(9))
	}
	return g
}

var cdAllTypes = []raftpb.MessageType{raftpb.MsgHup, raftpb.MsgBeat, raftpb.MsgProp, raftpb.MsgApp, raftpb.MsgAppResp,
	raftpb.MsgVote, raftpb.MsgVoteResp, raftpb.MsgSnap, raftpb.MsgHeartbeat, raftpb.MsgHeartbeatResp, raftpb.MsgUnreachable,
	raftpb.MsgSnapStatus, raftpb.MsgCheckQuorum, raftpb.MsgTransferLeader, raftpb.MsgTimeoutNow, raftpb.MsgReadIndex,
	raftpb.MsgReadIndexResp, raftpb.MsgPreVote, raftpb.MsgPreVoteResp}

func (d *cdDrv) rndMessage(bigProb float64) raftpb.Message {
	t := cdAllTypes[d.rng.Intn(len(cdAllTypes))]
	m := raftpb.Message{Type: t, From: d.u64(), To: d.u64(), Term: d.u64(), LogTerm: d.u64(), Index: d.u64(), Commit: d.u64(),
		FromGroup: d.rndGroup(), ToGroup: d.rndGroup()}
	if d.rng.Intn(3) == 0 {
		m.Reject = true
		m.RejectHint = d.u64()
	}
	if d.rng.Intn(3) == 0 {
		m.Context = d.bytesOf(d.rng.Intn(64))
	}
	ne := 0
	if t == raftpb.MsgApp || t == raftpb.MsgProp || t == raftpb.MsgReadIndex || d.rng.Intn(5) == 0 {
		ne = d.rng.Intn(4)
	}
	for j := 0; j < ne; j++ {
		e := raftpb.Entry{Index: d.u64(), Term: d.u64(), Type: raftpb.EntryType(d.rng.Intn(2)), ID: d.u64(),
			DataType: int32(d.rng.Uint32()), Timestamp: int64(d.rng.Uint64())}
		sc := 1
		if d.rng.Float64() < bigProb {
			sc = 2
		}
		m.Entries = append(m.Entries, d.fillEntry(e, sc))
	}
	if t == raftpb.MsgSnap || d.rng.Intn(10) == 0 {
		sn := &m.Snapshot
		sn.Metadata.Index, sn.Metadata.Term = d.u64(), d.u64()
		if d.rng.Intn(2) == 0 {
			sn.Data = d.bytesOf(d.rng.Intn(200))
		} else if d.rng.Float64() < bigProb {
			sn.Data = d.bytesOf(cdBuf - 200 + d.rng.Intn(400))
		}
		cs := &sn.Metadata.ConfState
		for i, n := 0, d.rng.Intn(4); i < n; i++ {
			cs.Nodes = append(cs.Nodes, d.u64())
			g := d.rndGroup()
			cs.Groups = append(cs.Groups, &g)
		}
		for i, n := 0, d.rng.Intn(3); i < n; i++ {
			cs.Learners = append(cs.Learners, d.u64())
			g := d.rndGroup()
			cs.LearnerGroups = append(cs.LearnerGroups, &g)
		}
	}
	return m
}

func (d *cdDrv) randomMsg(s *cdStream, length int, bigProb float64) {
	pending := 0
	for step := 0; step < length && !s.closed; step++ {
		var m raftpb.Message
		switch d.rng.Intn(16) {
		case 0:
			m = rafthttp.VerifLinkHeartbeatMessage()
		case 1: // message size exactly around the decoder's buffer length
			m = d.rndMessage(0)
			m.Entries = append(m.Entries, raftpb.Entry{Index: 1, Term: 1})
			d.sizeMessage(&m, cdBuf-1+d.rng.Intn(3))
		case 2:
			m = raftpb.Message{} // every field at its default: an empty frame body
		default:
			m = d.rndMessage(bigProb)
		}
		d.encode(s, m)
		pending++
		for pending > 0 && d.rng.Intn(3) != 0 {
			if !d.decode(s) {
				break
			}
			pending--
		}
	}
	for d.decode(s) {
	}
	d.late(s)
}

// ------------------------------------------------------------------ (c) byte-level exploration

type cdField struct {
	pos    int    // offset of the first byte of the field in the stream
	n      int    // number of bytes
	name   string // type | count | entlen | commit | fulllen | msglen | payload
	frame  int    // 1-based frame number
	remain int    // bytes in the stream after this field (for length prefixes)
}

// layout of the header fields of the recorded stream, computed from the messages that were
// sent (raftpb's Size()) and the recorded frame boundaries and kinds
func cdLayout(s *cdStream, raw []byte) []cdField {
	var fs []cdField
	start := 0
	for i, end := range s.ends {
		fr := i + 1
		if end == start {
			continue
		}
		if !s.v2 {
			fs = append(fs, cdField{start, 8, "msglen", fr, len(raw) - (start + 8)})
			if end-start-8 > 0 {
				fs = append(fs, cdField{start + 8, end - start - 8, "payload", fr, 0})
			}
			start = end
			continue
		}
		fs = append(fs, cdField{start, 1, "type", fr, 0})
		switch raw[start] {
		case rafthttp.VerifMsgTypeAppEntries:
			fs = append(fs, cdField{start + 1, 8, "count", fr, 0})
			p := start + 9
			for j := range s.sent[i].Entries {
				sz := s.sent[i].Entries[j].Size()
				fs = append(fs, cdField{p, 8, "entlen", fr, len(raw) - (p + 8)})
				if sz > 0 {
					fs = append(fs, cdField{p + 8, sz, "payload", fr, 0})
				}
				p += 8 + sz
			}
			if p+8 == end {
				fs = append(fs, cdField{p, 8, "commit", fr, 0})
			}
		case rafthttp.VerifMsgTypeApp:
			fs = append(fs, cdField{start + 1, 8, "fulllen", fr, len(raw) - (start + 9)})
			if end-start-9 > 0 {
				fs = append(fs, cdField{start + 9, end - start - 9, "payload", fr, 0})
			}
		}
		start = end
	}
	return fs
}

// decode `raw` with a fresh real decoder until it fails; returns digests and the error class
func (d *cdDrv) decodeAll(s *cdStream, raw []byte, max int) (got []string, class string, text string) {
	got = []string{}
	defer func() {
		if r := recover(); r != nil {
			d.npanic++
			class, text = "panic", fmt.Sprint(r)
			if len(text) > 120 {
				text = text[:120]
			}
		}
	}()
	dec := cdNewDecoder(s.v2, s.buffered, &cdChunk{bytes.NewReader(raw), s.chunk}, s.local, s.rem)
	for {
		m, err := dec.Decode()
		if err != nil {
			return got, cdErrClass(err), cdErrText(err)
		}
		got = append(got, cdDigest(&m))
		if len(got) > max {
			return got, "none", "more messages than frames"
		}
	}
}

func (d *cdDrv) explore(s *cdStream, full bool, samples int, payloadCorrupt bool) {
	raw := append([]byte(nil), s.out.Bytes()...)
	nfr := len(s.ends)
	fields := cdLayout(s, raw)
	// ---- truncation points
	ks := map[int]bool{}
	// every byte offset for small streams (<= 4 KB; <= 32 KB with -full); a structured sample
	// (headers, frame boundaries, payload ends, seeded offsets) for larger ones
	if len(raw) <= 4096 || (full && len(raw) <= 32768) {
		for k := 0; k <= len(raw); k++ {
			ks[k] = true
		}
	} else {
		add := func(k int) {
			if k >= 0 && k <= len(raw) {
				ks[k] = true
			}
		}
		add(0)
		for _, f := range fields {
			if f.name == "payload" {
				// the first and last bytes of every payload, and a few inside
				for _, k := range []int{f.pos, f.pos + 1, f.pos + 2, f.pos + f.n - 1, f.pos + f.n, f.pos + f.n/2} {
					add(k)
				}
				continue
			}
			for k := f.pos - 1; k <= f.pos+f.n+1; k++ {
				add(k)
			}
		}
		for _, e := range s.ends {
			add(e - 1)
			add(e)
			add(e + 1)
		}
		if full {
			samples *= 10
		}
		for i := 0; i < samples; i++ {
			add(d.rng.Intn(len(raw) + 1))
		}
	}
	order := make([]int, 0, len(ks))
	for k := range ks {
		order = append(order, k)
	}
	sortInts(order)
	for _, k := range order {
		got, class, text := d.decodeAll(s, raw[:k], nfr)
		d.ntrunc++
		d.truncClasses[class]++
		d.tw.Emit(trace.M{"ev": "trunc", "k": k, "got": got, "errclass": class, "errtext": text})
	}
	// ---- single-byte corruptions of header bytes (and, optionally, payload bytes)
	var cases []cdCase
	corrupt := func(f cdField, pos int, nb byte) {
		old := raw[pos]
		if nb == old {
			return
		}
		newlen := -1
		if f.n == 8 && f.name != "payload" {
			var b [8]byte
			copy(b[:], raw[f.pos:f.pos+8])
			b[pos-f.pos] = nb
			v := binary.BigEndian.Uint64(b[:])
			if v > math.MaxInt32 {
				newlen = math.MaxInt32
			} else {
				newlen = int(v)
			}
			// The decoders refuse lengths above readBytesLimit (512 MB; entry count above
			// readBytesLimit/8) with ErrExceedSizeLimit, but a damaged value BELOW the limit is
			// allocated before the read fails: up to 512 MB for a length, several GB for a
			// count.  That is bounded and intended; to keep the driver's children small such
			// cases (implied allocation above 64 MB, value within the limit) are not executed
			// but counted (skipped_large_alloc).  Everything above the limit IS executed and
			// must come back as an error.
			limit := rafthttp.VerifReadBytesLimit()
			if f.name == "count" && v*96 > 64<<20 && v <= limit/8 {
				d.nhuge++
				return
			}
			if (f.name == "entlen" || f.name == "fulllen" || f.name == "msglen") && v > 64<<20 && v <= limit {
				d.nhuge++
				return
			}
			if f.name != "commit" && v > limit {
				d.nhugeRun++
			}
		}
		cases = append(cases, cdCase{f: f, Pos: pos, Nb: nb, old: old, newlen: newlen})
	}
	for _, f := range fields {
		switch {
		case f.name == "type":
			for _, nb := range []byte{0, 1, 2, 3, 4, 0x7f, 0x80 | raw[f.pos], 0xff} {
				corrupt(f, f.pos, nb)
			}
		case f.name == "payload":
			if !payloadCorrupt {
				continue
			}
			n := f.n
			if n > 64 {
				n = 64
			}
			for i := 0; i < n; i++ {
				corrupt(f, f.pos+i, raw[f.pos+i]^(1<<uint(d.rng.Intn(8))))
			}
		default:
			for i := 0; i < f.n; i++ {
				for _, mask := range []byte{0x01, 0x04, 0x80} {
					corrupt(f, f.pos+i, raw[f.pos+i]^mask)
				}
			}
		}
	}
	// all corruption cases are decoded in child processes: a damaged byte can make the decoder
	// take the whole process down (see hugeChild), also indirectly (a changed type byte or
	// count makes payload bytes serve as length prefixes)
	results := d.runCases(s, raw, cases, nfr+2)
	for i, c := range cases {
		r := results[i]
		if r.Class == "notrun" {
			d.nnotrun++
			continue
		}
		d.ncorrupt++
		d.corruptClasses[r.Class]++
		d.corruptFields[c.f.name]++
		if r.Class == "crash" {
			d.ncrash++
		}
		if r.Class == "panic" {
			d.npanic++
		}
		d.tw.Emit(trace.M{"ev": "corrupt", "pos": c.Pos, "frame": c.f.frame, "field": c.f.name, "old": int(c.old), "new": int(c.Nb),
			"newlen": c.newlen, "remain": c.f.remain, "got": r.Got, "errclass": r.Class, "errtext": r.Text})
	}
}

func sortInts(a []int) { sort.Ints(a) }

type cdCase struct {
	f      cdField
	Pos    int
	Nb     byte
	old    byte
	newlen int
}

type cdResult struct {
	Got   []string
	Class string
	Text  string
}

type cdBatch struct {
	V2, Buffered  bool
	Local, Remote uint64
	Chunk         int
	Max           int
	Cases         []cdCase
}

// runCases decodes raw with one byte changed per case.  The work is done by child processes
// (address space limited to 16 GB) that handle the cases in order and print one result line
// each; when a child dies, the case it was working on is recorded as "crash" (a decoder that
// allocates what a damaged length prefix says can end the process with a fatal,
// unrecoverable out-of-memory error) and a new child continues behind it.
func (d *cdDrv) runCases(s *cdStream, raw []byte, cases []cdCase, max int) []cdResult {
	results := make([]cdResult, len(cases))
	if len(cases) == 0 {
		return results
	}
	if d.inproc {
		for i, c := range cases {
			raw[c.Pos] = c.Nb
			got, class, text := d.decodeAll(s, raw, max)
			raw[c.Pos] = c.old
			results[i] = cdResult{got, class, text}
		}
		return results
	}
	d.nbatch++
	base := filepath.Join(d.scratch, fmt.Sprintf("batch-%d-%d", os.Getpid(), d.nbatch))
	if err := ioutil.WriteFile(base+".bin", raw, 0644); err != nil {
		panic(err)
	}
	defer os.Remove(base + ".bin")
	defer os.Remove(base + ".json")
	next := 0
	for next < len(cases) {
		if d.ncrashRun >= 12 {
			// a decoder that dies this often needs no further demonstration; the remaining
			// cases are reported as not run
			for ; next < len(cases); next++ {
				results[next] = cdResult{[]string{}, "notrun", "too many crashes in this run"}
			}
			break
		}
		b, _ := json.Marshal(cdBatch{V2: s.v2, Buffered: s.buffered, Local: s.local, Remote: s.rem, Chunk: s.chunk, Max: max, Cases: cases[next:]})
		if err := ioutil.WriteFile(base+".json", b, 0644); err != nil {
			panic(err)
		}
		cmd := exec.Command("/bin/sh", "-c", fmt.Sprintf("ulimit -v 16777216; exec %q codecsim -child %q -o none", os.Args[0], base))
		var so, se bytes.Buffer
		cmd.Stdout, cmd.Stderr = &so, &se
		cmd.Run()
		d.nchild++
		done := 0
		for _, l := range strings.Split(so.String(), "\n") {
			if strings.HasPrefix(l, "R ") && next+done < len(cases) {
				var r cdResult
				if json.Unmarshal([]byte(l[2:]), &r) == nil {
					if r.Got == nil {
						r.Got = []string{}
					}
					results[next+done] = r
					done++
				}
			}
		}
		next += done
		if next < len(cases) {
			text := strings.SplitN(se.String(), "\n", 3)[0]
			if len(text) > 120 {
				text = text[:120]
			}
			results[next] = cdResult{[]string{}, "crash", text}
			d.ncrashRun++
			next++
		}
	}
	return results
}

func cdChild(base string) error {
	raw, err := ioutil.ReadFile(base + ".bin")
	if err != nil {
		return err
	}
	jb, err := ioutil.ReadFile(base + ".json")
	if err != nil {
		return err
	}
	var b cdBatch
	if err := json.Unmarshal(jb, &b); err != nil {
		return err
	}
	d := &cdDrv{}
	s := &cdStream{v2: b.V2, buffered: b.Buffered, local: b.Local, rem: b.Remote, chunk: b.Chunk}
	for _, c := range b.Cases {
		old := raw[c.Pos]
		raw[c.Pos] = c.Nb
		got, class, text := d.decodeAll(s, raw, b.Max)
		raw[c.Pos] = old
		o, _ := json.Marshal(cdResult{got, class, text})
		fmt.Printf("R %s\n", o)
	}
	return nil
}

// ------------------------------------------------------------------ (e) stream level: a real streamWriter

// cdConn is the harness's end of an outgoing connection: it keeps what the streamWriter
// wrote, cut into the pieces between two Flush calls
type cdConn struct {
	mu      sync.Mutex
	buf     []byte
	flushed int
	chunks  [][2]int // [start, end) of every flushed piece
	closed  bool
	flushc  chan struct{}
}

func newCdConn() *cdConn { return &cdConn{flushc: make(chan struct{}, 1<<16)} }

func (c *cdConn) Write(p []byte) (int, error) {
	c.mu.Lock()
	defer c.mu.Unlock()
	c.buf = append(c.buf, p...)
	return len(p), nil
}

func (c *cdConn) Flush() {
	c.mu.Lock()
	if len(c.buf) > c.flushed {
		c.chunks = append(c.chunks, [2]int{c.flushed, len(c.buf)})
		c.flushed = len(c.buf)
	}
	c.mu.Unlock()
	select {
	case c.flushc <- struct{}{}:
	default:
	}
}

func (c *cdConn) Close() error {
	c.mu.Lock()
	c.closed = true
	c.mu.Unlock()
	return nil
}

func (c *cdConn) nchunks() int {
	c.mu.Lock()
	defer c.mu.Unlock()
	return len(c.chunks)
}

func (c *cdConn) chunk(i int) []byte {
	c.mu.Lock()
	defer c.mu.Unlock()
	return c.buf[c.chunks[i][0]:c.chunks[i][1]]
}

// one connection of a stream-level scenario: what was handed to the writer and was written
type cdConnLog struct {
	cut       int              // with a real reader: the connection ended after this many bytes
	delivered []raftpb.Message // with a real reader: what it handed to raft from this connection
	bad       bool             // a hand-over timed out: the attribution is no longer certain, nothing is logged
	conn      *cdConn
	seen      int              // flushed pieces already attributed
	msgs      []raftpb.Message // per attributed piece: the message (a link heartbeat for the writer's own ones)
}

// streamScenario drives a real streamWriter: attach a connection, replicate (continuation
// mode on the msgappv2 stream), attach further connections while replicating, go on exactly
// where the sequence was.  Every connection becomes one trace segment: the frames written to
// it (in the order of the bytes) as `enc` events, then what a fresh real decoder - as
// streamReader.decodeLoop creates one per connection - reads from these bytes as `dec`
// events.  One message is handed over at a time and the writer's flush awaited, so that the
// attribution of flushed pieces to messages does not depend on timing; the writer's own
// link heartbeats are separate flushed pieces and are logged as what they are.
func (d *cdDrv) streamScenario(v2 bool, awaitHB bool, withReader bool) {
	const sender, receiver = 1, 2
	// the generic stream also carries snapshot-sized payloads now and then
	msgBig := 0.0
	if d.rng.Intn(3) == 0 {
		msgBig = 0.3
	}
	sw := rafthttp.VerifStartStreamWriter(types.ID(receiver))
	defer sw.Stop()
	hb := rafthttp.VerifLinkHeartbeatMessage()
	var hbRef []byte
	if v2 {
		hbRef = []byte{rafthttp.VerifMsgTypeLinkHeartbeat}
	} else {
		var b bytes.Buffer
		rafthttp.VerifNewMessageEncoder(&b).Encode(&hb)
		hbRef = b.Bytes()
	}
	var logs []*cdConnLog
	var cur *cdConnLog
	var curc chan<- raftpb.Message
	aborted := false
	// the reading end: a real streamReader whose dials are answered by the harness with the
	// bytes of one connection each, and a raft that records the Process calls
	var rec *cdRecRaft
	var rt *cdRT
	var pending chan io.ReadCloser
	if withReader {
		rec = &cdRecRaft{sig: make(chan struct{}, 1<<16)}
		rt = &cdRT{dialc: make(chan chan io.ReadCloser)}
		rd, err := rafthttp.VerifStartStreamReader(types.ID(receiver), types.ID(sender), v2, rt, rec)
		if err != nil {
			return
		}
		defer func() {
			if pending != nil {
				pending <- nil
			}
			rd.Stop()
		}()
	}
	waitDial := func() bool {
		if pending != nil {
			return true
		}
		select {
		case pending = <-rt.dialc:
			return true
		case <-time.After(30 * time.Second):
			return false
		}
	}
	// the connection just written ends after a seeded number of bytes (often inside a frame);
	// the reader gets exactly these bytes, then the end of the stream, and dials again
	readConn := func() {
		c := cur.conn
		c.mu.Lock()
		raw := append([]byte(nil), c.buf[:c.flushed]...)
		var ends []int
		for i := 0; i < cur.seen && i < len(c.chunks); i++ {
			ends = append(ends, c.chunks[i][1])
		}
		c.mu.Unlock()
		k := len(raw)
		switch d.rng.Intn(5) {
		case 0: // clean close behind the last frame
		case 1: // at a frame boundary
			if len(ends) > 0 {
				k = ends[d.rng.Intn(len(ends))]
			}
		default: // anywhere
			k = d.rng.Intn(len(raw) + 1)
		}
		cur.cut = k
		if !waitDial() {
			cur.bad, aborted = true, true
			return
		}
		before := rec.count()
		pending <- ioutil.NopCloser(&cdChunk{bytes.NewReader(raw[:k]), []int{0, 1, 7, 4096}[d.rng.Intn(4)]})
		pending = nil
		// the next dial tells that the reader is done with this connection
		if !waitDial() {
			cur.bad, aborted = true, true
			return
		}
		cur.delivered = rec.since(before)
		d.nconnCut++
	}
	// attribute the flushed pieces that have appeared on the current connection; returns
	// true when a piece that is not a link heartbeat was attributed to m
	collect := func(m *raftpb.Message) bool {
		for cur.seen < cur.conn.nchunks() {
			b := cur.conn.chunk(cur.seen)
			cur.seen++
			if bytes.Equal(b, hbRef) {
				cur.msgs = append(cur.msgs, hb)
				d.nstreamHB++
				continue
			}
			if m == nil {
				// a piece nobody asked for: keep it visible as an unknown frame
				cur.msgs = append(cur.msgs, raftpb.Message{Type: raftpb.MessageType(99)})
				continue
			}
			cur.msgs = append(cur.msgs, *m)
			return true
		}
		return false
	}
	attach := func() bool {
		old := curc
		c := newCdConn()
		if !sw.Attach(v2, c, c, c) {
			return false
		}
		if cur != nil {
			collect(nil)
			d.nreconnect++
		}
		// the writer swaps its queue when it closes the previous connection: wait for the new one
		deadline := time.Now().Add(30 * time.Second)
		for {
			ch, ok := sw.Writec()
			if ok && (old == nil || ch != old) {
				curc = ch
				break
			}
			if time.Now().After(deadline) {
				return false
			}
			time.Sleep(50 * time.Microsecond)
		}
		cur = &cdConnLog{conn: c}
		logs = append(logs, cur)
		d.nconn++
		return true
	}
	send := func(m raftpb.Message) {
		select {
		case curc <- m:
		default:
			d.nstreamDropped++
			return
		}
		deadline := time.After(30 * time.Second)
		for {
			if collect(&m) {
				d.nstreamMsg++
				return
			}
			select {
			case <-cur.conn.flushc:
			case <-deadline:
				// not written in time (an overloaded machine): which piece belongs to which
				// message is no longer certain, so this connection is not logged at all and
				// the scenario ends; never a verdict
				d.nstreamDropped++
				cur.bad = true
				aborted = true
				return
			}
		}
	}
	if !attach() {
		return
	}
	// the sequence: two groups replicating in lock-step (equal term and index), as freshly
	// created partitions do
	npairs := 1 + d.rng.Intn(2)
	term := uint64(1 + d.rng.Intn(3))
	index := make([]uint64, npairs)
	start := uint64(d.rng.Intn(4))
	for i := range index {
		index[i] = start
	}
	g := 0
	nconns := 2 + d.rng.Intn(2)
	for c := 0; c < nconns && !aborted; c++ {
		if c > 0 && !attach() {
			break
		}
		n := 3 + d.rng.Intn(5)
		for i := 0; i < n && !aborted; i++ {
			if awaitHB && c == 1 && i == 2 {
				// stay idle until the writer has sent a link heartbeat of its own
				// (ConnReadTimeout/3), then go on replicating
				before := d.nstreamHB
				for t0 := time.Now(); d.nstreamHB == before && time.Since(t0) < 4*time.Second; {
					collect(nil)
					time.Sleep(5 * time.Millisecond)
				}
			}
			if v2 {
				if npairs > 1 && d.rng.Intn(3) == 0 {
					g = 1 - g
				}
				ne := d.rng.Intn(3)
				if c > 0 && i == 0 && d.rng.Intn(4) != 0 {
					ne = 1 + d.rng.Intn(2) // usually: replication simply goes on after the re-attach
				}
				m := d.appMsg(cdPairs[g], term, term, index[g], ne, 1, index[g])
				if i == 0 && c == 0 {
					m.LogTerm = term - 1 + uint64(d.rng.Intn(2))
				}
				send(m)
				index[g] += uint64(ne)
			} else {
				m := d.rndMessage(msgBig)
				if withReader && rafthttp.VerifIsLinkHeartbeatMessage(&m) {
					m.From = 1 // the reader drops link heartbeats; keep them out of this stage
				}
				send(m)
			}
		}
		if withReader && !aborted {
			collect(nil)
			readConn()
		}
	}
	collect(nil)
	// the writer is stopped by the deferred Stop; now replay every connection as a segment
	if withReader {
		// a heartbeat of the writer's own timer would be dropped by the reader: such a (rare)
		// scenario is not logged
		for _, l := range logs {
			for i := range l.msgs {
				if rafthttp.VerifIsLinkHeartbeatMessage(&l.msgs[i]) {
					l.bad = true
				}
			}
			if l.bad {
				d.nstreamAborted++
				return
			}
		}
		d.tw.Emit(trace.M{"ev": "scenario", "stage": "conn"})
		d.nscenario++
	}
	for _, l := range logs {
		if l.bad {
			d.nstreamAborted++
			continue
		}
		s := &cdStream{v2: v2, buffered: true, local: receiver, rem: sender}
		s.rd = &cdReader{s: s}
		stream := "msg"
		if v2 {
			stream = "v2"
		}
		stage := "stream"
		if withReader {
			stage = "conn"
		}
		d.tw.Emit(trace.M{"ev": "reset", "stream": stream, "local": receiver, "remote": sender, "buffered": true, "stage": stage})
		d.nseg++
		for i := range l.msgs {
			b := l.conn.chunk(i)
			m := l.msgs[i]
			kind := "full"
			if v2 {
				switch b[0] {
				case rafthttp.VerifMsgTypeLinkHeartbeat:
					kind = "hb"
				case rafthttp.VerifMsgTypeAppEntries:
					kind = "cont"
				case rafthttp.VerifMsgTypeApp:
					kind = "full"
				default:
					kind = "unknown"
				}
			}
			switch kind {
			case "hb":
				d.nhb++
			case "cont":
				d.ncont++
			case "full":
				d.nfull++
			}
			s.out.Write(b)
			dig := cdDigest(&m)
			s.ends = append(s.ends, s.out.Len())
			s.sent = append(s.sent, m)
			s.sentDig = append(s.sentDig, dig)
			d.nenc++
			d.bytesTotal += int64(len(b))
			d.tw.Emit(trace.M{"ev": "enc", "m": cdMsgRec(&m, !v2), "dig": dig, "kind": kind, "nbytes": len(b), "err": ""})
		}
		if withReader {
			// what the real reader handed to raft from this connection, then the end it saw
			d.tw.Emit(trace.M{"ev": "cut", "k": l.cut})
			for i := range l.delivered {
				m := l.delivered[i]
				d.ndec++
				d.tw.Emit(trace.M{"ev": "dec", "m": cdMsgRec(&m, !v2), "dig": cdDigest(&m), "err": "", "errclass": "none"})
			}
			var z raftpb.Message
			d.tw.Emit(trace.M{"ev": "dec", "m": cdMsgRec(&z, !v2), "dig": "", "err": "reader dialled again", "errclass": "closed"})
			continue
		}
		s.dec = cdNewDecoder(v2, true, s.rd, receiver, sender)
		for d.decode(s) {
		}
		d.late(s)
	}
	if withReader {
		for i, m := range rec.since(0) {
			d.ndeliver++
			d.tw.Emit(trace.M{"ev": "deliver", "seq": i + 1, "dig": cdDigest(&m)})
		}
	}
}

// cdRecRaft records what a reader / handler hands to raft
type cdRecRaft struct {
	mu    sync.Mutex
	msgs  []raftpb.Message
	fails int
	sig   chan struct{}
}

func (r *cdRecRaft) Process(ctx context.Context, m raftpb.Message) error {
	r.mu.Lock()
	r.msgs = append(r.msgs, m)
	r.mu.Unlock()
	select {
	case r.sig <- struct{}{}:
	default:
	}
	return nil
}
func (r *cdRecRaft) IsPeerRemoved(id uint64) bool { return false }
func (r *cdRecRaft) ReportUnreachable(id uint64, group raftpb.Group) {
	r.mu.Lock()
	r.fails++
	r.mu.Unlock()
	select {
	case r.sig <- struct{}{}:
	default:
	}
}
func (r *cdRecRaft) ReportSnapshot(id uint64, group raftpb.Group, status raft.SnapshotStatus) {}
func (r *cdRecRaft) count() int {
	r.mu.Lock()
	defer r.mu.Unlock()
	return len(r.msgs)
}
func (r *cdRecRaft) since(n int) []raftpb.Message {
	r.mu.Lock()
	defer r.mu.Unlock()
	return append([]raftpb.Message(nil), r.msgs[n:]...)
}

// cdRT answers the dials of a real streamReader: every RoundTrip asks the harness for the
// body of the next connection
type cdRT struct{ dialc chan chan io.ReadCloser }

func (t *cdRT) RoundTrip(req *http.Request) (*http.Response, error) {
	rc := make(chan io.ReadCloser, 1)
	select {
	case t.dialc <- rc:
	case <-req.Context().Done():
		return nil, req.Context().Err()
	}
	select {
	case body := <-rc:
		if body == nil {
			return nil, fmt.Errorf("no more connections")
		}
		h := http.Header{}
		h.Set("X-Server-Version", rafthttp.VerifServerVersion())
		return &http.Response{StatusCode: http.StatusOK, Header: h, Body: body, Request: req}, nil
	case <-req.Context().Done():
		return nil, req.Context().Err()
	}
}

// ------------------------------------------------------------------ (f) the POST paths: pipeline and snapshot

type cdSaver struct {
	mu   sync.Mutex
	last string
}

func (s *cdSaver) SaveDBFrom(r io.Reader, m raftpb.Message) (int64, error) {
	b, err := ioutil.ReadAll(r)
	s.mu.Lock()
	s.last = cdCRC(b)
	s.mu.Unlock()
	return int64(len(b)), err
}

// a request body that ends early the way net/http reports a connection cut inside the body
type cdShortBody struct {
	r io.Reader
}

func (b *cdShortBody) Read(p []byte) (int, error) {
	n, err := b.r.Read(p)
	if err == io.EOF {
		err = io.ErrUnexpectedEOF
	}
	return n, err
}
func (b *cdShortBody) Close() error { return nil }

func cdPostReq(path string, body io.ReadCloser) *http.Request {
	req := httptest.NewRequest("POST", "http://127.0.0.1:1"+path, body)
	req.Header.Set("X-Server-From", "1")
	req.Header.Set("X-Server-Version", rafthttp.VerifServerVersion())
	req.Header.Set("X-Min-Cluster-Version", rafthttp.VerifServerVersion())
	req.Header.Set("X-Etcd-Cluster-ID", "1")
	return req
}

// postStage: every POST is one self-contained frame with fresh state: one segment each.
//   - messages of all types through a REAL pipeline (pbutil.MustMarshal posted by
//     pipeline.post) to the REAL pipelineHandler behind an httptest server
//   - handler level: the same body cut at seeded offsets (the body reader then fails the way
//     net/http does) - nothing may reach raft
//   - nsnap snapshot posts: createSnapBody (messageEncoder + database bytes) to the REAL
//     snapshotHandler (messageDecoder + SaveDBFrom), and cuts of that body
func (d *cdDrv) postStage(n, nsnap int) {
	recv := &cdRecRaft{sig: make(chan struct{}, 1<<16)}
	sendr := &cdRecRaft{sig: make(chan struct{}, 1<<16)}
	saver := &cdSaver{}
	ph := rafthttp.VerifNewPipelineHandler(recv)
	sh := rafthttp.VerifNewSnapshotHandler(recv, saver)
	mux := http.NewServeMux()
	mux.Handle(rafthttp.RaftPrefix, ph)
	mux.Handle(rafthttp.RaftSnapshotPrefix, sh)
	srv := httptest.NewServer(mux)
	defer srv.Close()
	rt := &http.Transport{}
	defer rt.CloseIdleConnections()
	pl, err := rafthttp.VerifStartPipeline(1, 2, srv.URL, rt, sendr)
	if err != nil {
		return
	}
	defer pl.Stop()
	reset := func(stage string) {
		d.tw.Emit(trace.M{"ev": "reset", "stream": "msg", "local": 2, "remote": 1, "buffered": false, "stage": stage})
		d.nseg++
	}
	encEv := func(m *raftpb.Message, rest string, nbytes int) string {
		rec := cdMsgRec(m, true)
		rec["rest"] = rec["rest"].(string) + rest
		b, _ := json.Marshal(rec)
		h := sha1.Sum(b)
		dig := hex.EncodeToString(h[:8])
		d.nenc++
		d.nfull++
		d.tw.Emit(trace.M{"ev": "enc", "m": rec, "dig": dig, "kind": "full", "nbytes": nbytes, "err": ""})
		return dig
	}
	decEv := func(m *raftpb.Message, rest string) {
		rec := cdMsgRec(m, true)
		rec["rest"] = rec["rest"].(string) + rest
		b, _ := json.Marshal(rec)
		h := sha1.Sum(b)
		d.ndec++
		d.tw.Emit(trace.M{"ev": "dec", "m": rec, "dig": hex.EncodeToString(h[:8]), "err": "", "errclass": "none"})
	}
	errEv := func(text string) {
		var z raftpb.Message
		d.ndec++
		d.tw.Emit(trace.M{"ev": "dec", "m": cdMsgRec(&z, true), "dig": "", "err": text, "errclass": "other"})
	}
	waitOne := func(r *cdRecRaft, before int) bool {
		deadline := time.After(30 * time.Second)
		for r.count() == before {
			select {
			case <-r.sig:
			case <-deadline:
				return false
			}
		}
		return true
	}
	// cut bodies through the handler itself (synchronous, so nothing depends on timing)
	cuts := func(h http.Handler, path string, body []byte, dig string, ncut int) {
		ks := map[int]bool{1: true, len(body) - 1: true, 8: true, 9: true}
		for i := 0; i < ncut; i++ {
			ks[1+d.rng.Intn(len(body)-1)] = true
		}
		order := []int{}
		for k := range ks {
			if k > 0 && k < len(body) {
				order = append(order, k)
			}
		}
		sort.Ints(order)
		for _, k := range order {
			before := recv.count()
			w := httptest.NewRecorder()
			func() {
				defer func() {
					if r := recover(); r != nil {
						d.panicEv("handler", r)
					}
				}()
				h.ServeHTTP(w, cdPostReq(path, &cdShortBody{bytes.NewReader(body[:k])}))
			}()
			got := []string{}
			class := "other"
			if path == rafthttp.RaftSnapshotPrefix && w.Code < 300 {
				// the handler hands the message to raft from a goroutine
				waitOne(recv, before)
			}
			for _, m := range recv.since(before) {
				mm := m
				got = append(got, cdDigest(&mm))
			}
			if w.Code < 300 {
				class = "none"
			}
			d.ntrunc++
			d.truncClasses[class]++
			d.tw.Emit(trace.M{"ev": "trunc", "k": k, "got": got, "errclass": class, "errtext": fmt.Sprintf("HTTP %d", w.Code)})
		}
	}
	for i := 0; i < n; i++ {
		var m raftpb.Message
		switch d.rng.Intn(8) {
		case 0:
			m = d.rndMessage(0.5)
		case 1: // around the handler's read-chunk limit of 64 KB
			m = d.rndMessage(0)
			m.Entries = append(m.Entries, raftpb.Entry{Index: 1, Term: 1})
			d.sizeMessage(&m, 65536-2+d.rng.Intn(5))
		default:
			m = d.rndMessage(0.02)
		}
		if rafthttp.VerifIsLinkHeartbeatMessage(&m) {
			m.From = 1
		}
		reset("post")
		encEv(&m, "", m.Size())
		before, fbefore := recv.count(), sendr.fails
		pl.Msgc() <- m
		// either the receiving raft got it or the sending raft was told the peer is unreachable
		deadline := time.After(30 * time.Second)
		ok := false
	wait:
		for {
			if recv.count() > before {
				ok = true
				break
			}
			sendr.mu.Lock()
			f := sendr.fails
			sendr.mu.Unlock()
			if f > fbefore {
				break
			}
			select {
			case <-recv.sig:
			case <-sendr.sig:
			case <-deadline:
				break wait
			}
		}
		d.npost++
		if ok {
			got := recv.since(before)
			decEv(&got[0], "")
		} else {
			errEv("post failed")
		}
		if i%6 == 0 {
			body, _ := m.Marshal()
			if len(body) > 2 {
				cuts(ph, rafthttp.RaftPrefix, body, "", 6)
			}
		}
	}
	for i := 0; i < nsnap; i++ {
		m := d.rndMessage(0)
		m.Type = raftpb.MsgSnap
		m.ToGroup.GroupId = uint64(1000 + i) // the handler accepts one transfer per group at a time
		m.Snapshot.Metadata.Index, m.Snapshot.Metadata.Term = d.u64(), d.u64()
		data := d.bytesOf(1 + d.rng.Intn(300000))
		if i%2 == 1 {
			data = d.bytesOf(cdBuf + d.rng.Intn(1000))
		}
		var frame bytes.Buffer
		rafthttp.VerifNewMessageEncoder(&frame).Encode(&m)
		total := frame.Len() + len(data)
		reset("snapshot")
		encEv(&m, " body="+cdCRC(data), total)
		before := recv.count()
		code, err := rafthttp.VerifPostSnapshot(1, srv.URL, rt, m, data)
		d.nsnappost++
		if err == nil && code < 300 && waitOne(recv, before) {
			got := recv.since(before)
			saver.mu.Lock()
			saved := saver.last
			saver.mu.Unlock()
			decEv(&got[0], " body="+saved)
		} else {
			errEv(fmt.Sprintf("HTTP %d %v", code, err))
		}
		// cuts inside the message frame and inside the database bytes (error paths only: the
		// handler's success path sleeps a second)
		body := append(append([]byte(nil), frame.Bytes()...), data...)
		m2 := m
		m2.ToGroup.GroupId += 500
		cuts(sh, rafthttp.RaftSnapshotPrefix, body, "", 4)
	}
}

// ------------------------------------------------------------------ (g) bursts: the writer's batch loop

// cdGated is an outgoing connection whose Write blocks until the gate is opened; the first
// Write call is announced on `stalled`
type cdGated struct {
	mu      sync.Mutex
	buf     []byte
	gate    chan struct{}
	stalled chan struct{}
	once    sync.Once
}

func (c *cdGated) Write(p []byte) (int, error) {
	c.once.Do(func() { close(c.stalled) })
	<-c.gate
	c.mu.Lock()
	c.buf = append(c.buf, p...)
	c.mu.Unlock()
	return len(p), nil
}
func (c *cdGated) Flush()       {}
func (c *cdGated) Close() error { return nil }
func (c *cdGated) bytes() []byte {
	c.mu.Lock()
	defer c.mu.Unlock()
	return append([]byte(nil), c.buf...)
}

// cdSplit cuts a recorded stream into frames by the documented formats (it only finds the
// boundaries; the real decoder reads the content)
func cdSplit(v2 bool, raw []byte) (ends []int) {
	p := 0
	for p < len(raw) {
		q := p
		if !v2 {
			if p+8 > len(raw) {
				break
			}
			q = p + 8 + int(binary.BigEndian.Uint64(raw[p:]))
		} else {
			switch raw[p] {
			case rafthttp.VerifMsgTypeLinkHeartbeat:
				q = p + 1
			case rafthttp.VerifMsgTypeAppEntries:
				if p+9 > len(raw) {
					return
				}
				n := int(binary.BigEndian.Uint64(raw[p+1:]))
				q = p + 9
				for i := 0; i < n; i++ {
					if q+8 > len(raw) {
						return
					}
					q += 8 + int(binary.BigEndian.Uint64(raw[q:]))
				}
				q += 8
			case rafthttp.VerifMsgTypeApp:
				if p+9 > len(raw) {
					return
				}
				q = p + 9 + int(binary.BigEndian.Uint64(raw[p+1:]))
			default:
				return
			}
		}
		if q > len(raw) || q <= p {
			break
		}
		ends = append(ends, q)
		p = q
	}
	return
}

// burstScenario: a real streamWriter is stalled inside a Write (a slow peer), n messages are
// queued meanwhile - every one handed over with a blocking send, as many as the queue holds
// before the writer is released, the rest behind it -, then the connection is released.
// Everything that was handed over has to be on the connection, in order: the frames found
// on it are attributed, in order, to the messages handed over (the writer's own heartbeats
// are recognised by their bytes), and a fresh real decoder reads the bytes back.  The log is
// cut into segments of 100 frames (all frames are self-contained here: on the msgappv2
// stream two groups alternate, so no continuation frame is due).
func (d *cdDrv) burstScenario(v2 bool, n int) {
	const sender, receiver = 1, 2
	sw := rafthttp.VerifStartStreamWriter(types.ID(receiver))
	defer sw.Stop()
	c := &cdGated{gate: make(chan struct{}), stalled: make(chan struct{})}
	if !sw.Attach(v2, c, c, c) {
		return
	}
	var q chan<- raftpb.Message
	for t0 := time.Now(); ; {
		ch, ok := sw.Writec()
		if ok {
			q = ch
			break
		}
		if time.Since(t0) > 30*time.Second {
			return
		}
		time.Sleep(50 * time.Microsecond)
	}
	mk := func(i int) raftpb.Message {
		if v2 {
			m := d.appMsg(cdPairs[i%2], 3, 3, uint64(i), 0, 1, uint64(i))
			if i%64 == 5 {
				m = d.appMsg(cdPairs[i%2], 3, 3, uint64(i), 1, 1, uint64(i))
			}
			return m
		}
		m := raftpb.Message{Type: cdAllTypes[2+i%(len(cdAllTypes)-2)], From: 1, To: 2, Term: 3, Index: uint64(i), Commit: uint64(i) / 2}
		if rafthttp.VerifIsLinkHeartbeatMessage(&m) {
			m.From = 1
		}
		return m
	}
	msgs := make([]raftpb.Message, 0, n+1)
	msgs = append(msgs, mk(0))
	q <- msgs[0]
	// the writer has taken the first message and is now provably inside Write
	select {
	case <-c.stalled:
	case <-time.After(30 * time.Second):
		return
	}
	for i := 1; i <= n; i++ {
		msgs = append(msgs, mk(i))
	}
	// hand over as many as the queue takes while the writer is stalled, release it, and hand
	// over the rest behind (always a blocking send, nothing is ever dropped on this side)
	first := n
	if first > cap(q) {
		first = cap(q)
	}
	for i := 1; i <= first; i++ {
		q <- msgs[i]
	}
	close(c.gate)
	fed := make(chan struct{})
	go func() {
		for i := first + 1; i <= n; i++ {
			q <- msgs[i]
		}
		close(fed)
	}()
	hb := rafthttp.VerifLinkHeartbeatMessage()
	var hbRef []byte
	if v2 {
		hbRef = []byte{rafthttp.VerifMsgTypeLinkHeartbeat}
	} else {
		var b bytes.Buffer
		rafthttp.VerifNewMessageEncoder(&b).Encode(&hb)
		hbRef = b.Bytes()
	}
	count := func(raw []byte) (ends []int, nmsg int) {
		ends = cdSplit(v2, raw)
		st := 0
		for _, e := range ends {
			if !bytes.Equal(raw[st:e], hbRef) {
				nmsg++
			}
			st = e
		}
		return
	}
	// wait until every message is on the connection; give up when the queue is empty and
	// nothing has arrived for a while (then only what arrived is logged: on an overloaded
	// machine that loses the tail of the log, never a verdict)
	var raw []byte
	var ends []int
	lastLen, lastGrow := -1, time.Now()
	for t0 := time.Now(); ; time.Sleep(2 * time.Millisecond) {
		raw = c.bytes()
		var nmsg int
		ends, nmsg = count(raw)
		if nmsg >= n+1 {
			break
		}
		if len(raw) != lastLen {
			lastLen, lastGrow = len(raw), time.Now()
		}
		idle := time.Since(lastGrow)
		select {
		case <-fed:
			if len(q) == 0 && idle > 3*time.Second {
				goto done
			}
		default:
		}
		if time.Since(t0) > 90*time.Second {
			goto done
		}
	}
done:
	d.nburst++
	d.burstSizes = append(d.burstSizes, n)
	// attribute frames to messages and log in segments
	dec := cdNewDecoder(v2, true, bytes.NewReader(raw), receiver, sender)
	stream := "msg"
	if v2 {
		stream = "v2"
	}
	next, st := 0, 0
	for i, e := range ends {
		if i%100 == 0 {
			d.tw.Emit(trace.M{"ev": "reset", "stream": stream, "local": receiver, "remote": sender, "buffered": true, "stage": "burst"})
			d.nseg++
		}
		b := raw[st:e]
		st = e
		var m raftpb.Message
		if bytes.Equal(b, hbRef) {
			m = hb
		} else if next < len(msgs) {
			m = msgs[next]
			next++
			d.nburstMsg++
		} else {
			m = raftpb.Message{Type: raftpb.MessageType(99)} // a frame nobody handed over
		}
		kind := "full"
		if v2 {
			switch b[0] {
			case rafthttp.VerifMsgTypeLinkHeartbeat:
				kind = "hb"
			case rafthttp.VerifMsgTypeAppEntries:
				kind = "cont"
			}
		}
		d.nenc++
		d.tw.Emit(trace.M{"ev": "enc", "m": cdMsgRec(&m, !v2), "dig": cdDigest(&m), "kind": kind, "nbytes": len(b), "err": ""})
		var got raftpb.Message
		var err error
		func() {
			defer func() {
				if r := recover(); r != nil {
					d.panicEv("decode", r)
					err = fmt.Errorf("panic")
				}
			}()
			got, err = dec.Decode()
		}()
		d.ndec++
		if err != nil {
			var z raftpb.Message
			d.tw.Emit(trace.M{"ev": "dec", "m": cdMsgRec(&z, !v2), "dig": "", "err": cdErrText(err), "errclass": cdErrClass(err)})
			break
		}
		d.tw.Emit(trace.M{"ev": "dec", "m": cdMsgRec(&got, !v2), "dig": cdDigest(&got), "err": "", "errclass": "none"})
	}
	d.nburstMissing += len(msgs) - next
}

// ------------------------------------------------------------------ (h) transfer status reports

// cdRepRaft is the raft of either end in the transfer-status stage: the sender's gets the
// reports, the receiver's the messages
type cdRepRaft struct {
	mu             sync.Mutex
	fin, fail, unr int
	procs          map[uint64]raftpb.Message // by ToGroup.GroupId
	refuse         map[uint64]bool           // Process returns an error for these groups
	sig            chan struct{}
}

func newCdRepRaft() *cdRepRaft {
	return &cdRepRaft{procs: map[uint64]raftpb.Message{}, refuse: map[uint64]bool{}, sig: make(chan struct{}, 1024)}
}
func (r *cdRepRaft) ping() {
	select {
	case r.sig <- struct{}{}:
	default:
	}
}
func (r *cdRepRaft) Process(ctx context.Context, m raftpb.Message) error {
	r.mu.Lock()
	defer r.mu.Unlock()
	if r.refuse[m.ToGroup.GroupId] {
		return fmt.Errorf("raft refuses the message")
	}
	r.procs[m.ToGroup.GroupId] = m
	return nil
}
func (r *cdRepRaft) IsPeerRemoved(id uint64) bool { return false }
func (r *cdRepRaft) ReportUnreachable(id uint64, group raftpb.Group) {
	r.mu.Lock()
	r.unr++
	r.mu.Unlock()
	r.ping()
}
func (r *cdRepRaft) ReportSnapshot(id uint64, group raftpb.Group, status raft.SnapshotStatus) {
	r.mu.Lock()
	if status == raft.SnapshotFinish {
		r.fin++
	} else {
		r.fail++
	}
	r.mu.Unlock()
	r.ping()
}
func (r *cdRepRaft) reports() (fin, fail, unr int) {
	r.mu.Lock()
	defer r.mu.Unlock()
	return r.fin, r.fail, r.unr
}

type cdRepSaver struct {
	mu   sync.Mutex
	crc  map[uint64]string
	ok   map[uint64]bool
	fail map[uint64]bool
}

func (s *cdRepSaver) SaveDBFrom(r io.Reader, m raftpb.Message) (int64, error) {
	b, err := ioutil.ReadAll(r)
	g := m.ToGroup.GroupId
	s.mu.Lock()
	defer s.mu.Unlock()
	if s.fail[g] {
		return int64(len(b) / 2), fmt.Errorf("no space left on device")
	}
	s.crc[g] = cdCRC(b)
	s.ok[g] = err == nil
	return int64(len(b)), err
}

// cdFaultRT injects one fault into the transfer request that passes through it (status
// check requests pass unless the fault is check-error)
type cdFaultRT struct {
	base  http.RoundTripper
	fault string
	k     int
	done  chan struct{}
}

type cdCutBody struct {
	rc   io.ReadCloser
	left int
}

func (b *cdCutBody) Read(p []byte) (int, error) {
	if b.left <= 0 {
		return 0, io.ErrUnexpectedEOF
	}
	if len(p) > b.left {
		p = p[:b.left]
	}
	n, err := b.rc.Read(p)
	b.left -= n
	return n, err
}
func (b *cdCutBody) Close() error { return b.rc.Close() }

func (t *cdFaultRT) RoundTrip(req *http.Request) (*http.Response, error) {
	if req.URL.Path == rafthttp.RaftSnapshotCheckPrefix {
		if t.fault == "check-error" {
			return nil, fmt.Errorf("connection refused")
		}
		return t.base.RoundTrip(req)
	}
	defer func() {
		select {
		case t.done <- struct{}{}:
		default:
		}
	}()
	switch t.fault {
	case "rt-error":
		if req.Body != nil {
			req.Body.Close()
		}
		return nil, fmt.Errorf("connection refused")
	case "resp-500":
		if req.Body != nil {
			req.Body.Close()
		}
		return &http.Response{StatusCode: 500, Status: "500 Internal Server Error", Header: http.Header{},
			Body: ioutil.NopCloser(bytes.NewReader(nil)), Request: req}, nil
	case "cut-body":
		req.Body = &cdCutBody{req.Body, t.k}
		return t.base.RoundTrip(req)
	case "resp-error":
		resp, err := t.base.RoundTrip(req)
		if err == nil {
			ioutil.ReadAll(resp.Body)
			resp.Body.Close()
			return nil, fmt.Errorf("connection reset by peer")
		}
		return resp, err
	}
	return t.base.RoundTrip(req)
}

// reportStage: what the SENDER's raft is told about a transfer against what the RECEIVER
// got.  Real sender/handler pairs over an httptest server: the real pipeline (MsgApp and
// MsgSnap) -> pipelineHandler, the real snapshotSender (createSnapBody, post, status polling)
// -> snapshotHandler with a recording saver.  One fault per transfer: none, the round trip
// fails, the request body is cut after k bytes, the response is lost, a 5xx answer, raft
// refuses the message, the saver fails, the status check fails.  One `report` line each;
// ZCodecTrace OnReport decides.  nfast transfers whose outcome is known at once, nslow
// snapshotSender transfers that reach the status polling (5 s ticker, handler sleeps 1 s):
// these run concurrently.
func (d *cdDrv) reportStage(nfast, nslow int) {
	recv := newCdRepRaft()
	saver := &cdRepSaver{crc: map[uint64]string{}, ok: map[uint64]bool{}, fail: map[uint64]bool{}}
	var inflight sync.WaitGroup
	wrap := func(h http.Handler) http.Handler {
		return http.HandlerFunc(func(w http.ResponseWriter, r *http.Request) {
			inflight.Add(1)
			defer inflight.Done()
			h.ServeHTTP(w, r)
		})
	}
	sh := wrap(rafthttp.VerifNewSnapshotHandler(recv, saver))
	mux := http.NewServeMux()
	mux.Handle(rafthttp.RaftPrefix, wrap(rafthttp.VerifNewPipelineHandler(recv)))
	mux.Handle(rafthttp.RaftSnapshotPrefix, sh)
	mux.Handle(rafthttp.RaftSnapshotCheckPrefix, sh)
	srv := httptest.NewServer(mux)
	defer srv.Close()
	base := &http.Transport{}
	defer base.CloseIdleConnections()
	var emitMu sync.Mutex
	gid := uint64(5000)
	type tcase struct {
		kind, fault string
		k           int
		g           uint64
	}
	run := func(c tcase, rng *rand.Rand) {
		sendr := newCdRepRaft()
		rt := &cdFaultRT{base: base, fault: c.fault, k: c.k, done: make(chan struct{}, 4)}
		m := raftpb.Message{Type: raftpb.MsgApp, From: 1, To: 2, Term: 5, LogTerm: 4, Index: uint64(rng.Intn(1000)), Commit: 3,
			FromGroup: cdGroup(1, 7, 1), ToGroup: raftpb.Group{NodeId: 2, GroupId: c.g, RaftReplicaId: 2, Name: "ns-r"}}
		var data []byte
		if c.kind != "pipe-app" {
			m.Type = raftpb.MsgSnap
			m.Snapshot.Metadata.Index, m.Snapshot.Metadata.Term = uint64(1+rng.Intn(1000)), 4
			m.Snapshot.Metadata.ConfState.Nodes = []uint64{1, 2, 3}
		} else {
			m.Entries = []raftpb.Entry{{Index: m.Index + 1, Term: 5, Data: make([]byte, 200+rng.Intn(3000))}}
		}
		if c.kind == "snap" {
			data = make([]byte, 2000+rng.Intn(60000))
			rng.Read(data)
		}
		sentcrc := cdCRC(data)
		recv.mu.Lock()
		recv.refuse[c.g] = c.fault == "process-fail"
		recv.mu.Unlock()
		saver.mu.Lock()
		saver.fail[c.g] = c.fault == "saver-fail"
		saver.mu.Unlock()
		timedOut := false
		if c.kind == "snap" {
			ss, err := rafthttp.VerifNewSnapshotSender(1, 2, srv.URL, rt, sendr)
			if err != nil {
				return
			}
			ss.Send(m, data)
			// failure reports are made before send returns; a success report comes from the
			// status polling (5 s ticker; its request times out after 5 s and is then a failure)
			deadline := time.After(45 * time.Second)
			for {
				fin, fail, _ := sendr.reports()
				if fin+fail > 0 {
					break
				}
				select {
				case <-sendr.sig:
				case <-deadline:
					timedOut = true
				}
				if timedOut {
					break
				}
			}
			time.Sleep(20 * time.Millisecond) // a second report, if any, would follow at once
			ss.Stop()
		} else {
			pl, err := rafthttp.VerifStartPipeline(1, 2, srv.URL, rt, sendr)
			if err != nil {
				return
			}
			pl.Msgc() <- m
			select {
			case <-rt.done:
			case <-time.After(90 * time.Second):
				timedOut = true
			}
			pl.Stop() // returns when the worker has finished its reports
		}
		inflight.Wait()
		fin, fail, unr := sendr.reports()
		recv.mu.Lock()
		got, processed := recv.procs[c.g]
		recv.mu.Unlock()
		saved := processed
		if c.kind == "snap" {
			saver.mu.Lock()
			saved = saver.ok[c.g] && saver.crc[c.g] == sentcrc
			saver.mu.Unlock()
		}
		recvdig := ""
		if processed {
			recvdig = cdDigest(&got)
		}
		emitMu.Lock()
		defer emitMu.Unlock()
		if timedOut && c.kind != "snap" {
			d.nreportSkipped++ // the machine did not get to it: not a case
			return
		}
		d.tw.Emit(trace.M{"ev": "reset", "stream": "msg", "local": 2, "remote": 1, "buffered": false, "stage": "report"})
		d.nseg++
		d.nreport++
		d.reportKinds[c.kind+"/"+c.fault]++
		d.tw.Emit(trace.M{"ev": "report", "kind": c.kind, "fault": c.fault, "k": c.k, "sentdig": cdDigest(&m), "recvdig": recvdig,
			"processed": processed, "saved": saved, "finish": fin, "failure": fail, "unreachable": unr})
	}
	fastFaults := map[string][]string{
		"pipe-app":  {"none", "rt-error", "cut-body", "resp-error", "resp-500", "process-fail"},
		"pipe-snap": {"none", "rt-error", "cut-body", "resp-error", "resp-500", "process-fail"},
		"snap":      {"rt-error", "cut-body", "cut-body", "resp-500", "saver-fail", "resp-error"},
	}
	kinds := []string{"pipe-app", "pipe-snap", "snap"}
	for i := 0; i < nfast; i++ {
		kind := kinds[i%3]
		fs := fastFaults[kind]
		c := tcase{kind: kind, fault: fs[(i/3)%len(fs)], g: gid}
		gid++
		if c.fault == "cut-body" {
			c.k = 1 + d.rng.Intn(150)
			if kind == "snap" && d.rng.Intn(2) == 0 {
				c.k = 400 + d.rng.Intn(1500) // inside the database bytes
			}
		}
		run(c, d.rng)
	}
	// transfers that reach the status polling, concurrently (each waits for the 5 s ticker)
	var wg sync.WaitGroup
	for i := 0; i < nslow; i++ {
		c := tcase{kind: "snap", fault: []string{"none", "none", "check-error"}[i%3], g: gid}
		gid++
		rng := rand.New(rand.NewSource(d.rng.Int63()))
		wg.Add(1)
		go func() {
			defer wg.Done()
			run(c, rng)
		}()
	}
	wg.Wait()
}

// ------------------------------------------------------------------ main

func codecsim(args []string) error {
	fs := flag.NewFlagSet("codecsim", flag.ContinueOnError)
	dot := fs.String("dot", "", "state graph of MC_ZCodec_walk (dot, actionlabels)")
	limit := fs.Int("limit", 0, "graph walk: stop after this many steps (0 = cover every edge)")
	nrandom := fs.Int("random", 0, "random msgappv2 sequences")
	nmsg := fs.Int("msg", 0, "random generic-stream sequences")
	nstream := fs.Int("stream", 0, "stream-level scenarios: a real streamWriter with re-attached connections")
	nconn := fs.Int("conn", 0, "stream-level scenarios with a real streamReader: connections cut at a seeded byte, re-attach")
	npost := fs.Int("post", 0, "messages posted through a real pipeline to the real pipelineHandler (+ cut bodies)")
	nsnap := fs.Int("snap", 0, "snapshot posts (createSnapBody) to the real snapshotHandler (+ cut bodies)")
	burst := fs.String("burst", "", "burst sizes relative to the writer's queue, comma separated: h-1,h,h+1,h+2,h+3,m,c-1,c,c+1 (h = half the queue = flush batch, m = 3/4, c = capacity); each on both stream types")
	nreport := fs.Int("report", 0, "transfer-status cases with an immediate outcome (pipeline, snapshotSender failures)")
	nreportok := fs.Int("reportok", 0, "snapshotSender transfers that reach the status polling (slow: 5 s ticker), run concurrently")
	nexplore := fs.Int("explore", 0, "streams explored byte by byte (truncation, corruption)")
	full := fs.Bool("full", false, "explore every truncation point of streams up to 32 KB and 10x the samples of larger ones")
	payload := fs.Bool("payload", false, "also corrupt payload bytes")
	length := fs.Int("len", 30, "messages per random sequence")
	bigp := fs.Float64("big", 0.08, "probability of a large entry")
	seed := fs.Int64("seed", 1, "seed")
	out := fs.String("o", "", "trace file")
	huge := fs.Int("huge", 0, "corruptions producing a huge length that are run in a child process (per run)")
	child := fs.String("child", "", "(internal) decode the cases of this batch and print the results")
	inproc := fs.Bool("inproc", false, "decode corrupted streams in this process (debugging only: may die)")
	if err := fs.Parse(args); err != nil {
		return err
	}
	if *child != "" {
		return cdChild(*child)
	}
	if *out == "" {
		return fmt.Errorf("-o required")
	}
	tw, err := trace.Create(*out)
	if err != nil {
		return err
	}
	defer tw.Close()
	d := &cdDrv{tw: tw, rng: rand.New(rand.NewSource(*seed)), truncClasses: map[string]int{},
		corruptClasses: map[string]int{}, corruptFields: map[string]int{}, hugeLeft: *huge, scratch: filepath.Dir(*out), inproc: *inproc}
	for i := 0; i < 3; i++ {
		b := make([]byte, 2*cdBuf)
		d.rng.Read(b)
		d.big = append(d.big, b)
	}
	sum := map[string]interface{}{"driver": "codecsim", "seed": *seed, "bufsize": cdBuf, "read_limit": rafthttp.VerifReadBytesLimit()}
	if *dot != "" {
		g, err := graph.Load(*dot)
		if err != nil {
			return err
		}
		steps, covered, err := d.walk(g, *limit)
		if err != nil {
			return err
		}
		sum["mode"] = "graph"
		sum["edges"] = len(g.Edges)
		sum["edges_covered"] = covered
		sum["steps"] = steps
	}
	for i := 0; i < *nrandom; i++ {
		local, remote := uint64(2), uint64(1)
		stage := "random"
		if i%10 == 9 {
			// the reader belongs to another node pair: a continuation must be refused
			if d.rng.Intn(2) == 0 {
				local = 3
			} else {
				remote = 4
			}
			stage = "random-mismatch"
		}
		s := d.newStream(true, true, local, remote, stage)
		if i%25 == 7 {
			d.v2MessageSizes(s)
		} else if i%20 == 3 {
			d.v2ResendAfterBig(s)
		} else {
			d.randomV2(s, *length, *bigp)
		}
	}
	for i := 0; i < *nmsg; i++ {
		s := d.newStream(false, d.rng.Intn(2) == 0, 2, 1, "msg")
		d.randomMsg(s, *length, *bigp)
	}
	if *nstream > 0 {
		rafthttp.SetLogLevel(0)
	}
	if *nconn > 0 || *npost > 0 || *nsnap > 0 {
		rafthttp.SetLogLevel(0)
	}
	d.reportKinds = map[string]int{}
	if *nreport > 0 || *nreportok > 0 {
		rafthttp.SetLogLevel(0)
		d.reportStage(*nreport, *nreportok)
	}
	if *burst != "" {
		rafthttp.SetLogLevel(0)
		c := rafthttp.VerifStreamBufSize
		for _, w := range strings.Split(*burst, ",") {
			n, ok := map[string]int{"h-1": c/2 - 1, "h": c / 2, "h+1": c/2 + 1, "h+2": c/2 + 2, "h+3": c/2 + 3, "h+9": c/2 + 9,
				"m": c * 3 / 4, "c-1": c - 1, "c": c, "c+1": c + 1, "c+9": c + 9}[strings.TrimSpace(w)]
			if !ok {
				return fmt.Errorf("unknown burst size %q", w)
			}
			d.burstScenario(true, n)
			d.burstScenario(false, n)
		}
	}
	for i := 0; i < *nconn; i++ {
		d.streamScenario(i%3 != 2, false, true)
	}
	if *npost > 0 || *nsnap > 0 {
		d.postStage(*npost, *nsnap)
	}
	for i := 0; i < *nstream; i++ {
		// the first msgappv2 scenario (and with many scenarios the first generic one) waits for
		// a heartbeat of the writer's own timer
		d.streamScenario(i%3 != 2, i == 0 || (i == 2 && *nstream >= 100), false)
	}
	for i := 0; i < *nexplore; i++ {
		v2 := i%3 != 2
		bp := 0.0
		if i%4 == 3 {
			bp = 0.15
		}
		var s *cdStream
		if v2 {
			s = d.newStream(true, true, 2, 1, "explore")
			d.randomV2(s, 4+d.rng.Intn(6), bp)
		} else {
			s = d.newStream(false, d.rng.Intn(2) == 0, 2, 1, "explore")
			d.randomMsg(s, 3+d.rng.Intn(4), bp)
		}
		if s.closed && len(s.got) == len(s.sent) {
			d.explore(s, *full, 40, *payload)
		}
	}
	for k, v := range map[string]int{"segments": d.nseg, "encoded": d.nenc, "decoded": d.ndec, "frames_cont": d.ncont,
		"frames_full": d.nfull, "frames_hb": d.nhb, "late_digests": d.nlate, "big_entries": d.nbigent,
		"entries_at_buffer_size": d.nexact, "entries_over_buffer": d.nover, "entries_around_64k": d.n64k,
		"truncations": d.ntrunc, "corruptions": d.ncorrupt, "panics": d.npanic, "decode_errors": d.nerrpath,
		"skipped_large_alloc":   d.nhuge,
		"above_limit_cases_run": d.nhugeRun, "child_crashes": d.ncrash, "child_processes": d.nchild,
		"corruptions_not_run_after_crashes": d.nnotrun, "segments_with_short_reads": d.nchunked, "reports": d.nreport, "reports_not_logged": d.nreportSkipped, "bursts": d.nburst, "burst_messages": d.nburstMsg, "burst_not_written": d.nburstMissing,
		"conn_scenarios": d.nscenario, "conn_connections_cut": d.nconnCut, "conn_delivered": d.ndeliver,
		"posts": d.npost, "snapshot_posts": d.nsnappost,
		"stream_connections": d.nconn, "stream_reconnects": d.nreconnect,
		"stream_messages": d.nstreamMsg, "stream_heartbeats": d.nstreamHB, "stream_not_written": d.nstreamDropped, "stream_connections_not_logged": d.nstreamAborted, "resend_after_big_scenarios": d.nresend} {
		sum[k] = v
	}
	sum["bytes"] = d.bytesTotal
	sum["burst_sizes"] = d.burstSizes
	sum["report_cases"] = d.reportKinds
	sum["trunc_classes"] = d.truncClasses
	sum["corrupt_classes"] = d.corruptClasses
	sum["corrupt_fields"] = d.corruptFields
	sum["events"] = tw.N
	summary(sum)
	return nil
}
