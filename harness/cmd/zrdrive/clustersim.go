package main

// clustersim (C04): one round against a 3-replica group of real data-node processes.
//
// 3-5 client goroutines issue the value-returning writes of the ZOps model with distinguishable
// values against all replicas while a seeded nemesis kills (-9) and restarts a replica, stops
// one gracefully (SIGTERM) and restarts it, or transfers the leadership - always leaving a
// majority.  A round is cut into epochs of <= 200 operations by settle barriers (all replicas
// up, write barrier, equal applied index twice in a row, every key read from every replica);
// the values read start the next epoch.  The history is recorded in the parent's own order:
// {reset(st), inv, ok, fail, read(n, st), settle}; spec/ZLinTrace.tla (TLC) decides.
//
// -kind popstale is the isolate stage of known finding c04-pop-precheck-local-read.

import (
	"encoding/json"
	"flag"
	"sync"
	"fmt"
	"math/rand"
	"strings"
	"sync/atomic"
	"time"

	"zrverif/trace"
)

func init() { commands["clustersim"] = clustersim }

func clustersim(args []string) error {
	fs := flag.NewFlagSet("clustersim", flag.ExitOnError)
	vnode := fs.String("vnode", "", "path of the vnode binary")
	root := fs.String("root", "", "scratch directory of this round")
	out := fs.String("o", "", "trace file")
	seed := fs.Int64("seed", 1, "")
	engine := fs.String("engine", "mem", "mem | pebble")
	kind := fs.String("kind", "nemesis", "nemesis | popstale")
	epochs := fs.Int("epochs", 3, "")
	epochOps := fs.Int("epochops", 160, "operations per epoch (<= 200)")
	actions := fs.Int("actions", 3, "nemesis actions per epoch")
	clients := fs.Int("clients", 4, "")
	mix := fs.String("mix", "kill,term,transfer", "nemesis actions to draw from")
	snapCount := fs.Int("snapcount", 40, "")
	think := fs.Int("think", 110, "mean client think time in ms")
	reads := fs.Bool("reads", false, "also issue GET / HGET / LLEN to the replica that reports itself leader and check them as linearizable operations")
	nrep := fs.Int("n", 3, "replicas (the batch stage uses a 1-replica group: entries proposed together commit together)")
	fs.Parse(args)
	if *epochOps > 200 {
		*epochOps = 200
	}
	extra := []string{"-snapcount", fmt.Sprint(*snapCount), "-snapcatchup", "10", "-keepwal", "2", "-keepbackup", "2", "-walseg", "8192"}
	cl, err := newCluster(*vnode, *root, *nrep, *engine, extra)
	if err != nil {
		return err
	}
	defer cl.killAll()
	rng := rand.New(rand.NewSource(*seed))
	h := &history{}
	s := &csim{cl: cl, h: h, rng: rng}
	s.w = newWorkload(cl, h, *seed, *clients)
	w := s.w
	w.think = *think
	w.burst = 40
	w.reads = *reads
	counts := map[string]int{}
	env := func(why string) error {
		w.stopNowSafe()
		summary(map[string]interface{}{"status": "env", "why": why, "kind": *kind})
		return nil
	}
	if err := s.boot(); err != nil {
		return env(err.Error())
	}
	all := []int{1, 2, 3}
	cur := emptyStore()
	validEpochs := 0

	if *kind == "popstale" {
		h.add(trace.M{"ev": "reset", "weak": false, "st": cur})
		ld := s.leader()
		if ld == 0 {
			return env("no leader")
		}
		f := ld%3 + 1
		do := func(node int, op zop) (int, bool) {
			c, err := dialResp(cl.redisPort(node), 2*time.Second)
			if err != nil {
				return 0, false
			}
			defer c.close()
			id := h.newID()
			h.inv(id, op)
			v, err := c.do(2500*time.Millisecond, op.args()...)
			if n, ok := replyInt(v); err == nil && ok {
				h.ok(id, n)
				return id, true
			}
			h.fail(id, err)
			return id, false
		}
		// the follower's apply loop stops right after the next entry it applies
		cl.kids[f].send("hold apply.entry 1")
		if ln := cl.kids[f].waitLine(5*time.Second, "ARMED "); !strings.HasPrefix(ln, "ARMED ") {
			return env("arming failed")
		}
		if _, ok := do(ld, zop{"incr", "s1", 0}); !ok {
			return env("write through the leader failed")
		}
		if ln := cl.kids[f].waitLine(5*time.Second, "HELD "); !strings.HasPrefix(ln, "HELD ") {
			return env("follower apply loop was not held")
		}
		if _, ok := do(ld, zop{"lpush", "l1", 1777}); !ok {
			return env("lpush through the leader failed")
		}
		_, answered := do(f, zop{"rpop", "l1", 0}) // answered from the follower's stale local list?
		counts["pop_answered_by_held_follower"] = 0
		if answered {
			counts["pop_answered_by_held_follower"] = 1
		}
		cl.kids[f].kill9()
		if _, res, err := s.restart(f); err != nil || res != "ready" {
			return env("follower did not restart")
		}
		if !cl.settle(90*time.Second) || !cl.readAll(h) {
			return env("no settle")
		}
		h.add(trace.M{"ev": "settle"})
		validEpochs = 1
	}

	if *kind == "lostack" {
		// strict stage: an entry committed by the leader L with the ack of follower A only (B is cut off);
		// A is killed before it can learn the new commit index, then L; B is reconnected and A restarted:
		// A's WAL holds the acknowledged entry above its persisted commit index, and the group of A and B
		// must keep it (A wins the election with the longer log).
		h.add(trace.M{"ev": "reset", "weak": false, "st": cur})
		ld := s.leader()
		if ld == 0 {
			return env("no leader")
		}
		fa, fb := s.survivors(ld)[0], s.survivors(ld)[1]
		do := func(node int, op zop, to time.Duration) bool {
			c, err := dialResp(cl.redisPort(node), 2*time.Second)
			if err != nil {
				return false
			}
			defer c.close()
			id := h.newID()
			h.inv(id, op)
			v, err := c.do(to, op.args()...)
			if n, ok := replyInt(v); err == nil && ok {
				h.ok(id, n)
				return true
			}
			h.fail(id, err)
			return false
		}
		if !do(ld, zop{"incr", "s1", 0}, 3*time.Second) {
			return env("warm-up write failed")
		}
		cl.kids[fb].send("pause")
		if ln := cl.kids[fb].waitLine(3*time.Second, "PAUSED"); ln != "PAUSED" {
			return env("pause failed")
		}
		okAck := do(ld, zop{"incr", "s1", 0}, 3*time.Second) && do(ld, zop{"lpush", "l1", 1888}, 3*time.Second)
		cl.kids[fa].kill9() // at once: before the next heartbeat tells A the new commit index
		cl.kids[ld].kill9()
		counts["acked_with_one_follower"] = 0
		if okAck {
			counts["acked_with_one_follower"] = 1
		}
		cl.kids[fb].send("resume")
		cl.kids[fb].waitLine(3*time.Second, "RESUMED")
		if _, res, err := s.restart(fa); err != nil || res != "ready" {
			return env("follower did not restart")
		}
		if cl.waitWritable(60*time.Second, []int{fa, fb}) == 0 {
			return env("the two remaining replicas did not elect a leader")
		}
		if _, res, err := s.restart(ld); err != nil || res != "ready" {
			return env("old leader did not restart")
		}
		if !cl.settle(90*time.Second) || !cl.readAll(h) {
			return env("no settle")
		}
		h.add(trace.M{"ev": "settle"})
		validEpochs = 1
	}

	if *kind == "staleread" {
		// isolate stage of c04-leader-local-read-after-deposition: the leader is cut off, the other two
		// elect a new leader and commit an INCR; until the old leader notices (check-quorum) it still
		// reports itself leader and serves GET from its local store
		h.add(trace.M{"ev": "reset", "weak": false, "st": cur})
		ld := s.leader()
		if ld == 0 {
			return env("no leader")
		}
		do := func(node int, op zop, to time.Duration) (int64, bool) {
			c, err := dialResp(cl.redisPort(node), 2*time.Second)
			if err != nil {
				return 0, false
			}
			defer c.close()
			id := h.newID()
			h.inv(id, op)
			v, err := c.do(to, op.args()...)
			if n, ok := replyInt(v); err == nil && ok {
				h.ok(id, n)
				return n, true
			}
			if isRead(op.T) {
				h.refuse(id, err)
			} else {
				h.fail(id, err)
			}
			return 0, false
		}
		if _, ok := do(ld, zop{"incr", "s1", 0}, 3*time.Second); !ok {
			return env("warm-up write failed")
		}
		cl.kids[ld].send("pause")
		if ln := cl.kids[ld].waitLine(3*time.Second, "PAUSED"); ln != "PAUSED" {
			return env("pause failed")
		}
		others := s.survivors(ld)
		var stale, committed int32
		stopR := make(chan struct{})
		var wgR sync.WaitGroup
		wgR.Add(1)
		go func() { // reads on the cut-off leader until it refuses (it has stepped down)
			defer wgR.Done()
			for {
				select {
				case <-stopR:
					return
				default:
				}
				if _, ok := do(ld, zop{"get", "s1", 0}, 1500*time.Millisecond); ok {
					if atomic.LoadInt32(&committed) > 0 {
						atomic.AddInt32(&stale, 1) // answered after the majority committed (TLC decides whether it is stale)
					}
				} else if atomic.LoadInt32(&committed) > 0 {
					return
				}
				time.Sleep(15 * time.Millisecond)
			}
		}()
		for t := time.Now().Add(9 * time.Second); time.Now().Before(t) && atomic.LoadInt32(&committed) < 3; {
			if _, ok := do(others[int(atomic.LoadInt32(&committed))%2], zop{"incr", "s1", 0}, 500*time.Millisecond); ok {
				atomic.AddInt32(&committed, 1)
			}
			time.Sleep(20 * time.Millisecond)
		}
		time.Sleep(300 * time.Millisecond)
		close(stopR)
		wgR.Wait()
		counts["incr_committed_by_majority"] = int(committed)
		counts["get_answered_by_cut_off_leader_after_commit"] = int(stale)
		cl.kids[ld].send("resume")
		cl.kids[ld].waitLine(3*time.Second, "RESUMED")
		if !cl.settle(90*time.Second) || !cl.readAll(h) {
			return env("no settle")
		}
		h.add(trace.M{"ev": "settle"})
		validEpochs = 1
	}

	if *kind == "batch" {
		// strict stage: a write batch made on purpose.  The leader's raft goroutine is held at hook
		// ready.advanced until three more waiters have been registered (hook wait.register), so two
		// concurrent batchable commands on different keys (SET, DEL) are queued for one Ready; in a
		// 1-replica group (-n 1) they are then committed together and applied as ONE write batch
		// (CommitBatch answers both; with followers each proposal gets its own append and ack).  Their
		// answers differ (OK / 1), so answers swapped inside the batch are visible.
		h.add(trace.M{"ev": "reset", "weak": false, "st": cur})
		ld := s.leader()
		if ld == 0 {
			return env("no leader")
		}
		one := func(op zop, to time.Duration) bool {
			c, err := dialResp(cl.redisPort(ld), 2*time.Second)
			if err != nil {
				return false
			}
			defer c.close()
			id := h.newID()
			if op.T == "set" {
				op.V = int64(1000 + id)
			}
			h.inv(id, op)
			v, err := c.do(to, op.args()...)
			if n, ok := replyInt(v); err == nil && ok {
				h.ok(id, n)
				return true
			}
			h.fail(id, err)
			return false
		}
		made := 0
		for it := 0; it < 4; it++ {
			ka, kb := "s1", "s2"
			if it%2 == 1 {
				ka, kb = "s2", "s1"
			}
			if !one(zop{"set", kb, 0}, 3*time.Second) { // the key the DEL will find
				return env("warm-up write failed")
			}
			cl.kids[ld].send("hold ready.advanced 1 wait.register 4")
			if ln := cl.kids[ld].waitLine(5*time.Second, "ARMED "); !strings.HasPrefix(ln, "ARMED ") {
				return env("arming failed")
			}
			warm := func() {
				if c, err := dialResp(cl.redisPort(ld), 2*time.Second); err == nil {
					c.do(6*time.Second, "set", keyPrefix+"warm", "b")
					c.close()
				}
			}
			go warm() // an idle 1-replica group has no Ready of its own: this write's Ready is the one that is held
			if ln := cl.kids[ld].waitLine(5*time.Second, "HELD "); !strings.HasPrefix(ln, "HELD ") {
				return env("raft goroutine was not held")
			}
			done := make(chan bool, 2)
			go func() { done <- one(zop{"set", ka, 0}, 6*time.Second) }()
			go func() { done <- one(zop{"del", kb, 0}, 6*time.Second) }()
			// a waiter is registered just before its proposal is queued: the hold is released by a
			// third registration (a write to the unmodelled key), when the first two are surely queued
			time.Sleep(60 * time.Millisecond)
			go func() {
				// ... a DEL of a key that never exists (answer 0): if it ends up in the same batch, a
				// swap with it is visible too (SET would get 0 instead of OK, the modelled DEL 0 instead of 1)
				if c, err := dialResp(cl.redisPort(ld), 2*time.Second); err == nil {
					c.do(6*time.Second, "del", keyPrefix+"nokey")
					c.close()
				}
			}()
			a, b := <-done, <-done
			if a && b {
				made++
			}
			cl.kids[ld].waitLine(2*time.Second, "RELEASED ")
			cl.kids[ld].send("hits")
			if ln := cl.kids[ld].waitLine(2*time.Second, "HITS "); strings.HasPrefix(ln, "HITS ") {
				var hm map[string]int
				if json.Unmarshal([]byte(ln[5:]), &hm) == nil {
					counts[fmt.Sprintf("it%d_ready_published", it)] = hm["ready.published"]
					counts[fmt.Sprintf("it%d_apply_batch_done", it)] = hm["apply.batch.done"]
					counts[fmt.Sprintf("it%d_apply_entry", it)] = hm["apply.entry"]
				}
			}
		}
		// second part: contention on ONE key inside one Ready - two conditional SETs (NX) on an absent
		// key queued together; a second write to a key that already has a pending write in the batch
		// must see the first one (only one of the two may answer OK)
		for it := 0; it < 3; it++ {
			one(zop{"del", "s1", 0}, 3*time.Second)
			cl.kids[ld].send("hold ready.advanced 1 wait.register 4")
			if ln := cl.kids[ld].waitLine(5*time.Second, "ARMED "); !strings.HasPrefix(ln, "ARMED ") {
				return env("arming failed")
			}
			go func() {
				if c, err := dialResp(cl.redisPort(ld), 2*time.Second); err == nil {
					c.do(6*time.Second, "set", keyPrefix+"warm", "b")
					c.close()
				}
			}()
			if ln := cl.kids[ld].waitLine(5*time.Second, "HELD "); !strings.HasPrefix(ln, "HELD ") {
				return env("raft goroutine was not held")
			}
			done := make(chan bool, 2)
			go func() { done <- one(zop{"setifnx", "s1", int64(2000 + 10*it + 1)}, 6*time.Second) }()
			go func() { done <- one(zop{"setifnx", "s1", int64(2000 + 10*it + 2)}, 6*time.Second) }()
			time.Sleep(60 * time.Millisecond)
			go func() {
				if c, err := dialResp(cl.redisPort(ld), 2*time.Second); err == nil {
					c.do(6*time.Second, "del", keyPrefix+"nokey")
					c.close()
				}
			}()
			<-done
			<-done
			cl.kids[ld].waitLine(2*time.Second, "RELEASED ")
		}
		counts["batch_pairs_answered"] = made
		if !cl.settle(90*time.Second) || !cl.readAll(h) {
			return env("no settle")
		}
		h.add(trace.M{"ev": "settle"})
		validEpochs = 1
	}

	if *kind == "timeout" {
		// strict stage: proposals that end by a time-out on a replica (no quorum), then more
		// value-returning writes through the SAME process once the group is back.  Nothing here is
		// a known finding: every answer must be linearizable (a pooled waiter that still carries
		// the signal of the timed-out request would answer the next write before it is applied).
		h.add(trace.M{"ev": "reset", "weak": false, "st": cur})
		ld := s.leader()
		if ld == 0 {
			return env("no leader")
		}
		c, err := dialResp(cl.redisPort(ld), 2*time.Second)
		if err != nil {
			return env("connect")
		}
		do := func(op zop, to time.Duration) bool {
			id := h.newID()
			op.V = map[bool]int64{true: int64(1000 + id), false: op.V}[op.T == "getset" || op.T == "lpush"]
			h.inv(id, op)
			v, err := c.do(to, op.args()...)
			if n, ok := replyInt(v); err == nil && ok {
				h.ok(id, n)
				return true
			}
			h.fail(id, err)
			if _, isReply := err.(respErr); !isReply {
				c.close()
				c, _ = dialResp(cl.redisPort(ld), 2*time.Second)
			}
			return false
		}
		for _, op := range []zop{{"incr", "s1", 0}, {"getset", "s2", 0}, {"hincrby", "h1f1", 2}, {"lpush", "l1", 0}} {
			if !do(op, 3*time.Second) {
				return env("warm-up write failed")
			}
		}
		for _, f := range s.survivors(ld) {
			cl.kids[f].kill9()
		}
		nTimeouts := 0
		for _, op := range []zop{{"incr", "s1", 0}, {"getset", "s2", 0}, {"hincrby", "h1f1", 3}} {
			if c == nil {
				return env("connect")
			}
			if !do(op, 7*time.Second) { // the server gives up after its 4 s proposal time-out
				nTimeouts++
			}
		}
		counts["proposals_ended_without_answer"] = nTimeouts
		for _, f := range s.survivors(ld) {
			if _, res, err := s.restart(f); err != nil || res != "ready" {
				return env("follower did not restart")
			}
		}
		if cl.waitWritable(60*time.Second, []int{ld}) == 0 {
			return env("not writable again")
		}
		c.close()
		if c, err = dialResp(cl.redisPort(ld), 2*time.Second); err != nil {
			return env("connect")
		}
		for i := 0; i < 4; i++ {
			for _, op := range []zop{{"incr", "s1", 0}, {"getset", "s2", 0}, {"hincrby", "h1f1", 1}, {"lpush", "l1", 0}, {"incr", "s2", 0}} {
				if c == nil {
					return env("connect")
				}
				do(op, 3*time.Second)
			}
		}
		c.close()
		if !cl.settle(90*time.Second) || !cl.readAll(h) {
			return env("no settle")
		}
		h.add(trace.M{"ev": "settle"})
		validEpochs = 1
	}

	if *kind == "delswallow" {
		// strict stage (former isolate stage of c04-del-merge-swallows-errors, repaired as d21256b): a
		// DEL that the only remaining replica cannot commit (no quorum) must not be answered with a count
		h.add(trace.M{"ev": "reset", "weak": false, "st": cur})
		ld := s.leader()
		if ld == 0 {
			return env("no leader")
		}
		do := func(node int, op zop, to time.Duration) bool {
			c, err := dialResp(cl.redisPort(node), 2*time.Second)
			if err != nil {
				return false
			}
			defer c.close()
			id := h.newID()
			h.inv(id, op)
			v, err := c.do(to, op.args()...)
			if n, ok := replyInt(v); err == nil && ok {
				h.ok(id, n)
				return true
			}
			h.fail(id, err)
			return false
		}
		if !do(ld, zop{"set", "s1", 1555}, 3*time.Second) {
			return env("set through the leader failed")
		}
		for _, f := range s.survivors(ld) {
			cl.kids[f].kill9()
		}
		// at once: the remaining replica still believes it leads, takes the proposal and cannot
		// commit it; the sub-command ends with an error (canceled / timed out)
		answered := do(ld, zop{"del", "s1", 0}, 7*time.Second)
		counts["del_answered_without_leader"] = 0
		if answered {
			counts["del_answered_without_leader"] = 1
		}
		for _, f := range s.survivors(ld) {
			if _, res, err := s.restart(f); err != nil || res != "ready" {
				return env("follower did not restart")
			}
		}
		if !cl.settle(90*time.Second) || !cl.readAll(h) {
			return env("no settle")
		}
		h.add(trace.M{"ev": "settle"})
		validEpochs = 1
	}

	for e := 0; *kind == "nemesis" && e < *epochs; e++ {
		mark := len(h.ev)
		h.add(trace.M{"ev": "reset", "weak": false, "st": cur})
		w.setTargets(all)
		w.run(*epochOps)
		acts := strings.Split(*mix, ",")
		epochOK := true
		for a := 0; a < *actions && w.issuedOps() < *epochOps; a++ {
			time.Sleep(time.Duration(250+rng.Intn(900)) * time.Millisecond) // nemesis pacing
			act := acts[rng.Intn(len(acts))]
			victim := s.pickVictim([]string{"leader", "follower", "any"}[rng.Intn(3)])
			if victim == 0 {
				continue
			}
			switch act {
			case "kill", "term":
				if act == "kill" {
					cl.kids[victim].kill9()
				} else {
					w.setTargets(s.survivors(victim)) // a stopping server refuses anyway
					if !cl.kids[victim].term(40 * time.Second) {
						counts["term_timeouts"]++
					}
				}
				w.setTargets(s.survivors(victim))
				counts[act]++
				time.Sleep(time.Duration(200+rng.Intn(900)) * time.Millisecond)
				_, res, err := s.restart(victim)
				if err != nil || res != "ready" {
					counts["restart_problems"]++
					epochOK = false
				}
				w.setTargets(all)
			case "partition":
				// cut one replica (mostly the leader) off from its peers for longer than an election
				// time-out, then reconnect it: the minority side must not acknowledge anything, and what
				// a deposed leader answers must not show up as a non-linearizable answer
				if rng.Intn(3) != 0 {
					if ld := s.leader(); ld != 0 {
						victim = ld
					}
				}
				cl.kids[victim].send("pause")
				if ln := cl.kids[victim].waitLine(3*time.Second, "PAUSED"); ln != "PAUSED" {
					counts["partition_refused"]++
					continue
				}
				atomic.StoreInt32(&w.isolated, int32(victim))
				time.Sleep(time.Duration(1800+rng.Intn(2200)) * time.Millisecond)
				cl.kids[victim].send("resume")
				cl.kids[victim].waitLine(3*time.Second, "RESUMED")
				atomic.StoreInt32(&w.isolated, 0)
				counts["partition"]++
			case "transfer":
				ld := s.leader()
				if ld == 0 {
					continue
				}
				to := ld%3 + 1
				if rng.Intn(2) == 0 {
					to = (ld+1)%3 + 1
				}
				cl.kids[ld].send(fmt.Sprintf("transfer %d", to))
				ln := cl.kids[ld].waitLine(6*time.Second, "TRANSFER ")
				if ln == "TRANSFER ok" {
					counts["transfer"]++
				} else {
					counts["transfer_refused"]++
				}
			}
			if !epochOK {
				break
			}
		}
		// let the clients finish their budget (bounded), then stop them
		for t := time.Now().Add(20 * time.Second); epochOK && time.Now().Before(t) && w.issuedOps() < *epochOps; {
			time.Sleep(30 * time.Millisecond)
		}
		w.stopNow()
		if !epochOK || !cl.settle(90*time.Second) {
			// an epoch that cannot be closed by a barrier cannot be judged: drop it and stop
			h.mu.Lock()
			h.ev = h.ev[:mark]
			h.mu.Unlock()
			counts["epochs_dropped"]++
			break
		}
		if !cl.readAll(h) {
			h.mu.Lock()
			h.ev = h.ev[:mark]
			h.mu.Unlock()
			counts["epochs_dropped"]++
			break
		}
		h.add(trace.M{"ev": "settle"})
		validEpochs++
		// the next epoch starts from what replica 1 returned (all replicas are compared by TLC)
		for i := len(h.ev) - 1; i >= 0; i-- {
			if h.ev[i]["ev"] == "read" && h.ev[i]["n"] == 1 {
				cur = h.ev[i]["st"].(zstore)
				break
			}
		}
	}
	w.stopNowSafe()
	cl.killAll()
	if validEpochs == 0 {
		return env("no epoch could be closed by a settle barrier")
	}
	if err := h.write(*out, cl.sentEvents()...); err != nil {
		return err
	}
	nOK, nFail, nInv := 0, 0, 0
	for _, e := range h.ev {
		switch e["ev"] {
		case "ok":
			nOK++
		case "fail":
			nFail++
		case "inv":
			nInv++
		}
	}
	summary(map[string]interface{}{"status": "ok", "kind": *kind, "engine": *engine, "epochs": validEpochs, "inv": nInv, "ok": nOK,
		"fail": nFail, "events": len(h.ev), "nemesis": counts, "process_starts": cl.starts,
		"leader_hint_polls": atomic.LoadInt32(&w.leader) >= 0})
	return nil
}
