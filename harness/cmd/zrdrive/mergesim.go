package main

// mergesim: the server-side merge of cursor scans over several partitions
// (server/scan_merge.go: doScanCommon, doMergeScan, decodeScanCursor) on a REAL server: one
// process hosting P single-replica raft groups (partitions) of the namespace "default",
// pebble engine, redis protocol over loopback.  Merged SCAN / REVSCAN / ADVSCAN / ADVREVSCAN
// are iterated with COUNT omitted, 1, 2, P, P+1, 2P+1 by feeding the returned cursor back until
// the empty cursor.
//
// Order across partitions is not defined (doc/user-guide.md: "跨分区的情况, 只保证分区内的数据顺序"), so
// every merged iteration is decomposed into one iteration per partition: the keys of a merged
// page that live in partition p (node.GetHashedPartitionID, the routing function) are p's
// page, p's entry in the returned merged cursor is p's next cursor, no entry = p has ended.
// spec/ZScanTrace.tla then decides each partition iteration like any other (complete, once,
// ordered, nothing foreign, terminates); a partition that is silently dropped while it still
// has keys fails the page contract.

import (
	"encoding/base64"
	"flag"
	"fmt"
	"io/ioutil"
	"log"
	"math/rand"
	"net"
	"os"
	"path"
	"strconv"
	"strings"
	"time"

	"github.com/siddontang/goredis"
	"github.com/youzan/ZanRedisDB/cluster"
	"github.com/youzan/ZanRedisDB/common"
	"github.com/youzan/ZanRedisDB/engine"
	"github.com/youzan/ZanRedisDB/node"
	"github.com/youzan/ZanRedisDB/rockredis"
	"github.com/youzan/ZanRedisDB/server"
	"github.com/youzan/ZanRedisDB/slow"
	"github.com/youzan/ZanRedisDB/transport/rafthttp"
	"zrverif/trace"
)

func init() { commands["mergesim"] = mergesim }

const mrgNPos = 24
const mrgUpper = "~~~~"

// ordered pool of 24 key names (plain, with separators inside, prefix chains)
var mrgNames = [mrgNPos]string{"0", "00", "1:", "1:a", "5", "55", ":", ":a", "a", "a:", "a:b", "aa", "b", "k", "k0", "k00", "k1",
	"k:", "k:f", "k;", "user", "user1", "v", "z"}

func mrgFreePorts(n int) ([]int, error) {
	var ls []net.Listener
	var out []int
	defer func() {
		for _, l := range ls {
			l.Close()
		}
	}()
	for i := 0; i < n; i++ {
		l, err := net.Listen("tcp", "127.0.0.1:0")
		if err != nil {
			return nil, err
		}
		ls = append(ls, l)
		out = append(out, l.Addr().(*net.TCPAddr).Port)
	}
	return out, nil
}

// mrgStartServer: a real server hosting partitions 0..P-1 of "default" (after cklib.go)
func mrgStartServer(dir, eng string, P int) (*server.Server, int, error) {
	log.SetOutput(ioutil.Discard)
	slow.SetLogger(0, common.NewLogger())
	engine.SetLogLevel(0)
	rockredis.SetLogLevel(0)
	node.SetLogLevel(0)
	server.SetLogger(0, common.NewLogger())
	cluster.SetLogLevel(0)
	rafthttp.SetLogLevel(0)
	ports, err := mrgFreePorts(4)
	if err != nil {
		return nil, 0, err
	}
	os.MkdirAll(dir, 0755)
	ioutil.WriteFile(path.Join(dir, "myid"), []byte("1"), common.FILE_PERM)
	raftAddr := "http://127.0.0.1:" + strconv.Itoa(ports[2])
	conf := server.ServerConfig{ClusterID: "verif", DataDir: dir, RedisAPIPort: ports[0], HttpAPIPort: ports[1],
		GrpcAPIPort: ports[3], ProfilePort: -1, LocalRaftAddr: raftAddr, BroadcastAddr: "127.0.0.1",
		TickMs: 20, ElectionTick: 5}
	conf.RocksDBOpts.EngineType = eng
	kv, err := server.NewServer(conf)
	if err != nil {
		return nil, 0, err
	}
	var names []string
	for p := 0; p < P; p++ {
		nc := node.NewNSConfig()
		nc.Name = "default-" + strconv.Itoa(p)
		nc.BaseName = "default"
		nc.EngType = rockredis.EngType
		nc.PartitionNum = P
		nc.Replicator = 1
		nc.RaftGroupConf.GroupID = uint64(1000 + p)
		nc.RaftGroupConf.SeedNodes = []node.ReplicaInfo{{NodeID: 1, ReplicaID: uint64(1 + p), RaftAddr: raftAddr}}
		nc.ExpirationPolicy = common.DefaultExpirationPolicy
		nc.DataVersion = common.ValueHeaderV1Str
		if _, err := kv.InitKVNamespace(uint64(1+p), nc, false); err != nil {
			return nil, 0, err
		}
		names = append(names, nc.Name)
	}
	kv.Start()
	deadline := time.Now().Add(60 * time.Second)
	for _, nm := range names {
		for {
			n := kv.GetNamespaceFromFullName(nm)
			if n != nil && n.IsReady() && n.Node.IsLead() {
				break
			}
			if time.Now().After(deadline) {
				return nil, 0, fmt.Errorf("partition %s has no leader", nm)
			}
			time.Sleep(20 * time.Millisecond)
		}
	}
	return kv, ports[0], nil
}

type mrgDrv struct {
	conn  *goredis.PoolConn
	tw    *trace.Writer
	rng   *rand.Rand
	P     int
	table string
	pos   map[string]int
	// pop[type] = set of key positions present in the scanned table
	pop                                 [5]map[int]bool
	nIter, nPart, nPage, nErr, nNoCount int
	nRev, nBelowP                       int
}

func (d *mrgDrv) part(k int) int {
	return node.GetHashedPartitionID([]byte(d.table+":"+mrgNames[k-1]), d.P)
}

func (d *mrgDrv) do(args ...interface{}) (interface{}, error) {
	r, err := d.conn.Do(args[0].(string), args[1:]...)
	if err != nil {
		d.nErr++
	}
	return r, err
}

func (d *mrgDrv) write(ty int, table string, k int) {
	key := "default:" + table + ":" + mrgNames[k-1]
	switch scnTypes[ty] {
	case "kv":
		d.do("set", key, "v")
	case "hash":
		d.do("hset", key, "f", "v")
	case "list":
		d.do("rpush", key, "v")
	case "set":
		d.do("sadd", key, "m")
	case "zset":
		d.do("zadd", key, "1", "m")
	}
}

// decode a merged cursor: base64("pid:base64(cursor);pid:base64(cursor);...")
func mrgDecodeCursor(c string) (map[int]string, error) {
	out := map[int]string{}
	if c == "" {
		return out, nil
	}
	raw, err := base64.StdEncoding.DecodeString(c)
	if err != nil {
		return nil, err
	}
	for _, ent := range strings.Split(strings.TrimRight(string(raw), ";"), ";") {
		i := strings.IndexByte(ent, ':')
		if i < 0 {
			return nil, fmt.Errorf("bad cursor entry %q", ent)
		}
		pid, err := strconv.Atoi(ent[:i])
		if err != nil {
			return nil, err
		}
		cur, err := base64.StdEncoding.DecodeString(ent[i+1:])
		if err != nil {
			return nil, err
		}
		out[pid] = string(cur)
	}
	return out, nil
}

func (d *mrgDrv) encodeCursor(cur string) string {
	s := ""
	for p := 0; p < d.P; p++ {
		s += strconv.Itoa(p) + ":" + base64.StdEncoding.EncodeToString([]byte(cur)) + ";"
	}
	return base64.StdEncoding.EncodeToString([]byte(s))
}

type mrgPage struct {
	asked map[int]bool // partitions that took part in this request
	keys  []string
	next  map[int]string
	err   string
}

// one merged iteration, then its decomposition into per-partition iterations
func (d *mrgDrv) iterate(ty int, adv, rev bool, count int) {
	name := "scan"
	if adv {
		name = "advscan"
	}
	if rev {
		name = strings.Replace(name, "scan", "revscan", 1)
		d.nRev++
	}
	cursor := ""
	all := map[int]bool{}
	for p := 0; p < d.P; p++ {
		all[p] = true
	}
	if rev {
		cursor = d.encodeCursor(mrgUpper)
	}
	asked := all
	var pages []mrgPage
	capped := true
	for i := 0; i < mrgNPos+6; i++ {
		args := []interface{}{name, "default:" + d.table + ":" + cursor}
		if adv {
			args = append(args, strings.ToUpper(scnTypes[ty]))
		}
		if count > 0 {
			args = append(args, "count", count)
		}
		pg := mrgPage{asked: asked}
		r, err := d.do(args...)
		d.nPage++
		if err != nil {
			pg.err = err.Error()
			pages = append(pages, pg)
			capped = false
			break
		}
		a, ok := r.([]interface{})
		if !ok || len(a) != 2 {
			pg.err = fmt.Sprintf("malformed reply %T", r)
			pages = append(pages, pg)
			capped = false
			break
		}
		nc, _ := a[0].([]byte)
		ks, _ := a[1].([]interface{})
		for _, x := range ks {
			b, _ := x.([]byte)
			pg.keys = append(pg.keys, string(b))
		}
		nx, derr := mrgDecodeCursor(string(nc))
		if derr != nil {
			pg.err = "cursor: " + derr.Error()
			pages = append(pages, pg)
			capped = false
			break
		}
		pg.next = nx
		pages = append(pages, pg)
		if len(nc) == 0 {
			capped = false
			break
		}
		cursor = string(nc)
		asked = map[int]bool{}
		for p := range nx {
			asked[p] = true
		}
	}
	d.nIter++
	if count == 0 {
		d.nNoCount++
	}
	if count > 0 && count < d.P {
		d.nBelowP++
	}
	// decomposition (every merged iteration is its own segment of the trace)
	d.tw.Emit(trace.M{"ev": "reset"})
	// COUNT is divided among the partitions that are still asked, so a partition's share grows
	// as others end: its pages are bounded by COUNT itself.  No COUNT, or COUNT below the
	// number of partitions: every partition is asked with 0 = its default page size.
	cnt := 100
	if count >= d.P {
		cnt = count
	}
	m := make([]int, mrgNPos)
	for i := range m {
		m[i] = i + 1
	}
	for p := 0; p < d.P; p++ {
		pop := []int{}
		for k := 1; k <= mrgNPos; k++ {
			if d.pop[ty][k] && d.part(k) == p {
				pop = append(pop, k)
			}
		}
		start := 0
		if rev {
			start = mrgNPos + 1
		}
		d.tw.Emit(trace.M{"ev": "begin", "pop": pop, "cur": start, "cnt": cnt, "rev": rev, "m": m, "pn": false,
			"sp": "merge-" + strings.Replace(name, "rev", "", 1) + ":" + scnTypes[ty], "nc": count == 0, "count": count, "part": p})
		d.nPart++
		ended := false
		for _, pg := range pages {
			if !pg.asked[p] {
				continue
			}
			els := []int{}
			for _, k := range pg.keys {
				kp, ok := d.pos[k]
				switch {
				case !ok && p == 0:
					els = append(els, -1) // not a key of the scanned table's pool
				case ok && d.part(kp) == p:
					els = append(els, kp)
				}
			}
			nxt := 0
			if c, ok := pg.next[p]; ok {
				nxt = -1
				if kp, ok := d.pos[c]; ok {
					nxt = kp
				}
			}
			d.tw.Emit(trace.M{"ev": "page", "els": els, "next": nxt, "err": pg.err})
			if nxt == 0 || pg.err != "" {
				ended = true
				break
			}
		}
		d.tw.Emit(trace.M{"ev": "end", "capped": capped && !ended})
	}
}

func mergesim(args []string) error {
	fs := flag.NewFlagSet("mergesim", flag.ExitOnError)
	outp := fs.String("o", "merge", "output prefix; parts are <prefix>.<i>.ndjson")
	parts := fs.Int("parts", 1, "")
	seed := fs.Int64("seed", 1, "")
	nseg := fs.Int("segments", 4, "number of tables (worlds)")
	P := fs.Int("P", 3, "partitions")
	et := fs.String("eng", "pebble", "")
	noCountRev := fs.Bool("nocount-rev", true, "include reverse merged scans without COUNT")
	fs.Parse(args)

	dir, err := ioutil.TempDir(os.Getenv("ZR_SCRATCH"), "zrmrg")
	if err != nil {
		return err
	}
	defer os.RemoveAll(dir)
	kv, port, err := mrgStartServer(dir, *et, *P)
	if err != nil {
		return err
	}
	c := goredis.NewClient("127.0.0.1:"+strconv.Itoa(port), "")
	conn, err := c.Get()
	if err != nil {
		return err
	}
	rng := rand.New(rand.NewSource(*seed))
	tws := make([]*trace.Writer, *parts)
	for i := range tws {
		if tws[i], err = trace.Create(fmt.Sprintf("%s.%d.ndjson", *outp, i)); err != nil {
			return err
		}
	}
	d := &mrgDrv{conn: conn, rng: rng, P: *P, pos: map[string]int{}}
	for i, n := range mrgNames {
		d.pos[n] = i + 1
	}
	counts := []int{0, 1, 2, *P, *P + 1, 2**P + 1}
	for seg := 0; seg < *nseg; seg++ {
		d.tw = tws[seg%len(tws)]
		d.table = fmt.Sprintf("s%d%dt", *seed, seg)
		decoys := []string{d.table + "x", d.table + "0", "r" + d.table}
		for ty := range scnTypes {
			d.pop[ty] = map[int]bool{}
			for k := 1; k <= mrgNPos; k++ {
				if rng.Intn(100) < 55 {
					d.write(ty, d.table, k)
					d.pop[ty][k] = true
				}
				if rng.Intn(100) < 30 {
					d.write(ty, decoys[rng.Intn(len(decoys))], k)
				}
			}
		}
		for _, rev := range []bool{false, true} {
			for _, cnt := range counts {
				if cnt == 0 && rev && !*noCountRev {
					continue
				}
				d.iterate(0, false, rev, cnt) // plain SCAN / REVSCAN (kv)
				for ty := range scnTypes {
					if ty == 0 || rng.Intn(2) == 0 {
						d.iterate(ty, true, rev, cnt)
					}
				}
			}
		}
	}
	for _, tw := range tws {
		tw.Close()
	}
	summary(trace.M{"driver": "mergesim", "eng": *et, "partitions": *P, "segments": *nseg, "merged_iterations": d.nIter,
		"partition_iterations": d.nPart, "merged_pages": d.nPage, "no_count": d.nNoCount, "reverse": d.nRev,
		"count_below_partitions": d.nBelowP, "errors": d.nErr})
	// the server's goroutines are not needed any more; leave without a graceful stop
	_ = kv
	os.RemoveAll(dir)
	os.Exit(0)
	return nil
}
