package main

// mergesim: the server-side merge of cursor scans over several partitions
// (server/scan_merge.go: doScanCommon, doMergeScan, decodeScanCursor) on a REAL server: one
// process hosting P single-replica raft groups (partitions) of the namespace "default",
// pebble engine, redis protocol over loopback.  Merged SCAN / REVSCAN / ADVSCAN / ADVREVSCAN
// are iterated with COUNT omitted, 1, 2, P, P+1, 2P+1 by feeding the returned cursor back until
// the empty cursor.
//
// Order across partitions is not defined (doc/user-guide.md: "跨分区的情况, 只保证分区内的数据顺序"), so
// every merged iteration is decomposed into one iteration per partition: the keys of a merged
// page that live in partition p (node.GetHashedPartitionID, the routing function) are p's
// page, p's entry in the returned merged cursor is p's next cursor, no entry = p has ended.
// spec/ZScanTrace.tla then decides each partition iteration like any other (complete, once,
// ordered, nothing foreign, terminates); a partition that is silently dropped while it still
// has keys fails the page contract.

import (
	"encoding/base64"
	"flag"
	"fmt"
	"io/ioutil"
	"log"
	"math/rand"
	"net"
	"os"
	"path"
	"strconv"
	"strings"
	"time"

	"github.com/siddontang/goredis"
	"github.com/youzan/ZanRedisDB/cluster"
	"github.com/youzan/ZanRedisDB/common"
	"github.com/youzan/ZanRedisDB/engine"
	"github.com/youzan/ZanRedisDB/node"
	"github.com/youzan/ZanRedisDB/rockredis"
	"github.com/youzan/ZanRedisDB/server"
	"github.com/youzan/ZanRedisDB/slow"
	"github.com/youzan/ZanRedisDB/transport/rafthttp"
	"zrverif/trace"
)

func init() { commands["mergesim"] = mergesim }

const mrgNPos = 24
const mrgUpper = "~~~~"

// ordered pool of 24 key names (plain, with separators inside, prefix chains)
var mrgNames = [mrgNPos]string{"0", "00", "1:", "1:a", "5", "55", ":", ":a", "a", "a:", "a:b", "aa", "b", "k", "k0", "k00", "k1",
	"k:", "k:f", "k;", "user", "user1", "v", "z"}

func mrgFreePorts(n int) ([]int, error) {
	var ls []net.Listener
	var out []int
	defer func() {
		for _, l := range ls {
			l.Close()
		}
	}()
	for i := 0; i < n; i++ {
		l, err := net.Listen("tcp", "127.0.0.1:0")
		if err != nil {
			return nil, err
		}
		ls = append(ls, l)
		out = append(out, l.Addr().(*net.TCPAddr).Port)
	}
	return out, nil
}

// mrgStartServer: a real server hosting partitions 0..P-1 of "default" (after cklib.go)
func mrgStartServer(dir, eng string, P int) (*server.Server, int, error) {
	log.SetOutput(ioutil.Discard)
	slow.SetLogger(0, common.NewLogger())
	engine.SetLogLevel(0)
	rockredis.SetLogLevel(0)
	node.SetLogLevel(0)
	server.SetLogger(0, common.NewLogger())
	cluster.SetLogLevel(0)
	rafthttp.SetLogLevel(0)
	ports, err := mrgFreePorts(4)
	if err != nil {
		return nil, 0, err
	}
	os.MkdirAll(dir, 0755)
	ioutil.WriteFile(path.Join(dir, "myid"), []byte("1"), common.FILE_PERM)
	raftAddr := "http://127.0.0.1:" + strconv.Itoa(ports[2])
	conf := server.ServerConfig{ClusterID: "verif", DataDir: dir, RedisAPIPort: ports[0], HttpAPIPort: ports[1],
		GrpcAPIPort: ports[3], ProfilePort: -1, LocalRaftAddr: raftAddr, BroadcastAddr: "127.0.0.1",
		TickMs: 20, ElectionTick: 5}
	conf.RocksDBOpts.EngineType = eng
	kv, err := server.NewServer(conf)
	if err != nil {
		return nil, 0, err
	}
	var names []string
	for p := 0; p < P; p++ {
		nc := node.NewNSConfig()
		nc.Name = "default-" + strconv.Itoa(p)
		nc.BaseName = "default"
		nc.EngType = rockredis.EngType
		nc.PartitionNum = P
		nc.Replicator = 1
		nc.RaftGroupConf.GroupID = uint64(1000 + p)
		nc.RaftGroupConf.SeedNodes = []node.ReplicaInfo{{NodeID: 1, ReplicaID: uint64(1 + p), RaftAddr: raftAddr}}
		nc.ExpirationPolicy = common.DefaultExpirationPolicy
		nc.DataVersion = common.ValueHeaderV1Str
		if _, err := kv.InitKVNamespace(uint64(1+p), nc, false); err != nil {
			return nil, 0, err
		}
		names = append(names, nc.Name)
	}
	kv.Start()
	deadline := time.Now().Add(60 * time.Second)
	for _, nm := range names {
		for {
			n := kv.GetNamespaceFromFullName(nm)
			if n != nil && n.IsReady() && n.Node.IsLead() {
				break
			}
			if time.Now().After(deadline) {
				return nil, 0, fmt.Errorf("partition %s has no leader", nm)
			}
			time.Sleep(20 * time.Millisecond)
		}
	}
	return kv, ports[0], nil
}

const mrgNS = 3

// ordered pool of sub-key names (hash fields, set / zset members); list elements are v1..v3
var mrgSubs = [mrgNS]string{"a", "a:", "b"}

type mrgDrv struct {
	conn  *goredis.PoolConn
	tw    *trace.Writer
	rng   *rand.Rand
	P     int
	table string
	pos   map[string]int
	spos  map[string]int
	// rank of every key position in (length, bytes) order
	lenRank map[int]int
	// pop[type][key position] = set of sub positions present (kv: {1}; list: 1..n)
	pop                                               [5]map[int]map[int]bool
	nIter, nPart, nPage, nErr, nNoCount               int
	nRev, nBelowP, nFull, nMatch, nDropped, nLateJoin int
}

func (d *mrgDrv) part(k int) int {
	return node.GetHashedPartitionID([]byte(d.table+":"+mrgNames[k-1]), d.P)
}

func (d *mrgDrv) do(args ...interface{}) (interface{}, error) {
	r, err := d.conn.Do(args[0].(string), args[1:]...)
	if err != nil {
		d.nErr++
	}
	return r, err
}

// write one element (ty, key k, sub s) into table; for lists s is the element number
func (d *mrgDrv) write(ty int, table string, k, s int) {
	key := "default:" + table + ":" + mrgNames[k-1]
	switch scnTypes[ty] {
	case "kv":
		d.do("set", key, "v")
	case "hash":
		d.do("hset", key, mrgSubs[s-1], "v")
	case "list":
		d.do("rpush", key, "v"+strconv.Itoa(s))
	case "set":
		d.do("sadd", key, mrgSubs[s-1])
	case "zset":
		d.do("zadd", key, strconv.Itoa(4-s), mrgSubs[s-1])
	}
}

// decode a merged cursor: base64("pid:base64(cursor);pid:base64(cursor);...")
func mrgDecodeCursor(c string) (map[int]string, error) {
	out := map[int]string{}
	if c == "" {
		return out, nil
	}
	raw, err := base64.StdEncoding.DecodeString(c)
	if err != nil {
		return nil, err
	}
	for _, ent := range strings.Split(strings.TrimRight(string(raw), ";"), ";") {
		i := strings.IndexByte(ent, ':')
		if i < 0 {
			return nil, fmt.Errorf("bad cursor entry %q", ent)
		}
		pid, err := strconv.Atoi(ent[:i])
		if err != nil {
			return nil, err
		}
		cur, err := base64.StdEncoding.DecodeString(ent[i+1:])
		if err != nil {
			return nil, err
		}
		out[pid] = string(cur)
	}
	return out, nil
}

func (d *mrgDrv) encodeCursor(ents map[int]string) string {
	s := ""
	for p := 0; p < d.P; p++ {
		if c, ok := ents[p]; ok {
			s += strconv.Itoa(p) + ":" + base64.StdEncoding.EncodeToString([]byte(c)) + ";"
		}
	}
	return base64.StdEncoding.EncodeToString([]byte(s))
}

// an element of a merged page: key name and, for FULLSCAN, the sub-key position
type mrgEl struct {
	key string
	sub int
}

type mrgPage struct {
	asked map[int]bool // partitions that took part in this request
	els   []mrgEl
	next  map[int]string
	err   string
}

// what one merged iteration does
type mrgPlan struct {
	ty       int
	full     bool // FULLSCAN (elements = (key, sub-key) pairs) instead of SCAN / ADVSCAN (keys)
	adv, rev bool
	count    int
	pat      string
	patKeys  map[int]bool // key positions the pattern matches (nil = all)
	dropAt   int          // >0: before request number dropAt the client removes partition dropPart from the cursor
	dropPart int
	lateJoin int // >=0: this partition is left out of the first request and added (fresh) to the second
}

// parse the element list of a merged reply
func (d *mrgDrv) parseEls(pl mrgPlan, list []interface{}) []mrgEl {
	var out []mrgEl
	str := func(x interface{}) string { b, _ := x.([]byte); return string(b) }
	if !pl.full {
		for _, x := range list {
			out = append(out, mrgEl{key: str(x)})
		}
		return out
	}
	for _, x := range list {
		item, _ := x.([]interface{})
		if len(item) == 0 {
			out = append(out, mrgEl{key: "?", sub: -1})
			continue
		}
		key := str(item[0])
		switch scnTypes[pl.ty] {
		case "kv":
			out = append(out, mrgEl{key, 1})
		case "hash", "zset":
			for _, y := range item[1:] {
				pair, _ := y.([]interface{})
				sp := -1
				if len(pair) == 2 {
					if q, ok := d.spos[str(pair[0])]; ok {
						sp = q
					}
				}
				out = append(out, mrgEl{key, sp})
			}
		case "set":
			for _, y := range item[1:] {
				sp := -1
				if q, ok := d.spos[str(y)]; ok {
					sp = q
				}
				out = append(out, mrgEl{key, sp})
			}
		case "list":
			for _, y := range item[1:] {
				v := str(y)
				sp := -1
				if len(v) == 2 && v[0] == 'v' && v[1] >= '1' && v[1] <= '3' {
					sp = int(v[1] - '0')
				}
				out = append(out, mrgEl{key, sp})
			}
		}
	}
	return out
}

// kRank: the rank of key position kp in the order the iteration walks the keys.  SCAN, ADVSCAN
// and FULLSCAN of kv keys walk "table:key" bytewise (= the pool order).  FULLSCAN of the
// collection types walks the stored element keys, which carry the key behind a length
// prefix: shorter keys first, then bytewise.  The documentation does not define FULLSCAN's
// order; the storage order is taken as the iteration order (completeness, exactly-once and
// termination are what is judged).
func (d *mrgDrv) kRank(pl mrgPlan, kp int) int {
	if !pl.full || scnTypes[pl.ty] == "kv" {
		return kp
	}
	return d.lenRank[kp]
}

// position of an element in the iteration's pool: key scans: the key position; FULLSCAN: the
// (key, sub-key) pair in key-major order
func (d *mrgDrv) elPos(pl mrgPlan, e mrgEl) (pos, kp int) {
	kp, ok := d.pos[e.key]
	if !ok {
		return -1, 0
	}
	if !pl.full {
		return kp, kp
	}
	if e.sub < 1 || e.sub > mrgNS {
		return -1, kp
	}
	return (d.kRank(pl, kp)-1)*mrgNS + e.sub, kp
}

// one merged iteration, then its decomposition into per-partition iterations
func (d *mrgDrv) iterate(pl mrgPlan) {
	name := "scan"
	if pl.adv {
		name = "advscan"
	}
	if pl.full {
		name = "fullscan"
		d.nFull++
	}
	if pl.rev {
		name = strings.Replace(name, "scan", "revscan", 1)
		d.nRev++
	}
	npos := mrgNPos
	if pl.full {
		npos = mrgNPos * mrgNS
	}
	all := map[int]bool{}
	for p := 0; p < d.P; p++ {
		all[p] = true
	}
	cursor := ""
	asked := all
	if pl.rev || pl.lateJoin >= 0 {
		ents := map[int]string{}
		asked = map[int]bool{}
		for p := 0; p < d.P; p++ {
			if p == pl.lateJoin {
				continue
			}
			ents[p] = ""
			if pl.rev {
				ents[p] = mrgUpper
			}
			asked[p] = true
		}
		cursor = d.encodeCursor(ents)
	}
	var pages []mrgPage
	capped := true
	dropped := -1
	for i := 0; i < npos+6; i++ {
		args := []interface{}{name, "default:" + d.table + ":" + cursor}
		if pl.adv || pl.full {
			args = append(args, strings.ToUpper(scnTypes[pl.ty]))
		}
		if pl.pat != "" {
			args = append(args, "match", pl.pat)
		}
		if pl.count > 0 {
			args = append(args, "count", pl.count)
		}
		pg := mrgPage{asked: asked}
		r, err := d.do(args...)
		d.nPage++
		fail := func(msg string) {
			pg.err = msg
			pages = append(pages, pg)
			capped = false
		}
		if err != nil {
			fail(err.Error())
			break
		}
		a, ok := r.([]interface{})
		if !ok || len(a) != 2 {
			fail(fmt.Sprintf("malformed reply %T", r))
			break
		}
		nc, _ := a[0].([]byte)
		ks, _ := a[1].([]interface{})
		pg.els = d.parseEls(pl, ks)
		nx, derr := mrgDecodeCursor(string(nc))
		if derr != nil {
			fail("cursor: " + derr.Error())
			break
		}
		pg.next = nx
		pages = append(pages, pg)
		// the client's manipulation of the cursor between two requests
		ents := map[int]string{}
		for p, c := range nx {
			ents[p] = c
		}
		if pl.dropAt > 0 && i+1 == pl.dropAt {
			if _, ok := ents[pl.dropPart]; ok {
				delete(ents, pl.dropPart)
				dropped = pl.dropPart
				d.nDropped++
			}
		}
		if pl.lateJoin >= 0 && i == 0 {
			ents[pl.lateJoin] = ""
			d.nLateJoin++
		}
		if len(ents) == 0 {
			capped = false
			break
		}
		cursor = d.encodeCursor(ents)
		asked = map[int]bool{}
		for p := range ents {
			asked[p] = true
		}
	}
	d.nIter++
	if pl.count == 0 {
		d.nNoCount++
	}
	if pl.count > 0 && pl.count < d.P {
		d.nBelowP++
	}
	if pl.pat != "" {
		d.nMatch++
	}
	// decomposition (every merged iteration is its own segment of the trace)
	d.tw.Emit(trace.M{"ev": "reset"})
	// COUNT is divided among the partitions that are still asked, so a partition's share grows
	// as others end: its pages are bounded by COUNT itself.  No COUNT, or COUNT below the
	// number of partitions: every partition is asked with 0 = its default page size.
	cnt := 100
	if pl.count >= d.P {
		cnt = pl.count
	}
	m := []int{}
	for k := 1; k <= mrgNPos; k++ {
		if pl.patKeys != nil && !pl.patKeys[k] {
			continue
		}
		if !pl.full {
			m = append(m, k)
			continue
		}
		for s := 1; s <= mrgNS; s++ {
			m = append(m, (d.kRank(pl, k)-1)*mrgNS+s)
		}
	}
	for p := 0; p < d.P; p++ {
		pop := []int{}
		for k := 1; k <= mrgNPos; k++ {
			if len(d.pop[pl.ty][k]) == 0 || d.part(k) != p {
				continue
			}
			if !pl.full {
				pop = append(pop, k)
				continue
			}
			for s := 1; s <= mrgNS; s++ {
				if d.pop[pl.ty][k][s] {
					pop = append(pop, (d.kRank(pl, k)-1)*mrgNS+s)
				}
			}
		}
		start := 0
		if pl.rev {
			start = npos + 1
		}
		d.tw.Emit(trace.M{"ev": "begin", "pop": pop, "cur": start, "cnt": cnt, "rev": pl.rev, "m": m, "pn": false,
			"sp": "merge-" + strings.Replace(name, "rev", "", 1) + ":" + scnTypes[pl.ty], "nc": pl.count == 0, "count": pl.count,
			"part": p, "pat": pl.pat, "dropped": p == dropped, "late": p == pl.lateJoin})
		d.nPart++
		ended := false
		for _, pg := range pages {
			if !pg.asked[p] {
				continue
			}
			els := []int{}
			last := 0
			for _, e := range pg.els {
				ep, kp := d.elPos(pl, e)
				switch {
				case kp == 0 && p == 0:
					els = append(els, -1) // not a key of the scanned table's pool
				case kp != 0 && d.part(kp) == p:
					els = append(els, ep)
					last = ep
				}
			}
			nxt := 0
			if c, ok := pg.next[p]; ok {
				nxt = -1
				if !pl.full {
					if kp, ok := d.pos[c]; ok {
						nxt = kp
					}
				} else if i := strings.IndexByte(c, ':'); i > 0 {
					// the node's FULLSCAN cursor: base64(key) ":" base64(sub-key | list sequence)
					kb, e1 := base64.StdEncoding.DecodeString(c[:i])
					sb, e2 := base64.StdEncoding.DecodeString(c[i+1:])
					if kp, ok := d.pos[string(kb)]; ok && e1 == nil && e2 == nil {
						switch scnTypes[pl.ty] {
						case "kv":
							nxt = (d.kRank(pl, kp)-1)*mrgNS + 1
						case "list":
							// the cursor is an internal sequence number: it designates the last
							// returned element if that is an element of the same key
							if last > 0 && (last-1)/mrgNS+1 == d.kRank(pl, kp) {
								nxt = last
							}
						default:
							if sp, ok := d.spos[string(sb)]; ok {
								nxt = (d.kRank(pl, kp)-1)*mrgNS + sp
							}
						}
					}
				}
			}
			d.tw.Emit(trace.M{"ev": "page", "els": els, "next": nxt, "err": pg.err})
			if nxt == 0 || pg.err != "" {
				ended = true
				break
			}
		}
		if p == dropped && !ended {
			continue // abandoned by the client: no claim about completeness
		}
		d.tw.Emit(trace.M{"ev": "end", "capped": capped && !ended})
	}
}

func mergesim(args []string) error {
	fs := flag.NewFlagSet("mergesim", flag.ExitOnError)
	outp := fs.String("o", "merge", "output prefix; parts are <prefix>.<i>.ndjson")
	parts := fs.Int("parts", 1, "")
	seed := fs.Int64("seed", 1, "")
	nseg := fs.Int("segments", 4, "number of tables (worlds)")
	P := fs.Int("P", 3, "partitions")
	et := fs.String("eng", "pebble", "")
	noCountRev := fs.Bool("nocount-rev", true, "include reverse merged scans without COUNT")
	full := fs.Bool("fullscan", true, "include FULLSCAN iterations")
	fullMatchCount := fs.Bool("fullmatch-count", false, "FULLSCAN with MATCH also with COUNT >= partitions")
	fs.Parse(args)

	dir, err := ioutil.TempDir(os.Getenv("ZR_SCRATCH"), "zrmrg")
	if err != nil {
		return err
	}
	defer os.RemoveAll(dir)
	kv, port, err := mrgStartServer(dir, *et, *P)
	if err != nil {
		return err
	}
	c := goredis.NewClient("127.0.0.1:"+strconv.Itoa(port), "")
	conn, err := c.Get()
	if err != nil {
		return err
	}
	rng := rand.New(rand.NewSource(*seed))
	tws := make([]*trace.Writer, *parts)
	for i := range tws {
		if tws[i], err = trace.Create(fmt.Sprintf("%s.%d.ndjson", *outp, i)); err != nil {
			return err
		}
	}
	d := &mrgDrv{conn: conn, rng: rng, P: *P, pos: map[string]int{}, spos: map[string]int{}}
	for i, n := range mrgNames {
		d.pos[n] = i + 1
	}
	for i, n := range mrgSubs {
		d.spos[n] = i + 1
	}
	d.lenRank = map[int]int{}
	for i, n := range mrgNames {
		r := 1
		for _, o := range mrgNames {
			if len(o) < len(n) || (len(o) == len(n) && o < n) {
				r++
			}
		}
		d.lenRank[i+1] = r
	}
	// MATCH patterns ('*'-prefixed suffixes: SCAN / ADVSCAN / FULLSCAN kv match against
	// "table:key", the others against the key) and the key positions they match by construction
	type pat struct {
		p    string
		keys map[int]bool
	}
	var pats []pat
	for _, suf := range []string{"1", "a", ":", "0"} {
		ks := map[int]bool{}
		for i, n := range mrgNames {
			if strings.HasSuffix(n, suf) {
				ks[i+1] = true
			}
		}
		pats = append(pats, pat{"*" + suf, ks})
	}
	counts := []int{0, 1, 2, *P, *P + 1, 2**P + 1}
	for seg := 0; seg < *nseg; seg++ {
		d.tw = tws[seg%len(tws)]
		d.table = fmt.Sprintf("s%d%dt", *seed, seg)
		decoys := []string{d.table + "x", d.table + "0", "r" + d.table}
		for ty := range scnTypes {
			d.pop[ty] = map[int]map[int]bool{}
			for k := 1; k <= mrgNPos; k++ {
				if rng.Intn(100) < 55 {
					d.pop[ty][k] = map[int]bool{}
					switch scnTypes[ty] {
					case "kv":
						d.write(ty, d.table, k, 1)
						d.pop[ty][k][1] = true
					case "list":
						n := 1 + rng.Intn(mrgNS)
						for s := 1; s <= n; s++ {
							d.write(ty, d.table, k, s)
							d.pop[ty][k][s] = true
						}
					default:
						for s := 1; s <= mrgNS; s++ {
							if rng.Intn(100) < 60 || (s == mrgNS && len(d.pop[ty][k]) == 0) {
								d.write(ty, d.table, k, s)
								d.pop[ty][k][s] = true
							}
						}
					}
				}
				if rng.Intn(100) < 30 {
					d.write(ty, decoys[rng.Intn(len(decoys))], k, 1+rng.Intn(mrgNS))
				}
			}
		}
		base := mrgPlan{lateJoin: -1}
		for _, rev := range []bool{false, true} {
			for _, cnt := range counts {
				if cnt == 0 && rev && !*noCountRev {
					continue
				}
				pl := base
				pl.rev, pl.count = rev, cnt
				d.iterate(pl) // plain SCAN / REVSCAN (kv)
				for ty := range scnTypes {
					if ty == 0 || rng.Intn(2) == 0 {
						pl := base
						pl.ty, pl.adv, pl.rev, pl.count = ty, true, rev, cnt
						d.iterate(pl)
					}
				}
			}
		}
		// MATCH through the merge
		for _, pt := range pats {
			for _, ty := range []int{0, 1 + rng.Intn(4)} {
				pl := base
				pl.ty, pl.adv, pl.rev, pl.count, pl.pat, pl.patKeys = ty, true, rng.Intn(2) == 0, counts[1+rng.Intn(len(counts)-1)], pt.p, pt.keys
				d.iterate(pl)
			}
		}
		// the client edits the cursor: one partition is dropped mid-way / joins one request late;
		// the others must neither end early nor repeat anything
		for i := 0; i < 6; i++ {
			pl := base
			pl.ty, pl.adv, pl.rev, pl.count = rng.Intn(5), true, rng.Intn(2) == 0, []int{*P, *P + 1, 2**P + 1}[rng.Intn(3)]
			if i%2 == 0 {
				pl.dropAt, pl.dropPart = 1+rng.Intn(2), rng.Intn(*P)
			} else if !pl.rev {
				pl.lateJoin = rng.Intn(*P)
			}
			d.iterate(pl)
		}
		if *full {
			for ty := range scnTypes {
				for _, cnt := range []int{0, 1, *P, *P + 2, 3**P + 1} {
					pl := base
					pl.ty, pl.full, pl.count = ty, true, cnt
					d.iterate(pl)
				}
				pt := pats[rng.Intn(len(pats))]
				pl := base
				pl.ty, pl.full, pl.count, pl.pat, pl.patKeys = ty, true, 0, pt.p, pt.keys
				if *fullMatchCount {
					// MATCH together with a COUNT that makes the per-partition page smaller than
					// the data (fixed finding C13-fullscan-match-ends-early)
					pl.count = []int{*P, 2**P + 1}[rng.Intn(2)]
				}
				d.iterate(pl)
				pl = base
				pl.ty, pl.full, pl.count, pl.dropAt, pl.dropPart = ty, true, *P+1, 1, rng.Intn(*P)
				d.iterate(pl)
			}
		}
	}
	for _, tw := range tws {
		tw.Close()
	}
	summary(trace.M{"driver": "mergesim", "eng": *et, "partitions": *P, "segments": *nseg, "merged_iterations": d.nIter,
		"partition_iterations": d.nPart, "merged_pages": d.nPage, "no_count": d.nNoCount, "reverse": d.nRev,
		"count_below_partitions": d.nBelowP, "fullscan": d.nFull, "with_match": d.nMatch, "partition_dropped": d.nDropped,
		"partition_joined_late": d.nLateJoin, "errors": d.nErr})
	// the server's goroutines are not needed any more; leave without a graceful stop
	_ = kv
	os.RemoveAll(dir)
	os.Exit(0)
	return nil
}
