package main

// codecord: enumerates the real order-preserving codec (rockredis.EncodeMemCmpKey / Decode)
// and the real key encoders (through rockredis/verif_export_scan.go) over small adversarial
// alphabets and records, per case, the abstract tuple, its encoding and what decoding the
// encoding gives back.  spec/ZCodecOrdTrace.tla (TLC) evaluates round trip, order
// preservation, injectivity and range containment on every line; this driver only
// enumerates (cases are emitted in ascending order so that checking neighbours covers all
// pairs by transitivity - TLC checks that the enumeration really is ascending in ITS order).

import (
	"flag"
	"fmt"
	"math"
	"math/rand"
	"sort"
	"strings"

	"github.com/youzan/ZanRedisDB/rockredis"
	"zrverif/trace"
)

func init() { commands["codecord"] = codecord }

// ascending pools; a value is logged by its rank (index); -0 and +0 share a rank
var codInts = []int64{math.MinInt64, math.MinInt64 + 1, -1 << 32, -256, -1, 0, 1, 57, 58, 59, 255, 256, 1 << 32, math.MaxInt64 - 1, math.MaxInt64}
var codFloats = []float64{math.Inf(-1), -math.MaxFloat64, -1e300, -1.5, -1, -math.SmallestNonzeroFloat64, math.Copysign(0, -1), 0,
	math.SmallestNonzeroFloat64, 1, 1.5, 1e300, math.MaxFloat64, math.Inf(1)}

func codFloatRank(f float64) int {
	for i, x := range codFloats {
		if x == f { // -0 == +0: both get the rank of the first of the two
			return i
		}
	}
	return -1
}
func codIntRank(v int64) int {
	for i, x := range codInts {
		if x == v {
			return i
		}
	}
	return -1
}

type codComp []int // <<kind, payload...>>
type codTuple []codComp

func codBytes(b []byte) codComp {
	c := make(codComp, 0, len(b)+1)
	c = append(c, 1)
	for _, x := range b {
		c = append(c, int(x))
	}
	return c
}
func codRaw(b []byte) []int {
	c := make([]int, len(b))
	for i, x := range b {
		c[i] = int(x)
	}
	return c
}

// abstract view of a decoded value
func codAbstract(vals []interface{}) codTuple {
	out := codTuple{}
	for _, v := range vals {
		switch x := v.(type) {
		case nil:
			out = append(out, codComp{0})
		case []byte:
			out = append(out, codBytes(x))
		case int64:
			out = append(out, codComp{3, codIntRank(x)})
		case float64:
			out = append(out, codComp{5, codFloatRank(x)})
		default:
			out = append(out, codComp{-1})
		}
	}
	return out
}

// the driver's own ordering of abstract tuples is used ONLY to emit cases in a useful
// order; TLC re-derives the order with its own definition
func codLess(a, b codTuple) bool {
	for i := 0; i < len(a) && i < len(b); i++ {
		x, y := a[i], b[i]
		for j := 0; j < len(x) && j < len(y); j++ {
			if x[j] != y[j] {
				return x[j] < y[j]
			}
		}
		if len(x) != len(y) {
			return len(x) < len(y)
		}
	}
	return len(a) < len(b)
}

type codDrv struct {
	tw                            *trace.Writer
	nTup, nKey, nRng, nPair, nFam int
	byFam                         map[string]int
	maxLen                        int
}

func (d *codDrv) family(name string) {
	d.tw.Emit(trace.M{"ev": "reset", "family": name})
	d.nFam++
}

// one case of the bare codec: vals -> EncodeMemCmpKey -> Decode
func (d *codDrv) tup(fam string, vals []interface{}, chain bool) ([]interface{}, []byte) {
	x := codAbstract(vals)
	enc, err := rockredis.EncodeMemCmpKey(nil, vals...)
	derr := ""
	dec := codTuple{}
	if err != nil {
		derr = "enc: " + err.Error()
	} else {
		func() {
			defer func() {
				if e := recover(); e != nil {
					derr = fmt.Sprintf("PANIC: %v", e)
				}
			}()
			dv, e := rockredis.Decode(enc, len(vals))
			if e != nil {
				derr = e.Error()
				return
			}
			dec = codAbstract(dv)
		}()
	}
	d.tw.Emit(trace.M{"ev": "tup", "x": x, "enc": codRaw(enc), "dec": dec, "derr": derr, "ch": chain})
	d.nTup++
	d.byFam[fam]++
	if len(enc) > d.maxLen {
		d.maxLen = len(enc)
	}
	return vals, enc
}

// sorted, de-duplicated emission of a family of value tuples as one ascending chain
func (d *codDrv) chain(fam string, cases [][]interface{}) {
	sort.SliceStable(cases, func(i, j int) bool { return codLess(codAbstract(cases[i]), codAbstract(cases[j])) })
	d.family(fam)
	for i, c := range cases {
		d.tup(fam, c, i > 0)
	}
}

// all byte strings over alpha of length <= maxLen, in lexicographic order
func codStrings(alpha []byte, maxLen int) [][]byte {
	var out [][]byte
	var rec func(p []byte)
	rec = func(p []byte) {
		out = append(out, append([]byte{}, p...))
		if len(p) == maxLen {
			return
		}
		for _, a := range alpha {
			rec(append(p, a))
		}
	}
	rec(nil)
	return out
}

// strings around the 8-byte group boundaries: a run of one byte of length b followed by
// every suffix of length <= 2
func codBoundary(alpha []byte, bases []int) [][]byte {
	seen := map[string]bool{}
	var out [][]byte
	for _, b := range bases {
		for _, a := range alpha {
			for _, suf := range codStrings(alpha, 2) {
				s := string(append([]byte(strings.Repeat(string([]byte{a}), b)), suf...))
				if !seen[s] {
					seen[s] = true
					out = append(out, []byte(s))
				}
			}
		}
	}
	return out
}

// ------------------------------------------------------------- key encoder families

type codRange struct {
	id          int
	start, stop []byte
	closed      bool
}

func (d *codDrv) rng(r codRange) {
	d.tw.Emit(trace.M{"ev": "rng", "id": r.id, "start": codRaw(r.start), "stop": codRaw(r.stop), "closed": r.closed})
	d.nRng++
}

func (d *codDrv) key(fam string, x codTuple, enc []byte, dec codTuple, derr string, chain bool, own []int) {
	if dec == nil {
		dec = codTuple{}
	}
	d.tw.Emit(trace.M{"ev": "key", "x": x, "enc": codRaw(enc), "dec": dec, "derr": derr, "ch": chain, "own": own})
	d.nKey++
	d.byFam[fam]++
	if len(enc) > d.maxLen {
		d.maxLen = len(enc)
	}
}

func errS(err error) string {
	if err == nil {
		return ""
	}
	return err.Error()
}

var codTabs = []string{"a", "a\x00", "ab", "\x00\x01", "\x01", "a;", "b", strings.Repeat("T", 255)}
var codKeys = []string{"b", "b:c", "b\x00", "\x00\x01", "\x01", "b;", ":", strings.Repeat("k", 8), strings.Repeat("k", 9), "\xff", "\xffk"}
var codSubs = []string{"", "c", ":", ":c", "\x00", "\x00\x00", "\xff", ";", strings.Repeat("s", 8)}

// collection families: hash / set / zset member keys, zset score keys, list, bitmap.
// versioned = the key segment is the wait-compact version key (key, version)
func (d *codDrv) collFamily(dt byte, name string, tabs, keys, subs []string, versioned bool) {
	d.family(name)
	type coll struct {
		t, k  string
		ver   int64
		id    int
		tabID int
	}
	var colls []coll
	id := 0
	tabID := map[string]int{}
	for _, t := range tabs {
		id++
		tabID[t] = id
		s, e := rockredis.VerifScanTableStartEnd(dt, []byte(t))
		d.rng(codRange{id: id, start: s, stop: e})
	}
	vers := []int64{0}
	if versioned {
		vers = []int64{1, 256}
	}
	for _, t := range tabs {
		for _, k := range keys {
			for _, v := range vers {
				id++
				colls = append(colls, coll{t: t, k: k, ver: v, id: id, tabID: tabID[t]})
			}
		}
	}
	seg := func(c coll) []byte {
		if versioned {
			return rockredis.VerifCodecVerKey([]byte(c.k), c.ver)
		}
		return []byte(c.k)
	}
	for _, c := range colls {
		s, e, err := rockredis.VerifScanCollRange(dt, []byte(c.t), seg(c))
		if err != nil {
			continue
		}
		d.rng(codRange{id: c.id, start: s, stop: e, closed: dt == rockredis.ListType})
	}
	lmin, lmax, lini := rockredis.VerifScanListSeqBounds()
	seqs := []int64{lmin, lmin + 1, lini - 1, lini, lini + 1, lmax - 1, lmax}
	idxs := []int64{0, 1024, 2048, 1 << 20}
	for _, c := range colls {
		t, k := []byte(c.t), seg(c)
		base := codTuple{codBytes(t), codBytes(k)}
		own := []int{c.tabID, c.id}
		first := true
		switch dt {
		case rockredis.HashType, rockredis.SetType, rockredis.ZSetType:
			ss := append([]string{}, subs...)
			sort.Strings(ss)
			for _, s := range ss {
				enc := rockredis.VerifScanCollSubKey(dt, t, k, []byte(s))
				dt2, dk, dsub, err := rockredis.VerifScanDecCollSubKey(dt, enc)
				d.key(name, append(append(codTuple{}, base...), codBytes([]byte(s))), enc,
					codTuple{codBytes(dt2), codBytes(dk), codBytes(dsub)}, errS(err), !first, own)
				first = false
			}
		case rockredis.ZScoreType:
			ss := append([]string{}, subs...)
			sort.Strings(ss)
			for _, f := range codFloats {
				if math.IsInf(f, 0) || (f == 0 && math.Signbit(f)) {
					continue // -0 has the rank of +0 (covered by the bare codec families)
				}
				for _, s := range ss {
					enc := rockredis.VerifScanZScoreKey(t, k, []byte(s), f)
					dt2, dk, dm, ds, err := rockredis.VerifScanDecZScoreKey(enc)
					d.key(name, append(append(codTuple{}, base...), codComp{5, codFloatRank(f)}, codBytes([]byte(s))), enc,
						codTuple{codBytes(dt2), codBytes(dk), codComp{5, codFloatRank(ds)}, codBytes(dm)}, errS(err), !first, own)
					first = false
				}
			}
		case rockredis.ListType:
			for i, s := range seqs {
				enc := rockredis.VerifScanListKey(t, k, s)
				dt2, dk, dseq, err := rockredis.VerifScanDecListKey(enc)
				di := -1
				for j, x := range seqs {
					if x == dseq {
						di = j
					}
				}
				d.key(name, append(append(codTuple{}, base...), codComp{3, i}), enc,
					codTuple{codBytes(dt2), codBytes(dk), codComp{3, di}}, errS(err), !first, own)
				first = false
			}
		case rockredis.BitmapType:
			for i, ix := range idxs {
				enc, err := rockredis.VerifScanBitmapKey(t, k, ix)
				if err != nil {
					continue
				}
				dt2, dk, dix, err := rockredis.VerifScanDecBitmapKey(enc)
				di := -1
				for j, x := range idxs {
					if x == dix {
						di = j
					}
				}
				d.key(name, append(append(codTuple{}, base...), codComp{3, i}), enc,
					codTuple{codBytes(dt2), codBytes(dk), codComp{3, di}}, errS(err), !first, own)
				first = false
			}
		}
	}
}

// kv keys and per-type meta keys: ordered by the raw "table:key"; the whole-table delete /
// scan range of a table must contain exactly that table's keys
func (d *codDrv) metaFamily(dt byte, name string, tabs, keys []string) {
	d.family(name)
	st, err := rockredis.VerifScanStoreType(dt)
	if err != nil {
		return
	}
	tabID := map[string]int{}
	for i, t := range tabs {
		tabID[t] = i + 1
		_, mn, mx, err := rockredis.VerifScanTableDeleteRanges(dt, st, []byte(t))
		if err != nil {
			continue
		}
		d.rng(codRange{id: i + 1, start: mn, stop: mx})
	}
	type rk struct{ raw, t string }
	var all []rk
	for _, t := range tabs {
		for _, k := range keys {
			all = append(all, rk{t + ":" + k, t})
		}
	}
	sort.Slice(all, func(i, j int) bool { return all[i].raw < all[j].raw })
	for i, r := range all {
		enc, err := rockredis.VerifScanMetaKey(dt, []byte(r.raw))
		derr := errS(err)
		var dec codTuple
		if err == nil {
			dk, e := rockredis.VerifScanDecMetaKey(st, enc)
			derr = errS(e)
			dec = codTuple{codBytes(dk)}
		}
		d.key(name, codTuple{codBytes([]byte(r.raw))}, enc, dec, derr, i > 0, []int{tabID[r.t]})
	}
}

// the data ranges a whole-table delete removes must contain exactly the table's element keys
func (d *codDrv) tableDeleteFamily(dt byte, metaType byte, name string, tabs, keys, subs []string) {
	d.family(name)
	tabID := map[string]int{}
	id := 0
	for _, t := range tabs {
		data, _, _, err := rockredis.VerifScanTableDeleteRanges(dt, metaType, []byte(t))
		if err != nil {
			continue
		}
		// the first data range is the one of dt's element keys
		id++
		tabID[t] = id
		d.rng(codRange{id: id, start: data[0].Start, stop: data[0].Limit})
	}
	for _, t := range tabs {
		for _, k := range keys {
			for _, s := range subs {
				var enc []byte
				switch dt {
				case rockredis.ListType:
					_, _, ini := rockredis.VerifScanListSeqBounds()
					enc = rockredis.VerifScanListKey([]byte(t), []byte(k), ini+int64(len(s)))
				default:
					enc = rockredis.VerifScanCollSubKey(dt, []byte(t), []byte(k), []byte(s))
				}
				x := codTuple{codBytes([]byte(t)), codBytes([]byte(k)), codBytes([]byte(s))}
				d.key(name, x, enc, x, "", false, []int{tabID[t]})
			}
		}
	}
}

// secondary hash-index keys: [index type][tlen]table:[nlen]name:memcmp(value, sep, pk).  Ranges:
// all keys of one (table, index) and all keys of one (table, index, value)
func (d *codDrv) indexFamily(name string, number bool, tabs, names, pks []string) {
	d.family(name)
	svals := []string{"", "\x00", "a", "a\x00", "aaaaaaaa", "aaaaaaaaa", "b", "\xff"}
	ivals := []int64{codInts[0], -1, 0, 1, 58, 256, codInts[len(codInts)-1]}
	nv := len(svals)
	if number {
		nv = len(ivals)
	}
	enc := func(t, n string, vi int, pk []byte, stop bool) ([]byte, error) {
		if number {
			return rockredis.VerifCodecHsetIndexNumberKey([]byte(t), []byte(n), ivals[vi], pk, stop)
		}
		return rockredis.VerifCodecHsetIndexStringKey([]byte(t), []byte(n), []byte(svals[vi]), pk, stop)
	}
	valComp := func(vi int) codComp {
		if number {
			return codComp{3, codIntRank(ivals[vi])}
		}
		return codBytes([]byte(svals[vi]))
	}
	id := 0
	idxID := map[string]int{}
	valID := map[string]int{}
	for _, t := range tabs {
		for _, n := range names {
			id++
			idxID[t+"\x00|"+n] = id
			s, e := rockredis.VerifCodecHsetIndexRange([]byte(t), []byte(n))
			d.rng(codRange{id: id, start: s, stop: e})
			for vi := 0; vi < nv; vi++ {
				s, err1 := enc(t, n, vi, nil, false)
				e, err2 := enc(t, n, vi, nil, true)
				if err1 != nil || err2 != nil {
					continue
				}
				id++
				valID[fmt.Sprintf("%s\x00|%s\x00|%d", t, n, vi)] = id
				d.rng(codRange{id: id, start: s, stop: e})
			}
		}
	}
	sp := append([]string{}, pks...)
	sort.Strings(sp)
	for _, t := range tabs {
		for _, n := range names {
			first := true
			for vi := 0; vi < nv; vi++ {
				for _, pk := range sp {
					ek, err := enc(t, n, vi, []byte(pk), false)
					if err != nil {
						continue
					}
					x := codTuple{codBytes([]byte(t)), codBytes([]byte(n)), valComp(vi), codBytes([]byte(pk))}
					var dec codTuple
					derr := ""
					if number {
						dt, dn, dv, dpk, e := rockredis.VerifCodecDecHsetIndexNumberKey(ek)
						derr = errS(e)
						dec = codTuple{codBytes(dt), codBytes(dn), codComp{3, codIntRank(dv)}, codBytes(dpk)}
					} else {
						dt, dn, dv, dpk, e := rockredis.VerifCodecDecHsetIndexStringKey(ek)
						derr = errS(e)
						dec = codTuple{codBytes(dt), codBytes(dn), codBytes(dv), codBytes(dpk)}
					}
					d.key(name, x, ek, dec, derr, !first, []int{idxID[t+"\x00|"+n], valID[fmt.Sprintf("%s\x00|%s\x00|%d", t, n, vi)]})
					first = false
				}
			}
		}
	}
}

// the data range of a whole table for kv keys (whole-table delete, FULLSCAN): kv keys have no
// length prefixes, the range is [type table ':' , type table ';') and must hold every key of
// the table whatever its first byte - and no key of any other table
func (d *codDrv) kvTableRangeFamily(name string, tabs, keys []string) {
	d.family(name)
	tabID := map[string]int{}
	for i, t := range tabs {
		data, _, _, err := rockredis.VerifScanTableDeleteRanges(rockredis.KVType, rockredis.KVType, []byte(t))
		if err != nil || len(data) == 0 {
			continue
		}
		tabID[t] = i + 1
		d.rng(codRange{id: i + 1, start: data[0].Start, stop: data[0].Limit})
		// the generic table start / end pair as well
		s, e := rockredis.VerifScanTableStartEnd(rockredis.KVType, []byte(t))
		d.rng(codRange{id: 1000 + i + 1, start: s, stop: e})
	}
	for _, t := range tabs {
		for _, k := range keys {
			raw := t + ":" + k
			enc, err := rockredis.VerifScanMetaKey(rockredis.KVType, []byte(raw))
			if err != nil {
				continue
			}
			x := codTuple{codBytes([]byte(raw))}
			d.key(name, x, enc, x, "", false, []int{tabID[t], 1000 + tabID[t]})
		}
	}
}

func codecord(args []string) error {
	fs := flag.NewFlagSet("codecord", flag.ExitOnError)
	outp := fs.String("o", "codec", "output prefix; parts are <prefix>.<i>.ndjson")
	maxLen := fs.Int("maxlen", 6, "exhaustive byte strings over {00,01,ff} up to this length")
	bmax := fs.Int("bmax", 9, "boundary family: runs up to this length (8-byte groups: 9 / 17)")
	npairs := fs.Int("pairs", 2000, "extra random non-adjacent pairs")
	seed := fs.Int64("seed", 1, "")
	fs.Parse(args)
	rng := rand.New(rand.NewSource(*seed))
	mk := func(i int) *codDrv {
		tw, err := trace.Create(fmt.Sprintf("%s.%d.ndjson", *outp, i))
		if err != nil {
			panic(err)
		}
		return &codDrv{tw: tw, byFam: map[string]int{}}
	}
	alpha := []byte{0x00, 0x01, 0xff}

	// part 0: the bare codec
	d := mk(0)
	var bs [][]interface{}
	for _, s := range codStrings(alpha, *maxLen) {
		bs = append(bs, []interface{}{s})
	}
	d.chain("bytes-exhaustive", bs)
	var bases []int
	for b := 6; b <= *bmax; b++ {
		if b%8 >= 6 || b%8 <= 1 {
			bases = append(bases, b)
		}
	}
	bs = nil
	bstr := codBoundary(alpha, bases)
	for _, s := range bstr {
		bs = append(bs, []interface{}{s})
	}
	d.chain("bytes-group-boundary", bs)
	var is, fl [][]interface{}
	for _, v := range codInts {
		is = append(is, []interface{}{v})
	}
	d.chain("ints", is)
	for _, f := range codFloats {
		fl = append(fl, []interface{}{f})
	}
	d.chain("floats", fl)
	// composite shapes as the data mapping uses them
	ckeys := [][]byte{{}, {0}, []byte("a"), []byte("a\x00"), []byte("aaaaaaaa"), []byte("aaaaaaaa\x00"), []byte("aaaaaaaaa"), {0xff}}
	cmem := [][]byte{{}, {0}, []byte("m"), {0xff}}
	var zs, vk, bm, mixed [][]interface{}
	for _, k := range ckeys {
		for _, sep := range []int64{57, 58, 59} {
			for _, f := range []float64{-1.5, math.Copysign(0, -1), 0, 1, 1e300} {
				for _, sep2 := range []int64{58, 59} {
					for _, m := range cmem {
						zs = append(zs, []interface{}{k, sep, f, sep2, m})
					}
				}
			}
			for _, v := range []int64{0, 1, 256, 1 << 32, math.MaxInt64} {
				vk = append(vk, []interface{}{k, sep, v, sep})
				bm = append(bm, []interface{}{k, sep, v})
			}
		}
		mixed = append(mixed, []interface{}{k}, []interface{}{k, nil}, []interface{}{k, int64(0)}, []interface{}{k, float64(1)},
			[]interface{}{k, []byte{}}, []interface{}{nil, k}, []interface{}{int64(1), k}, []interface{}{float64(0), k})
	}
	d.chain("zscore-shape(bytes,int,float,int,bytes)", zs)
	d.chain("verkey-shape(bytes,int,int,int)", vk)
	d.chain("bitmap-shape(bytes,int,int)", bm)
	d.chain("mixed-shapes", mixed)
	// random non-adjacent pairs over everything above
	d.family("random-pairs")
	all := append(append(append(append([][]interface{}{}, zs...), vk...), mixed...), fl...)
	for _, s := range bstr {
		all = append(all, []interface{}{s})
	}
	for i := 0; i < *npairs; i++ {
		a, b := all[rng.Intn(len(all))], all[rng.Intn(len(all))]
		ea, _ := rockredis.EncodeMemCmpKey(nil, a...)
		eb, _ := rockredis.EncodeMemCmpKey(nil, b...)
		d.tw.Emit(trace.M{"ev": "pair", "xa": codAbstract(a), "ea": codRaw(ea), "xb": codAbstract(b), "eb": codRaw(eb)})
		d.nPair++
	}
	d.tw.Close()

	// part 1: the key encoders
	e := mk(1)
	small := codTabs[:7]
	e.collFamily(rockredis.HashType, "hash-keys", codTabs, codKeys, codSubs, false)
	e.collFamily(rockredis.SetType, "set-keys", small, codKeys, codSubs, false)
	e.collFamily(rockredis.ZSetType, "zset-member-keys", small, codKeys, codSubs, false)
	e.collFamily(rockredis.ZScoreType, "zset-score-keys", small[:5], codKeys[:6], codSubs[:6], false)
	e.collFamily(rockredis.ListType, "list-keys", small, codKeys, nil, false)
	e.collFamily(rockredis.BitmapType, "bitmap-keys", small, codKeys, nil, false)
	e.collFamily(rockredis.HashType, "hash-keys-versioned", small[:5], codKeys[:6], codSubs[:6], true)
	e.collFamily(rockredis.ZScoreType, "zset-score-keys-versioned", small[:4], codKeys[:4], codSubs[:4], true)
	e.collFamily(rockredis.ListType, "list-keys-versioned", small[:5], codKeys[:6], nil, true)
	for _, dt := range []byte{rockredis.KVType, rockredis.HashType, rockredis.ListType, rockredis.SetType, rockredis.ZSetType} {
		e.metaFamily(dt, "meta-keys-"+rockredis.TypeName[dt], codTabs, codKeys)
	}
	ffKeys := append(append([]string{}, codKeys...), "\xff", "\xffk", "\xff\xff\xffz", "\x00", ";", "\xfe\xff")
	e.kvTableRangeFamily("table-data-range-kv", codTabs, ffKeys)
	inames := []string{"f", "f:", "f\x00", "fg", "\x00\x01"}
	e.indexFamily("hash-index-string-keys", false, small, inames, codKeys[:6])
	e.indexFamily("hash-index-number-keys", true, small, inames, codKeys[:6])
	e.tableDeleteFamily(rockredis.HashType, rockredis.HSizeType, "table-delete-range-hash", small, codKeys, codSubs[:5])
	e.tableDeleteFamily(rockredis.SetType, rockredis.SSizeType, "table-delete-range-set", small, codKeys, codSubs[:5])
	e.tableDeleteFamily(rockredis.ZSetType, rockredis.ZSizeType, "table-delete-range-zset", small, codKeys, codSubs[:5])
	e.tableDeleteFamily(rockredis.ListType, rockredis.LMetaType, "table-delete-range-list", small, codKeys, codSubs[:3])
	e.tw.Close()

	fam := map[string]int{}
	for k, v := range d.byFam {
		fam[k] = v
	}
	for k, v := range e.byFam {
		fam[k] = v
	}
	ml := d.maxLen
	if e.maxLen > ml {
		ml = e.maxLen
	}
	summary(trace.M{"driver": "codecord", "codec_tuples": d.nTup, "pairs": d.nPair, "storage_keys": e.nKey, "ranges": e.nRng,
		"families": d.nFam + e.nFam, "by_family": fam, "maxlen": *maxLen, "bmax": *bmax, "longest_encoding": ml})
	return nil
}
