package main

import (
	"fmt"
	"os"

	"github.com/youzan/ZanRedisDB/common"
)

func init() { commands["probe"] = probe }

func probe(args []string) error {
	wd, err := scnOpen("pebble", common.LocalDeletion, os.Getenv("ZR_SCRATCH"))
	if err != nil {
		return err
	}
	defer wd.close()
	for i := 0; i < 131; i++ {
		r := wd.apply("hset", "\xff:h", fmt.Sprintf("f%03d", i), "v")
		if e, ok := r.(error); ok {
			fmt.Println("hset", i, "->", e)
		}
	}
	for i := 0; i < 131; i++ {
		r := wd.apply("sadd", "ok:h", fmt.Sprintf("f%03d", i))
		if e, ok := r.(error); ok {
			fmt.Println("sadd", i, "->", e)
		}
	}
	fmt.Println("panics", wd.panics)
	return nil
}
