package main

// syncsim: cross-cluster log replay against a real receiver (property C19, spec/ZSync.tla).
// A real single-replica data node (small SnapCount, syncer-only mode) receives a source
// cluster's raft log through Server.ApplyRaftReqs - called directly, exactly what the gRPC
// service does - with hostile delivery sequences: duplicates inside a batch, the same batch
// again, stale batches, batches overlapping the synced position, batches cut short by an
// entry the receiver must refuse (the sender then retries), forced snapshots and restarts of
// the receiving raft group.  Sources of delivery sequences:
//   -sim <prefix>   behaviours written by `tlc -simulate file=<prefix>,num=N` for MC_ZSync
//   -random N       N seeded random sequences
// Every source entry is a non-idempotent write (INCR / LPUSH / APPEND).  After each delivery
// the driver waits for the receiver's apply loop (a barrier proposal) and logs the synced
// position and the data; a poller goroutine samples "synced position, then data" all the
// time.  spec/ZSyncTrace.tla decides.

import (
	"context"
	"flag"
	"fmt"
	"io/ioutil"
	"math/rand"
	"os"
	"path/filepath"
	"sort"
	"strconv"
	"strings"
	"sync"
	"time"

	"github.com/youzan/ZanRedisDB/common"
	"github.com/youzan/ZanRedisDB/metric"
	"github.com/youzan/ZanRedisDB/node"
	"github.com/youzan/ZanRedisDB/pkg/wait"
	"github.com/youzan/ZanRedisDB/rockredis"
	"github.com/youzan/ZanRedisDB/server"
	"github.com/youzan/ZanRedisDB/syncerpb"
	"zrverif/graph"
	"zrverif/trace"
)

func init() { commands["syncsim"] = syncsim }

const syCluster = "src"

type syDrv struct {
	eng        string
	base       string
	rng        *rand.Rand
	tw         *trace.Writer
	twMu       sync.Mutex
	cntMu      sync.Mutex
	cs         *ckServer
	n          int
	kinds      []string
	terms      []uint64
	sizes      []int
	keys       []int // key id (1..3) of a "set" entry, 0 otherwise
	ageDays    int   // raft timestamps of the source entries lie this many days in the past
	baseTs     int64
	nseg       int
	cnt        map[string]int
	pollMu     sync.RWMutex // held for writing while the receiver is stopped
	stopPoll   chan struct{}
	pollWg     sync.WaitGroup
	mreal      []int            // model entry j = real entries mreal[j-1]+1 .. mreal[j]
	restarts   bool             // restart the receiver now and then
	multi      []*server.Server // -multi: the receiver is a 3-replica raft group (servers in this process)
	plain      bool             // source without large payloads and APPENDs (long multi-replica runs)
	snapFailed bool             // this receiver has seen a failing remote snapshot
}

func (d *syDrv) emit(m trace.M) {
	d.twMu.Lock()
	d.tw.Emit(m)
	d.twMu.Unlock()
}

// (the poller counts its samples from its own goroutine)
func (d *syDrv) count(k string) {
	d.cntMu.Lock()
	d.cnt[k]++
	d.cntMu.Unlock()
}

// makeSource builds the source log: kinds, terms (non-decreasing), payload sizes.
func (d *syDrv) makeSource(n int) {
	d.n = n
	d.kinds = make([]string, n)
	d.terms = make([]uint64, n)
	d.sizes = make([]int, n)
	d.keys = make([]int, n)
	t := uint64(2)
	for i := 0; i < n; i++ {
		if d.rng.Intn(15) == 0 {
			t++
		}
		d.terms[i] = t
		c := d.rng.Intn(20)
		if d.plain {
			c = d.rng.Intn(14) // incr / lpush / set only
		}
		if i > 0 && d.kinds[i-1] == "set" && d.rng.Intn(3) == 0 && !d.plain {
			c = 14 // a failing batchable write directly behind a batched one (same open write batch)
		}
		switch {
		case c < 5:
			d.kinds[i] = "incr"
		case c < 9:
			d.kinds[i] = "lpush"
		case c < 14:
			// a batchable write (rockredis keeps it in the apply loop's open write batch)
			d.kinds[i] = "set"
			d.keys[i] = 1 + d.rng.Intn(3)
		case c < 16:
			// a batchable write that FAILS when it is applied (field longer than MaxSubKeyLen):
			// no effect, but the entry has been gone through
			d.kinds[i] = "fail"
		default:
			d.kinds[i] = "append"
			d.sizes[i] = len(syToken(i+1, 0))
			if d.rng.Intn(6) == 0 {
				// a large value: its write takes long enough for the poller to look in between
				pad := 200000 + d.rng.Intn(300000)
				d.sizes[i] = len(syToken(i+1, pad))
			}
		}
	}
	d.baseTs = time.Now().UnixNano() - int64(d.ageDays)*86400*int64(time.Second)
}

func syToken(i, pad int) string {
	return "#" + strconv.Itoa(i) + ":" + strings.Repeat("x", pad)
}

// entry builds source entry i (1-based) as the syncer would ship it.
func (d *syDrv) entry(i int, corrupt bool) syncerpb.RaftLogData {
	rl := d.reqList(i)
	data, _ := rl.Marshal()
	ts := rl.Timestamp
	if corrupt {
		ts++ // the receiver refuses an entry whose raft timestamp does not match its payload
	}
	return syncerpb.RaftLogData{Type: syncerpb.EntryNormalRaw, ClusterName: syCluster, RaftGroupName: "default-0",
		Term: d.terms[i-1], Index: uint64(i), RaftTimestamp: ts, Data: data}
}

// reqList: source entry i as it stands in the source cluster's raft log.
func (d *syDrv) reqList(i int) node.BatchInternalRaftRequest {
	var args [][]byte
	switch d.kinds[i-1] {
	case "incr":
		args = [][]byte{[]byte("incr"), []byte("t:cnt")}
	case "lpush":
		args = [][]byte{[]byte("lpush"), []byte("t:lst"), []byte(strconv.Itoa(i))}
	case "set":
		args = [][]byte{[]byte("set"), []byte("t:k" + strconv.Itoa(d.keys[i-1])), []byte("s" + strconv.Itoa(i))}
	case "fail":
		args = [][]byte{[]byte("hmset"), []byte("t:h"), []byte(strings.Repeat("f", common.MaxSubKeyLen+50)), []byte("v")}
	default:
		base := len(syToken(i, 0))
		args = [][]byte{[]byte("append"), []byte("t:str"), []byte(syToken(i, d.sizes[i-1]-base))}
	}
	cmd := common.BuildCommand(args)
	var rl node.BatchInternalRaftRequest
	rl.ReqNum = 1
	rl.Timestamp = d.baseTs + int64(i)*1000
	rl.OrigCluster = syCluster
	rl.Reqs = append(rl.Reqs, node.InternalRaftRequest{
		Header: node.RequestHeader{ID: uint64(100000 + i), DataType: 0, Timestamp: rl.Timestamp}, Data: cmd.Raw})
	return rl
}

// ------------------------------------------------------------------ the real sender

type syClusterInfo struct{}

func (syClusterInfo) GetClusterName() string { return syCluster }
func (syClusterInfo) GetSnapshotSyncInfo(string) ([]common.SnapshotSyncInfo, error) {
	return nil, nil
}
func (syClusterInfo) UpdateMeForNamespaceLeader(string) (bool, error) { return true, nil }

// newSender: one incarnation of the source cluster's log syncer - the real logSyncerSM with its send
// loop and gRPC sender, pointed at the receiver's gRPC port.
func (d *syDrv) newSender() (node.StateMachine, error) {
	return node.NewStateMachine(&node.KVOptions{}, node.MachineConfig{LearnerRole: common.LearnerRoleLogSyncer,
		RemoteSyncCluster: "test://127.0.0.1:" + strconv.Itoa(d.cs.grpc)}, 1, "default-0", syClusterInfo{}, wait.New(), nil)
}

// senderSaid waits until the sender itself reports everything up to m as synced.
func senderSaid(sm node.StateMachine, m int, rounds int) bool {
	st, ok := sm.(interface {
		GetLogSyncStats() (metric.LogSyncStats, metric.LogSyncStats)
	})
	if !ok {
		return false
	}
	for w := 0; w < rounds; w++ {
		if _, synced := st.GetLogSyncStats(); synced.Index >= uint64(m) {
			return true
		}
		time.Sleep(20 * time.Millisecond)
	}
	return false
}

// feed plays source entries lo..hi into a sender's state machine, as the syncer learner's raft does
// when it applies (or, after a restart, replays) its log; pause > 0: with small random pauses, so that
// the running send loop cuts the stream into several batches.
func (d *syDrv) feed(sm node.StateMachine, lo, hi int, pause bool, stop chan struct{}) {
	for i := lo; i <= hi; i++ {
		sm.ApplyRaftRequest(false, nil, d.reqList(i), d.terms[i-1], uint64(i), stop)
		if pause && d.rng.Intn(3) == 0 {
			time.Sleep(time.Duration(d.rng.Intn(400)) * time.Microsecond)
		}
	}
}

func seqInts(lo, hi int) []int {
	var b []int
	for i := lo; i <= hi; i++ {
		b = append(b, i)
	}
	return b
}

// senderRound: what the sending side does, with the real sender, in one of several shapes:
//
//	prefed       a restarted sender whose raft replays j..m (j at or below the destination's position) before
//	             its send loop runs: ONE buffered batch that overlaps the destination's position
//	stream       the loop runs first, the entries follow with pauses: Buffer / Flush interleave, several batches
//	recvrestart  as one of the above, and the RECEIVER is stopped and started while the batch is in flight:
//	             the sender's rpc fails (group not ready) and is retried until it gets through
//	two          two incarnations (the old leader's syncer still flushing while the new one starts) with
//	             overlapping ranges, running at the same time
//
// Whatever happens on the way, when a sender reports m as synced the destination must be at m (or beyond),
// and its data must be the source prefix with every entry once.
func (d *syDrv) senderRound() {
	k := d.synced()
	if k+24 > d.n || d.multi != nil {
		return
	}
	shape := []string{"prefed", "stream", "recvrestart", "two", "notready", "stream", "handover", "notready"}[d.rng.Intn(8)]
	if (shape == "recvrestart" || shape == "notready") && !d.restarts {
		shape = "stream"
	}
	j := clampInt(k+1-d.rng.Intn(7), 1, k+1)
	if d.rng.Intn(6) == 0 {
		j = clampInt(k-20-d.rng.Intn(20), 1, k+1) // a sender that lost much of its own progress
	}
	m := k + 1 + d.rng.Intn(10)
	stop := make(chan struct{})
	a, err := d.newSender()
	if err != nil {
		return
	}
	batch := seqInts(j, m)
	hi := m
	var b node.StateMachine
	j2, m2 := 0, 0
	if shape == "two" {
		if b, err = d.newSender(); err != nil {
			return
		}
		j2 = clampInt(k+1-d.rng.Intn(5), 1, k+1)
		m2 = k + 1 + d.rng.Intn(14)
		batch = append(batch, seqInts(j2, m2)...)
		if m2 > hi {
			hi = m2
		}
	}
	if shape == "handover" {
		d.handover(a, k, j, m, stop)
		return
	}
	d.emit(trace.M{"ev": "send", "batch": batch})
	restarted := make(chan error, 1)
	if shape == "recvrestart" {
		delay := time.Duration(d.rng.Intn(1500)) * time.Microsecond
		go func() {
			time.Sleep(delay)
			restarted <- d.restart()
		}()
	} else {
		restarted <- nil
	}
	switch shape {
	case "notready":
		// the send loop is running (it has fetched the destination's position); then the receiving raft
		// group goes away for most of a second while the server stays up: the batch is answered with
		// 404 "raft group not ready" - not delivered - and has to be sent again until it is taken
		a.Start()
		time.Sleep(60 * time.Millisecond)
		down := time.Duration(400+d.rng.Intn(500)) * time.Millisecond
		<-restarted
		go func() { restarted <- d.restartDown(down) }()
		time.Sleep(40 * time.Millisecond)
		d.feed(a, j, m, false, stop)
	case "prefed":
		d.feed(a, j, m, false, stop)
		a.Start()
	case "two":
		d.feed(a, j, m, false, stop)
		done := make(chan struct{})
		go func() {
			b.Start()
			d.feedOther(b, j2, m2, stop)
			close(done)
		}()
		a.Start()
		<-done
	default:
		a.Start()
		d.feed(a, j, m, true, stop)
	}
	said := senderSaid(a, m, 900)
	if b != nil {
		said = senderSaid(b, m2, 900) && said
	}
	rerr := <-restarted
	a.Close()
	if b != nil {
		b.Close()
	}
	code, msg := 0, ""
	if !said {
		code, msg = 1, "a sender did not report its entries as synced in time"
	}
	d.emit(trace.M{"ev": "deliver", "batch": batch, "bad": 0, "code": code, "msg": msg, "via": "logSyncerSM-" + shape})
	d.count("deliveries")
	d.count("deliveries_by_real_sender")
	d.count("sender_" + shape)
	if j <= k {
		d.count("sender_batches_overlapping_destination_position")
	}
	if rerr != nil {
		d.emit(trace.M{"ev": "abort", "what": "receiver restart: " + rerr.Error()})
		return
	}
	if shape == "recvrestart" || shape == "notready" {
		d.obs("restart")
		return
	}
	d.obs("deliver")
}

// handover: two learner replicas apply the same source log; `a` is the learner leader and sends, `c`
// is a standby with the ignore-send switch on (its ApplyRaftRequest returns only when the destination
// has the entry).  Then the leader goes away, the standby is switched to sending and carries on.
func (d *syDrv) handover(a node.StateMachine, k, j, m int, stop chan struct{}) {
	c, err := d.newSender()
	if err != nil || !node.VerifSyncSwitchIgnoreSend(c, true) {
		a.Close()
		return
	}
	m2 := m + 1 + d.rng.Intn(6)
	d.emit(trace.M{"ev": "send", "batch": seqInts(j, m2)})
	c.Start()
	fed := make(chan struct{})
	go func() {
		d.feedOther(c, j, m, stop)
		close(fed)
	}()
	a.Start()
	d.feedOther(a, j, m, stop)
	said := senderSaid(a, m, 900)
	select {
	case <-fed:
	case <-time.After(20 * time.Second):
		said = false
	}
	a.Close()
	if said {
		node.VerifSyncSwitchIgnoreSend(c, false)
		d.feedOther(c, m+1, m2, stop)
		said = senderSaid(c, m2, 900)
	}
	close(stop)
	c.Close()
	code, msg := 0, ""
	if !said {
		code, msg = 1, "a sender did not report its entries as synced in time"
	}
	d.emit(trace.M{"ev": "deliver", "batch": seqInts(j, m2), "bad": 0, "code": code, "msg": msg, "via": "logSyncerSM-handover"})
	d.count("deliveries")
	d.count("deliveries_by_real_sender")
	d.count("sender_handover")
	d.obs("deliver")
}

// feedOther: feed for the second incarnation (its own random source would race with the first's).
func (d *syDrv) feedOther(sm node.StateMachine, lo, hi int, stop chan struct{}) {
	for i := lo; i <= hi; i++ {
		sm.ApplyRaftRequest(false, nil, d.reqList(i), d.terms[i-1], uint64(i), stop)
	}
}

// recvServer: the server deliveries go to (multi-replica: the current leader).
func (d *syDrv) recvServer() *server.Server {
	if d.multi == nil {
		return d.cs.kv
	}
	L := ckLeaderOf(d.multi, 20*time.Second)
	if L < 0 {
		L = 0
	}
	return d.multi[L]
}

func (d *syDrv) nd() *node.KVNode {
	n := d.recvServer().GetNamespaceFromFullName("default-0")
	if n == nil {
		return nil
	}
	return n.Node
}

// barrier: a local proposal through the same raft group; when it has been applied, every
// earlier proposal has been applied and its synced position recorded.
func (d *syDrv) barrier() error {
	nd := d.nd()
	if nd == nil {
		return fmt.Errorf("no node")
	}
	var err error
	for k := 0; k < 5; k++ {
		_, err = nd.RedisPropose(common.BuildCommand([][]byte{[]byte("set"), []byte("b:barrier"), []byte("x")}).Raw)
		if err == nil {
			return nil
		}
		time.Sleep(100 * time.Millisecond)
	}
	return err
}

func syIds(s string) []int {
	ids := []int{}
	for _, p := range strings.Split(s, "#")[1:] {
		if k := strings.IndexByte(p, ':'); k > 0 {
			if v, err := strconv.Atoi(p[:k]); err == nil {
				ids = append(ids, v)
			}
		}
	}
	return ids
}

func (d *syDrv) readKV() []int {
	st := d.nd().VerifSyncStore()
	out := []int{0, 0, 0}
	for k := 1; k <= 3; k++ {
		v, _ := st.KVGet([]byte("t:k" + strconv.Itoa(k)))
		if len(v) > 1 {
			out[k-1], _ = strconv.Atoi(string(v[1:]))
		}
	}
	return out
}

func (d *syDrv) readData() (cnt int, lst []int, strids []int, strlen int, err error) {
	st := d.nd().VerifSyncStore()
	v, e := st.KVGet([]byte("t:cnt"))
	if e != nil {
		err = e
	}
	if len(v) > 0 {
		cnt, _ = strconv.Atoi(string(v))
	}
	l, e := st.LRange([]byte("t:lst"), 0, -1)
	if e != nil {
		err = e
	}
	lst = []int{}
	for _, x := range l {
		k, _ := strconv.Atoi(string(x))
		lst = append(lst, k)
	}
	s, e := st.KVGet([]byte("t:str"))
	if e != nil {
		err = e
	}
	return cnt, lst, syIds(string(s)), len(s), err
}

func (d *syDrv) obs(after string) {
	berr := d.barrier()
	nd := d.nd()
	st, si, _ := nd.GetRemoteClusterSyncedRaft(syCluster)
	cnt, lst, strids, strlen, err := d.readData()
	es := ckErrStr(err)
	if berr != nil {
		es = "barrier: " + berr.Error()
	}
	d.emit(trace.M{"ev": "obs", "after": after, "st": st, "si": si, "cnt": cnt, "lst": lst, "strids": strids,
		"strlen": strlen, "kv": d.readKV(), "snapi": nd.GetLastSnapIndex(), "err": es})
	d.count("obs")
}

// deliver hands a batch to the receiver. bad > 0: the entry at that position (1-based) is
// one the receiver must refuse.
func (d *syDrv) deliver(batch []int, bad int) {
	var reqs syncerpb.RaftReqs
	for k, i := range batch {
		reqs.RaftLog = append(reqs.RaftLog, d.entry(i, k+1 == bad))
	}
	// logged before the call: from here on the poller may see effects of these entries
	d.emit(trace.M{"ev": "send", "batch": batch})
	rsp, err := d.recvServer().ApplyRaftReqs(context.Background(), &reqs)
	code, msg := int32(0), ""
	if rsp != nil {
		code, msg = rsp.ErrCode, rsp.ErrMsg
	}
	if err != nil {
		code, msg = -1, err.Error()
	}
	if len(msg) > 80 {
		msg = msg[:80]
	}
	d.emit(trace.M{"ev": "deliver", "batch": batch, "bad": bad, "code": code, "msg": msg})
	d.count("deliveries")
	d.cntMu.Lock()
	d.cnt["entries_delivered"] += len(batch)
	d.cntMu.Unlock()
	d.obs("deliver")
}

func (d *syDrv) forceSnapshot() {
	nd := d.nd()
	before := nd.GetLastSnapIndex()
	nd.BackupDB(false)
	d.barrier()
	// the snapshot is written by another goroutine; give it a moment (not required)
	for k := 0; k < 50 && nd.GetLastSnapIndex() == before; k++ {
		time.Sleep(10 * time.Millisecond)
	}
	d.emit(trace.M{"ev": "snap", "snapi": nd.GetLastSnapIndex()})
	d.count("forced_snapshots")
	d.obs("snap")
}

// remoteSnapFail: the sender announces a snapshot of the source cluster ahead of the synced
// position (NotifyTransferSnap), the transfer succeeds, and applying it (NotifyApplySnap) FAILS
// because the transferred checkpoint is unusable.  A failed snapshot apply must leave the
// receiver where it was.  (Only engines that check a checkpoint before restoring it: pebble.)
func (d *syDrv) remoteSnapFail() {
	s := d.synced()
	if s+4 > d.n || d.eng != "pebble" {
		return
	}
	d.snapFailed = true // a failed snapshot blocks further snapshots of this receiver for 5 minutes
	idx := s + 1 + d.rng.Intn(3)
	term := d.terms[idx-1]
	fake := filepath.Join(d.base, fmt.Sprintf("fakesrc%d-%d", d.nseg, d.cnt["remote_snapshot_apply_failures"]))
	ck := filepath.Join(rockredis.GetBackupDir(fake), rockredis.GetCheckpointDir(term, uint64(idx)))
	os.MkdirAll(ck, 0755)
	ioutil.WriteFile(filepath.Join(ck, "CURRENT"), []byte("not a checkpoint\n"), 0644)
	req := &syncerpb.RaftApplySnapReq{ClusterName: syCluster, RaftGroupName: "default-0", Term: term, Index: uint64(idx),
		SyncAddr: "", SyncPath: fake}
	code := func(r *syncerpb.RpcErr, err error) int32 {
		if err != nil {
			return -1
		}
		if r != nil {
			return r.ErrCode
		}
		return 0
	}
	c1 := code(d.cs.kv.NotifyTransferSnap(context.Background(), req))
	d.barrier()
	for k := 0; k < 100; k++ {
		st, err := d.cs.kv.GetApplySnapStatus(context.Background(), &syncerpb.RaftApplySnapStatusReq{
			ClusterName: syCluster, RaftGroupName: "default-0", Term: term, Index: uint64(idx)})
		if err == nil && st.Status != syncerpb.ApplyWaitingTransfer && st.Status != syncerpb.ApplyWaitingBegin {
			break
		}
		time.Sleep(20 * time.Millisecond)
	}
	c2 := code(d.cs.kv.NotifyApplySnap(context.Background(), req))
	d.emit(trace.M{"ev": "snapfail", "t": term, "i": idx, "c1": c1, "c2": c2})
	d.count("remote_snapshot_apply_failures")
	d.obs("snapfail")
}

// ------------------------------------------------------------------ multi-replica receiver

func (d *syDrv) startCluster() error {
	d.stopReceiver()
	d.stopCluster()
	d.nseg++
	kvs, err := ckStartCluster(filepath.Join(d.base, "cluster"+strconv.Itoa(d.nseg)), d.eng, 3)
	d.multi = kvs
	if err != nil {
		return err
	}
	if ckLeaderOf(kvs, 30*time.Second) < 0 {
		return fmt.Errorf("no leader in the receiving raft group")
	}
	node.SetSyncerOnly(true)
	d.emit(trace.M{"ev": "reset", "snapcount": 0, "eng": d.eng, "replicas": 3})
	return nil
}

func (d *syDrv) stopCluster() {
	for _, kv := range d.multi {
		kv.Stop()
	}
	d.multi = nil
}

// replicaView: what one replica holds (position and a summary of the data).
func (d *syDrv) replicaView(kv *server.Server) string {
	n := kv.GetNamespaceFromFullName("default-0")
	if n == nil {
		return "none"
	}
	_, si, _ := n.Node.GetRemoteClusterSyncedRaft(syCluster)
	st := n.Node.VerifSyncStore()
	c, _ := st.KVGet([]byte("t:cnt"))
	ll, _ := st.LLen([]byte("t:lst"))
	k1, _ := st.KVGet([]byte("t:k1"))
	k2, _ := st.KVGet([]byte("t:k2"))
	k3, _ := st.KVGet([]byte("t:k3"))
	return fmt.Sprintf("%d|%s|%d|%s|%s|%s", si, c, ll, k1, k2, k3)
}

// multiSequence: batches are delivered to the leader through ApplyRaftReqs while leadership is
// transferred to another replica some hundred microseconds into the batch.  After every round
// the group is left alone until all replicas hold the same; only that quiescent state is logged.
func (d *syDrv) multiSequence(rounds, bsz int) error {
	for r := 0; r < rounds; r++ {
		L := ckLeaderOf(d.multi, 20*time.Second)
		if L < 0 {
			return fmt.Errorf("no leader")
		}
		nd := d.multi[L].GetNamespaceFromFullName("default-0").Node
		_, si, _ := nd.GetRemoteClusterSyncedRaft(syCluster)
		s := int(si)
		if s+bsz > d.n {
			break
		}
		var batch []int
		var reqs syncerpb.RaftReqs
		for i := s + 1; i <= s+bsz; i++ {
			batch = append(batch, i)
			reqs.RaftLog = append(reqs.RaftLog, d.entry(i, false))
		}
		to := (L + 1 + d.rng.Intn(2)) % 3
		transfer := d.rng.Intn(5) > 0
		delay := time.Duration(d.rng.Intn(3000)) * time.Microsecond
		done := make(chan struct{})
		go func() {
			if transfer {
				time.Sleep(delay)
				nd.TransferLeadership(uint64(1 + to))
			}
			close(done)
		}()
		d.emit(trace.M{"ev": "send", "batch": batch})
		rsp, err := d.multi[L].ApplyRaftReqs(context.Background(), &reqs)
		<-done
		code, msg := int32(0), ""
		if rsp != nil {
			code, msg = rsp.ErrCode, rsp.ErrMsg
		}
		if err != nil {
			code, msg = -1, err.Error()
		}
		if len(msg) > 80 {
			msg = msg[:80]
		}
		d.emit(trace.M{"ev": "deliver", "batch": batch, "bad": 0, "code": code, "msg": msg})
		d.count("deliveries")
		if transfer {
			d.count("leader_transfers")
		}
		if code != 0 {
			d.count("deliveries_cancelled")
		}
		// quiescence: a leader, a barrier through it, and all replicas equal
		agree := false
		for k := 0; k < 150 && !agree; k++ {
			time.Sleep(40 * time.Millisecond)
			if ckLeaderOf(d.multi, 20*time.Second) < 0 {
				continue
			}
			if d.barrier() != nil {
				continue
			}
			time.Sleep(20 * time.Millisecond)
			v0 := d.replicaView(d.multi[0])
			agree = v0 == d.replicaView(d.multi[1]) && v0 == d.replicaView(d.multi[2])
		}
		if !agree {
			d.emit(trace.M{"ev": "disagree", "views": []string{d.replicaView(d.multi[0]), d.replicaView(d.multi[1]), d.replicaView(d.multi[2])}})
			d.count("replica_disagreements")
			return nil
		}
		d.obs("deliver")
	}
	return nil
}

// applyDirect executes source entry i on a plain store (the source cluster's own state machine).
func (d *syDrv) applyDirect(kv *node.KVStore, i int) {
	ts := d.baseTs + int64(i)*1000
	switch d.kinds[i-1] {
	case "incr":
		kv.Incr(ts, []byte("t:cnt"))
	case "lpush":
		kv.LPush(ts, []byte("t:lst"), []byte(strconv.Itoa(i)))
	case "set":
		kv.KVSet(ts, []byte("t:k"+strconv.Itoa(d.keys[i-1])), []byte("s"+strconv.Itoa(i)))
	case "append":
		kv.Append(ts, []byte("t:str"), []byte(syToken(i, d.sizes[i-1]-len(syToken(i, 0)))))
	}
}

// remoteSnapOk: the source cluster has compacted its log; the sender ships a snapshot instead: a
// checkpoint of the source's data as of entry idx (ahead of the synced position), announced with
// NotifyTransferSnap (fetched through the local copy path) and applied with NotifyApplySnap.
func (d *syDrv) remoteSnapOk() { d.remoteSnapAt(0) }

// remoteSnapAt: at == 0: a snapshot a little ahead of the synced position.
func (d *syDrv) remoteSnapAt(at int) {
	s := d.synced()
	if s+8 > d.n || d.snapFailed {
		return
	}
	idx := s + 2 + d.rng.Intn(5)
	if at > 0 {
		idx = at
	}
	term := d.terms[idx-1]
	srcDir := filepath.Join(d.base, fmt.Sprintf("srcstore%d-%d", d.nseg, d.cnt["remote_snapshots_applied"]))
	opts := &node.KVOptions{DataDir: srcDir, EngType: rockredis.EngType, ExpirationPolicy: common.WaitCompact, DataVersion: common.ValueHeaderV1}
	opts.RockOpts.EngineType = d.eng
	src, err := node.NewKVStore(opts)
	if err != nil {
		return
	}
	for i := 1; i <= idx; i++ {
		d.applyDirect(src, i)
	}
	// (Backup refuses while the store's backup goroutine is not yet waiting for work)
	bi := src.Backup(term, uint64(idx))
	for k := 0; k < 100 && bi == nil; k++ {
		time.Sleep(10 * time.Millisecond)
		bi = src.Backup(term, uint64(idx))
	}
	if bi == nil {
		src.Close()
		return
	}
	bi.WaitReady()
	_, berr := bi.GetResult()
	src.Close()
	if berr != nil {
		return
	}
	req := &syncerpb.RaftApplySnapReq{ClusterName: syCluster, RaftGroupName: "default-0", Term: term, Index: uint64(idx),
		SyncAddr: "", SyncPath: srcDir}
	code := func(r *syncerpb.RpcErr, err error) int32 {
		if err != nil {
			return -1
		}
		if r != nil {
			return r.ErrCode
		}
		return 0
	}
	d.emit(trace.M{"ev": "snapsend", "i": idx})
	c1 := code(d.recvServer().NotifyTransferSnap(context.Background(), req))
	d.barrier()
	for k := 0; k < 150; k++ {
		st, err := d.recvServer().GetApplySnapStatus(context.Background(), &syncerpb.RaftApplySnapStatusReq{
			ClusterName: syCluster, RaftGroupName: "default-0", Term: term, Index: uint64(idx)})
		if err == nil && st.Status != syncerpb.ApplyWaitingTransfer && st.Status != syncerpb.ApplyWaitingBegin {
			break
		}
		time.Sleep(20 * time.Millisecond)
	}
	c2 := code(d.recvServer().NotifyApplySnap(context.Background(), req))
	d.barrier()
	d.emit(trace.M{"ev": "snapok", "t": term, "i": idx, "c1": c1, "c2": c2})
	d.count("remote_snapshots_applied")
	d.obs("snapok")
	os.RemoveAll(srcDir)
}

func (d *syDrv) restart() error { return d.restartDown(50 * time.Millisecond) }

// restartDown: the receiving raft group is stopped, stays away for `down` (the server and its gRPC
// service stay up and answer "raft group not ready", code 404) and is started again.
func (d *syDrv) restartDown(down time.Duration) error {
	d.pollMu.Lock()
	defer d.pollMu.Unlock()
	n := d.cs.kv.GetNamespaceFromFullName("default-0")
	if n == nil {
		return fmt.Errorf("no namespace")
	}
	snapi := n.Node.GetLastSnapIndex()
	n.Close()
	time.Sleep(down)
	var err error
	var nn *node.NamespaceNode
	for k := 0; k < 20; k++ {
		nn, err = d.cs.kv.InitKVNamespace(1, d.cs.nsConf[0], true)
		if err == nil {
			break
		}
		time.Sleep(100 * time.Millisecond)
	}
	if err != nil {
		return err
	}
	if err = nn.Start(false); err != nil {
		return err
	}
	if err = d.cs.waitLeaders(20 * time.Second); err != nil {
		return err
	}
	deadline := time.Now().Add(20 * time.Second)
	for !nn.IsNsNodeFullReady(true) && time.Now().Before(deadline) {
		time.Sleep(20 * time.Millisecond)
	}
	d.emit(trace.M{"ev": "restart", "snapi": snapi})
	d.count("restarts")
	if snapi > 0 {
		d.count("restarts_from_snapshot")
	}
	return nil
}

// poller: reads the synced position FIRST and the data AFTERWARDS, all the time.
func (d *syDrv) poller() {
	defer d.pollWg.Done()
	last := ""
	for {
		select {
		case <-d.stopPoll:
			return
		default:
		}
		d.pollMu.RLock()
		nd := d.nd()
		if nd != nil && nd.VerifSyncStore() != nil {
			_, si, _ := nd.GetRemoteClusterSyncedRaft(syCluster)
			st := nd.VerifSyncStore()
			s, e1 := st.KVGet([]byte("t:str"))
			v, e2 := st.KVGet([]byte("t:cnt"))
			ll, e3 := st.LLen([]byte("t:lst"))
			if e1 == nil && e2 == nil && e3 == nil {
				c := 0
				if len(v) > 0 {
					c, _ = strconv.Atoi(string(v))
				}
				key := fmt.Sprint(si, c, ll, len(s))
				if key != last {
					last = key
					d.emit(trace.M{"ev": "sample", "si": si, "cnt": c, "llen": ll, "strlen": len(s)})
					d.count("samples")
				}
			}
		}
		d.pollMu.RUnlock()
		time.Sleep(20 * time.Microsecond)
	}
}

func (d *syDrv) synced() int {
	_, si, _ := d.nd().GetRemoteClusterSyncedRaft(syCluster)
	return int(si)
}

// startReceiver: fresh receiver = new segment.
func (d *syDrv) startReceiver(snapCount int) error {
	d.stopReceiver()
	d.nseg++
	dir := filepath.Join(d.base, "recv"+strconv.Itoa(d.nseg))
	cs, err := ckStartServer(dir, d.eng, 1, []int{0}, snapCount)
	if err != nil {
		return err
	}
	d.cs = cs
	if err := cs.waitLeaders(30 * time.Second); err != nil {
		return err
	}
	node.SetSyncerOnly(true)
	d.snapFailed = false
	d.emit(trace.M{"ev": "reset", "snapcount": snapCount, "eng": d.eng})
	d.stopPoll = make(chan struct{})
	d.pollWg.Add(1)
	go d.poller()
	return nil
}

func (d *syDrv) stopReceiver() {
	if d.cs == nil {
		return
	}
	close(d.stopPoll)
	d.pollWg.Wait()
	d.cs.kv.Stop()
	os.RemoveAll(d.cs.dir)
	d.cs = nil
}

func clampInt(v, lo, hi int) int {
	if v < lo {
		return lo
	}
	if v > hi {
		return hi
	}
	return v
}

// randomSequence: hostile but gap-free deliveries around the synced position.
func (d *syDrv) randomSequence(steps int) error {
	var lastBatch []int
	for k := 0; k < steps; k++ {
		s := d.synced()
		if s >= d.n {
			break
		}
		switch c := d.rng.Intn(100); {
		case c < 40: // overlapping the synced position on both sides
			lo := clampInt(s+1-d.rng.Intn(5), 1, d.n)
			hi := clampInt(s+d.rng.Intn(6), lo, d.n)
			var b []int
			for i := lo; i <= hi; i++ {
				b = append(b, i)
				if d.rng.Intn(6) == 0 {
					b = append(b, i) // duplicate inside the batch
				}
			}
			bad := 0
			if d.rng.Intn(5) == 0 {
				bad = 1 + d.rng.Intn(len(b)) // cut short; the next deliveries are the retry
			}
			d.deliver(b, bad)
			lastBatch = b
		case c < 52: // the same batch again
			if lastBatch != nil {
				d.deliver(lastBatch, 0)
			}
		case c < 62: // stale: entirely behind the synced position
			if s >= 1 {
				lo := clampInt(s-d.rng.Intn(8), 1, s)
				hi := clampInt(lo+d.rng.Intn(4), lo, s)
				var b []int
				for i := lo; i <= hi; i++ {
					b = append(b, i)
				}
				d.deliver(b, 0)
			}
		case c < 74: // a single entry, twice in a row without waiting in between
			i := clampInt(s+1, 1, d.n)
			d.deliver([]int{i, i, i}, 0)
		case c < 84: // in order
			hi := clampInt(s+1+d.rng.Intn(6), s+1, d.n)
			var b []int
			for i := s + 1; i <= hi; i++ {
				b = append(b, i)
			}
			d.deliver(b, 0)
			lastBatch = b
		case c < 85:
			d.forceSnapshot()
		case c < 89:
			d.senderRound()
		case c < 93:
			// one kind of remote snapshot per receiver (a failed one blocks later ones for minutes)
			if d.nseg%2 == 0 {
				d.remoteSnapFail()
			} else {
				d.remoteSnapOk()
			}
		default:
			if !d.restarts {
				continue
			}
			if err := d.restart(); err != nil {
				return err
			}
			d.obs("restart")
		}
	}
	return nil
}

// simSequence executes one TLC-generated behaviour of MC_ZSync: maximal runs of RecvEntry
// labels form one batch; Snapshot / Restart are executed; the apply loop's own steps are
// the receiver's business.
func (d *syDrv) simSequence(steps []graph.Edge, modelN int) error {
	// model entry j stands for a block of real entries
	d.mreal = []int{0}
	for j := 1; j <= modelN; j++ {
		d.mreal = append(d.mreal, d.mreal[j-1]+1+d.rng.Intn(3))
	}
	if d.mreal[modelN] > d.n {
		return fmt.Errorf("source log too short")
	}
	var batch []int
	bad := 0
	flush := func() {
		if len(batch) > 0 {
			d.deliver(batch, bad)
		}
		batch, bad = nil, 0
	}
	for _, e := range steps {
		switch e.Name {
		case "RecvEntry":
			j := ckAtoi(e.Args[0])
			ok := strings.TrimSpace(e.Args[1]) == "TRUE"
			for i := d.mreal[j-1] + 1; i <= d.mreal[j]; i++ {
				batch = append(batch, i)
			}
			if !ok {
				// the proposal of this entry fails: the receiver ends the batch there
				bad = len(batch) - (d.mreal[j] - d.mreal[j-1]) + 1
				flush()
			}
		case "TakeSnapshot":
			flush()
			d.forceSnapshot()
		case "Restart":
			flush()
			if !d.restarts {
				continue
			}
			if err := d.restart(); err != nil {
				return err
			}
			d.obs("restart")
		case "Observe":
			flush()
		case "InstallRemoteSnap":
			// the sender ships a snapshot of the source as of model entry j
			flush()
			j := ckAtoi(e.Args[0])
			if d.mreal[j] > d.synced() {
				d.remoteSnapAt(d.mreal[j])
				if d.synced() < d.mreal[j] {
					// the snapshot could not be produced or applied: what follows in the behaviour
					// presupposes it; end the behaviour here (nothing to judge)
					return nil
				}
			}
		case "ApplyCheck", "ApplyEffect", "ApplySynced", "ApplySnapEntry", "CancelPrefix", "Next":
			// the receiver's apply loop runs by itself
		default:
			panic("unknown action " + e.Label)
		}
	}
	flush()
	return nil
}

func syncsim(args []string) error {
	fs := flag.NewFlagSet("syncsim", flag.ExitOnError)
	sim := fs.String("sim", "", "prefix of behaviour files written by tlc -simulate for MC_ZSync")
	modelN := fs.Int("modeln", 6, "N of the simulated model")
	nrand := fs.Int("random", 0, "number of seeded random delivery sequences (one receiver each)")
	rlen := fs.Int("len", 40, "deliveries per random sequence")
	et := fs.String("eng", "mem", "engine of the receiver: mem | pebble")
	outp := fs.String("o", "sync", "output file prefix (<prefix>.ndjson)")
	seed := fs.Int64("seed", 1, "")
	nsrc := fs.Int("n", 80, "length of the source log")
	perRecv := fs.Int("per", 6, "TLC behaviours executed per receiver (each on a fresh source cluster name is not possible; a receiver is restarted from scratch)")
	nmulti := fs.Int("multi", 0, "number of 3-replica receivers driven with leader transfers during pipelined batches (-len rounds each)")
	mbatch := fs.Int("mbatch", 200, "multi: entries per batch")
	age := fs.Int("agedays", 0, "raft timestamps of the source entries lie this many days in the past (an old backlog)")
	restarts := fs.Bool("restarts", true, "restart the receiving raft group from its snapshot now and then")
	fs.Parse(args)
	_ = perRecv

	ckSilence()
	realOut := os.Stdout
	if devnull, err := os.OpenFile(os.DevNull, os.O_WRONLY, 0); err == nil {
		os.Stdout = devnull
	}
	base, err := ioutil.TempDir(os.Getenv("ZR_SCRATCH"), "zrsync")
	if err != nil {
		return err
	}
	defer os.RemoveAll(base)
	tw, err := trace.Create(*outp + ".ndjson")
	if err != nil {
		return err
	}
	d := &syDrv{eng: *et, base: base, rng: rand.New(rand.NewSource(*seed)), tw: tw, cnt: map[string]int{}, restarts: *restarts, ageDays: *age, plain: *nmulti > 0}
	d.makeSource(*nsrc)
	d.emit(trace.M{"ev": "source", "n": d.n, "kinds": d.kinds, "terms": d.terms, "sizes": d.sizes, "keys": d.keys, "agedays": d.ageDays})
	failed := 0
	guard := func(f func() error) {
		defer func() {
			if r := recover(); r != nil {
				d.emit(trace.M{"ev": "panic", "what": fmt.Sprint(r)})
				d.count("panics")
			}
		}()
		if err := f(); err != nil {
			// environmental (a restart that did not come back, ...): end the segment
			d.emit(trace.M{"ev": "abort", "what": err.Error()})
			failed++
		}
	}
	nsim := 0
	if *sim != "" {
		files, _ := filepath.Glob(*sim + "_*")
		sort.Strings(files)
		for _, f := range files {
			steps, err := loadSimLabels(f)
			if err != nil {
				return err
			}
			if len(steps) == 0 {
				continue
			}
			nsim++
			guard(func() error {
				if err := d.startReceiver(3 + d.rng.Intn(6)); err != nil {
					return err
				}
				return d.simSequence(steps, *modelN)
			})
		}
	}
	for k := 0; k < *nmulti; k++ {
		guard(func() error {
			if err := d.startCluster(); err != nil {
				return err
			}
			return d.multiSequence(*rlen, *mbatch)
		})
	}
	d.stopCluster()
	for k := 0; k < *nrand; k++ {
		guard(func() error {
			if err := d.startReceiver(3 + d.rng.Intn(8)); err != nil {
				return err
			}
			return d.randomSequence(*rlen)
		})
	}
	d.stopReceiver()
	tw.Close()
	os.Stdout = realOut
	summary(map[string]interface{}{"driver": "syncsim", "engine": *et, "seed": *seed, "segments": d.nseg,
		"sim_behaviours": nsim, "random_sequences": *nrand, "events": tw.N, "aborted": failed, "counts": d.cnt,
		"source_entries": d.n})
	return nil
}
