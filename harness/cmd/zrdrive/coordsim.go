package main

// coordsim: replays behaviours of spec/ZCoord.tla (TLC -simulate files; only the action
// labels are parsed) on the REAL placement-driver coordinator:
//   Migrate(src)        -> handleNamespaceMigrate
//   PlanAdd(n,src)      -> IsAllISRFullReady + addNamespaceToNode      (as addNodeToNamespaceAndWaitReady does)
//   PlanRemove(n,src)   -> IsAllISRFullReady + removeNamespaceFromNode (as its three callers do)
//   Finish(src)         -> removeNamespaceFromRemovings
//   CheckRound          -> doCheckNamespaces (twice: the first round only notes the partition)
//   Snapshot            -> the coordinator re-reads its copy ("snap") of the record
//   NodeDown/NodeUp/SyncLost/SyncBack/RaftJoin/RaftLeave -> the scripted environment
// over the in-memory register (cluster.VerifMemRegister, compare-and-swap on the epoch) and
// loopback HTTP stubs that answer /cluster/israftsynced and /cluster/members as scripted.
// src = "snap" hands the coordinator its earlier, possibly stale copy of the record.
// The script only steers: when the real coordinator decided differently from the model the
// remaining labels are still executed on whatever state the real system is in.  Every
// UpdateNamespacePartReplicaInfo call is logged with the complete record; the driver never
// judges - spec/ZCoordTrace.tla decides.

import (
	"bufio"
	"encoding/json"
	"flag"
	"fmt"
	"math/rand"
	"net"
	"net/http"
	"os"
	"path/filepath"
	"regexp"
	"sort"
	"strconv"
	"strings"
	"sync"
	"time"

	"github.com/youzan/ZanRedisDB/cluster"
	"github.com/youzan/ZanRedisDB/cluster/pdnode_coord"
	"github.com/youzan/ZanRedisDB/common"
	"zrverif/trace"
)

func init() { commands["coordsim"] = coordsim }

const coNS = "vns"

type coStub struct {
	mu       sync.Mutex
	down     map[int]bool
	unsynced map[int]bool
	members  map[int]uint64 // node -> raft id, as every answering node reports it
	nreq     int
}

type coNode struct {
	num  int
	info cluster.NodeInfo
}

type coDrv struct {
	st     *coStub
	nodes  []coNode // index num-1
	byID   map[string]int
	tw     *trace.Writer
	rng    *rand.Rand
	R, N   int
	K      int // replicas of the initial layout (<= R)
	reg    *cluster.VerifMemRegister
	pd     *pdnode_coord.PDCoordinator
	alive  map[int]bool
	epoch  int64
	snap   *cluster.PartitionMetaInfo
	wait   map[string]map[int]time.Time
	stats  map[string]int
	sample []interface{}
}

func (d *coDrv) startNode(num int) error {
	ln, err := net.Listen("tcp", "127.0.0.1:0")
	if err != nil {
		return err
	}
	port := ln.Addr().(*net.TCPAddr).Port
	var n cluster.NodeInfo
	n.RegID = uint64(num)
	n.NodeIP = "127.0.0.1"
	n.RedisPort = strconv.Itoa(10000 + num)
	n.HttpPort = strconv.Itoa(port)
	n.Tags = map[string]interface{}{cluster.DCInfoTag: fmt.Sprintf("dc%d", 1+num%2)}
	n.ID = cluster.GenNodeID(&n, "datanode")
	st := d.st
	mux := http.NewServeMux()
	mux.HandleFunc(common.APIIsRaftSynced+"/", func(w http.ResponseWriter, r *http.Request) {
		st.mu.Lock()
		st.nreq++
		bad := st.down[num] || st.unsynced[num]
		st.mu.Unlock()
		w.Header().Set("Connection", "close")
		if bad {
			http.Error(w, "not synced", 500)
			return
		}
		w.Write([]byte("{}"))
	})
	mux.HandleFunc(common.APIGetMembers+"/", func(w http.ResponseWriter, r *http.Request) {
		st.mu.Lock()
		st.nreq++
		dn := st.down[num]
		ms := make([]common.MemberInfo, 0, len(st.members))
		for node, rid := range st.members {
			ms = append(ms, common.MemberInfo{ID: rid, NodeID: uint64(node)})
		}
		st.mu.Unlock()
		w.Header().Set("Connection", "close")
		if dn {
			http.Error(w, "down", 503)
			return
		}
		sort.Slice(ms, func(a, b int) bool { return ms[a].NodeID < ms[b].NodeID })
		b, _ := json.Marshal(ms)
		w.Write(b)
	})
	go http.Serve(ln, mux)
	d.nodes = append(d.nodes, coNode{num: num, info: n})
	d.byID[n.ID] = num
	return nil
}

func (d *coDrv) num(id string) int { return d.byID[id] } // 0 = unknown node

type coRec struct {
	Nodes []int       `json:"nodes"`
	IDs   [][2]uint64 `json:"ids"`
	Rem   [][2]uint64 `json:"rem"`
	MaxID int64       `json:"maxid"`
	Epoch int64       `json:"epoch"`
}

func (d *coDrv) rec(p *cluster.PartitionReplicaInfo, epoch int64) coRec {
	r := coRec{Nodes: []int{}, IDs: [][2]uint64{}, Rem: [][2]uint64{}, MaxID: p.MaxRaftID, Epoch: epoch}
	for _, id := range p.RaftNodes {
		r.Nodes = append(r.Nodes, d.num(id))
	}
	for id, rid := range p.RaftIDs {
		r.IDs = append(r.IDs, [2]uint64{uint64(d.num(id)), rid})
	}
	for id, ri := range p.Removings {
		r.Rem = append(r.Rem, [2]uint64{uint64(d.num(id)), ri.RemoveReplicaID})
	}
	sort.Slice(r.IDs, func(a, b int) bool { return r.IDs[a][0] < r.IDs[b][0] || (r.IDs[a][0] == r.IDs[b][0] && r.IDs[a][1] < r.IDs[b][1]) })
	sort.Slice(r.Rem, func(a, b int) bool { return r.Rem[a][0] < r.Rem[b][0] })
	return r
}

func (d *coDrv) aliveMap() map[string]cluster.NodeInfo {
	m := make(map[string]cluster.NodeInfo)
	for _, n := range d.nodes[:d.N] {
		if d.alive[n.num] {
			m[n.info.ID] = n.info
		}
	}
	return m
}

func (d *coDrv) logMembers() {
	d.st.mu.Lock()
	ms := make([][2]uint64, 0, len(d.st.members))
	for n, rid := range d.st.members {
		ms = append(ms, [2]uint64{uint64(n), rid})
	}
	d.st.mu.Unlock()
	sort.Slice(ms, func(a, b int) bool { return ms[a][0] < ms[b][0] })
	d.tw.Emit(trace.M{"ev": "members", "m": ms})
}

// begin starts a new scenario: fresh register, namespace with one partition on nodes 1..R.
func (d *coDrv) begin(info string) error {
	d.st.mu.Lock()
	d.st.down = map[int]bool{}
	d.st.unsynced = map[int]bool{}
	d.st.members = map[int]uint64{}
	d.st.mu.Unlock()
	d.alive = map[int]bool{}
	al := []int{}
	for i := 1; i <= d.N; i++ {
		d.alive[i] = true
		al = append(al, i)
	}
	d.tw.Emit(trace.M{"ev": "reset", "R": d.R, "N": d.N, "K": d.K, "alive": al, "info": info})
	d.reg = cluster.NewVerifMemRegister()
	if err := d.reg.CreateNamespace(coNS, &cluster.NamespaceMetaInfo{PartitionNum: 1, Replica: d.R}); err != nil {
		return err
	}
	pri := cluster.PartitionReplicaInfo{RaftIDs: map[string]uint64{}, Removings: map[string]cluster.RemovingInfo{}}
	for i := 1; i <= d.K; i++ {
		id := d.nodes[i-1].info.ID
		pri.RaftNodes = append(pri.RaftNodes, id)
		pri.MaxRaftID++
		pri.RaftIDs[id] = uint64(pri.MaxRaftID)
		d.st.members[i] = uint64(pri.MaxRaftID)
	}
	pri.MaxRaftID = int64(d.R) // K < R: a partition that lost replicas earlier, their ids are used up
	if err := d.reg.UpdateNamespacePartReplicaInfo(coNS, 0, &pri, 0); err != nil {
		return err
	}
	d.tw.Emit(trace.M{"ev": "init", "rec": d.rec(&pri, int64(cluster.VerifReplicaEpoch(&pri)))})
	d.reg.OnUpdate = func(u cluster.VerifUpdate) {
		gen := u.NewGen
		if !u.OK {
			gen = u.OldGen
		}
		d.tw.Emit(trace.M{"ev": "update", "ok": u.OK, "oldgen": int64(u.OldGen), "rec": d.rec(&u.Info, int64(gen))})
		if u.OK {
			d.stats["writes_ok"]++
		} else {
			d.stats["writes_cas_failed"]++
		}
	}
	d.pd = pdnode_coord.VerifNewCoordinator(d.reg, "v2", true)
	d.epoch = pdnode_coord.VerifSetNodes(d.pd, d.aliveMap())
	d.snap, _ = d.reg.GetNamespacePartInfo(coNS, 0)
	d.wait = map[string]map[int]time.Time{}
	return nil
}

func (d *coDrv) current() *cluster.PartitionMetaInfo {
	p, err := d.reg.GetNamespacePartInfo(coNS, 0)
	if err != nil {
		panic(err)
	}
	return p
}

func (d *coDrv) copyOf(src string) *cluster.PartitionMetaInfo {
	if src == "snap" {
		return d.snap // the coordinator's own earlier copy (the code updates it after a successful write)
	}
	return d.current()
}

func coErr(e *cluster.CoordErr) string {
	if e == nil {
		return ""
	}
	return e.ErrMsg
}

// call runs one coordinator entry point under recover and logs it.
func (d *coDrv) call(op, src string, n int, f func() string) {
	before := d.stats["writes_ok"]
	var err string
	func() {
		defer func() {
			if e := recover(); e != nil {
				d.tw.Emit(trace.M{"ev": "panic", "op": op, "msg": fmt.Sprint(e)})
				d.stats["panics"]++
				err = "panic"
			}
		}()
		err = f()
	}()
	d.tw.Emit(trace.M{"ev": "call", "op": op, "src": src, "n": n, "err": err})
	d.stats["call_"+op]++
	if d.stats["writes_ok"] > before {
		d.stats["effective_"+op]++
	}
}

func coISR(p *cluster.PartitionMetaInfo) []string { return p.GetISR() }

func (d *coDrv) step(name string, args []string) {
	argN := func(i int) int {
		if i < len(args) {
			v, _ := strconv.Atoi(strings.Trim(args[i], `" `))
			return v
		}
		return 0
	}
	argS := func(i int) string {
		if i < len(args) {
			return strings.Trim(args[i], `" `)
		}
		return "cur"
	}
	switch name {
	case "NodeDown", "NodeUp":
		n := argN(0)
		if n < 1 || n > d.N {
			return
		}
		up := name == "NodeUp"
		if d.alive[n] == up {
			return
		}
		d.alive[n] = up
		d.st.mu.Lock()
		d.st.down[n] = !up
		if !up {
			delete(d.st.unsynced, n)
		}
		d.st.mu.Unlock()
		d.epoch = pdnode_coord.VerifSetNodes(d.pd, d.aliveMap())
		if up {
			d.tw.Emit(trace.M{"ev": "up", "n": n})
		} else {
			d.tw.Emit(trace.M{"ev": "down", "n": n})
		}
		d.stats["env_updown"]++
	case "SyncLost", "SyncBack":
		n := argN(0)
		if n < 1 || n > d.N || (name == "SyncLost" && !d.alive[n]) {
			return
		}
		d.st.mu.Lock()
		if name == "SyncLost" {
			d.st.unsynced[n] = true
		} else {
			delete(d.st.unsynced, n)
		}
		d.st.mu.Unlock()
		if name == "SyncLost" {
			d.tw.Emit(trace.M{"ev": "unsync", "n": n})
		} else {
			d.tw.Emit(trace.M{"ev": "sync", "n": n})
		}
		d.stats["env_sync"]++
	case "RaftJoin", "RaftLeave":
		// the raft group follows the REAL metadata: the named node if the change applies to
		// it, otherwise the smallest node it applies to (the model may have diverged)
		cur := d.current()
		isr := map[int]uint64{}
		for _, id := range coISR(cur) {
			isr[d.num(id)] = cur.RaftIDs[id]
		}
		want := argN(0)
		cands := []int{}
		d.st.mu.Lock()
		if name == "RaftJoin" {
			for n, rid := range isr {
				if d.st.members[n] != rid {
					cands = append(cands, n)
				}
			}
		} else {
			for n, rid := range d.st.members {
				if r2, ok := isr[n]; !ok || r2 != rid {
					cands = append(cands, n)
				}
			}
		}
		sort.Ints(cands)
		pick := 0
		for _, c := range cands {
			if c == want {
				pick = c
			}
		}
		if pick == 0 && len(cands) > 0 {
			pick = cands[0]
		}
		if pick != 0 {
			if name == "RaftJoin" {
				d.st.members[pick] = isr[pick]
			} else {
				delete(d.st.members, pick)
			}
		}
		d.st.mu.Unlock()
		if pick != 0 {
			d.logMembers()
			d.stats["env_raft"]++
		}
	case "Snapshot":
		d.snap = d.current()
		d.tw.Emit(trace.M{"ev": "call", "op": "snapshot", "src": "cur", "n": 0, "err": ""})
	case "Migrate":
		src := argS(0)
		p := d.copyOf(src)
		d.call("migrate", src, 0, func() string {
			return coErr(pdnode_coord.VerifMigrate(d.pd, p, d.aliveMap(), d.epoch))
		})
	case "PlanAdd":
		n, src := argN(0), argS(1)
		if n < 1 || n > d.N {
			return
		}
		p := d.copyOf(src)
		d.call("add", src, n, func() string {
			// the caller's context (addNodeToNamespaceAndWaitReady): a live node, a group that
			// is not yet surplus and reports full readiness
			if !d.alive[n] {
				return "skipped: node not alive"
			}
			if len(coISR(p)) > p.Replica {
				return "skipped: already surplus"
			}
			if ok, err := pdnode_coord.IsAllISRFullReady(p); err != nil || !ok {
				return "skipped: isr not full ready"
			}
			return coErr(pdnode_coord.VerifAddTo(d.pd, p, d.nodes[n-1].info.ID))
		})
	case "PlanRemove":
		n, src := argN(0), argS(1)
		if n < 1 || n > d.N {
			return
		}
		p := d.copyOf(src)
		d.call("remove", src, n, func() string {
			// the callers' context (doCheckNamespaces, rebalanceNamespace, processRemovingNodes)
			if ok, err := pdnode_coord.IsAllISRFullReady(p); err != nil || !ok {
				return "skipped: isr not full ready"
			}
			return coErr(pdnode_coord.VerifRemoveFrom(d.pd, p, d.nodes[n-1].info.ID))
		})
	case "Finish":
		src := argS(0)
		p := d.copyOf(src)
		d.call("finish", src, 0, func() string {
			pdnode_coord.VerifFinishRemovings(d.pd, p)
			return ""
		})
	case "CheckRound":
		d.call("check", "cur", 0, func() string {
			pdnode_coord.VerifCheckNamespaces(d.pd, d.wait, true)
			pdnode_coord.VerifCheckNamespaces(d.pd, d.wait, true)
			return ""
		})
	}
}

var coReLabel = regexp.MustCompile(`^\\\* <([A-Za-z]+)(?:\(([^)]*)\))? line `)

func coReadSim(path string) ([][2]string, error) {
	fh, err := os.Open(path)
	if err != nil {
		return nil, err
	}
	defer fh.Close()
	var out [][2]string
	sc := bufio.NewScanner(fh)
	sc.Buffer(make([]byte, 1<<20), 1<<24)
	for sc.Scan() {
		if m := coReLabel.FindStringSubmatch(sc.Text()); m != nil {
			out = append(out, [2]string{m[1], m[2]})
		}
	}
	return out, sc.Err()
}

func coordsim(args []string) error {
	fs := flag.NewFlagSet("coordsim", flag.ContinueOnError)
	out := fs.String("o", "coord", "output prefix (<o>.0.ndjson)")
	seed := fs.Int64("seed", 1, "seed")
	R := fs.Int("R", 3, "replication factor")
	N := fs.Int("N", 4, "data nodes")
	K := fs.Int("K", 0, "replicas of the initial layout (0 = R); must be a strict majority of R")
	sim := fs.String("sim", "", "directory with TLC -simulate files of MC_ZCoord (every file = one behaviour)")
	script := fs.String("script", "", "a single script: labels separated by ';' e.g. 'NodeDown(2);Migrate(\"cur\")'")
	limit := fs.Int("limit", 0, "replay at most this many behaviours (0 = all)")
	if err := fs.Parse(args); err != nil {
		return err
	}
	cluster.SetLogLevel(0)
	pdnode_coord.VerifSetIntervals(0, 0)
	d := &coDrv{st: &coStub{}, byID: map[string]int{}, rng: rand.New(rand.NewSource(*seed)), R: *R, N: *N,
		stats: map[string]int{}}
	d.K = *K
	if d.K <= 0 || d.K > d.R {
		d.K = d.R
	}
	for i := 1; i <= *N; i++ {
		if err := d.startNode(i); err != nil {
			return err
		}
	}
	tw, err := trace.Create(*out + ".0.ndjson")
	if err != nil {
		return err
	}
	d.tw = tw
	var behaviours [][][2]string
	var names []string
	if *script != "" {
		var b [][2]string
		for _, l := range strings.Split(*script, ";") {
			l = strings.TrimSpace(l)
			if l == "" {
				continue
			}
			nm, as := l, ""
			if i := strings.Index(l, "("); i >= 0 {
				nm, as = l[:i], strings.TrimSuffix(l[i+1:], ")")
			}
			b = append(b, [2]string{nm, as})
		}
		behaviours = append(behaviours, b)
		names = append(names, "script")
	}
	if *sim != "" {
		files, _ := filepath.Glob(filepath.Join(*sim, "sim_*"))
		sort.Strings(files)
		for _, f := range files {
			b, err := coReadSim(f)
			if err != nil {
				return err
			}
			behaviours = append(behaviours, b)
			names = append(names, filepath.Base(f))
		}
	}
	if *limit > 0 && len(behaviours) > *limit {
		behaviours, names = behaviours[:*limit], names[:*limit]
	}
	steps := 0
	for i, b := range behaviours {
		if err := d.begin(fmt.Sprintf("%s R=%d N=%d", names[i], *R, *N)); err != nil {
			return err
		}
		for _, l := range b {
			var as []string
			if l[1] != "" {
				as = strings.Split(l[1], ",")
			}
			d.step(l[0], as)
			steps++
		}
		d.reg.OnUpdate = nil
	}
	tw.Close()
	d.st.mu.Lock()
	nreq := d.st.nreq
	d.st.mu.Unlock()
	summary(map[string]interface{}{"driver": "coordsim", "seed": *seed, "R": *R, "N": *N, "K": d.K, "behaviours": len(behaviours),
		"labels": steps, "events": tw.N, "http_requests_answered": nreq, "stats": d.stats})
	return nil
}
