package main

// coordsim: replays behaviours of spec/ZCoord.tla (TLC -simulate files; only the action
// labels are parsed) on REAL placement-driver coordinators (one per writer w; two = a PD
// leader fail-over in which the old leader keeps acting on its stale copies):
//   Migrate(w,p,src)        -> handleNamespaceMigrate
//   PlanAdd(w,p,n,src)      -> IsAllISRFullReady + addNamespaceToNode      (as addNodeToNamespaceAndWaitReady does)
//   PlanRemove(w,p,n,src)   -> IsAllISRFullReady + removeNamespaceFromNode (as its three callers do)
//   Finish(w,p,src)         -> removeNamespaceFromRemovings
//   CheckRound(w)           -> doCheckNamespaces (twice: the first round only notes the partition)
//   BalanceRound(w)         -> rebalanceNamespace (only with -balance: the real function sleeps 5 s
//                              per move; the raft groups follow the metadata meanwhile)
//   Snapshot(w,p)           -> coordinator w re-reads its copy ("snap") of partition p's record
//   ChangeFactor(r)         -> ChangeNamespaceMetaParam (replication factor)
//   MarkNodeRemoving(n)     -> MarkNodeAsRemoving (the operator takes a data node out of the cluster)
//   MoveOff(w)              -> processRemovingNodes (one round; without -balance it is only called when
//                              no replica needs the add-and-wait path, which sleeps 5 s)
//   NodeDown/NodeUp/SyncLost/SyncBack/RaftJoin(p,n)/RaftLeave(p,n) -> the scripted environment
// over the in-memory register (cluster.VerifMemRegister, compare-and-swap on the epoch) and
// loopback HTTP stubs that answer /cluster/israftsynced and /cluster/members as scripted.
// src = "snap" hands the coordinator its earlier, possibly stale copy of the record.
// The script only steers: when the real coordinator decided differently from the model the
// remaining labels are still executed on whatever state the real system is in.  Every
// UpdateNamespacePartReplicaInfo call is logged with the complete record, and the previous
// layout handed to the placement function is logged before every round; the driver never
// judges - spec/ZCoordTrace.tla decides.

import (
	"bufio"
	"encoding/json"
	"flag"
	"fmt"
	"math/rand"
	"net"
	"net/http"
	"os"
	"path/filepath"
	"regexp"
	"sort"
	"strconv"
	"strings"
	"sync"
	"time"

	"github.com/youzan/ZanRedisDB/cluster"
	"github.com/youzan/ZanRedisDB/cluster/pdnode_coord"
	"github.com/youzan/ZanRedisDB/common"
	"zrverif/trace"
)

func init() { commands["coordsim"] = coordsim }

const coNS = "vns"

type coStub struct {
	mu       sync.Mutex
	down     map[int]bool
	unsynced map[int]bool
	members  map[int]map[int]uint64 // partition -> node -> raft id, as every answering node reports it
	nreq     int
}

type coNode struct {
	num  int
	info cluster.NodeInfo
}

type coDrv struct {
	st     *coStub
	nodes  []coNode // index num-1
	byID   map[string]int
	tw     *trace.Writer
	twmu   sync.Mutex
	rng    *rand.Rand
	R, N   int
	K      int // replicas of the initial layout (<= R)
	P, W   int // partitions of the namespace, coordinators
	staleFactor bool // -stalefactor: coordinators keep copies read before a factor change (isolate stage)
	realBalance bool
	nbal   int
	reg    *cluster.VerifMemRegister
	pds    []*pdnode_coord.PDCoordinator // index w-1
	alive  map[int]bool
	epochs []int64
	snaps  [][]*cluster.PartitionMetaInfo // [w-1][p]
	waits  []map[string]map[int]time.Time
	stats  map[string]int
	sample []interface{}
}

func (d *coDrv) startNode(num int) error {
	ln, err := net.Listen("tcp", "127.0.0.1:0")
	if err != nil {
		return err
	}
	port := ln.Addr().(*net.TCPAddr).Port
	var n cluster.NodeInfo
	n.RegID = uint64(num)
	n.NodeIP = "127.0.0.1"
	n.RedisPort = strconv.Itoa(10000 + num)
	n.HttpPort = strconv.Itoa(port)
	n.Tags = map[string]interface{}{cluster.DCInfoTag: fmt.Sprintf("dc%d", 1+num%2)}
	n.ID = cluster.GenNodeID(&n, "datanode")
	st := d.st
	mux := http.NewServeMux()
	mux.HandleFunc(common.APIIsRaftSynced+"/", func(w http.ResponseWriter, r *http.Request) {
		st.mu.Lock()
		st.nreq++
		bad := st.down[num] || st.unsynced[num]
		st.mu.Unlock()
		w.Header().Set("Connection", "close")
		if bad {
			http.Error(w, "not synced", 500)
			return
		}
		w.Write([]byte("{}"))
	})
	mux.HandleFunc(common.APIGetMembers+"/", func(w http.ResponseWriter, r *http.Request) {
		st.mu.Lock()
		st.nreq++
		dn := st.down[num]
		pid := 0
		if k := strings.LastIndex(r.URL.Path, "-"); k >= 0 {
			pid, _ = strconv.Atoi(r.URL.Path[k+1:])
		}
		ms := make([]common.MemberInfo, 0, len(st.members[pid]))
		for node, rid := range st.members[pid] {
			ms = append(ms, common.MemberInfo{ID: rid, NodeID: uint64(node)})
		}
		st.mu.Unlock()
		w.Header().Set("Connection", "close")
		if dn {
			http.Error(w, "down", 503)
			return
		}
		sort.Slice(ms, func(a, b int) bool { return ms[a].NodeID < ms[b].NodeID })
		b, _ := json.Marshal(ms)
		w.Write(b)
	})
	go http.Serve(ln, mux)
	d.nodes = append(d.nodes, coNode{num: num, info: n})
	d.byID[n.ID] = num
	return nil
}

func (d *coDrv) emit(v interface{}) {
	d.twmu.Lock()
	d.tw.Emit(v)
	d.twmu.Unlock()
}

func (d *coDrv) num(id string) int { return d.byID[id] } // 0 = unknown node

type coRec struct {
	Nodes []int       `json:"nodes"`
	IDs   [][2]uint64 `json:"ids"`
	Rem   [][2]uint64 `json:"rem"`
	MaxID int64       `json:"maxid"`
	Epoch int64       `json:"epoch"`
}

func (d *coDrv) rec(p *cluster.PartitionReplicaInfo, epoch int64) coRec {
	r := coRec{Nodes: []int{}, IDs: [][2]uint64{}, Rem: [][2]uint64{}, MaxID: p.MaxRaftID, Epoch: epoch}
	for _, id := range p.RaftNodes {
		r.Nodes = append(r.Nodes, d.num(id))
	}
	for id, rid := range p.RaftIDs {
		r.IDs = append(r.IDs, [2]uint64{uint64(d.num(id)), rid})
	}
	for id, ri := range p.Removings {
		r.Rem = append(r.Rem, [2]uint64{uint64(d.num(id)), ri.RemoveReplicaID})
	}
	sort.Slice(r.IDs, func(a, b int) bool { return r.IDs[a][0] < r.IDs[b][0] || (r.IDs[a][0] == r.IDs[b][0] && r.IDs[a][1] < r.IDs[b][1]) })
	sort.Slice(r.Rem, func(a, b int) bool { return r.Rem[a][0] < r.Rem[b][0] })
	return r
}

func (d *coDrv) aliveMap() map[string]cluster.NodeInfo {
	m := make(map[string]cluster.NodeInfo)
	for _, n := range d.nodes[:d.N] {
		if d.alive[n.num] {
			m[n.info.ID] = n.info
		}
	}
	return m
}

func (d *coDrv) logMembers(p int) {
	d.st.mu.Lock()
	ms := make([][2]uint64, 0, len(d.st.members[p]))
	for n, rid := range d.st.members[p] {
		ms = append(ms, [2]uint64{uint64(n), rid})
	}
	d.st.mu.Unlock()
	sort.Slice(ms, func(a, b int) bool { return ms[a][0] < ms[b][0] })
	d.emit(trace.M{"ev": "members", "p": p, "m": ms})
}

// begin starts a new scenario: fresh register, namespace with P partitions.  One partition:
// nodes 1..K.  Several partitions: the real v2 placement over nodes 1..N-1 (node N is alive
// but empty, as after joining - a balance round has something to move), cut to K replicas.
func (d *coDrv) begin(info string) error {
	d.st.mu.Lock()
	d.st.down = map[int]bool{}
	d.st.unsynced = map[int]bool{}
	d.st.members = map[int]map[int]uint64{}
	for p := 0; p < d.P; p++ {
		d.st.members[p] = map[int]uint64{}
	}
	d.st.mu.Unlock()
	d.alive = map[int]bool{}
	al := []int{}
	for i := 1; i <= d.N; i++ {
		d.alive[i] = true
		al = append(al, i)
	}
	d.emit(trace.M{"ev": "reset", "R": d.R, "N": d.N, "K": d.K, "P": d.P, "W": d.W, "alive": al, "info": info})
	d.reg = cluster.NewVerifMemRegister()
	if err := d.reg.CreateNamespace(coNS, &cluster.NamespaceMetaInfo{PartitionNum: d.P, Replica: d.R}); err != nil {
		return err
	}
	layout := make([][]string, d.P)
	if d.P == 1 {
		for i := 1; i <= d.K; i++ {
			layout[0] = append(layout[0], d.nodes[i-1].info.ID)
		}
	} else {
		first := make(map[string]cluster.NodeInfo)
		for _, n := range d.nodes[:d.N-1] {
			first[n.info.ID] = n.info
		}
		l, cerr := pdnode_coord.VerifRebalance(coNS, d.P, d.R, nil, first, "v2")
		if cerr != nil {
			return fmt.Errorf("initial layout: %s", cerr.ErrMsg)
		}
		for p := range l {
			layout[p] = l[p][:d.K]
		}
	}
	for p := 0; p < d.P; p++ {
		pri := cluster.PartitionReplicaInfo{RaftIDs: map[string]uint64{}, Removings: map[string]cluster.RemovingInfo{}}
		for _, id := range layout[p] {
			pri.RaftNodes = append(pri.RaftNodes, id)
			pri.MaxRaftID++
			pri.RaftIDs[id] = uint64(pri.MaxRaftID)
			d.st.members[p][d.num(id)] = uint64(pri.MaxRaftID)
		}
		pri.MaxRaftID = int64(d.R) // K < R: a partition that lost replicas earlier, their ids are used up
		if err := d.reg.UpdateNamespacePartReplicaInfo(coNS, p, &pri, 0); err != nil {
			return err
		}
		d.emit(trace.M{"ev": "init", "p": p, "rec": d.rec(&pri, int64(cluster.VerifReplicaEpoch(&pri)))})
	}
	d.reg.OnUpdate = func(u cluster.VerifUpdate) {
		gen := u.NewGen
		if !u.OK {
			gen = u.OldGen
		}
		d.twmu.Lock()
		d.tw.Emit(trace.M{"ev": "update", "p": u.Partition, "ok": u.OK, "oldgen": int64(u.OldGen), "rec": d.rec(&u.Info, int64(gen))})
		if u.OK {
			d.stats["writes_ok"]++
		} else {
			d.stats["writes_cas_failed"]++
		}
		d.twmu.Unlock()
	}
	d.pds, d.epochs, d.snaps, d.waits = nil, nil, nil, nil
	for w := 0; w < d.W; w++ {
		pd := pdnode_coord.VerifNewCoordinator(d.reg, "v2", true)
		d.pds = append(d.pds, pd)
		d.epochs = append(d.epochs, pdnode_coord.VerifSetNodes(pd, d.aliveMap()))
		var sn []*cluster.PartitionMetaInfo
		for p := 0; p < d.P; p++ {
			x, _ := d.reg.GetNamespacePartInfo(coNS, p)
			sn = append(sn, x)
		}
		d.snaps = append(d.snaps, sn)
		d.waits = append(d.waits, map[string]map[int]time.Time{})
	}
	d.nbal = 0
	return nil
}

func (d *coDrv) setNodesAll() {
	for w, pd := range d.pds {
		d.epochs[w] = pdnode_coord.VerifSetNodes(pd, d.aliveMap())
	}
}

// removing returns the node numbers in coordinator w's removing-node table.
func (d *coDrv) removing(w int) map[int]string {
	out := map[int]string{}
	for id, st := range pdnode_coord.VerifRemovingNodes(d.pds[w]) {
		out[d.num(id)] = st
	}
	return out
}

func (d *coDrv) logRemoving(w int) {
	rm := d.removing(w)
	ns := make([]int, 0, len(rm))
	for n := range rm {
		ns = append(ns, n)
	}
	sort.Ints(ns)
	sts := make([]string, 0, len(ns))
	for _, n := range ns {
		sts = append(sts, rm[n])
	}
	d.emit(trace.M{"ev": "rmstates", "ns": ns, "sts": sts})
}

// withFollow runs f while the raft groups follow the real metadata (for the real functions
// that sleep and then wait for readiness).
func (d *coDrv) withFollow(f func()) {
	stop := make(chan struct{})
	var wg sync.WaitGroup
	wg.Add(1)
	go func() {
		defer wg.Done()
		for {
			select {
			case <-stop:
				return
			case <-time.After(300 * time.Millisecond):
				d.follow()
			}
		}
	}()
	f()
	close(stop)
	wg.Wait()
}

// placeIn logs the previous layout the coordinator hands to the placement function.
func (d *coDrv) placeIn(w int) {
	l, cerr := pdnode_coord.VerifCurrentPartitionNodes(d.pds[w], coNS)
	if cerr != nil {
		return
	}
	old := make([][]int, d.P)
	for p := 0; p < d.P; p++ {
		old[p] = []int{}
		if p < len(l) {
			for _, id := range l[p] {
				old[p] = append(old[p], d.num(id))
			}
		}
	}
	d.emit(trace.M{"ev": "placein", "old": old})
}

// follow lets the raft group of every partition follow the REAL metadata (joins of current
// replicas on live nodes, leaves of marked / dropped ones); used while a balance round runs.
func (d *coDrv) follow() {
	for p := 0; p < d.P; p++ {
		cur := d.current(p)
		isr := map[int]uint64{}
		for _, id := range cur.GetISR() {
			isr[d.num(id)] = cur.RaftIDs[id]
		}
		changed := false
		d.st.mu.Lock()
		for n, rid := range isr {
			if d.st.members[p][n] != rid && d.alive[n] {
				d.st.members[p][n] = rid
				changed = true
			}
		}
		for n, rid := range d.st.members[p] {
			if r2, ok := isr[n]; !ok || r2 != rid {
				delete(d.st.members[p], n)
				changed = true
			}
		}
		d.st.mu.Unlock()
		if changed {
			d.logMembers(p)
			d.stats["env_raft"]++
		}
	}
}

func (d *coDrv) current(p int) *cluster.PartitionMetaInfo {
	x, err := d.reg.GetNamespacePartInfo(coNS, p)
	if err != nil {
		panic(err)
	}
	return x
}

func (d *coDrv) copyOf(w, p int, src string) *cluster.PartitionMetaInfo {
	if src == "snap" {
		return d.snaps[w][p] // the coordinator's own earlier copy (the code updates it after a successful write)
	}
	return d.current(p)
}

func coErr(e *cluster.CoordErr) string {
	if e == nil {
		return ""
	}
	return e.ErrMsg
}

// call runs one coordinator entry point under recover and logs it.
func (d *coDrv) call(op, src string, w, p, n int, f func() string) {
	before := d.stats["writes_ok"]
	var err string
	func() {
		defer func() {
			if e := recover(); e != nil {
				d.emit(trace.M{"ev": "panic", "op": op, "msg": fmt.Sprint(e)})
				d.stats["panics"]++
				err = "panic"
			}
		}()
		err = f()
	}()
	d.emit(trace.M{"ev": "call", "op": op, "src": src, "w": w + 1, "p": p, "n": n, "err": err})
	d.stats["call_"+op]++
	if d.stats["writes_ok"] > before {
		d.stats["effective_"+op]++
	}
}

func coISR(p *cluster.PartitionMetaInfo) []string { return p.GetISR() }

func (d *coDrv) step(name string, args []string) {
	argN := func(i int) int {
		if i < len(args) {
			v, _ := strconv.Atoi(strings.Trim(args[i], `" `))
			return v
		}
		return 0
	}
	argS := func(i int) string {
		if i < len(args) {
			return strings.Trim(args[i], `" `)
		}
		return "cur"
	}
	// writer / partition arguments (1-based writer in the labels)
	wp := func(i int) (int, int, bool) {
		w, p := argN(i)-1, argN(i+1)
		return w, p, w >= 0 && w < d.W && p >= 0 && p < d.P
	}
	switch name {
	case "NodeDown", "NodeUp":
		n := argN(0)
		if n < 1 || n > d.N {
			return
		}
		up := name == "NodeUp"
		if d.alive[n] == up {
			return
		}
		d.alive[n] = up
		d.st.mu.Lock()
		d.st.down[n] = !up
		if !up {
			delete(d.st.unsynced, n)
		}
		d.st.mu.Unlock()
		d.setNodesAll()
		if up {
			d.emit(trace.M{"ev": "up", "n": n})
		} else {
			d.emit(trace.M{"ev": "down", "n": n})
		}
		d.stats["env_updown"]++
	case "SyncLost", "SyncBack":
		n := argN(0)
		if n < 1 || n > d.N || (name == "SyncLost" && !d.alive[n]) {
			return
		}
		d.st.mu.Lock()
		if name == "SyncLost" {
			d.st.unsynced[n] = true
		} else {
			delete(d.st.unsynced, n)
		}
		d.st.mu.Unlock()
		if name == "SyncLost" {
			d.emit(trace.M{"ev": "unsync", "n": n})
		} else {
			d.emit(trace.M{"ev": "sync", "n": n})
		}
		d.stats["env_sync"]++
	case "RaftJoin", "RaftLeave":
		// the raft group follows the REAL metadata: the named node if the change applies to
		// it, otherwise the smallest node it applies to (the model may have diverged)
		p := argN(0)
		if p < 0 || p >= d.P {
			return
		}
		cur := d.current(p)
		isr := map[int]uint64{}
		for _, id := range coISR(cur) {
			isr[d.num(id)] = cur.RaftIDs[id]
		}
		want := argN(1)
		cands := []int{}
		d.st.mu.Lock()
		mem := d.st.members[p]
		if name == "RaftJoin" {
			for n, rid := range isr {
				if mem[n] != rid {
					cands = append(cands, n)
				}
			}
		} else {
			for n, rid := range mem {
				if r2, ok := isr[n]; !ok || r2 != rid {
					cands = append(cands, n)
				}
			}
		}
		sort.Ints(cands)
		pick := 0
		for _, c := range cands {
			if c == want {
				pick = c
			}
		}
		if pick == 0 && len(cands) > 0 {
			pick = cands[0]
		}
		if pick != 0 {
			if name == "RaftJoin" {
				mem[pick] = isr[pick]
			} else {
				delete(mem, pick)
			}
		}
		d.st.mu.Unlock()
		if pick != 0 {
			d.logMembers(p)
			d.stats["env_raft"]++
		}
	case "Snapshot":
		w, p, ok := wp(0)
		if !ok {
			return
		}
		d.snaps[w][p] = d.current(p)
		d.emit(trace.M{"ev": "call", "op": "snapshot", "src": "cur", "w": w + 1, "p": p, "n": 0, "err": ""})
	case "ChangeFactor":
		r := argN(0)
		var err error
		d.call("changefactor", "cur", 0, 0, r, func() string {
			err = d.pds[0].ChangeNamespaceMetaParam(coNS, r, "", 0)
			for _, pd := range d.pds {
				pdnode_coord.VerifDrainCheckTrigger(pd)
			}
			if err != nil {
				return err.Error()
			}
			return ""
		})
		if m, e2 := d.reg.GetNamespaceMetaInfo(coNS); e2 == nil && err == nil && m.Replica == r {
			d.emit(trace.M{"ev": "setr", "r": r})
			d.stats["factor_changes"]++
			if !d.staleFactor {
				// avoid (known finding stale-factor-copy): the coordinators re-read their copies
				// after the factor changed, as every check round does
				for w := range d.snaps {
					for p := range d.snaps[w] {
						d.snaps[w][p] = d.current(p)
					}
				}
			}
		}
	case "MarkNodeRemoving":
		n := argN(0)
		if n < 1 || n > d.N {
			return
		}
		if _, ok := d.removing(0)[n]; ok {
			return
		}
		d.call("marknode", "cur", 0, 0, n, func() string {
			if err := d.pds[0].MarkNodeAsRemoving(d.nodes[n-1].info.ID); err != nil {
				return err.Error()
			}
			return ""
		})
		if _, ok := d.removing(0)[n]; ok {
			d.emit(trace.M{"ev": "rmmark", "n": n})
			d.stats["nodes_marked_removing"]++
		}
	case "MoveOff":
		w := argN(0) - 1
		if w < 0 || w >= d.W || len(d.removing(w)) == 0 {
			return
		}
		slowNeeded := false
		rm := d.removing(w)
		for p := 0; p < d.P; p++ {
			cur := d.current(p)
			for _, id := range cur.RaftNodes {
				if _, ok := rm[d.num(id)]; ok && len(cur.GetISR()) <= cur.Replica {
					slowNeeded = true
				}
			}
		}
		if slowNeeded && (!d.realBalance || d.nbal >= 3) {
			d.emit(trace.M{"ev": "call", "op": "moveoff", "src": "cur", "w": w + 1, "p": 0, "n": 0, "err": "skipped: would need the add-and-wait path (5 s sleeps)"})
			return
		}
		if slowNeeded {
			d.nbal++
		}
		d.placeIn(w)
		d.emit(trace.M{"ev": "begin", "op": "moveoff"})
		run := func() {
			d.call("moveoff", "cur", w, 0, 0, func() string {
				pdnode_coord.VerifProcessRemovingNodes(d.pds[w])
				return ""
			})
		}
		if slowNeeded {
			d.withFollow(run)
		} else {
			run()
		}
		d.emit(trace.M{"ev": "end", "op": "moveoff"})
		d.logRemoving(w)
	case "Migrate":
		w, p, ok := wp(0)
		if !ok {
			return
		}
		src := argS(2)
		c := d.copyOf(w, p, src)
		d.placeIn(w)
		d.call("migrate", src, w, p, 0, func() string {
			// as doCheckNamespaces does: the live nodes without those marked for removal
			return coErr(pdnode_coord.VerifMigrate(d.pds[w], c, pdnode_coord.VerifCurrentNodes(d.pds[w]), d.epochs[w]))
		})
	case "PlanAdd":
		w, p, ok := wp(0)
		n, src := argN(2), argS(3)
		if !ok || n < 1 || n > d.N {
			return
		}
		c := d.copyOf(w, p, src)
		d.call("add", src, w, p, n, func() string {
			// the caller's context (addNodeToNamespaceAndWaitReady): a live node, a group that
			// is not yet surplus and reports full readiness
			if !d.alive[n] {
				return "skipped: node not alive"
			}
			if _, rm := d.removing(w)[n]; rm {
				return "skipped: node is being removed"
			}
			if len(coISR(c)) > c.Replica {
				return "skipped: already surplus"
			}
			if ok, err := pdnode_coord.IsAllISRFullReady(c); err != nil || !ok {
				return "skipped: isr not full ready"
			}
			return coErr(pdnode_coord.VerifAddTo(d.pds[w], c, d.nodes[n-1].info.ID))
		})
	case "PlanRemove":
		w, p, ok := wp(0)
		n, src := argN(2), argS(3)
		if !ok || n < 1 || n > d.N {
			return
		}
		c := d.copyOf(w, p, src)
		d.call("remove", src, w, p, n, func() string {
			// the callers' context (doCheckNamespaces, rebalanceNamespace, processRemovingNodes)
			if ok, err := pdnode_coord.IsAllISRFullReady(c); err != nil || !ok {
				return "skipped: isr not full ready"
			}
			return coErr(pdnode_coord.VerifRemoveFrom(d.pds[w], c, d.nodes[n-1].info.ID))
		})
	case "Finish":
		w, p, ok := wp(0)
		if !ok {
			return
		}
		src := argS(2)
		c := d.copyOf(w, p, src)
		d.call("finish", src, w, p, 0, func() string {
			pdnode_coord.VerifFinishRemovings(d.pds[w], c)
			return ""
		})
	case "CheckRound":
		w := argN(0) - 1
		if w < 0 || w >= d.W {
			return
		}
		d.placeIn(w)
		d.emit(trace.M{"ev": "begin", "op": "check"})
		d.call("check", "cur", w, 0, 0, func() string {
			pdnode_coord.VerifCheckNamespaces(d.pds[w], d.waits[w], true)
			pdnode_coord.VerifCheckNamespaces(d.pds[w], d.waits[w], true)
			return ""
		})
		d.emit(trace.M{"ev": "end", "op": "check"})
	case "BalanceRound":
		w := argN(0) - 1
		if w < 0 || w >= d.W || !d.realBalance || d.nbal >= 2 {
			return
		}
		d.nbal++
		// the real rebalanceNamespace sleeps 5 s after adding a replica and then waits for it to
		// be ready: meanwhile the raft groups follow the metadata (only "more ready" changes)
		d.placeIn(w)
		d.emit(trace.M{"ev": "begin", "op": "balance"})
		d.withFollow(func() {
			d.call("balance", "cur", w, 0, 0, func() string {
				pdnode_coord.VerifSetClusterStable(d.pds[w], true)
				moved, all := pdnode_coord.VerifRebalanceRound(d.pds[w])
				return fmt.Sprintf("moved=%v balanced=%v", moved, all)
			})
		})
		d.emit(trace.M{"ev": "end", "op": "balance"})
	}
}

var coReLabel = regexp.MustCompile(`^\\\* <([A-Za-z]+)(?:\(([^)]*)\))? line `)

func coReadSim(path string) ([][2]string, error) {
	fh, err := os.Open(path)
	if err != nil {
		return nil, err
	}
	defer fh.Close()
	var out [][2]string
	sc := bufio.NewScanner(fh)
	sc.Buffer(make([]byte, 1<<20), 1<<24)
	for sc.Scan() {
		if m := coReLabel.FindStringSubmatch(sc.Text()); m != nil {
			out = append(out, [2]string{m[1], m[2]})
		}
	}
	return out, sc.Err()
}

func coordsim(args []string) error {
	fs := flag.NewFlagSet("coordsim", flag.ContinueOnError)
	out := fs.String("o", "coord", "output prefix (<o>.0.ndjson)")
	seed := fs.Int64("seed", 1, "seed")
	R := fs.Int("R", 3, "replication factor")
	N := fs.Int("N", 4, "data nodes")
	K := fs.Int("K", 0, "replicas of the initial layout (0 = R); must be a strict majority of R")
	Pn := fs.Int("P", 1, "partitions of the namespace")
	Wn := fs.Int("W", 1, "coordinators (2 = PD leader fail-over with a stale old leader)")
	bal := fs.Bool("balance", false, "run the real rebalanceNamespace for BalanceRound labels (5 s per move; at most 2 per behaviour)")
	stalef := fs.Bool("stalefactor", false, "keep the coordinators' copies across a factor change (trigger of finding stale-factor-copy)")
	sim := fs.String("sim", "", "directory with TLC -simulate files of MC_ZCoord (every file = one behaviour)")
	script := fs.String("script", "", "a single script: labels separated by ';' e.g. 'NodeDown(2);Migrate(\"cur\")'")
	limit := fs.Int("limit", 0, "replay at most this many behaviours (0 = all)")
	if err := fs.Parse(args); err != nil {
		return err
	}
	cluster.SetLogLevel(0)
	pdnode_coord.VerifSetIntervals(0, 0)
	d := &coDrv{st: &coStub{}, byID: map[string]int{}, rng: rand.New(rand.NewSource(*seed)), R: *R, N: *N,
		stats: map[string]int{}}
	d.K = *K
	d.P, d.W, d.realBalance, d.staleFactor = *Pn, *Wn, *bal, *stalef
	if d.K <= 0 || d.K > d.R {
		d.K = d.R
	}
	for i := 1; i <= *N; i++ {
		if err := d.startNode(i); err != nil {
			return err
		}
	}
	tw, err := trace.Create(*out + ".0.ndjson")
	if err != nil {
		return err
	}
	d.tw = tw
	var behaviours [][][2]string
	var names []string
	if *script != "" {
		var b [][2]string
		for _, l := range strings.Split(*script, ";") {
			l = strings.TrimSpace(l)
			if l == "" {
				continue
			}
			nm, as := l, ""
			if i := strings.Index(l, "("); i >= 0 {
				nm, as = l[:i], strings.TrimSuffix(l[i+1:], ")")
			}
			b = append(b, [2]string{nm, as})
		}
		behaviours = append(behaviours, b)
		names = append(names, "script")
	}
	if *sim != "" {
		files, _ := filepath.Glob(filepath.Join(*sim, "sim_*"))
		sort.Strings(files)
		for _, f := range files {
			b, err := coReadSim(f)
			if err != nil {
				return err
			}
			behaviours = append(behaviours, b)
			names = append(names, filepath.Base(f))
		}
	}
	if *limit > 0 && len(behaviours) > *limit {
		behaviours, names = behaviours[:*limit], names[:*limit]
	}
	steps := 0
	for i, b := range behaviours {
		if err := d.begin(fmt.Sprintf("%s R=%d N=%d P=%d W=%d", names[i], *R, *N, *Pn, *Wn)); err != nil {
			return err
		}
		if d.realBalance && d.P > 1 {
			// make sure the slow real paths are exercised at least once per behaviour
			b = append(append([][2]string{{"BalanceRound", "1"}}, b...), [2]string{"CheckRound", "1"}, [2]string{"BalanceRound", "1"})
		}
		for _, l := range b {
			var as []string
			if l[1] != "" {
				as = strings.Split(l[1], ",")
			}
			d.step(l[0], as)
			steps++
		}
		d.reg.OnUpdate = nil
	}
	tw.Close()
	d.st.mu.Lock()
	nreq := d.st.nreq
	d.st.mu.Unlock()
	summary(map[string]interface{}{"driver": "coordsim", "seed": *seed, "R": *R, "N": *N, "K": d.K, "P": d.P, "W": d.W, "behaviours": len(behaviours),
		"labels": steps, "events": tw.N, "http_requests_answered": nreq, "stats": d.stats})
	return nil
}
