package main

// placesim: calls the REAL placement functions of the placement driver
// (cluster/pdnode_coord getRebalancedNamespacePartitions -> getNodeNameList,
// fillPartitionMapV1 / fillPartitionMapV2, through the verif export) on
//   -mode enum     ALL topologies with <= maxn nodes over <= maxdc data centres (every
//                  assignment of nodes to data centres, even and uneven), P <= maxp,
//                  R <= maxr, both algorithms; and for v2 every history of node losses /
//                  additions of length <= hist from each fresh layout (one history tree per
//                  data-centre partition of the node set)
//   -mode rand     seeded topologies up to 40 nodes / 4 data centres / 64 partitions / R<=5
//                  with random up/down walks
//   -mode isolate  previous layouts whose replica lists are longer than R (replication
//                  factor lowered; a balance move in flight) followed by a node loss - the
//                  trigger of finding place-v2-empty-candidates (fixed by ea2d1b6)
// Every call is executed three times (again; and with the input map built in another
// order) and logged with all three results.  The driver never judges: spec/ZPlaceTrace.tla
// evaluates the contract of spec/ZPlace.tla on every line.

import (
	"flag"
	"fmt"
	"math/rand"
	"runtime"
	"sort"
	"strconv"
	"strings"
	"sync"
	"sync/atomic"

	"github.com/twmb/murmur3"

	"github.com/youzan/ZanRedisDB/cluster"
	"github.com/youzan/ZanRedisDB/cluster/pdnode_coord"
	"zrverif/trace"
)

func init() { commands["placesim"] = placesim }

type placeTopo struct {
	n     int      // universe size; nodes are numbered 1..n
	dc    []int    // dc[i-1] = data centre (1-based) of node i
	ids   []string // ids[i-1] = real node id of node i
	index map[string]int
}

func newPlaceTopo(dc []int, idScheme int) *placeTopo {
	t := &placeTopo{n: len(dc), dc: dc, index: map[string]int{}}
	for i := 1; i <= t.n; i++ {
		var ni cluster.NodeInfo
		ni.RegID = uint64(i)
		switch idScheme {
		case 0:
			ni.NodeIP = fmt.Sprintf("10.0.%d.%d", plMax(dc[i-1], 0), i)
		case 1: // names whose sort order is the reverse of the numbering
			ni.NodeIP = fmt.Sprintf("10.9.%d.%d", 9-plMax(dc[i-1], 0), 99-i)
			ni.RegID = uint64(100 - i)
		default:
			ni.NodeIP = fmt.Sprintf("192.168.%d.%d", (i*7)%5, (i*13)%50)
		}
		ni.RedisPort = "12380"
		ni.HttpPort = "12381"
		id := cluster.GenNodeID(&ni, "datanode")
		t.ids = append(t.ids, id)
		t.index[id] = i
	}
	return t
}

// nodeMap builds the input map of the live nodes, inserting in the given order.
// dc[i-1] >= 1: tag dc_info = "dc<k>"; 0: no dc_info tag (Tags nil or empty); -1: dc_info
// present but the empty string; -2: dc_info present with a non-string value.  The code under
// test puts all three "absent" flavours into the data centre "".
func (t *placeTopo) nodeMap(live []int, order []int) map[string]cluster.NodeInfo {
	m := make(map[string]cluster.NodeInfo)
	for _, k := range order {
		i := live[k]
		var ni cluster.NodeInfo
		ni.ID = t.ids[i-1]
		ni.RegID = uint64(i)
		switch d := t.dc[i-1]; {
		case d >= 1:
			ni.Tags = map[string]interface{}{cluster.DCInfoTag: fmt.Sprintf("dc%d", d)}
		case d == 0:
			if i%2 == 0 {
				ni.Tags = map[string]interface{}{"other_tag": "x"}
			}
		case d == -1:
			ni.Tags = map[string]interface{}{cluster.DCInfoTag: ""}
		default:
			ni.Tags = map[string]interface{}{cluster.DCInfoTag: 7}
		}
		m[ni.ID] = ni
	}
	return m
}

func (t *placeTopo) toIDs(l [][]int) [][]string {
	if l == nil {
		return nil
	}
	out := make([][]string, len(l))
	for p, ns := range l {
		out[p] = make([]string, len(ns))
		for j, i := range ns {
			out[p][j] = t.ids[i-1]
		}
	}
	return out
}

func (t *placeTopo) toNums(l [][]string) [][]int {
	out := make([][]int, len(l))
	for p, ns := range l {
		out[p] = make([]int, len(ns))
		for j, id := range ns {
			out[p][j] = t.index[id] // 0 = not a node of this topology
		}
	}
	return out
}

type placeResult struct {
	res string
	out [][]int
	msg string
}

func placeOnce(t *placeTopo, algo, ns string, P, R int, old [][]int, nodes map[string]cluster.NodeInfo) (r placeResult) {
	defer func() {
		if e := recover(); e != nil {
			r = placeResult{res: "panic", out: [][]int{}, msg: fmt.Sprint(e)}
		}
	}()
	o, err := pdnode_coord.VerifRebalance(ns, P, R, t.toIDs(old), nodes, algo)
	if err != nil {
		if err == pdnode_coord.ErrNodeUnavailable {
			return placeResult{res: "refused", out: [][]int{}, msg: err.ErrMsg}
		}
		return placeResult{res: "error", out: [][]int{}, msg: err.ErrMsg}
	}
	return placeResult{res: "ok", out: t.toNums(o)}
}

type placeDrv struct {
	tws    []*trace.Writer
	cur    *trace.Writer
	seg    int
	rng    *rand.Rand
	calls  int
	byRes  map[string]int
	spread int // calls under the data-centre premise with R >= 2
	bal    int // calls under the v1 balance premise with >= 2 nodes
	incr   int // calls with a previous layout
	refuse int
	mixed  int // calls on node sets where some nodes carry a dc tag and some do not
	bound  int // calls with a namespace name whose hash is a 32-bit boundary value
	maxN   int
	maxP   int
}

func (d *placeDrv) reset(info string) {
	d.cur = d.tws[d.seg%len(d.tws)]
	d.seg++
	d.cur.Emit(trace.M{"ev": "reset", "seg": d.seg, "info": info})
}

func plEvenly(t *placeTopo, live []int) (bool, int) {
	cnt := map[int]int{}
	for _, i := range live {
		if t.dc[i-1] < 1 {
			return false, 0 // the data-centre premise is only read for fully tagged node sets
		}
		cnt[t.dc[i-1]]++
	}
	first := -1
	for _, c := range cnt {
		if first < 0 {
			first = c
		} else if c != first {
			return false, len(cnt)
		}
	}
	return true, len(cnt)
}

// call executes one placement call three times and logs it.
func (d *placeDrv) call(t *placeTopo, algo, ns string, P, R int, live []int, old [][]int) placeResult {
	n := len(live)
	ident := make([]int, n)
	for i := range ident {
		ident[i] = i
	}
	perm := d.rng.Perm(n)
	if n > 1 && sort.IntsAreSorted(perm) {
		perm[0], perm[n-1] = perm[n-1], perm[0]
	}
	r1 := placeOnce(t, algo, ns, P, R, old, t.nodeMap(live, ident))
	r2 := placeOnce(t, algo, ns, P, R, old, t.nodeMap(live, ident))
	r3 := placeOnce(t, algo, ns, P, R, old, t.nodeMap(live, perm))
	if old == nil {
		old = [][]int{}
	}
	if live == nil {
		live = []int{}
	}
	d.cur.Emit(trace.M{"ev": "place", "algo": algo, "ns": ns, "P": P, "R": R, "n": t.n,
		"live": live, "dc": t.dc, "old": old,
		"res": r1.res, "out": r1.out, "res2": r2.res, "out2": r2.out, "resp": r3.res, "outp": r3.out,
		"msg": r1.msg})
	d.calls++
	d.byRes[r1.res]++
	ev, ndc := plEvenly(t, live)
	if len(old) == 0 && ev && ndc >= R && R >= 2 && n >= R {
		d.spread++
	}
	if algo == "v1" && n >= 2 && P%n == 0 && n >= R {
		d.bal++
	}
	if len(old) > 0 {
		d.incr++
	}
	if n < R {
		d.refuse++
	}
	tg, ut := 0, 0
	for _, i := range live {
		if t.dc[i-1] >= 1 {
			tg++
		} else {
			ut++
		}
	}
	if tg > 0 && ut > 0 {
		d.mixed++
	}
	if plIsBoundaryName[ns] {
		d.bound++
	}
	if n > d.maxN {
		d.maxN = n
	}
	if P > d.maxP {
		d.maxP = P
	}
	return r1
}

func plWithout(live []int, x int) []int {
	out := make([]int, 0, len(live))
	for _, v := range live {
		if v != x {
			out = append(out, v)
		}
	}
	return out
}

func plWith(live []int, x int) []int {
	out := append(append([]int{}, live...), x)
	sort.Ints(out)
	return out
}

func plHas(live []int, x int) bool {
	for _, v := range live {
		if v == x {
			return true
		}
	}
	return false
}

// plToggle flips the membership of the given nodes in the live set.
func plToggle(live []int, xs []int) []int {
	nl := append([]int{}, live...)
	for _, x := range xs {
		if plHas(nl, x) {
			nl = plWithout(nl, x)
		} else {
			nl = plWith(nl, x)
		}
	}
	return nl
}

// plEvents: the live sets reachable by one event.  Single events flip one node; multi events
// (several nodes change between two layouts: the coordinator only recomputes on its check
// rounds, and a data-centre outage takes all its nodes at once) flip a pair of nodes or take
// a whole data centre down / bring it back.  Results are deduplicated by the live set.
func plEvents(t *placeTopo, live []int, multi bool) (single [][]int, many [][]int) {
	seen := map[string]bool{fmt.Sprint(live): true}
	add := func(dst *[][]int, nl []int) {
		k := fmt.Sprint(nl)
		if !seen[k] {
			seen[k] = true
			*dst = append(*dst, nl)
		}
	}
	for x := 1; x <= t.n; x++ {
		add(&single, plToggle(live, []int{x}))
	}
	if !multi {
		return
	}
	for x := 1; x <= t.n; x++ {
		for y := x + 1; y <= t.n; y++ {
			add(&many, plToggle(live, []int{x, y}))
		}
	}
	for dc := 1; dc <= 4; dc++ {
		var in, up []int
		for i := 1; i <= t.n; i++ {
			if t.dc[i-1] == dc {
				in = append(in, i)
				if plHas(live, i) {
					up = append(up, i)
				}
			}
		}
		if len(up) > 0 {
			add(&many, plToggle(live, up)) // outage of the data centre
		} else if len(in) > 0 {
			add(&many, plToggle(live, in)) // the data centre comes back
		}
	}
	return
}

// history explores every sequence of <= remaining events below the current point; the
// incremental algorithm gets the last produced layout as the previous one.  A path may
// contain at most one multi event, and then has at most multiLen events in total.
func (d *placeDrv) history(t *placeTopo, ns string, P, R int, live []int, old [][]int, remaining, length, multiLen int, usedMulti bool) {
	if remaining <= 0 {
		return
	}
	single, many := plEvents(t, live, !usedMulti && length+1 <= multiLen)
	step := func(nl []int, rem int, um bool) {
		r := d.call(t, "v2", ns, P, R, nl, old)
		next := old
		if r.res == "ok" {
			next = r.out
		}
		d.history(t, ns, P, R, nl, next, rem, length+1, multiLen, um)
	}
	for _, nl := range single {
		step(nl, remaining-1, usedMulti)
	}
	for _, nl := range many {
		rem := remaining - 1
		if m := multiLen - (length + 1); m < rem {
			rem = m
		}
		step(nl, rem, true)
	}
}

// plAssignments: every function nodes -> lo..maxdc (lo = 0 includes "no data-centre tag" as a
// value); canonical = restricted growth strings over 1..maxdc (one representative per
// partition of the node set into data centres).
func plAssignments(n, maxdc int, canonical bool, lo int) [][]int {
	var out [][]int
	cur := make([]int, n)
	var rec func(i, used int)
	rec = func(i, used int) {
		if i == n {
			out = append(out, append([]int{}, cur...))
			return
		}
		lim := maxdc
		if canonical && used+1 < lim {
			lim = used + 1
		}
		for d := lo; d <= lim; d++ {
			cur[i] = d
			u := used
			if d > u {
				u = d
			}
			rec(i+1, u)
		}
	}
	rec(0, 0)
	return out
}

func plMax(a, b int) int {
	if a > b {
		return a
	}
	return b
}

func plMin(a, b int) int {
	if a < b {
		return a
	}
	return b
}

func plSeq(n int) []int {
	out := make([]int, n)
	for i := range out {
		out[i] = i + 1
	}
	return out
}

func plCanonical(dc []int) bool {
	used := 0
	for _, d := range dc {
		if d < 1 || d > used+1 {
			return false
		}
		if d > used {
			used = d
		}
	}
	return true
}

func placesim(args []string) error {
	fs := flag.NewFlagSet("placesim", flag.ContinueOnError)
	out := fs.String("o", "place", "output prefix (<o>.<part>.ndjson)")
	parts := fs.Int("parts", 8, "number of trace parts")
	seed := fs.Int64("seed", 1, "seed")
	mode := fs.String("mode", "enum", "enum | rand | isolate")
	maxn := fs.Int("maxn", 5, "enum: max nodes")
	maxdc := fs.Int("maxdc", 3, "enum: max data centres")
	maxp := fs.Int("maxp", 8, "enum: max partitions")
	maxr := fs.Int("maxr", 3, "enum: max replicas")
	hist := fs.Int("hist", 3, "enum: v2 history depth")
	histn := fs.Int("histn", 0, "enum: history depth is reduced by one for topologies with more than this many nodes (0 = never)")
	multi := fs.Int("multi", 2, "enum: max length of a history that contains a multi-node event (0 = single-node events only)")
	histns := fs.Int("histns", 0, "enum: history trees only for the first k namespace names (0 = all)")
	nsl := fs.String("ns", "@pool", "comma separated namespace names (they rotate the ring); @pool = a name of the built-in pool (hash residues and 32-bit boundary hashes), rotating per work unit")
	untag := fs.Bool("untag", true, "enum: also node sets in which some or all nodes carry no / an empty / a non-string dc_info tag")
	nrand := fs.Int("n", 500, "rand: number of topologies")
	shard := fs.Int("shard", 0, "enum: this shard")
	shards := fs.Int("shards", 1, "enum: number of shards (work units are dealt round robin)")
	if err := fs.Parse(args); err != nil {
		return err
	}
	cluster.SetLogLevel(0)
	d := &placeDrv{rng: rand.New(rand.NewSource(*seed)), byRes: map[string]int{}}
	for i := 0; i < *parts; i++ {
		tw, err := trace.Create(fmt.Sprintf("%s.%d.ndjson", *out, i))
		if err != nil {
			return err
		}
		d.tws = append(d.tws, tw)
	}
	names := strings.Split(*nsl, ",")
	pool, perr := plNamePool()
	if perr != nil {
		return perr
	}
	// nsFor resolves @pool for work unit u and position nsi of the -ns list
	nsFor := func(name string, u, nsi int) string {
		if name != "@pool" {
			return name
		}
		return pool[(u+int(*seed)*13+nsi*31)%len(pool)]
	}
	topos := 0
	units := [2]int{}
	switch *mode {
	case "findns":
		plFindNS()
		return nil
	case "enum":
		for n := 1; n <= *maxn; n++ {
			lo := 1
			if *untag {
				lo = 0
			}
			for _, dc := range plAssignments(n, *maxdc, false, lo) {
				topos++
				// value 0 = "no usable dc_info tag", in one of three flavours per node
				for i := range dc {
					if dc[i] == 0 {
						dc[i] = []int{0, -1, -2}[(i+topos)%3]
					}
				}
				t := newPlaceTopo(dc, 0)
				canon := plCanonical(dc)
				for nsi, nsName := range names {
					for R := 1; R <= *maxr; R++ {
						ns := nsFor(nsName, units[0]+units[1], nsi)
						// work units are dealt to the shards separately for cheap (fresh only)
						// and expensive (with history trees) topologies
						ci := 0
						if canon {
							ci = 1
						}
						units[ci]++
						if (units[ci]-1)%*shards != *shard {
							continue
						}
						d.reset(fmt.Sprintf("n=%d dc=%v ns=%s R=%d", n, dc, ns, R))
						for P := 1; P <= *maxp; P++ {
							for _, algo := range []string{"v1", "v2"} {
								d.call(t, algo, ns, P, R, plSeq(n), nil)
							}
						}
						if !canon || *hist <= 0 || (*histns > 0 && nsi >= *histns) {
							continue
						}
						for P := 1; P <= *maxp; P++ {
							d.reset(fmt.Sprintf("history n=%d dc=%v ns=%s R=%d P=%d", n, dc, ns, R, P))
							r := d.call(t, "v2", ns, P, R, plSeq(n), nil)
							var old [][]int
							if r.res == "ok" {
								old = r.out
							}
							h := *hist
							if *histn > 0 && n > *histn {
								h--
							}
							d.history(t, ns, P, R, plSeq(n), old, h, 0, *multi, false)
						}
					}
				}
			}
		}
	case "rand":
		for k := 0; k < *nrand; k++ {
			topos++
			D := 1 + d.rng.Intn(4)
			var dc []int
			if d.rng.Intn(2) == 0 { // evenly spread
				per := 1 + d.rng.Intn(40/D)
				for i := 0; i < per*D; i++ {
					dc = append(dc, 1+i%D)
				}
				d.rng.Shuffle(len(dc), func(a, b int) { dc[a], dc[b] = dc[b], dc[a] })
			} else {
				n := 1 + d.rng.Intn(40)
				for i := 0; i < n; i++ {
					dc = append(dc, 1+d.rng.Intn(D))
				}
			}
			n := len(dc)
			if d.rng.Intn(4) == 0 { // some nodes without a usable dc_info tag
				for i := range dc {
					if d.rng.Intn(3) == 0 {
						dc[i] = -d.rng.Intn(3)
					}
				}
			}
			t := newPlaceTopo(dc, d.rng.Intn(3))
			R := 1 + d.rng.Intn(5)
			P := 1 + d.rng.Intn(64)
			if d.rng.Intn(3) == 0 && n <= 64 {
				P = n * (1 + d.rng.Intn(64/n))
			}
			ns := fmt.Sprintf("ns%d", d.rng.Intn(1000))
			if d.rng.Intn(2) == 0 {
				ns = pool[d.rng.Intn(len(pool))]
			}
			d.reset(fmt.Sprintf("rand n=%d D=%d P=%d R=%d ns=%s", n, D, P, R, ns))
			// some nodes may join later
			live := plSeq(n)
			if d.rng.Intn(2) == 0 && n > 1 {
				for j := d.rng.Intn(1 + n/3); j > 0; j-- {
					live = plWithout(live, 1+d.rng.Intn(n))
				}
			}
			d.call(t, "v1", ns, P, R, live, nil)
			r := d.call(t, "v2", ns, P, R, live, nil)
			var old [][]int
			if r.res == "ok" {
				old = r.out
			}
			for step := d.rng.Intn(7); step > 0; step-- {
				switch d.rng.Intn(4) {
				case 0: // several nodes change at once
					for k := 2 + d.rng.Intn(3); k > 0; k-- {
						live = plToggle(live, []int{1 + d.rng.Intn(n)})
					}
				case 1: // a data centre goes down / comes back
					_, many := plEvents(t, live, true)
					if len(many) > 0 && n <= 12 {
						live = many[len(many)-1-d.rng.Intn(plMin(len(many), D))]
					} else {
						dcx := 1 + d.rng.Intn(D)
						var in, up []int
						for i := 1; i <= n; i++ {
							if dc[i-1] == dcx {
								in = append(in, i)
								if plHas(live, i) {
									up = append(up, i)
								}
							}
						}
						if len(up) > 0 {
							live = plToggle(live, up)
						} else {
							live = plToggle(live, in)
						}
					}
				default:
					live = plToggle(live, []int{1 + d.rng.Intn(n)})
				}
				r := d.call(t, "v2", ns, P, R, live, old)
				if r.res == "ok" {
					old = r.out
				}
				if d.rng.Intn(3) == 0 {
					d.call(t, "v1", ns, P, R, live, nil)
				}
			}
		}
	case "isolate":
		for n := 2; n <= *maxn; n++ {
			for _, dc := range plAssignments(n, *maxdc, true, 1) {
				topos++
				t := newPlaceTopo(dc, 0)
				ns := nsFor(names[0], topos, 0)
				for R := 2; R <= *maxr+1 && R <= n; R++ {
					for P := 1; P <= 3; P++ {
						d.reset(fmt.Sprintf("isolate n=%d dc=%v R=%d->%d P=%d", n, dc, R, R-1, P))
						r := d.call(t, "v2", ns, P, R, plSeq(n), nil)
						if r.res != "ok" {
							continue
						}
						// (i) the replication factor is lowered by one (ChangeNamespaceMetaParam),
						// the old replica lists still have R entries; then one node is lost
						d.call(t, "v2", ns, P, R-1, plSeq(n), r.out)
						for x := 1; x <= n; x++ {
							d.call(t, "v2", ns, P, R-1, plWithout(plSeq(n), x), r.out)
						}
						// (ii) a balance move is in flight: one partition has R+1 replicas
						// (the new one appended, the old one not yet removed); then a node is lost
						if R <= *maxr {
							for y := 1; y <= n; y++ {
								if plHas(r.out[0], y) {
									continue
								}
								o := make([][]int, len(r.out))
								copy(o, r.out)
								o[0] = append(append([]int{}, r.out[0]...), y)
								for x := 1; x <= n; x++ {
									d.call(t, "v2", ns, P, R, plWithout(plSeq(n), x), o)
								}
								break
							}
						}
					}
				}
			}
		}
	default:
		return fmt.Errorf("unknown mode %s", *mode)
	}
	for _, tw := range d.tws {
		tw.Close()
	}
	summary(map[string]interface{}{"driver": "placesim", "mode": *mode, "seed": *seed, "topologies": topos,
		"segments": d.seg, "calls": d.calls, "real_invocations": 3 * d.calls, "by_result": d.byRes,
		"spread_premise_calls": d.spread, "balance_premise_calls": d.bal, "incremental_calls": d.incr,
		"too_few_nodes_calls": d.refuse, "mixed_tag_calls": d.mixed, "boundary_hash_name_calls": d.bound,
		"name_pool": len(pool), "boundary_names": len(plIsBoundaryName), "max_nodes": d.maxN, "max_partitions": d.maxP, "parts": *parts})
	return nil
}

// plBoundaryNames: namespace names whose murmur3.Sum32 (the ring offset of both algorithms)
// sits on a boundary of 32-bit arithmetic: 0, 1, 2, 2^31-2 .. 2^31+1, 2^32-12 .. 2^32-1.
// Found once by `zrdrive placesim -mode findns` (plFindNS); the hash is re-checked at start-up.
var plBoundaryNames = map[uint32]string{
	0: "ns_5296050363",
	1: "ns_17470401451",
	2: "ns_895594311",
	2147483646: "ns_5527484379",
	2147483647: "ns_12436482958",
	2147483648: "ns_3841792923",
	2147483649: "ns_4413977230",
	4294967284: "ns_1221904655",
	4294967285: "ns_6830757469",
	4294967286: "ns_7160835516",
	4294967287: "ns_308401998",
	4294967288: "ns_16255294022",
	4294967289: "ns_1099768074",
	4294967290: "ns_1262516606",
	4294967291: "ns_3521087925",
	4294967292: "ns_5761519505",
	4294967293: "ns_25949435020",
	4294967294: "ns_3084276319",
	4294967295: "ns_1480224582",
}

var plIsBoundaryName = map[string]bool{}

// plNamePool: 60 names whose hashes cover every residue modulo 60 (= every residue modulo each
// node count 1..6) interleaved with the boundary names (every fourth entry).
func plNamePool() ([]string, error) {
	var bnd []string
	for _, h := range plBoundaryTargets() {
		n, ok := plBoundaryNames[h]
		if !ok {
			continue
		}
		if murmur3.Sum32([]byte(n)) != h {
			return nil, fmt.Errorf("boundary name %s does not hash to %d", n, h)
		}
		bnd = append(bnd, n)
		plIsBoundaryName[n] = true
	}
	res := make([]string, 60)
	left := 60
	for i := 0; left > 0; i++ {
		n := fmt.Sprintf("rs_%d", i)
		r := murmur3.Sum32([]byte(n)) % 60
		if res[r] == "" {
			res[r] = n
			left--
		}
	}
	var pool []string
	bi := 0
	for i, n := range res {
		pool = append(pool, n)
		if i%3 == 2 && bi < len(bnd) {
			pool = append(pool, bnd[bi])
			bi++
		}
	}
	return pool, nil
}

// plBoundaryTargets: namespace hashes (murmur3.Sum32, what the placement code derives its
// ring offset from) at the boundaries of 32-bit arithmetic.
func plBoundaryTargets() []uint32 {
	t := []uint32{0, 1, 2, 1<<31 - 2, 1<<31 - 1, 1 << 31, 1<<31 + 1}
	for k := uint32(1); k <= 12; k++ {
		t = append(t, 0-k) // 2^32 - k
	}
	return t
}

// plFindNS brute-forces namespace names "ns_<number>" whose hash is one of the boundary
// targets (run offline once: `zrdrive placesim -mode findns`; the result is embedded below
// as plBoundaryNames).
func plFindNS() {
	targets := map[uint32]bool{}
	for _, t := range plBoundaryTargets() {
		targets[t] = true
	}
	var mu sync.Mutex
	found := map[uint32]string{}
	var done int32
	G := runtime.NumCPU()
	var wg sync.WaitGroup
	for g := 0; g < G; g++ {
		wg.Add(1)
		go func(g int) {
			defer wg.Done()
			buf := make([]byte, 0, 32)
			for i := uint64(g); atomic.LoadInt32(&done) == 0; i += uint64(G) {
				buf = append(buf[:0], "ns_"...)
				buf = strconv.AppendUint(buf, i, 10)
				h := murmur3.Sum32(buf)
				if h+12 > 14 && h-(1<<31-2) > 3 {
					continue
				}
				if targets[h] {
					mu.Lock()
					if _, ok := found[h]; !ok {
						found[h] = string(buf)
						fmt.Printf("\t%d: %q,\n", h, string(buf))
						if len(found) == len(targets) {
							atomic.StoreInt32(&done, 1)
						}
					}
					mu.Unlock()
				}
			}
		}(g)
	}
	wg.Wait()
}
