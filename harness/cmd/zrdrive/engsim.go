package main

// engsim: drives a real storage engine (engine.KVEngine) with the write-batch and
// iterator operations of spec/ZEngine.tla.  Two sources of behaviours:
//   -dot g.dot   every edge of TLC's dumped state graph of MC_ZEngine
//   -random N    N seeded random sequences over all key positions
// Every operation and every read result is logged; spec/ZEngineTrace.tla decides.

import (
	"encoding/binary"
	"flag"
	"fmt"
	"io/ioutil"
	"math/rand"
	"os"
	"strconv"
	"strings"

	"github.com/youzan/ZanRedisDB/engine"
	"zrverif/graph"
	"zrverif/trace"
)

func init() { commands["engsim"] = engsim }

// ordered pools of 7 byte strings; position p (1-based) is pool[p-1]
var engPools = [][]string{
	{"a", "b", "c", "d", "e", "f", "g"},
	{"\x00", "\x00\x00", "a", "a\x00", "a\x00\x00", "a\xff", "\xff"},
	{"", "\x00", "\x00a", "a", "ab", "ab\x00", "b"},
	{"\xfe", "\xff", "\xff\x00", "\xff\xff", "\xff\xff\x00", "\xff\xff\xff", "\xff\xff\xff\xff"},
	{"t:", "t:k", "t:k\x00", "t:k:", "t:k:f", "t:l", "t;"},
	{strings.Repeat("p", 300), strings.Repeat("p", 300) + "\x00", strings.Repeat("p", 300) + "a",
		strings.Repeat("p", 300) + "a\x00", strings.Repeat("p", 301), strings.Repeat("p", 301) + "\xff", "q"},
	// pools 6 and 7 are prefix-free (no key is a proper prefix of another one)
	{"\x00\x01", "\x00\xff", "a\x00b", "a\x01", "a\xffz", "\xff\x00", "\xff\xfe"},
	{strings.Repeat("p", 300) + "a", strings.Repeat("p", 300) + "b", strings.Repeat("p", 300) + "c\x00",
		strings.Repeat("p", 300) + "d", strings.Repeat("p", 300) + "e\xff", strings.Repeat("p", 300) + "f", strings.Repeat("p", 300) + "g"},
}

type engDrv struct {
	eng    engine.KVEngine
	pool   []string
	pos    map[string]int
	wb     engine.WriteBatch
	defwb  bool
	tw     *trace.Writer
	rng    *rand.Rand
	nread  int
	nwrite int
	nmaint int
	// leave out the maintenance calls that flush the memtable (see maint)
	noflush bool
	// reverse iterators with these Max positions are left out (-norevprefix)
	skipRevMax map[int]bool
	// reused key / value buffers handed to the engine (see scratch)
	scr [2][]byte
	// last operation kind per key position in the open batch (random -indep mode)
	lastOn map[int]string
}

func (d *engDrv) key(p int) []byte {
	if p == 0 {
		return nil
	}
	return []byte(d.pool[p-1])
}

func encVal(v int) []byte {
	if v == 0 {
		return []byte{}
	}
	b := make([]byte, 8)
	binary.LittleEndian.PutUint64(b, uint64(v))
	return b
}

func decVal(b []byte) int {
	switch {
	case b == nil:
		return -1
	case len(b) == 0:
		return 0
	case len(b) == 8:
		u := binary.LittleEndian.Uint64(b)
		if u > 1<<40 {
			return -4
		}
		return int(u)
	}
	return -3
}

func (d *engDrv) batch() engine.WriteBatch {
	if d.wb == nil {
		if d.defwb {
			d.wb = d.eng.DefaultWriteBatch()
			d.wb.Clear()
		} else {
			d.wb = d.eng.NewWriteBatch()
		}
	}
	return d.wb
}

func errStr(err error) string {
	if err == nil {
		return ""
	}
	return err.Error()
}

func (d *engDrv) reset() {
	if d.wb != nil {
		d.wb.Clear()
		if !d.defwb {
			d.wb.Destroy()
		}
		d.wb = nil
	}
	wb := d.eng.NewWriteBatch()
	for _, k := range d.pool {
		wb.Delete([]byte(k))
	}
	if err := d.eng.Write(wb); err != nil {
		panic(err)
	}
	wb.Destroy()
	d.tw.Emit(trace.M{"ev": "reset"})
}

func hexs(ss []string) []string {
	out := make([]string, len(ss))
	for i, s := range ss {
		out[i] = fmt.Sprintf("%x", s)
	}
	return out
}

// scratch returns b in a reused buffer with spare capacity; the caller scribbles over it after
// the engine call returned: an engine must not keep a reference to the caller's key or value
// (rockredis builds keys in reused buffers)
func (d *engDrv) scratch(which int, b []byte) []byte {
	if b == nil {
		return nil
	}
	buf := d.scr[which]
	if cap(buf) < len(b)+16 {
		buf = make([]byte, 0, len(b)+64)
	}
	buf = append(buf[:0], b...)
	d.scr[which] = buf
	return buf
}

func (d *engDrv) scribble() {
	for i := range d.scr {
		b := d.scr[i][:cap(d.scr[i])]
		for j := range b {
			b[j] = '@'
		}
	}
}

func (d *engDrv) bput(k, v int) {
	d.batch().Put(d.scratch(0, d.key(k)), d.scratch(1, encVal(v)))
	d.scribble()
	d.tw.Emit(trace.M{"ev": "bput", "k": k, "v": v})
	d.nwrite++
}
func (d *engDrv) bdel(k int) {
	d.batch().Delete(d.scratch(0, d.key(k)))
	d.scribble()
	d.tw.Emit(trace.M{"ev": "bdel", "k": k})
	d.nwrite++
}
func (d *engDrv) bdelrange(lo, hi int) {
	d.batch().DeleteRange(d.scratch(0, d.key(lo)), d.scratch(1, d.key(hi)))
	d.scribble()
	d.tw.Emit(trace.M{"ev": "bdelrange", "lo": lo, "hi": hi})
	d.nwrite++
}
func (d *engDrv) bmerge(k, dl int) {
	d.batch().Merge(d.scratch(0, d.key(k)), d.scratch(1, encVal(dl)))
	d.scribble()
	d.tw.Emit(trace.M{"ev": "bmerge", "k": k, "d": dl})
	d.nwrite++
}
func (d *engDrv) commit() {
	err := d.eng.Write(d.batch())
	d.wb.Clear()
	if !d.defwb {
		d.wb.Destroy()
		d.wb = nil
	}
	d.tw.Emit(trace.M{"ev": "commit", "err": errStr(err)})
	d.nwrite++
}
func (d *engDrv) clear() {
	d.batch().Clear()
	d.tw.Emit(trace.M{"ev": "clear"})
	d.nwrite++
}

// get reads one key through one of the point-read entry points of KVEngine (the data mapping
// uses all of them); every one has to answer like GetBytes.
func (d *engDrv) get(k int) {
	var v []byte
	var err error
	via := d.nread % 6
	key := d.scratch(0, d.key(k))
	cp := func(b []byte) []byte {
		if b == nil {
			return nil
		}
		return append([]byte{}, b...)
	}
	switch via {
	case 0:
		v, err = d.eng.GetBytes(key)
	case 1:
		v, err = d.eng.GetBytesNoLock(key)
	case 2, 3:
		var r engine.RefSlice
		if via == 2 {
			r, err = d.eng.GetRef(key)
		} else {
			r, err = d.eng.GetRefNoLock(key)
		}
		if err == nil && r != nil {
			v = cp(r.Data())
			r.Free()
		}
	default:
		op := func(b []byte) error { v = cp(b); return nil }
		if via == 4 {
			err = d.eng.GetValueWithOp(key, op)
		} else {
			err = d.eng.GetValueWithOpNoLock(key, op)
		}
	}
	d.scribble()
	d.tw.Emit(trace.M{"ev": "get", "k": k, "via": via, "res": decVal(v), "err": errStr(err)})
	d.nread++
}
func (d *engDrv) exist(k int) {
	var ok bool
	var err error
	via := d.nread % 2
	key := d.scratch(0, d.key(k))
	if via == 0 {
		ok, err = d.eng.Exist(key)
	} else {
		ok, err = d.eng.ExistNoLock(key)
	}
	d.scribble()
	d.tw.Emit(trace.M{"ev": "exist", "k": k, "via": via, "res": ok, "err": errStr(err)})
	d.nread++
}

// maint runs one of the maintenance calls that must be logically invisible (ZEngine!Maint):
// manual compaction of a key range or of everything (on pebble this flushes the memtable and
// sends merge operands through the merger's compaction path) and the size estimates.
func (d *engDrv) maint() {
	np := len(d.pool)
	op := d.rng.Intn(4)
	if d.noflush {
		// recorded finding pebble-empty-key-flush: no memtable flush while the empty key may be stored
		op = 3
	}
	lo, hi := 0, 0
	switch op {
	case 0:
		d.eng.CompactAllRange()
	case 1:
		// everything the pool can hold
		d.eng.CompactRange(engine.CRange{Start: []byte{}, Limit: []byte{0xff, 0xff, 0xff, 0xff, 0xff}})
	case 2:
		lo, hi = 1+d.rng.Intn(np), 1+d.rng.Intn(np)
		if lo > hi {
			lo, hi = hi, lo
		}
		d.eng.CompactRange(engine.CRange{Start: d.key(lo), Limit: d.key(hi)})
	default:
		rgs := []engine.CRange{{Start: d.key(1), Limit: d.key(np)}}
		d.eng.GetApproximateTotalKeyNum()
		d.eng.GetApproximateKeyNum(rgs)
		d.eng.GetApproximateSizes(rgs, true)
	}
	d.tw.Emit(trace.M{"ev": "maint", "op": op, "lo": lo, "hi": hi})
	d.nmaint++
	// what was readable before is readable after, from wherever it lives now
	for k := 1; k <= np; k++ {
		d.get(k)
	}
	d.iter(0, 0, 0, false, 0, -1, false)
	d.iter(0, 0, 0, true, 0, -1, false)
	for j := 0; j < 4; j++ {
		d.randomRead()
	}
}
func (d *engDrv) mget(ks []int) {
	keys := make([][]byte, len(ks))
	for i, k := range ks {
		keys[i] = d.key(k)
	}
	vals := make([][]byte, len(ks))
	errs := make([]error, len(ks))
	d.eng.MultiGetBytes(keys, vals, errs)
	res := make([]int, len(ks))
	es := ""
	for i := range ks {
		res[i] = decVal(vals[i])
		if errs[i] != nil {
			es = errs[i].Error()
		}
	}
	d.tw.Emit(trace.M{"ev": "mget", "ks": ks, "res": res, "err": es})
	d.nread++
}

// iter runs one range iterator exactly the way the data mapping does
// (engine.NewDBRangeIteratorWithOpts / NewDBRangeLimitIteratorWithOpts).
func (d *engDrv) iter(mn, mx, rt int, rev bool, off, cnt int, lim bool) {
	if rev && d.skipRevMax[mx] {
		return
	}
	// the engines append to Max (pebble/mem upper bound), give each call its own copy
	cp := func(b []byte) []byte {
		if b == nil {
			return nil
		}
		c := make([]byte, len(b), len(b)+8)
		copy(c, b)
		return c
	}
	opts := engine.IteratorOpts{
		Range:   engine.Range{Min: cp(d.key(mn)), Max: cp(d.key(mx)), Type: uint8(rt)},
		Limit:   engine.Limit{Offset: off, Count: cnt},
		Reverse: rev,
	}
	var it *engine.RangeLimitedIterator
	var err error
	if lim {
		it, err = engine.NewDBRangeLimitIteratorWithOpts(d.eng, opts)
	} else {
		it, err = engine.NewDBRangeIteratorWithOpts(d.eng, opts)
	}
	res := [][2]int{}
	if err == nil {
		for n := 0; it.Valid() && n < 64; it.Next() {
			p, ok := d.pos[string(it.Key())]
			if !ok {
				p = -2
			}
			res = append(res, [2]int{p, decVal(it.Value())})
			n++
		}
		it.Close()
	}
	d.tw.Emit(trace.M{"ev": "iter", "mn": mn, "mx": mx, "rt": rt, "rev": rev, "off": off, "cnt": cnt,
		"res": res, "err": errStr(err)})
	d.nread++
}

var rangeTypes = []int{0, 1, 16, 17}

func (d *engDrv) randomRead() {
	np := len(d.pool)
	switch d.rng.Intn(10) {
	case 0:
		d.get(1 + d.rng.Intn(np))
	case 1:
		d.exist(1 + d.rng.Intn(np))
	case 2:
		n := 1 + d.rng.Intn(4)
		ks := make([]int, n)
		for i := range ks {
			ks[i] = 1 + d.rng.Intn(np)
		}
		d.mget(ks)
	default:
		lim := d.rng.Intn(2) == 0
		off, cnt := 0, -1
		if lim {
			off = d.rng.Intn(4) - 1 + d.rng.Intn(2) // -1..3, mostly 0..2
			if off < -1 {
				off = 0
			}
			cnt = d.rng.Intn(5) - 1
		}
		d.iter(d.rng.Intn(np+1), d.rng.Intn(np+1), rangeTypes[d.rng.Intn(4)], d.rng.Intn(2) == 0, off, cnt, lim)
	}
}

// fullReads: the complete product of read options on the current content.
func (d *engDrv) fullReads() {
	np := len(d.pool)
	for k := 1; k <= np; k++ {
		d.get(k)
		d.exist(k)
	}
	d.mget([]int{1, 2, 2, 4, 6, 7})
	for mn := 0; mn <= np; mn++ {
		for mx := 0; mx <= np; mx++ {
			for _, rt := range rangeTypes {
				for _, rev := range []bool{false, true} {
					d.iter(mn, mx, rt, rev, 0, -1, false)
					for _, off := range []int{0, 1, 2} {
						for _, cnt := range []int{-1, 0, 1, 2} {
							if off == 0 && cnt == -1 && (mn+mx)%2 == 1 {
								continue
							}
							d.iter(mn, mx, rt, rev, off, cnt, true)
						}
					}
				}
			}
		}
	}
	d.iter(0, 0, 0, false, -1, -1, true)
}

func atoi(s string) int {
	v, err := strconv.Atoi(strings.TrimSpace(s))
	if err != nil {
		panic("bad int in label: " + s)
	}
	return v
}

func (d *engDrv) execLabel(e *graph.Edge) {
	switch e.Name {
	case "Put":
		d.bput(atoi(e.Args[0]), atoi(e.Args[1]))
	case "Del":
		d.bdel(atoi(e.Args[0]))
	case "DelRange":
		d.bdelrange(atoi(e.Args[0]), atoi(e.Args[1]))
	case "Merge":
		d.bmerge(atoi(e.Args[0]), atoi(e.Args[1]))
	case "DoCommit":
		d.commit()
		if d.rng.Intn(4) == 0 {
			d.maint()
		}
	case "DoClear":
		d.clear()
	default:
		panic("unknown action " + e.Label)
	}
}

func openEngine(et, dir string) (engine.KVEngine, error) {
	cfg := engine.NewRockConfig()
	cfg.DataDir = dir
	cfg.EngineType = et
	cfg.DisableWAL = true
	eng, err := engine.NewKVEng(cfg)
	if err != nil {
		return nil, err
	}
	if err := eng.OpenEng(); err != nil {
		return nil, err
	}
	return eng, nil
}

func engsim(args []string) error {
	fs := flag.NewFlagSet("engsim", flag.ExitOnError)
	dot := fs.String("dot", "", "TLC dot dump of MC_ZEngine (graph mode)")
	nrand := fs.Int("random", 0, "number of random sequences (random mode)")
	rlen := fs.Int("len", 60, "length of a random sequence")
	et := fs.String("eng", "mem", "engine type: mem | pebble | rocksdb")
	outp := fs.String("o", "eng", "output prefix; parts are <prefix>.<i>.ndjson")
	parts := fs.Int("parts", 1, "number of trace files (segments are dealt round-robin)")
	seed := fs.Int64("seed", 1, "")
	pooli := fs.Int("pool", -1, "key pool (-1: by seed)")
	limit := fs.Int("limit", 0, "graph mode: stop after this many steps (0 = cover all edges)")
	full := fs.Int("full", 1, "graph mode: complete read product on the first visit of each distinct content (1) or sampled reads only (0)")
	nreads := fs.Int("reads", 2, "sampled reads after every write step")
	norevprefix := fs.Bool("norevprefix", false, "skip reverse iterators whose Max has another pool key as a proper prefix (known finding mem-revseek-prefix)")
	indep := fs.Bool("indep", false, "random mode: only batches without intra-batch dependencies (known finding mem-batch-order)")
	emptyflush := fs.Bool("emptyflush", false, "pebble: flush/compact even when the key pool holds the empty key (known finding pebble-empty-key-flush: the flush never completes)")
	defwb := fs.Bool("defwb", false, "use the engine's DefaultWriteBatch (as rockredis does) instead of NewWriteBatch")
	fs.Parse(args)

	engine.SetLogLevel(0)
	dir, err := ioutil.TempDir(os.Getenv("ZR_SCRATCH"), "zreng")
	if err != nil {
		return err
	}
	defer os.RemoveAll(dir)
	eng, err := openEngine(*et, dir)
	if err != nil {
		return err
	}
	defer eng.CloseAll()
	rng := rand.New(rand.NewSource(*seed))
	pi := *pooli
	if pi < 0 {
		pi = int(*seed) % len(engPools)
	}
	// one writer per part; a segment (reset..next reset) goes to one part
	tws := make([]*trace.Writer, *parts)
	for i := range tws {
		tws[i], err = trace.Create(fmt.Sprintf("%s.%d.ndjson", *outp, i))
		if err != nil {
			return err
		}
	}
	d := &engDrv{eng: eng, pool: engPools[pi], pos: map[string]int{}, rng: rng, defwb: *defwb, tw: tws[0]}
	for _, k := range d.pool {
		if k == "" && *et == "pebble" && !*emptyflush {
			d.noflush = true
		}
	}
	for i, k := range d.pool {
		d.pos[k] = i + 1
	}
	if *norevprefix {
		d.skipRevMax = map[int]bool{}
		for i, k := range d.pool {
			for _, o := range d.pool {
				if len(o) < len(k) && strings.HasPrefix(k, o) {
					d.skipRevMax[i+1] = true
				}
			}
		}
	}
	seg := 0
	nextSeg := func() {
		d.tw = tws[seg%len(tws)]
		seg++
		d.reset()
	}
	if *dot != "" {
		g, err := graph.Load(*dot)
		if err != nil {
			return err
		}
		walk := graph.CoverWalk(g, rng, 400, *limit, nil)
		seenData := map[string]bool{}
		for _, st := range walk {
			if st.Reset {
				nextSeg()
				continue
			}
			e := &g.Edges[st.Edge]
			d.execLabel(e)
			for i := 0; i < *nreads; i++ {
				d.randomRead()
			}
			// first time this committed content is reached: the whole read product
			lab := g.Labels[st.Node]
			if i := strings.Index(lab, "batch ="); i > 0 {
				lab = lab[:i]
			}
			if *full > 0 && !seenData[lab] {
				seenData[lab] = true
				d.fullReads()
			}
		}
		covered := map[int]bool{}
		for _, st := range walk {
			if !st.Reset {
				covered[st.Edge] = true
			}
		}
		summary(trace.M{"mode": "graph", "eng": *et, "pool": pi, "poolhex": hexs(d.pool), "nodes": len(g.Labels),
			"edges": len(g.Edges), "edges_covered": len(covered), "steps": len(walk), "segments": seg,
			"writes": d.nwrite, "reads": d.nread, "maint": d.nmaint, "contents": len(seenData)})
	}
	np := len(d.pool)
	for s := 0; s < *nrand; s++ {
		nextSeg()
		d.lastOn = map[int]string{}
		for i := 0; i < *rlen; i++ {
			switch r := rng.Intn(20); {
			case r < 6:
				v := rng.Intn(4)
				if rng.Intn(5) == 0 {
					v = 5 + rng.Intn(1000)
				}
				k := 1 + rng.Intn(np)
				d.bput(k, v)
				d.lastOn[k] = "put"
			case r < 9:
				k := 1 + rng.Intn(np)
				d.bdel(k)
				d.lastOn[k] = "del"
			case r < 11:
				lo := 1 + rng.Intn(np)
				hi := 1 + rng.Intn(np)
				if lo > hi {
					lo, hi = hi, lo
				}
				dep := false
				for k := lo; k < hi; k++ {
					if d.lastOn[k] == "put" || d.lastOn[k] == "merge" {
						dep = true
					}
				}
				if *indep && dep {
					continue
				}
				d.bdelrange(lo, hi)
				for k := lo; k < hi; k++ {
					d.lastOn[k] = "delrange"
				}
			case r < 13:
				k := 1 + rng.Intn(np)
				if *indep && (d.lastOn[k] == "del" || d.lastOn[k] == "delrange") {
					continue
				}
				d.bmerge(k, 1+rng.Intn(3))
				d.lastOn[k] = "merge"
			case r < 18:
				d.commit()
				d.lastOn = map[int]string{}
				if d.rng.Intn(3) == 0 {
					d.maint()
				}
			default:
				d.clear()
				d.lastOn = map[int]string{}
			}
			for j := 0; j < *nreads; j++ {
				d.randomRead()
			}
		}
	}
	if *nrand > 0 {
		summary(trace.M{"mode": "random", "eng": *et, "pool": pi, "poolhex": hexs(d.pool), "sequences": *nrand,
			"segments": seg, "writes": d.nwrite, "reads": d.nread, "maint": d.nmaint})
	}
	for _, tw := range tws {
		tw.Close()
	}
	return nil
}
