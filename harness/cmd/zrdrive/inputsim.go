package main

// inputsim (property C11): malformed client input against the real code, two paths.
//
//   path 1 ("client"): a real single-replica server (server.Server + one namespace, real raft,
//     real redis protocol) runs as a memory-limited CHILD process; the parent sends mutated
//     argument vectors of every registered read / write / merge command over a socket, takes a
//     raw dump of the child's store before and after every command (side channel on the
//     child's stdin/stdout), sends one valid probe command after every erroring one, and watches
//     the child: a child that exits is event `died`, one that stops answering is `hung`.
//     The child records every request that reaches its state machine (= every vector the
//     leader-side checks accepted, in the form it has inside the log).
//   path 2 ("apply"): those accepted vectors are fed to the apply side directly
//     (node.StateMachine.ApplyRaftRequest) on fresh stores, engines x expiry policies, every call
//     under recover (event `panic` with stack), together with a TWIN state machine that skips
//     every vector whose reply was an error: after a valid vector both must hold the same data
//     and give the same reply (an erroring vector changed nothing and leaked nothing).
//
// spec/ZInputTrace.tla decides.  Events: reset, cmd{...}, panic, died, hung.

import (
	"net/http"
	"bufio"
	"bytes"
	"encoding/hex"
	"encoding/json"
	"flag"
	"fmt"
	"io"
	"io/ioutil"
	"math/rand"
	"net"
	"os"
	"os/exec"
	"path"
	"sort"
	"strconv"
	"strings"
	"sync"
	"time"

	"github.com/absolute8511/redcon"
	"github.com/youzan/ZanRedisDB/cluster"
	"github.com/youzan/ZanRedisDB/common"
	"github.com/youzan/ZanRedisDB/node"
	"github.com/youzan/ZanRedisDB/raft"
	"github.com/youzan/ZanRedisDB/rockredis"
	"github.com/youzan/ZanRedisDB/server"
	"github.com/youzan/ZanRedisDB/transport/rafthttp"
	"zrverif/trace"
)

func init() { commands["inputsim"] = inputsim }

const inpNS = "default"

var inpHidx bool      // secondary hash indexes defined on table ta
var inpExpired bool   // prior state with expired and nearly expired objects
var inpGroups = []int{1, 3, 7, 3} // path 2: vectors per apply group, by configuration

// ---------------------------------------------------------------- child: a real server

type inpRecSM struct {
	node.StateMachine
	mu sync.Mutex
	f  *os.File
}

// ApplyRaftRequest records the requests (before they are applied, unbuffered, so that the
// record survives the death of the process) and hands them to the real state machine.
func (r *inpRecSM) ApplyRaftRequest(isReplaying bool, b node.IBatchOperator, req node.BatchInternalRaftRequest, term uint64, index uint64, stop chan struct{}) (bool, error) {
	for _, q := range req.Reqs {
		if q.Header.DataType != 0 {
			continue
		}
		cmd, err := redcon.Parse(q.Data)
		if err != nil {
			continue
		}
		args := make([]string, len(cmd.Args))
		for i, a := range cmd.Args {
			args[i] = hex.EncodeToString(a)
		}
		line, _ := json.Marshal(map[string]interface{}{"index": index, "args": args})
		r.mu.Lock()
		r.f.Write(append(line, '\n'))
		r.mu.Unlock()
	}
	return r.StateMachine.ApplyRaftRequest(isReplaying, b, req, term, index, stop)
}

type inpNullRaftLogger struct{}

func (inpNullRaftLogger) Debug(v ...interface{})                   {}
func (inpNullRaftLogger) Debugf(format string, v ...interface{})   {}
func (inpNullRaftLogger) Error(v ...interface{})                   {}
func (inpNullRaftLogger) Errorf(format string, v ...interface{})   {}
func (inpNullRaftLogger) Info(v ...interface{})                    {}
func (inpNullRaftLogger) Infof(format string, v ...interface{})    {}
func (inpNullRaftLogger) Warning(v ...interface{})                 {}
func (inpNullRaftLogger) Warningf(format string, v ...interface{}) {}
func (inpNullRaftLogger) Fatal(v ...interface{})                   { panic(fmt.Sprint(v...)) }
func (inpNullRaftLogger) Fatalf(format string, v ...interface{})   { panic(fmt.Sprintf(format, v...)) }
func (inpNullRaftLogger) Panic(v ...interface{})                   { panic(fmt.Sprint(v...)) }
func (inpNullRaftLogger) Panicf(format string, v ...interface{})   { panic(fmt.Sprintf(format, v...)) }

// inpSkipRaw: HyperLogLog keys (write cache; compared through PFCOUNT) and the table's index meta
// record (the set of indexes is marshalled from a Go map: its bytes are not canonical, and it
// only changes by index DDL, which is not client input).
func inpSkipRaw(k []byte) bool {
	return bytes.Contains(k, []byte("hlA")) || bytes.HasPrefix(k, []byte("\x0bmeta:"))
}

func inpChild(dir string, port int, eng, policy string) error {
	detSilence()
	server.SetLogger(0, detNullLogger{})
	cluster.SetLogger(0, detNullLogger{})
	rafthttp.SetLogger(0, detNullLogger{})
	raft.SetLogger(inpNullRaftLogger{})
	os.MkdirAll(dir, 0755)
	ioutil.WriteFile(path.Join(dir, "myid"), []byte("1"), common.FILE_PERM)
	raftAddr := "http://127.0.0.1:" + strconv.Itoa(port+2)
	var replica node.ReplicaInfo
	replica.NodeID = 1
	replica.ReplicaID = 1
	replica.RaftAddr = raftAddr
	conf := server.ServerConfig{ClusterID: "verif", DataDir: dir, RedisAPIPort: port, HttpAPIPort: port + 1,
		LocalRaftAddr: raftAddr, BroadcastAddr: "127.0.0.1", TickMs: 20, ElectionTick: 5, ProfilePort: -1}
	conf.RocksDBOpts.EngineType = eng
	nsConf := node.NewNSConfig()
	nsConf.Name = inpNS + "-0"
	nsConf.BaseName = inpNS
	nsConf.EngType = rockredis.EngType
	nsConf.PartitionNum = 1
	nsConf.Replicator = 1
	nsConf.RaftGroupConf.GroupID = 1000
	nsConf.RaftGroupConf.SeedNodes = append(nsConf.RaftGroupConf.SeedNodes, replica)
	nsConf.ExpirationPolicy = common.WaitCompactExpirationPolicy
	if policy == "local" {
		nsConf.ExpirationPolicy = common.DefaultExpirationPolicy
	}
	nsConf.DataVersion = common.ValueHeaderV1Str
	kv, err := server.NewServer(conf)
	if err != nil {
		return err
	}
	nn, err := kv.InitKVNamespace(1, nsConf, false)
	if err != nil {
		return err
	}
	nd := nn.Node
	f, err := os.OpenFile(path.Join(dir, "applied.ndjson"), os.O_CREATE|os.O_WRONLY|os.O_APPEND, 0644)
	if err != nil {
		return err
	}
	node.VerifDetSetSM(nd, &inpRecSM{StateMachine: node.VerifDetSM(nd), f: f})
	kv.Start()
	for i := 0; i < 500 && !nd.IsLead(); i++ {
		time.Sleep(20 * time.Millisecond)
	}
	if !nd.IsLead() {
		return fmt.Errorf("no leader")
	}
	if os.Getenv("ZR_HIDX") == "1" {
		// secondary hash indexes on table "ta" (what the placement driver proposes for HIDX): an
		// integer index on field f1 and a string index on field f2, so that the index-maintaining
		// write paths of HSET/HMSET/HDEL/HINCRBY/HCLEAR see the malformed input as well
		for _, ix := range inpIndexes() {
			b, _ := json.Marshal(ix)
			if err := nd.ProposeChangeTableSchema("ta", &node.SchemaChange{Type: node.SchemaChangeAddHsetIndex, Table: "ta", SchemaData: b}); err != nil {
				return fmt.Errorf("index ddl: %v", err)
			}
			// the life cycle the placement driver walks an index through: building, built, ready
			for _, st := range []common.IndexState{common.BuildingIndex, common.BuildDoneIndex, common.ReadyIndex} {
				u := *ix
				u.State = st
				ub, _ := json.Marshal(&u)
				if err := nd.ProposeChangeTableSchema("ta", &node.SchemaChange{Type: node.SchemaChangeUpdateHsetIndex, Table: "ta", SchemaData: ub}); err != nil {
					return fmt.Errorf("index state %v: %v", st, err)
				}
				time.Sleep(100 * time.Millisecond)
			}
		}
	}
	out := bufio.NewWriter(os.Stdout)
	tables := node.VerifDetCommandTables(nd)
	tables["internal"] = node.VerifDetInternalCommands(node.VerifDetSM(nd).(*inpRecSM).StateMachine)
	tb, _ := json.Marshal(tables)
	fmt.Fprintf(out, "SERVING %s\n", tb)
	out.Flush()
	store := node.VerifDetNodeStore(nd)
	in := bufio.NewReader(os.Stdin)
	for {
		line, err := in.ReadString('\n')
		if err != nil {
			os.Exit(0) // parent went away
		}
		switch strings.TrimSpace(line) {
		case "DUMP":
			m := map[string]string{}
			it, err := store.NewDBRangeIterator(nil, nil, common.RangeClose, false)
			if err == nil {
				for ; it.Valid(); it.Next() {
					if inpSkipRaw(it.Key()) {
						continue
					}
					m[hex.EncodeToString(it.Key())] = detShort(it.Value())
				}
				it.Close()
			}
			for _, k := range []string{"ta:hlA1", "ta:hlA2"} {
				n, err := store.PFCount(0, []byte(k))
				m["hll:"+k] = strconv.FormatInt(n, 10) + detErr(err)
			}
			b, _ := json.Marshal(m)
			out.WriteString("DUMP ")
			out.Write(b)
			out.WriteString("\n")
			out.Flush()
		case "QUIT":
			os.Exit(0)
		}
	}
}

// ---------------------------------------------------------------- parent: child handle

type inpProc struct {
	cmd    *exec.Cmd
	stdin  io.WriteCloser
	out    *bufio.Reader
	dir    string
	port   int
	exited chan struct{}
	tables map[string][]string
	errf   string
}

func inpIndexes() []*common.HsetIndexSchema {
	return []*common.HsetIndexSchema{
		{Name: "ix_f1", IndexField: "f1", ValueType: common.Int64V, State: common.ReadyIndex},
		{Name: "ix_f2", IndexField: "f2", ValueType: common.StringV, State: common.ReadyIndex},
	}
}

func inpFreePort(rng *rand.Rand) int {
	for i := 0; i < 200; i++ {
		p := 21000 + rng.Intn(30000)
		ok := true
		for d := 0; d < 3; d++ {
			l, err := net.Listen("tcp", "127.0.0.1:"+strconv.Itoa(p+d))
			if err != nil {
				ok = false
				break
			}
			l.Close()
		}
		if ok {
			return p
		}
	}
	return 0
}

func inpStart(scratch string, prng *rand.Rand, eng, policy string, memMB int) (*inpProc, error) {
	dir, err := ioutil.TempDir(scratch, "zrchild")
	if err != nil {
		return nil, err
	}
	self, _ := os.Executable()
	port := inpFreePort(prng)
	if port == 0 {
		return nil, fmt.Errorf("no free port")
	}
	script := fmt.Sprintf("ulimit -v %d; exec \"$@\"", memMB*1024)
	c := exec.Command("sh", "-c", script, "sh", self, "inputsim", "-mode", "child", "-dir", dir,
		"-port", strconv.Itoa(port), "-eng", eng, "-policy", policy)
	c.Env = append(os.Environ(), "GOGC=50")
	if inpHidx {
		c.Env = append(c.Env, "ZR_HIDX=1")
	}
	p := &inpProc{cmd: c, dir: dir, port: port, exited: make(chan struct{}), errf: path.Join(dir, "child.err")}
	ef, _ := os.Create(p.errf)
	c.Stderr = ef
	p.stdin, _ = c.StdinPipe()
	so, _ := c.StdoutPipe()
	p.out = bufio.NewReaderSize(so, 1<<20)
	if err := c.Start(); err != nil {
		return nil, err
	}
	go func() { c.Wait(); ef.Close(); close(p.exited) }()
	type res struct {
		line string
		err  error
	}
	ch := make(chan res, 1)
	go func() {
		for {
			l, err := p.out.ReadString('\n')
			if err != nil || strings.HasPrefix(l, "SERVING") {
				ch <- res{l, err}
				return
			}
		}
	}()
	select {
	case r := <-ch:
		if r.err != nil {
			p.kill()
			return nil, fmt.Errorf("child did not start: %v", r.err)
		}
		json.Unmarshal([]byte(strings.TrimPrefix(strings.TrimSpace(r.line), "SERVING ")), &p.tables)
	case <-time.After(40 * time.Second):
		p.kill()
		return nil, fmt.Errorf("child did not start in time")
	}
	return p, nil
}

func (p *inpProc) kill() {
	if p.cmd.Process != nil {
		p.cmd.Process.Kill()
	}
	select {
	case <-p.exited:
	case <-time.After(5 * time.Second):
	}
	os.RemoveAll(p.dir)
}

func (p *inpProc) alive() bool {
	select {
	case <-p.exited:
		return false
	default:
		return true
	}
}

// dump asks the child for its raw store content; nil if the child does not answer.
func (p *inpProc) dump() map[string]string {
	if _, err := io.WriteString(p.stdin, "DUMP\n"); err != nil {
		return nil
	}
	type res struct {
		m map[string]string
	}
	ch := make(chan res, 1)
	go func() {
		for {
			l, err := p.out.ReadString('\n')
			if err != nil {
				ch <- res{nil}
				return
			}
			if strings.HasPrefix(l, "DUMP ") {
				m := map[string]string{}
				json.Unmarshal([]byte(l[5:]), &m)
				ch <- res{m}
				return
			}
		}
	}()
	select {
	case r := <-ch:
		return r.m
	case <-time.After(10 * time.Second):
		return nil
	}
}

func (p *inpProc) deathCause() string {
	b, _ := ioutil.ReadFile(p.errf)
	s := string(b)
	switch {
	case strings.Contains(s, "out of memory") || strings.Contains(s, "cannot allocate memory"):
		return "oom"
	case strings.Contains(s, "panic:"):
		i := strings.Index(s, "panic:")
		e := s[i:]
		if len(e) > 300 {
			e = e[:300]
		}
		return "panic: " + strings.Replace(inpFirstLines(e, 2), "\n", " | ", -1) + " @ " + inpPanicSite(s)
	case strings.Contains(s, "fatal error:"):
		i := strings.Index(s, "fatal error:")
		return inpFirstLines(s[i:], 1)
	}
	return "exit"
}

func inpFirstLines(s string, n int) string {
	l := strings.Split(s, "\n")
	if len(l) > n {
		l = l[:n]
	}
	return strings.Join(l, "\n")
}

func inpPanicSite(s string) string {
	for _, l := range strings.Split(s, "\n") {
		l = strings.TrimSpace(l)
		if strings.HasPrefix(l, "/") && strings.Contains(l, ".go:") && !strings.Contains(l, "/verif") &&
			!strings.Contains(l, "/go/src/") && !strings.Contains(l, "/usr/") && !strings.Contains(l, "/runtime/") {
			// the first frame inside the repository (its working tree is the module root)
			for _, pkg := range []string{"/node/", "/rockredis/", "/server/", "/common/", "/engine/", "/raft/", "/cluster/"} {
				if i := strings.LastIndex(l, pkg); i >= 0 {
					l = l[i+1:]
					if j := strings.Index(l, " "); j > 0 {
						l = l[:j]
					}
					return l
				}
			}
		}
	}
	return "?"
}

// ---------------------------------------------------------------- minimal RESP client

type inpConn struct {
	c net.Conn
	r *bufio.Reader
}

func inpDial(port int) (*inpConn, error) {
	c, err := net.DialTimeout("tcp", "127.0.0.1:"+strconv.Itoa(port), 2*time.Second)
	if err != nil {
		return nil, err
	}
	return &inpConn{c: c, r: bufio.NewReader(c)}, nil
}

func (c *inpConn) do(args []string, d time.Duration) (string, error) {
	var b bytes.Buffer
	fmt.Fprintf(&b, "*%d\r\n", len(args))
	for _, a := range args {
		fmt.Fprintf(&b, "$%d\r\n%s\r\n", len(a), a)
	}
	c.c.SetDeadline(time.Now().Add(d))
	if _, err := c.c.Write(b.Bytes()); err != nil {
		return "", err
	}
	return c.read(0)
}

func (c *inpConn) read(depth int) (string, error) {
	l, err := c.r.ReadString('\n')
	if err != nil {
		return "", err
	}
	l = strings.TrimRight(l, "\r\n")
	if l == "" {
		return "", fmt.Errorf("empty line")
	}
	switch l[0] {
	case '+':
		return "s:" + l[1:], nil
	case '-':
		return "e:" + l[1:], nil
	case ':':
		return "i:" + l[1:], nil
	case '$':
		n, _ := strconv.Atoi(l[1:])
		if n < 0 {
			return "nil", nil
		}
		buf := make([]byte, n+2)
		if _, err := io.ReadFull(c.r, buf); err != nil {
			return "", err
		}
		return "b:" + detShort(buf[:n]), nil
	case '*':
		n, _ := strconv.Atoi(l[1:])
		if n < 0 {
			return "nil", nil
		}
		if depth > 6 {
			return "", fmt.Errorf("too deep")
		}
		parts := make([]string, 0, n)
		for i := 0; i < n; i++ {
			s, err := c.read(depth + 1)
			if err != nil {
				return "", err
			}
			if len(parts) < 8 {
				parts = append(parts, s)
			}
		}
		return fmt.Sprintf("a%d:[%s]", n, strings.Join(parts, ",")), nil
	}
	return "", fmt.Errorf("bad reply %q", l)
}

// ---------------------------------------------------------------- vectors and mutations

// pool keys: distinctive names so that a raw engine key can be attributed to the user key it
// belongs to by a substring test
var inpPool = []string{"kvA1", "kvA2", "kvA3", "inA1", "hsA1", "hsA2", "lsA1", "lsA2", "stA1", "stA2",
	"zsA1", "zsA2", "jsA1", "jsA2", "bmA1", "hlA1", "hlA2", "geA1"}

func inpK(n string) string { return inpNS + ":ta:" + n }

// inpValid: one valid instance of every command the node registers (key arguments are full
// client keys).  A registered name that is missing here gets a generic instance (counted).
func inpValid() map[string][]string {
	K := inpK
	doc := `{"a":1,"arr":[1,2],"o":{"x":"y"}}`
	return map[string][]string{
		"get": {K("kvA1")}, "stale.get": {K("kvA1")}, "stale.getversion": {K("kvA1")}, "stale.getexpired": {K("kvA1")},
		"strlen": {K("kvA1")}, "getrange": {K("kvA2"), "0", "2"}, "getnolock": {K("kvA1")}, "getbit": {K("bmA1"), "9"},
		"bitcount": {K("bmA1"), "0", "-1"}, "mget": {K("kvA1"), K("kvA2")}, "set": {K("kvA1"), "11", "ex", "100000"},
		"append": {K("kvA2"), "xy"}, "setrange": {K("kvA2"), "2", "zz"}, "getset": {K("kvA2"), "w"},
		"setbit": {K("bmA1"), "12", "1"}, "setbitv2": {K("bmA1"), "13", "1"}, "setnx": {K("kvA3"), "n"},
		"setifeq": {K("kvA1"), "10", "12", "ex", "100000"}, "delifeq": {K("kvA3"), "n"}, "incr": {K("inA1")},
		"incrby": {K("inA1"), "5"}, "pfadd": {K("hlA1"), "e1", "e2"}, "pfcount": {K("hlA1")}, "bitclear": {K("bmA1")},
		"hget": {K("hsA1"), "f1"}, "stale.hget.version": {K("hsA1"), "f1"}, "stale.hgetall.expired": {K("hsA1")},
		"stale.hmget.expired": {K("hsA1"), "f1", "f2"}, "hgetall": {K("hsA1")}, "hkeys": {K("hsA1")}, "hvals": {K("hsA1")},
		"hexists": {K("hsA1"), "f1"}, "hmget": {K("hsA1"), "f1", "f2"}, "hlen": {K("hsA1")},
		"hset": {K("hsA1"), "f1", "7"}, "hsetnx": {K("hsA1"), "f4", "v"}, "hmset": {K("hsA1"), "f1", "2", "f5", "v"},
		"hdel": {K("hsA1"), "f2", "f9"}, "hincrby": {K("hsA1"), "f1", "3"}, "hclear": {K("hsA2")},
		"json.get": {K("jsA1"), "a"}, "json.keyexists": {K("jsA1")}, "json.mkget": {K("jsA1"), K("jsA2"), "a"},
		"json.type": {K("jsA1"), "a"}, "json.arrlen": {K("jsA1"), "arr"}, "json.objkeys": {K("jsA1"), "o"},
		"json.objlen": {K("jsA1"), "o"}, "json.set": {K("jsA1"), "b", "5"}, "json.del": {K("jsA1"), "b"},
		"json.arrappend": {K("jsA1"), "arr", "3", `"s"`}, "json.arrpop": {K("jsA1"), "arr"},
		"lindex": {K("lsA1"), "0"}, "llen": {K("lsA1")}, "lrange": {K("lsA1"), "0", "-1"}, "lfixkey": {K("lsA1")},
		"lpop": {K("lsA1")}, "lpush": {K("lsA1"), "x", "y"}, "lset": {K("lsA1"), "0", "w"}, "ltrim": {K("lsA1"), "0", "3"},
		"rpop": {K("lsA1")}, "rpush": {K("lsA1"), "z"}, "lclear": {K("lsA2")},
		"zscore": {K("zsA1"), "m1"}, "zcount": {K("zsA1"), "1", "2"}, "zcard": {K("zsA1")}, "zlexcount": {K("zsA1"), "[m1", "[m3"},
		"zrange": {K("zsA1"), "0", "-1", "withscores"}, "zrevrange": {K("zsA1"), "0", "1"},
		"zrangebylex": {K("zsA1"), "[m1", "(m3", "limit", "0", "2"}, "zrangebyscore": {K("zsA1"), "(1", "+inf", "withscores", "limit", "0", "2"},
		"zrevrangebyscore": {K("zsA1"), "3", "1"}, "zrank": {K("zsA1"), "m2"}, "zrevrank": {K("zsA1"), "m2"},
		"zfixkey": {K("zsA1")}, "zadd": {K("zsA1"), "4", "m4", "1.5", "m1"}, "zincrby": {K("zsA1"), "2", "m2"},
		"zrem": {K("zsA1"), "m3", "m9"}, "zremrangebyrank": {K("zsA2"), "0", "0"}, "zremrangebyscore": {K("zsA2"), "1", "(2"},
		"zremrangebylex": {K("zsA2"), "[m1", "[m2"}, "zclear": {K("zsA2")},
		"scard": {K("stA1")}, "sismember": {K("stA1"), "m1"}, "smembers": {K("stA1")}, "srandmember": {K("stA1"), "2"},
		"spop": {K("stA1"), "1"}, "sadd": {K("stA1"), "m4", "m1"}, "srem": {K("stA1"), "m2", "m9"}, "sclear": {K("stA2")},
		"ttl": {K("kvA1")}, "httl": {K("hsA1")}, "lttl": {K("lsA1")}, "sttl": {K("stA1")}, "zttl": {K("zsA1")}, "bttl": {K("bmA1")},
		"hkeyexist": {K("hsA1")}, "lkeyexist": {K("lsA1")}, "skeyexist": {K("stA1")}, "zkeyexist": {K("zsA1")}, "bkeyexist": {K("bmA1")},
		"setex": {K("kvA3"), "100000", "v"}, "expire": {K("kvA1"), "100000"}, "hexpire": {K("hsA1"), "100000"},
		"lexpire": {K("lsA1"), "100000"}, "sexpire": {K("stA1"), "100000"}, "zexpire": {K("zsA1"), "100000"}, "bexpire": {K("bmA1"), "100000"},
		"persist": {K("kvA1")}, "hpersist": {K("hsA1")}, "lpersist": {K("lsA1")}, "spersist": {K("stA1")}, "zpersist": {K("zsA1")}, "bpersist": {K("bmA1")},
		"hscan": {K("hsA1"), "", "count", "2"}, "sscan": {K("stA1"), "", "match", "m*", "count", "2"}, "zscan": {K("zsA1"), "", "count", "2"},
		"hrevscan": {K("hsA1"), "", "count", "2"}, "srevscan": {K("stA1"), "", "count", "2"}, "zrevscan": {K("zsA1"), "", "count", "2"},
		"geoadd": {K("geA1"), "13.361389", "38.115556", "m1", "15.087269", "37.502669", "m2"},
		"geohash": {K("geA1"), "m1"}, "geodist": {K("geA1"), "m1", "m2", "km"}, "geopos": {K("geA1"), "m1", "m9"},
		"georadius": {K("geA1"), "15", "37", "200", "km", "withdist", "withcoord", "count", "2", "asc"},
		"georadiusbymember": {K("geA1"), "m1", "200", "km", "desc"},
		"scan": {inpNS + ":ta:", "kv", "count", "3"}, "advscan": {inpNS + ":ta:", "kv", "count", "3", "match", "kv*"},
		"revscan": {inpNS + ":ta:", "kv", "count", "3"}, "advrevscan": {inpNS + ":ta:", "hash", "count", "3"},
		"fullscan": {inpNS + ":ta:", "kv", "count", "3"}, "hidx.from": {inpNS + ":ta", "where", `"f1=1"`},
		"exists": {K("kvA1"), K("kvA9")}, "del": {K("kvA3"), K("kvA9")}, "plset": {K("kvA3"), "p", K("kvA2"), "q"},
		"noopwrite": {K("kvA1"), "v"},
		"_doc": {doc},
	}
}

var inpExpKeys = []string{"kvE1", "hsE1", "lsE1", "stE1", "zsE1", "kvN1", "hsN1", "lsN1", "stN1", "zsN1"}

// inpExpPopulate: objects whose expiry has passed when the mutations start (E, 1 s) and objects
// that expire while they run (N, 6 s).
func inpExpPopulate() [][]string {
	K := inpK
	var out [][]string
	for _, x := range []struct{ s, d string }{{"E1", "1"}, {"N1", "6"}} {
		out = append(out, [][]string{
			{"setex", K("kv" + x.s), x.d, "10"},
			{"hmset", K("hs" + x.s), "f1", "1", "f2", "b"}, {"hexpire", K("hs" + x.s), x.d},
			{"rpush", K("ls" + x.s), "a", "b", "c"}, {"lexpire", K("ls" + x.s), x.d},
			{"sadd", K("st" + x.s), "m1", "m2", "m3"}, {"sexpire", K("st" + x.s), x.d},
			{"zadd", K("zs" + x.s), "1", "m1", "2", "m2"}, {"zexpire", K("zs" + x.s), x.d},
		}...)
	}
	return out
}

func inpPopulate(rng *rand.Rand) [][]string {
	K := inpK
	doc := inpValid()["_doc"][0]
	cmds := [][]string{
		{"set", K("kvA1"), "10"}, {"set", K("kvA2"), "hello"}, {"set", K("inA1"), "7"},
		{"hmset", K("hsA1"), "f1", "1", "f2", "b"}, {"hset", K("hsA2"), "f1", "x"},
		{"rpush", K("lsA1"), "a", "b", "c", "d"}, {"rpush", K("lsA2"), "a"},
		{"sadd", K("stA1"), "m1", "m2", "m3"}, {"sadd", K("stA2"), "m1"},
		{"zadd", K("zsA1"), "1", "m1", "2", "m2", "3", "m3"}, {"zadd", K("zsA2"), "1", "m1", "2", "m2"},
		{"json.set", K("jsA1"), "", doc}, {"json.set", K("jsA2"), "", doc},
		{"setbitv2", K("bmA1"), "9", "1"}, {"pfadd", K("hlA1"), "x", "y"},
		{"geoadd", K("geA1"), "13.361389", "38.115556", "m1", "15.087269", "37.502669", "m2"},
	}
	// random prior state: a random subset, random extras, some expiries
	var out [][]string
	if rng.Intn(2) == 0 {
		// collections beyond 128 elements (length metrics, large-collection bookkeeping)
		big := map[string][]string{"hmset": {K("hsA2")}, "sadd": {K("stA2")}, "zadd": {K("zsA2")}, "rpush": {K("lsA2")}}
		for i := 0; i < 135; i++ {
			e := fmt.Sprintf("e%03d", i)
			big["hmset"] = append(big["hmset"], e, "v")
			big["sadd"] = append(big["sadd"], e)
			big["zadd"] = append(big["zadd"], strconv.Itoa(i), e)
			big["rpush"] = append(big["rpush"], e)
		}
		for _, n := range []string{"hmset", "sadd", "zadd", "rpush"} {
			cmds = append(cmds, append([]string{n}, big[n]...))
		}
	}
	// the base objects always exist (mutations of a command need its valid instance to be
	// meaningful on the prior state); what varies by seed is their extra content and expiries
	out = append(out, cmds...)
	for i := 0; i < 6; i++ {
		switch rng.Intn(6) {
		case 0:
			out = append(out, []string{"expire", K("kvA2"), "100000"})
		case 1:
			out = append(out, []string{"hexpire", K("hsA1"), "100000"})
		case 2:
			out = append(out, []string{"lpush", K("lsA1"), "p" + strconv.Itoa(i)})
		case 3:
			out = append(out, []string{"sadd", K("stA1"), "q" + strconv.Itoa(i)})
		case 4:
			out = append(out, []string{"zadd", K("zsA1"), strconv.Itoa(i), "r" + strconv.Itoa(i)})
		default:
			out = append(out, []string{"hset", K("hsA1"), "g" + strconv.Itoa(i), "1"})
		}
	}
	return out
}

// inpBaseOf returns the populate command that (re-)creates the base content of a pool key.
func inpBaseOf(key string) ([]string, bool) {
	K := inpK
	for _, c := range [][]string{
		{"hmset", K("hsA1"), "f1", "1", "f2", "b"}, {"rpush", K("lsA1"), "a", "b"}, {"sadd", K("stA1"), "m1", "m2", "m3"},
		{"zadd", K("zsA1"), "1", "m1", "2", "m2", "3", "m3"}, {"set", K("kvA2"), "hello"}, {"set", K("kvA1"), "10"},
	} {
		if c[1] == key {
			return c, true
		}
	}
	return nil, false
}

// multi-element writes: commands that buffer one element after the other
var inpMultiElem = map[string]bool{"hmset": true, "plset": true, "sadd": true, "srem": true, "lpush": true, "rpush": true,
	"zadd": true, "zrem": true, "hdel": true, "pfadd": true, "json.arrappend": true, "geoadd": true, "del": true}

var inpBig = strings.Repeat("B", 8*1024*1024+1)

var inpNumRepl = []string{"notnum", "", "99999999999999999999", "-1", "-9223372036854775808", "9223372036854775807",
	"1e400", "nan", "0", "4294967296", "2147483648", "+inf", "-inf", "1.5", " 1", "0x10", "(", "[", "1e3",
	// error-message-like text: apply-side error classification works on message strings
	"No space left on device", "IO error: No space left on device", "Corruption: bad block"}

type inpVec struct {
	name string
	mut  string
	args []string // complete vector incl. the command name
}

func inpIsNum(s string) bool {
	_, err := strconv.ParseFloat(strings.TrimLeft(s, "(["), 64)
	return err == nil
}

// inpMutations derives argument vectors from one valid instance.
func inpMutations(name string, valid []string, rng *rand.Rand, huge bool) []inpVec {
	var out []inpVec
	add := func(mut string, args []string) {
		out = append(out, inpVec{name: name, mut: mut, args: append([]string{name}, args...)})
	}
	cp := func() []string { return append([]string{}, valid...) }
	add("valid", cp())
	add("noargs", nil)
	add("upper", cp())
	out[len(out)-1].args[0] = strings.ToUpper(name)
	for i := range valid {
		a := cp()
		add(fmt.Sprintf("drop%d", i), append(a[:i], a[i+1:]...))
		a = cp()
		d := append([]string{}, a[:i+1]...)
		d = append(d, a[i:]...)
		add(fmt.Sprintf("dup%d", i), d)
	}
	add("append1", append(cp(), "x"))
	add("append2", append(cp(), "1", "2"))
	add("appendopt", append(cp(), "badopt"))
	add("appendcount", append(cp(), "count"))
	add("appendlimit", append(cp(), "limit", "0"))
	add("appendex", append(cp(), "ex", "notnum"))
	add("appendnx", append(cp(), "nx", "xx"))
	for i, v := range valid {
		if i == 0 {
			continue
		}
		if inpIsNum(v) {
			for _, r := range inpNumRepl {
				a := cp()
				a[i] = r
				add(fmt.Sprintf("num%d=%s", i, r), a)
			}
			if huge {
				a := cp()
				a[i] = "999999999"
				add(fmt.Sprintf("num%d=999999999", i), a)
			}
		} else if !strings.HasPrefix(v, inpNS+":") {
			for _, r := range []string{"", strings.Repeat("S", 10241), strings.Repeat("s", 1025), "\x00\xff\r\n", "a b", "*", "$-1", "-1", "12"} {
				a := cp()
				a[i] = r
				add(fmt.Sprintf("sub%d=%.6q", i, r), a)
			}
			a := cp()
			a[i] = strings.ToUpper(v) + "zz"
			add(fmt.Sprintf("opt%d", i), a)
		}
	}
	// index query conditions with empty / odd operands (hidx.from runs in a merge goroutine)
	if name == "hidx.from" && len(valid) == 3 {
		for _, w := range []string{`"=1"`, `"f1="`, `"="`, `""`, `"f1"`, `"f1==1"`, `"f1>"`, `">1"`, `"<"`, `"<=1"`, `">=1"`, `"f1=1 and"`,
			`"and"`, `"and f1=1"`, `"f1=1 and =2"`, `"f1>1 and <"`, `f1=1`, `=1`, `"f1=1"x`, `"f1<>1"`, `" =1"`, `"f1 = "`, `"nofield=1"`,
			`"f1=notnum"`, `"f1=99999999999999999999"`, `"f2=\x00\xff"`, `"f1=1 and f1=2 and f1=3"`} {
			a := cp()
			a[2] = w
			add("where="+w, a)
		}
		for _, extra := range [][]string{{"limit"}, {"limit", "notnum"}, {"limit", "-1"}, {"offset", "notnum"}, {"hget", "$"}, {"hget"}} {
			add("whereopt="+strings.Join(extra, "_"), append(cp(), extra...))
		}
	}
	// a value over the 8 MiB limit in the LAST position of a multi-element command (the handler
	// has buffered the valid leading elements when it meets it)
	if len(valid) >= 3 && inpMultiElem[name] {
		a := cp()
		a[len(a)-1] = inpBig
		add("biglast", a)
	}
	// key shapes
	keyShapes := []string{inpNS + ":ta:", inpNS + ":ta", inpNS + ":", inpNS, "", "kvA1", "nons:ta:kvA1", ":ta:kvA1",
		inpNS + ":ta:" + strings.Repeat("K", 10241), inpNS + ":ta:" + strings.Repeat("k", 1100), inpNS + ":ta:\x00\xff\r\n",
		inpNS + "::kvA1", inpNS + ":" + strings.Repeat("T", 300) + ":kvA1", inpNS + ":\xff\xfe:kvA1", inpNS + ":ta:kvA1:x:y", inpNS + ":ta:wrongtype"}
	for _, ks := range keyShapes {
		if len(valid) == 0 {
			break
		}
		a := cp()
		a[0] = ks
		add(fmt.Sprintf("key=%.14q", ks), a)
	}
	// the same command on an object of its family whose expiry has passed / is about to pass
	if inpExpired && len(valid) > 0 && strings.HasPrefix(valid[0], inpNS+":ta:") && len(valid[0]) >= len(inpNS)+6 {
		fam := valid[0][len(inpNS)+4 : len(inpNS)+6]
		for _, x := range []string{"E1", "N1"} {
			for _, k := range inpExpKeys {
				if k == fam+x {
					a := cp()
					a[0] = inpK(k)
					add("expkey="+k, a)
				}
			}
		}
	}
	// wrong type: the key of another family
	if len(valid) > 0 && strings.HasPrefix(valid[0], inpNS+":ta:") {
		for _, o := range []string{"kvA1", "hsA1", "lsA1", "stA1", "zsA1", "jsA1"} {
			if !strings.HasSuffix(valid[0], o) {
				a := cp()
				a[0] = inpK(o)
				add("otherkey="+o, a)
			}
		}
	}
	_ = rng
	return out
}

// inpKnownTrigger names the recorded finding a vector is a trigger of ("" if none).  The
// general corpus leaves these vectors out (avoid); the isolate stages send exactly them.
func inpKnownTrigger(args []string) string {
	if len(args) == 0 {
		return ""
	}
	name := strings.ToLower(args[0])
	for _, a := range args[1:] {
		if strings.HasPrefix(a, inpNS+":") {
			rest := a[len(inpNS)+1:]
			if i := strings.Index(rest, ":"); i >= 0 {
				rest = rest[:i]
			}
			if strings.ToValidUTF8(rest, "") != rest {
				return "C11-nonutf8-table-metric-label"
			}
		}
	}
	switch name {
	case "setbit", "setbitv2":
		if len(args) >= 2 && strings.HasPrefix(args[1], inpNS+":") && strings.HasSuffix(args[1], ":") {
			return "C11-bitset-empty-key-partial"
		}
	case "json.arrappend", "json.set", "json.del", "json.arrpop":
		if len(args) >= 3 {
			for _, c := range strings.Split(args[2], ".") {
				if n, err := strconv.ParseInt(c, 10, 64); err == nil && n >= 100000 {
					return "C11-json-huge-index"
				}
			}
		}
	}
	return ""
}

// ---------------------------------------------------------------- attribution of raw keys

// inpKeyParts: the user-key parts (after namespace and table) of all client keys in a vector.
func inpKeyParts(args []string) []string {
	var out []string
	for _, a := range args[1:] {
		if strings.HasPrefix(a, inpNS+":") {
			rest := a[len(inpNS)+1:]
			if i := strings.Index(rest, ":"); i >= 0 && i+1 < len(rest) {
				kp := rest[i+1:]
				if len(kp) > 40 {
					kp = kp[:40]
				}
				out = append(out, kp)
			}
		}
	}
	return out
}

func inpDiff(pre, post map[string]string) []string {
	var ch []string
	for k, v := range post {
		if pv, ok := pre[k]; !ok || pv != v {
			ch = append(ch, k)
		}
	}
	for k := range pre {
		if _, ok := post[k]; !ok {
			ch = append(ch, k)
		}
	}
	sort.Strings(ch)
	return ch
}

// inpForeign: changed raw keys that belong to a known key (pool or probe) the vector did not
// address.  known = names of pool keys and of probe keys used so far.
func inpForeign(changed []string, addressed []string, known []string) []string {
	var out []string
	for _, hk := range changed {
		raw := hk
		if b, err := hex.DecodeString(hk); err == nil {
			raw = string(b)
		}
		own := false
		for _, a := range addressed {
			if len(a) > 7 {
				// memcmp-encoded keys are stored in groups of 8 bytes with a marker byte in between, and
				// the alignment differs between record kinds (index records carry table:key): a long
				// mutated key is recognised by its first 7 or, failing that, its first 4 bytes
				if strings.Contains(raw, a[:4]) {
					own = true
					break
				}
				a = a[:7]
			}
			if a != "" && strings.Contains(raw, a) {
				own = true
				break
			}
		}
		if own {
			continue
		}
		for _, k := range known {
			if strings.Contains(raw, k) {
				if len(hk) > 60 {
					hk = hk[:60]
				}
				out = append(out, hk)
				break
			}
		}
	}
	if len(out) > 5 {
		out = out[:5]
	}
	return out
}

// ---------------------------------------------------------------- parent driver

type inpDrv struct {
	tw       *trace.Writer
	rng      *rand.Rand
	scratch  string
	eng      string
	policy   string
	memMB    int
	p        *inpProc
	conn     *inpConn
	last     map[string]string
	seq      int
	probeN   int
	known    []string
	stats    map[string]int
	rw       map[string]string // command name -> "r" | "w" | "m" | "mw"
	fatal    []map[string]interface{}
	accepted [][]string // vectors recorded by the child's state machine (log form), in order
	deaths   int
	samples  []interface{}
	perCmd   map[string]map[string]int
	distinct map[string]bool
	lastClass string
	recent    [][]string // the last vectors sent (a death may be noticed one command late)
	recentRaw [][]string
	noreply   map[string]int
	holdEmit  bool
	held      trace.M
	lastReply string
}

func (d *inpDrv) emitCmd(pathName string, v inpVec, cls, r string, pre, post map[string]string, want string, probe bool, tw, rt string) {
	ch := inpDiff(pre, post)
	foreign := inpForeign(ch, inpKeyParts(v.args), d.known)
	if foreign == nil {
		foreign = []string{}
	}
	if len(r) > 120 {
		r = r[:120]
	}
	if len(rt) > 120 {
		rt = rt[:120]
	}
	rwk := d.rw[v.name]
	if rwk == "" {
		rwk = "?"
	}
	d.seq++
	ev := trace.M{"ev": "cmd", "seq": d.seq, "path": pathName, "name": v.name, "mut": v.mut, "rw": rwk, "cls": cls, "r": r,
		"pre": detDigest(pre), "dg": detDigest(post), "nchg": len(ch), "chg": inpHead(ch, 4), "foreign": foreign, "want": want, "probe": probe,
		"tw": tw, "rt": rt, "argc": len(v.args), "trig": inpKnownTrigger(v.args)}
	d.lastClass = cls
	d.lastReply = r
	if d.holdEmit {
		// a probe whose failure looks environmental (proposal timed out on an overloaded
		// machine) is repeated once; only the final attempt is logged
		d.held = ev
		return
	}
	d.tw.Emit(ev)
	d.stats["cmd_"+pathName]++
	d.stats["cls_"+cls]++
	if d.perCmd[v.name] == nil {
		d.perCmd[v.name] = map[string]int{}
	}
	d.perCmd[v.name][cls]++
	// distinct non-trivial: distinct (command, mutation class, outcome class) with a mutation other than "valid"
	if v.mut != "valid" && !probe {
		m := v.mut
		if i := strings.Index(m, "="); i > 0 {
			m = m[:i]
		}
		d.distinct[v.name+"/"+m+"/"+cls] = true
	}
	if len(d.samples) < 6 && v.mut != "valid" && !probe && (cls == "err" || d.seq%37 == 0) {
		d.samples = append(d.samples, trace.M{"path": pathName, "args": inpShow(v.args), "cls": cls, "reply": r, "changed_raw_keys": len(ch)})
	}
}

func inpHead(ss []string, n int) []string {
	out := []string{}
	for i, s := range ss {
		if i >= n {
			break
		}
		if len(s) > 240 {
			s = s[:240]
		}
		out = append(out, s)
	}
	return out
}

func inpShow(args []string) []string {
	out := make([]string, len(args))
	for i, a := range args {
		if len(a) > 40 {
			out[i] = fmt.Sprintf("%q...(%d bytes)", a[:16], len(a))
		} else {
			out[i] = fmt.Sprintf("%q", a)
		}
	}
	return out
}

func (d *inpDrv) startChild() error {
	var err error
	for try := 0; try < 3; try++ {
		d.p, err = inpStart(d.scratch, d.rng, d.eng, d.policy, d.memMB)
		if err == nil {
			break
		}
	}
	if err != nil {
		return err
	}
	d.conn = nil
	d.tw.Emit(trace.M{"ev": "reset", "path": "client", "eng": d.eng, "policy": d.policy})
	d.stats["children"]++
	d.last = d.p.dump()
	if d.last == nil {
		return fmt.Errorf("child does not dump")
	}
	if d.rw == nil {
		d.rw = map[string]string{}
		for kind, tag := range map[string]string{"read": "r", "write": "w", "merge": "m", "mergewrite": "mw"} {
			for _, n := range d.p.tables[kind] {
				d.rw[n] = tag
			}
		}
	}
	for _, c := range inpPopulate(d.rng) {
		d.send(inpVec{name: c[0], mut: "valid", args: c}, "", false)
	}
	if inpExpired {
		for _, c := range inpExpPopulate() {
			d.send(inpVec{name: c[0], mut: "valid", args: c}, "", false)
		}
		time.Sleep(1300 * time.Millisecond) // the E objects are past their expiry from here on
	}
	return nil
}

// send one vector the way a client does and record what happened.  Returns false if the child
// is gone (died / hung).
func (d *inpDrv) send(v inpVec, want string, probe bool) bool {
	if d.conn == nil {
		c, err := inpDial(d.p.port)
		if err != nil {
			return d.gone(v, "connect: "+err.Error())
		}
		d.conn = c
	}
	pre := d.last
	dl := 8 * time.Second
	if k := d.rw[v.name]; k == "r" {
		dl = 3 * time.Second
	}
	r, err := d.conn.do(v.args, dl)
	cls := "ok"
	if err != nil {
		// no reply: the connection was closed by the server (recovered panic on the connection
		// path), the command has no reply, or the server is gone
		d.conn.c.Close()
		d.conn = nil
		time.Sleep(50 * time.Millisecond)
		if !d.p.alive() {
			return d.gone(v, "")
		}
		// liveness: a few patient pings (the machine may be overloaded; wall-clock time-outs of
		// real processes must not become verdicts lightly)
		var err2 error
		for try := 0; try < 4; try++ {
			var c2 *inpConn
			c2, err2 = inpDial(d.p.port)
			if err2 == nil {
				_, err2 = c2.do([]string{"ping"}, 6*time.Second)
				c2.c.Close()
			}
			if err2 == nil || !d.p.alive() {
				break
			}
			time.Sleep(time.Second)
		}
		if err2 != nil {
			if !d.p.alive() {
				return d.gone(v, "")
			}
			return d.gone(v, "hung")
		}
		cls = "noreply"
		r = "x:" + err.Error()
		if strings.Contains(err.Error(), "EOF") || strings.Contains(err.Error(), "reset") {
			cls = "closed"
		}
	} else {
		if strings.HasPrefix(r, "e:") {
			cls = "err"
		}
		// one connection per command: an error text may echo raw client bytes (CR LF included)
		// and PLSET answers with one status line per key, either leaves unread bytes in the stream
		d.conn.c.Close()
		d.conn = nil
	}
	d.recent = append(d.recent, inpShow(v.args))
	d.recentRaw = append(d.recentRaw, v.args)
	if len(d.recent) > 3 {
		d.recent = d.recent[1:]
		d.recentRaw = d.recentRaw[1:]
	}
	post := d.p.dump()
	if post == nil {
		if !d.p.alive() {
			return d.gone(v, "")
		}
		return d.gone(v, "hung")
	}
	d.emitCmd("client", v, cls, r, pre, post, want, probe, "", "")
	d.last = post
	return true
}

func (d *inpDrv) gone(v inpVec, how string) bool {
	ev := "died"
	cause := how
	if how == "hung" {
		ev = "hung"
	} else {
		// give the exit a moment to be reaped
		select {
		case <-d.p.exited:
		case <-time.After(3 * time.Second):
		}
		if d.p.alive() {
			ev = "hung"
			cause = "no answer, process still there: " + how
		} else {
			cause = d.p.deathCause()
		}
	}
	d.seq++
	trig := inpKnownTrigger(v.args)
	for i := len(d.recentRaw) - 1; i >= 0 && trig == ""; i-- {
		trig = inpKnownTrigger(d.recentRaw[i])
	}
	d.tw.Emit(trace.M{"ev": ev, "seq": d.seq, "path": "client", "name": v.name, "mut": v.mut, "args": inpShow(v.args), "cause": cause,
		"prev": d.recent, "trig": trig})
	d.stats[ev]++
	d.fatal = append(d.fatal, map[string]interface{}{"ev": ev, "args": inpShow(v.args), "cause": cause, "prev": d.recent})
	d.recent = nil
	d.recentRaw = nil
	d.collectAccepted(true)
	d.p.kill()
	d.deaths++
	return false
}

// collectAccepted reads what the child's state machine was handed; if the child died the last
// recorded vector is the one being applied at that moment - it is not fed to path 2.
func (d *inpDrv) collectAccepted(died bool) {
	b, err := ioutil.ReadFile(path.Join(d.p.dir, "applied.ndjson"))
	if err != nil {
		return
	}
	var vs [][]string
	for _, l := range strings.Split(string(b), "\n") {
		if l == "" {
			continue
		}
		var rec struct {
			Args []string `json:"args"`
		}
		if json.Unmarshal([]byte(l), &rec) != nil {
			continue
		}
		args := make([]string, len(rec.Args))
		for i, a := range rec.Args {
			x, _ := hex.DecodeString(a)
			args[i] = string(x)
		}
		vs = append(vs, args)
	}
	if died && len(vs) > 0 {
		vs = vs[:len(vs)-1]
	}
	d.accepted = append(d.accepted, vs...)
	d.accepted = append(d.accepted, nil) // nil = boundary between children
}

var inpProbes = []struct {
	args []string
	want string
}{
	{[]string{"set", "%K", "pv"}, "s:OK"},
	{[]string{"hset", "%K", "f", "pv"}, "i:1"},
	{[]string{"rpush", "%K", "pv"}, "i:1"},
	{[]string{"sadd", "%K", "pm"}, "i:1"},
	{[]string{"zadd", "%K", "1", "pm"}, "i:1"},
	{[]string{"incr", "%K"}, "i:1"},
	{[]string{"setex", "%K", "100000", "pv"}, "s:OK"},
	{[]string{"hmset", "%K", "f", "pv"}, "s:OK"},
}

func (d *inpDrv) probe() bool {
	d.probeN++
	name := fmt.Sprintf("pRb%05d", d.probeN)
	d.known = append(d.known, name)
	p := inpProbes[d.probeN%len(inpProbes)]
	args := make([]string, len(p.args))
	for i, a := range p.args {
		args[i] = strings.Replace(a, "%K", inpNS+":pt:"+name, 1)
	}
	v := inpVec{name: args[0], mut: "valid", args: args}
	d.holdEmit, d.held = true, nil
	ok := d.send(v, p.want, true)
	d.holdEmit = false
	if !ok {
		return false
	}
	lr := strings.ToLower(d.lastReply)
	if d.lastClass != "ok" && (strings.Contains(lr, "timeout") || strings.Contains(lr, "time out") || strings.Contains(lr, "timed out") || strings.Contains(lr, "cancel")) {
		d.stats["probe_retries"]++
		time.Sleep(2 * time.Second)
		if m := d.p.dump(); m != nil {
			d.last = m
		}
		return d.send(v, p.want, true)
	}
	if d.held != nil {
		d.tw.Emit(d.held)
		d.stats["cmd_client"]++
	}
	return true
}

func inputsim(args []string) error {
	fs := flag.NewFlagSet("inputsim", flag.ExitOnError)
	mode := fs.String("mode", "parent", "parent | child")
	dir := fs.String("dir", "", "child: data dir")
	port := fs.Int("port", 0, "child: redis port (port+1 http, port+2 raft)")
	eng := fs.String("eng", "pebble", "")
	policy := fs.String("policy", "compact", "")
	seed := fs.Int64("seed", 1, "")
	budget := fs.Int("n", 1500, "number of mutated vectors sent on path 1 (sampled from all mutations)")
	outp := fs.String("o", "inp", "output prefix")
	parts := fs.Int("parts", 2, "trace parts: part 0 = path 1, parts 1.. = path 2 configurations")
	memMB := fs.Int("mem", 3000, "address-space limit of the child in MB (ulimit -v)")
	isolate := fs.String("isolate", "", "isolate stage: huge-json-index | nonutf8-table | batch-abort")
	group := fs.Int("group", 1, "path 2: vectors per apply group")
	hidx := fs.Bool("hidx", false, "define secondary hash indexes (HIDX) on table ta in the child and on path 2")
	expired := fs.Bool("expired", false, "prior state with expired and nearly expired objects (wait_compact policy)")
	httpAdmin := fs.Bool("http", false, "also send malformed requests to the HTTP API of the data node (delrange, toggles, optimize, ...)")
	vecs := fs.String("vecs", "", "isolate=vecs: JSON list of vectors (lists of strings, \\xNN escapes allowed) sent in this order")
	fs.Parse(args)
	if *mode == "child" {
		return inpChild(*dir, *port, *eng, *policy)
	}
	inpHidx, inpExpired = *hidx, *expired && *policy == "compact"
	if inpExpired {
		inpPool = append(inpPool, inpExpKeys...)
	}
	detSilence()
	rng := rand.New(rand.NewSource(*seed))
	tw, err := trace.Create(fmt.Sprintf("%s.0.ndjson", *outp))
	if err != nil {
		return err
	}
	d := &inpDrv{tw: tw, rng: rng, scratch: os.Getenv("ZR_SCRATCH"), eng: *eng, policy: *policy, memMB: *memMB,
		stats: map[string]int{}, perCmd: map[string]map[string]int{}, distinct: map[string]bool{}}
	d.known = append(d.known, inpPool...)
	if err := d.startChild(); err != nil {
		return err
	}
	// every registered command, enumerated from the node's own tables
	valid := inpValid()
	var names []string
	generic := 0
	for _, kind := range []string{"read", "write", "merge", "mergewrite"} {
		names = append(names, d.p.tables[kind]...)
	}
	sort.Strings(names)
	var all []inpVec
	for _, n := range names {
		v, ok := valid[n]
		if !ok {
			v = []string{inpK("kvA1"), "1", "2"}
			generic++
		}
		all = append(all, inpMutations(n, v, rng, false)...)
	}
	d.stats["registered_commands"] = len(names)
	d.stats["commands_without_template"] = generic
	d.stats["mutations_total"] = len(all)
	var plan []inpVec
	switch *isolate {
	case "":
		// every arity mutation of every command is always sent (they are what the two layers
		// most often disagree about); the budget samples the value/key/option mutations
		var rest []inpVec
		for _, v := range all {
			always := strings.HasPrefix(v.mut, "where") || strings.HasPrefix(v.mut, "expkey=") || v.mut == "valid" || v.mut == "noargs" || strings.HasPrefix(v.mut, "drop") || v.mut == "append1" || v.mut == "append2"
			// over-long sub-keys in write commands: the handler may have buffered the valid
			// leading elements when it meets the bad one (error path with a non-empty write batch)
			if k := d.rw[v.name]; (k == "w" || k == "mw") && strings.HasPrefix(v.mut, "sub") && strings.Contains(v.mut, `="SSSSSS`) {
				always = true
			}
			if inpHidx && strings.HasPrefix(v.mut, "num") && (v.name == "hset" || v.name == "hmset" || v.name == "hincrby" || v.name == "hsetnx") {
				always = true // values of indexed fields: the index-maintaining paths see every bad number
			}
			if k := d.rw[v.name]; (k == "w" || k == "mw") && v.mut == "biglast" {
				always = true
			}
			if k := d.rw[v.name]; k == "r" && v.mut == "biglast" {
				continue // 8 MiB arguments to read commands: cost without a store to damage
			}
			if always {
				plan = append(plan, v)
			} else {
				rest = append(rest, v)
			}
		}
		d.stats["arity_mutations"] = len(plan)
		perm := rng.Perm(len(rest))
		if *budget < len(rest) {
			perm = perm[:*budget]
		}
		for _, i := range perm {
			plan = append(plan, rest[i])
		}
		rng.Shuffle(len(plan), func(i, j int) { plan[i], plan[j] = plan[j], plan[i] })
		// "last element" states: pops on single-element collections; path 2 applies every accepted
		// vector twice, so the second pop meets the collection the first one emptied (two clients
		// that both passed the leader's non-empty pre-check)
		K := inpK
		var last []inpVec
		for _, c := range [][]string{{"sadd", K("stS1"), "only"}, {"spop", K("stS1")}, {"rpush", K("lsS1"), "only"}, {"lpop", K("lsS1")},
			{"rpush", K("lsS1"), "only"}, {"rpop", K("lsS1")}, {"zadd", K("zsS1"), "1", "only"}, {"zrem", K("zsS1"), "only"},
			{"hset", K("hsS1"), "only", "v"}, {"hdel", K("hsS1"), "only"}} {
			last = append(last, inpVec{name: c[0], mut: "last-element", args: c})
		}
		// batch-abort neighbourhoods for path 2 at group sizes 3 and 7: batchable writes, among them SET
		// with EX / NX / XX options, directly followed by a batchable command that passes the leader
		// and fails in its apply handler (the whole pending batch is aborted and every command of it
		// is answered with the error: none of their writes may be visible - the twin skips them).
		// Fillers shift the pattern through every alignment to the group boundaries.
		var ab []inpVec
		abn := 0
		for rep := 0; rep < 8; rep++ {
			kk := func() string { abn++; return K(fmt.Sprintf("kvB%d", abn%6+1)) }
			fails := [][]string{{"setex", K("kvB9"), "notnum", "v"}, {"setex", K("kvB9"), "0", "v"}, {"setex", K("kvB9"), "-5", "v"}}
			for _, c := range [][]string{{"set", kk(), fmt.Sprintf("a%d", rep)}, {"set", kk(), fmt.Sprintf("b%d", rep), "ex", "100000"},
				{"set", kk(), fmt.Sprintf("c%d", rep), "nx"}, {"set", kk(), fmt.Sprintf("d%d", rep), "xx"}, {"hmset", K("hsB1"), "f", fmt.Sprintf("e%d", rep)},
				{"set", kk(), fmt.Sprintf("g%d", rep), "ex", "100000", "nx"}, fails[rep%len(fails)]} {
				ab = append(ab, inpVec{name: c[0], mut: "abort-group", args: c})
			}
			for f := 0; f < rep%7; f++ {
				ab = append(ab, inpVec{name: "set", mut: "abort-group", args: []string{"set", K("kvF1"), fmt.Sprintf("f%d", f)}})
			}
		}
		d.known = append(d.known, "kvB1", "kvB2", "kvB3", "kvB4", "kvB5", "kvB6", "kvB9", "hsB1", "kvF1")
		plan = append(last, plan...)
		plan = append(plan, ab...)
	case "huge-json-index":
		plan = []inpVec{{name: "json.arrappend", mut: "num1=999999999", args: []string{"json.arrappend", inpK("jsA9"), "999999999", "1"}}}
	case "nonutf8-table":
		for i := 0; i < 135; i++ {
			plan = append(plan, inpVec{name: "hset", mut: "nonutf8-table", args: []string{"hset", inpNS + ":\xff:hsB1", fmt.Sprintf("f%03d", i), "v"}})
		}
	case "vecs":
		var vv [][]string
		if err := json.Unmarshal([]byte(*vecs), &vv); err != nil {
			return err
		}
		for _, v := range vv {
			for i := range v {
				if u, err := strconv.Unquote(`"` + strings.Replace(v[i], `"`, `\"`, -1) + `"`); err == nil {
					v[i] = u
				}
			}
			if len(v) > 0 {
				plan = append(plan, inpVec{name: strings.ToLower(v[0]), mut: "isolate", args: v})
			}
		}
	case "batch-abort":
		plan = []inpVec{{name: "setex", mut: "num1=notnum", args: []string{"setex", inpK("kvA3"), "notnum", "v"}},
			{name: "setex", mut: "num1=0", args: []string{"setex", inpK("kvA3"), "0", "v"}}}
	}
	d.noreply = map[string]int{}
	for _, v := range plan {
		if *isolate == "" && inpKnownTrigger(v.args) != "" {
			d.stats["avoided_known_triggers"]++
			continue
		}
		if d.noreply[v.name] >= 2 {
			d.stats["skipped_after_repeated_noreply"]++
			continue
		}
		if d.p == nil || !d.p.alive() {
			if err := d.startChild(); err != nil {
				return err
			}
		}
		// a mutated multi-element write is only interesting if its valid leading elements exist:
		// re-create the base object of the addressed key first
		if k := d.rw[v.name]; (k == "w" || k == "mw") && (strings.HasPrefix(v.mut, "sub") || v.mut == "biglast") && len(v.args) > 1 {
			if base, found := inpBaseOf(v.args[1]); found {
				if !d.send(inpVec{name: base[0], mut: "valid", args: base}, "", false) {
					d.p = nil
					continue
				}
			}
		}
		ok := d.send(v, "", false)
		if !ok {
			d.p = nil
			if d.deaths > 6 || *isolate != "" {
				break
			}
			continue
		}
		if d.lastClass == "noreply" {
			d.noreply[v.name]++
		}
		// after an erroring command: one valid command
		if d.stats["cmd_client"] > 0 && (d.lastCls(v) != "ok") {
			if !d.probe() {
				d.p = nil
			}
		}
	}
	if *httpAdmin && *isolate == "" {
		if d.p == nil || !d.p.alive() {
			if err := d.startChild(); err != nil {
				return err
			}
		}
		d.httpStage()
	}
	if d.p != nil {
		d.collectAccepted(false)
		d.p.stdin.Write([]byte("QUIT\n"))
		d.p.kill()
	}
	tw.Close()
	// path 2
	p2stats := inpApplyPath(d, *outp, *parts, *seed, *group, *isolate)
	cls := map[string]int{}
	for k, v := range d.stats {
		cls[k] = v
	}
	for k, v := range p2stats {
		cls[k] = v
	}
	// per-command outcome table, compact
	pc := map[string]string{}
	for n, m := range d.perCmd {
		var ps []string
		for c, k := range m {
			ps = append(ps, fmt.Sprintf("%s=%d", c, k))
		}
		sort.Strings(ps)
		pc[n] = strings.Join(ps, " ")
	}
	summary(trace.M{"driver": "inputsim", "seed": *seed, "stats": cls, "fatal": d.fatal, "per_command": pc,
		"distinct_nontrivial": len(d.distinct), "samples": d.samples, "isolate": *isolate})
	return nil
}

func (d *inpDrv) lastCls(v inpVec) string { return d.lastClass }

// ---------------------------------------------------------------- path 2: apply side directly

func inpKeyPartsLog(args []string) []string {
	var out []string
	for i, a := range args {
		if i == 0 {
			continue
		}
		if j := strings.Index(a, ":"); j >= 0 && j+1 < len(a) {
			kp := a[j+1:]
			if len(kp) > 40 {
				kp = kp[:40]
			}
			out = append(out, kp)
		}
	}
	return out
}

// inpRenameTable rewrites the table "ta" of log-form vectors to a non-UTF-8 name and drops the
// vectors that would let a collection grow towards the 128-element metric threshold.
func inpRenameTable(vecs [][]string) [][]string {
	grow := map[string]bool{"lpush": true, "rpush": true, "sadd": true, "zadd": true, "hmset": true, "hset": true, "hsetnx": true,
		"geoadd": true, "hincrby": true, "zincrby": true}
	added := map[string]int{}
	var out [][]string
	for _, v := range vecs {
		if len(v) < 2 || !strings.HasPrefix(v[1], "ta:") {
			continue
		}
		name := strings.ToLower(v[0])
		if grow[name] {
			// every vector is applied twice on this path
			if added[v[1]]+2*len(v) > 100 {
				continue
			}
			added[v[1]] += 2 * len(v)
		}
		c := append([]string{}, v...)
		for i := 1; i < len(c); i++ {
			if strings.HasPrefix(c[i], "ta:") && (i == 1 || name == "del" || name == "plset" || name == "exists") {
				c[i] = "\xff\xfe:" + c[i][3:]
			}
		}
		out = append(out, c)
	}
	return out
}

// inpLogTrigger: inpKnownTrigger for a vector in log form (namespace already cut).
func inpLogTrigger(v []string) string {
	c := append([]string{}, v...)
	if len(c) > 1 {
		c[1] = inpNS + ":" + c[1]
	}
	return inpKnownTrigger(c)
}

func inpApplyPath(d *inpDrv, outp string, parts int, seed int64, group int, isolate string) map[string]int {
	st := map[string]int{}
	confs := [][2]string{{"pebble", "compact"}, {"mem", "local"}, {"mem", "compact"}, {"pebble", "local"}}
	// rotate by seed so that every configuration is met over the seeds
	for i := 0; i < int(seed)%len(confs); i++ {
		confs = append(confs[1:], confs[0])
	}
	if parts-1 < len(confs) {
		confs = confs[:parts-1]
	}
	for ci, cf := range confs {
		tw, err := trace.Create(fmt.Sprintf("%s.%d.ndjson", outp, ci+1))
		if err != nil {
			return st
		}
		d.tw = tw
		var seg [][]string
		flush := func() {
			if len(seg) == 0 {
				return
			}
			inpApplySegment(d, cf[0], cf[1], seg, st, inpGroups[(ci+int(seed))%len(inpGroups)])
			seg = nil
		}
		var first [][]string
		for _, v := range d.accepted {
			if v == nil {
				if first == nil && len(seg) > 0 {
					first = append([][]string{}, seg...)
				}
				flush()
				continue
			}
			seg = append(seg, v)
		}
		if first == nil && len(seg) > 0 {
			first = append([][]string{}, seg...)
		}
		flush()
		// narrowed avoid rule of finding C11-nonutf8-table-metric-label: its trigger is a collection
		// growing past 128 elements (or a slow write under the server's slow limiter) on a table
		// whose name is not valid UTF-8 - not non-UTF-8 tables as such.  The accepted vectors of the
		// first child are applied once more with the table renamed to \xff\xfe (the leader-side
		// checks do not look at table bytes), keeping every collection below 100 elements; there
		// is no slow limiter on this path.
		if isolate == "" && len(first) > 0 {
			seg = inpRenameTable(first)
			flush()
		}
		tw.Close()
	}
	return st
}

func inpApplySegment(d *inpDrv, eng, policy string, vecs [][]string, st map[string]int, g int) {
	main, err := detOpenSM(d.scratch, eng, policy)
	if err != nil {
		return
	}
	defer main.close()
	twin, err := detOpenSM(d.scratch, eng, policy)
	if err != nil {
		return
	}
	defer twin.close()
	if inpHidx {
		for _, ix := range inpIndexes() {
			for _, sm := range []*detSM{main, twin} {
				sm.store().AddHsetIndex("ta", ix)
				for _, st := range []common.IndexState{common.BuildingIndex, common.BuildDoneIndex, common.ReadyIndex} {
					u := *ix
					u.State = st
					sm.store().UpdateHsetIndexState("ta", &u)
					time.Sleep(20 * time.Millisecond)
				}
			}
		}
	}
	d.tw.Emit(trace.M{"ev": "reset", "path": "apply", "eng": eng, "policy": policy, "group": g})
	st["apply_segments"]++
	st[fmt.Sprintf("apply_segments_group%d", g)]++
	base := time.Now().Add(-time.Hour).UnixNano()
	pre, _ := main.rawDump(inpSkipRaw)
	// "leader check on state S, apply on a later state S'": two clients may both pass the
	// leader-side pre-check (SPOP/LPOP on the last element, SETNX, SETIFEQ, ...) before the first
	// proposal is applied, so every accepted vector is applied twice in a row
	var twice [][]string
	for _, v := range vecs {
		twice = append(twice, v)
		if len(v) > 1 && (strings.Contains(v[1], "kvB") || strings.Contains(v[1], "hsB1") || strings.Contains(v[1], "kvF1")) {
			continue // abort-group vectors: a repeated key would cut the write batch they are meant to share
		}
		if len(v) > 0 && len(v) < 64 {
			big := false
			for _, a := range v {
				if len(a) > 1<<20 {
					big = true
				}
			}
			if !big {
				twice = append(twice, v)
			}
		}
	}
	vecs = twice
	if g > 1 {
		inpApplyGrouped(d, main, twin, vecs, st, g, base, pre)
		return
	}
	for i, v := range vecs {
		if len(v) == 0 {
			continue
		}
		name := strings.ToLower(v[0])
		e := []detEntry{{Ts: base + int64(i)*int64(time.Millisecond), Cmds: [][]string{v}}}
		rs, pan := main.applyGroup(e, 0, 1, false)
		if pan != "" {
			d.seq++
			d.tw.Emit(trace.M{"ev": "panic", "seq": d.seq, "path": "apply", "name": name, "mut": "accepted", "args": inpShow(v), "cause": pan})
			st["panic"]++
			d.fatal = append(d.fatal, map[string]interface{}{"ev": "panic", "args": inpShow(v), "cause": pan})
			return
		}
		r := "NO-TRIGGER"
		if len(rs) > 0 {
			r = rs[0].R
		}
		cls := "ok"
		if strings.HasPrefix(r, "e:") {
			cls = "err"
		} else if r == "NO-TRIGGER" {
			cls = "noreply"
		}
		post, _ := main.rawDump(inpSkipRaw)
		rt := ""
		if cls == "ok" {
			trs, tp := twin.applyGroup(e, 0, 1, false)
			if tp != "" {
				rt = "PANIC"
			} else if len(trs) > 0 {
				rt = trs[0].R
			}
		}
		td, _ := twin.rawDump(inpSkipRaw)
		// emitCmd attributes raw keys through client-form keys: give it the log-form parts
		vec := inpVec{name: name, mut: "accepted", args: v}
		ch := inpDiff(pre, post)
		foreign := inpForeign(ch, inpKeyPartsLog(v), d.known)
		if foreign == nil {
			foreign = []string{}
		}
		rr := r
		if len(rr) > 120 {
			rr = rr[:120]
		}
		if len(rt) > 120 {
			rt = rt[:120]
		}
		d.seq++
		d.tw.Emit(trace.M{"ev": "cmd", "seq": d.seq, "path": "apply", "name": name, "mut": "accepted", "rw": "w", "cls": cls, "r": rr,
			"pre": detDigest(pre), "dg": detDigest(post), "nchg": len(ch), "chg": inpHead(ch, 4), "foreign": foreign, "want": "", "probe": false,
			"tw": detDigest(td), "rt": rt, "argc": len(vec.args), "trig": inpLogTrigger(v)})
		st["cmd_apply"]++
		st["apply_cls_"+cls]++
		pre = post
	}
}


// inpApplyGrouped: path 2 with several vectors per apply group (one batch operator, commit at the
// end, as applyEntries does with the committed entries of one Ready).  Inside a group only the
// replies are observable; the store is observed after the group.  Per vector a `cmd` event
// without a state change is logged (error replies must not be followed by a difference to the
// twin), then one event for the group: its post-state must equal the twin's, which applied only
// the vectors that were answered without error, and only keys addressed by the group may change.
func inpApplyGrouped(d *inpDrv, main, twin *detSM, vecs [][]string, st map[string]int, g int, base int64, pre map[string]string) {
	for lo := 0; lo < len(vecs); lo += g {
		hi := lo + g
		if hi > len(vecs) {
			hi = len(vecs)
		}
		var es []detEntry
		var vs [][]string
		for i := lo; i < hi; i++ {
			if len(vecs[i]) == 0 {
				continue
			}
			vs = append(vs, vecs[i])
			es = append(es, detEntry{Ts: base + int64(i)*int64(time.Millisecond), Cmds: [][]string{vecs[i]}})
		}
		if len(es) == 0 {
			continue
		}
		rs, pan := main.applyGroup(es, 0, len(es), false)
		if pan != "" {
			bad := vs[0]
			for _, x := range rs {
				if x.R == "PANIC" && x.Idx/100 < len(vs) {
					bad = vs[x.Idx/100]
					break
				}
			}
			d.seq++
			d.tw.Emit(trace.M{"ev": "panic", "seq": d.seq, "path": "apply", "name": strings.ToLower(bad[0]), "mut": "accepted", "args": inpShow(bad),
				"cause": pan, "prev": [][]string{}, "trig": inpLogTrigger(bad)})
			st["panic"]++
			d.fatal = append(d.fatal, map[string]interface{}{"ev": "panic", "args": inpShow(bad), "cause": pan})
			return
		}
		reply := map[int]string{}
		for _, x := range rs {
			reply[x.Idx/100] = x.R
		}
		pd := detDigest(pre)
		var tes []detEntry
		var okR []string
		var addressed []string
		trig := ""
		for j, v := range vs {
			r, ok := reply[j]
			if !ok {
				r = "NO-TRIGGER"
			}
			cls := "ok"
			if strings.HasPrefix(r, "e:") {
				cls = "err"
			} else if r == "NO-TRIGGER" {
				cls = "noreply"
			}
			if cls == "ok" {
				tes = append(tes, es[j])
				okR = append(okR, r)
			}
			addressed = append(addressed, inpKeyPartsLog(v)...)
			if t := inpLogTrigger(v); t != "" && trig == "" {
				trig = t
			}
			if len(r) > 120 {
				r = r[:120]
			}
			d.seq++
			d.tw.Emit(trace.M{"ev": "cmd", "seq": d.seq, "path": "apply", "name": strings.ToLower(v[0]), "mut": "accepted-in-group", "rw": "w",
				"cls": cls, "r": r, "pre": pd, "dg": pd, "nchg": 0, "chg": []string{}, "foreign": []string{}, "want": "", "probe": false,
				"tw": "", "rt": "", "argc": len(v), "trig": inpLogTrigger(v)})
			st["cmd_apply"]++
			st["apply_cls_"+cls]++
		}
		post, _ := main.rawDump(inpSkipRaw)
		var twR []string
		if len(tes) > 0 {
			trs, tp := twin.applyGroup(tes, 0, len(tes), false)
			if tp != "" {
				twR = []string{"PANIC"}
			}
			for _, x := range trs {
				twR = append(twR, x.R)
			}
		}
		td, _ := twin.rawDump(inpSkipRaw)
		if os.Getenv("ZR_DEBUG_TWIN") != "" && detDigest(td) != detDigest(post) {
			for _, k := range inpDiff(td, post) {
				b, _ := hex.DecodeString(k)
				fmt.Fprintf(os.Stderr, "TWINDIFF %q main=%s twin=%s\n", b, post[k], td[k])
			}
			os.Setenv("ZR_DEBUG_TWIN", "")
		}
		ch := inpDiff(pre, post)
		foreign := inpForeign(ch, addressed, d.known)
		if foreign == nil {
			foreign = []string{}
		}
		d.seq++
		d.tw.Emit(trace.M{"ev": "cmd", "seq": d.seq, "path": "apply", "name": "group", "mut": fmt.Sprintf("group-of-%d", len(vs)), "rw": "w",
			"cls": "ok", "r": detShort([]byte(strings.Join(okR, "|"))), "pre": pd, "dg": detDigest(post), "nchg": len(ch), "chg": inpHead(ch, 4),
			"foreign": foreign, "want": "", "probe": false, "tw": detDigest(td), "rt": detShort([]byte(strings.Join(twR, "|"))), "argc": len(vs), "trig": trig})
		st["apply_groups"]++
		pre = post
	}
}


// ---------------------------------------------------------------- HTTP admin surface

type inpHTTPVec struct {
	method, path, body string
	keys                []string // client keys the request may legitimately change (delrange)
}

func inpHTTPVectors() []inpHTTPVec {
	var out []inpHTTPVec
	bodies := []string{"", "{", "null", "[]", `"x"`, `{"table":1}`, `{"start_from":"!!notbase64"}`, `{"delete_all":"yes"}`,
		`{"start_from":"eg==","end_to":"YQ=="}`, `{"start_from":"ZHJB","end_to":"ZHJC","dryrun":true}`, `{"delete_all":true,"dryrun":true}`,
		`{"start_from":"ZHJB","end_to":"ZHJC"}`, "\x00\xff\xfe{", strings.Repeat("[", 200000), `{"table":"` + strings.Repeat("T", 70000) + `"}`,
		`{"start_from":12345678901234567890123}`, `{"start_from":null,"end_to":null,"delete_all":false}`}
	dr := []string{inpNS + ":dr:drA1", inpNS + ":dr:drA2", inpNS + ":dr:drA3"}
	for _, ns := range []string{inpNS + "-0", inpNS, "nons-0", "%ff", ""} {
		for _, b := range bodies {
			out = append(out, inpHTTPVec{"POST", "/kv/delrange/" + ns + "/dr", b, dr})
		}
	}
	for _, b := range bodies[:10] {
		out = append(out, inpHTTPVec{"POST", "/kv/delrange/" + inpNS + "-0/%ff%fe", b, nil})
		out = append(out, inpHTTPVec{"POST", "/kv/optimize_anyrange/" + inpNS + "-0", b, nil})
		out = append(out, inpHTTPVec{"POST", "/syncer/setindex/x", b, nil})
	}
	for _, p := range []string{"/staleread", "/staleread?allow=", "/staleread?allow=maybe", "/staleread?allow=%zz", "/staleread?allow=false",
		"/synceronly", "/synceronly?enable=maybe", "/synceronly?enable=false", "/disableconflictlog?disable=x", "/loglevel/set",
		"/loglevel/set?loglevel=abc", "/loglevel/set?loglevel=99999999999999999999", "/slowlog/set?loglevel=-1x", "/costlevel/set?level=zzz",
		"/rsynclimit?limit=-5x", "/conf/set", "/conf/set?type=int&key=&value=", "/conf/set?type=int&key=nokey&value=notnum",
		"/conf/set?type=str&key=%ff&value=%ff", "/kv/optimize/" + inpNS + "-0/%ff", "/kv/optimize/nons-0/ta", "/kv/optimize_expire/nons-0",
		"/kv/backup/nons-0", "/topn/enable/nons-0", "/topn/enable/" + inpNS + "-0?enable=x", "/kv/disable_optimize?x=y"} {
		out = append(out, inpHTTPVec{"POST", p, "", nil})
	}
	for _, p := range []string{"/kv/get/" + inpNS + "-0", "/kv/get/" + inpNS + "-0?key=", "/kv/get/nons-0?key=a", "/kv/get/" + inpNS + "-0?key=%ff%00",
		"/indexes/" + inpNS + "-0/%ff", "/indexes/nons", "/raft/leader/nons-0", "/conf/get?type=int&key=", "/conf/get?type=zz&key=x",
		"/synceronly", "/info?x=%zz", "/stats?table=%ff&leader_only=x"} {
		out = append(out, inpHTTPVec{"GET", p, "", nil})
	}
	return out
}

// httpStage: requests a client that reaches the HTTP port can send.  A status >= 400 is an
// error reply (the store must not change); any other answer of an endpoint that is not a range
// deletion must not change the store either; a range deletion may change only keys of the table
// it names.  Liveness is checked like on the redis path.
func (d *inpDrv) httpStage() {
	for _, c := range [][]string{{"set", inpNS + ":dr:drA1", "v"}, {"set", inpNS + ":dr:drA2", "v"}, {"hset", inpNS + ":dr:drA3", "f", "v"}} {
		d.send(inpVec{name: c[0], mut: "valid", args: c}, "", false)
	}
	d.known = append(d.known, "drA1", "drA2", "drA3")
	cli := &http.Client{Timeout: 8 * time.Second}
	for _, hv := range inpHTTPVectors() {
		if d.p == nil || !d.p.alive() {
			return
		}
		pre := d.last
		req, err := http.NewRequest(hv.method, "http://127.0.0.1:"+strconv.Itoa(d.p.port+1)+hv.path, strings.NewReader(hv.body))
		if err != nil {
			continue // not expressible as a request
		}
		cls, r := "ok", ""
		resp, err := cli.Do(req)
		if err != nil {
			cls, r = "noreply", "x:"+err.Error()
		} else {
			b, _ := ioutil.ReadAll(io.LimitReader(resp.Body, 200))
			resp.Body.Close()
			r = fmt.Sprintf("h:%d %s", resp.StatusCode, strings.TrimSpace(string(b)))
			if resp.StatusCode >= 400 {
				cls = "err"
			}
		}
		name := "http:" + hv.method + " " + strings.SplitN(hv.path, "?", 2)[0]
		v := inpVec{name: name, mut: "http", args: append([]string{name}, hv.keys...)}
		d.rw[name] = "r"
		if hv.keys != nil {
			d.rw[name] = "w"
		}
		if cls == "noreply" {
			// is the process still serving?
			ok := false
			for try := 0; try < 4 && d.p.alive(); try++ {
				if c2, e2 := inpDial(d.p.port); e2 == nil {
					_, e2 = c2.do([]string{"ping"}, 6*time.Second)
					c2.c.Close()
					if e2 == nil {
						ok = true
						break
					}
				}
				time.Sleep(time.Second)
			}
			if !ok {
				v.args = []string{name, hv.body}
				if len(hv.body) > 60 {
					v.args[1] = hv.body[:60]
				}
				d.gone(v, map[bool]string{true: "hung", false: ""}[d.p.alive()])
				d.p = nil
				return
			}
		}
		post := d.p.dump()
		if post == nil {
			d.gone(v, map[bool]string{true: "hung", false: ""}[d.p.alive()])
			d.p = nil
			return
		}
		d.recent = append(d.recent, []string{hv.method, hv.path, fmt.Sprintf("%.60q", hv.body)})
		d.recentRaw = append(d.recentRaw, []string{name})
		d.emitCmd("http", v, cls, r, pre, post, "", false, "", "")
		d.last = post
	}
}
