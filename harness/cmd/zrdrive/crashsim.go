package main

// crashsim (C06): one crash scenario against real data-node processes (cmd/vnode).
//
// A scenario boots a fresh 1- or 3-replica group with small SnapCount / KeepWAL /
// KeepBackup and tiny WAL segments, lets clients write the ZOps operations through the redis
// port, lets one node die at a named hook (node/verif_on.go), at a random instant, while it
// is held at a hook, or during its restart / snapshot install, restarts it on the same
// directory, waits for a write barrier, dumps every key from every node, and records the
// black-box trace {reset, inv, ok, fail, died, restarted, read, settle} in parent order.
// spec/ZNodeTrace.tla (TLC) decides; this driver never does.
//
// Exit code 0 with `SUMMARY {"status":"env", ...}` means the scenario could not be carried out for
// environmental reasons (a child did not come up, no leader in time); the check retries or skips.

import (
	"encoding/json"
	"flag"
	"fmt"
	"math/rand"
	"path/filepath"
	"strings"
	"sync"
	"sync/atomic"
	"time"

	"zrverif/trace"
)

func init() { commands["crashsim"] = crashsim }

type csim struct {
	cl      *vcluster
	h       *history
	w       *workload
	rng     *rand.Rand
	solo    bool
	died    []trace.M
	trig    bool
	notes   []string
	failWhy string
	quiet   int32 // the unrecorded noise clients pause while a barrier is taken
	snapMax uint64
}

type envErr string

func (e envErr) Error() string { return string(e) }

func (s *csim) boot() error {
	for i := 1; i <= s.cl.n; i++ {
		if _, err := s.cl.start(i); err != nil {
			return envErr("start: " + err.Error())
		}
	}
	for i := 1; i <= s.cl.n; i++ {
		ln := s.cl.kids[i].waitLine(60*time.Second, "READY ", "FAILED ")
		if !strings.HasPrefix(ln, "READY ") {
			return envErr(fmt.Sprintf("node %d did not come up: %q", i, ln))
		}
	}
	var all []int
	for i := 1; i <= s.cl.n; i++ {
		all = append(all, i)
	}
	if s.cl.waitWritable(60*time.Second, all) == 0 {
		return envErr("no leader accepted a write in time")
	}
	return nil
}

func (s *csim) leader() int {
	for try := 0; try < 50; try++ {
		for i := 1; i <= s.cl.n; i++ {
			if st, ok := s.cl.kids[i].status(2 * time.Second); ok && st.IsLead {
				return i
			}
		}
		time.Sleep(100 * time.Millisecond)
	}
	return 0
}

func (s *csim) pickVictim(role string) int {
	if s.cl.n == 1 {
		return 1
	}
	ld := s.leader()
	if ld == 0 {
		return 0
	}
	if role == "leader" {
		return ld
	}
	var fs []int
	for i := 1; i <= s.cl.n; i++ {
		if i != ld {
			fs = append(fs, i)
		}
	}
	if role == "follower" {
		return fs[s.rng.Intn(len(fs))]
	}
	return 1 + s.rng.Intn(s.cl.n)
}

func (s *csim) whyIf(failed bool) string {
	if failed {
		return s.failWhy
	}
	return ""
}

func (s *csim) survivors(victim int) []int {
	var out []int
	for i := 1; i <= s.cl.n; i++ {
		if i != victim {
			out = append(out, i)
		}
	}
	return out
}

// recordDied: when the only replica dies the clients are stopped first, so that every answer
// that was received is in the history before the `died` line.
func (s *csim) recordDied(victim int, point string, k int, mode string) {
	if s.solo {
		s.w.stopNow()
	}
	m := trace.M{"ev": "died", "n": victim, "point": point, "k": k, "mode": mode, "solo": s.solo}
	s.h.add(m)
	s.died = append(s.died, m)
}

func parseDied(ln string) (string, int) {
	f := strings.Fields(ln)
	k := 0
	if len(f) > 2 {
		fmt.Sscanf(f[2], "%d", &k)
	}
	if len(f) > 1 {
		return f[1], k
	}
	return "?", k
}

// restart starts the victim again; returns "ready", "failed" or an envErr.
func (s *csim) restart(victim int, env ...string) (*vchild, string, error) {
	k, err := s.cl.start(victim, env...)
	if err != nil {
		return nil, "", envErr("restart: " + err.Error())
	}
	ln := k.waitLine(90*time.Second, "READY ", "FAILED ", "DIED ")
	switch {
	case strings.HasPrefix(ln, "READY "):
		// A replica that restarted from a raft snapshot without voters has no configuration: it
		// can never campaign or be counted again.  That is a failed restart, observed from the
		// node's own status projection rather than from a wall-clock time-out.
		var st nodeStatus
		json.Unmarshal([]byte(ln[6:]), &st)
		// READY can be reported before startRaft has loaded the raft storage (all zeros): ask again until
		// the storage shows what was replayed (a restart always finds a WAL) - a projection of the node's
		// own state, not a time-out verdict; if it never shows, the check is simply not made
		for t := 0; t < 100 && st.SnapIndex == 0 && st.LastIndex == 0 && !k.exited(); t++ {
			time.Sleep(50 * time.Millisecond)
			if st2, ok := k.status(2 * time.Second); ok {
				st = st2
			}
		}
		if st.SnapIndex > 0 && st.SnapVoters == 0 {
			s.notes = append(s.notes, fmt.Sprintf("FAILED raft snapshot at index %d has an empty voter set", st.SnapIndex))
			s.failWhy = "no-voters"
			k.kill9()
			return k, "failed", nil
		}
		return k, "ready", nil
	case strings.HasPrefix(ln, "FAILED "):
		s.notes = append(s.notes, ln)
		s.failWhy = "start"
		if strings.HasPrefix(ln, "FAILED initnamespace") {
			s.failWhy = "engine-open" // NewKVNode could not open the engine's own directory
		}
		k.kill9()
		return k, "failed", nil
	case strings.HasPrefix(ln, "DIED "):
		return k, ln, nil
	case ln == "EXITED":
		// The process went away while starting on its existing directory.  Unless the log shows
		// that it lost one of its ports to another process, that is a failed restart (a panic in
		// the replay is not an environmental problem).
		k.kill9()
		tail := s.cl.logTail(victim)
		if strings.Contains(tail, "address already in use") || strings.Contains(tail, "failed to listen") {
			return k, "", envErr(fmt.Sprintf("restarted node %d lost a port", victim))
		}
		why := "process exited during start-up"
		for _, l := range strings.Split(tail, "\n") {
			if strings.Contains(l, "panic") || strings.Contains(l, "fatal") {
				if len(l) > 160 {
					l = l[:160]
				}
				why = l
				break
			}
		}
		s.notes = append(s.notes, "FAILED "+why)
		s.failWhy = "exit"
		return k, "failed", nil
	}
	k.kill9()
	return k, "", envErr(fmt.Sprintf("restarted node %d said %q", victim, ln))
}

func (s *csim) barrierAndDump() error {
	atomic.StoreInt32(&s.quiet, 1)
	defer atomic.StoreInt32(&s.quiet, 0)
	if !s.cl.settle(90 * time.Second) {
		return envErr("group did not settle in time")
	}
	for i := 1; i <= s.cl.n; i++ {
		if st, ok := s.cl.kids[i].status(2 * time.Second); ok && st.LastSnapIndex > s.snapMax {
			s.snapMax = st.LastSnapIndex
		}
	}
	if !s.cl.readAll(s.h) {
		return envErr("a node could not be read")
	}
	s.h.add(trace.M{"ev": "settle"})
	return nil
}

// cleanRestartAndCheck: restart the victim (after it died), record restarted, barrier, dump,
// a short second phase of writes and another dump.
func (s *csim) cleanRestartAndCheck(victim int, phase2 int) (bool, error) {
	_, res, err := s.restart(victim)
	if err != nil {
		return false, err
	}
	if res != "ready" && res != "failed" {
		return false, envErr("unexpected " + res)
	}
	s.h.add(trace.M{"ev": "restarted", "n": victim, "ok": res == "ready", "why": s.whyIf(res != "ready")})
	if res == "failed" {
		return false, nil
	}
	if err := s.barrierAndDump(); err != nil {
		return false, err
	}
	if phase2 > 0 {
		var all []int
		for i := 1; i <= s.cl.n; i++ {
			all = append(all, i)
		}
		s.w.setTargets(all)
		s.w.run(phase2)
		s.w.wait()
		if err := s.barrierAndDump(); err != nil {
			return false, err
		}
	}
	return true, nil
}

func crashsim(args []string) error {
	fs := flag.NewFlagSet("crashsim", flag.ExitOnError)
	vnode := fs.String("vnode", "", "path of the vnode binary")
	root := fs.String("root", "", "scratch directory of this scenario")
	out := fs.String("o", "", "trace file")
	seed := fs.Int64("seed", 1, "")
	n := fs.Int("n", 1, "replicas")
	engine := fs.String("engine", "mem", "mem | pebble")
	kind := fs.String("kind", "point", "point | restart | install | random | hold | term | chain")
	pre := fs.Int("pre", 12, "point: operations before the hook is armed")
	chain := fs.String("chain", "", "chain: comma-separated hooks (or kill), one per successive incarnation of the victim")
	point := fs.String("point", "persist.wal", "hook name")
	kHit := fs.Int("k", 1, "k-th hit")
	victimRole := fs.String("victim", "leader", "leader | follower | any")
	weak := fs.Bool("weak", false, "1-replica group of the unrepaired tree: answers are confirmed by a later answered operation")
	ops := fs.Int("ops", 70, "operations issued while waiting for the crash")
	post := fs.Int("post", 16, "operations after the crash on the survivors (3 replicas)")
	phase2 := fs.Int("phase2", 10, "operations after the restart")
	clients := fs.Int("clients", 3, "")
	cycles := fs.Int("cycles", 3, "kill cycles (random / term)")
	waitAck := fs.Bool("waitack", true, "hold: wait for the answer of the held operation before the kill")
	snapCount := fs.Int("snapcount", 8, "")
	walSeg := fs.Int("walseg", 2048, "")
	maxCommitted := fs.Int("maxcommitted", 0, "vnode -maxcommitted (bytes)")
	noise := fs.Int("noise", 0, "unrecorded clients that hammer an unmodelled counter at full speed: bursts of proposals per Ready (with a small -maxcommitted the committed entries of a Ready then straddle its new entries) without making the recorded history any bigger")
	optFsync := fs.Bool("optfsync", false, "namespace option optimized_fsync (WAL flushed, not fsynced, on most saves)")
	think := fs.Int("think", 0, "mean client think time in ms (0 = none); slows the log down so that snapshots do not overlap")
	delay := fs.Int("delay", 0, "ms the dying goroutine blocks at the hook before the kill (concurrent goroutines finish their step)")
	ballast := fs.Int("ballast", 0, "MB of unmodelled 1 MB values written before the scenario starts: the engine checkpoint of a snapshot then takes much longer than writing the snapshot file and the WAL marker")
	keepBackup := fs.Int("keepbackup", 2, "checkpoints kept (1 is legal for checkpoints; snapshot files then keep 10)")
	fs.Parse(args)

	extra := []string{"-snapcount", fmt.Sprint(*snapCount), "-snapcatchup", "3", "-keepwal", "2", "-keepbackup", fmt.Sprint(*keepBackup),
		"-walseg", fmt.Sprint(*walSeg)}
	if *optFsync {
		extra = append(extra, "-optfsync")
	}
	if *maxCommitted > 0 {
		extra = append(extra, "-maxcommitted", fmt.Sprint(*maxCommitted))
	}
	cl, err := newCluster(*vnode, *root, *n, *engine, extra)
	if err != nil {
		return err
	}
	defer cl.killAll()
	if *delay > 0 {
		cl.env = append(cl.env, fmt.Sprintf("VERIF_CRASH_DELAY_MS=%d", *delay))
	}
	cl.extraFor = map[int][]string{}
	if *kind == "instpurge" {
		// only the follower under test takes snapshots every 8 entries; the other two every 3000
		for i := 1; i <= *n; i++ {
			cl.extraFor[i] = []string{"-snapcount", "3000", "-snapcatchup", "10"}
		}
	}
	s := &csim{cl: cl, h: &history{}, rng: rand.New(rand.NewSource(*seed)), solo: *n == 1}
	s.w = newWorkload(cl, s.h, *seed, *clients)
	s.w.think = *think
	s.w.pf = true // the HyperLogLog write-back cache is part of what a restart must not lose
	s.h.add(trace.M{"ev": "reset", "weak": *weak && s.solo, "st": emptyStore()})

	status := "ok"
	restartOK := true
	fail := func(err error) error {
		if e, ok := err.(envErr); ok {
			s.w.stopNowSafe()
			summary(map[string]interface{}{"status": "env", "why": string(e), "kind": *kind, "point": *point})
			return nil
		}
		return err
	}
	if err := s.boot(); err != nil {
		return fail(err)
	}
	// unmodelled bulk (never read back, never in a dump): only there to make checkpoints slow.
	// tolerant: the node may die while it is written (armed crash) - that is the point of it.
	writeBallast := func(tolerant bool) error {
		if *ballast <= 0 {
			return nil
		}
		ld := s.leader()
		if ld == 0 {
			if tolerant {
				return nil // the armed node is gone already
			}
			return envErr("no leader found (ballast)")
		}
		c, err := dialResp(cl.redisPort(ld), 2*time.Second)
		if err != nil {
			if tolerant {
				return nil
			}
			return envErr("ballast: " + err.Error())
		}
		defer c.close()
		big := strings.Repeat("b", 1<<20)
		for i := 0; i < *ballast; i++ {
			if _, err := c.do(10*time.Second, "set", fmt.Sprintf("%sballast%d", keyPrefix, i), big); err != nil {
				if tolerant {
					return nil
				}
				return envErr("ballast write: " + err.Error())
			}
		}
		return nil
	}
	if *kind != "point" {
		if err := writeBallast(false); err != nil {
			return fail(err)
		}
	}
	stopNoise := make(chan struct{})
	defer close(stopNoise)
	for i := 0; i < *noise; i++ {
		go func(i int) {
			var c *respConn
			for {
				select {
				case <-stopNoise:
					if c != nil {
						c.close()
					}
					return
				default:
				}
				if atomic.LoadInt32(&s.quiet) == 1 {
					time.Sleep(20 * time.Millisecond)
					continue
				}
				if c == nil {
					var err error
					if c, err = dialResp(cl.redisPort(1+i%cl.n), time.Second); err != nil {
						c = nil
						time.Sleep(50 * time.Millisecond)
						continue
					}
				}
				if _, err := c.do(2*time.Second, "incr", keyPrefix+"noise"); err != nil {
					if _, isReply := err.(respErr); !isReply {
						c.close()
						c = nil
					}
					time.Sleep(20 * time.Millisecond)
				}
			}
		}(i)
	}

	switch *kind {
	case "point":
		victim := s.pickVictim(*victimRole)
		if victim == 0 {
			return fail(envErr("no leader found"))
		}
		k := cl.kids[victim]
		if *pre > 0 {
			s.w.run(*pre)
			s.w.wait()
		}
		if *ballast > 0 {
			// let a snapshot of the small store that is still under way finish: the armed hook is to be
			// hit by a snapshot whose checkpoint has the bulk to copy
			time.Sleep(400 * time.Millisecond)
		}
		k.send(fmt.Sprintf("crash %s %d", *point, *kHit))
		if ln := k.waitLine(5*time.Second, "ARMED "); !strings.HasPrefix(ln, "ARMED ") {
			return fail(envErr("arming failed: " + ln))
		}
		if err := writeBallast(true); err != nil {
			return fail(err)
		}
		s.w.run(*ops)
		deadline := time.Now().Add(60 * time.Second)
		var diedLn string
		for time.Now().Before(deadline) {
			ln := k.waitLine(150*time.Millisecond, "DIED ")
			if strings.HasPrefix(ln, "DIED ") || ln == "EXITED" {
				diedLn = ln
				break
			}
			if s.w.issuedOps() >= *ops {
				// all operations issued; give the last ones (and a snapshot goroutine) a moment
				ln = k.waitLine(1500*time.Millisecond, "DIED ")
				if strings.HasPrefix(ln, "DIED ") || ln == "EXITED" {
					diedLn = ln
				}
				break
			}
		}
		issuedAtDeath := s.w.issuedOps()
		if strings.HasPrefix(diedLn, "DIED ") {
			s.trig = true
			p, kk := parseDied(diedLn)
			k.kill9()
			s.w.setTargets(s.survivors(victim))
			s.recordDied(victim, p, kk, "crash")
		} else {
			k.kill9()
			s.w.setTargets(s.survivors(victim))
			s.recordDied(victim, "none", 0, "kill")
		}
		if !s.solo {
			// the survivors move on, so the restarted node has to catch up
			for t := time.Now().Add(20 * time.Second); time.Now().Before(t) && s.w.issuedOps() < issuedAtDeath+*post && s.w.issuedOps() < *ops; {
				time.Sleep(30 * time.Millisecond)
			}
			s.w.stopNow()
			if s.w.issuedOps() < issuedAtDeath+*post {
				s.w.run(issuedAtDeath + *post - s.w.issuedOps())
				s.w.wait()
			}
		}
		ok, err := s.cleanRestartAndCheck(victim, *phase2)
		if err != nil {
			return fail(err)
		}
		restartOK = ok

	case "restart", "install":
		victim := s.pickVictim(*victimRole)
		if *kind == "install" {
			victim = s.pickVictim("follower")
		}
		if victim == 0 {
			return fail(envErr("no leader found"))
		}
		pre := *ops
		if *kind == "install" {
			pre = 10
		}
		s.w.run(pre)
		s.w.wait()
		cl.kids[victim].kill9()
		s.w.setTargets(s.survivors(victim))
		s.recordDied(victim, "none", 0, "kill")
		if !s.solo {
			m := *post
			if *kind == "install" {
				m = 5 * *snapCount // far enough for the leader to compact past the victim's log
			}
			s.w.run(m)
			s.w.wait()
		}
		k, res, err := s.restart(victim, fmt.Sprintf("VERIF_CRASH=%s:%d", *point, *kHit))
		if err != nil {
			return fail(err)
		}
		if res == "failed" {
			s.h.add(trace.M{"ev": "restarted", "n": victim, "ok": false, "why": s.failWhy})
			restartOK = false
			break
		}
		if res == "ready" {
			// hooks that fire after start-up (purge goroutine, snapshot install): wait for them
			wait := 2 * time.Second
			if *kind == "install" {
				wait = 25 * time.Second
			}
			ln := k.waitLine(wait, "DIED ")
			if strings.HasPrefix(ln, "DIED ") {
				res = ln
			}
		}
		if strings.HasPrefix(res, "DIED ") {
			s.trig = true
			p, kk := parseDied(res)
			k.kill9()
			s.recordDied(victim, p, kk, "crash")
			ok, err := s.cleanRestartAndCheck(victim, *phase2)
			if err != nil {
				return fail(err)
			}
			restartOK = ok
		} else {
			// the hook was not reached during this restart: it simply is a restart after a kill
			s.h.add(trace.M{"ev": "restarted", "n": victim, "ok": true, "why": ""})
			if err := s.barrierAndDump(); err != nil {
				return fail(err)
			}
		}

	case "chain":
		// several crashes in a row, one per incarnation: the first hook is armed at run time, the
		// following ones through the environment of the restarted process
		victim := s.pickVictim(*victimRole)
		if victim == 0 {
			return fail(envErr("no leader found"))
		}
		pts := strings.Split(*chain, ",")
		k := cl.kids[victim]
		s.w.run(*pre)
		s.w.wait()
		for j, p := range pts {
			if j > 0 {
				var res string
				var err error
				env := []string{}
				if p != "kill" && !strings.HasPrefix(p, "term@") {
					env = append(env, "VERIF_CRASH="+p+":1")
				}
				k, res, err = s.restart(victim, env...)
				if err != nil {
					return fail(err)
				}
				if res == "failed" {
					s.h.add(trace.M{"ev": "restarted", "n": victim, "ok": false, "why": s.failWhy})
					restartOK = false
					break
				}
				if strings.HasPrefix(res, "DIED ") {
					pp, kk := parseDied(res)
					k.kill9()
					s.recordDied(victim, pp, kk, "crash")
					continue
				}
				s.h.add(trace.M{"ev": "restarted", "n": victim, "ok": true, "why": ""})
				var all []int
				for i := 1; i <= cl.n; i++ {
					all = append(all, i)
				}
				// wait until the node takes writes again (replay finished, leader elected) before the
				// clients go on - unless the armed hook fires first (a snapshot right after the election)
				for t := 0; t < 40 && !k.exited(); t++ {
					if cl.waitWritable(1500*time.Millisecond, all) != 0 {
						break
					}
				}
				s.w.setTargets(all)
			} else if p != "kill" && !strings.HasPrefix(p, "term@") {
				k.send(fmt.Sprintf("crash %s 1", p))
				if ln := k.waitLine(5*time.Second, "ARMED "); !strings.HasPrefix(ln, "ARMED ") {
					return fail(envErr("arming failed: " + ln))
				}
			}
			if strings.HasPrefix(p, "term@") {
				// clean stop once this incarnation has passed the hook (e.g. a whole snapshot: snap.compacted)
				hook := p[len("term@"):]
				s.w.run(*ops)
				for deadline := time.Now().Add(30 * time.Second); time.Now().Before(deadline) && !k.exited(); {
					k.send("hits")
					if ln := k.waitLine(2*time.Second, "HITS "); strings.HasPrefix(ln, "HITS ") {
						var h map[string]int
						if json.Unmarshal([]byte(ln[len("HITS "):]), &h) == nil && h[hook] >= 1 {
							s.trig = true
							break
						}
					}
					time.Sleep(50 * time.Millisecond)
				}
				s.w.stopNow()
				k.term(30 * time.Second)
				s.w.setTargets(s.survivors(victim))
				s.recordDied(victim, "none", 0, "term")
				continue
			}
			if p == "kill" {
				s.w.run(4)
				s.w.wait()
				k.kill9()
				s.w.setTargets(s.survivors(victim))
				s.recordDied(victim, "none", 0, "kill")
				continue
			}
			s.w.run(*ops)
			var diedLn string
			for deadline := time.Now().Add(60 * time.Second); time.Now().Before(deadline); {
				ln := k.waitLine(150*time.Millisecond, "DIED ")
				if strings.HasPrefix(ln, "DIED ") || ln == "EXITED" {
					diedLn = ln
					break
				}
				if s.w.issuedOps() >= *ops {
					ln = k.waitLine(1500*time.Millisecond, "DIED ")
					if strings.HasPrefix(ln, "DIED ") {
						diedLn = ln
					}
					break
				}
			}
			k.kill9()
			s.w.setTargets(s.survivors(victim))
			if strings.HasPrefix(diedLn, "DIED ") {
				s.trig = true
				pp, kk := parseDied(diedLn)
				s.recordDied(victim, pp, kk, "crash")
			} else {
				s.recordDied(victim, "none", 0, "kill")
			}
			s.w.stopNow()
		}
		if restartOK {
			ok, err := s.cleanRestartAndCheck(victim, *phase2)
			if err != nil {
				return fail(err)
			}
			restartOK = ok
		}

	case "instpurge":
		// Directed schedule for the model counterexample of MC_ZNode_install_code.cfg (3 replicas,
		// KeepBackup 1): follower F has a recorded snapshot s1; it comes back far behind, replays more
		// than 5 x SnapCount entries (so a local snapshot s2 starts at the end of the replay) and is then
		// sent the leader's snapshot s3.  Its raft goroutine is held right after persistRaftState wrote
		// the snapshot file + WAL marker of s3 and told the store the new latest-snapshot index (hook
		// persist.snap, before wal.Save); the process dies when the local snapshot goroutine has its
		// checkpoint (hook snap.created + 40 ms, the checkpoint purge of that backup has run by then).
		ld := s.leader()
		if ld == 0 {
			return fail(envErr("no leader"))
		}
		f := s.survivors(ld)[0]
		hammer := func(d time.Duration, tag string) {
			var wg sync.WaitGroup
			end := time.Now().Add(d)
			for i := 0; i < 16; i++ {
				wg.Add(1)
				go func(i int) {
					defer wg.Done()
					c, err := dialResp(cl.redisPort(ld), time.Second)
					if err != nil {
						return
					}
					defer c.close()
					for j := 0; time.Now().Before(end); j++ {
						if _, err := c.do(2*time.Second, "set", fmt.Sprintf("%sn%s%d_%d", keyPrefix, tag, i, j), "x"); err != nil {
							if _, isReply := err.(respErr); !isReply {
								return
							}
						}
					}
				}(i)
			}
			wg.Wait()
		}
		cl.kids[f].kill9()
		s.recordDied(f, "none", 0, "kill")
		cl.extraFor[f] = []string{"-snapcount", "8"}
		if _, res, err := s.restart(f); err != nil || res != "ready" {
			return fail(envErr("follower did not restart (0)"))
		}
		s.h.add(trace.M{"ev": "restarted", "n": f, "ok": true, "why": ""})
		s.w.setTargets([]int{ld})
		s.w.run(30) // F (SnapCount 8) records its first snapshots
		s.w.wait()
		for t := 0; t < 100; t++ { // until a snapshot file of F exists (and its WAL marker, written right after)
			if m, _ := filepath.Glob(filepath.Join(cl.root, fmt.Sprint(f), "default-0", fmt.Sprintf("snap-%d", f), "*.snap")); len(m) > 0 {
				break
			}
			time.Sleep(50 * time.Millisecond)
		}
		time.Sleep(300 * time.Millisecond)
		cl.kids[f].kill9()
		s.recordDied(f, "none", 0, "kill")
		cl.extraFor[f] = []string{"-snapcount", "1000000"}
		if _, res, err := s.restart(f); err != nil || res != "ready" {
			return fail(envErr("follower did not restart (1)"))
		}
		s.h.add(trace.M{"ev": "restarted", "n": f, "ok": true, "why": ""})
		hammer(time.Duration(*noise)*100*time.Millisecond, "a") // entries F keeps in its WAL without a snapshot of its own
		s.w.run(20)
		s.w.wait()
		cl.kids[f].kill9()
		s.recordDied(f, "none", 0, "kill")
		// the leader moves on until its own snapshot lies beyond F's log
		for t := 0; t < 20; t++ {
			hammer(time.Second, fmt.Sprintf("b%d", t))
			st, ok := cl.kids[ld].status(2 * time.Second)
			if ok && st.LastSnapIndex > 0 && st.Applied-st.LastSnapIndex < 2000 && st.LastSnapIndex > 3000 {
				break
			}
		}
		cl.extraFor[f] = []string{"-snapcount", "8"}
		k, res, err := s.restart(f, "VERIF_HOLD=persist.snap:1", "VERIF_CRASH=snap.created:1", "VERIF_CRASH_DELAY_MS=40")
		if err != nil {
			return fail(err)
		}
		if res == "ready" {
			ln := k.waitLine(40*time.Second, "DIED ", "HELD ")
			s.notes = append(s.notes, "first report after start: "+ln)
			if strings.HasPrefix(ln, "HELD ") {
				ln = k.waitLine(15*time.Second, "DIED ")
				s.notes = append(s.notes, "then: "+ln)
			}
			if strings.HasPrefix(ln, "DIED ") {
				s.trig = true
			}
		}
		k.kill9()
		s.recordDied(f, "persist.snap+snap.created", 1, "hold")
		ok, err := s.cleanRestartAndCheck(f, *phase2)
		if err != nil {
			return fail(err)
		}
		restartOK = ok

	case "random", "term":
		for c := 0; c < *cycles && restartOK; c++ {
			var all []int
			for i := 1; i <= cl.n; i++ {
				all = append(all, i)
			}
			s.w.setTargets(all)
			s.w.run(0)
			time.Sleep(time.Duration(300+s.rng.Intn(1500)) * time.Millisecond) // pacing of the nemesis, not a synchronisation
			victim := s.pickVictim([]string{"leader", "follower", "any"}[s.rng.Intn(3)])
			if victim == 0 {
				s.w.stopNow()
				return fail(envErr("no leader found"))
			}
			if *kind == "term" {
				cl.kids[victim].term(30 * time.Second)
				s.w.setTargets(s.survivors(victim))
				s.recordDied(victim, "none", 0, "term")
			} else {
				cl.kids[victim].kill9()
				s.w.setTargets(s.survivors(victim))
				s.recordDied(victim, "none", 0, "kill")
			}
			s.trig = true
			if !s.solo {
				time.Sleep(time.Duration(200+s.rng.Intn(800)) * time.Millisecond)
			}
			s.w.stopNow()
			ok, err := s.cleanRestartAndCheck(victim, 0)
			if err != nil {
				return fail(err)
			}
			restartOK = ok
		}

	case "hold":
		// deterministic replay of "answered while the raft goroutine sits between two pipeline steps"
		s.w.nCli = 1
		s.w.run(6)
		s.w.wait()
		k := cl.kids[1]
		k.send(fmt.Sprintf("hold %s %d", *point, *kHit))
		if ln := k.waitLine(5*time.Second, "ARMED "); !strings.HasPrefix(ln, "ARMED ") {
			return fail(envErr("arming failed: " + ln))
		}
		id := s.h.newID()
		op := zop{"set", "s2", int64(1000 + id)}
		conn, err := dialResp(cl.redisPort(1), 2*time.Second)
		if err != nil {
			return fail(envErr("connect: " + err.Error()))
		}
		s.h.inv(id, op)
		type rep struct {
			v   interface{}
			err error
		}
		ch := make(chan rep, 1)
		go func() {
			v, err := conn.do(2500*time.Millisecond, op.args()...)
			ch <- rep{v, err}
		}()
		held := k.waitLine(5*time.Second, "HELD ")
		if strings.HasPrefix(held, "HELD ") {
			s.trig = true
		}
		answered := false
		if *waitAck {
			r := <-ch
			if n, ok := replyInt(r.v); r.err == nil && ok {
				s.h.ok(id, n)
				answered = true
			} else {
				s.h.fail(id, r.err)
			}
		}
		k.kill9()
		if !*waitAck {
			rr := <-ch
			s.h.fail(id, rr.err)
		}
		conn.close()
		s.notes = append(s.notes, fmt.Sprintf("held=%v answered_while_held=%v", s.trig, answered))
		s.recordDied(1, *point, *kHit, "hold")
		ok, err := s.cleanRestartAndCheck(1, *phase2)
		if err != nil {
			return fail(err)
		}
		restartOK = ok
	default:
		return fmt.Errorf("unknown kind %s", *kind)
	}
	s.w.stopNowSafe()
	cl.killAll()
	if !restartOK {
		status = "restart-failed"
	}
	if err := s.h.write(*out, cl.sentEvents()...); err != nil {
		return err
	}
	summary(map[string]interface{}{"status": status, "kind": *kind, "point": *point, "k": *kHit, "n": *n, "engine": *engine,
		"triggered": s.trig, "died": s.died, "inv": s.h.nInv, "ok": s.h.nOK, "fail": s.h.nFail, "events": len(s.h.ev),
		"process_starts": cl.starts, "last_snap_index": s.snapMax, "notes": s.notes, "weak": *weak && s.solo})
	return nil
}

func (w *workload) stopNowSafe() {
	if w.stop != nil {
		w.stopNow()
	}
}
