package main

// repsim (property C07 on REAL raft): a 3-replica group of real servers (server.Server, real
// raft, real HTTP raft transport over loopback) in one process.  Concurrent clients send one
// seeded command stream to the leader; the three replicas apply the same log
//   - live, with whatever Ready grouping raft happens to produce on each of them,
//   - one follower is stopped and restarted after a few entries (replay of its WAL tail + log
//     catch-up: isReplaying entries),
//   - one follower is stopped for longer than the snapshot/compaction window and comes back
//     by installing a snapshot (checkpoint transfer) + tail.
// When all three report the same applied index, every store is flushed (checkpoint) and dumped
// (raw engine content + logical read API).  The events are those of detsim with the replica as
// the run: spec/ZDetTrace.tla requires dump[key] and the number of keys to be write-once
// across the replicas of one scenario.  Replies exist only on the leader, so this stage
// compares stored data.

import (
	"flag"
	"fmt"
	"io/ioutil"
	"math/rand"
	"os"
	"path"
	"sort"
	"strconv"
	"strings"
	"sync"
	"time"

	"github.com/youzan/ZanRedisDB/cluster"
	"github.com/youzan/ZanRedisDB/common"
	"github.com/youzan/ZanRedisDB/node"
	"github.com/youzan/ZanRedisDB/raft"
	"github.com/youzan/ZanRedisDB/rockredis"
	"github.com/youzan/ZanRedisDB/server"
	"github.com/youzan/ZanRedisDB/transport/rafthttp"
	"zrverif/trace"
)

func init() { commands["repsim"] = repsim }

type repCI struct{ syncs []common.SnapshotSyncInfo }

func (c *repCI) GetClusterName() string { return "verif-rep" }
func (c *repCI) GetSnapshotSyncInfo(fullNS string) ([]common.SnapshotSyncInfo, error) {
	return c.syncs, nil
}
func (c *repCI) UpdateMeForNamespaceLeader(fullNS string) (bool, error) { return false, nil }

type repNode struct {
	id    int
	dir   string
	ports [4]int // redis, http, raft, grpc
	srv   *server.Server
	nd    *node.KVNode
}

type repCluster struct {
	root   string
	eng    string
	policy string
	snap   int
	nodes  []*repNode
	seeds  []node.ReplicaInfo
	ci     *repCI
}

func repFreePorts(rng *rand.Rand, n int) []int {
	var out []int
	for len(out) < n {
		p := inpFreePort(rng)
		if p == 0 {
			return nil
		}
		ok := true
		for _, q := range out {
			if p >= q-3 && p <= q+3 {
				ok = false
			}
		}
		if ok {
			out = append(out, p)
		}
	}
	return out
}

func newRepCluster(root, eng, policy string, snap int, rng *rand.Rand) (*repCluster, error) {
	cl := &repCluster{root: root, eng: eng, policy: policy, snap: snap, ci: &repCI{}}
	for i := 0; i < 3; i++ {
		p := repFreePorts(rng, 2)
		if p == nil {
			return nil, fmt.Errorf("no free ports")
		}
		n := &repNode{id: i + 1, dir: path.Join(root, strconv.Itoa(i+1)), ports: [4]int{p[0], p[0] + 1, p[0] + 2, p[1]}}
		os.MkdirAll(n.dir, 0755)
		ioutil.WriteFile(path.Join(n.dir, "myid"), []byte(strconv.Itoa(n.id)), common.FILE_PERM)
		cl.nodes = append(cl.nodes, n)
		var r node.ReplicaInfo
		r.NodeID, r.ReplicaID = uint64(n.id), uint64(n.id)
		r.RaftAddr = "http://127.0.0.1:" + strconv.Itoa(n.ports[2])
		cl.seeds = append(cl.seeds, r)
		var ssi common.SnapshotSyncInfo
		ssi.NodeID, ssi.ReplicaID = r.NodeID, r.ReplicaID
		ssi.RemoteAddr = "127.0.0.1"
		ssi.HttpAPIPort = strconv.Itoa(n.ports[1])
		ssi.DataRoot = n.dir
		cl.ci.syncs = append(cl.ci.syncs, ssi)
	}
	return cl, nil
}

func (cl *repCluster) start(i int) error {
	n := cl.nodes[i]
	conf := server.ServerConfig{ClusterID: "verif-rep", DataDir: n.dir, RedisAPIPort: n.ports[0], HttpAPIPort: n.ports[1],
		GrpcAPIPort: n.ports[3], LocalRaftAddr: cl.seeds[i].RaftAddr, BroadcastAddr: "127.0.0.1", TickMs: 20, ElectionTick: 10,
		ProfilePort: -1}
	conf.RocksDBOpts.EngineType = cl.eng
	nsConf := node.NewNSConfig()
	nsConf.Name = inpNS + "-0"
	nsConf.BaseName = inpNS
	nsConf.EngType = rockredis.EngType
	nsConf.PartitionNum = 1
	nsConf.Replicator = 3
	nsConf.SnapCount = cl.snap
	nsConf.SnapCatchup = 5
	nsConf.RaftGroupConf.GroupID = 1000
	nsConf.RaftGroupConf.SeedNodes = cl.seeds
	nsConf.ExpirationPolicy = common.WaitCompactExpirationPolicy
	if cl.policy == "local" {
		nsConf.ExpirationPolicy = common.DefaultExpirationPolicy
	}
	nsConf.DataVersion = common.ValueHeaderV1Str
	var kv *server.Server
	var err error
	for try := 0; try < 20; try++ { // ports of a stopped instance may still be closing
		kv, err = server.NewServer(conf)
		if err == nil {
			break
		}
		time.Sleep(200 * time.Millisecond)
	}
	if err != nil {
		return err
	}
	kv.GetNsMgr().SetIClusterInfo(cl.ci)
	nn, err := kv.InitKVNamespace(uint64(n.id), nsConf, false)
	if err != nil {
		return err
	}
	kv.Start()
	n.srv, n.nd = kv, nn.Node
	return nil
}

func (cl *repCluster) stop(i int) {
	n := cl.nodes[i]
	if n.srv != nil {
		n.srv.Stop()
		n.srv, n.nd = nil, nil
	}
}

func (cl *repCluster) leader() int {
	for i, n := range cl.nodes {
		if n.nd != nil && n.nd.IsLead() {
			return i
		}
	}
	return -1
}

func (cl *repCluster) waitLeader(d time.Duration) int {
	end := time.Now().Add(d)
	for time.Now().Before(end) {
		if l := cl.leader(); l >= 0 {
			return l
		}
		time.Sleep(50 * time.Millisecond)
	}
	return -1
}

// repClientCmd: a detsim command (log form) as a client sends it.
func repClientCmd(c []string) []string {
	out := append([]string{}, c...)
	multi := c[0] == "del" || c[0] == "exists"
	for i := 1; i < len(out); i++ {
		if i == 1 || multi || (c[0] == "plset" && i%2 == 1) {
			if strings.HasPrefix(out[i], detTable+":") || strings.HasPrefix(out[i], detHLLTable+":") {
				out[i] = inpNS + ":" + out[i]
			}
		}
	}
	return out
}

// send n commands from the generator through nCli concurrent connections to the leader.
func (cl *repCluster) workload(g *detGen, n, nCli int, stats map[string]int, mu *sync.Mutex) {
	cmds := make(chan []string, n)
	for i := 0; i < n; i++ {
		c := g.cmd()
		if len(c[len(c)-1]) > 1<<20 {
			c = []string{"set", detTable + ":ka", "v"} // no 8 MiB values over real raft
		}
		cmds <- repClientCmd(c)
	}
	close(cmds)
	var wg sync.WaitGroup
	for k := 0; k < nCli; k++ {
		wg.Add(1)
		go func() {
			defer wg.Done()
			for c := range cmds {
				for try := 0; try < 30; try++ {
					l := cl.waitLeader(10 * time.Second)
					if l < 0 {
						break
					}
					conn, err := inpDial(cl.nodes[l].ports[0])
					if err != nil {
						time.Sleep(100 * time.Millisecond)
						continue
					}
					r, err := conn.do(c, 8*time.Second)
					conn.c.Close()
					mu.Lock()
					if err != nil {
						stats["client_io_errors"]++
					} else if strings.HasPrefix(r, "e:") {
						stats["error_replies"]++
					} else {
						stats["ok_replies"]++
					}
					mu.Unlock()
					lr := strings.ToLower(r)
					if err == nil && !(strings.Contains(lr, "leader") || strings.Contains(lr, "timeout") || strings.Contains(lr, "stopp")) {
						break
					}
					time.Sleep(100 * time.Millisecond)
				}
			}
		}()
	}
	wg.Wait()
}

func (cl *repCluster) waitSynced(d time.Duration) (uint64, bool) {
	end := time.Now().Add(d)
	for time.Now().Before(end) {
		var idx []uint64
		for _, n := range cl.nodes {
			if n.nd == nil {
				idx = nil
				break
			}
			idx = append(idx, n.nd.GetAppliedIndex())
		}
		if len(idx) == 3 && idx[0] == idx[1] && idx[1] == idx[2] && idx[0] > 0 {
			// stable for a moment
			time.Sleep(300 * time.Millisecond)
			same := true
			for i, n := range cl.nodes {
				if n.nd == nil || n.nd.GetAppliedIndex() != idx[i] {
					same = false
				}
			}
			if same {
				return idx[0], true
			}
		}
		time.Sleep(100 * time.Millisecond)
	}
	return 0, false
}

func repDump(st *node.KVStore, logical bool) (map[string]string, error) {
	fb := st.Backup(7, 7777777)
	for try := 0; fb == nil && try < 100; try++ {
		time.Sleep(20 * time.Millisecond)
		fb = st.Backup(7, 7777777)
	}
	if fb == nil {
		return nil, fmt.Errorf("flush checkpoint refused")
	}
	fb.WaitReady()
	if _, err := fb.GetResult(); err != nil {
		return nil, err
	}
	d := &detSM{}
	out := map[string]string{}
	it, err := st.NewDBRangeIterator(nil, nil, common.RangeClose, false)
	if err != nil {
		return nil, err
	}
	for ; it.Valid(); it.Next() {
		k := it.Key()
		v := detMaskHLL(k, it.Value())
		hk := fmt.Sprintf("%x", k)
		if strings.HasPrefix(hk, "0a6d6574613a") && fmt.Sprintf("%x", v) == "0000000000000000" {
			continue
		}
		out["raw:"+hk] = detShort(v)
	}
	it.Close()
	_ = d
	if logical {
		ld := logicalDumpOf(st, detAllKeys())
		for k, v := range ld {
			out["log:"+k] = v
		}
	}
	return out, nil
}

func logicalDumpOf(st *node.KVStore, keys detKeys) map[string]string {
	d := &detSM{}
	return d.logicalDumpStore(st, keys)
}

func repsim(args []string) error {
	fs := flag.NewFlagSet("repsim", flag.ExitOnError)
	seed := fs.Int64("seed", 1, "")
	outp := fs.String("o", "rep", "output prefix")
	parts := fs.Int("parts", 1, "")
	eng := fs.String("eng", "pebble", "")
	policy := fs.String("policy", "compact", "")
	scen := fs.Int("scenarios", 1, "")
	nA := fs.Int("a", 120, "commands while all three are live")
	snap := fs.Int("snap", 40, "snapshot count (log entries between raft snapshots)")
	fs.Parse(args)
	detSilence()
	server.SetLogger(0, detNullLogger{})
	cluster.SetLogger(0, detNullLogger{})
	rafthttp.SetLogger(0, detNullLogger{})
	raft.SetLogger(inpNullRaftLogger{})
	rng := rand.New(rand.NewSource(*seed))
	tw, err := trace.Create(fmt.Sprintf("%s.0.ndjson", *outp))
	if err != nil {
		return err
	}
	_ = parts
	stats := map[string]int{}
	var mu sync.Mutex
	var samples []interface{}
	skipped := 0
	for sc := 0; sc < *scen; sc++ {
		root, err := ioutil.TempDir(os.Getenv("ZR_SCRATCH"), "zrrep")
		if err != nil {
			return err
		}
		cl, err := newRepCluster(root, *eng, *policy, *snap, rng)
		if err != nil {
			return err
		}
		fail := func(why string) {
			fmt.Fprintln(os.Stderr, "scenario skipped:", why)
			skipped++
			for i := range cl.nodes {
				cl.stop(i)
			}
			os.RemoveAll(root)
		}
		ok := true
		for i := range cl.nodes {
			if err := cl.start(i); err != nil {
				fail("start: " + err.Error())
				ok = false
				break
			}
		}
		if !ok {
			continue
		}
		l := cl.waitLeader(20 * time.Second)
		if l < 0 {
			fail("no leader")
			continue
		}
		g := &detGen{rng: rng, ts: time.Now().UnixNano(), durs: []string{"1", "100000", "100000"}}
		f1, f2 := (l+1)%3, (l+2)%3
		// A: all live
		cl.workload(g, *nA, 4, stats, &mu)
		// B: follower f1 restarts after a few entries: WAL tail replay + log catch-up.  It is stopped
		// when a good part of a snapshot interval has been applied since its last snapshot, so
		// that the restart really re-applies a tail with isReplaying set
		for k := 0; k < 80; k++ {
			nd := cl.nodes[f1].nd
			if nd == nil || nd.GetAppliedIndex() >= nd.GetLastSnapIndex()+uint64(*snap*2/3) {
				break
			}
			cl.workload(g, 3, 2, stats, &mu)
			time.Sleep(30 * time.Millisecond)
		}
		if nd := cl.nodes[f1].nd; nd != nil {
			mu.Lock()
			stats["replay_tail_entries"] += int(nd.GetAppliedIndex() - nd.GetLastSnapIndex())
			mu.Unlock()
		}
		cl.stop(f1)
		cl.workload(g, 4, 2, stats, &mu)
		if err := cl.start(f1); err != nil {
			fail("restart f1: " + err.Error())
			continue
		}
		stats["follower_restarts"]++
		// C: follower f2 is away for more than snapshot count + catch-up entries
		cl.stop(f2)
		cl.workload(g, *snap*2+20, 4, stats, &mu)
		if err := cl.start(f2); err != nil {
			fail("restart f2: " + err.Error())
			continue
		}
		stats["follower_snapshot_rejoins"]++
		// D: all live again
		cl.workload(g, 30, 4, stats, &mu)
		idx, synced := cl.waitSynced(120 * time.Second)
		if !synced {
			why := "replicas did not reach a common applied index:"
			for _, n := range cl.nodes {
				if n.nd != nil {
					why += fmt.Sprintf(" r%d applied=%d snap=%d lead=%v", n.id, n.nd.GetAppliedIndex(), n.nd.GetLastSnapIndex(), n.nd.IsLead())
				}
			}
			fail(why)
			continue
		}
		// let the short expiries pass, so that the read API sees the same side on every replica
		time.Sleep(2500 * time.Millisecond)
		tw.Emit(trace.M{"ev": "log", "id": 200000 + sc, "kind": "realraft", "policy": *policy, "n": int(idx), "cmds": int(idx), "names": []string{}, "syncer": []int{}})
		stats["logs"]++
		roles := map[int]string{l: "leader", f1: "follower-restarted(replay)", f2: "follower-rejoined(snapshot)"}
		for i, n := range cl.nodes {
			if cl.leader() != l {
				roles[l] = "first-leader"
			}
			tw.Emit(trace.M{"ev": "run", "cond": fmt.Sprintf("replica %d %s/%s", n.id, roles[i], *eng), "eng": *eng, "replay": i == f1,
				"groups": 0, "restart": map[bool]string{true: "process", false: ""}[i != l]})
			m, err := repDump(node.VerifDetNodeStore(n.nd), true)
			if err != nil {
				tw.Emit(trace.M{"ev": "hung", "cond": "dump failed: " + err.Error()})
				continue
			}
			keys := make([]string, 0, len(m))
			for k := range m {
				keys = append(keys, k)
			}
			sort.Strings(keys)
			for _, k := range keys {
				tw.Emit(trace.M{"ev": "dump", "k": k, "v": m[k]})
			}
			tw.Emit(trace.M{"ev": "dumpn", "n": len(m)})
			stats["runs"]++
			stats["dumpkeys"] += len(m)
		}
		stats["applied_index"] += int(idx)
		if len(samples) < 1 {
			samples = append(samples, trace.M{"scenario": "real raft, 3 replicas", "applied_index": idx, "leader": cl.nodes[l].id,
				"restarted_follower": cl.nodes[f1].id, "snapshot_follower": cl.nodes[f2].id})
		}
		for i := range cl.nodes {
			cl.stop(i)
		}
		os.RemoveAll(root)
	}
	tw.Close()
	summary(trace.M{"driver": "repsim", "seed": *seed, "stats": stats, "skipped": skipped, "panics": 0, "samples": samples,
		"commands_seen": []string{}})
	return nil
}
