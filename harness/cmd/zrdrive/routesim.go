package main

// routesim: keys, partitions and multi-key commands (property C15, spec/ZRoute.tla).
//   -mode map     pure mapping: for random and adversarial keys (with / without ':' separators,
//                 empty table, binary bytes, long keys) and every P in 1..1024 (or a sample),
//                 the partition the server computes (server.GetPKAndHashSum + modulo, and
//                 node.GetHashedPartitionID on the key the server extracts) next to the one
//                 the official SDK computes (go-zanredisdb PKey.ShardingKey +
//                 GetHashedPartitionID).  One trace line per key with the vectors over P.
//   -mode serve   a real server hosting partitions of a P-partition namespace (single-replica
//                 raft groups) driven over the redis protocol: SET / GET / DEL / EXISTS / MGET /
//                 PLSET with duplicates and keys spanning partitions; after every command that
//                 writes, for each touched key the partitions whose stores actually hold it.
// spec/ZRouteTrace.tla decides; Part is instantiated from the logged SDK values.

import (
	"bufio"
	"flag"
	"fmt"
	"io/ioutil"
	"math/rand"
	"net"
	"os"
	"path/filepath"
	"strconv"
	"strings"
	"time"

	"github.com/absolute8511/redcon"
	"github.com/siddontang/goredis"
	"github.com/youzan/ZanRedisDB/common"
	"github.com/youzan/ZanRedisDB/node"
	"github.com/youzan/ZanRedisDB/server"
	sdk "github.com/youzan/go-zanredisdb"
	"zrverif/trace"
)

func init() { commands["routesim"] = routesim }

type rtKey struct {
	table string
	pk    []byte
}

func (k rtKey) raw() []byte            { return k.rawNs("default") }
func (k rtKey) rawNs(ns string) []byte { return sdk.NewPKey(ns, k.table, k.pk).RawKey }

// rtAdversarial: keys chosen to separate "hash of the whole key" from "hash of the part
// after the namespace", separator handling, sign handling and length handling.
func rtAdversarial() []rtKey {
	ks := []rtKey{
		{"t", []byte("a")}, {"t", []byte("")}, {"", []byte("a")}, {"", []byte(":")}, {"t", []byte(":")},
		{"t", []byte("a:b")}, {"t", []byte("a:b:c:d")}, {"t:u", []byte("a")}, {"t", []byte("::")},
		{"t", []byte{0}}, {"t", []byte{0, 0}}, {"t", []byte{0xff}}, {"t", []byte{0xff, 0xff, 0xff, 0xff}},
		{"t", []byte{0x80}}, {"t", []byte{0x7f}}, {"\x00", []byte("a")}, {"t", []byte("default:t:a")},
		{"default", []byte("t:a")}, {"t", []byte(" ")}, {"t", []byte("\r\n")}, {"T", []byte("a")},
		{"t", []byte(strings.Repeat("k", 255))}, {"t", []byte(strings.Repeat("k", 256))},
		{"t", []byte(strings.Repeat("k", 4097))}, {strings.Repeat("t", 300), []byte("a")},
		{"t", []byte("a\x00b")}, {"t", []byte("\xe4\xb8\xad\xe6\x96\x87")}, {"t", []byte("a ")}, {"t", []byte(" a")},
	}
	// pairs that differ only before / after the first separators
	for i := 0; i < 8; i++ {
		ks = append(ks, rtKey{"tab" + strconv.Itoa(i), []byte("same")}, rtKey{"tab", []byte(strconv.Itoa(i) + "same")})
	}
	return ks
}

func rtRandomKey(r *rand.Rand) rtKey {
	tl := r.Intn(6)
	tb := make([]byte, tl)
	for i := range tb {
		tb[i] = "abctu_-"[r.Intn(7)]
	}
	n := r.Intn(24)
	if r.Intn(10) == 0 {
		n = 200 + r.Intn(2000)
	}
	pk := make([]byte, n)
	switch r.Intn(3) {
	case 0:
		r.Read(pk)
	case 1:
		for i := range pk {
			pk[i] = "abcxyz0123:"[r.Intn(11)]
		}
	default:
		for i := range pk {
			pk[i] = byte(32 + r.Intn(95))
		}
	}
	return rtKey{string(tb), pk}
}

// serverPartition: what the server does with a raw redis key: GetPKAndHashSum extracts the
// namespace and the primary key and hashes it (server/server.go), NamespaceMgr takes the sum
// modulo the partition number (node/namespace.go GetNamespaceNodeWithPrimaryKeySum).
func serverPartition(raw []byte, P int) (int, int, string) {
	cmd := redcon.Command{Args: [][]byte{[]byte("get"), raw}}
	_, pk, sum, err := server.GetPKAndHashSum("get", cmd)
	if err != nil {
		return -1, -1, err.Error()
	}
	return sum % P, node.GetHashedPartitionID(pk, P), ""
}

func rtMap(tw *trace.Writer, seed int64, nkeys int, ps []int) map[string]int {
	r := rand.New(rand.NewSource(seed))
	keys := rtAdversarial()
	for len(keys) < nkeys {
		keys = append(keys, rtRandomKey(r))
	}
	cnt := map[string]int{}
	tw.Emit(trace.M{"ev": "mapreset", "ps": ps})
	distinct := map[string]bool{}
	for _, k := range keys {
		raw := k.raw()
		pkey := sdk.NewPKey("default", k.table, k.pk)
		srv := make([]int, len(ps))
		srv2 := make([]int, len(ps))
		cli := make([]int, len(ps))
		es := ""
		for i, P := range ps {
			srv[i], srv2[i], es = serverPartition(raw, P)
			cli[i] = sdk.GetHashedPartitionID(pkey.ShardingKey(), P)
			cnt["evaluations"]++
		}
		hexk := fmt.Sprintf("%x", raw)
		if len(hexk) > 80 {
			hexk = hexk[:80] + "..."
		}
		tw.Emit(trace.M{"ev": "map", "key": hexk, "len": len(raw), "srv": srv, "srv2": srv2, "sdk": cli, "err": es})
		distinct[fmt.Sprint(cli)] = true
		cnt["keys"]++
	}
	cnt["distinct_partition_vectors"] = len(distinct)
	return cnt
}

// ------------------------------------------------------------------ serve mode

type rtDrv struct {
	tw        *trace.Writer
	rng       *rand.Rand
	cs        *ckServer
	conn      *goredis.PoolConn
	P         int
	hosted    []int
	keys      []rtKey  // key id k (1-based) = keys[k-1]
	knss      []string // namespace of key id k
	part      []int    // SDK partition per key id
	cnt       map[string]int
	cross     bool // let MGET span partitions (trigger of known finding route-mget-first-key)
	poison    int  // key id whose writes the owning partition refuses when it applies them (key longer than MaxKeySize); 0: none
	redisPort int
}

func (d *rtDrv) rawOf(id int) string { return string(d.keys[id-1].rawNs(d.knss[id-1])) }

func (d *rtDrv) where(ids []int) {
	seen := map[int]bool{}
	for _, id := range ids {
		if seen[id] {
			continue
		}
		seen[id] = true
		k := d.keys[id-1]
		real := append([]byte(k.table+":"), k.pk...)
		parts := []int{}
		for _, p := range d.hosted {
			n := d.cs.kv.GetNamespaceFromFullName(d.knss[id-1] + "-" + strconv.Itoa(p))
			if n == nil {
				continue
			}
			v, _ := n.Node.VerifSyncStore().KVGet(real)
			if v != nil {
				parts = append(parts, p)
			}
		}
		d.tw.Emit(trace.M{"ev": "where", "k": id, "parts": parts})
		d.cnt["placements_checked"]++
	}
}

func valOf(x interface{}) int {
	b, ok := x.([]byte)
	if !ok || b == nil {
		return -1
	}
	v, err := strconv.Atoi(strings.TrimPrefix(string(b), "v"))
	if err != nil {
		return -2
	}
	return v
}

// do sends one command and logs the reply in a uniform shape.
func (d *rtDrv) do(name string, ids []int, vals []int) {
	args := []interface{}{}
	for i, id := range ids {
		args = append(args, d.rawOf(id))
		if name == "set" || name == "plset" {
			args = append(args, "v"+strconv.Itoa(vals[i]))
		}
	}
	r, err := d.conn.Do(name, args...)
	ev := trace.M{"ev": "cmd", "name": name, "ks": ids, "vs": vals, "err": err != nil, "msg": "", "n": 0, "vals": []int{}, "oks": []string{}}
	if vals == nil {
		ev["vs"] = []int{}
	}
	if err != nil {
		m := err.Error()
		if len(m) > 90 {
			m = m[:90]
		}
		ev["msg"] = m
	} else {
		switch name {
		case "set":
			ev["oks"] = []string{fmt.Sprint(r)}
		case "get":
			ev["vals"] = []int{valOf(r)}
		case "del", "exists":
			n, _ := r.(int64)
			ev["n"] = n
		case "mget":
			a, _ := r.([]interface{})
			out := []int{}
			for _, x := range a {
				out = append(out, valOf(x))
			}
			ev["vals"] = out
		case "plset":
			// PLSET answers with one status per pair (several replies on the wire)
			oks := []string{fmt.Sprint(r)}
			for i := 1; i < len(ids); i++ {
				r2, e2 := d.conn.Receive()
				if e2 != nil {
					oks = append(oks, "ERR "+e2.Error())
				} else {
					oks = append(oks, fmt.Sprint(r2))
				}
			}
			ev["oks"] = oks
		}
	}
	d.tw.Emit(ev)
	d.cnt["commands"]++
	d.cnt["cmd_"+name]++
	np := map[int]bool{}
	for _, id := range ids {
		np[d.part[id-1]] = true
	}
	if len(ids) > 1 && len(np) > 1 {
		d.cnt["multikey_spanning_partitions"]++
	}
	for _, id := range ids {
		if d.knss[id-1] != d.knss[ids[0]-1] {
			d.cnt["multikey_mixing_namespaces"]++
			break
		}
	}
	if name == "set" || name == "del" || name == "plset" {
		d.where(ids)
	}
}

func (d *rtDrv) randIds(n int, onePart bool) []int { return d.randIdsNs(n, onePart, false) }

// randIdsNs: sameNs forces keys of one namespace (MGET: the open finding route-mget-first-key is
// defined by keys spanning partitions; its namespace variant has the same root and is kept out)
// nkeys: key ids that ordinary commands draw from (the refused key is only named by PLSETs of
// the partial-failure stage)
func (d *rtDrv) nkeys() int {
	if d.poison > 0 {
		return d.poison - 1
	}
	return len(d.keys)
}

// plsetRaw sends a PLSET over a connection of its own and collects its replies: one status per
// pair when the command was split and executed (also when a partition refused its share), or a
// single error when it was rejected as a whole.
func (d *rtDrv) plsetRaw(ids []int, vals []int) []string {
	conn, err := net.DialTimeout("tcp", "127.0.0.1:"+strconv.Itoa(d.redisPort), 5*time.Second)
	if err != nil {
		return []string{"DIAL " + err.Error()}
	}
	defer conn.Close()
	args := [][]byte{[]byte("plset")}
	for i, id := range ids {
		args = append(args, []byte(d.rawOf(id)), []byte("v"+strconv.Itoa(vals[i])))
	}
	conn.Write(common.BuildCommand(args).Raw)
	rd := bufio.NewReader(conn)
	out := []string{}
	for len(out) < len(ids) {
		wait := 150 * time.Millisecond
		if len(out) == 0 {
			wait = 10 * time.Second
		}
		conn.SetReadDeadline(time.Now().Add(wait))
		line, err := rd.ReadString('\n')
		if err != nil {
			break
		}
		if strings.HasPrefix(line, "+OK") {
			out = append(out, "OK")
		} else {
			out = append(out, "ERR")
		}
	}
	return out
}

func (d *rtDrv) randIdsNs(n int, onePart bool, sameNs bool) []int {
	ids := make([]int, 0, n)
	first := 1 + d.rng.Intn(d.nkeys())
	// three multi-key commands in four name keys of one namespace only
	oneNs := onePart || sameNs || d.rng.Intn(4) > 0
	for len(ids) < n {
		id := 1 + d.rng.Intn(d.nkeys())
		if len(ids) == 0 {
			id = first
		}
		if onePart && d.part[id-1] != d.part[first-1] {
			continue
		}
		if oneNs && d.knss[id-1] != d.knss[first-1] {
			continue
		}
		ids = append(ids, id)
		if d.rng.Intn(4) == 0 && len(ids) < n {
			ids = append(ids, id) // duplicate
		}
	}
	return ids
}

func (d *rtDrv) session(steps int) {
	for s := 0; s < steps; s++ {
		n := 1 + d.rng.Intn(5)
		switch c := d.rng.Intn(100); {
		case c < 22:
			d.do("set", []int{1 + d.rng.Intn(d.nkeys())}, []int{d.rng.Intn(90)})
		case c < 32:
			d.do("get", []int{1 + d.rng.Intn(d.nkeys())}, nil)
		case c < 50:
			d.do("del", d.randIds(n, false), nil)
		case c < 66:
			d.do("exists", d.randIds(n, false), nil)
		case c < 82:
			d.do("mget", d.randIdsNs(n, !d.cross, true), nil)
		default:
			ids := d.randIdsNs(n, false, d.poison > 0)
			if d.poison > 0 && d.knss[ids[0]-1] == "default" && d.rng.Intn(2) == 0 {
				// one pair that its partition will refuse, somewhere in the middle
				k := d.rng.Intn(len(ids) + 1)
				ids = append(ids[:k], append([]int{d.poison}, ids[k:]...)...)
			}
			vals := make([]int, len(ids))
			for i := range vals {
				vals[i] = d.rng.Intn(90)
			}
			if d.poison > 0 {
				oks := d.plsetRaw(ids, vals)
				whole := len(oks) == 1 && len(ids) > 1
				d.tw.Emit(trace.M{"ev": "cmd", "name": "plset", "ks": ids, "vs": vals, "err": whole || (len(ids) == 1 && oks[0] != "OK"), "msg": "", "n": 0, "vals": []int{}, "oks": oks})
				d.cnt["commands"]++
				d.cnt["cmd_plset"]++
				for _, id := range ids {
					if id == d.poison {
						d.cnt["plset_with_refusing_partition"]++
					}
				}
				d.where(ids)
			} else {
				d.do("plset", ids, vals)
			}
		}
	}
}

func rtServe(tw *trace.Writer, base string, seed int64, eng string, P int, drop int, steps int, cross bool, plsetFail bool, cnt map[string]int) error {
	rng := rand.New(rand.NewSource(seed))
	hosted := []int{}
	for p := 0; p < P; p++ {
		if p != drop {
			hosted = append(hosted, p)
		}
	}
	var cs *ckServer
	var err error
	if drop == -2 {
		// the namespace was re-created with another partition count (P) while partition 0 of
		// the old namespace (P-1 partitions) is still registered on this node
		hosted = hosted[:0]
		for p := 0; p < P; p++ {
			hosted = append(hosted, p)
		}
		cs, err = ckStartServer(filepath.Join(base, fmt.Sprintf("srv-p%d-recreated", P)), eng, P-1, []int{0}, 0)
		if err == nil {
			err = cs.addPartitions(P, hosted[1:])
		}
		cnt["recreated_namespaces"]++
	} else {
		cs, err = ckStartServer(filepath.Join(base, fmt.Sprintf("srv-p%d-d%d", P, drop)), eng, P, hosted, 0)
	}
	if err != nil {
		return err
	}
	defer func() {
		cs.kv.Stop()
		os.RemoveAll(cs.dir)
	}()
	if err := cs.waitLeaders(60 * time.Second); err != nil {
		return err
	}
	d := &rtDrv{tw: tw, rng: rng, cs: cs, P: P, hosted: hosted, cnt: cnt, cross: cross}
	// keys: at least two per partition (found with the SDK's function), plus adversarial shapes
	per := map[int]int{}
	cand := []rtKey{{"t", []byte("a:b")}, {"t", []byte{0xff, 0x00, 0x80}}, {"t:u", []byte("k")}, {"t", []byte("::")}, {"tab", []byte("default:t:a")}}
	for i := 0; len(d.keys) < 2*P+len(cand) && i < 100000; i++ {
		var k rtKey
		if i < len(cand) {
			k = cand[i]
		} else {
			k = rtKey{[]string{"t", "u", "tab"}[rng.Intn(3)], []byte("key" + strconv.Itoa(rng.Intn(1000000)))}
		}
		p := sdk.GetHashedPartitionID(sdk.NewPKey("default", k.table, k.pk).ShardingKey(), P)
		if i >= len(cand) && per[p] >= 2 && len(per) < P {
			continue
		}
		if i >= len(cand) && per[p] >= 3 {
			continue
		}
		per[p]++
		d.keys = append(d.keys, k)
		d.part = append(d.part, p)
	}
	// a second namespace with the same partitions hosted; some of its keys have the same table and
	// primary key as keys of the first namespace
	if err := cs.addNamespace("other", P, hosted, 3000); err != nil {
		return err
	}
	if err := cs.waitLeaders(60 * time.Second); err != nil {
		return err
	}
	nfirst := len(d.keys)
	for i := 0; i < nfirst; i++ {
		d.knss = append(d.knss, "default")
	}
	for i := 0; i < nfirst && i < 4+P; i += 2 {
		k := d.keys[i]
		d.keys = append(d.keys, k)
		d.knss = append(d.knss, "other")
		d.part = append(d.part, sdk.GetHashedPartitionID(sdk.NewPKey("other", k.table, k.pk).ShardingKey(), P))
	}
	srv := make([]int, len(d.keys))
	nsid := make([]int, len(d.keys))
	for i, k := range d.keys {
		srv[i], _, _ = serverPartition(k.rawNs(d.knss[i]), P)
		nsid[i] = 1
		if d.knss[i] != "default" {
			nsid[i] = 2
		}
	}
	poisonList := []int{}
	if plsetFail {
		// a key the owning partition refuses when it applies the write (longer than MaxKeySize); last id
		pk := rtKey{"t", []byte(strings.Repeat("z", common.MaxKeySize+100) + strconv.Itoa(rng.Intn(1000)))}
		d.keys = append(d.keys, pk)
		d.knss = append(d.knss, "default")
		d.part = append(d.part, sdk.GetHashedPartitionID(sdk.NewPKey("default", pk.table, pk.pk).ShardingKey(), P))
		sp, _, _ := serverPartition(pk.raw(), P)
		srv = append(srv, sp)
		nsid = append(nsid, 1)
		d.poison = len(d.keys)
		poisonList = []int{d.poison}
	}
	d.redisPort = cs.redis
	tw.Emit(trace.M{"ev": "reset", "P": P, "hosted": hosted, "part": d.part, "srv": srv, "ns": nsid, "cross": cross, "poison": poisonList})
	c := goredis.NewClient("127.0.0.1:"+strconv.Itoa(cs.redis), "")
	defer c.Close()
	for k := 0; k < 50; k++ {
		d.conn, err = c.Get()
		if err == nil {
			break
		}
		time.Sleep(100 * time.Millisecond)
	}
	if err != nil {
		return err
	}
	defer d.conn.Close()
	d.session(steps)
	cnt["servers"]++
	return nil
}

func routesim(args []string) error {
	fs := flag.NewFlagSet("routesim", flag.ExitOnError)
	mode := fs.String("mode", "map", "map | serve")
	outp := fs.String("o", "route", "output file prefix (<prefix>.ndjson)")
	seed := fs.Int64("seed", 1, "")
	nkeys := fs.Int("keys", 120, "map: number of keys")
	allP := fs.Bool("allp", false, "map: every P in 1..1024 (default: a seeded sample of 96 plus the small ones and powers of two)")
	et := fs.String("eng", "mem", "serve: engine")
	plist := fs.String("p", "2,3,8", "serve: partition numbers")
	steps := fs.Int("steps", 120, "serve: commands per server")
	plsetFail := fs.Bool("plsetfail", false, "serve: PLSETs may contain a pair that its partition refuses when it applies it (partial failure; per-pair status order)")
	cross := fs.Bool("crossmget", false, "serve: let MGET span partitions (trigger of known finding route-mget-first-key)")
	fs.Parse(args)

	ckSilence()
	realOut := os.Stdout
	if devnull, err := os.OpenFile(os.DevNull, os.O_WRONLY, 0); err == nil {
		os.Stdout = devnull
	}
	cnt := map[string]int{}
	var tw *trace.Writer
	var err error
	events := 0
	switch *mode {
	case "map":
		if tw, err = trace.Create(*outp + ".ndjson"); err != nil {
			return err
		}
		var ps []int
		if *allP {
			for p := 1; p <= 1024; p++ {
				ps = append(ps, p)
			}
		} else {
			r := rand.New(rand.NewSource(*seed * 31))
			in := map[int]bool{}
			for _, p := range []int{1, 2, 3, 4, 5, 7, 8, 16, 31, 32, 64, 100, 128, 255, 256, 257, 512, 1000, 1023, 1024} {
				in[p] = true
			}
			for len(in) < 116 {
				in[1+r.Intn(1024)] = true
			}
			for p := 1; p <= 1024; p++ {
				if in[p] {
					ps = append(ps, p)
				}
			}
		}
		for k, v := range rtMap(tw, *seed, *nkeys, ps) {
			cnt[k] = v
		}
		cnt["partition_numbers"] = len(ps)
		events = tw.N
		tw.Close()
	case "serve":
		base, err := ioutil.TempDir(os.Getenv("ZR_SCRATCH"), "zrroute")
		if err != nil {
			return err
		}
		defer os.RemoveAll(base)
		for i, ps := range strings.Split(*plist, ",") {
			P := ckAtoi(ps)
			// all partitions hosted, then one partition missing (must reject)
			drops := []int{-1, int((*seed + int64(i))) % P}
			if i == 1 && P >= 3 {
				drops = append(drops, -2) // re-created namespace
			}
			for _, drop := range drops {
				if P == 1 && drop >= 0 {
					continue
				}
				// one trace file per server: its first line instantiates the constants
				if tw, err = trace.Create(fmt.Sprintf("%s.%d.ndjson", *outp, cnt["files"])); err != nil {
					return err
				}
				cnt["files"]++
				func() {
					defer func() {
						if r := recover(); r != nil {
							tw.Emit(trace.M{"ev": "panic", "what": fmt.Sprint(r)})
							cnt["panics"]++
						}
					}()
					if err := rtServe(tw, base, *seed*100+int64(i)*3+int64(drop+2), *et, P, drop, *steps, *cross, *plsetFail, cnt); err != nil {
						tw.Emit(trace.M{"ev": "abort", "what": err.Error()})
						cnt["aborted"]++
					}
				}()
				events += tw.N
				tw.Close()
			}
		}
	default:
		return fmt.Errorf("unknown mode %s", *mode)
	}
	os.Stdout = realOut
	summary(map[string]interface{}{"driver": "routesim", "mode": *mode, "seed": *seed, "events": events, "counts": cnt})
	return nil
}
