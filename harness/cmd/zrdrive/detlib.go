package main

// detlib: shared plumbing of the C07 (detsim) and C11 (inputsim) drivers: a real
// node.StateMachine on a real store, fed with hand-built log entries exactly the way
// KVNode.applyEntries does (one batch operator per apply group, ApplyRaftRequest per entry,
// CommitBatch at the end of the group), replies taken from the waiters, raw and logical dumps.
// Nothing in here judges.

import (
	"crypto/sha1"
	"encoding/hex"
	"fmt"
	"io/ioutil"
	"os"
	"runtime/debug"
	"sort"
	"strconv"
	"strings"

	"github.com/youzan/ZanRedisDB/common"
	"github.com/youzan/ZanRedisDB/engine"
	"github.com/youzan/ZanRedisDB/node"
	"github.com/youzan/ZanRedisDB/pkg/wait"
	"github.com/youzan/ZanRedisDB/rockredis"
	"github.com/youzan/ZanRedisDB/slow"
)

// detEntry is one committed log entry: a timestamp and one or more redis commands
// (several commands in one entry share the entry's timestamp, as a proposal batch does).
type detEntry struct {
	Ts     int64
	Cmds   [][]string
	Syncer bool // the entry came from the cross-cluster log syncer (ReqSourceType FromClusterSyncer)
}

type detSM struct {
	sm     node.StateMachine
	w      wait.Wait
	dir    string
	eng    string
	policy string
	nextID uint64
}

type detNullLogger struct{}

func (detNullLogger) Output(int, string) error        { return nil }
func (detNullLogger) OutputErr(int, string) error     { return nil }
func (detNullLogger) OutputWarning(int, string) error { return nil }

func detSilence() {
	engine.SetLogger(0, detNullLogger{})
	rockredis.SetLogger(0, detNullLogger{})
	node.SetLogger(0, detNullLogger{})
	slow.SetLogger(0, detNullLogger{})
}

func detOpts(dir, eng, policy string) *node.KVOptions {
	opts := &node.KVOptions{DataDir: dir, EngType: rockredis.EngType, DataVersion: common.ValueHeaderV1, KeepBackup: 3}
	if policy == "local" {
		opts.ExpirationPolicy = common.LocalDeletion
	} else {
		opts.ExpirationPolicy = common.WaitCompact
	}
	opts.RockOpts.EngineType = eng
	return opts
}

func detOpenSM(scratch, eng, policy string) (*detSM, error) {
	dir, err := ioutil.TempDir(scratch, "zrsm")
	if err != nil {
		return nil, err
	}
	d := &detSM{dir: dir, eng: eng, policy: policy, nextID: 1000}
	if err := d.open(); err != nil {
		os.RemoveAll(dir)
		return nil, err
	}
	return d, nil
}

func (d *detSM) open() error {
	d.w = wait.New()
	sm, err := node.NewStateMachine(detOpts(d.dir, d.eng, d.policy), node.MachineConfig{}, 1, "default-0", nil, d.w, nil)
	if err != nil {
		return err
	}
	d.sm = sm
	return nil
}

func (d *detSM) store() *node.KVStore { return node.VerifDetStore(d.sm) }

func (d *detSM) close() {
	if d.sm != nil {
		d.sm.Close()
		d.sm = nil
	}
	os.RemoveAll(d.dir)
}

// reopen closes the store and opens it again on the same directory (a process restart
// without a checkpoint; meaningful on persistent engines only).
func (d *detSM) reopen() error {
	d.sm.Close()
	d.sm = nil
	return d.open()
}

func detBuildCmd(args []string) []byte {
	b := make([][]byte, len(args))
	for i, a := range args {
		b[i] = []byte(a)
	}
	return common.BuildCommand(b).Raw
}

// detReplyStr renders a reply value (as handed to the waiter) as a canonical string.
func detReplyStr(v interface{}) string {
	switch x := v.(type) {
	case nil:
		return "nil"
	case error:
		return "e:" + x.Error()
	case int64:
		return "i:" + strconv.FormatInt(x, 10)
	case int:
		return "i:" + strconv.Itoa(x)
	case []byte:
		return "b:" + detShort(x)
	case string:
		return "s:" + x
	case float64:
		return "f:" + strconv.FormatFloat(x, 'g', -1, 64)
	case [][]byte:
		p := make([]string, len(x))
		for i, e := range x {
			p[i] = detShort(e)
		}
		return "l:[" + strings.Join(p, ",") + "]"
	default:
		return fmt.Sprintf("o:%T:%v", v, v)
	}
}

func detShort(b []byte) string {
	if len(b) <= 24 {
		return hex.EncodeToString(b)
	}
	if len(b) > 1<<20 {
		// giant values (the 8 MiB mutation class): length + head + tail; hashing them whole for
		// every dump after every command dominated the run time
		hh := sha1.New()
		hh.Write(b[:4096])
		hh.Write(b[len(b)-4096:])
		return fmt.Sprintf("#%d:~%s", len(b), hex.EncodeToString(hh.Sum(nil)[:8]))
	}
	h := sha1.Sum(b)
	return fmt.Sprintf("#%d:%s", len(b), hex.EncodeToString(h[:8]))
}

type detReply struct {
	Idx   int // log position (entry index * 100 + command index inside the entry)
	R     string
	Panic string
}

// applyGroup applies entries[from:to] as ONE apply group (what applyEntries does with the
// committed entries of one Ready): one batch operator, ApplyRaftRequest per entry, CommitBatch
// at the end.  Replies are collected after the group's commit.  A panic is caught and returned.
func (d *detSM) applyGroup(entries []detEntry, from, to int, replaying bool) (out []detReply, panicked string) {
	type pend struct {
		idx int
		wr  wait.WaitResult
	}
	var pends []pend
	defer func() {
		if e := recover(); e != nil {
			panicked = fmt.Sprintf("%v\n%s", e, detTrimStack(debug.Stack()))
			// the store's default batch may be half-filled: drop it like a process restart would
			if s := d.store(); s != nil {
				s.AbortBatch()
			}
		}
		for _, p := range pends {
			select {
			case <-p.wr.WaitC():
				out = append(out, detReply{Idx: p.idx, R: detReplyStr(p.wr.GetResult())})
			default:
				if panicked != "" {
					out = append(out, detReply{Idx: p.idx, R: "PANIC", Panic: panicked})
				} else {
					out = append(out, detReply{Idx: p.idx, R: "NO-TRIGGER"})
				}
			}
		}
	}()
	batch := d.sm.GetBatchOperator()
	for i := from; i < to; i++ {
		e := entries[i]
		var rl node.BatchInternalRaftRequest
		rl.ReqNum = int32(len(e.Cmds))
		rl.Timestamp = e.Ts
		if e.Syncer {
			rl.Type = node.FromClusterSyncer
			rl.OrigTerm = 3
			rl.OrigIndex = uint64(i + 1)
			rl.OrigCluster = "source-cluster"
		}
		for ci, c := range e.Cmds {
			d.nextID++
			id := d.nextID
			rl.Reqs = append(rl.Reqs, node.InternalRaftRequest{
				Header: node.RequestHeader{ID: id, DataType: 0, Timestamp: e.Ts}, Data: detBuildCmd(c)})
			pends = append(pends, pend{idx: i*100 + ci, wr: d.w.Register(id)})
		}
		d.sm.ApplyRaftRequest(replaying, batch, rl, 2, uint64(i+1), nil)
	}
	batch.CommitBatch()
	return
}

func detTrimStack(b []byte) string {
	lines := strings.Split(string(b), "\n")
	var keep []string
	for _, l := range lines {
		if strings.Contains(l, "ZanRedisDB/") && !strings.Contains(l, "zrverif") {
			keep = append(keep, strings.TrimSpace(l))
		}
		if len(keep) >= 8 {
			break
		}
	}
	return strings.Join(keep, " | ")
}

// rawDump iterates the whole engine.  Keys for which skip() is true are left out.
func (d *detSM) rawDump(skip func(k []byte) bool) (map[string]string, error) {
	return d.rawDump2(skip, nil)
}

// rawDump2: like rawDump; mask (if given) projects a value before it is digested.
func (d *detSM) rawDump2(skip func(k []byte) bool, mask func(k, v []byte) []byte) (map[string]string, error) {
	out := map[string]string{}
	it, err := d.store().NewDBRangeIterator(nil, nil, common.RangeClose, false)
	if err != nil {
		return nil, err
	}
	defer it.Close()
	for ; it.Valid(); it.Next() {
		k := it.Key()
		if skip != nil && skip(k) {
			continue
		}
		v := it.Value()
		if mask != nil {
			v = mask(k, v)
		}
		out[hex.EncodeToString(k)] = detShort(v)
	}
	return out, nil
}

func detDigest(m map[string]string) string {
	ks := make([]string, 0, len(m))
	for k := range m {
		ks = append(ks, k)
	}
	sort.Strings(ks)
	h := sha1.New()
	for _, k := range ks {
		h.Write([]byte(k))
		h.Write([]byte{0})
		h.Write([]byte(m[k]))
		h.Write([]byte{1})
	}
	return hex.EncodeToString(h.Sum(nil)[:10])
}

// detKeys names the logical keys the dump visits, per family.
type detKeys struct {
	KV, Bit, HLL, JSON, Hash, List, Set, ZSet []string
}

func detErr(err error) string {
	if err == nil {
		return ""
	}
	return "!" + err.Error()
}

// logicalDump reads every pool key through the store's read API (the functions the redis
// read commands call).  Reads evaluate expiry against the wall clock, so callers use it only
// when every expiry instant of the log is far from now.
func (d *detSM) logicalDump(keys detKeys) map[string]string {
	return d.logicalDumpStore(d.store(), keys)
}

func (d *detSM) logicalDumpStore(s *node.KVStore, keys detKeys) map[string]string {
	out := map[string]string{}
	for _, k := range keys.KV {
		v, err := s.KVGet([]byte(k))
		if v == nil {
			out["kv:"+k] = "nil" + detErr(err)
		} else {
			out["kv:"+k] = detShort(v) + detErr(err)
		}
	}
	for _, k := range keys.Bit {
		n, err := s.BitCountV2([]byte(k), 0, -1)
		out["bit:"+k] = strconv.FormatInt(n, 10) + detErr(err)
	}
	for _, k := range keys.HLL {
		n, err := s.PFCount(0, []byte(k))
		out["hll:"+k] = strconv.FormatInt(n, 10) + detErr(err)
		ex, err := s.KVExists([]byte(k))
		out["ex:"+k] = strconv.FormatInt(ex, 10) + detErr(err)
	}
	for _, k := range keys.JSON {
		v, err := s.JGet([]byte(k), []byte(""))
		out["json:"+k] = strings.Join(v, "|") + detErr(err)
	}
	for _, k := range keys.Hash {
		n, recs, err := s.HGetAll([]byte(k))
		p := make([]string, 0, len(recs))
		for _, r := range recs {
			p = append(p, detShort(r.Rec.Key)+"="+detShort(r.Rec.Value))
		}
		hl, err2 := s.HLen([]byte(k))
		out["hash:"+k] = fmt.Sprintf("n=%d len=%d [%s]%s%s", n, hl, strings.Join(p, ","), detErr(err), detErr(err2))
	}
	for _, k := range keys.List {
		vs, err := s.LRange([]byte(k), 0, -1)
		p := make([]string, 0, len(vs))
		for _, v := range vs {
			p = append(p, detShort(v))
		}
		n, err2 := s.LLen([]byte(k))
		out["list:"+k] = fmt.Sprintf("len=%d [%s]%s%s", n, strings.Join(p, ","), detErr(err), detErr(err2))
	}
	for _, k := range keys.Set {
		vs, err := s.SMembers([]byte(k))
		p := make([]string, 0, len(vs))
		for _, v := range vs {
			p = append(p, detShort(v))
		}
		n, err2 := s.SCard([]byte(k))
		out["set:"+k] = fmt.Sprintf("card=%d [%s]%s%s", n, strings.Join(p, ","), detErr(err), detErr(err2))
	}
	for _, k := range keys.ZSet {
		vs, err := s.ZRange([]byte(k), 0, -1)
		p := make([]string, 0, len(vs))
		for _, v := range vs {
			p = append(p, detShort(v.Member)+":"+strconv.FormatFloat(v.Score, 'g', -1, 64))
		}
		n, err2 := s.ZCard([]byte(k))
		out["zset:"+k] = fmt.Sprintf("card=%d [%s]%s%s", n, strings.Join(p, ","), detErr(err), detErr(err2))
	}
	return out
}
