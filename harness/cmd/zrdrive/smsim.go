package main

// smsim: drives the real kv state machine (node.NewStateMachine + ApplyRaftRequest with
// hand-built log entries and chosen log timestamps; reads through the store's read API)
// with the commands of spec/ZKV.tla and records what the code answered.
// Sources of behaviours:
//   -dot g.dot    every edge (write command) of TLC's dumped state graph of MC_ZKV, plus the
//                 product of read commands on the first visit of each distinct state (-full)
//   -random N     N seeded random walks of -len commands (advancing, non-monotone log clock)
//   -script f     an explicit command list (replay / delta debugging)
// After every write the driver logs an obs_* line for each touched key (every counting,
// enumerating and point-lookup read of that collection), periodically for ALL keys of all
// types.  Background work between commands: simulated compaction (-compact, policy wc) and
// the local-deletion scan (-scan, policy ld).  The driver never judges: spec/ZKVTrace.tla does.

import (
	"bufio"
	"encoding/json"
	"flag"
	"fmt"
	"io/ioutil"
	"math"
	"math/rand"
	"os"
	"path/filepath"
	"sort"
	"strconv"
	"strings"
	"time"

	"github.com/youzan/ZanRedisDB/common"
	"github.com/youzan/ZanRedisDB/engine"
	"github.com/youzan/ZanRedisDB/node"
	"github.com/youzan/ZanRedisDB/pkg/wait"
	"github.com/youzan/ZanRedisDB/rockredis"
	"zrverif/graph"
	"zrverif/trace"
)

func init() { commands["smsim"] = smsim }

// ---------------------------------------------------------------- pools

// key pools: 4 "table:key" names each.  prefixFree pools are the ones the memory (radix)
// engine is run with (known finding mem-radix-prefix-keys of C20).
type smPool struct {
	keys       []string
	subs       []string // ordered bytewise, so that sub id order = byte order
	sym10      byte     // the non-digit byte of value symbol 10
	prefixFree bool
}

var smPools = []smPool{
	{[]string{"t:a", "t:b", "u:a", "u:b"}, []string{"a", "b", "c", "d"}, 'x', true},
	{[]string{"t:k", "t:k\x00", "t:k:", "t:kk"}, []string{"", "\x00", "\x00\x00", "a"}, ':', false},
	{[]string{"a:b:c", "a:b", "a:b:", "ab:c"}, []string{"a", "a\x00", "a:", "b"}, '\xff', false},
	{[]string{"t:\x00", "t:\x00\x00", "t:\xff", "t\xff:\x00"}, []string{"\xfe", "\xff", "\xff\x00", "\xff\xff"}, '\n', false},
	{[]string{"t:" + strings.Repeat("p", 900) + "a", "t:" + strings.Repeat("p", 900) + "a\x00", "t:" + strings.Repeat("p", 901), "tt:" + strings.Repeat("p", 900)},
		[]string{strings.Repeat("s", 300), strings.Repeat("s", 300) + "\x00", strings.Repeat("s", 300) + "a", strings.Repeat("s", 301)}, ' ', false},
	{[]string{"t;:a;", "t;:a;;", "t;:b:", "u:;"}, []string{":", "::", ";", ";:"}, ';', false},
	// prefix-free pools (mem engine)
	{[]string{"t:a1", "t:b2", "u:a1", "v:d4"}, []string{"aa", "ab", "ba", "bb"}, 'x', true},
	{[]string{"t:\x00\x01", "t:\x00\xff", "u:\xff\x00", "u:\xff\xfe"}, []string{"\x00\x01", "\x00\xff", "\xff\x00", "\xff\xff"}, '\xff', true},
}

// value table, must equal ValTab of spec/ZKV.tla (the reset line carries it; the trace spec checks)
var smValTab = [][]int{{}, {1}, {2}, {1, 0}, {10}, {10, 12, 10}, {11, 3}, {9, 9},
	{9, 2, 2, 3, 3, 7, 2, 0, 3, 6, 8, 5, 4, 7, 7, 5, 8, 0, 7},     // int64 max
	{9, 2, 2, 3, 3, 7, 2, 0, 3, 6, 8, 5, 4, 7, 7, 5, 8, 0, 6},     // int64 max - 1
	{11, 9, 2, 2, 3, 3, 7, 2, 0, 3, 6, 8, 5, 4, 7, 7, 5, 8, 0, 8}} // int64 min

// the value ids the random generators draw from (the int64 extremes are used by scripts only, see
// recorded finding kv-incr-overflow-wraps)
const smGenVals = 8

// integer codes of ZKV.tla: IMAX, IMAX1, IMIN
func intText(n int) []byte {
	switch n {
	case 2000000001:
		return []byte("9223372036854775807")
	case 2000000002:
		return []byte("9223372036854775806")
	case -2000000001:
		return []byte("-9223372036854775808")
	}
	return []byte(strconv.Itoa(n))
}

// ---------------------------------------------------------------- commands

type smCmd struct {
	Ev string `json:"ev"` // cmd | scan | compact
	C  string `json:"c,omitempty"`
	K  int    `json:"k,omitempty"`
	A  []int  `json:"a,omitempty"`
	T  int    `json:"t"`
	P  int    `json:"p"` // placement of the timestamp inside the tick
	G  int    `json:"g,omitempty"` // consecutive commands with the same non-zero g form ONE raft entry batch
}

// sub-key id of a field/member name longer than the store accepts (OverLong in ZKV.tla)
const smOverLong = 9

var smReadCmds = map[string]bool{}
var smExpirySetting = map[string]bool{"setx": true, "setex": true, "expire": true, "hexpire": true, "lexpire": true, "sexpire": true, "zexpire": true, "bexpire": true}

// bit offsets: the codes 2000000000 / 2000000001 stand for 2^32-2 (the largest) and 2^32-1 (refused)
var smBitOffs = []int{0, 7, 8, 8191, 8192, 8200, 16383, 2000000000}

func bitOff(c int) int64 {
	switch c {
	case 2000000000:
		return 4294967294
	case 2000000001:
		return 4294967295
	}
	return int64(c)
}

func init() {
	for _, c := range strings.Fields("get strlen exists exists2 mget getrange ttl hget hmget hexists hlen hgetall hkeys hvals hkeyexist httl " +
		"llen lindex lrange lkeyexist lttl scard sismember smembers srandmember skeyexist sttl zcard zscore zrank zrevrank zrange zrevrange " +
		"zrangebyscore zrevrangebyscore zcount zrangebylex zlexcount zkeyexist zttl getbit bitcount bitcount2 bkeyexist bttl "+
		"zrangebyscorel zrevrangebyscorel zrangebylexl") {
		smReadCmds[c] = true
	}
}

func smTypeOf(c string) byte {
	switch c {
	case "rpush", "rpush2", "rpop":
		return 'l'
	case "setbit", "getbit", "bitcount", "bitcount2", "bitclear", "bkeyexist", "bexpire", "bttl", "bpersist":
		return 'b'
	}
	switch c[0] {
	case 'h':
		return 'h'
	case 'l':
		return 'l'
	case 'z':
		return 'z'
	case 's':
		switch c {
		case "set", "setx", "setex", "setnx", "setrange", "strlen":
			return 'k'
		}
		return 's'
	}
	return 'k'
}

// keys a command names (ids)
func smKeysOf(c *smCmd) []int {
	switch c.C {
	case "exists2", "mget", "del2":
		return []int{c.K, c.A[0]}
	case "mset":
		return []int{c.K, c.A[1]}
	}
	return []int{c.K}
}

// ---------------------------------------------------------------- driver state

type smDrv struct {
	sm      node.StateMachine
	st      *node.KVStore
	w       wait.Wait
	batch   node.IBatchOperator
	pool    smPool
	policy  string
	eng     string
	nk, ns  int
	rng     *rand.Rand
	tw      *trace.Writer
	tws     []*trace.Writer
	seg     int
	baseSec int64 // real second of tick 0
	hscale  int64 // real seconds per tick
	usedNs  map[int64]bool
	equalNs bool
	nextID  uint64
	obsAll  int // every obsAll writes, observe all keys of all types
	nwrite  int
	st8     smStats
	avoid   map[string]map[string]bool // kind -> command set
	subIdx  map[string]int
	lazySec int64
}

type smStats struct {
	Events, Cmds, Writes, Reads, Obs, Segments, Scans, Compactions, Dropped, ScanGone int
	Panics, Errors, Avoided                                                       int
	DeadMetByWrite, ExpiryMetByWrite, ExpiryMetByRead                            int
	PerCmd                                                                       map[string]int
}

func (d *smDrv) key(k int) []byte { return []byte(d.pool.keys[k-1]) }
func (d *smDrv) sub(s int) []byte {
	if s == smOverLong {
		return []byte(strings.Repeat("L", 10241)) // longer than common.MaxSubKeyLen
	}
	if s < 1 || s > len(d.pool.subs) {
		return []byte(fmt.Sprintf("zz-unknown-%d", s))
	}
	return []byte(d.pool.subs[s-1])
}
func (d *smDrv) subID(b []byte) int {
	if i, ok := d.subIdx[string(b)]; ok {
		return i
	}
	return 99
}
func (d *smDrv) val(id int) []byte { return d.encSyms(smValTab[id-1]) }
func (d *smDrv) encSyms(s []int) []byte {
	b := make([]byte, len(s))
	for i, x := range s {
		switch {
		case x >= 0 && x <= 9:
			b[i] = byte('0' + x)
		case x == 10:
			b[i] = d.pool.sym10
		case x == 11:
			b[i] = '-'
		case x == 12:
			b[i] = 0
		}
	}
	return b
}
func (d *smDrv) decSyms(b []byte) []int {
	s := make([]int, len(b))
	for i, x := range b {
		switch {
		case x >= '0' && x <= '9':
			s[i] = int(x - '0')
		case x == d.pool.sym10:
			s[i] = 10
		case x == '-':
			s[i] = 11
		case x == 0:
			s[i] = 12
		default:
			s[i] = 99
		}
	}
	return s
}

// score code <-> redis text / float.  |code| <= 1000000: the score code/2 (half units); beyond that the
// symbolic extreme classes of ZKV.tla (TINY, E9E18, E263, E1E19, EINF, NEGZERO), negative = negated.
const (
	scTiny    = 1000001
	sc9e18    = 1000002
	sc2p63    = 1000003
	sc1e19    = 1000004
	scInf     = 1000005
	scNegZero = 1000006
)

var scExtText = map[int]string{scTiny: "1e-300", sc9e18: "9e18", sc2p63: "9223372036854775808", sc1e19: "1e19", scInf: "inf"}
var scExtVal = map[int]float64{scTiny: 1e-300, sc9e18: 9e18, sc2p63: 9223372036854775808, sc1e19: 1e19, scInf: math.Inf(1)}

func scoreText(c int) string {
	a := c
	if a < 0 {
		a = -a
	}
	if a == scNegZero {
		return "-0"
	}
	if t, ok := scExtText[a]; ok {
		if c < 0 {
			return "-" + t
		}
		if a == scInf {
			return "+inf"
		}
		return t
	}
	return strconv.FormatFloat(float64(c)/2, 'g', -1, 64)
}
func scoreHalf(f float64) int {
	for c, v := range scExtVal {
		if f == v {
			return c
		}
		if f == -v {
			return -c
		}
	}
	x := f * 2
	if x != math.Trunc(x) || math.Abs(x) > 1e6 {
		return 987654
	}
	return int(x)
}

// index arguments: +-2000000000 stand for the int64 extremes
func idxText(n int) []byte {
	switch n {
	case 2000000000:
		return []byte("9223372036854775807")
	case -2000000000:
		return []byte("-9223372036854775808")
	}
	return []byte(strconv.Itoa(n))
}

// ---------------------------------------------------------------- time

func (d *smDrv) tickSec(t int) int64 { return d.baseSec + int64(t)*d.hscale }

// timestamp (ns) of a command logged in tick t with placement p; unique inside a segment
func (d *smDrv) ts(c *smCmd) int64 {
	sec0 := d.tickSec(c.T)
	if d.equalNs {
		return sec0 * 1e9
	}
	p := c.P
	if smExpirySetting[c.C] && p == 2 {
		p = 1 // expiry instants must stay on the tick grid: first real second of the tick
	}
	var base, step int64
	switch p {
	case 0:
		base, step = sec0*1e9, 1 // exactly at the start of the tick (the expiry instant itself)
	case 1:
		base, step = sec0*1e9+999999999, -1 // last nanosecond of the tick's first real second
	case 2:
		base, step = (sec0+d.hscale)*1e9-1, -1 // last nanosecond of the tick (1 ns before the next instant)
	default:
		base, step = sec0*1e9+int64(1000+(c.P*7919)%999000000), 1
	}
	for d.usedNs[base] {
		base += step
	}
	d.usedNs[base] = true
	return base
}

// the reader's clock tick
func (d *smDrv) nowTick() int {
	s := time.Now().Unix() - d.baseSec
	return int(math.Floor(float64(s) / float64(d.hscale)))
}

// ---------------------------------------------------------------- apply

type smReq struct {
	args [][]byte
	ts   int64
}

// applyGroup applies the requests as ONE raft entry batch and returns the handler results
func (d *smDrv) applyGroup(reqs []smReq) (res []interface{}) {
	res = make([]interface{}, len(reqs))
	var rl node.BatchInternalRaftRequest
	rl.ReqNum = int32(len(reqs))
	ids := make([]uint64, len(reqs))
	wrs := make([]wait.WaitResult, len(reqs))
	for i, r := range reqs {
		cmd := common.BuildCommand(r.args)
		d.nextID++
		ids[i] = d.nextID
		rl.Reqs = append(rl.Reqs, node.InternalRaftRequest{Header: node.RequestHeader{ID: ids[i], DataType: 0, Timestamp: r.ts}, Data: cmd.Raw})
		wrs[i] = d.w.Register(ids[i])
	}
	if len(reqs) == 1 {
		rl.Timestamp = reqs[0].ts
	}
	func() {
		defer func() {
			if e := recover(); e != nil {
				for i := range res {
					if res[i] == nil {
						res[i] = smPanic{fmt.Sprint(e)}
					}
				}
				// leave the batch in a clean state
				func() {
					defer func() { recover() }()
					d.batch.AbortBatchForError(fmt.Errorf("panic"))
				}()
				for _, id := range ids {
					d.w.Trigger(id, smPanic{fmt.Sprint(e)})
				}
			}
		}()
		d.nextID++
		d.sm.ApplyRaftRequest(false, d.batch, rl, 2, d.nextID, nil)
		d.batch.CommitBatch()
	}()
	for i := range reqs {
		if _, isP := res[i].(smPanic); isP {
			continue
		}
		select {
		case <-wrs[i].WaitC():
			res[i] = wrs[i].GetResult()
		case <-time.After(2 * time.Second):
			res[i] = smPanic{"no reply"}
		}
	}
	return res
}

type smPanic struct{ msg string }

// concrete argument vector of a write command
func (d *smDrv) writeArgs(c *smCmd) [][]byte {
	k := d.key(c.K)
	a := c.A
	it := func(n int) []byte { return []byte(strconv.Itoa(n)) }
	b := func(s string) []byte { return []byte(s) }
	sc := func(n int) []byte { return []byte(scoreText(n)) }
	switch c.C {
	case "set", "setnx", "getset", "append":
		return [][]byte{b(c.C), k, d.val(a[0])}
	case "setx":
		v := [][]byte{b("set"), k, d.val(a[0])}
		if a[1] > 0 {
			v = append(v, b("EX"), it(a[1]*int(d.hscale)))
		}
		if a[2] == 1 {
			v = append(v, b("NX"))
		} else if a[2] == 2 {
			v = append(v, b("xx"))
		}
		return v
	case "setex":
		if a[0] == 2000000001 {
			return [][]byte{b("setex"), k, intText(a[0]), d.val(a[1])}
		}
		return [][]byte{b("setex"), k, it(a[0] * int(d.hscale)), d.val(a[1])}
	case "mset":
		return [][]byte{b("mset"), k, d.val(a[0]), d.key(a[1]), d.val(a[2])}
	case "setbit":
		return [][]byte{b("setbit"), k, []byte(strconv.FormatInt(bitOff(a[0]), 10)), it(a[1])}
	case "incr", "decr", "persist", "hclear", "hpersist", "lpop", "rpop", "lclear", "lpersist", "spop", "sclear", "spersist", "zclear", "zpersist", "bitclear", "bpersist", "zfixkey", "lfixkey":
		return [][]byte{b(c.C), k}
	case "del":
		return [][]byte{b("del"), k}
	case "del2":
		return [][]byte{b("del"), k, d.key(a[0])}
	case "incrby", "decrby":
		return [][]byte{b(c.C), k, intText(a[0])}
	case "setrange":
		return [][]byte{b("setrange"), k, it(a[0]), d.val(a[1])}
	case "expire", "hexpire", "lexpire", "sexpire", "zexpire", "bexpire":
		if a[0] == 2000000001 {
			return [][]byte{b(c.C), k, intText(a[0])}
		}
		return [][]byte{b(c.C), k, it(a[0] * int(d.hscale))}
	case "hset", "hsetnx":
		return [][]byte{b(c.C), k, d.sub(a[0]), d.val(a[1])}
	case "hmset":
		return [][]byte{b("hmset"), k, d.sub(a[0]), d.val(a[1]), d.sub(a[2]), d.val(a[3])}
	case "hdel", "srem", "sadd", "zrem":
		return [][]byte{b(c.C), k, d.sub(a[0])}
	case "hdel2":
		return [][]byte{b("hdel"), k, d.sub(a[0]), d.sub(a[1])}
	case "hincrby":
		return [][]byte{b("hincrby"), k, d.sub(a[0]), intText(a[1])}
	case "lpush", "rpush":
		return [][]byte{b(c.C), k, d.val(a[0])}
	case "lpush2":
		return [][]byte{b("lpush"), k, d.val(a[0]), d.val(a[1])}
	case "rpush2":
		return [][]byte{b("rpush"), k, d.val(a[0]), d.val(a[1])}
	case "lset":
		return [][]byte{b("lset"), k, idxText(a[0]), d.val(a[1])}
	case "ltrim":
		return [][]byte{b("ltrim"), k, idxText(a[0]), idxText(a[1])}
	case "sadd2":
		return [][]byte{b("sadd"), k, d.sub(a[0]), d.sub(a[1])}
	case "srem2":
		return [][]byte{b("srem"), k, d.sub(a[0]), d.sub(a[1])}
	case "zrem2":
		return [][]byte{b("zrem"), k, d.sub(a[0]), d.sub(a[1])}
	case "spopn":
		return [][]byte{b("spop"), k, it(a[0])}
	case "zadd":
		return [][]byte{b("zadd"), k, sc(a[0]), d.sub(a[1])}
	case "zadd2":
		return [][]byte{b("zadd"), k, sc(a[0]), d.sub(a[1]), sc(a[2]), d.sub(a[3])}
	case "zincrby":
		return [][]byte{b("zincrby"), k, sc(a[0]), d.sub(a[1])}
	case "zremrangebyrank":
		return [][]byte{b(c.C), k, idxText(a[0]), idxText(a[1])}
	case "zremrangebyscore":
		lo, hi := d.scoreBounds(a)
		return [][]byte{b(c.C), k, lo, hi}
	case "zremrangebylex":
		lo, hi := d.lexBounds(a)
		return [][]byte{b(c.C), k, lo, hi}
	}
	panic("smsim: unknown write command " + c.C)
}

// <<lo, lokind, hi, hikind>> -> redis score interval text
func (d *smDrv) scoreBounds(a []int) ([]byte, []byte) {
	f := func(v, kind int, inf string) []byte {
		switch kind {
		case 2:
			return []byte(inf)
		case 1:
			return []byte("(" + scoreText(v))
		}
		return []byte(scoreText(v))
	}
	return f(a[0], a[1], "-inf"), f(a[2], a[3], "+inf")
}

func (d *smDrv) lexBounds(a []int) ([]byte, []byte) {
	f := func(v, kind int, inf string) []byte {
		switch kind {
		case 2:
			return []byte(inf)
		case 1:
			return append([]byte("("), d.sub(v)...)
		}
		return append([]byte("["), d.sub(v)...)
	}
	return f(a[0], a[1], "-"), f(a[2], a[3], "+")
}

// ---------------------------------------------------------------- replies (flat int sequences, see ZKV.tla)

var (
	rNil = []int{0}
	rOk  = []int{2}
	rErr = []int{4}
)

func rInt(n int64) []int {
	switch n {
	case math.MaxInt64:
		return []int{1, 2000000001}
	case math.MaxInt64 - 1:
		return []int{1, 2000000002}
	case math.MinInt64:
		return []int{1, -2000000001}
	}
	if n > 1<<30 || n < -(1<<30) {
		return []int{1, 987654321}
	}
	return []int{1, int(n)}
}
func (d *smDrv) rBulk(b []byte) []int { return append([]int{3}, d.decSyms(b)...) }
func (d *smDrv) item(b []byte) []int {
	if b == nil {
		return []int{-1}
	}
	return append([]int{len(b)}, d.decSyms(b)...)
}
func (d *smDrv) rVals(vs [][]byte) []int {
	r := []int{5, len(vs)}
	for _, v := range vs {
		r = append(r, d.item(v)...)
	}
	return r
}
func (d *smDrv) rIds(ms [][]byte) []int {
	r := []int{6, len(ms)}
	for _, m := range ms {
		r = append(r, d.subID(m))
	}
	return r
}
func (d *smDrv) rPairs(ps []common.ScorePair) []int {
	r := []int{7, len(ps)}
	for _, p := range ps {
		r = append(r, d.subID(p.Member), scoreHalf(p.Score))
	}
	return r
}

// normalise the handler result of a write command
func (d *smDrv) writeReply(c *smCmd, v interface{}) []int {
	switch x := v.(type) {
	case smPanic:
		return []int{-7}
	case error:
		return rErr
	case nil:
		switch c.C {
		case "getset", "lpop", "rpop", "spop":
			return rNil
		case "mset", "hmset", "lset", "ltrim", "setex", "zfixkey", "lfixkey":
			return rOk
		}
		return []int{-1}
	case int64:
		switch c.C {
		case "set":
			return rOk
		case "setx":
			if x == 0 {
				return rNil
			}
			return rOk
		}
		return rInt(x)
	case int:
		return rInt(int64(x))
	case string:
		if x == "OK" {
			return rOk
		}
		return []int{-2}
	case []byte:
		switch c.C {
		case "spop":
			return []int{8, d.subID(x)}
		}
		if x == nil {
			return rNil
		}
		return d.rBulk(x)
	case [][]byte:
		if c.C == "spopn" {
			return d.rIds(x)
		}
		return d.rVals(x)
	case float64:
		return []int{9, scoreHalf(x)}
	}
	return []int{-3}
}

// setex answers nil,nil from the handler (OK is made by the leader-side wrapper)
func smFixNilOk(c *smCmd, r []int) []int {
	if len(r) == 1 && r[0] == -1 {
		switch c.C {
		case "setex":
			return rOk
		}
	}
	return r
}

// execute a read command through the store's read API (what the redis read handlers call)
func idx64(n int) int64 {
	switch n {
	case 2000000000:
		return math.MaxInt64
	case -2000000000:
		return math.MinInt64
	}
	return int64(n)
}

func (d *smDrv) read(c *smCmd) (r []int) {
	defer func() {
		if e := recover(); e != nil {
			r = []int{-7}
		}
	}()
	k := d.key(c.K)
	a := c.A
	st := d.st
	e := func(err error) bool { return err != nil }
	switch c.C {
	case "get":
		v, err := st.KVGet(k)
		if e(err) {
			return rErr
		}
		if v == nil {
			return rNil
		}
		return d.rBulk(v)
	case "strlen":
		n, err := st.StrLen(k)
		if e(err) {
			return rErr
		}
		return rInt(n)
	case "exists":
		n, err := st.KVExists(k)
		if e(err) {
			return rErr
		}
		return rInt(n)
	case "exists2":
		n, err := st.KVExists(k, d.key(a[0]))
		if e(err) {
			return rErr
		}
		return rInt(n)
	case "mget":
		vs, _ := st.MGet(k, d.key(a[0]))
		return d.rVals(vs)
	case "getrange":
		v, err := st.GetRange(k, idx64(a[0]), idx64(a[1]))
		if e(err) {
			return rErr
		}
		return d.rBulk(v) // RESP nil and "" are not distinguished for GETRANGE
	case "getbit":
		n, err := st.BitGetV2(k, bitOff(a[0]))
		if e(err) {
			return rErr
		}
		return rInt(n)
	case "bitcount", "bitcount2":
		s0, e0 := int64(0), int64(-1)
		if c.C == "bitcount2" {
			s0, e0 = int64(a[0]), int64(a[1])
		}
		n, err := st.BitCountV2(k, s0, e0)
		if e(err) {
			return rErr
		}
		return rInt(n)
	case "bkeyexist":
		n, err := st.BitKeyExist(k)
		if e(err) {
			return rErr
		}
		return rInt(n)
	case "ttl", "httl", "lttl", "sttl", "zttl", "bttl":
		n := d.ttlOf(map[string]byte{"ttl": 'k', "httl": 'h', "lttl": 'l', "sttl": 's', "zttl": 'z', "bttl": 'b'}[c.C], k)
		if n == -5 {
			return rErr
		}
		return rInt(int64(n))
	case "hget":
		v, err := st.HGet(k, d.sub(a[0]))
		if e(err) {
			return rErr
		}
		if v == nil {
			return rNil
		}
		return d.rBulk(v)
	case "hmget":
		vs, err := st.HMget(k, d.sub(a[0]), d.sub(a[1]))
		if e(err) {
			return rErr
		}
		return d.rVals(vs)
	case "hexists":
		ok, err := st.HExist(k, d.sub(a[0]))
		if e(err) {
			return rErr
		}
		return rInt(b2i(ok))
	case "hlen":
		n, err := st.HLen(k)
		if e(err) {
			return rErr
		}
		return rInt(n)
	case "hgetall":
		_, recs, err := st.HGetAll(k)
		if e(err) {
			return rErr
		}
		r := []int{10, len(recs)}
		for _, rec := range recs {
			r = append(r, d.subID(rec.Rec.Key))
			r = append(r, d.item(nz(rec.Rec.Value))...)
		}
		return r
	case "hkeys":
		_, recs, err := st.HKeys(k)
		if e(err) {
			return rErr
		}
		ms := make([][]byte, len(recs))
		for i, rec := range recs {
			ms[i] = rec.Rec.Key
		}
		return d.rIds(ms)
	case "hvals":
		_, recs, err := st.HValues(k)
		if e(err) {
			return rErr
		}
		vs := make([][]byte, len(recs))
		for i, rec := range recs {
			vs[i] = nz(rec.Rec.Value)
		}
		return d.rVals(vs)
	case "hkeyexist":
		n, err := st.HKeyExists(k)
		if e(err) {
			return rErr
		}
		return rInt(n)
	case "lkeyexist":
		n, err := st.LKeyExists(k)
		if e(err) {
			return rErr
		}
		return rInt(n)
	case "skeyexist":
		n, err := st.SKeyExists(k)
		if e(err) {
			return rErr
		}
		return rInt(n)
	case "zkeyexist":
		n, err := st.ZKeyExists(k)
		if e(err) {
			return rErr
		}
		return rInt(n)
	case "llen":
		n, err := st.LLen(k)
		if e(err) {
			return rErr
		}
		return rInt(n)
	case "lindex":
		v, err := st.LIndex(k, idx64(a[0]))
		if e(err) {
			return rErr
		}
		if v == nil {
			return rNil
		}
		return d.rBulk(v)
	case "lrange":
		vs, err := st.LRange(k, idx64(a[0]), idx64(a[1]))
		if e(err) {
			return rErr
		}
		for i := range vs {
			vs[i] = nz(vs[i])
		}
		return d.rVals(vs)
	case "scard":
		n, err := st.SCard(k)
		if e(err) {
			return rErr
		}
		return rInt(n)
	case "sismember":
		n, err := st.SIsMember(k, d.sub(a[0]))
		if e(err) {
			return rErr
		}
		return rInt(n)
	case "smembers":
		ms, err := st.SMembers(k)
		if e(err) {
			return rErr
		}
		return d.rIds(ms)
	case "srandmember":
		ms, err := st.SRandMembers(k, int64(a[0]))
		if e(err) {
			return rErr
		}
		return d.rIds(ms)
	case "zcard":
		n, err := st.ZCard(k)
		if e(err) {
			return rErr
		}
		return rInt(n)
	case "zscore":
		s, err := st.ZScore(k, d.sub(a[0]))
		if e(err) {
			return rNil // the read handler answers nil on any error (member missing)
		}
		return []int{9, scoreHalf(s)}
	case "zrank", "zrevrank":
		var n int64
		var err error
		if c.C == "zrank" {
			n, err = st.ZRank(k, d.sub(a[0]))
		} else {
			n, err = st.ZRevRank(k, d.sub(a[0]))
		}
		if e(err) {
			return rErr
		}
		if n < 0 {
			return rNil
		}
		return rInt(n)
	case "zrange", "zrevrange":
		ps, err := st.ZRangeGeneric(k, int(idx64(a[0])), int(idx64(a[1])), c.C == "zrevrange")
		if e(err) {
			return rErr
		}
		return d.rPairs(ps)
	case "zrangebyscorel", "zrevrangebyscorel":
		lo, hi := d.scoreBounds(a)
		mn, mx, err := node.VerifSMParseScoreRange(lo, hi)
		if e(err) {
			return rErr
		}
		ps, err := st.ZRangeByScoreGeneric(k, mn, mx, a[4], a[5], c.C == "zrevrangebyscorel")
		if e(err) {
			return rErr
		}
		return d.rPairs(ps)
	case "zrangebylexl":
		lo, hi := d.lexBounds(a)
		mn, mx, rt, err := node.VerifSMParseLexRange(lo, hi)
		if e(err) {
			return rErr
		}
		ms, err := st.ZRangeByLex(k, mn, mx, rt, a[4], a[5])
		if e(err) {
			return rErr
		}
		return d.rIds(ms)
	case "zrangebyscore", "zrevrangebyscore", "zcount":
		lo, hi := d.scoreBounds(a)
		mn, mx, err := node.VerifSMParseScoreRange(lo, hi)
		if e(err) {
			return rErr
		}
		if c.C == "zcount" {
			n, err := st.ZCount(k, mn, mx)
			if e(err) {
				return rErr
			}
			return rInt(n)
		}
		ps, err := st.ZRangeByScoreGeneric(k, mn, mx, 0, -1, c.C == "zrevrangebyscore")
		if e(err) {
			return rErr
		}
		return d.rPairs(ps)
	case "zrangebylex", "zlexcount":
		lo, hi := d.lexBounds(a)
		mn, mx, rt, err := node.VerifSMParseLexRange(lo, hi)
		if e(err) {
			return rErr
		}
		if c.C == "zlexcount" {
			n, err := st.ZLexCount(k, mn, mx, rt)
			if e(err) {
				return rErr
			}
			return rInt(n)
		}
		ms, err := st.ZRangeByLex(k, mn, mx, rt, 0, -1)
		if e(err) {
			return rErr
		}
		return d.rIds(ms)
	}
	panic("smsim: unknown read command " + c.C)
}

func nz(b []byte) []byte {
	if b == nil {
		return []byte{}
	}
	return b
}
func b2i(b bool) int64 {
	if b {
		return 1
	}
	return 0
}

// TTL in ticks; every negative answer (no key / no expiry) is -1.  The call reads the wall
// clock itself, so the second it used lies between the seconds sampled around it: the expiry
// second is (that second + answer) and must lie on the tick grid.
func (d *smDrv) ttlTicks(f func() (int64, error)) int64 {
	for try := 0; try < 6; try++ {
		t0 := time.Now().Unix()
		n, err := f()
		t1 := time.Now().Unix()
		if err != nil {
			return -5
		}
		if n < 0 {
			return -1
		}
		if d.hscale == 1 {
			if t0 != t1 {
				continue
			}
			return n
		}
		for c := t0; c <= t1; c++ {
			if e := c + n - d.baseSec; e%d.hscale == 0 {
				return e/d.hscale - int64(math.Floor(float64(c-d.baseSec)/float64(d.hscale)))
			}
		}
		return 900000 + n%1000 // an expiry instant off the tick grid
	}
	return -6
}

// ---------------------------------------------------------------- observations

type seqs = [][]int

func (d *smDrv) syms(b []byte) []int { return d.decSyms(nz(b)) }

// stable clock: run f while the reader's tick does not change
func (d *smDrv) atTick(f func(now int)) {
	for i := 0; i < 5; i++ {
		n0 := d.nowTick()
		s0 := time.Now().Unix()
		f(n0)
		if d.nowTick() == n0 && (d.hscale > 1 || time.Now().Unix() == s0) {
			return
		}
	}
}

func (d *smDrv) ttlOf(ty byte, k []byte) int {
	return int(d.ttlTicks(func() (int64, error) {
		switch ty {
		case 'k':
			return d.st.KVTtl(k)
		case 'h':
			return d.st.HashTtl(k)
		case 'l':
			return d.st.ListTtl(k)
		case 's':
			return d.st.SetTtl(k)
		case 'b':
			return d.st.BitTtl(k)
		}
		return d.st.ZSetTtl(k)
	}))
}

func (d *smDrv) observe(ty byte, kid int) {
	defer func() {
		if e := recover(); e != nil {
			d.emit(trace.M{"ev": "panic", "where": "obs", "msg": fmt.Sprint(e)})
			d.st8.Panics++
		}
	}()
	k := d.key(kid)
	st := d.st
	var rec trace.M
	d.atTick(func(now int) {
		rec = trace.M{"k": kid, "now": now}
		switch ty {
		case 'k':
			v, _ := st.KVGet(k)
			ex, _ := st.KVExists(k)
			n, _ := st.StrLen(k)
			rec["ev"] = "obs_k"
			if v == nil {
				rec["get"] = rNil
			} else {
				rec["get"] = d.rBulk(v)
			}
			rec["ex"], rec["len"], rec["ttl"] = ex, n, d.ttlOf('k', k)
		case 'h':
			n, _ := st.HLen(k)
			_, all, _ := st.HGetAll(k)
			_, keys, _ := st.HKeys(k)
			_, vals, _ := st.HValues(k)
			ex, _ := st.HKeyExists(k)
			fv := []interface{}{}
			for _, r := range all {
				fv = append(fv, []interface{}{d.subID(r.Rec.Key), d.syms(r.Rec.Value)})
			}
			ks := []int{}
			for _, r := range keys {
				ks = append(ks, d.subID(r.Rec.Key))
			}
			vs := seqs{}
			for _, r := range vals {
				vs = append(vs, d.syms(r.Rec.Value))
			}
			pt := []interface{}{}
			for s := 1; s <= d.ns; s++ {
				hv, _ := st.HGet(k, d.sub(s))
				hx, _ := st.HExist(k, d.sub(s))
				pt = append(pt, []interface{}{s, b2i(hx), b2i(hv != nil), d.syms(hv)})
			}
			rec["ev"] = "obs_h"
			rec["n"], rec["fv"], rec["keys"], rec["vals"], rec["ex"], rec["pt"], rec["ttl"] = n, fv, ks, vs, ex, pt, d.ttlOf('h', k)
		case 'l':
			n, _ := st.LLen(k)
			all, _ := st.LRange(k, 0, -1)
			ex, _ := st.LKeyExists(k)
			vs := seqs{}
			for _, v := range all {
				vs = append(vs, d.syms(v))
			}
			pt := []interface{}{}
			for i := -int(n) - 1; i <= int(n)+1; i++ {
				v, _ := st.LIndex(k, int64(i))
				pt = append(pt, []interface{}{i, b2i(v != nil), d.syms(v)})
			}
			rec["ev"] = "obs_l"
			rec["n"], rec["all"], rec["ex"], rec["pt"], rec["ttl"] = n, vs, ex, pt, d.ttlOf('l', k)
		case 's':
			n, _ := st.SCard(k)
			ms, _ := st.SMembers(k)
			ex, _ := st.SKeyExists(k)
			ids := []int{}
			for _, m := range ms {
				ids = append(ids, d.subID(m))
			}
			pt := seqs{}
			for s := 1; s <= d.ns; s++ {
				x, _ := st.SIsMember(k, d.sub(s))
				pt = append(pt, []int{s, int(x)})
			}
			rec["ev"] = "obs_s"
			rec["n"], rec["mem"], rec["ex"], rec["pt"], rec["ttl"] = n, ids, ex, pt, d.ttlOf('s', k)
		case 'b':
			cnt, _ := st.BitCountV2(k, 0, -1)
			ex, _ := st.BitKeyExist(k)
			bits := seqs{}
			for _, o := range smBitOffs {
				x, _ := st.BitGetV2(k, bitOff(o))
				bits = append(bits, []int{o, int(x)})
			}
			rec["ev"] = "obs_b"
			rec["cnt"], rec["ex"], rec["bits"], rec["ttl"] = cnt, ex, bits, d.ttlOf('b', k)
		case 'z':
			n, _ := st.ZCard(k)
			rng, _ := st.ZRangeGeneric(k, 0, -1, false)
			rev, _ := st.ZRangeGeneric(k, 0, -1, true)
			bys, _ := st.ZRangeByScoreGeneric(k, common.MinScore, common.MaxScore, 0, -1, false)
			lex, _ := st.ZRangeByLex(k, nil, nil, common.RangeClose, 0, -1)
			cnt, _ := st.ZCount(k, common.MinScore, common.MaxScore)
			lcnt, _ := st.ZLexCount(k, nil, nil, common.RangeClose)
			ex, _ := st.ZKeyExists(k)
			pairs := func(ps []common.ScorePair) seqs {
				o := seqs{}
				for _, p := range ps {
					o = append(o, []int{d.subID(p.Member), scoreHalf(p.Score)})
				}
				return o
			}
			lx := []int{}
			for _, m := range lex {
				lx = append(lx, d.subID(m))
			}
			pt := seqs{}
			for s := 1; s <= d.ns; s++ {
				sc, err := st.ZScore(k, d.sub(s))
				rk, _ := st.ZRank(k, d.sub(s))
				rr, _ := st.ZRevRank(k, d.sub(s))
				if err != nil {
					pt = append(pt, []int{s, 0, 0, int(rk), int(rr)})
				} else {
					pt = append(pt, []int{s, 1, scoreHalf(sc), int(rk), int(rr)})
				}
			}
			rec["ev"] = "obs_z"
			rec["n"], rec["rng"], rec["rev"], rec["bys"], rec["lex"], rec["cnt"], rec["lcnt"], rec["ex"], rec["pt"], rec["ttl"] =
				n, pairs(rng), pairs(rev), pairs(bys), lx, cnt, lcnt, ex, pt, d.ttlOf('z', k)
		}
	})
	d.emit(rec)
	d.st8.Obs++
}

func (d *smDrv) observeAll() {
	for k := 1; k <= d.nk; k++ {
		for _, ty := range []byte("khlszb") {
			d.observe(ty, k)
		}
	}
}

func (d *smDrv) emit(m trace.M) {
	d.tw.Emit(m)
	d.st8.Events++
}

// ---------------------------------------------------------------- steering (avoid constraints of recorded findings)

var smDT = map[byte]byte{'b': rockredis.BitmapType, 'k': rockredis.KVType, 'h': rockredis.HashType, 'l': rockredis.ListType, 's': rockredis.SetType, 'z': rockredis.ZSetType}

// raw stored expiry second of a key (0 none) - used only to steer generation and to count antecedents
func (d *smDrv) rawExp(ty byte, kid int) (exists bool, exp int64) {
	ex, e, _, err := d.st.VerifDBRawMeta(smDT[ty], d.key(kid))
	if err != nil {
		return false, 0
	}
	return ex, e
}

// should the generated command be left out (trigger of a recorded, unrepaired finding) ?
func (d *smDrv) avoided(c *smCmd, ts int64) bool {
	ty := smTypeOf(c.C)
	if d.avoid["dead"][c.C] || d.avoid["clock"][c.C] {
		for _, kid := range smKeysOf(c) {
			ex, exp := d.rawExp(ty, kid)
			if !ex || exp == 0 {
				continue
			}
			deadLog := exp <= ts/1e9
			deadWall := exp <= time.Now().Unix()
			if d.avoid["dead"][c.C] && deadLog {
				return true
			}
			if d.avoid["clock"][c.C] && deadLog != deadWall {
				return true
			}
		}
	}
	if d.avoid["always"][c.C] {
		return true
	}
	if d.avoid["emptyval"][c.C] {
		vi := 0
		if c.C == "setrange" {
			vi = 1
		}
		if len(smValTab[c.A[vi]-1]) == 0 {
			return true
		}
	}
	return false
}

// ---------------------------------------------------------------- executing a script

func (d *smDrv) reset() {
	if _, err := d.st.VerifDBWipe(); err != nil {
		panic(err)
	}
	d.seg++
	d.tw = d.tws[d.seg%len(d.tws)]
	d.usedNs = map[int64]bool{}
	d.nwrite = 0
	d.emit(trace.M{"ev": "reset", "vals": smValTab})
	d.st8.Segments++
}

// run executes one group of commands (a single raft batch entry if len > 1)
func (d *smDrv) run(group []*smCmd, rest []*smCmd) {
	// background events and reads are never grouped
	c := group[0]
	switch c.Ev {
	case "scan":
		d.scan()
		return
	case "compact":
		d.compact(rest)
		return
	}
	if smReadCmds[c.C] {
		var r []int
		var now int
		d.atTick(func(n int) { now = n; r = d.read(c) })
		d.emit(trace.M{"ev": "cmd", "c": c.C, "k": c.K, "a": nzi(c.A), "t": 0, "now": now, "p": 0, "r": r})
		d.st8.Cmds++
		d.st8.Reads++
		d.st8.PerCmd[c.C]++
		if ex, exp := d.rawExp(smTypeOf(c.C), c.K); ex && exp != 0 {
			d.st8.ExpiryMetByRead++
		}
		return
	}
	reqs := make([]smReq, 0, len(group))
	kept := make([]*smCmd, 0, len(group))
	tss := []int64{}
	for _, g := range group {
		ts := d.ts(g)
		if d.avoided(g, ts) {
			d.st8.Avoided++
			continue
		}
		for _, kid := range smKeysOf(g) {
			if ex, exp := d.rawExp(smTypeOf(g.C), kid); ex && exp != 0 {
				d.st8.ExpiryMetByWrite++
				if exp <= ts/1e9 {
					d.st8.DeadMetByWrite++
				}
			}
		}
		reqs = append(reqs, smReq{d.writeArgs(g), ts})
		kept = append(kept, g)
		tss = append(tss, ts)
	}
	if len(reqs) == 0 {
		return
	}
	res := d.applyGroup(reqs)
	now := d.nowTick()
	touched := map[string]bool{}
	for i, g := range kept {
		r := smFixNilOk(g, d.writeReply(g, res[i]))
		if len(r) == 1 && r[0] == -7 {
			d.st8.Panics++
			d.emit(trace.M{"ev": "panic", "where": g.C, "c": g.C, "k": g.K, "a": nzi(g.A), "msg": fmt.Sprint(res[i])})
		} else {
			if len(r) == 1 && r[0] == 4 {
				d.st8.Errors++
			}
			d.emit(trace.M{"ev": "cmd", "c": g.C, "k": g.K, "a": nzi(g.A), "t": g.T, "now": now, "p": g.P, "r": r, "ns": tss[i] - d.tickSec(g.T)*1e9, "g": g.G})
		}
		d.st8.Cmds++
		d.st8.Writes++
		d.st8.PerCmd[g.C]++
		for _, kid := range smKeysOf(g) {
			touched[string([]byte{smTypeOf(g.C)})+strconv.Itoa(kid)] = true
			if g.C == "setbit" {
				touched["k"+strconv.Itoa(kid)] = true // SETBIT may adopt (and remove) the legacy string under the key
			}
		}
	}
	d.nwrite++
	if d.obsAll > 0 && d.nwrite%d.obsAll == 0 {
		d.observeAll()
		return
	}
	tk := make([]string, 0, len(touched))
	for k := range touched {
		tk = append(tk, k)
	}
	sort.Strings(tk)
	for _, k := range tk {
		kid, _ := strconv.Atoi(k[1:])
		d.observe(k[0], kid)
	}
}

func smFailingBatchable(c *smCmd) bool {
	return (c.C == "setex" && c.A[0] <= 0) || (c.C == "hmset" && (c.A[0] == smOverLong || c.A[2] == smOverLong))
}

func smHexs(ss []string) []string {
	out := make([]string, len(ss))
	for i, s := range ss {
		out[i] = fmt.Sprintf("%x", s)
	}
	return out
}

func nzi(a []int) []int {
	if a == nil {
		return []int{}
	}
	return a
}

// presence of every (type, key) through the read API
func (d *smDrv) presence() map[string]bool {
	p := map[string]bool{}
	for k := 1; k <= d.nk; k++ {
		key := d.key(k)
		n, _ := d.st.KVExists(key)
		p["k"+strconv.Itoa(k)] = n > 0
		n, _ = d.st.HKeyExists(key)
		p["h"+strconv.Itoa(k)] = n > 0
		n, _ = d.st.LKeyExists(key)
		p["l"+strconv.Itoa(k)] = n > 0
		n, _ = d.st.SKeyExists(key)
		p["s"+strconv.Itoa(k)] = n > 0
		n, _ = d.st.ZKeyExists(key)
		p["z"+strconv.Itoa(k)] = n > 0
		if ex, _ := d.rawExp('b', k); ex {
			p["b"+strconv.Itoa(k)] = true
		}
	}
	return p
}

// one pass of the local-deletion scanner; logs what disappeared
func (d *smDrv) scan() {
	if d.policy != "ld" {
		return
	}
	before := d.presence()
	n0 := d.nowTick()
	err := d.st.VerifDBLocalExpireScan()
	n1 := d.nowTick()
	after := d.presence()
	if err != nil || n0 != n1 {
		// cannot be described by one clock tick: end the segment here
		d.reset()
		return
	}
	gone := []interface{}{}
	keys := make([]string, 0)
	for k, b := range before {
		if b && !after[k] {
			keys = append(keys, k)
		}
	}
	sort.Strings(keys)
	for _, k := range keys {
		kid, _ := strconv.Atoi(k[1:])
		gone = append(gone, []interface{}{k[:1], kid})
	}
	d.emit(trace.M{"ev": "scan", "now": n0, "gone": gone})
	d.st8.Scans++
	d.st8.ScanGone += len(gone)
	d.observeAll()
}

// simulated compaction: apply the compaction filter's decision to every stored pair, with the
// filter's clock at (lazy window) + the earliest log tick any remaining command still uses, so
// that everything dropped is dead for every command still to come (and for the readers, whose
// clock is never behind the log clock in these runs)
func (d *smDrv) compact(rest []*smCmd) {
	if d.policy != "wc" {
		return
	}
	tmin := -1
	for _, c := range rest {
		if c.Ev == "cmd" && !smReadCmds[c.C] && (tmin < 0 || c.T < tmin) {
			tmin = c.T
		}
	}
	if nt := d.nowTick(); tmin < 0 || nt < tmin {
		tmin = nt
	}
	cnow := d.tickSec(tmin) + d.lazySec
	dropped, err := d.st.VerifDBSimCompact(cnow)
	if err != nil {
		d.emit(trace.M{"ev": "panic", "where": "compact", "msg": err.Error()})
		return
	}
	d.emit(trace.M{"ev": "compact", "tmin": tmin, "dropped": len(dropped)})
	d.st8.Compactions++
	d.st8.Dropped += len(dropped)
	d.observeAll()
}


// ---------------------------------------------------------------- big collections (spec/ZBigTrace.tla)

func bigMember(i int) []byte { return []byte(fmt.Sprintf("m%05d", i)) }
func bigIndex(b []byte) int {
	s := string(b)
	if strings.HasPrefix(s, "m") {
		s = s[1:]
	}
	n, err := strconv.Atoi(s)
	if err != nil {
		return -9
	}
	return n
}

// one command through the apply path with a fresh unique timestamp in tick t
func (d *smDrv) bigApply(t int, args ...[]byte) interface{} {
	c := &smCmd{C: "big", T: t, P: 0}
	return d.applyGroup([]smReq{{args, d.ts(c)}})[0]
}

func bigInt(v interface{}) int {
	switch x := v.(type) {
	case int64:
		return int(x)
	case int:
		return x
	case nil:
		return -1
	case string:
		if x == "OK" {
			return 0
		}
	case []byte:
		if x == nil {
			return -1
		}
		return bigIndex(x)
	case error:
		return -4
	case smPanic:
		return -7
	}
	return -3
}

func (d *smDrv) bigFill(ty byte, k []byte, from, to int) {
	const chunk = 400
	for a := from; a <= to; a += chunk {
		b := a + chunk - 1
		if b > to {
			b = to
		}
		var args [][]byte
		switch ty {
		case 'l':
			args = [][]byte{[]byte("rpush"), k}
			for i := a; i <= b; i++ {
				args = append(args, []byte(strconv.Itoa(i)))
			}
		case 's':
			args = [][]byte{[]byte("sadd"), k}
			for i := a; i <= b; i++ {
				args = append(args, bigMember(i))
			}
		case 'z':
			args = [][]byte{[]byte("zadd"), k}
			for i := a; i <= b; i++ {
				args = append(args, []byte(strconv.Itoa(i)), bigMember(i))
			}
		case 'h':
			args = [][]byte{[]byte("hmset"), k}
			for i := a; i <= b; i++ {
				args = append(args, bigMember(i), []byte(strconv.Itoa(i)))
			}
		}
		r := bigInt(d.bigApply(0, args...))
		if ty == 'h' && r == -1 {
			r = -1
		}
		d.emit(trace.M{"ev": "bfill", "ty": string([]byte{ty}), "k": 1, "from": a, "to": b, "r": r})
		d.st8.Cmds++
		d.st8.Writes++
	}
}

// bigFillHead puts the elements from..to in FRONT of a list (LPUSH to, to-1, ..., from)
func (d *smDrv) bigFillHead(k []byte, from, to int) {
	const chunk = 400
	for b := to; b >= from; b -= chunk {
		a := b - chunk + 1
		if a < from {
			a = from
		}
		args := [][]byte{[]byte("lpush"), k}
		for i := b; i >= a; i-- {
			args = append(args, []byte(strconv.Itoa(i)))
		}
		r := bigInt(d.bigApply(0, args...))
		d.emit(trace.M{"ev": "bfill", "ty": "l", "k": 1, "from": a, "to": b, "r": r})
		d.st8.Cmds++
		d.st8.Writes++
	}
}

func (d *smDrv) bigOp(ty byte, k []byte, op string, a []int, args ...[]byte) {
	r := bigInt(d.bigApply(1, args...))
	if op == "ltrim" && r == -1 {
		r = 0 // the handler answers nil, the leader-side wrapper makes it OK
	}
	d.emit(trace.M{"ev": "bop", "ty": string([]byte{ty}), "k": 1, "op": op, "a": nzi(a), "r": r})
	d.st8.Cmds++
	d.st8.Writes++
	d.st8.PerCmd["big-"+op]++
}

// counts-only observation of a (possibly huge) collection
func (d *smDrv) bigObs(ty byte, k []byte, n0 int) {
	st := d.st
	cnts := []int{}
	var n, ex int64
	first, last := -1, -1
	pt := seqs{}
	probe := []int{0, 1, 50, 99, 100, 101, 5099, 5100, 5101, n0 - 1, n0, n0 + 1}
	const page = 1000
	switch ty {
	case 'l':
		n, _ = st.LLen(k)
		ex, _ = st.LKeyExists(k)
		total := 0
		for off := int64(0); off < n+page; off += page {
			vs, err := st.LRange(k, off, off+page-1)
			if err != nil {
				total = -4
				break
			}
			total += len(vs)
		}
		cnts = append(cnts, total)
		if n <= 4000 {
			vs, _ := st.LRange(k, 0, -1)
			cnts = append(cnts, len(vs))
		}
		if v, _ := st.LIndex(k, 0); v != nil {
			first = bigIndex(v)
		}
		if v, _ := st.LIndex(k, -1); v != nil {
			last = bigIndex(v)
		}
		// point lookups by position: element number = first + position
		for _, p := range probe {
			if first >= 0 && p >= first {
				v, _ := st.LIndex(k, int64(p-first))
				f := 0
				if v != nil && bigIndex(v) == p {
					f = 1
				}
				pt = append(pt, []int{p, f})
			}
		}
	case 'h':
		n, _ = st.HLen(k)
		ex, _ = st.HKeyExists(k)
		if n <= 4000 {
			_, all, _ := st.HGetAll(k)
			_, ks, _ := st.HKeys(k)
			_, vs, _ := st.HValues(k)
			cnts = append(cnts, len(all), len(ks), len(vs))
			if len(ks) > 0 {
				first, last = bigIndex(ks[0].Rec.Key), bigIndex(ks[len(ks)-1].Rec.Key)
			}
		} else {
			first, last = -2, -2
		}
		for _, p := range probe {
			v, _ := st.HGet(k, bigMember(p))
			pt = append(pt, []int{p, int(b2i(v != nil))})
		}
	case 's':
		n, _ = st.SCard(k)
		ex, _ = st.SKeyExists(k)
		if n <= 4000 {
			ms, _ := st.SMembers(k)
			cnts = append(cnts, len(ms))
			if len(ms) > 0 {
				first, last = bigIndex(ms[0]), bigIndex(ms[len(ms)-1])
			}
		} else {
			first, last = -2, -2
		}
		for _, p := range probe {
			x, _ := st.SIsMember(k, bigMember(p))
			pt = append(pt, []int{p, int(x)})
		}
	case 'z':
		n, _ = st.ZCard(k)
		ex, _ = st.ZKeyExists(k)
		total := 0
		for off := 0; int64(off) < n+page; off += page {
			ps, err := st.ZRangeGeneric(k, off, off+page-1, false)
			if err != nil {
				total = -4
				break
			}
			total += len(ps)
		}
		cnts = append(cnts, total)
		c1, _ := st.ZCount(k, common.MinScore, common.MaxScore)
		c2, _ := st.ZLexCount(k, nil, nil, common.RangeClose)
		cnts = append(cnts, int(c1), int(c2))
		if n <= 4000 {
			a, _ := st.ZRangeGeneric(k, 0, -1, false)
			b, _ := st.ZRangeByScoreGeneric(k, common.MinScore, common.MaxScore, 0, -1, false)
			c, _ := st.ZRangeByLex(k, nil, nil, common.RangeClose, 0, -1)
			cnts = append(cnts, len(a), len(b), len(c))
		}
		if ps, _ := st.ZRangeGeneric(k, 0, 0, false); len(ps) == 1 {
			first = bigIndex(ps[0].Member)
		}
		if ps, _ := st.ZRangeGeneric(k, -1, -1, false); len(ps) == 1 {
			last = bigIndex(ps[0].Member)
		}
		for _, p := range probe {
			_, err := st.ZScore(k, bigMember(p))
			pt = append(pt, []int{p, int(b2i(err == nil))})
		}
	}
	d.emit(trace.M{"ev": "bobs", "ty": string([]byte{ty}), "k": 1, "n": n, "cnts": cnts, "ex": ex, "first": first, "last": last, "pt": pt})
	d.st8.Obs++
}

// the scenarios: every one crosses the 5000-element thresholds in a different command
func (d *smDrv) bigRun(n int) {
	k := d.key(1)
	it := func(x int) []byte { return []byte(strconv.Itoa(x)) }
	b := func(x string) []byte { return []byte(x) }
	seg := func(ty byte, f func()) {
		if _, err := d.st.VerifDBWipe(); err != nil {
			panic(err)
		}
		d.usedNs = map[int64]bool{}
		d.emit(trace.M{"ev": "reset"})
		d.st8.Segments++
		func() {
			defer func() {
				if e := recover(); e != nil {
					d.emit(trace.M{"ev": "panic", "msg": fmt.Sprint(e)})
					d.st8.Panics++
				}
			}()
			d.bigFill(ty, k, 0, n-1)
			d.bigObs(ty, k, n)
			if ty == 'l' || ty == 'z' {
				// the repair command on a healthy big collection
				d.bigOp(ty, k, "fix", nil, []byte(string([]byte{ty})+"fixkey"), k)
				d.bigObs(ty, k, n)
			}
			f()
			if ty == 'l' || ty == 'z' {
				d.bigOp(ty, k, "fix", nil, []byte(string([]byte{ty})+"fixkey"), k)
				d.bigObs(ty, k, n)
			}
		}()
	}
	// lists
	seg('l', func() {
		d.bigOp('l', k, "ltrim", []int{0, 99}, b("ltrim"), k, it(0), it(99)) // cuts > 5000 off the tail
		d.bigObs('l', k, n)
		d.bigFill('l', k, 100, n+9) // grow again past the old tail
		d.bigObs('l', k, n)
		d.bigOp('l', k, "rpop", nil, b("rpop"), k)
		d.bigOp('l', k, "lpop", nil, b("lpop"), k)
		d.bigObs('l', k, n)
	})
	seg('l', func() {
		d.bigOp('l', k, "ltrim", []int{n - 100, -1}, b("ltrim"), k, it(n-100), it(-1)) // cuts > 5000 off the head
		d.bigObs('l', k, n)
		d.bigOp('l', k, "lpop", nil, b("lpop"), k)
		d.bigObs('l', k, n)
	})
	seg('l', func() {
		d.bigOp('l', k, "ltrim", []int{50, n - 51}, b("ltrim"), k, it(50), it(n-51)) // small cuts on both sides
		d.bigObs('l', k, n)
		d.bigOp('l', k, "ltrim", []int{-n, 4999}, b("ltrim"), k, it(-n), it(4999))
		d.bigObs('l', k, n)
	})
	seg('l', func() {
		d.bigOp('l', k, "clear", nil, b("lclear"), k)
		d.bigObs('l', k, n)
		d.bigFill('l', k, 0, 9)
		d.bigObs('l', k, n)
		d.bigOp('l', k, "clear", nil, b("lclear"), k)
		d.bigOp('l', k, "clear", nil, b("lclear"), k)
		d.bigObs('l', k, n)
	})
	// cuts of 4999 / 5000 / 5001 elements (both sides of RangeDeleteNum) off the tail and off the head, then the
	// list grows again PAST its old extent on that side (a leftover element shows as a failing push)
	for _, c := range []int{4999, 5000, 5001} {
		c := c
		seg('l', func() {
			d.bigOp('l', k, "ltrim", []int{0, n - 1 - c}, b("ltrim"), k, it(0), it(n-1-c))
			d.bigObs('l', k, n)
			d.bigFill('l', k, n-c, n+4)
			d.bigObs('l', k, n)
		})
		seg('l', func() {
			d.bigOp('l', k, "ltrim", []int{c, -1}, b("ltrim"), k, it(c), it(-1))
			d.bigObs('l', k, n)
			d.bigFillHead(k, -5, c-1)
			d.bigObs('l', k, n)
		})
		seg('z', func() {
			d.bigOp('z', k, "zremscore", []int{n - c, n + 10}, b("zremrangebyscore"), k, it(n-c), it(n+10))
			d.bigObs('z', k, n)
			d.bigFill('z', k, n-c, n+4)
			d.bigObs('z', k, n)
		})
		seg('z', func() {
			d.bigOp('z', k, "zremlex", []int{0, c - 1}, b("zremrangebylex"), k, append(b("["), bigMember(0)...), append(b("["), bigMember(c-1)...))
			d.bigObs('z', k, n)
		})
	}
	// hash / set / zset clears and re-creation
	for _, ty := range []byte("hsz") {
		ty := ty
		seg(ty, func() {
			d.bigOp(ty, k, "clear", nil, b(string([]byte{ty})+"clear"), k)
			d.bigObs(ty, k, n)
			d.bigFill(ty, k, n+800, n+809) // elements the old generation did not have: the old ones must stay gone
			d.bigObs(ty, k, n)
			d.bigOp(ty, k, "clear", nil, b(string([]byte{ty})+"clear"), k)
			d.bigFill(ty, k, 0, 9) // elements the first generation had
			d.bigObs(ty, k, n)
		})
	}
	// zset range removals
	seg('z', func() {
		// at most MAX_BATCH_NUM (5000) elements may be removed by rank in one command
		d.bigOp('z', k, "zremrank", []int{0, 4999}, b("zremrangebyrank"), k, it(0), it(4999))
		d.bigObs('z', k, n)
		d.bigOp('z', k, "zremrank", []int{-150, -1}, b("zremrangebyrank"), k, it(-150), it(-1))
		d.bigObs('z', k, n)
	})
	seg('z', func() {
		d.bigOp('z', k, "zremrank", []int{n - 5000, -1}, b("zremrangebyrank"), k, it(n-5000), it(-1))
		d.bigObs('z', k, n)
		d.bigOp('z', k, "zremrank", []int{0, -1}, b("zremrangebyrank"), k, it(0), it(-1))
		d.bigObs('z', k, n)
	})
	seg('z', func() {
		d.bigOp('z', k, "zremscore", []int{100, n + 10}, b("zremrangebyscore"), k, it(100), it(n+10))
		d.bigObs('z', k, n)
		d.bigOp('z', k, "zremscore", []int{-5, 49}, b("zremrangebyscore"), k, it(-5), it(49))
		d.bigObs('z', k, n)
	})
	seg('z', func() {
		d.bigOp('z', k, "zremlex", []int{0, n - 101}, b("zremrangebylex"), k, append(b("["), bigMember(0)...), append(b("["), bigMember(n-101)...))
		d.bigObs('z', k, n)
		d.bigOp('z', k, "zremscore", []int{0, n}, b("zremrangebyscore"), k, b("-inf"), b("+inf"))
		d.bigObs('z', k, n)
	})
}

// ---------------------------------------------------------------- generators

type smGen struct {
	only   []string // if set: choose uniformly among these command names
	overlong bool   // now and then name an over-long field/member
	bitranges bool  // BITCOUNT with arbitrary byte ranges
	extreme  bool   // numeric extremes: symbolic score classes, int64 min/max indexes
	rng    *rand.Rand
	nk, ns int
	types  string
	dup    bool
	expiry bool
	window int // > 0: ticks uniform in 0..window-1 ; 0: advancing clock
	clock  int
	maxT   int
}

func (g *smGen) tick() int {
	if g.window > 0 {
		return g.rng.Intn(g.window)
	}
	switch x := g.rng.Intn(100); {
	case x < 55:
	case x < 80:
		g.clock++
	case x < 88:
		g.clock += 2
	case x < 97:
		g.clock--
	default:
		g.clock -= 2
	}
	if g.clock < 0 {
		g.clock = 0
	}
	if g.clock > g.maxT {
		g.clock = g.maxT
	}
	return g.clock
}

func (g *smGen) two(n int) (int, int) {
	a, b := 1+g.rng.Intn(n), 1+g.rng.Intn(n)
	for !g.dup && a == b && n > 1 {
		b = 1 + g.rng.Intn(n)
	}
	return a, b
}

func (g *smGen) iv(vals []int) []int {
	lk, hk := g.rng.Intn(3), g.rng.Intn(3)
	return []int{vals[g.rng.Intn(len(vals))], lk, vals[g.rng.Intn(len(vals))], hk}
}

var smGenCmds = map[byte][]string{
	'k': strings.Fields("set set setnx getset append append incr incrby setrange del del2 mset setx get get strlen exists exists2 mget getrange"),
	'h': strings.Fields("hset hset hset hsetnx hmset hdel hdel2 hincrby hclear hget hmget hexists hlen hgetall hkeys hvals hkeyexist"),
	'l': strings.Fields("lfixkey lpush lpush2 rpush rpush2 lpop rpop lset ltrim lclear llen lindex lrange lkeyexist"),
	's': strings.Fields("sadd sadd sadd2 sadd2 srem srem2 spop spopn sclear scard sismember smembers srandmember skeyexist"),
	'z': strings.Fields("zfixkey zfixkey zadd zadd zadd2 zadd2 zincrby zrem zrem2 zremrangebyrank zremrangebyscore zremrangebylex zclear zcard zscore zrank zrevrank zrange zrevrange zrangebyscore zrevrangebyscore zcount zrangebylex zlexcount zkeyexist zrangebyscorel zrevrangebyscorel zrangebylexl zrangebyscorel zrevrangebyscorel"),
}
func init() {
	// no string commands on bitmap keys in the general corpus: the legacy string -> bitmap conversion is
	// broken (recorded findings kv-bitmap-legacy-conversion-*); scripts exercise it (isolate stage)
	smGenCmds['b'] = strings.Fields("setbit setbit setbit setbit bitclear getbit getbit bitcount bitcount2 bkeyexist")
	smGenExpCmds['b'] = strings.Fields("bexpire bexpire bpersist bttl")
}

var smGenExpCmds = map[byte][]string{
	'k': strings.Fields("setex expire expire persist ttl setx"),
	'h': strings.Fields("hexpire hexpire hpersist httl"),
	'l': strings.Fields("lexpire lexpire lpersist lttl"),
	's': strings.Fields("sexpire sexpire spersist sttl"),
	'z': strings.Fields("zexpire zexpire zpersist zttl"),
}

func (g *smGen) next() *smCmd {
	r := g.rng
	ty := g.types[r.Intn(len(g.types))]
	list := smGenCmds[ty]
	if g.expiry && r.Intn(100) < 25 {
		list = smGenExpCmds[ty]
	}
	name := list[r.Intn(len(list))]
	if len(g.only) > 0 {
		name = g.only[r.Intn(len(g.only))]
	}
	c := &smCmd{Ev: "cmd", C: name, K: 1 + r.Intn(g.nk), P: r.Intn(4)}
	if r.Intn(4) == 0 {
		c.P = 4 + r.Intn(1000)
	}
	vid := func() int { return 1 + r.Intn(smGenVals) }
	sub := func() int { return 1 + r.Intn(g.ns) }
	idx := func() int {
		if r.Intn(12) == 0 {
			if g.extreme {
				return []int{-100, 100, 2000000000, -2000000000}[r.Intn(4)]
			}
			return []int{-100, 100}[r.Intn(2)]
		}
		return r.Intn(11) - 5
	}
	dur := func() int { return 1 + r.Intn(3) }
	scores := []int{-3, 0, 1, 2, 3, 4, 7}
	bounds := scores
	if g.extreme {
		// numeric extremes as symbolic classes (ZKV.tla Ord): tiny, 9e18, 2^63, 1e19, infinity, -0
		scores = append(scores, scTiny, -scTiny, sc9e18, -sc9e18, sc2p63, -sc2p63, sc1e19, -sc1e19, scInf, -scInf, scNegZero)
		bounds = append(append([]int{}, scores[:7]...), scTiny, -scTiny, sc9e18, -sc9e18, sc2p63, -sc2p63, sc1e19, -sc1e19)
	}
	if !smReadCmds[name] {
		c.T = g.tick()
	}
	switch name {
	case "setbit":
		c.A = []int{smBitOffs[r.Intn(len(smBitOffs))], r.Intn(2)}
		if r.Intn(25) == 0 {
			c.A[0] = []int{-1, 2000000001}[r.Intn(2)] // refused offsets
		}
	case "getbit":
		c.A = []int{smBitOffs[r.Intn(len(smBitOffs))]}
	case "bitcount2":
		if g.bitranges {
			c.A = []int{[]int{0, 1, 1023, 1024, 1025, 2047}[r.Intn(6)], []int{-1, 0, 1, 1023, 1024, 2047, 5000}[r.Intn(7)]}
		} else {
			// segment-aligned starts and an open end only (recorded finding kv-bitcount-range)
			c.A = []int{[]int{0, 1024, 2048}[r.Intn(3)], -1}
		}
	case "bexpire":
		c.A = []int{dur()}
	case "set", "setnx", "getset", "append", "lpush", "rpush":
		c.A = []int{vid()}
	case "setx":
		d := 0
		if g.expiry && r.Intn(2) == 0 {
			d = dur()
		}
		c.A = []int{vid(), d, r.Intn(3)}
	case "setex":
		c.A = []int{dur(), vid()}
		if r.Intn(15) == 0 {
			c.A[0] = 0 // invalid duration: an error that changes nothing
		}
	case "mset":
		a, b := g.two(g.nk)
		c.K = a
		c.A = []int{vid(), b, vid()}
	case "exists2", "mget":
		c.A = []int{1 + r.Intn(g.nk)}
	case "del2":
		a, b := g.two(g.nk)
		c.K = a
		c.A = []int{b}
	case "incrby":
		c.A = []int{[]int{1, -1, 5, -7, 40, 0}[r.Intn(6)]}
	case "setrange":
		c.A = []int{r.Intn(4), vid()}
	case "getrange", "lrange", "ltrim", "zrange", "zrevrange", "zremrangebyrank":
		c.A = []int{idx(), idx()}
		if name[0] == 'z' {
			// rank ranges whose nominal length exceeds the documented batch limit (5000) answer an error by
			// design (user guide); the int64 extremes are for strings and lists only
			for i := range c.A {
				if c.A[i] > 1000 {
					c.A[i] = 100
				} else if c.A[i] < -1000 {
					c.A[i] = -100
				}
			}
		}
		if r.Intn(10) == 0 {
			c.A = [][]int{{0, -1}, {0, 100}, {-100, -1}, {1, 0}, {2, 2}}[r.Intn(5)] // whole range, empty range, one element
		}
	case "expire", "hexpire", "lexpire", "sexpire", "zexpire":
		c.A = []int{dur()}
		if r.Intn(6) == 0 {
			// a duration <= 0 (Redis: the key is gone at once); the instant stays after tick 0 (ZKV!PastOut)
			if d := -r.Intn(2); c.T+d >= 1 {
				c.A[0] = d
			}
		}
	case "hset", "hsetnx":
		c.A = []int{sub(), vid()}
	case "hmset":
		a, b := g.two(g.ns)
		c.A = []int{a, vid(), b, vid()}
	case "hdel", "hget", "hexists", "sadd", "srem", "sismember", "zrem", "zscore", "zrank", "zrevrank":
		c.A = []int{sub()}
	case "hdel2", "hmget", "sadd2", "srem2", "zrem2":
		a, b := g.two(g.ns)
		if name == "hmget" {
			b = sub()
		}
		c.A = []int{a, b}
	case "hincrby":
		c.A = []int{sub(), []int{1, -1, 5, 40, 0}[r.Intn(5)]}
	case "lpush2", "rpush2":
		c.A = []int{vid(), vid()}
	case "lindex":
		c.A = []int{idx()}
	case "lset":
		c.A = []int{idx(), vid()}
	case "spopn", "srandmember":
		c.A = []int{1 + r.Intn(3)}
	case "zadd":
		c.A = []int{scores[r.Intn(len(scores))], sub()}
	case "zadd2":
		a, b := g.two(g.ns)
		c.A = []int{scores[r.Intn(len(scores))], a, scores[r.Intn(len(scores))], b}
	case "zincrby":
		c.A = []int{[]int{1, 2, -1, 3, 0}[r.Intn(5)], sub()}
	case "zrangebyscore", "zrevrangebyscore", "zcount", "zremrangebyscore":
		c.A = g.iv(bounds)
	case "zrangebyscorel", "zrevrangebyscorel":
		// LIMIT offset count: every small offset, negative / zero / small / large counts
		c.A = append(g.iv(bounds), []int{0, 0, 1, 1, 2, 3, -1}[r.Intn(7)], []int{-1, -1, -5, 0, 1, 2, 100}[r.Intn(7)])
	case "zrangebylexl":
		ids := []int{}
		for i := 1; i <= g.ns; i++ {
			ids = append(ids, i)
		}
		c.A = append(g.iv(ids), []int{0, 0, 1, 1, 2, 3, -1}[r.Intn(7)], []int{-1, -1, -5, 0, 1, 2, 100}[r.Intn(7)])
	case "zrangebylex", "zlexcount", "zremrangebylex":
		ids := []int{}
		for i := 1; i <= g.ns; i++ {
			ids = append(ids, i)
		}
		c.A = g.iv(ids)
	}
	// a field/member name longer than the store accepts, also AFTER a valid one: the command must
	// fail as a whole (the valid part may already be staged in the write batch)
	if g.overlong && r.Intn(100) < 4 {
		switch name {
		case "hdel2", "sadd2", "srem2", "zrem2":
			if r.Intn(4) == 0 {
				c.A[0] = smOverLong
			} else {
				c.A[1] = smOverLong
			}
		case "hmset":
			c.A[2] = smOverLong
		case "zadd2":
			c.A[3] = smOverLong
		case "hset", "hsetnx", "hdel", "hincrby", "sadd", "srem", "zrem":
			c.A[0] = smOverLong
		case "zadd", "zincrby":
			c.A[1] = smOverLong
		}
	}
	return c
}

// ---------------------------------------------------------------- graph labels

// the product of read commands fired on the first visit of a graph state (per type)
func smReadProduct(ty byte, nk, ns int) []*smCmd {
	var out []*smCmd
	add := func(name string, k int, a ...int) { out = append(out, &smCmd{Ev: "cmd", C: name, K: k, A: a}) }
	zivs := [][]int{{0, 2, 0, 2}, {2, 0, 3, 0}, {2, 1, 3, 0}, {2, 0, 3, 1}, {3, 0, 2, 0}, {2, 1, 0, 2}, {3, 1, 0, 2}, {0, 2, 3, 1}}
	for k := 1; k <= nk; k++ {
		switch ty {
		case 'k':
			add("get", k)
			add("strlen", k)
			add("exists", k)
			add("ttl", k)
			for k2 := 1; k2 <= nk; k2++ {
				add("exists2", k, k2)
				add("mget", k, k2)
			}
			for _, s := range []int{-3, -1, 0, 1, 2} {
				for _, e := range []int{-3, -1, 0, 1, 2} {
					add("getrange", k, s, e)
				}
			}
		case 'h':
			for _, n := range strings.Fields("hlen hgetall hkeys hvals hkeyexist httl") {
				add(n, k)
			}
			for f := 1; f <= ns; f++ {
				add("hget", k, f)
				add("hexists", k, f)
				for g := 1; g <= ns; g++ {
					add("hmget", k, f, g)
				}
			}
		case 'l':
			add("llen", k)
			add("lkeyexist", k)
			add("lttl", k)
			for _, i := range []int{-4, -2, -1, 0, 1, 3} {
				add("lindex", k, i)
				for _, e := range []int{-4, -2, -1, 0, 1, 3} {
					add("lrange", k, i, e)
				}
			}
		case 's':
			for _, n := range strings.Fields("scard smembers skeyexist sttl") {
				add(n, k)
			}
			for m := 1; m <= ns; m++ {
				add("sismember", k, m)
			}
			for _, n := range []int{1, 2, 5} {
				add("srandmember", k, n)
			}
		case 'b':
			for _, n := range strings.Fields("bitcount bkeyexist bttl get") {
				add(n, k)
			}
			for _, o := range []int{0, 7, 8, 8192} {
				add("getbit", k, o)
			}
			for _, s := range []int{0, 1024} {
				add("bitcount2", k, s, -1)
			}
		case 'z':
			for _, n := range strings.Fields("zcard zkeyexist zttl") {
				add(n, k)
			}
			for m := 1; m <= ns; m++ {
				add("zscore", k, m)
				add("zrank", k, m)
				add("zrevrank", k, m)
			}
			for _, s := range []int{-3, -1, 0, 1} {
				for _, e := range []int{-3, -1, 0, 1} {
					add("zrange", k, s, e)
					add("zrevrange", k, s, e)
				}
			}
			for _, iv := range zivs[:3] {
				for _, off := range []int{0, 1, 2} {
					for _, cnt := range []int{-1, 1} {
						a := append(append([]int{}, iv...), off, cnt)
						add("zrangebyscorel", k, a...)
						add("zrevrangebyscorel", k, a...)
					}
				}
			}
			for _, off := range []int{0, 1, 2} {
				for _, cnt := range []int{-1, 1} {
					add("zrangebylexl", k, 0, 2, 0, 2, off, cnt)
				}
			}
			for _, iv := range zivs {
				add("zrangebyscore", k, iv...)
				add("zrevrangebyscore", k, iv...)
				add("zcount", k, iv...)
			}
			for _, iv := range [][]int{{0, 2, 0, 2}, {1, 0, 2, 0}, {1, 1, 2, 0}, {1, 0, 2, 1}, {2, 0, 1, 0}, {1, 1, 0, 2}} {
				add("zrangebylex", k, iv...)
				add("zlexcount", k, iv...)
			}
		}
	}
	return out
}

func smFromLabel(e *graph.Edge, rng *rand.Rand) (*smCmd, error) {
	name := strings.ToLower(e.Name)
	if name == "appendv" {
		name = "append"
	}
	if name == "scan" {
		return &smCmd{Ev: "scan"}, nil
	}
	args := make([]int, len(e.Args))
	for i, a := range e.Args {
		n, err := strconv.Atoi(a)
		if err != nil {
			return nil, fmt.Errorf("label %q: %v", e.Label, err)
		}
		args[i] = n
	}
	if len(args) < 2 {
		return nil, fmt.Errorf("label %q: too few arguments", e.Label)
	}
	c := &smCmd{Ev: "cmd", C: name, K: args[0], A: args[1 : len(args)-1], T: args[len(args)-1], P: rng.Intn(4)}
	if rng.Intn(5) == 0 {
		c.P = 4 + rng.Intn(1000)
	}
	return c, nil
}

// ---------------------------------------------------------------- main

func parseAvoid(s string) map[string]map[string]bool {
	m := map[string]map[string]bool{}
	for _, part := range strings.Split(s, ";") {
		part = strings.TrimSpace(part)
		if part == "" {
			continue
		}
		kv := strings.SplitN(part, ":", 2)
		if len(kv) != 2 {
			continue
		}
		set := map[string]bool{}
		for _, c := range strings.Split(kv[1], ",") {
			set[strings.TrimSpace(c)] = true
		}
		m[kv[0]] = set
	}
	return m
}

func smsim(args []string) error {
	fs := flag.NewFlagSet("smsim", flag.ExitOnError)
	eng := fs.String("eng", "pebble", "mem | pebble")
	policy := fs.String("policy", "wc", "wc (wait_compact) | ld (local deletion)")
	outp := fs.String("o", "t", "output prefix: <o>.<part>.ndjson")
	parts := fs.Int("parts", 4, "number of trace parts")
	seed := fs.Int64("seed", 1, "")
	poolN := fs.Int("pool", 0, "name pool")
	dot := fs.String("dot", "", "TLC dot dump with action labels")
	limit := fs.Int("limit", 0, "graph mode: stop after this many steps (0 = cover every edge)")
	full := fs.Bool("full", true, "graph mode: fire the read product on the first visit of each state")
	gtype := fs.String("gtype", "", "graph mode: type letter of the instance (k h l s z), for the read product")
	nrand := fs.Int("random", 0, "number of random walks")
	wlen := fs.Int("len", 300, "length of a random walk")
	types := fs.String("types", "khlsz", "random mode: type letters")
	expiry := fs.Bool("expiry", true, "random mode: include expiry commands")
	only := fs.String("cmds", "", "random mode: comma separated command names to choose from (default: all of -types)")
	dup := fs.Bool("dup", false, "random mode: allow a command to repeat a field/member/key")
	window := fs.Int("window", 0, "random mode: > 0 = log ticks uniform in 0..window-1, 0 = advancing clock")
	script := fs.String("script", "", "explicit command list (ndjson of smCmd)")
	saveScript := fs.String("savescript", "", "write the executed script here")
	hscale := fs.Int64("hscale", 7200, "real seconds per expiry tick")
	nowtick := fs.Int("nowtick", 2, "place the wall clock in the middle of this tick")
	maxT := fs.Int("maxt", 40, "random mode: last tick of the advancing clock")
	compactP := fs.Int("compact", 0, "percent of steps followed by a simulated compaction (wc)")
	scanP := fs.Int("scan", 0, "percent of steps followed by a local-deletion scan (ld)")
	obsAll := fs.Int("obsall", 10, "observe all keys of all types every this many writes (0 = never)")
	group := fs.Int("group", 1, "random mode: apply up to this many commands on distinct keys as one raft entry batch")
	overlong := fs.Bool("overlong", true, "random mode: now and then a write names an over-long (> 10240 bytes) field/member")
	extreme := fs.Bool("extreme", true, "random mode: numeric extremes (scores +-inf, +-1e19, +-2^63, +-9e18, +-1e-300, -0; indexes int64 min/max)")
	bitranges := fs.Bool("bitranges", false, "random mode: BITCOUNT with arbitrary byte ranges (default: aligned starts, open end)")
	equalNs := fs.Bool("equalns", false, "all commands of a tick carry the same nanosecond timestamp (isolate stage)")
	avoid := fs.String("avoid", "", "avoid constraints: kind:cmd,cmd;kind:cmd  (kinds: dead clock always emptyval)")
	nk := fs.Int("nk", 2, "keys used (<= 4)")
	ns := fs.Int("ns", 2, "fields/members used (<= 4)")
	maxRun := fs.Int("maxrun", 40, "graph mode: reset after this many steps")
	bigIndex := fs.Bool("bigindex", false, "big mode: register a secondary hash index on the table first (other clear / delete paths)")
	bigN := fs.Int("big", 0, "big-collection scenarios with this many elements (spec/ZBigTrace.tla); no other mode")
	fs.Parse(args)

	scratch := os.Getenv("ZR_SCRATCH")
	if scratch == "" {
		return fmt.Errorf("ZR_SCRATCH not set")
	}
	engine.SetLogLevel(0)
	rockredis.SetLogLevel(0)
	node.SetLogger(0, nil)
	rockredis.SetLogger(0, nil)
	rockredis.VerifDBSetLocalExpCheckInterval(1 << 30)
	dir, err := ioutil.TempDir(scratch, "smsim")
	if err != nil {
		return err
	}
	defer os.RemoveAll(dir)
	pol := common.WaitCompact
	if *policy == "ld" {
		pol = common.LocalDeletion
	}
	opts := &node.KVOptions{DataDir: dir, EngType: rockredis.EngType, ExpirationPolicy: pol, DataVersion: common.ValueHeaderV1}
	if *policy == "ld" {
		opts.DataVersion = common.DefaultDataVer
	}
	opts.RockOpts.EngineType = *eng
	opts.RockOpts.DisableWAL = true // no fsync per write; durability is not what this driver looks at
	w := wait.New()
	sm, err := node.NewStateMachine(opts, node.MachineConfig{}, 1, "default-0", nil, w, node.NewSlowLimiter("default-0"))
	if err != nil {
		return err
	}
	defer sm.Close()
	st := node.VerifSMStore(sm)
	if st == nil {
		return fmt.Errorf("no store behind the state machine")
	}
	d := &smDrv{sm: sm, st: st, w: w, batch: sm.GetBatchOperator(), pool: smPools[*poolN%len(smPools)], policy: *policy, eng: *eng,
		nk: *nk, ns: *ns, rng: rand.New(rand.NewSource(*seed)), hscale: *hscale, equalNs: *equalNs, nextID: 100,
		obsAll: *obsAll, avoid: parseAvoid(*avoid), subIdx: map[string]int{}, lazySec: 48 * 3600}
	d.st8.PerCmd = map[string]int{}
	for i, s := range d.pool.subs {
		d.subIdx[s] = i + 1
	}
	// wall clock in the middle of tick `nowtick`
	d.baseSec = time.Now().Unix() - int64(*nowtick)*d.hscale - d.hscale/2
	for i := 0; i < *parts; i++ {
		tw, err := trace.Create(fmt.Sprintf("%s.%d.ndjson", *outp, i))
		if err != nil {
			return err
		}
		d.tws = append(d.tws, tw)
		defer tw.Close()
	}
	d.tw = d.tws[0]

	if *bigN > 0 {
		if *bigIndex {
			table := strings.SplitN(d.pool.keys[0], ":", 2)[0]
			hi := &common.HsetIndexSchema{Name: "verifidx", IndexField: "verif-indexed-field", ValueType: common.StringV, State: common.ReadyIndex}
			if err := d.st.AddHsetIndex(table, hi); err != nil {
				return fmt.Errorf("AddHsetIndex: %v", err)
			}
		}
		d.bigRun(*bigN)
		summary(map[string]interface{}{"driver": "smsim", "mode": "big", "engine": *eng, "policy": *policy, "seed": *seed, "pool": *poolN,
			"edges": 0, "edges_covered": 0, "graph_nodes": 0, "stats": d.st8, "big": *bigN, "parts": *parts})
		return nil
	}
	// ---- build the script: a list of segments
	var segs [][]*smCmd
	mode := ""
	edges, covered, nodes := 0, 0, 0
	var firstVisit [][]int // per segment: indexes after which the read product is fired
	switch {
	case *script != "":
		mode = "script"
		fh, err := os.Open(*script)
		if err != nil {
			return err
		}
		sc := bufio.NewScanner(fh)
		sc.Buffer(make([]byte, 1<<20), 1<<26)
		var cur []*smCmd
		for sc.Scan() {
			line := strings.TrimSpace(sc.Text())
			if line == "" {
				continue
			}
			var c smCmd
			if err := json.Unmarshal([]byte(line), &c); err != nil {
				return err
			}
			if c.Ev == "reset" {
				if cur != nil {
					segs = append(segs, cur)
				}
				cur = []*smCmd{}
				continue
			}
			cur = append(cur, &c)
		}
		fh.Close()
		if cur != nil {
			segs = append(segs, cur)
		}
	case *dot != "":
		mode = "graph"
		g, err := graph.Load(*dot)
		if err != nil {
			return err
		}
		edges, nodes = len(g.Edges), len(g.Labels)
		walk := graph.CoverWalk(g, d.rng, *maxRun, *limit, nil)
		seenE := map[int]bool{}
		seenN := map[int]bool{}
		var cur []*smCmd
		var fv []int
		for _, s := range walk {
			if s.Reset {
				if cur != nil {
					segs = append(segs, cur)
					firstVisit = append(firstVisit, fv)
				}
				cur, fv = []*smCmd{}, nil
				if *full && !seenN[s.Node] {
					seenN[s.Node] = true
					fv = append(fv, -1)
				}
				continue
			}
			c, err := smFromLabel(&g.Edges[s.Edge], d.rng)
			if err != nil {
				return err
			}
			seenE[s.Edge] = true
			cur = append(cur, c)
			if *full && !seenN[s.Node] {
				seenN[s.Node] = true
				fv = append(fv, len(cur)-1)
			}
		}
		if cur != nil {
			segs = append(segs, cur)
			firstVisit = append(firstVisit, fv)
		}
		covered = len(seenE)
	case *nrand > 0:
		mode = "random"
		for i := 0; i < *nrand; i++ {
			g := &smGen{rng: d.rng, nk: *nk, ns: *ns, types: *types, dup: *dup, expiry: *expiry, window: *window, maxT: *maxT, overlong: *overlong, extreme: *extreme, bitranges: *bitranges}
			if *only != "" {
				g.only = strings.Split(*only, ",")
			}
			var cur []*smCmd
			for j := 0; j < *wlen; j++ {
				cur = append(cur, g.next())
				if *compactP > 0 && d.rng.Intn(100) < *compactP {
					cur = append(cur, &smCmd{Ev: "compact"})
				}
				if *scanP > 0 && d.rng.Intn(100) < *scanP {
					cur = append(cur, &smCmd{Ev: "scan"})
				}
			}
			// several consecutive writes (also on the SAME key: the apply loop must cut its write
			// batch before a key is touched twice) form one raft entry batch
			if *group > 1 {
				gid := 0
				for j := 0; j < len(cur); {
					c := cur[j]
					if c.Ev != "cmd" || smReadCmds[c.C] {
						j++
						continue
					}
					want := 1 + d.rng.Intn(*group)
					gid++
					n := 0
					// a batchable write that fails in its handler aborts the whole pending batch, also the
					// earlier commands in it (recorded finding C07-batch-abort-on-apply-error): such a
					// command is applied as an entry of its own
					if smFailingBatchable(c) {
						j++
						continue
					}
					for j < len(cur) && n < want && cur[j].Ev == "cmd" && !smReadCmds[cur[j].C] && !smFailingBatchable(cur[j]) {
						cur[j].G = gid
						j++
						n++
					}
				}
			}
			segs = append(segs, cur)
		}
	default:
		return fmt.Errorf("one of -dot, -random, -script is needed")
	}
	if *saveScript != "" {
		fh, err := os.Create(*saveScript)
		if err != nil {
			return err
		}
		bw := bufio.NewWriter(fh)
		for _, seg := range segs {
			bw.WriteString("{\"ev\":\"reset\"}\n")
			for _, c := range seg {
				b, _ := json.Marshal(c)
				bw.Write(b)
				bw.WriteByte('\n')
			}
		}
		bw.Flush()
		fh.Close()
	}

	// ---- execute
	var product []*smCmd
	if mode == "graph" && *full && *gtype != "" {
		product = smReadProduct((*gtype)[0], *nk, *ns)
	}
	fire := func() {
		for _, rc := range product {
			d.run([]*smCmd{rc}, nil)
		}
	}
	for si, seg := range segs {
		d.reset()
		fvs := map[int]bool{}
		if firstVisit != nil {
			for _, i := range firstVisit[si] {
				fvs[i] = true
			}
		}
		if fvs[-1] {
			fire()
		}
		for i := 0; i < len(seg); {
			c := seg[i]
			grp := []*smCmd{c}
			if c.G != 0 && c.Ev == "cmd" && !smReadCmds[c.C] {
				for j := i + 1; j < len(seg) && seg[j].G == c.G && seg[j].Ev == "cmd" && !smReadCmds[seg[j].C]; j++ {
					grp = append(grp, seg[j])
				}
			}
			d.run(grp, seg[i+len(grp):])
			i += len(grp)
			if fvs[i-1] {
				fire()
			}
		}
		d.observeAll()
	}
	poolhex := map[string][]string{"keys": smHexs(d.pool.keys), "subs": smHexs(d.pool.subs)}
	summary(map[string]interface{}{"driver": "smsim", "mode": mode, "engine": *eng, "policy": *policy, "seed": *seed, "pool": *poolN,
		"poolhex": poolhex, "edges": edges, "edges_covered": covered, "graph_nodes": nodes, "stats": d.st8,
		"hscale": *hscale, "nowtick": *nowtick, "parts": *parts, "dir": filepath.Dir(*outp)})
	return nil
}
