package main

// persistsim: one implementation test per model transition, by direct call.  Ready shapes
// enumerated the way ZPersist!Shapes describes them are handed to the REAL processReady of a
// raftNode built over a real WAL directory, a real snapshotter and the real in-memory raft
// storage (node.VerifOpenPersist: the open / restart half of startRaft without a raft.Node).
// After every call the raft storage is read back; at the end of every sequence the directory
// is reopened the way a restart does and read back again (restart image).  The enumeration is
// prefix closed, so "after every call" holds for the restart image as well.  The driver only
// records; ZPersistTrace judges (it also rejects a Ready that is not a shape of the model).

import (
	"flag"
	"fmt"
	"math/rand"
	"os"
	"path/filepath"
	"sync"

	"github.com/youzan/ZanRedisDB/node"
	"github.com/youzan/ZanRedisDB/raft"
	"github.com/youzan/ZanRedisDB/raft/raftpb"
	"github.com/youzan/ZanRedisDB/wal"

	"zrverif/trace"
)

func init() { commands["persistsim"] = persistsim }

// the driver's own picture of the node, used only to build feasible inputs
type pview struct {
	terms  map[uint64]uint64 // raft log as raft itself would hold it (index -> term)
	last   uint64
	commit uint64
	term   uint64
	snap   uint64 // index below which raft has no entries
}

func (v *pview) clone() *pview {
	c := *v
	c.terms = map[uint64]uint64{}
	for k, t := range v.terms {
		c.terms[k] = t
	}
	return &c
}

// a shape: snap none/ahead/inside, number of entries, where they start, hard state change
type pshape struct {
	Snap string `json:"snap"` // "none" | "ahead" | "inside"
	N    int    `json:"n"`    // entries
	At   string `json:"at"`   // "end" | "over" (overwrite the uncommitted suffix from commit+1)
	HS   string `json:"hs"`   // "none" | "commit" | "term"
}

func shapesAt(v *pview) []pshape {
	var out []pshape
	for _, sn := range []string{"none", "ahead", "inside"} {
		if sn == "inside" && v.commit >= v.last {
			continue
		}
		for n := 0; n <= 2; n++ {
			ats := []string{"end"}
			if sn == "none" && n > 0 && v.commit < v.last {
				ats = append(ats, "over")
			}
			if n == 0 {
				ats = []string{"end"}
			}
			for _, at := range ats {
				hss := []string{"none", "commit", "term"}
				if sn != "none" {
					hss = []string{"commit"} // a restored snapshot always moves the commit index
				}
				if at == "over" {
					hss = []string{"term"} // a suffix is only replaced by a leader of a later term
				}
				for _, hs := range hss {
					if sn == "none" && n == 0 && hs == "none" {
						continue // not a Ready
					}
					if sn == "none" && hs == "commit" && n == 0 && v.commit >= v.last {
						continue // nothing to commit
					}
					out = append(out, pshape{sn, n, at, hs})
				}
			}
		}
	}
	return out
}

// build makes the Ready of shape s at view v and moves the view the way raft itself would.
func build(v *pview, s pshape) (raft.Ready, trace.M) {
	var rd raft.Ready
	ev := trace.M{"ev": "ready", "shape": s, "si": 0, "st": 0, "first": 0, "terms": []uint64{},
		"hs": false, "hst": 0, "hsv": 0, "hsc": 0}
	oldCommit := v.commit
	old := v.clone()
	if s.Snap != "none" {
		var si uint64
		st := v.term
		if s.Snap == "ahead" {
			si = v.last + 2
		} else {
			si = v.last // inside the log, above the commit index, with another term than the log's
			v.term++
			st = v.term
		}
		rd.Snapshot = raftpb.Snapshot{Data: []byte("verif"), Metadata: raftpb.SnapshotMetadata{
			Index: si, Term: st, ConfState: raftpb.ConfState{Nodes: []uint64{1}}}}
		v.terms = map[uint64]uint64{}
		v.snap, v.last, v.commit = si, si, si
		ev["si"], ev["st"] = si, st
	}
	first := v.last + 1
	if s.At == "over" {
		first = v.commit + 1
	}
	if s.HS == "term" {
		v.term++
	}
	var ts []uint64
	for i := 0; i < s.N; i++ {
		idx := first + uint64(i)
		rd.Entries = append(rd.Entries, raftpb.Entry{Type: raftpb.EntryNormal, Index: idx, Term: v.term, Data: []byte{byte(idx)}})
		ts = append(ts, v.term)
	}
	if s.N > 0 {
		for k := range v.terms {
			if k >= first {
				delete(v.terms, k)
			}
		}
		for i := 0; i < s.N; i++ {
			v.terms[first+uint64(i)] = v.term
		}
		v.last = first + uint64(s.N) - 1
		ev["first"], ev["terms"] = first, ts
	}
	if s.HS == "commit" && s.Snap == "none" {
		v.commit = v.last
	}
	if s.HS != "none" {
		vote := uint64(1)
		if v.term > 1 {
			vote = 2
		}
		rd.HardState = raftpb.HardState{Term: v.term, Vote: vote, Commit: v.commit}
		ev["hs"], ev["hst"], ev["hsv"], ev["hsc"] = true, v.term, vote, v.commit
	}
	if s.Snap == "none" && v.commit > oldCommit {
		for i := oldCommit + 1; i <= v.commit; i++ {
			t, ok := v.terms[i]
			if !ok {
				t = old.terms[i]
			}
			rd.CommittedEntries = append(rd.CommittedEntries, raftpb.Entry{Type: raftpb.EntryNormal, Index: i, Term: t, Data: []byte{byte(i)}})
		}
	}
	return rd, ev
}

type pstart struct{ n, c int }

// callReady hands rd to the real processReady; a Go panic of the code under test is recorded
// as the outcome of the call (the specification has no such outcome for a shape of the model).
func callReady(p *node.VerifPersist, rd raft.Ready) (pn string) {
	defer func() {
		if r := recover(); r != nil {
			pn = fmt.Sprint(r)
			if len(pn) > 200 {
				pn = pn[:200]
			}
			if pn == "" {
				pn = "panic"
			}
		}
	}()
	p.Ready(rd)
	return ""
}

func runSeq(base string, id int, st pstart, seq []int, rng *rand.Rand) ([]trace.M, error) {
	dir := filepath.Join(base, fmt.Sprintf("s%d", id))
	defer os.RemoveAll(dir)
	p, err := node.VerifOpenPersist(dir)
	if err != nil {
		return nil, err
	}
	var evs []trace.M
	v := &pview{terms: map[uint64]uint64{}, term: 1}
	evs = append(evs, trace.M{"ev": "reset"})
	if st.n > 0 {
		// the initial log: one Ready with n entries of term 1, c of them committed
		var rd raft.Ready
		for i := 1; i <= st.n; i++ {
			rd.Entries = append(rd.Entries, raftpb.Entry{Type: raftpb.EntryNormal, Index: uint64(i), Term: 1, Data: []byte{byte(i)}})
			v.terms[uint64(i)] = 1
		}
		v.last, v.commit = uint64(st.n), uint64(st.c)
		rd.HardState = raftpb.HardState{Term: 1, Vote: 1, Commit: v.commit}
		rd.CommittedEntries = append(rd.CommittedEntries, rd.Entries[:st.c]...)
		pn := callReady(p, rd)
		ts := make([]uint64, st.n)
		for i := range ts {
			ts[i] = 1
		}
		evs = append(evs, trace.M{"ev": "ready", "shape": pshape{"none", st.n, "end", "commit"}, "init": true, "si": 0, "st": 0,
			"first": 1, "terms": ts, "hs": true, "hst": 1, "hsv": 1, "hsc": v.commit, "panic": pn, "mem": p.State()})
	}
	for _, k := range seq {
		sh := shapesAt(v)
		if len(sh) == 0 {
			break
		}
		var s pshape
		if k >= 0 {
			if k >= len(sh) {
				break
			}
			s = sh[k]
		} else {
			s = sh[rng.Intn(len(sh))]
		}
		rd, ev := build(v, s)
		pn := callReady(p, rd)
		ev["panic"] = pn
		ev["mem"] = p.State()
		evs = append(evs, ev)
		if pn != "" {
			break // the history of this directory ends here
		}
	}
	p.Close()
	p2, err := node.VerifOpenPersist(dir)
	if err != nil {
		evs = append(evs, trace.M{"ev": "image", "err": err.Error(), "mem": node.VerifPersistState{Terms: []uint64{}}})
		return evs, nil
	}
	evs = append(evs, trace.M{"ev": "image", "err": "", "mem": p2.State()})
	p2.Close()
	return evs, nil
}

func persistsim(args []string) error {
	fs := flag.NewFlagSet("persistsim", flag.ExitOnError)
	out := fs.String("o", "trace.ndjson", "trace file")
	seed := fs.Int64("seed", 1, "seed of the sampled sequences")
	full2 := fs.Bool("full2", false, "all sequences of length 2 from every initial log (default: from two of them)")
	sample := fs.Int("sample", 200, "sampled sequences of length 3")
	workers := fs.Int("workers", 6, "parallel sequences")
	fs.Parse(args)
	base, err := os.MkdirTemp(os.Getenv("ZR_SCRATCH"), "zrpersist")
	if err != nil {
		return err
	}
	defer os.RemoveAll(base)
	wal.SegmentSizeBytes = 256 * 1024

	var starts []pstart
	for n := 0; n <= 5; n++ {
		for _, c := range []int{n, n - 2} {
			if c >= 0 && !(c == n-2 && n < 2) {
				starts = append(starts, pstart{n, c})
			}
		}
	}
	type job struct {
		st  pstart
		seq []int
	}
	var jobs []job
	const maxShapes = 24
	for _, st := range starts {
		for a := 0; a < maxShapes; a++ {
			jobs = append(jobs, job{st, []int{a}})
		}
		if *full2 || (st == pstart{0, 0}) || (st == pstart{3, 1}) {
			for a := 0; a < maxShapes; a++ {
				for b := 0; b < maxShapes; b++ {
					jobs = append(jobs, job{st, []int{a, b}})
				}
			}
		}
	}
	rng := rand.New(rand.NewSource(*seed))
	for i := 0; i < *sample; i++ {
		jobs = append(jobs, job{starts[rng.Intn(len(starts))], []int{-1, -1, -1}})
	}
	res := make([][]trace.M, len(jobs))
	seeds := make([]int64, len(jobs))
	for i := range seeds {
		seeds[i] = rng.Int63()
	}
	var wg sync.WaitGroup
	var mu sync.Mutex
	var firstErr error
	ch := make(chan int)
	for w := 0; w < *workers; w++ {
		wg.Add(1)
		go func() {
			defer wg.Done()
			for i := range ch {
				evs, err := runSeq(base, i, jobs[i].st, jobs[i].seq, rand.New(rand.NewSource(seeds[i])))
				if err != nil {
					mu.Lock()
					if firstErr == nil {
						firstErr = err
					}
					mu.Unlock()
					continue
				}
				res[i] = evs
			}
		}()
	}
	for i := range jobs {
		ch <- i
	}
	close(ch)
	wg.Wait()
	if firstErr != nil {
		fmt.Printf("SUMMARY {\"status\":\"env\",\"why\":%q}\n", firstErr.Error())
		return nil
	}
	tw, err := trace.Create(*out)
	if err != nil {
		return err
	}
	seqs, readys, snapents, images := 0, 0, 0, 0
	byShape := map[string]int{}
	for _, evs := range res {
		// a sequence whose indexes ran past the shapes of its state is a duplicate of a shorter one
		nr := 0
		for _, e := range evs {
			if e["ev"] == "ready" && e["init"] == nil {
				nr++
			}
		}
		if nr == 0 {
			continue
		}
		seqs++
		for _, e := range evs {
			tw.Emit(e)
			switch e["ev"] {
			case "ready":
				readys++
				s := e["shape"].(pshape)
				byShape[fmt.Sprintf("%s/%d/%s/%s", s.Snap, s.N, s.At, s.HS)]++
				if s.Snap != "none" && s.N > 0 {
					snapents++
				}
			case "image":
				images++
			}
		}
	}
	tw.Close()
	fmt.Printf("SUMMARY {\"status\":\"ok\",\"sequences\":%d,\"readys\":%d,\"snapshot_with_entries\":%d,\"images\":%d,\"shapes\":%d,\"events\":%d}\n",
		seqs, readys, snapents, images, len(byShape), tw.N)
	return nil
}
