package main

// scansim: drives the real cursor scans (node-level SCAN / REVSCAN / ADVSCAN / ADVREVSCAN /
// HSCAN / SSCAN / ZSCAN and their reverse variants) on a real store that was filled through
// the real state machine (node.NewStateMachine + ApplyRaftRequest), feeding every returned
// cursor back until the empty cursor, and records every page.  spec/ZScanTrace.tla decides.
//
// One segment = one world: three tables, five data types, six key names, six element names,
// all taken from adversarial, ordered pools.  For a number of spaces (type+table key spaces,
// single collections) the driver runs every COUNT from 1 to n+1 (and no COUNT), both
// directions, with and without MATCH, from the start and from arbitrary cursors; in a
// second mode it writes between the pages - to the scanned space (logged) and to every
// other table / type / collection (not logged: the specification's pages do not depend on
// them).
//
// This file also holds the plumbing shared with isosim.go (scnWorld, pools, fake conn).

import (
	"encoding/json"
	"flag"
	"fmt"
	"io/ioutil"
	"math/rand"
	"net"
	"os"
	"runtime/debug"
	"strconv"
	"strings"
	"time"

	"github.com/absolute8511/redcon"
	"github.com/youzan/ZanRedisDB/common"
	"github.com/youzan/ZanRedisDB/engine"
	"github.com/youzan/ZanRedisDB/node"
	"github.com/youzan/ZanRedisDB/pkg/wait"
	"github.com/youzan/ZanRedisDB/rockredis"
	"zrverif/trace"
)

func init() { commands["scansim"] = scansim }

// ----------------------------------------------------------------------------- pools

const scnNPos = 6

// ordered (bytewise ascending) pools of six non-empty names, used for keys and for
// fields/members.  upper is a name greater than every pool name (reverse start cursor).
type scnPool struct {
	names      [scnNPos]string
	prefixFree bool // no name is a proper prefix of another one (usable on the mem engine)
	pats       []scnPat
	nulPats    []scnPat // patterns that contain a 0x00 byte: refused with an error since the fix of C13-match-nul-pattern
}

// a MATCH pattern and the pool positions (1-based) it matches, by construction.  Only
// '*'-prefixed suffix patterns over ASCII without ':' are used: SCAN/ADVSCAN apply the
// pattern to "table:key", the element scans to the element, and for such patterns both
// readings agree.
type scnPat struct {
	pat string
	set []int
	// anch: the pattern is anchored at the start of the name (literal prefix, '?', classes,
	// wildcards in the middle).  The element scans apply it to the element; SCAN/ADVSCAN
	// apply a pattern to "table:key" (the code and the server's own tests do), so for key
	// spaces the driver sends table + ":" + pattern, and only for plain ASCII table names
	anch bool
}

const scnUpper = "\xff\xff\xff\xff\xff"

// scnBuildPools builds the pools; longLen is the length of the shared prefix of the long
// names (9 900 is close to the key size limit of 10 240 bytes)
func scnBuildPools(longLen int) []scnPool {
	scnLong := strings.Repeat("x", longLen)
	return []scnPool{
		// 0 plain
		{names: [scnNPos]string{"a", "b", "c", "d", "e", "f"}, prefixFree: true,
			pats: []scnPat{{"*[a-c]", []int{1, 2, 3}, false}, {"*e", []int{5}, false}, {"*", []int{1, 2, 3, 4, 5, 6}, false}, {"*z", nil, false},
				{"[a-c]", []int{1, 2, 3}, true}, {"?", []int{1, 2, 3, 4, 5, 6}, true}, {"c", []int{3}, true}, {"c*", []int{3}, true}, {"a", []int{1}, true}}},
		// 1 prefix chain around the separators
		{names: [scnNPos]string{"k", "k\x00", "k\x00\x00", "k:", "k:f", "k;"},
			pats:    []scnPat{{"*k", []int{1}, false}, {"*f", []int{5}, false}, {"*;", []int{6}, false}},
			nulPats: []scnPat{{"*k\x00", []int{2}, false}, {"*\x00", []int{2, 3}, false}}},
		// 2 0x00 / 0xff
		{names: [scnNPos]string{"\x00", "\x00\xff", "\x01", "\xfe", "\xff", "\xff\xff"},
			pats: []scnPat{{"*\x01", []int{3}, false}}},
		// 3 separators inside keys (a key "t::a"-style: the table is what precedes the FIRST ':')
		{names: [scnNPos]string{":", "::", ":a", "a:", "a::", "a:b"},
			pats: []scnPat{{"*a", []int{3}, false}, {"*b", []int{6}, false}}},
		// 4 the length bytes of a neighbour
		{names: [scnNPos]string{"\x00\x01", "\x00\x01a", "\x00\x02", "\x01", "\x01\x00", "\x02"},
			pats: []scnPat{{"*a", []int{2}, false}, {"*\x02", []int{3, 6}, false}}},
		// 5 long names with a shared 9 900-byte prefix (close to the key size limit)
		{names: [scnNPos]string{scnLong + "a", scnLong + "a\x00", scnLong + "b", scnLong + "b:", scnLong + "c", scnLong + "d"},
			pats: []scnPat{{"*xb", []int{3}, false}, {"*d", []int{6}, false}}},
		// 6 binary, prefix-free
		{names: [scnNPos]string{"\x00\x01", "\x00\xff", "a\x00b", "a\x01", "a\xffz", "\xff\x00"}, prefixFree: true,
			pats:    []scnPat{{"*b", []int{3}, false}, {"*z", []int{5}, false}},
			nulPats: []scnPat{{"*\x00b", []int{3}, false}, {"*\x00", nil, false}}},
		// 7 long, prefix-free
		{names: [scnNPos]string{scnLong + "a", scnLong + "b", scnLong + "c\x00", scnLong + "d", scnLong + "e\xff", scnLong + "f"}, prefixFree: true,
			pats: []scnPat{{"*xb", []int{2}, false}, {"*f", []int{6}, false}}},
		// 8 a key equal to a literal pattern prefix, and its extensions
		{names: [scnNPos]string{"u", "us", "user", "user1", "userx", "v"},
			pats: []scnPat{{"user*", []int{3, 4, 5}, true}, {"user?", []int{4, 5}, true}, {"us*r*", []int{3, 4, 5}, true},
				{"u[s-t]*", []int{2, 3, 4, 5}, true}, {"user[0-9]", []int{4}, true}, {"u*x", []int{5}, true}, {"u", []int{1}, true},
				{"user", []int{3}, true}, {"*ser*", []int{3, 4, 5}, false}, {"v*", []int{6}, true}, {"[u-v]", []int{1, 6}, true},
				{"u*", []int{1, 2, 3, 4, 5}, true}, {"us??", []int{3}, true}}},
	}
}

var scnPools = scnBuildPools(9900)

// table triples (no ':' inside a table name; the table is everything before the first ':')
var scnTables = [][3]string{
	{"t", "t0", "tt"},
	{"a", "a\x00", "a\xff"},
	{"a", "a;", "a!"},
	{"\x00\x01", "\x00\x01\x00", "\x01"},
	{"\xff", "\xff\xff", "\xfe\xff"},
	{strings.Repeat("T", 255), strings.Repeat("T", 254), strings.Repeat("T", 254) + "U"},
	{"meta", "met", "meta;"},
	{"b", "ab", "c"},
	// 8: "\xff" and the UTF-8 encoding of U+FFFD, what a JSON transport turns "\xff" into
	{"\xff", "\xef\xbf\xbd", "\xfe"},
}

// table triples usable on the mem engine (prefix-related tables do not make engine keys
// prefix-related, because a ':' or a length follows; all are fine)
var scnTypes = []string{"kv", "hash", "list", "set", "zset"}

// --------------------------------------------------------------------------- the world

type scnWorld struct {
	sm     node.StateMachine
	w      wait.Wait
	batch  node.IBatchOperator
	store  *node.KVStore
	nd     *node.KVNode
	ts     int64
	nextID uint64
	dir    string
	panics int
	napply int
}

func scnOpen(eng string, policy common.ExpirationPolicy, parent string) (*scnWorld, error) {
	engine.SetLogLevel(0)
	rockredis.SetLogLevel(0)
	node.SetLogLevel(0)
	rockredis.VerifScanSetLocalExpInterval(1 << 30)
	dir, err := ioutil.TempDir(parent, "zrscn")
	if err != nil {
		return nil, err
	}
	opts := &node.KVOptions{DataDir: dir, EngType: rockredis.EngType, ExpirationPolicy: policy, DataVersion: common.ValueHeaderV1}
	opts.RockOpts.EngineType = eng
	w := wait.New()
	// no SlowLimiter: its slow-command metric panics on table names that are not valid UTF-8
	// (reported for C11); nil is checked by the state machine
	sm, err := node.NewStateMachine(opts, node.MachineConfig{}, 1, "default-0", nil, w, nil)
	if err != nil {
		return nil, err
	}
	store := node.VerifScanStore(sm)
	if store == nil {
		return nil, fmt.Errorf("no kv store behind the state machine")
	}
	wd := &scnWorld{sm: sm, w: w, batch: sm.GetBatchOperator(), store: store, dir: dir,
		ts: time.Now().UnixNano() - int64(time.Hour), nextID: 100}
	wd.nd = node.VerifScanBareNode(store, "default-0")
	return wd, nil
}

func (wd *scnWorld) close() {
	wd.sm.Close()
	os.RemoveAll(wd.dir)
}

// clean empties the store (a new segment starts on an empty world)
func (wd *scnWorld) clean() error {
	if err := wd.sm.CleanData(); err != nil {
		return err
	}
	wd.store = node.VerifScanStore(wd.sm)
	wd.nd = node.VerifScanBareNode(wd.store, "default-0")
	return nil
}

func (wd *scnWorld) nextTs() int64 {
	wd.ts += 1000003 // distinct, increasing nanosecond timestamps (about 1 ms apart)
	return wd.ts
}

// applyReq sends one hand-built raft request through the real state machine.
func (wd *scnWorld) applyReq(dataType int8, data []byte, ts int64) (res interface{}) {
	defer func() {
		if e := recover(); e != nil {
			wd.panics++
			res = fmt.Errorf("PANIC: %v", e)
			if wd.panics <= 3 {
				fmt.Fprintf(os.Stderr, "scansim: panic in apply: %v\n%s\n", e, debug.Stack())
			}
		}
	}()
	wd.nextID++
	id := wd.nextID
	var rl node.BatchInternalRaftRequest
	rl.ReqNum = 1
	rl.Timestamp = ts
	rl.Reqs = append(rl.Reqs, node.InternalRaftRequest{Header: node.RequestHeader{ID: id, DataType: int32(dataType), Timestamp: ts}, Data: data})
	wr := wd.w.Register(id)
	wd.sm.ApplyRaftRequest(false, wd.batch, rl, 2, id, nil)
	wd.batch.CommitBatch()
	wd.napply++
	select {
	case <-wr.WaitC():
		return wr.GetResult()
	case <-time.After(120 * time.Second):
		return fmt.Errorf("NO-TRIGGER")
	}
}

// apply executes one redis write command (key already without namespace) at a fresh log time
func (wd *scnWorld) apply(args ...string) interface{} {
	bargs := make([][]byte, len(args))
	for i, a := range args {
		bargs[i] = []byte(a)
	}
	return wd.applyReq(node.RedisReq, common.BuildCommand(bargs).Raw, wd.nextTs())
}

// delTable applies a whole-table delete the way KVNode.DeleteRange proposes it
func (wd *scnWorld) delTable(table string) interface{} {
	return wd.delRange(node.DeleteTableRange{Table: table, DeleteAll: true})
}

// delRange applies a DeleteTableRange the way KVNode.DeleteRange proposes it
func (wd *scnWorld) delRange(dr node.DeleteTableRange) interface{} {
	d, _ := json.Marshal(dr)
	p := struct {
		ProposeOp  int
		NeedBackup bool
		Data       []byte
	}{ProposeOp: node.ProposeOp_DeleteTable, Data: d}
	dd, _ := json.Marshal(p)
	return wd.applyReq(node.CustomReq, dd, wd.nextTs())
}

// --------------------------------------------------------------- a recording redcon.Conn

type scnConn struct {
	errs  []string
	bulks [][]byte
	arr   []int
}

func (c *scnConn) RemoteAddr() string       { return "verif" }
func (c *scnConn) Close() error             { return nil }
func (c *scnConn) WriteError(msg string)    { c.errs = append(c.errs, msg) }
func (c *scnConn) WriteString(str string)   { c.bulks = append(c.bulks, []byte(str)) }
func (c *scnConn) WriteBulk(b []byte)       { c.bulks = append(c.bulks, append([]byte{}, b...)) }
func (c *scnConn) WriteBulkString(s string) { c.bulks = append(c.bulks, []byte(s)) }
func (c *scnConn) WriteInt(num int)         { c.bulks = append(c.bulks, []byte(strconv.Itoa(num))) }
func (c *scnConn) WriteInt64(num int64) {
	c.bulks = append(c.bulks, []byte(strconv.FormatInt(num, 10)))
}
func (c *scnConn) WriteArray(count int)           { c.arr = append(c.arr, count) }
func (c *scnConn) WriteNull()                     { c.bulks = append(c.bulks, nil) }
func (c *scnConn) WriteRaw(data []byte)           {}
func (c *scnConn) Context() interface{}           { return nil }
func (c *scnConn) SetContext(v interface{})       {}
func (c *scnConn) SetReadBuffer(bytes int)        {}
func (c *scnConn) Detach() redcon.DetachedConn    { return nil }
func (c *scnConn) ReadPipeline() []redcon.Command { return nil }
func (c *scnConn) PeekPipeline() []redcon.Command { return nil }
func (c *scnConn) NetConn() net.Conn              { return nil }
func (c *scnConn) Flush() error                   { return nil }

func scnCmd(args ...string) redcon.Command {
	bargs := make([][]byte, len(args))
	for i, a := range args {
		bargs[i] = []byte(a)
	}
	return common.BuildCommand(bargs)
}

// ------------------------------------------------------------------------------ driver

type scnDrv struct {
	wd   *scnWorld
	tw   *trace.Writer
	rng  *rand.Rand
	tabs [3]string
	keys *scnPool
	subs *scnPool
	kpos map[string]int
	spos map[string]int
	// coll[type][table][key position-1] = set of element positions (kv, list: {1} = exists)
	coll                                 [5][3][scnNPos]map[int]bool
	nIter, nPage, nWrite, nForeign, nErr int
	withMatch, revIters, concIters       int
	anchored                             int
	revEmpty, nulPat                     bool
}

func (d *scnDrv) redisKey(t, k int) string { return d.tabs[t] + ":" + d.keys.names[k-1] }

// add / remove one element of a collection through the real write path
func (d *scnDrv) addElem(ty, t, k, s int) {
	key := d.redisKey(t, k)
	sub := d.subs.names[s-1]
	var r interface{}
	switch scnTypes[ty] {
	case "kv":
		r = d.wd.apply("set", key, "v"+strconv.Itoa(s))
		s = 1
	case "hash":
		r = d.wd.apply("hset", key, sub, "v"+strconv.Itoa(s))
	case "list":
		r = d.wd.apply("rpush", key, "v"+strconv.Itoa(s))
		s = 1
	case "set":
		r = d.wd.apply("sadd", key, sub)
	case "zset":
		r = d.wd.apply("zadd", key, strconv.Itoa((s*7)%5), sub)
	}
	if e, ok := r.(error); ok {
		d.nErr++
		fmt.Fprintf(os.Stderr, "scansim: write error %v on %s %q\n", e, scnTypes[ty], key)
	}
	if d.coll[ty][t][k-1] == nil {
		d.coll[ty][t][k-1] = map[int]bool{}
	}
	d.coll[ty][t][k-1][s] = true
}

func (d *scnDrv) remElem(ty, t, k, s int) {
	key := d.redisKey(t, k)
	sub := d.subs.names[s-1]
	switch scnTypes[ty] {
	case "kv":
		d.wd.apply("del", key)
		d.coll[ty][t][k-1] = nil
		return
	case "hash":
		d.wd.apply("hdel", key, sub)
	case "list":
		d.wd.apply("lclear", key)
		d.coll[ty][t][k-1] = nil
		return
	case "set":
		d.wd.apply("srem", key, sub)
	case "zset":
		d.wd.apply("zrem", key, sub)
	}
	delete(d.coll[ty][t][k-1], s)
}

// remove a whole key: by the type's clear command or, alternately, element by element
// (the collection must disappear from the key space when its last element goes)
func (d *scnDrv) remKey(ty, t, k int) {
	key := d.redisKey(t, k)
	m := d.coll[ty][t][k-1]
	if len(m) == 0 {
		return
	}
	if d.rng.Intn(2) == 0 || scnTypes[ty] == "kv" || scnTypes[ty] == "list" {
		switch scnTypes[ty] {
		case "kv":
			d.wd.apply("del", key)
		case "hash":
			d.wd.apply("hclear", key)
		case "list":
			d.wd.apply("lclear", key)
		case "set":
			d.wd.apply("sclear", key)
		case "zset":
			d.wd.apply("zclear", key)
		}
		d.coll[ty][t][k-1] = nil
		return
	}
	for s := 1; s <= scnNPos; s++ {
		if m[s] {
			d.remElem(ty, t, k, s)
		}
	}
}

func (d *scnDrv) populate() {
	for ty := range scnTypes {
		for t := 0; t < 3; t++ {
			for k := 1; k <= scnNPos; k++ {
				if d.rng.Intn(100) < 55 {
					n := 0
					for s := 1; s <= scnNPos; s++ {
						if d.rng.Intn(100) < 50 {
							d.addElem(ty, t, k, s)
							n++
						}
					}
					if n == 0 {
						d.addElem(ty, t, k, 1+d.rng.Intn(scnNPos))
					}
				}
			}
		}
	}
}

// a scanned space: the keys of (type, table) [k = 0] or the elements of one collection
type scnSpace struct {
	ty, t, k int
	adv      bool // key space: use ADVSCAN (else plain SCAN, kv only)
}

func (d *scnDrv) popOf(sp scnSpace) []int {
	out := []int{}
	if sp.k == 0 {
		for k := 1; k <= scnNPos; k++ {
			if len(d.coll[sp.ty][sp.t][k-1]) > 0 {
				out = append(out, k)
			}
		}
		return out
	}
	for s := 1; s <= scnNPos; s++ {
		if d.coll[sp.ty][sp.t][sp.k-1][s] {
			out = append(out, s)
		}
	}
	return out
}

func (d *scnDrv) pool(sp scnSpace) *scnPool {
	if sp.k == 0 {
		return d.keys
	}
	return d.subs
}

// name -> position of the scanned space's pool, -1 for anything else
func (d *scnDrv) posOf(sp scnSpace, name []byte, withTable bool) int {
	s := string(name)
	if sp.k == 0 {
		if withTable {
			pre := d.tabs[sp.t] + ":"
			if !strings.HasPrefix(s, pre) {
				return -1
			}
			s = s[len(pre):]
		}
		if p, ok := d.kpos[s]; ok {
			return p
		}
		return -1
	}
	if p, ok := d.spos[s]; ok {
		return p
	}
	return -1
}

// cursor position -> the byte string a client would send
func (d *scnDrv) curName(sp scnSpace, cur int) string {
	switch {
	case cur == 0:
		return ""
	case cur > scnNPos:
		return scnUpper
	}
	return d.pool(sp).names[cur-1]
}

// page executes one scan command with the cursor bytes `cursor` (as returned by the
// previous page, or the start cursor) and logs the reply.
func (d *scnDrv) page(sp scnSpace, cursor string, cnt int, rev bool, pat string) (next string, done bool) {
	var els []int
	nxt := 0
	errs := ""
	var nextRaw []byte
	func() {
		defer func() {
			if e := recover(); e != nil {
				errs = fmt.Sprintf("PANIC: %v", e)
				d.wd.panics++
			}
		}()
		if sp.k == 0 {
			name := "scan"
			if sp.adv {
				name = "advscan"
			}
			if rev {
				name = strings.Replace(name, "scan", "revscan", 1)
			}
			args := []string{name, "default:" + d.tabs[sp.t] + ":" + cursor}
			if sp.adv {
				args = append(args, strings.ToUpper(scnTypes[sp.ty]))
			}
			if pat != "" {
				args = append(args, "match", pat)
			}
			if cnt > 0 {
				args = append(args, "count", strconv.Itoa(cnt))
			}
			res, err := d.wd.nd.VerifScanKeys(scnCmd(args...))
			if err != nil {
				errs = err.Error()
				return
			}
			sr, ok := res.(*common.ScanResult)
			if !ok || sr.Error != nil {
				errs = fmt.Sprintf("bad result %T %v", res, sr)
				return
			}
			for _, k := range sr.Keys {
				els = append(els, d.posOf(sp, k, true))
			}
			// The node-level handlers are only reachable through the server-side merge
			// (server/scan_merge.go): decodeScanCursor hands each partition the cursor
			// table + ":" + <what the partition returned>, for SCAN and ADVSCAN alike.  The
			// driver composes the next request exactly like that, so the element the
			// returned cursor designates is the returned bytes read as a key of the table.
			nextRaw = sr.NextCursor
			if len(nextRaw) > 0 {
				nxt = d.posOf(sp, nextRaw, false)
			}
			return
		}
		name := map[string]string{"hash": "hscan", "set": "sscan", "zset": "zscan"}[scnTypes[sp.ty]]
		if rev {
			name = name[:1] + "revscan"
		}
		args := []string{name, "default:" + d.redisKey(sp.t, sp.k), cursor}
		if pat != "" {
			args = append(args, "match", pat)
		}
		if cnt > 0 {
			args = append(args, "count", strconv.Itoa(cnt))
		}
		conn := &scnConn{}
		d.wd.nd.VerifScanColl(conn, scnCmd(args...))
		if len(conn.errs) > 0 {
			errs = conn.errs[0]
			return
		}
		if len(conn.arr) != 2 || conn.arr[0] != 2 || len(conn.bulks) != 1+conn.arr[1] {
			errs = fmt.Sprintf("malformed reply %v %d", conn.arr, len(conn.bulks))
			return
		}
		nextRaw = conn.bulks[0]
		if len(nextRaw) > 0 {
			nxt = d.posOf(sp, nextRaw, false)
		}
		step := 2
		if scnTypes[sp.ty] == "set" {
			step = 1
		}
		for i := 1; i < len(conn.bulks); i += step {
			els = append(els, d.posOf(sp, conn.bulks[i], false))
		}
	}()
	if els == nil {
		els = []int{}
	}
	d.tw.Emit(trace.M{"ev": "page", "els": els, "next": nxt, "err": errs})
	d.nPage++
	if errs != "" || len(nextRaw) == 0 {
		return "", true
	}
	return string(nextRaw), false
}

// between two pages: writes to the scanned space (logged) and to everything else (not logged)
func (d *scnDrv) interleave(sp scnSpace) {
	n := d.rng.Intn(3)
	for i := 0; i < n; i++ {
		p := 1 + d.rng.Intn(scnNPos)
		present := false
		for _, q := range d.popOf(sp) {
			if q == p {
				present = true
			}
		}
		if sp.k == 0 {
			if present {
				d.remKey(sp.ty, sp.t, p)
			} else {
				d.addElem(sp.ty, sp.t, p, 1+d.rng.Intn(scnNPos))
			}
		} else {
			if scnTypes[sp.ty] == "kv" || scnTypes[sp.ty] == "list" {
				continue
			}
			if present {
				d.remElem(sp.ty, sp.t, sp.k, p)
			} else {
				d.addElem(sp.ty, sp.t, sp.k, p)
			}
		}
		op := "add"
		if present {
			op = "rem"
		}
		d.tw.Emit(trace.M{"ev": "write", "op": op, "p": p})
		d.nWrite++
	}
	// foreign writes: other tables, other types, other keys - never the scanned space
	m := d.rng.Intn(4)
	for i := 0; i < m; i++ {
		ty, t, k := d.rng.Intn(len(scnTypes)), d.rng.Intn(3), 1+d.rng.Intn(scnNPos)
		if sp.k == 0 && ty == sp.ty && t == sp.t {
			continue
		}
		if sp.k != 0 && ty == sp.ty && t == sp.t && k == sp.k {
			continue
		}
		if len(d.coll[ty][t][k-1]) > 0 && d.rng.Intn(2) == 0 {
			d.remKey(ty, t, k)
		} else {
			d.addElem(ty, t, k, 1+d.rng.Intn(scnNPos))
		}
		d.nForeign++
	}
}

func (d *scnDrv) iterate(sp scnSpace, cur, cnt int, rev bool, pat *scnPat, concurrent bool) {
	m := []int{1, 2, 3, 4, 5, 6}
	ps := ""
	if pat != nil {
		m = pat.set
		if m == nil {
			m = []int{}
		}
		ps = pat.pat
		if pat.anch && sp.k == 0 {
			t := d.tabs[sp.t]
			for i := 0; i < len(t); i++ {
				if t[i] < 0x20 || t[i] > 0x7e || strings.IndexByte("*?[]{}\\", t[i]) >= 0 {
					return // the table name cannot be written into a pattern literally
				}
			}
			ps = t + ":" + ps
		}
		d.withMatch++
		if pat.anch {
			d.anchored++
		}
	}
	mc := cnt
	if cnt == 0 {
		mc = 100 // no COUNT argument: the documented default is far above the pool size
	}
	kind := "coll:" + scnTypes[sp.ty]
	if sp.k == 0 {
		kind = "scan:" + scnTypes[sp.ty]
		if sp.adv {
			kind = "advscan:" + scnTypes[sp.ty]
		}
	}
	// sp (which command family) and pn (the pattern contains 0x00) are for the report only
	d.tw.Emit(trace.M{"ev": "begin", "pop": d.popOf(sp), "cur": cur, "cnt": mc, "rev": rev, "m": m,
		"sp": kind, "pn": strings.IndexByte(ps, 0) >= 0})
	d.nIter++
	if rev {
		d.revIters++
	}
	if concurrent {
		d.concIters++
	}
	cursor := d.curName(sp, cur)
	capped := true
	for i := 0; i < scnNPos+3; i++ {
		next, done := d.page(sp, cursor, cnt, rev, ps)
		if done {
			capped = false
			break
		}
		cursor = next
		if concurrent {
			d.interleave(sp)
		}
	}
	d.tw.Emit(trace.M{"ev": "end", "capped": capped})
}

func (d *scnDrv) scanSpace(sp scnSpace, thin int) {
	pool := d.pool(sp)
	n := len(d.popOf(sp))
	var pats []*scnPat
	pats = append(pats, nil)
	for i := range pool.pats {
		pats = append(pats, &pool.pats[i])
	}
	for _, rev := range []bool{false, true} {
		start := 0
		if rev {
			start = scnNPos + 1
		}
		for _, pat := range pats {
			for cnt := 0; cnt <= n+1; cnt++ {
				if thin > 1 && pat != nil && d.rng.Intn(thin) != 0 {
					continue
				}
				d.iterate(sp, start, cnt, rev, pat, false)
			}
		}
		// iterations that start at an arbitrary cursor (present or absent element)
		for c := 1; c <= scnNPos; c++ {
			if thin > 1 && d.rng.Intn(thin) != 0 {
				continue
			}
			d.iterate(sp, c, 1+d.rng.Intn(n+1), rev, pats[d.rng.Intn(len(pats))], false)
		}
	}
	// the documented pitfall: a reverse iteration from the empty cursor has nothing below it
	// (left out on the mem engine: known finding mem-reverse-seek-prefix-bound)
	if d.revEmpty {
		d.iterate(sp, 0, 2, true, nil, false)
	}
	if d.nulPat {
		for i := range pool.nulPats {
			if thin > 1 && d.rng.Intn(thin) != 0 {
				continue
			}
			d.iterate(sp, 0, 1+d.rng.Intn(n+1), false, &pool.nulPats[i], false)
			d.iterate(sp, scnNPos+1, 1+d.rng.Intn(n+1), true, &pool.nulPats[i], false)
		}
	}
}

// bigCount: COUNT values around the server's batch limit (5 000) on a collection that is
// larger than the limit.  Elements are "00001".."0nnnn", position = number; one world, a few
// iterations; validated with a trace configuration whose pool is that large.
func scnBigCount(wd *scnWorld, tw *trace.Writer, n int, counts []int) (iters, pages int) {
	nd := wd.nd
	for base := 0; base < n; base += 2500 {
		args := []string{"sadd", "t:big"}
		for i := base + 1; i <= base+2500 && i <= n; i++ {
			args = append(args, fmt.Sprintf("%05d", i))
		}
		wd.apply(args...)
	}
	pop := make([]int, n)
	for i := range pop {
		pop[i] = i + 1
	}
	tw.Emit(trace.M{"ev": "reset"})
	for _, cnt := range counts {
		for _, rev := range []bool{false, true} {
			start, cursor, name := 0, "", "sscan"
			if rev {
				start, cursor, name = n+1, "99999", "srevscan"
			}
			tw.Emit(trace.M{"ev": "reset"})
			tw.Emit(trace.M{"ev": "begin", "pop": pop, "cur": start, "cnt": cnt, "rev": rev, "m": pop, "pn": false, "sp": "bigcount:set"})
			iters++
			capped := true
			for p := 0; p < 12; p++ {
				conn := &scnConn{}
				nd.VerifScanColl(conn, scnCmd(name, "default:t:big", cursor, "count", strconv.Itoa(cnt)))
				els := []int{}
				nxt := 0
				errs := ""
				if len(conn.errs) > 0 {
					errs = conn.errs[0]
				} else if len(conn.bulks) >= 1 {
					conv := func(b []byte) int {
						v, err := strconv.Atoi(string(b))
						if err != nil || len(b) != 5 {
							return -1
						}
						return v
					}
					if len(conn.bulks[0]) > 0 {
						nxt = conv(conn.bulks[0])
					}
					for _, b := range conn.bulks[1:] {
						els = append(els, conv(b))
					}
					cursor = string(conn.bulks[0])
				}
				tw.Emit(trace.M{"ev": "page", "els": els, "next": nxt, "err": errs})
				pages++
				if errs != "" || nxt == 0 {
					capped = false
					break
				}
			}
			tw.Emit(trace.M{"ev": "end", "capped": capped})
		}
	}
	return
}

func scansim(args []string) error {
	fs := flag.NewFlagSet("scansim", flag.ExitOnError)
	et := fs.String("eng", "pebble", "engine type: mem | pebble")
	outp := fs.String("o", "scan", "output prefix; parts are <prefix>.<i>.ndjson")
	parts := fs.Int("parts", 1, "number of trace files (segments are dealt round-robin)")
	seed := fs.Int64("seed", 1, "")
	nseg := fs.Int("segments", 8, "number of worlds")
	nsp := fs.Int("spaces", 6, "scanned spaces per world (static mode)")
	nconc := fs.Int("conc", 20, "iterations with interleaved writes per world")
	thin := fs.Int("thin", 1, "run only every thin-th MATCH / arbitrary-cursor iteration (1 = all)")
	policy := fs.String("policy", "local", "expiry policy: local | compact")
	poolsel := fs.Int("pool", -1, "force the key/element pool (-1: by seed)")
	revEmpty := fs.Bool("revempty", true, "include reverse iterations from the empty cursor")
	nulPat := fs.Bool("nulpat", true, "include MATCH patterns that contain a 0x00 byte (the model accepts an error reply or the exact subset)")
	longLen := fs.Int("long", 9900, "length of the shared prefix of the long names")
	plainScan := fs.Bool("plainscan", false, "include plain SCAN / REVSCAN key spaces (known finding C13-scan-cursor-table-twice)")
	bigCount := fs.Int("bigcount", 0, "only: COUNT around the batch limit on a set of this many members")
	bigFull := fs.Bool("bigfull", false, "with -bigcount: COUNT 4999, 5000, 5001, 6000, 20000 instead of 6000 only")
	collOnly := fs.Bool("collonly", false, "scan only collections (HSCAN/SSCAN/ZSCAN), no key spaces")
	fs.Parse(args)
	scnPools = scnBuildPools(*longLen)

	pol := common.LocalDeletion
	if *policy == "compact" {
		pol = common.WaitCompact
	}
	wd, err := scnOpen(*et, pol, os.Getenv("ZR_SCRATCH"))
	if err != nil {
		return err
	}
	defer wd.close()
	rng := rand.New(rand.NewSource(*seed))
	tws := make([]*trace.Writer, *parts)
	for i := range tws {
		if tws[i], err = trace.Create(fmt.Sprintf("%s.%d.ndjson", *outp, i)); err != nil {
			return err
		}
	}
	var usable []int
	for i, p := range scnPools {
		if *et != "mem" || p.prefixFree {
			usable = append(usable, i)
		}
	}
	if *bigCount > 0 {
		counts := []int{6000}
		if *bigFull {
			counts = []int{4999, 5000, 5001, 6000, 20000}
		}
		it, pg := scnBigCount(wd, tws[0], *bigCount, counts)
		for _, tw := range tws {
			tw.Close()
		}
		summary(trace.M{"driver": "scansim", "mode": "bigcount", "eng": *et, "elements": *bigCount, "iterations": it, "pages": pg})
		return nil
	}
	d := &scnDrv{wd: wd, rng: rng, revEmpty: *revEmpty, nulPat: *nulPat}
	poolsUsed := map[int]bool{}
	for seg := 0; seg < *nseg; seg++ {
		if err := wd.clean(); err != nil {
			return err
		}
		d.tw = tws[seg%len(tws)]
		d.tw.Emit(trace.M{"ev": "reset"})
		ki := usable[rng.Intn(len(usable))]
		si := usable[rng.Intn(len(usable))]
		if *poolsel >= 0 {
			ki, si = *poolsel, *poolsel
		}
		ti := rng.Intn(len(scnTables))
		if ki == 5 || ki == 7 {
			// long keys: the whole "table:key" must stay below the key size limit
			for len(scnTables[ti][0])+*longLen+10 > common.MaxKeySize {
				ti = rng.Intn(len(scnTables))
			}
		}
		poolsUsed[ki], poolsUsed[si] = true, true
		d.tabs = scnTables[ti]
		// the scanned table is not always the first of the triple
		r := rng.Intn(3)
		// ... and most of the time it is one whose name is a proper prefix of a neighbour's
		// name (order / orders / order2: the table boundary check must not go by prefix)
		var pre []int
		for i := range d.tabs {
			for j := range d.tabs {
				if i != j && len(d.tabs[i]) < len(d.tabs[j]) && strings.HasPrefix(d.tabs[j], d.tabs[i]) {
					pre = append(pre, i)
					break
				}
			}
		}
		if len(pre) > 0 && rng.Intn(10) < 7 {
			r = pre[rng.Intn(len(pre))]
		}
		d.tabs[0], d.tabs[r] = d.tabs[r], d.tabs[0]
		d.keys, d.subs = &scnPools[ki], &scnPools[si]
		d.kpos, d.spos = map[string]int{}, map[string]int{}
		for i, n := range d.keys.names {
			d.kpos[n] = i + 1
		}
		for i, n := range d.subs.names {
			d.spos[n] = i + 1
		}
		d.coll = [5][3][scnNPos]map[int]bool{}
		d.populate()
		// spaces: key spaces of table 0 (plain SCAN for kv, ADVSCAN for all types) and
		// collections of table 0
		var spaces []scnSpace
		if *plainScan {
			spaces = append(spaces, scnSpace{ty: 0, t: 0, adv: false})
		}
		if !*collOnly {
			for ty := range scnTypes {
				spaces = append(spaces, scnSpace{ty: ty, t: 0, adv: true})
			}
		}
		for _, ty := range []int{1, 3, 4} {
			for k := 1; k <= scnNPos; k++ {
				if len(d.coll[ty][0][k-1]) > 0 {
					spaces = append(spaces, scnSpace{ty: ty, t: 0, k: k})
				}
			}
		}
		rng.Shuffle(len(spaces), func(i, j int) { spaces[i], spaces[j] = spaces[j], spaces[i] })
		for i := 0; i < len(spaces) && i < *nsp; i++ {
			d.scanSpace(spaces[i], *thin)
		}
		for i := 0; i < *nconc; i++ {
			sp := spaces[rng.Intn(len(spaces))]
			rev := rng.Intn(2) == 0
			start := 0
			if rev {
				start = scnNPos + 1
			}
			var pat *scnPat
			if pl := d.pool(sp); rng.Intn(3) == 0 {
				pat = &pl.pats[rng.Intn(len(pl.pats))]
			}
			d.iterate(sp, start, 1+rng.Intn(3), rev, pat, true)
		}
	}
	for _, tw := range tws {
		tw.Close()
	}
	var pu []int
	for i := range scnPools {
		if poolsUsed[i] {
			pu = append(pu, i)
		}
	}
	summary(trace.M{"driver": "scansim", "eng": *et, "policy": *policy, "segments": *nseg, "iterations": d.nIter,
		"pages": d.nPage, "own_writes": d.nWrite, "foreign_writes": d.nForeign, "with_match": d.withMatch, "anchored_match": d.anchored,
		"reverse": d.revIters, "concurrent": d.concIters, "applied": wd.napply, "write_errors": d.nErr,
		"panics": wd.panics, "pools": pu})
	return nil
}
