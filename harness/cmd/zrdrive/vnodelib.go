package main

// Shared plumbing of the multi-process drivers crashsim (C06) and clustersim (C04):
// vnode child processes with a control pipe, a minimal RESP client, the operation
// generator of the ZOps model, the history recorder (parent order) and settle barriers.
// Nothing in here judges: it executes and records.

import (
	"bufio"
	"encoding/json"
	"errors"
	"fmt"
	"io"
	"math/rand"
	"net"
	"os"
	"os/exec"
	"path/filepath"
	"sort"
	"strconv"
	"strings"
	"sync"
	"sync/atomic"
	"syscall"
	"time"

	"zrverif/trace"
)

// ------------------------------------------------------------------ ports

// freePorts asks the kernel for n currently unused TCP ports.  Another process can still
// grab one before the child binds it; callers treat a child that does not come up as an
// environmental failure and retry with new ports.
func freePorts(n int) ([]int, error) {
	var ls []net.Listener
	var ps []int
	defer func() {
		for _, l := range ls {
			l.Close()
		}
	}()
	for i := 0; i < n; i++ {
		l, err := net.Listen("tcp", "127.0.0.1:0")
		if err != nil {
			return nil, err
		}
		ls = append(ls, l)
		ps = append(ps, l.Addr().(*net.TCPAddr).Port)
	}
	return ps, nil
}

// ------------------------------------------------------------------ RESP client

type respConn struct {
	c net.Conn
	r *bufio.Reader
}

func dialResp(port int, to time.Duration) (*respConn, error) {
	c, err := net.DialTimeout("tcp", "127.0.0.1:"+strconv.Itoa(port), to)
	if err != nil {
		return nil, err
	}
	return &respConn{c: c, r: bufio.NewReader(c)}, nil
}

func (rc *respConn) close() { rc.c.Close() }

type respErr string

func (e respErr) Error() string { return string(e) }

// do sends one command and reads one reply: int64, string (bulk/simple), nil, []interface{} or respErr.
func (rc *respConn) do(to time.Duration, args ...string) (interface{}, error) {
	var b strings.Builder
	fmt.Fprintf(&b, "*%d\r\n", len(args))
	for _, a := range args {
		fmt.Fprintf(&b, "$%d\r\n%s\r\n", len(a), a)
	}
	rc.c.SetDeadline(time.Now().Add(to))
	if _, err := io.WriteString(rc.c, b.String()); err != nil {
		return nil, err
	}
	return rc.read()
}

func (rc *respConn) read() (interface{}, error) {
	line, err := rc.r.ReadString('\n')
	if err != nil {
		return nil, err
	}
	line = strings.TrimRight(line, "\r\n")
	if line == "" {
		return nil, errors.New("empty reply line")
	}
	switch line[0] {
	case '+':
		return line[1:], nil
	case '-':
		return nil, respErr(line[1:])
	case ':':
		v, err := strconv.ParseInt(line[1:], 10, 64)
		return v, err
	case '$':
		n, err := strconv.Atoi(line[1:])
		if err != nil {
			return nil, err
		}
		if n < 0 {
			return nil, nil
		}
		buf := make([]byte, n+2)
		if _, err := io.ReadFull(rc.r, buf); err != nil {
			return nil, err
		}
		return string(buf[:n]), nil
	case '*':
		n, err := strconv.Atoi(line[1:])
		if err != nil {
			return nil, err
		}
		if n < 0 {
			return nil, nil
		}
		out := make([]interface{}, 0, n)
		for i := 0; i < n; i++ {
			v, err := rc.read()
			if err != nil {
				if _, ok := err.(respErr); !ok {
					return nil, err
				}
			}
			out = append(out, v)
		}
		return out, nil
	}
	return nil, fmt.Errorf("bad reply %q", line)
}

// ------------------------------------------------------------------ children

type vchild struct {
	id    int
	cmd   *exec.Cmd
	stdin io.WriteCloser
	lines chan string // control lines from fd 3 (all but STATUS)
	stat  chan string // STATUS lines
	done  chan struct{}
	alive bool
}

type vcluster struct {
	vnode   string // binary
	root    string
	n       int
	engine  string
	ports   [][3]int // redis, http, raft
	extra   []string // further vnode flags
	env     []string // further environment of every child (VAR=value)
	extraFor map[int][]string // further vnode flags of one node (a later flag overrides an earlier one)
	kids    []*vchild
	starts  int
	logSeq  int
	verbose bool
	sentMu  sync.Mutex
	sent    map[string]int
	wb      []trace.M // white-box restart / publish reports
}

func newCluster(vnode, root string, n int, engine string, extra []string) (*vcluster, error) {
	ps, err := freePorts(3 * n)
	if err != nil {
		return nil, err
	}
	cl := &vcluster{vnode: vnode, root: root, n: n, engine: engine, extra: extra, kids: make([]*vchild, n+1)}
	for i := 0; i < n; i++ {
		cl.ports = append(cl.ports, [3]int{ps[3*i], ps[3*i+1], ps[3*i+2]})
	}
	return cl, os.MkdirAll(root, 0755)
}

func (cl *vcluster) redisPort(i int) int { return cl.ports[i-1][0] }

// noteSent keeps the distinct kinds of early sends a node reported (with a count).
func (cl *vcluster) noteSent(i int, line string) {
	f := strings.Fields(line)
	key := fmt.Sprintf("%d %s %s", i, f[2], f[3]) // node, newleader=.., tvchanged=..
	cl.sentMu.Lock()
	if cl.sent == nil {
		cl.sent = map[string]int{}
	}
	cl.sent[key]++
	cl.sentMu.Unlock()
}

// noteWhiteBox keeps the restart reports (REPLAYED wal_last=.. raft_last=..: one per start on an
// existing directory) and the publish-before-save reports (PUBLISHED unsaved pub=.. saved=..).
func (cl *vcluster) noteWhiteBox(i int, line string) {
	kv := map[string]int64{}
	for _, f := range strings.Fields(line) {
		if j := strings.IndexByte(f, '='); j > 0 {
			n, _ := strconv.ParseInt(f[j+1:], 10, 64)
			kv[f[:j]] = n
		}
	}
	cl.sentMu.Lock()
	defer cl.sentMu.Unlock()
	if strings.HasPrefix(line, "REPLAYED ") {
		cl.wb = append(cl.wb, trace.M{"ev": "replayed", "n": i, "wal_last": kv["wal_last"], "raft_last": kv["raft_last"]})
	} else if len(cl.wb) >= 64 {
		return
	} else if strings.HasPrefix(line, "PUBLISHED ") {
		cl.wb = append(cl.wb, trace.M{"ev": "published", "n": i, "pub": kv["pub"], "saved": kv["saved"]})
	} else if strings.HasPrefix(line, "APPENDED ") {
		cl.wb = append(cl.wb, trace.M{"ev": "appended", "n": i, "ents_last": kv["ents_last"], "raft_last": kv["raft_last"], "snap": kv["snap"]})
	} else { // SNAPENTS: a Ready that carried a snapshot AND entries (counted as evidence; as "appended" line that holds)
		cl.wb = append(cl.wb, trace.M{"ev": "appended", "n": i, "ents_last": kv["ents_last"], "raft_last": kv["ents_last"], "snap": kv["snap"]})
	}
}

// sentEvents turns the white-box reports into trace events.
func (cl *vcluster) sentEvents() []trace.M {
	cl.sentMu.Lock()
	defer cl.sentMu.Unlock()
	var keys []string
	for k := range cl.sent {
		keys = append(keys, k)
	}
	sort.Strings(keys)
	out := append([]trace.M(nil), cl.wb...)
	for _, k := range keys {
		f := strings.Fields(k)
		n, _ := strconv.Atoi(f[0])
		out = append(out, trace.M{"ev": "sent", "n": n, "early": true, "newleader": f[1] == "newleader=true",
			"tvchanged": f[2] == "tvchanged=true", "count": cl.sent[k]})
	}
	return out
}

func (cl *vcluster) portsFlag() string {
	var t []string
	for _, p := range cl.ports {
		t = append(t, fmt.Sprintf("%d,%d,%d", p[0], p[1], p[2]))
	}
	return strings.Join(t, ";")
}

// start launches node i; env are extra VAR=value strings (VERIF_CRASH=...).
func (cl *vcluster) start(i int, env ...string) (*vchild, error) {
	args := []string{"-id", strconv.Itoa(i), "-n", strconv.Itoa(cl.n), "-root", cl.root,
		"-engine", cl.engine, "-ports", cl.portsFlag()}
	args = append(args, cl.extra...)
	args = append(args, cl.extraFor[i]...)
	cmd := exec.Command(cl.vnode, args...)
	cl.logSeq++
	lf, err := os.Create(filepath.Join(cl.root, fmt.Sprintf("node%d.%d.log", i, cl.logSeq)))
	if err != nil {
		return nil, err
	}
	cmd.Stdout, cmd.Stderr = lf, lf
	pr, pw, err := os.Pipe()
	if err != nil {
		return nil, err
	}
	cmd.ExtraFiles = []*os.File{pw}
	cmd.Env = append(os.Environ(), "VERIF_CTL_FD=3")
	cmd.Env = append(cmd.Env, cl.env...)
	cmd.Env = append(cmd.Env, env...)
	cmd.SysProcAttr = &syscall.SysProcAttr{Pdeathsig: syscall.SIGKILL}
	stdin, err := cmd.StdinPipe()
	if err != nil {
		return nil, err
	}
	if err := cmd.Start(); err != nil {
		pw.Close()
		pr.Close()
		lf.Close()
		return nil, err
	}
	pw.Close()
	lf.Close()
	k := &vchild{id: i, cmd: cmd, stdin: stdin, lines: make(chan string, 256), stat: make(chan string, 16),
		done: make(chan struct{}), alive: true}
	go func() {
		sc := bufio.NewScanner(pr)
		sc.Buffer(make([]byte, 1<<16), 1<<20)
		for sc.Scan() {
			ch := k.lines
			if strings.HasPrefix(sc.Text(), "STATUS ") {
				ch = k.stat
			}
			if strings.HasPrefix(sc.Text(), "REPLAYED ") || strings.HasPrefix(sc.Text(), "PUBLISHED ") ||
				strings.HasPrefix(sc.Text(), "APPENDED ") || strings.HasPrefix(sc.Text(), "SNAPENTS ") {
				cl.noteWhiteBox(i, sc.Text())
				continue
			}
			if strings.HasPrefix(sc.Text(), "SENT ") {
				// white-box report of processReady: messages of a Ready left before its persist
				cl.noteSent(i, sc.Text())
				continue
			}
			select {
			case ch <- sc.Text():
			default: // never block the reader
			}
		}
		pr.Close()
		cmd.Wait()
		close(k.done)
	}()
	cl.kids[i] = k
	cl.starts++
	return k, nil
}

// logTail returns the last 16 KB of the newest log file of node i.
func (cl *vcluster) logTail(i int) string {
	for q := cl.logSeq; q > 0; q-- {
		b, err := os.ReadFile(filepath.Join(cl.root, fmt.Sprintf("node%d.%d.log", i, q)))
		if err != nil {
			continue
		}
		if len(b) > 16384 {
			b = b[len(b)-16384:]
		}
		return string(b)
	}
	return ""
}

// waitLine returns the first control line with one of the prefixes; "" after the timeout
// or when the process is gone and the pipe is drained ("EXITED").
func (k *vchild) waitLine(to time.Duration, prefixes ...string) string {
	deadline := time.After(to)
	for {
		select {
		case ln := <-k.lines:
			for _, p := range prefixes {
				if strings.HasPrefix(ln, p) {
					return ln
				}
			}
		case <-k.done:
			// drain what is left
			for {
				select {
				case ln := <-k.lines:
					for _, p := range prefixes {
						if strings.HasPrefix(ln, p) {
							return ln
						}
					}
				default:
					return "EXITED"
				}
			}
		case <-deadline:
			return ""
		}
	}
}

func (k *vchild) send(line string) {
	if k != nil && k.alive {
		io.WriteString(k.stdin, line+"\n")
	}
}

func (k *vchild) exited() bool {
	select {
	case <-k.done:
		return true
	default:
		return false
	}
}

func (k *vchild) kill9() {
	if k == nil {
		return
	}
	if k.cmd.Process != nil {
		k.cmd.Process.Kill()
	}
	<-k.done
	k.alive = false
}

// term = graceful stop (SIGTERM -> server.Stop); falls back to kill -9 after the timeout.
func (k *vchild) term(to time.Duration) bool {
	if k == nil || !k.alive {
		return false
	}
	k.cmd.Process.Signal(syscall.SIGTERM)
	select {
	case <-k.done:
		k.alive = false
		return true
	case <-time.After(to):
		k.kill9()
		return false
	}
}

func (cl *vcluster) killAll() {
	for _, k := range cl.kids {
		if k != nil && k.alive {
			k.kill9()
		}
	}
}

type nodeStatus struct {
	Ready          bool   `json:"ready"`
	ReplayFinished bool   `json:"replay_finished"`
	IsLead         bool   `json:"is_lead"`
	Lead           uint64 `json:"lead"`
	Term           uint64 `json:"term"`
	Commit         uint64 `json:"commit"`
	Applied        uint64 `json:"applied"`
	LastIndex      uint64 `json:"last_index"`
	LastSnapIndex  uint64 `json:"last_snap_index"`
	Stopping       bool   `json:"stopping"`
	SnapIndex      uint64 `json:"snap_index"`
	SnapVoters     int    `json:"snap_voters"`
}

func (k *vchild) status(to time.Duration) (nodeStatus, bool) {
	var st nodeStatus
	if k == nil || !k.alive || k.exited() {
		return st, false
	}
	for len(k.stat) > 0 { // drop stale answers
		<-k.stat
	}
	k.send("status")
	var ln string
	select {
	case ln = <-k.stat:
	case <-k.done:
		return st, false
	case <-time.After(to):
		return st, false
	}
	if json.Unmarshal([]byte(ln[7:]), &st) != nil {
		return st, false
	}
	return st, true
}

// ------------------------------------------------------------------ the ZOps model's operations

type zop struct {
	T string `json:"t"`
	K string `json:"k"`
	V int64  `json:"v"`
}

const keyPrefix = "default:t:"

// genOp draws one operation; v values are unique per id so that replies are distinguishable.
func genOp(rng *rand.Rand, id int) zop {
	v := int64(1000 + id)
	sk := []string{"s1", "s2"}[rng.Intn(2)]
	switch x := rng.Intn(100); {
	case x < 22:
		return zop{"incr", sk, 0}
	case x < 32:
		return zop{"getset", sk, v}
	case x < 40:
		return zop{"setnx", sk, v}
	case x < 42:
		return zop{"set", sk, v}
	case x < 44:
		return zop{"setex", sk, v}
	case x < 46:
		return zop{"setifnx", sk, v}
	case x < 48:
		return zop{"setifxx", sk, v}
	case x < 54:
		return zop{"del", sk, 0}
	case x < 68:
		return zop{"hincrby", []string{"h1f1", "h1f2"}[rng.Intn(2)], int64(1 + rng.Intn(3))}
	case x < 84:
		return zop{"lpush", "l1", v}
	case x < 92:
		return zop{"lpop", "l1", 0}
	default:
		return zop{"rpop", "l1", 0}
	}
}

func (o zop) args() []string {
	switch o.T {
	case "incr", "del":
		return []string{o.T, keyPrefix + o.K}
	case "getset", "setnx", "set":
		return []string{o.T, keyPrefix + o.K, strconv.FormatInt(o.V, 10)}
	case "setex": // an expiry far beyond the run: the key behaves like one without expiry
		return []string{"setex", keyPrefix + o.K, "1000000", strconv.FormatInt(o.V, 10)}
	case "setifnx":
		return []string{"set", keyPrefix + o.K, strconv.FormatInt(o.V, 10), "NX"}
	case "setifxx":
		return []string{"set", keyPrefix + o.K, strconv.FormatInt(o.V, 10), "XX"}
	case "get":
		return []string{"get", keyPrefix + o.K}
	case "hget":
		return []string{"hget", keyPrefix + "h1", o.K[2:]}
	case "llen":
		return []string{"llen", keyPrefix + "l1"}
	case "pfadd": // one of a few fixed elements of the HyperLogLog key p1
		return []string{"pfadd", keyPrefix + "p1", "e" + strconv.FormatInt(o.V, 10)}
	case "hincrby":
		return []string{"hincrby", keyPrefix + "h1", o.K[2:], strconv.FormatInt(o.V, 10)}
	case "lpush":
		return []string{"lpush", keyPrefix + "l1", strconv.FormatInt(o.V, 10)}
	case "lpop", "rpop":
		return []string{o.T, keyPrefix + "l1"}
	}
	return nil
}

// replyInt maps a reply to the model's integer: nil -> 0, "OK" -> -1, numeric bulk -> its value.
func replyInt(v interface{}) (int64, bool) {
	switch x := v.(type) {
	case nil:
		return 0, true
	case int64:
		return x, true
	case string:
		if x == "OK" {
			return -1, true
		}
		n, err := strconv.ParseInt(x, 10, 64)
		return n, err == nil
	}
	return 0, false
}

type zstore struct {
	S1   int64   `json:"s1"`
	S2   int64   `json:"s2"`
	H1f1 int64   `json:"h1f1"`
	H1f2 int64   `json:"h1f2"`
	L1   []int64 `json:"l1"`
	P1   int64   `json:"p1"` // PFCOUNT of the HyperLogLog key
}

// dump reads every modelled location from one node.
func dumpNode(port int) (zstore, error) {
	st := zstore{L1: []int64{}}
	c, err := dialResp(port, 2*time.Second)
	if err != nil {
		return st, err
	}
	defer c.close()
	get := func(args ...string) (int64, error) {
		v, err := c.do(3*time.Second, args...)
		if err != nil {
			return 0, err
		}
		n, ok := replyInt(v)
		if !ok {
			return 0, fmt.Errorf("unexpected value %v for %v", v, args)
		}
		return n, nil
	}
	if st.S1, err = get("get", keyPrefix+"s1"); err != nil {
		return st, err
	}
	if st.S2, err = get("get", keyPrefix+"s2"); err != nil {
		return st, err
	}
	if st.H1f1, err = get("hget", keyPrefix+"h1", "f1"); err != nil {
		return st, err
	}
	if st.H1f2, err = get("hget", keyPrefix+"h1", "f2"); err != nil {
		return st, err
	}
	if st.P1, err = get("pfcount", keyPrefix+"p1"); err != nil {
		return st, err
	}
	v, err := c.do(3*time.Second, "lrange", keyPrefix+"l1", "0", "-1")
	if err != nil {
		return st, err
	}
	if arr, ok := v.([]interface{}); ok {
		for _, e := range arr {
			n, ok := replyInt(e)
			if !ok {
				return st, fmt.Errorf("unexpected list element %v", e)
			}
			st.L1 = append(st.L1, n)
		}
	}
	return st, nil
}

// ------------------------------------------------------------------ history (parent order)

type history struct {
	mu     sync.Mutex
	ev     []trace.M
	nextID int
	nOK    int
	nFail  int
	nRefused int
	nInv   int
}

func (h *history) add(m trace.M) {
	h.mu.Lock()
	h.ev = append(h.ev, m)
	h.mu.Unlock()
}

func (h *history) inv(id int, op zop) {
	h.mu.Lock()
	h.nInv++
	h.ev = append(h.ev, trace.M{"ev": "inv", "id": id, "op": op})
	h.mu.Unlock()
}

func (h *history) newID() int {
	h.mu.Lock()
	h.nextID++
	id := h.nextID
	h.mu.Unlock()
	return id
}

func (h *history) ok(id int, res int64) {
	h.mu.Lock()
	h.nOK++
	h.ev = append(h.ev, trace.M{"ev": "ok", "id": id, "res": res})
	h.mu.Unlock()
}

// refusals that queueRequest / GetHandleNode give before anything is proposed to raft
var definiteRefusals = []string{"the raft is not ready for write", "partition of the node has no leader",
	"namespace is not found", "the node stopped", "namespace is not ready"}

// fail records an operation that was not answered with a value.  A refusal given before the
// proposal is `refused` (must never take effect), everything else `fail` (may still take effect).
func (h *history) fail(id int, err error) {
	why := ""
	ev := "fail"
	if err != nil {
		why = err.Error()
		if len(why) > 80 {
			why = why[:80]
		}
		if _, isReply := err.(respErr); isReply && !strings.HasPrefix(why, "ERR :") {
			// ("ERR :..." is the merged error of a DEL / EXISTS sub-command: other sub-commands may
			// have taken effect, so it is never a refusal)
			for _, d := range definiteRefusals {
				if strings.Contains(why, d) {
					ev = "refused"
				}
			}
		}
	}
	h.mu.Lock()
	if ev == "fail" {
		h.nFail++
	} else {
		h.nRefused++
	}
	h.ev = append(h.ev, trace.M{"ev": ev, "id": id, "why": why})
	h.mu.Unlock()
}

// refuse records an operation that certainly has no effect (an unanswered read).
func (h *history) refuse(id int, err error) {
	why := ""
	if err != nil {
		why = err.Error()
		if len(why) > 80 {
			why = why[:80]
		}
	}
	h.mu.Lock()
	h.nRefused++
	h.ev = append(h.ev, trace.M{"ev": "refused", "id": id, "why": why})
	h.mu.Unlock()
}

// write stores the history; `extra` events (white-box reports that have no place in the
// parent's order) are put right after the first line.
func (h *history) write(path string, extra ...trace.M) error {
	w, err := trace.Create(path)
	if err != nil {
		return err
	}
	h.mu.Lock()
	for i, e := range h.ev {
		w.Emit(e)
		if i == 0 {
			for _, x := range extra {
				w.Emit(x)
			}
		}
	}
	h.mu.Unlock()
	return w.Close()
}

// ------------------------------------------------------------------ clients

type workload struct {
	cl      *vcluster
	h       *history
	seed    int64
	nCli    int
	opTO    time.Duration
	stop    chan struct{}
	wg      sync.WaitGroup
	mu      sync.Mutex
	issued  int
	maxOps  int  // stop by itself after this many invocations (0 = no limit)
	targets []int // nodes the clients may talk to (1-based), changed under mu
	gen     int
	leader  int32 // node that last reported itself leader (0 = unknown); see popOK
	think   int   // mean client think time in ms between operations (0 = none)
	burst   int   // the first `burst` operations of a run are issued without think time (batched applies)
	pf      bool  // also issue PFADD on the HyperLogLog key (histories that start empty only)
	reads   bool  // also issue GET / HGET / LLEN to the replica that reports itself leader
	isolated int32 // node currently cut off by the partition nemesis (0 = none)
	pollOn  bool
}

// popOK: LPOP / RPOP are answered nil by any replica whose LOCAL list is empty, and SETNX 0 by
// any replica that LOCALLY has the key, without going through raft (node/list.go
// preCheckListLength, node/keys.go setnxCommand) - known finding c04-pop-precheck-local-read.
// Avoid rule of the general corpus: these three are only sent to the replica that currently
// reports itself leader.
func (w *workload) popOK(target int) bool {
	if int(atomic.LoadInt32(&w.isolated)) == target {
		return false // a leader that was cut off still reports itself leader for a while
	}
	return w.cl.n == 1 || int(atomic.LoadInt32(&w.leader)) == target
}

func isRead(t string) bool { return t == "get" || t == "hget" || t == "llen" }

// pollLeader keeps the leader hint fresh (status of every live child every 60 ms).
func (w *workload) pollLeader(stop chan struct{}) {
	for {
		select {
		case <-stop:
			return
		case <-time.After(60 * time.Millisecond):
		}
		ld := 0
		for i := 1; i <= w.cl.n; i++ {
			k := w.cl.kids[i]
			if k == nil || !k.alive || k.exited() {
				continue
			}
			if st, ok := k.status(time.Second); ok && st.IsLead {
				ld = i
			}
		}
		atomic.StoreInt32(&w.leader, int32(ld))
	}
}

func newWorkload(cl *vcluster, h *history, seed int64, nCli int) *workload {
	w := &workload{cl: cl, h: h, seed: seed, nCli: nCli, opTO: 3 * time.Second}
	for i := 1; i <= cl.n; i++ {
		w.targets = append(w.targets, i)
	}
	return w
}

func (w *workload) setTargets(t []int) {
	w.mu.Lock()
	w.targets = append([]int(nil), t...)
	w.mu.Unlock()
}

func (w *workload) pickTarget(rng *rand.Rand) int {
	w.mu.Lock()
	defer w.mu.Unlock()
	if len(w.targets) == 0 {
		return 0
	}
	return w.targets[rng.Intn(len(w.targets))]
}

// run starts the client goroutines; they stop when stopNow is called or maxOps invocations
// were issued.  Every invocation, answer and failure is recorded in parent order.
func (w *workload) run(maxOps int) {
	w.stop = make(chan struct{})
	w.mu.Lock()
	w.issued = 0
	w.maxOps = maxOps
	w.gen++
	gen := w.gen
	w.mu.Unlock()
	if w.cl.n > 1 {
		go w.pollLeader(w.stop)
	}
	for c := 0; c < w.nCli; c++ {
		w.wg.Add(1)
		go func(c int) {
			defer w.wg.Done()
			rng := rand.New(rand.NewSource(w.seed*1000 + int64(gen)*37 + int64(c)))
			var conn *respConn
			target := 0
			defer func() {
				if conn != nil {
					conn.close()
				}
			}()
			for {
				select {
				case <-w.stop:
					return
				default:
				}
				inBurst := w.burst > 0 && w.issuedOps() < w.burst
				if inBurst && conn != nil && !w.popOK(target) {
					conn.close() // the burst of batchable commands goes to the leader (DEL is refused elsewhere)
					conn = nil
				}
				if conn == nil {
					target = w.pickTarget(rng)
					if ld := int(atomic.LoadInt32(&w.leader)); inBurst && ld != 0 {
						target = ld
					}
					if target == 0 {
						time.Sleep(20 * time.Millisecond)
						continue
					}
					var err error
					conn, err = dialResp(w.cl.redisPort(target), time.Second)
					if err != nil {
						conn = nil
						time.Sleep(30 * time.Millisecond)
						continue
					}
				}
				if w.think > 0 && w.issuedOps() >= w.burst {
					time.Sleep(time.Duration(w.think/2+rng.Intn(w.think+1)) * time.Millisecond)
				}
				w.mu.Lock()
				if w.maxOps > 0 && w.issued >= w.maxOps {
					w.mu.Unlock()
					return
				}
				w.issued++
				w.mu.Unlock()
				id := w.h.newID()
				op := genOp(rng, id)
				if inBurst {
					// SET / DEL on different keys, issued concurrently without think time: several of them
					// end up in one Ready and are applied as one write batch (CommitBatch answers them)
					op = []zop{{"set", "s1", int64(1000 + id)}, {"del", "s2", 0}, {"set", "s2", int64(1000 + id)}, {"del", "s1", 0}}[rng.Intn(4)]
					if w.issuedOps() > w.burst/2 {
						// second half: contention on ONE key - conditional SETs, SETEX and DEL by all clients
						// at once; of the conditional SETs that meet the same state only one may win
						v := int64(1000 + id)
						op = []zop{{"setifnx", "s1", v}, {"setifnx", "s1", v}, {"setifnx", "s1", v}, {"del", "s1", 0},
							{"setifxx", "s1", v}, {"setex", "s1", v}}[rng.Intn(6)]
					}
				} else if w.pf && rng.Intn(9) == 0 {
					op = zop{"pfadd", "p1", int64(1 + rng.Intn(8))}
				} else if w.reads && rng.Intn(5) == 0 && w.popOK(target) {
					// a read served by the replica that reports itself leader (no stale reads allowed)
					op = []zop{{"get", "s1", 0}, {"get", "s2", 0}, {"hget", "h1f1", 0}, {"hget", "h1f2", 0}, {"llen", "l1", 0}}[rng.Intn(5)]
				}
				for (op.T == "lpop" || op.T == "rpop" || op.T == "setnx") && !w.popOK(target) {
					op = genOp(rng, id)
				}
				w.h.inv(id, op)
				v, err := conn.do(w.opTO, op.args()...)
				if err == nil {
					if n, ok := replyInt(v); ok {
						if op.T == "pfadd" && (n == 0 || n == 1) {
							n = 1 // the changed / unchanged answer of PFADD is not checked (see ZOps)
						}
						w.h.ok(id, n)
						if rng.Intn(12) == 0 { // move to another node now and then
							conn.close()
							conn = nil
						}
						continue
					}
					err = fmt.Errorf("unexpected reply %v", v)
				}
				// an error reply or a broken connection: the operation may or may not take effect
				if isRead(op.T) {
					w.h.refuse(id, err) // an unanswered read has no effect
				} else {
					w.h.fail(id, err)
				}
				conn.close()
				conn = nil
				// Back off until some node takes a write to an unmodelled key again: every failed
				// operation stays "may still take effect" for the validator, so the clients must not
				// pile them up while the group has no leader.
				for probes := 0; ; probes++ {
					select {
					case <-w.stop:
						return
					default:
					}
					time.Sleep(40 * time.Millisecond)
					t := w.pickTarget(rng)
					if t == 0 {
						continue
					}
					pc, err := dialResp(w.cl.redisPort(t), 500*time.Millisecond)
					if err != nil {
						continue
					}
					v, err := pc.do(1500*time.Millisecond, "set", keyPrefix+"warm", "p")
					if err == nil && v == "OK" {
						conn, target = pc, t
						break
					}
					pc.close()
				}
			}
		}(c)
	}
}

func (w *workload) issuedOps() int {
	w.mu.Lock()
	defer w.mu.Unlock()
	return w.issued
}

func (w *workload) stopNow() {
	select {
	case <-w.stop:
	default:
		close(w.stop)
	}
	w.wg.Wait()
}

func (w *workload) wait() { w.wg.Wait() }

// ------------------------------------------------------------------ barriers

// waitWritable issues writes to an unmodelled key until one node answers OK; returns that node.
func (cl *vcluster) waitWritable(to time.Duration, nodes []int) int {
	deadline := time.Now().Add(to)
	n := 0
	for time.Now().Before(deadline) {
		for _, i := range nodes {
			k := cl.kids[i]
			if k == nil || !k.alive || k.exited() {
				continue
			}
			c, err := dialResp(cl.redisPort(i), 500*time.Millisecond)
			if err != nil {
				continue
			}
			n++
			v, err := c.do(1500*time.Millisecond, "set", keyPrefix+"warm", strconv.Itoa(n))
			c.close()
			if err == nil && v == "OK" {
				return i
			}
		}
		time.Sleep(100 * time.Millisecond)
	}
	return 0
}

// settle: a write barrier through the group, then every live node reports the same applied
// index twice in a row (nothing in flight).  Returns false if that did not happen in time
// (environmental: the sub-run is skipped, never judged).
func (cl *vcluster) settle(to time.Duration) bool {
	var live []int
	for i := 1; i <= cl.n; i++ {
		if k := cl.kids[i]; k != nil && k.alive && !k.exited() {
			live = append(live, i)
		}
	}
	if len(live) != cl.n {
		return false
	}
	deadline := time.Now().Add(to)
	if cl.waitWritable(to, live) == 0 {
		return false
	}
	var last uint64
	same := 0
	for time.Now().Before(deadline) {
		var a []uint64
		okAll := true
		for _, i := range live {
			st, ok := cl.kids[i].status(2 * time.Second)
			if !ok || !st.Ready || !st.ReplayFinished || st.Applied == 0 || st.Applied < st.Commit {
				okAll = false
				break
			}
			a = append(a, st.Applied)
		}
		if okAll {
			eq := true
			for _, x := range a {
				if x != a[0] {
					eq = false
				}
			}
			if eq {
				if a[0] == last {
					same++
				} else {
					last, same = a[0], 1
				}
				if same >= 2 {
					return true
				}
			} else {
				same = 0
			}
		}
		time.Sleep(60 * time.Millisecond)
	}
	return false
}

// appliedAll returns the applied index of every node (nil if one cannot be asked).
func (cl *vcluster) appliedAll() []uint64 {
	var a []uint64
	for i := 1; i <= cl.n; i++ {
		st, ok := cl.kids[i].status(2 * time.Second)
		if !ok {
			return nil
		}
		a = append(a, st.Applied)
	}
	return a
}

// readAll dumps every node into the history; false if a node could not be read.  The dumps
// only count if no replica applied anything while they were taken (a straggling proposal
// would make the replicas look different); otherwise the barrier is repeated.
func (cl *vcluster) readAll(h *history) bool {
	for try := 0; try < 4; try++ {
		before := cl.appliedAll()
		tmp := &history{}
		if !cl.readAllOnce(tmp) {
			return false
		}
		after := cl.appliedAll()
		same := before != nil && after != nil
		for i := 0; same && i < len(before); i++ {
			if before[i] != after[i] || before[i] != before[0] {
				same = false
			}
		}
		if same {
			for _, e := range tmp.ev {
				h.add(e)
			}
			return true
		}
		if !cl.settle(60 * time.Second) {
			return false
		}
	}
	return false
}

// setStale switches follower reads on every live node (needed to dump the followers).
func (cl *vcluster) setStale(on bool) {
	arg := "off"
	if on {
		arg = "on"
	}
	for i := 1; i <= cl.n; i++ {
		if k := cl.kids[i]; k != nil && k.alive && !k.exited() {
			k.send("stale " + arg)
			k.waitLine(2*time.Second, "STALE ")
		}
	}
}

func (cl *vcluster) readAllOnce(h *history) bool {
	cl.setStale(true)
	defer cl.setStale(false)
	for i := 1; i <= cl.n; i++ {
		var st zstore
		var err error
		for try := 0; try < 5; try++ {
			st, err = dumpNode(cl.redisPort(i))
			if err == nil {
				break
			}
			time.Sleep(100 * time.Millisecond)
		}
		if err != nil {
			return false
		}
		h.add(trace.M{"ev": "read", "n": i, "st": st})
	}
	return true
}

func emptyStore() zstore { return zstore{L1: []int64{}} }
