package main

// ckptsim: drives real key-value stores (node.KVStore = rockredis over an engine) through
// the checkpoint life cycle of spec/ZCkpt.tla (property C14): writes of every data type,
// Backup (begin / notify / done), raft-snapshot bookkeeping (SetLatestSnapIndex), Restore on
// the same store after further writes, fetch of a checkpoint directory by a second store
// followed by Restore there, repeated Restore, writes after Restore followed by Restore
// again (hard-link sharing), engine flush/compaction.  Two sources of behaviours:
//   -sim <prefix>   behaviours written by `tlc -simulate file=<prefix>,num=N` for MC_ZCkpt
//   -random N       N seeded random histories
// After every step the driver logs digests of the store's logical content (all types, expiry
// flags, HLL counts read through the cache) and - at backup / restore / checkpoint dumps - of
// the raw engine content.  spec/ZCkptTrace.tla decides; the driver never judges.

import (
	"bufio"
	"crypto/sha1"
	"encoding/hex"
	"flag"
	"fmt"
	"io"
	"io/ioutil"
	"log"
	"math/rand"
	"os"
	"path/filepath"
	"regexp"
	"sort"
	"strconv"
	"strings"

	"github.com/youzan/ZanRedisDB/common"
	"github.com/youzan/ZanRedisDB/engine"
	"github.com/youzan/ZanRedisDB/node"
	"github.com/youzan/ZanRedisDB/rockredis"
	"github.com/youzan/ZanRedisDB/slow"
	"zrverif/graph"
	"zrverif/trace"
)

func init() { commands["ckptsim"] = ckptsim }

const ckBaseTs = int64(1600000000) * 1e9 // log time of entry 0 (2020); expiries lie >= 20 years later

var ckKeys = []string{"t:a", "t:b", "u:c"}
var ckCntKeys = []string{"t:n1", "u:n2"} // counters (kv keyspace only)
// HyperLogLog keys live in the kv keyspace too, but their writes sit in rockredis' HLL write
// cache until it is flushed (Backup, close); they are only read through PFCOUNT, which looks
// into the cache.  (A plain GET of such a key and the table key counter change at flush time;
// both are left to the raw engine digest taken after the flush.)
var ckHllKeys = []string{"t:h1", "u:h2"}

type ckName struct{ t, i uint64 }

type ckOrigin struct {
	s     int
	epoch int
}

type ckStore struct {
	id      int
	dir     string
	kv      *node.KVStore
	term    uint64
	log     []int // ids applied = content
	epoch   int
	bi      *rockredis.BackupInfo
	biName  ckName
	waited  bool
	mterm   int // model-level term / index (TLC-generated behaviours)
	midx    int
	lastRes *ckName
}

type ckDrv struct {
	eng     string
	base    string
	seed    int64
	keep    int
	tw      *trace.Writer
	rng     *rand.Rand
	stores  map[int]*ckStore
	gterm   uint64
	mgterm  int
	nextID  int
	nseg    int
	origin  map[ckName]ckOrigin
	epochs  map[ckOrigin][]int // content sequence of (store, epoch) as far as it has grown
	mnames  map[[2]int]ckName  // model name -> real name
	nfetch  int
	cnt     map[string]int
	sample  []string
	scratch int
}

func (d *ckDrv) count(k string) { d.cnt[k]++ }

func ckOpen(eng, dir string, keep int) (*node.KVStore, error) {
	opts := &node.KVOptions{DataDir: dir, EngType: rockredis.EngType, ExpirationPolicy: common.WaitCompact,
		DataVersion: common.ValueHeaderV1, KeepBackup: keep}
	opts.RockOpts.EngineType = eng
	return node.NewKVStore(opts)
}

func (d *ckDrv) closeAll() {
	for _, s := range d.stores {
		if s.bi != nil {
			s.bi.GetResult()
			s.bi = nil
		}
		if s.kv != nil {
			s.kv.Close()
		}
		os.RemoveAll(s.dir)
	}
	d.stores = map[int]*ckStore{}
}

func (d *ckDrv) reset() error {
	d.closeAll()
	d.nseg++
	d.gterm = 2
	d.mgterm = 2
	d.nextID = 1
	d.origin = map[ckName]ckOrigin{}
	d.epochs = map[ckOrigin][]int{}
	d.mnames = map[[2]int]ckName{}
	for id := 1; id <= 2; id++ {
		dir := filepath.Join(d.base, fmt.Sprintf("seg%d-s%d", d.nseg, id))
		kv, err := ckOpen(d.eng, dir, d.keep)
		if err != nil {
			return err
		}
		d.stores[id] = &ckStore{id: id, dir: dir, kv: kv, term: uint64(id), mterm: id}
	}
	d.tw.Emit(trace.M{"ev": "reset", "eng": d.eng, "keep": d.keep})
	return nil
}

// ------------------------------------------------------------------ content digests

func flag01(ttl int64, err error) string {
	if err != nil {
		return "E"
	}
	if ttl > 0 {
		return "T"
	}
	return "-"
}

func ckLogical(kv *node.KVStore) string {
	var out []string
	for _, k := range ckKeys {
		key := []byte(k)
		v, err := kv.KVGet(key)
		out = append(out, fmt.Sprintf("kv %s=%q %v %s", k, v, err, flag01(kv.KVTtl(key))))
		n, hs, err := kv.HGetAll(key)
		var f []string
		for _, r := range hs {
			f = append(f, string(r.Rec.Key)+"="+string(r.Rec.Value))
		}
		sort.Strings(f)
		out = append(out, fmt.Sprintf("hash %s n=%d %v %v %s", k, n, f, err, flag01(kv.HashTtl(key))))
		l, err := kv.LRange(key, 0, -1)
		var ls []string
		for _, x := range l {
			ls = append(ls, string(x))
		}
		out = append(out, fmt.Sprintf("list %s %v %v %s", k, ls, err, flag01(kv.ListTtl(key))))
		ms, err := kv.SMembers(key)
		var m []string
		for _, x := range ms {
			m = append(m, string(x))
		}
		sort.Strings(m)
		out = append(out, fmt.Sprintf("set %s %v %v %s", k, m, err, flag01(kv.SetTtl(key))))
		zs, err := kv.ZRange(key, 0, -1)
		var z []string
		for _, x := range zs {
			z = append(z, fmt.Sprintf("%s:%v", x.Member, x.Score))
		}
		out = append(out, fmt.Sprintf("zset %s %v %v %s", k, z, err, flag01(kv.ZSetTtl(key))))
	}
	for _, k := range ckHllKeys {
		c, err := kv.PFCount(ckBaseTs, []byte(k))
		out = append(out, fmt.Sprintf("hll %s %d %v", k, c, err))
	}
	for _, k := range ckCntKeys {
		v, err := kv.KVGet([]byte(k))
		out = append(out, fmt.Sprintf("counter %s=%q %v %s", k, v, err, flag01(kv.KVTtl([]byte(k)))))
	}
	return strings.Join(out, "\n")
}

func digest(s string) string {
	h := sha1.Sum([]byte(s))
	return hex.EncodeToString(h[:8])
}

// ckRaw digests every record of the engine (key and value bytes, order independent).
func ckRaw(kv *node.KVStore) string {
	it, err := kv.NewDBRangeIterator(nil, nil, common.RangeClose, false)
	if err != nil {
		return "ERR " + err.Error()
	}
	var recs []string
	for ; it.Valid(); it.Next() {
		recs = append(recs, string(it.Key())+"\x00=\x00"+string(it.Value()))
	}
	it.Close()
	sort.Strings(recs)
	h := sha1.New()
	for _, r := range recs {
		fmt.Fprintf(h, "%d:", len(r))
		io.WriteString(h, r)
	}
	return fmt.Sprintf("%d-%s", len(recs), hex.EncodeToString(h.Sum(nil)[:8]))
}

func (d *ckDrv) dump(s *ckStore) string {
	txt := ckLogical(s.kv)
	if len(d.sample) < 2 && len(s.log) >= 6 {
		d.sample = append(d.sample, txt)
	}
	return digest(txt)
}

func (d *ckDrv) listing(s *ckStore) [][2]uint64 {
	res := [][2]uint64{}
	ents, _ := ioutil.ReadDir(s.kv.GetBackupDir())
	for _, e := range ents {
		if !e.IsDir() {
			continue
		}
		p := strings.SplitN(e.Name(), "-", 2)
		if len(p) != 2 {
			continue
		}
		t, e1 := strconv.ParseUint(p[0], 16, 64)
		i, e2 := strconv.ParseUint(p[1], 16, 64)
		if e1 != nil || e2 != nil {
			continue
		}
		res = append(res, [2]uint64{t, i})
	}
	return res
}

func (d *ckDrv) ls(s *ckStore) {
	if s.bi != nil {
		return
	}
	d.tw.Emit(trace.M{"ev": "ls", "s": s.id, "ck": d.listing(s), "snap": 0})
}

// ------------------------------------------------------------------ writes

// applyOp executes log entry `id` on the store.  The operation, its arguments and its log
// timestamp are a function of (seed, id) only, so a replayed entry is the same entry.
func (d *ckDrv) applyOp(kv *node.KVStore, id int) (string, string) {
	r := rand.New(rand.NewSource(ckMix(d.seed, int64(id))))
	ts := ckBaseTs + int64(id)*1000000
	key := []byte(ckKeys[r.Intn(len(ckKeys))])
	arg := func(p string) []byte { return []byte(p + strconv.Itoa(r.Intn(6))) }
	far := int64(20*365*86400) + int64(r.Intn(1000))
	var err error
	var desc string
	switch k := r.Intn(30); k {
	case 0, 1:
		desc = "set"
		err = kv.KVSet(ts, key, []byte("v"+strconv.Itoa(id)))
	case 2, 3, 4:
		desc = "incr"
		key = []byte(ckCntKeys[r.Intn(len(ckCntKeys))])
		if r.Intn(3) == 0 {
			_, err = kv.IncrBy(ts, key, int64(2+r.Intn(5)))
		} else {
			_, err = kv.Incr(ts, key)
		}
	case 5:
		desc = "append"
		_, err = kv.Append(ts, key, []byte("+"+strconv.Itoa(id%10)))
	case 6:
		desc = "setex"
		err = kv.SetEx(ts, key, far, []byte("x"+strconv.Itoa(id)))
	case 7:
		desc = "expire"
		_, err = kv.Expire(ts, key, far)
	case 8:
		desc = "del"
		_, err = kv.DelKeys(key)
	case 9, 10:
		desc = "hset"
		_, err = kv.HSet(ts, false, key, arg("f"), []byte("h"+strconv.Itoa(id)))
	case 11:
		desc = "hincrby"
		_, err = kv.HIncrBy(ts, key, []byte("n"), int64(1+r.Intn(3)))
	case 12:
		desc = "hdel"
		_, err = kv.HDel(ts, key, arg("f"))
	case 13:
		desc = "hexpire"
		_, err = kv.HExpire(ts, key, far)
	case 14, 15:
		desc = "rpush"
		_, err = kv.RPush(ts, key, []byte("e"+strconv.Itoa(id)))
	case 16:
		desc = "lpush"
		_, err = kv.LPush(ts, key, []byte("e"+strconv.Itoa(id)), []byte("d"+strconv.Itoa(id)))
	case 17:
		desc = "lpop"
		_, err = kv.LPop(ts, key)
	case 18:
		desc = "lexpire"
		_, err = kv.LExpire(ts, key, far)
	case 19, 20:
		desc = "sadd"
		_, err = kv.SAdd(ts, key, arg("m"))
	case 21:
		desc = "srem"
		_, err = kv.SRem(ts, key, arg("m"))
	case 22, 23:
		desc = "zadd"
		_, err = kv.ZAdd(ts, key, common.ScorePair{Score: float64(r.Intn(50)), Member: arg("z")})
	case 24:
		desc = "zincrby"
		_, err = kv.ZIncrBy(ts, key, 1.5, arg("z"))
	case 25:
		desc = "zrem"
		_, err = kv.ZRem(ts, key, arg("z"))
	case 26, 27:
		desc = "pfadd"
		key = []byte(ckHllKeys[r.Intn(len(ckHllKeys))])
		_, err = kv.PFAdd(ts, key, []byte("p"+strconv.Itoa(id)), []byte("q"+strconv.Itoa(r.Intn(40))))
	case 28:
		desc = "persist"
		_, err = kv.Persist(ts, key)
	case 29:
		desc = "clear"
		switch r.Intn(4) {
		case 0:
			_, err = kv.HClear(ts, key)
		case 1:
			_, err = kv.LClear(ts, key)
		case 2:
			_, err = kv.SClear(ts, key)
		default:
			_, err = kv.ZClear(ts, key)
		}
	}
	d.count("op_" + desc)
	return desc + " " + string(key), ckErrStr(err)
}

func (d *ckDrv) applyLoopRuns(s *ckStore) bool { return s.bi == nil || s.waited }

func (d *ckDrv) write(s *ckStore, id int) {
	if !d.applyLoopRuns(s) {
		return
	}
	desc, es := d.applyOp(s.kv, id)
	s.log = append(s.log, id)
	k := ckOrigin{s.id, s.epoch}
	d.epochs[k] = append(d.epochs[k], id)
	if id >= d.nextID {
		d.nextID = id + 1
	}
	d.tw.Emit(trace.M{"ev": "write", "s": s.id, "id": id, "op": desc, "err": es, "dump": d.dump(s)})
	d.count("writes")
}

func (d *ckDrv) writeFresh(s *ckStore, n int) {
	for k := 0; k < n; k++ {
		d.write(s, d.nextID)
	}
}

func (d *ckDrv) compact(s *ckStore) {
	if !d.applyLoopRuns(s) {
		return
	}
	s.kv.CompactAllRange()
	d.tw.Emit(trace.M{"ev": "compact", "s": s.id, "dump": d.dump(s)})
	d.count("compacts")
}

// ------------------------------------------------------------------ backup life cycle

func (d *ckDrv) bbegin(s *ckStore) bool {
	if s.bi != nil || len(s.log) == 0 {
		return false
	}
	name := ckName{s.term, uint64(len(s.log))}
	if os.Getenv("CK_DEBUG") != "" {
		fmt.Fprintln(os.Stderr, "BEFORE BACKUP\n"+ckLogical(s.kv))
	}
	bi := s.kv.Backup(name.t, name.i)
	if os.Getenv("CK_DEBUG") != "" {
		fmt.Fprintln(os.Stderr, "AFTER BACKUP\n"+ckLogical(s.kv))
	}
	// the apply loop is blocked here; Backup has flushed the HLL cache synchronously
	d.tw.Emit(trace.M{"ev": "bbegin", "s": s.id, "t": name.t, "i": name.i, "ok": bi != nil,
		"dump": d.dump(s), "raw": ckRaw(s.kv)})
	if bi == nil {
		return false
	}
	s.bi, s.biName, s.waited = bi, name, false
	d.origin[name] = ckOrigin{s.id, s.epoch}
	d.count("backups")
	return true
}

func (d *ckDrv) bnotify(s *ckStore) {
	if s.bi == nil || s.waited {
		return
	}
	s.bi.WaitReady()
	s.waited = true
	d.tw.Emit(trace.M{"ev": "bnotify", "s": s.id})
}

func (d *ckDrv) bdone(s *ckStore) {
	if s.bi == nil {
		return
	}
	_, err := s.bi.GetResult()
	s.bi = nil
	d.tw.Emit(trace.M{"ev": "bdone", "s": s.id, "t": s.biName.t, "i": s.biName.i, "err": ckErrStr(err)})
	d.ls(s)
}

func (d *ckDrv) settle(s *ckStore) {
	if s.bi != nil {
		d.bnotify(s)
		d.bdone(s)
	}
}

func (d *ckDrv) has(s *ckStore, n ckName) bool {
	for _, x := range d.listing(s) {
		if x[0] == n.t && x[1] == n.i {
			return true
		}
	}
	return false
}

func (d *ckDrv) snap(s *ckStore, n ckName) {
	d.settle(s)
	if !d.has(s, n) {
		return
	}
	s.kv.SetLatestSnapIndex(n.i)
	d.tw.Emit(trace.M{"ev": "snap", "s": s.id, "t": n.t, "i": n.i})
	d.count("snaps")
}

func (d *ckDrv) restore(s *ckStore, n ckName) bool {
	d.settle(s)
	d.ls(s)
	if !d.has(s, n) {
		return false
	}
	err := s.kv.Restore(n.t, n.i)
	if err == nil {
		o := d.origin[n]
		src := d.epochs[o]
		if int(n.i) <= len(src) {
			s.log = append([]int(nil), src[:n.i]...)
		} else {
			s.log = make([]int, n.i) // cannot happen; keeps the index right
		}
		d.gterm++
		s.term = d.gterm
		s.epoch++
		d.epochs[ckOrigin{s.id, s.epoch}] = append([]int(nil), s.log...)
		s.lastRes = &ckName{n.t, n.i}
	}
	d.tw.Emit(trace.M{"ev": "restore", "s": s.id, "t": n.t, "i": n.i, "err": ckErrStr(err),
		"dump": d.dump(s), "raw": ckRaw(s.kv)})
	d.ls(s)
	d.count("restores")
	return err == nil
}

// replay re-applies up to n of the entries that followed checkpoint `name` in the history it
// was taken from (what a restarted node does with its raft log after restoring a snapshot).
func (d *ckDrv) replay(s *ckStore, name ckName, n int) {
	src := d.epochs[d.origin[name]]
	for k := 0; k < n; k++ {
		pos := len(s.log)
		if pos >= len(src) || pos < int(name.i) {
			return
		}
		// only while the store still follows that history
		same := true
		for j := 0; j < pos; j++ {
			if s.log[j] != src[j] {
				same = false
				break
			}
		}
		if !same {
			return
		}
		d.write(s, src[pos])
		d.count("replayed")
	}
}

func copyTree(src, dst string) error {
	return filepath.Walk(src, func(p string, fi os.FileInfo, err error) error {
		if err != nil {
			return err
		}
		rel, _ := filepath.Rel(src, p)
		to := filepath.Join(dst, rel)
		if fi.IsDir() {
			return os.MkdirAll(to, 0755)
		}
		in, err := os.Open(p)
		if err != nil {
			return err
		}
		defer in.Close()
		out, err := os.Create(to)
		if err != nil {
			return err
		}
		_, err = io.Copy(out, in)
		if cerr := out.Close(); err == nil {
			err = cerr
		}
		return err
	})
}

// ckdump opens a byte copy of checkpoint n of store s as a store of its own and logs its
// content; the checkpoint directory itself is only read.
func (d *ckDrv) ckdump(s *ckStore, n ckName) {
	if s.bi != nil || !d.has(s, n) {
		return
	}
	d.scratch++
	tmp := filepath.Join(d.base, fmt.Sprintf("ckd%d", d.scratch))
	defer os.RemoveAll(tmp)
	dataDir, _ := engine.GetDataDirFromBase(d.eng, tmp)
	src := filepath.Join(s.kv.GetBackupDir(), rockredis.GetCheckpointDir(n.t, n.i))
	dump, raw := "", ""
	err := copyTree(src, dataDir)
	if err == nil {
		os.Remove(filepath.Join(dataDir, "source_node_info"))
		var kv *node.KVStore
		kv, err = ckOpen(d.eng, tmp, 0)
		if err == nil {
			dump, raw = digest(ckLogical(kv)), ckRaw(kv)
			kv.Close()
		}
	}
	d.tw.Emit(trace.M{"ev": "ckdump", "s": s.id, "t": n.t, "i": n.i, "err": ckErrStr(err), "dump": dump, "raw": raw})
	d.count("ckdumps")
}

func (d *ckDrv) ckdumpAll(s *ckStore) {
	d.settle(s)
	d.ls(s)
	for _, x := range d.listing(s) {
		d.ckdump(s, ckName{x[0], x[1]})
	}
}

func (d *ckDrv) fetch(from, to *ckStore, n ckName) bool {
	d.settle(from)
	d.settle(to)
	d.ls(from)
	if !d.has(from, n) {
		return false
	}
	reused, err := node.VerifCkptFetchLocal(to.kv, from.dir, n.t, n.i, make(chan struct{}))
	d.tw.Emit(trace.M{"ev": "fetch", "from": from.id, "to": to.id, "t": n.t, "i": n.i, "err": ckErrStr(err),
		"reused": reused != ""})
	d.ls(to)
	d.count("fetches")
	if reused != "" {
		d.count("fetch_reused_links")
	}
	return err == nil
}

// ------------------------------------------------------------------ behaviours

func (d *ckDrv) randName(s *ckStore) (ckName, bool) {
	l := d.listing(s)
	if len(l) == 0 {
		return ckName{}, false
	}
	x := l[d.rng.Intn(len(l))]
	return ckName{x[0], x[1]}, true
}

func (d *ckDrv) randomHistory(steps int) {
	s1, s2 := d.stores[1], d.stores[2]
	d.writeFresh(s1, 3+d.rng.Intn(6))
	for k := 0; k < steps; k++ {
		s := s1
		if d.rng.Intn(5) == 0 && len(s2.log) > 0 {
			s = s2
		}
		switch c := d.rng.Intn(100); {
		case c < 34:
			d.writeFresh(s, 1+d.rng.Intn(5))
		case c < 50:
			if s.bi == nil {
				if d.bbegin(s) {
					d.bnotify(s)
					// the apply loop continues at once, while the checkpoint is still being written
					d.writeFresh(s, 1+d.rng.Intn(4))
				}
			} else {
				d.settle(s)
			}
		case c < 56:
			d.settle(s)
			// the raft snapshot recorded is (almost always) the newest checkpoint
			l := d.listing(s)
			if len(l) > 0 {
				x := l[len(l)-1]
				if d.rng.Intn(4) == 0 {
					x = l[d.rng.Intn(len(l))]
				}
				d.snap(s, ckName{x[0], x[1]})
			}
		case c < 70:
			if n, ok := d.randName(s); ok {
				if d.rng.Intn(3) == 0 && s.lastRes != nil {
					n = *s.lastRes // restore the same checkpoint again
				}
				if d.restore(s, n) {
					switch d.rng.Intn(3) {
					case 0:
						d.replay(s, n, 1+d.rng.Intn(6))
					case 1:
						d.writeFresh(s, 1+d.rng.Intn(4))
					}
				}
			}
		case c < 80:
			if n, ok := d.randName(s1); ok {
				if d.fetch(s1, s2, n) && d.restore(s2, n) {
					if d.rng.Intn(2) == 0 {
						d.replay(s2, n, 1+d.rng.Intn(5))
					} else {
						d.writeFresh(s2, 1+d.rng.Intn(3))
					}
				}
			}
		case c < 88:
			d.compact(s)
		default:
			d.ckdumpAll(s)
		}
	}
	d.ckdumpAll(s1)
	d.ckdumpAll(s2)
}

var reSimLabel = regexp.MustCompile(`^\\\* <([A-Za-z]+)(\(([^)]*)\))? line`)

// loadSim reads one behaviour file written by `tlc -simulate file=...` and returns its
// action labels (names and integer arguments only).
func loadSim(path string) ([]graph.Edge, error) {
	fh, err := os.Open(path)
	if err != nil {
		return nil, err
	}
	defer fh.Close()
	var out []graph.Edge
	sc := bufio.NewScanner(fh)
	sc.Buffer(make([]byte, 1<<20), 1<<24)
	for sc.Scan() {
		m := reSimLabel.FindStringSubmatch(sc.Text())
		if m == nil || m[1] == "Init" {
			continue
		}
		e := graph.Edge{Label: m[1] + m[2], Name: strings.TrimPrefix(m[1], "M")}
		if m[3] != "" {
			for _, a := range strings.Split(m[3], ",") {
				e.Args = append(e.Args, strings.TrimSpace(a))
			}
		}
		out = append(out, e)
	}
	return out, sc.Err()
}

func (d *ckDrv) simHistory(steps []graph.Edge) {
	for _, e := range steps {
		var s *ckStore
		if len(e.Args) > 0 && e.Name != "Fetch" && e.Name != "Purge" {
			s = d.stores[ckAtoi(e.Args[0])]
		}
		switch e.Name {
		case "Write":
			s.midx++
			d.writeFresh(s, 1+d.rng.Intn(5))
			if d.rng.Intn(6) == 0 {
				d.compact(s)
			}
		case "BackupBegin":
			if d.bbegin(s) {
				d.mnames[[2]int{s.mterm, s.midx}] = s.biName
			}
		case "BackupCut":
			// inside the engine; nothing to call
		case "BackupNotify":
			d.bnotify(s)
		case "BackupDone":
			d.bnotify(s)
			d.bdone(s)
		case "RecordSnap":
			if n, ok := d.mnames[[2]int{ckAtoi(e.Args[1]), ckAtoi(e.Args[2])}]; ok {
				d.snap(s, n)
			}
		case "Restore":
			if n, ok := d.mnames[[2]int{ckAtoi(e.Args[1]), ckAtoi(e.Args[2])}]; ok {
				d.ckdumpAll(s)
				if d.restore(s, n) {
					d.mgterm++
					s.mterm = d.mgterm
					s.midx = ckAtoi(e.Args[2])
					if d.rng.Intn(2) == 0 {
						d.replay(s, n, 1+d.rng.Intn(4))
						// replayed entries are beyond the model's index only until the next
						// model Write; keep the model index in step with the checkpoint
					}
					d.ckdumpAll(s)
				}
			}
		case "Fetch":
			from, to := d.stores[ckAtoi(e.Args[0])], d.stores[ckAtoi(e.Args[1])]
			if n, ok := d.mnames[[2]int{ckAtoi(e.Args[2]), ckAtoi(e.Args[3])}]; ok {
				d.fetch(from, to, n)
			}
		case "Purge", "Next":
			// purging is the code's own decision; the listing events show what it did
		default:
			panic("unknown action " + e.Label)
		}
	}
	for _, s := range []*ckStore{d.stores[1], d.stores[2]} {
		d.ckdumpAll(s)
	}
}

func ckptsim(args []string) error {
	fs := flag.NewFlagSet("ckptsim", flag.ExitOnError)
	sim := fs.String("sim", "", "prefix of behaviour files written by tlc -simulate file=<prefix>,num=N")
	nrand := fs.Int("random", 0, "number of seeded random histories")
	rlen := fs.Int("len", 30, "steps per random history")
	et := fs.String("eng", "pebble", "engine type: pebble | mem | rocksdb")
	outp := fs.String("o", "ckpt", "output prefix; parts are <prefix>.<i>.ndjson")
	parts := fs.Int("parts", 1, "number of trace files (segments are dealt round-robin)")
	seed := fs.Int64("seed", 1, "")
	keep := fs.Int("keep", 2, "KeepBackup of the stores (checkpoints kept by the purge)")
	fs.Parse(args)

	log.SetOutput(ioutil.Discard) // common.RunFileSync prints through the standard logger
	// the memory engine prints every checkpoint to stdout; keep stdout for the SUMMARY line
	realOut := os.Stdout
	if devnull, err := os.OpenFile(os.DevNull, os.O_WRONLY, 0); err == nil {
		os.Stdout = devnull
		defer func() { os.Stdout = realOut }()
	}
	slow.SetLogger(0, common.NewLogger())
	engine.SetLogLevel(0)
	rockredis.SetLogLevel(0)
	node.SetLogLevel(0)
	base, err := ioutil.TempDir(os.Getenv("ZR_SCRATCH"), "zrckpt")
	if err != nil {
		return err
	}
	defer os.RemoveAll(base)
	tws := make([]*trace.Writer, *parts)
	for i := range tws {
		tws[i], err = trace.Create(fmt.Sprintf("%s.%d.ndjson", *outp, i))
		if err != nil {
			return err
		}
	}
	d := &ckDrv{eng: *et, base: base, seed: *seed, keep: *keep, rng: rand.New(rand.NewSource(*seed)),
		stores: map[int]*ckStore{}, cnt: map[string]int{}}
	seg := 0
	var runErr error
	segment := func(f func()) {
		d.tw = tws[seg%len(tws)]
		seg++
		if err := d.reset(); err != nil {
			runErr = err
			return
		}
		func() {
			defer func() {
				if r := recover(); r != nil {
					d.tw.Emit(trace.M{"ev": "panic", "what": fmt.Sprint(r)})
					d.count("panics")
				}
			}()
			f()
		}()
	}
	nsim := 0
	if *sim != "" {
		files, _ := filepath.Glob(*sim + "_*")
		sort.Strings(files)
		for _, f := range files {
			steps, err := loadSim(f)
			if err != nil {
				return err
			}
			if len(steps) == 0 {
				continue
			}
			nsim++
			segment(func() { d.simHistory(steps) })
			if runErr != nil {
				return runErr
			}
		}
	}
	for k := 0; k < *nrand; k++ {
		segment(func() { d.randomHistory(*rlen) })
		if runErr != nil {
			return runErr
		}
	}
	d.closeAll()
	n := 0
	for _, tw := range tws {
		n += tw.N
		tw.Close()
	}
	os.Stdout = realOut
	summary(map[string]interface{}{"driver": "ckptsim", "engine": *et, "seed": *seed, "segments": seg,
		"sim_behaviours": nsim, "random_histories": *nrand, "events": n, "counts": d.cnt, "sample_dump": d.sample})
	return nil
}
