package main

// ckptsim: drives real key-value stores (node.KVStore = rockredis over an engine) through
// the checkpoint life cycle of spec/ZCkpt.tla (property C14): writes of every data type,
// Backup (begin / notify / done), raft-snapshot bookkeeping (SetLatestSnapIndex), Restore on
// the same store after further writes, fetch of a checkpoint directory by a second store
// followed by Restore there, repeated Restore, writes after Restore followed by Restore
// again (hard-link sharing), engine flush/compaction.  Two sources of behaviours:
//   -sim <prefix>   behaviours written by `tlc -simulate file=<prefix>,num=N` for MC_ZCkpt
//   -random N       N seeded random histories
// After every step the driver logs digests of the store's logical content (all types, expiry
// flags, HLL counts read through the cache) and - at backup / restore / checkpoint dumps - of
// the raw engine content.  spec/ZCkptTrace.tla decides; the driver never judges.

import (
	"crypto/sha1"
	"encoding/hex"
	"flag"
	"fmt"
	"io"
	"io/ioutil"
	"log"
	"math/rand"
	"net"
	"os"
	"os/exec"
	"path/filepath"
	"sort"
	"strconv"
	"strings"
	"time"

	"github.com/youzan/ZanRedisDB/common"
	"github.com/youzan/ZanRedisDB/engine"
	"github.com/youzan/ZanRedisDB/node"
	"github.com/youzan/ZanRedisDB/rockredis"
	"github.com/youzan/ZanRedisDB/slow"
	"zrverif/graph"
	"zrverif/trace"
)

func init() { commands["ckptsim"] = ckptsim }

const ckBaseTs = int64(1600000000) * 1e9 // log time of entry 0 (2020); expiries lie >= 20 years later

var ckKeys = []string{"t:a", "t:b", "u:c"}
var ckCntKeys = []string{"t:n1", "u:n2"} // counters (kv keyspace only)
// HyperLogLog keys live in the kv keyspace too, but their writes sit in rockredis' HLL write
// cache until it is flushed (Backup, close); they are only read through PFCOUNT, which looks
// into the cache.  (A plain GET of such a key and the table key counter change at flush time;
// both are left to the raw engine digest taken after the flush.)
var ckHllKeys = []string{"t:h1", "u:h2"}

type ckName struct{ t, i uint64 }

type ckStore struct {
	id       int
	dir      string
	kv       *node.KVStore
	sm       node.StateMachine // -viasm: the kv state machine that owns kv
	lastDump string            // logical digest logged last (data as of `applied`)
	applied  int               // index of the last log entry applied = the store's data
	bi       *rockredis.BackupInfo
	biName   ckName
	waited   bool
	midx     int // model-level applied index (TLC-generated behaviours)
	lastRes  *ckName
	fetched  int  // checkpoints fetched into this store's backup directory so far
	rewound  bool // the store has restored a checkpoint (its engine's file numbers start again from there)
}

type ckDrv struct {
	eng           string
	base          string
	seed          int64
	keep          int
	tw            *trace.Writer
	rng           *rand.Rand
	stores        map[int]*ckStore
	terms         []uint64 // terms[k-1] = raft term of log entry k (one log for all stores)
	curTerm       uint64
	mreal         []int // model index j -> real index (a model entry is a burst of real entries)
	nseg          int
	rewind        bool // allow a fetch that can reuse local files after the source went back
	inflight      bool // apply entries between the release of the apply loop and the end of a backup
	lastBackupSec map[int]int64
	rsyncAddr     string // -rsync: address of the rsync daemon (module `mod` = the driver's scratch directory)
	viasm         bool   // stores are kv state machines; snapshots go through StateMachine.GetSnapshot
	big           bool   // current segment: entries are bulk writes of fixed-length values (large sst files)
	cnt           map[string]int
	sample        []string
	scratch       int
}

func (d *ckDrv) count(k string) { d.cnt[k]++ }

var ckNoWAL bool // -nowal: engines are opened with the configuration option disable_wal

func ckOpen(eng, dir string, keep int) (*node.KVStore, error) {
	opts := &node.KVOptions{DataDir: dir, EngType: rockredis.EngType, ExpirationPolicy: common.WaitCompact,
		DataVersion: common.ValueHeaderV1, KeepBackup: keep}
	opts.RockOpts.EngineType = eng
	opts.RockOpts.DisableWAL = ckNoWAL
	return node.NewKVStore(opts)
}

func (d *ckDrv) closeAll() {
	for _, s := range d.stores {
		if s.bi != nil {
			s.bi.GetResult()
			s.bi = nil
		}
		if s.kv != nil {
			s.kv.Close()
		}
		os.RemoveAll(s.dir)
	}
	d.stores = map[int]*ckStore{}
}

func (d *ckDrv) reset() error {
	d.closeAll()
	d.nseg++
	d.terms = nil
	d.curTerm = 1
	d.mreal = []int{0}
	for id := 1; id <= 2; id++ {
		dir := filepath.Join(d.base, fmt.Sprintf("seg%d-s%d", d.nseg, id))
		st := &ckStore{id: id, dir: dir}
		if d.viasm {
			opts := &node.KVOptions{DataDir: dir, EngType: rockredis.EngType, ExpirationPolicy: common.WaitCompact,
				DataVersion: common.ValueHeaderV1, KeepBackup: d.keep}
			opts.RockOpts.EngineType = d.eng
			sm, err := node.NewKVStoreSM(opts, node.MachineConfig{}, uint64(id), "default-0", nil, nil)
			if err != nil {
				return err
			}
			st.sm, st.kv = sm, node.VerifCkptSMStore(sm)
		} else {
			kv, err := ckOpen(d.eng, dir, d.keep)
			if err != nil {
				return err
			}
			st.kv = kv
		}
		d.stores[id] = st
	}
	d.tw.Emit(trace.M{"ev": "reset", "eng": d.eng, "keep": d.keep})
	return nil
}

// ------------------------------------------------------------------ content digests

func flag01(ttl int64, err error) string {
	if err != nil {
		return "E"
	}
	if ttl > 0 {
		return "T"
	}
	return "-"
}

func ckLogical(kv *node.KVStore) string {
	var out []string
	for _, k := range ckKeys {
		key := []byte(k)
		v, err := kv.KVGet(key)
		out = append(out, fmt.Sprintf("kv %s=%q %v %s", k, v, err, flag01(kv.KVTtl(key))))
		n, hs, err := kv.HGetAll(key)
		var f []string
		for _, r := range hs {
			f = append(f, string(r.Rec.Key)+"="+string(r.Rec.Value))
		}
		sort.Strings(f)
		out = append(out, fmt.Sprintf("hash %s n=%d %v %v %s", k, n, f, err, flag01(kv.HashTtl(key))))
		l, err := kv.LRange(key, 0, -1)
		var ls []string
		for _, x := range l {
			ls = append(ls, string(x))
		}
		out = append(out, fmt.Sprintf("list %s %v %v %s", k, ls, err, flag01(kv.ListTtl(key))))
		ms, err := kv.SMembers(key)
		var m []string
		for _, x := range ms {
			m = append(m, string(x))
		}
		sort.Strings(m)
		out = append(out, fmt.Sprintf("set %s %v %v %s", k, m, err, flag01(kv.SetTtl(key))))
		zs, err := kv.ZRange(key, 0, -1)
		var z []string
		for _, x := range zs {
			z = append(z, fmt.Sprintf("%s:%v", x.Member, x.Score))
		}
		out = append(out, fmt.Sprintf("zset %s %v %v %s", k, z, err, flag01(kv.ZSetTtl(key))))
	}
	// keys of the large-file histories (absent elsewhere): the ones that are rewritten, and the last one
	h := sha1.New()
	for k := 0; k < 40; k++ {
		v, _ := kv.KVGet(ckBigKey(k))
		h.Write(v)
	}
	last, _ := kv.KVGet(ckBigKey(ckBigN - 1))
	out = append(out, fmt.Sprintf("big %x %d", h.Sum(nil)[:6], len(last)))
	for _, k := range ckHllKeys {
		c, err := kv.PFCount(ckBaseTs, []byte(k))
		out = append(out, fmt.Sprintf("hll %s %d %v", k, c, err))
	}
	for _, k := range ckCntKeys {
		v, err := kv.KVGet([]byte(k))
		out = append(out, fmt.Sprintf("counter %s=%q %v %s", k, v, err, flag01(kv.KVTtl([]byte(k)))))
	}
	return strings.Join(out, "\n")
}

func digest(s string) string {
	h := sha1.Sum([]byte(s))
	return hex.EncodeToString(h[:8])
}

// ckRaw digests every record of the engine (key and value bytes, order independent).
func ckRaw(kv *node.KVStore) string {
	it, err := kv.NewDBRangeIterator(nil, nil, common.RangeClose, false)
	if err != nil {
		return "ERR " + err.Error()
	}
	var recs []string
	for ; it.Valid(); it.Next() {
		recs = append(recs, string(it.Key())+"\x00=\x00"+string(it.Value()))
	}
	it.Close()
	sort.Strings(recs)
	h := sha1.New()
	for _, r := range recs {
		fmt.Fprintf(h, "%d:", len(r))
		io.WriteString(h, r)
	}
	return fmt.Sprintf("%d-%s", len(recs), hex.EncodeToString(h.Sum(nil)[:8]))
}

func (d *ckDrv) dump(s *ckStore) string {
	txt := ckLogical(s.kv)
	if len(d.sample) < 2 && s.applied >= 12 {
		d.sample = append(d.sample, txt)
	}
	s.lastDump = digest(txt)
	return s.lastDump
}

func (d *ckDrv) listing(s *ckStore) [][2]uint64 {
	res := [][2]uint64{}
	ents, _ := ioutil.ReadDir(s.kv.GetBackupDir())
	for _, e := range ents {
		if !e.IsDir() {
			continue
		}
		p := strings.SplitN(e.Name(), "-", 2)
		if len(p) != 2 {
			continue
		}
		t, e1 := strconv.ParseUint(p[0], 16, 64)
		i, e2 := strconv.ParseUint(p[1], 16, 64)
		if e1 != nil || e2 != nil {
			continue
		}
		res = append(res, [2]uint64{t, i})
	}
	return res
}

func (d *ckDrv) ls(s *ckStore) {
	if s.bi != nil {
		return
	}
	d.tw.Emit(trace.M{"ev": "ls", "s": s.id, "ck": d.listing(s), "snap": 0})
}

// ------------------------------------------------------------------ writes

// applyOp executes log entry `id` on the store.  The operation, its arguments and its log
// timestamp are a function of (seed, segment, id) only, so a replayed entry is the same entry.
const ckBigN = 4000

func ckBigKey(k int) []byte { return []byte(fmt.Sprintf("t:big%05d", k)) }

// ckBigVal: 120 incompressible bytes, a function of (entry, key).
func ckBigVal(id, k int) []byte {
	r := rand.New(rand.NewSource(ckMix(int64(id), int64(k))))
	b := make([]byte, 120)
	r.Read(b)
	return b
}

// applyBigOp: entry 1 writes ckBigN keys with fixed-length values; every later entry rewrites
// the first 20 keys with other values of the same length (the files keep their size, only
// their first blocks change).
func (d *ckDrv) applyBigOp(kv *node.KVStore, id int) (string, string) {
	ts := ckBaseTs + int64(id)*1000000
	var err error
	n := 20
	if id == 1 {
		n = ckBigN
	}
	for k := 0; k < n && err == nil; k++ {
		err = kv.KVSet(ts, ckBigKey(k), ckBigVal(id, k))
	}
	d.count("op_bulkset")
	return "bulkset " + strconv.Itoa(n), ckErrStr(err)
}

func (d *ckDrv) applyOp(kv *node.KVStore, id int) (string, string) {
	if d.big {
		return d.applyBigOp(kv, id)
	}
	r := rand.New(rand.NewSource(ckMix(d.seed*1000+int64(d.nseg), int64(id))))
	ts := ckBaseTs + int64(id)*1000000
	key := []byte(ckKeys[r.Intn(len(ckKeys))])
	arg := func(p string) []byte { return []byte(p + strconv.Itoa(r.Intn(6))) }
	far := int64(20*365*86400) + int64(r.Intn(1000))
	var err error
	var desc string
	switch k := r.Intn(30); k {
	case 0, 1:
		desc = "set"
		err = kv.KVSet(ts, key, []byte("v"+strconv.Itoa(id)))
	case 2, 3, 4:
		desc = "incr"
		key = []byte(ckCntKeys[r.Intn(len(ckCntKeys))])
		if r.Intn(3) == 0 {
			_, err = kv.IncrBy(ts, key, int64(2+r.Intn(5)))
		} else {
			_, err = kv.Incr(ts, key)
		}
	case 5:
		desc = "append"
		_, err = kv.Append(ts, key, []byte("+"+strconv.Itoa(id%10)))
	case 6:
		desc = "setex"
		err = kv.SetEx(ts, key, far, []byte("x"+strconv.Itoa(id)))
	case 7:
		desc = "expire"
		_, err = kv.Expire(ts, key, far)
	case 8:
		desc = "del"
		_, err = kv.DelKeys(key)
	case 9, 10:
		desc = "hset"
		_, err = kv.HSet(ts, false, key, arg("f"), []byte("h"+strconv.Itoa(id)))
	case 11:
		desc = "hincrby"
		_, err = kv.HIncrBy(ts, key, []byte("n"), int64(1+r.Intn(3)))
	case 12:
		desc = "hdel"
		_, err = kv.HDel(ts, key, arg("f"))
	case 13:
		desc = "hexpire"
		_, err = kv.HExpire(ts, key, far)
	case 14, 15:
		desc = "rpush"
		_, err = kv.RPush(ts, key, []byte("e"+strconv.Itoa(id)))
	case 16:
		desc = "lpush"
		_, err = kv.LPush(ts, key, []byte("e"+strconv.Itoa(id)), []byte("d"+strconv.Itoa(id)))
	case 17:
		desc = "lpop"
		_, err = kv.LPop(ts, key)
	case 18:
		desc = "lexpire"
		_, err = kv.LExpire(ts, key, far)
	case 19, 20:
		desc = "sadd"
		_, err = kv.SAdd(ts, key, arg("m"))
	case 21:
		desc = "srem"
		_, err = kv.SRem(ts, key, arg("m"))
	case 22, 23:
		desc = "zadd"
		_, err = kv.ZAdd(ts, key, common.ScorePair{Score: float64(r.Intn(50)), Member: arg("z")})
	case 24:
		desc = "zincrby"
		_, err = kv.ZIncrBy(ts, key, 1.5, arg("z"))
	case 25:
		desc = "zrem"
		_, err = kv.ZRem(ts, key, arg("z"))
	case 26, 27:
		desc = "pfadd"
		key = []byte(ckHllKeys[r.Intn(len(ckHllKeys))])
		_, err = kv.PFAdd(ts, key, []byte("p"+strconv.Itoa(id)), []byte("q"+strconv.Itoa(r.Intn(40))))
	case 28:
		desc = "persist"
		_, err = kv.Persist(ts, key)
	case 29:
		desc = "clear"
		switch r.Intn(4) {
		case 0:
			_, err = kv.HClear(ts, key)
		case 1:
			_, err = kv.LClear(ts, key)
		case 2:
			_, err = kv.SClear(ts, key)
		default:
			_, err = kv.ZClear(ts, key)
		}
	}
	d.count("op_" + desc)
	return desc + " " + string(key), ckErrStr(err)
}

// With -inflight=false the driver behaves like an apply loop that stays blocked until the
// backup is done (only used where a failure must be attributable to something else than
// entries applied in flight; the pebble defect behind it was fixed by ee3b302).
func (d *ckDrv) applyLoopRuns(s *ckStore) bool {
	if !d.inflight && s.bi != nil {
		d.settle(s)
	}
	return s.bi == nil || s.waited
}

// apply applies the next log entry to the store: the entry that is already in the log at
// that index (replay after a restore, the second store catching up) or a new one.
func (d *ckDrv) apply(s *ckStore) {
	if !d.applyLoopRuns(s) {
		return
	}
	idx := s.applied + 1
	if idx > len(d.terms) {
		if d.rng.Intn(8) == 0 {
			d.curTerm++ // leader change
		}
		d.terms = append(d.terms, d.curTerm)
	} else {
		d.count("replayed")
	}
	desc, es := d.applyOp(s.kv, idx)
	s.applied = idx
	if s.bi != nil {
		d.count("applies_inflight")
	}
	d.tw.Emit(trace.M{"ev": "apply", "s": s.id, "idx": idx, "t": d.terms[idx-1], "op": desc, "err": es, "dump": d.dump(s)})
	d.count("applies")
}

func (d *ckDrv) applyN(s *ckStore, n int) {
	for k := 0; k < n; k++ {
		d.apply(s)
	}
}

func (d *ckDrv) compact(s *ckStore) {
	if !d.applyLoopRuns(s) {
		return
	}
	// (CompactAllRange passes an empty range, which pebble refuses: name the whole key space)
	s.kv.CompactRange([]byte{0}, []byte{0xff, 0xff, 0xff, 0xff, 0xff, 0xff, 0xff, 0xff})
	d.tw.Emit(trace.M{"ev": "compact", "s": s.id, "dump": d.dump(s)})
	d.count("compacts")
}

// ------------------------------------------------------------------ backup life cycle

func (d *ckDrv) bbegin(s *ckStore) bool {
	if s.bi != nil || s.applied == 0 {
		return false
	}
	name := ckName{d.terms[s.applied-1], uint64(s.applied)}
	if d.rsyncAddr != "" {
		// rsync's quick check takes files of equal size and equal whole-second modification time for
		// unchanged: checkpoints of one store are taken in different wall-clock seconds, as in any
		// real deployment (the driver would otherwise take several per second)
		for time.Now().Unix() <= d.lastBackupSec[s.id] {
			time.Sleep(50 * time.Millisecond)
		}
	}
	if d.viasm {
		// the state machine's own snapshot entry point (what the node's apply loop calls): it
		// returns when the apply loop may go on.  Nothing is read from the store here, so that
		// the next entry follows as fast as in the apply loop; the data as of this index were
		// logged with the event that reached it.
		si, err := s.sm.GetSnapshot(name.t, name.i)
		ok := err == nil && si != nil && si.BackupInfo != nil
		d.tw.Emit(trace.M{"ev": "bbegin", "s": s.id, "t": name.t, "i": name.i, "ok": ok, "dump": s.lastDump, "raw": ""})
		if !ok {
			return false
		}
		s.bi, s.biName, s.waited = si.BackupInfo, name, true
		d.tw.Emit(trace.M{"ev": "bnotify", "s": s.id})
		d.count("backups")
		d.count("backups_via_state_machine")
		return true
	}
	if os.Getenv("CK_DEBUG") != "" {
		fmt.Fprintln(os.Stderr, "BEFORE BACKUP\n"+ckLogical(s.kv))
	}
	bi := s.kv.Backup(name.t, name.i)
	if os.Getenv("CK_DEBUG") != "" {
		fmt.Fprintln(os.Stderr, "AFTER BACKUP\n"+ckLogical(s.kv))
	}
	// the apply loop is blocked here; Backup has flushed the HLL cache synchronously
	d.tw.Emit(trace.M{"ev": "bbegin", "s": s.id, "t": name.t, "i": name.i, "ok": bi != nil,
		"dump": d.dump(s), "raw": ckRaw(s.kv)})
	if bi == nil {
		return false
	}
	s.bi, s.biName, s.waited = bi, name, false
	d.count("backups")
	return true
}

func (d *ckDrv) bnotify(s *ckStore) {
	if s.bi == nil || s.waited {
		return
	}
	s.bi.WaitReady()
	s.waited = true
	d.tw.Emit(trace.M{"ev": "bnotify", "s": s.id})
}

func (d *ckDrv) bdone(s *ckStore) {
	if s.bi == nil {
		return
	}
	_, err := s.bi.GetResult()
	s.bi = nil
	d.lastBackupSec[s.id] = time.Now().Unix()
	// the backup goroutine purges old checkpoints right after it has closed `done`; let it
	// get there, then pass behind it (IsLocalBackupOK takes the directory lock for reading)
	time.Sleep(3 * time.Millisecond)
	s.kv.IsLocalBackupOK(s.biName.t, s.biName.i)
	d.tw.Emit(trace.M{"ev": "bdone", "s": s.id, "t": s.biName.t, "i": s.biName.i, "err": ckErrStr(err)})
	d.ls(s)
}

func (d *ckDrv) settle(s *ckStore) {
	if s.bi != nil {
		d.bnotify(s)
		d.bdone(s)
	}
}

func (d *ckDrv) has(s *ckStore, n ckName) bool {
	for _, x := range d.listing(s) {
		if x[0] == n.t && x[1] == n.i {
			return true
		}
	}
	return false
}

func (d *ckDrv) snap(s *ckStore, n ckName) {
	d.settle(s)
	if !d.has(s, n) {
		return
	}
	s.kv.SetLatestSnapIndex(n.i)
	d.tw.Emit(trace.M{"ev": "snap", "s": s.id, "t": n.t, "i": n.i})
	d.count("snaps")
}

func (d *ckDrv) restore(s *ckStore, n ckName) bool {
	d.settle(s)
	d.ls(s)
	if !d.has(s, n) {
		return false
	}
	newest := d.listing(s)
	err := s.kv.Restore(n.t, n.i)
	if err != nil && !d.has(s, n) {
		// purged between the listing and the call: nothing to judge
		d.ls(s)
		return false
	}
	if err == nil {
		// every restore takes the engine's file numbering back to the checkpoint's manifest:
		// files written from now on re-use numbers of files written after that checkpoint
		_ = newest
		s.rewound = true
		s.applied = int(n.i)
		s.lastRes = &ckName{n.t, n.i}
	}
	d.tw.Emit(trace.M{"ev": "restore", "s": s.id, "t": n.t, "i": n.i, "err": ckErrStr(err),
		"dump": d.dump(s), "raw": ckRaw(s.kv)})
	d.ls(s)
	d.count("restores")
	return err == nil
}

// dirStamp: names, sizes and modification times of the files of a directory.
func dirStamp(dir string) string {
	ents, err := ioutil.ReadDir(dir)
	if err != nil {
		return "ERR"
	}
	var b strings.Builder
	for _, e := range ents {
		fmt.Fprintf(&b, "%s:%d:%d;", e.Name(), e.Size(), e.ModTime().UnixNano())
	}
	return b.String()
}

func copyTree(src, dst string) error {
	return filepath.Walk(src, func(p string, fi os.FileInfo, err error) error {
		if err != nil {
			return err
		}
		rel, _ := filepath.Rel(src, p)
		to := filepath.Join(dst, rel)
		if fi.IsDir() {
			return os.MkdirAll(to, 0755)
		}
		in, err := os.Open(p)
		if err != nil {
			return err
		}
		defer in.Close()
		out, err := os.Create(to)
		if err != nil {
			return err
		}
		_, err = io.Copy(out, in)
		if cerr := out.Close(); err == nil {
			err = cerr
		}
		return err
	})
}

// ckdump opens a byte copy of checkpoint n of store s as a store of its own and logs its
// content; the checkpoint directory itself is only read.
func (d *ckDrv) ckdump(s *ckStore, n ckName) {
	if s.bi != nil || !d.has(s, n) {
		return
	}
	d.scratch++
	tmp := filepath.Join(d.base, fmt.Sprintf("ckd%d", d.scratch))
	defer os.RemoveAll(tmp)
	dataDir, _ := engine.GetDataDirFromBase(d.eng, tmp)
	src := filepath.Join(s.kv.GetBackupDir(), rockredis.GetCheckpointDir(n.t, n.i))
	dump, raw := "", ""
	before := dirStamp(src)
	err := copyTree(src, dataDir)
	if !d.has(s, n) || dirStamp(src) != before {
		return // being purged while it was read: nothing to judge
	}
	if err == nil {
		os.Remove(filepath.Join(dataDir, "source_node_info"))
		var kv *node.KVStore
		kv, err = ckOpen(d.eng, tmp, 0)
		if err == nil {
			dump, raw = digest(ckLogical(kv)), ckRaw(kv)
			kv.Close()
		}
	}
	d.tw.Emit(trace.M{"ev": "ckdump", "s": s.id, "t": n.t, "i": n.i, "err": ckErrStr(err), "dump": dump, "raw": raw})
	d.count("ckdumps")
}

func (d *ckDrv) ckdumpAll(s *ckStore) {
	d.settle(s)
	d.ls(s)
	for _, x := range d.listing(s) {
		d.ckdump(s, ckName{x[0], x[1]})
	}
}

// interruptedTransfer leaves in `to`'s backup directory what a first transfer attempt that
// was killed in the middle of a file leaves behind: the files copied so far and one file
// that is only half there (its modification time is the time of the interruption).  The
// attempt itself is no step of the specification; the fetch that follows is the retry.
func (d *ckDrv) interruptedTransfer(from, to *ckStore, n ckName) {
	name := rockredis.GetCheckpointDir(n.t, n.i)
	src := filepath.Join(from.kv.GetBackupDir(), name)
	dst := filepath.Join(to.kv.GetBackupDir(), name)
	if _, err := os.Stat(dst); err == nil {
		return // a complete copy is there already
	}
	ents, err := ioutil.ReadDir(src)
	if err != nil {
		return
	}
	os.MkdirAll(dst, 0755)
	// the file the transfer was interrupted in: a data-bearing one
	victim := ""
	for _, pref := range []string{".log", "mem.dat", ".sst", "MANIFEST"} {
		for _, e := range ents {
			if victim == "" && e.Size() > 1 && (strings.HasSuffix(e.Name(), pref) || strings.HasPrefix(e.Name(), pref)) {
				victim = e.Name()
			}
		}
	}
	for _, e := range ents {
		if e.IsDir() {
			continue
		}
		b, err := ioutil.ReadFile(filepath.Join(src, e.Name()))
		if err != nil {
			continue
		}
		if e.Name() == victim {
			ioutil.WriteFile(filepath.Join(dst, e.Name()), b[:len(b)/2], 0644)
			break // nothing after the interruption
		}
		ioutil.WriteFile(filepath.Join(dst, e.Name()), b, 0644)
		os.Chtimes(filepath.Join(dst, e.Name()), e.ModTime(), e.ModTime()) // cp -p
	}
	d.count("interrupted_transfers")
}

func (d *ckDrv) fetch(from, to *ckStore, n ckName) bool {
	d.settle(from)
	d.settle(to)
	d.ls(from)
	if !d.has(from, n) {
		return false
	}
	if from.rewound && to.fetched > 0 && !d.rewind {
		// known finding ckpt-local-fetch-overwrites-hardlink: kept out of the general corpus
		d.count("fetch_avoided")
		return false
	}
	if d.rng.Intn(3) == 0 {
		d.interruptedTransfer(from, to, n)
	}
	var reused string
	var err error
	if d.rsyncAddr != "" {
		// through the source's rsync daemon, as between hosts
		reused, err = node.VerifCkptFetchFrom(to.kv, d.rsyncAddr, "mod/"+filepath.Base(from.dir), n.t, n.i, make(chan struct{}))
		d.count("fetches_through_rsync")
	} else {
		reused, err = node.VerifCkptFetchLocal(to.kv, from.dir, n.t, n.i, make(chan struct{}))
	}
	if !d.has(from, n) {
		// purged under the copy: drop what was copied, nothing to judge
		os.RemoveAll(filepath.Join(to.kv.GetBackupDir(), rockredis.GetCheckpointDir(n.t, n.i)))
		return false
	}
	to.fetched++
	d.tw.Emit(trace.M{"ev": "fetch", "from": from.id, "to": to.id, "t": n.t, "i": n.i, "err": ckErrStr(err),
		"reused": reused != "", "rewound": from.rewound})
	d.ls(to)
	d.count("fetches")
	if reused != "" {
		d.count("fetch_reused_links")
	}
	return err == nil
}

// ------------------------------------------------------------------ behaviours

func (d *ckDrv) randName(s *ckStore) (ckName, bool) {
	l := d.listing(s)
	if len(l) == 0 {
		return ckName{}, false
	}
	x := l[d.rng.Intn(len(l))]
	return ckName{x[0], x[1]}, true
}

// rewindScenario produces the trigger of known finding ckpt-local-fetch-overwrites-hardlink on
// purpose: the second store fetches two checkpoints, the source goes back to the older one,
// writes sst files again (re-using file numbers) and is fetched from once more.
func (d *ckDrv) rewindScenario() {
	s1, s2 := d.stores[1], d.stores[2]
	backup := func() (ckName, bool) {
		if !d.bbegin(s1) {
			return ckName{}, false
		}
		n := s1.biName
		d.settle(s1)
		return n, true
	}
	d.applyN(s1, 4+d.rng.Intn(4))
	d.compact(s1)
	a, ok1 := backup()
	d.applyN(s1, 3+d.rng.Intn(4))
	d.compact(s1)
	b, ok2 := backup()
	if !ok1 || !ok2 {
		return
	}
	d.fetch(s1, s2, a)
	d.fetch(s1, s2, b)
	d.restore(s2, b)
	if !d.restore(s1, a) {
		return
	}
	d.applyN(s1, 1+d.rng.Intn(3))
	d.compact(s1)
	d.applyN(s1, 2+d.rng.Intn(3))
	d.compact(s1)
	c, ok := backup()
	if !ok {
		return
	}
	d.fetch(s1, s2, c)
	d.ckdumpAll(s2)
	d.restore(s2, b)
}

// availScenario: a consumer of checkpoints (what the snapshot transfer and the restore path do first)
// keeps asking IsLocalBackupOK while backups of a large store run.  The moment a checkpoint is
// reported available its directory is copied byte by byte; that copy, opened as a store of its own,
// must be the complete image of the backup's index - a checkpoint is never visible half-written.
func (d *ckDrv) availScenario(rounds int) {
	s := d.stores[1]
	d.applyN(s, 2)
	for r := 0; r < rounds; r++ {
		d.applyN(s, 1)
		if !d.bbegin(s) {
			continue
		}
		name := s.biName
		d.scratch++
		tmp := filepath.Join(d.base, fmt.Sprintf("avail%d", d.scratch))
		dataDir, _ := engine.GetDataDirFromBase(d.eng, tmp)
		src := filepath.Join(s.kv.GetBackupDir(), rockredis.GetCheckpointDir(name.t, name.i))
		stopc := make(chan struct{})
		type res struct {
			copied bool
			err    error
			at     time.Time
		}
		resc := make(chan res, 1)
		go func() {
			for {
				select {
				case <-stopc:
					resc <- res{}
					return
				default:
				}
				if ok, _ := s.kv.IsLocalBackupOK(name.t, name.i); ok {
					at := time.Now()
					resc <- res{true, copyTree(src, dataDir), at}
					return
				}
				time.Sleep(20 * time.Microsecond)
			}
		}()
		d.bnotify(s)
		bi := s.bi
		bi.GetResult()
		doneAt := time.Now()
		d.bdone(s)
		var got res
		select {
		case got = <-resc:
		case <-time.After(500 * time.Millisecond):
			close(stopc)
			got = <-resc
		}
		if got.copied {
			dump, raw := "", ""
			err := got.err
			if err == nil {
				var kv *node.KVStore
				if kv, err = ckOpen(d.eng, tmp, 0); err == nil {
					dump, raw = digest(ckLogical(kv)), ckRaw(kv)
					kv.Close()
				}
			}
			d.tw.Emit(trace.M{"ev": "ckdump", "s": s.id, "t": name.t, "i": name.i, "err": ckErrStr(err), "dump": dump, "raw": raw})
			d.count("ckdumps")
			d.count("copies_taken_when_reported_available")
			if got.at.Before(doneAt) {
				d.count("reported_available_before_done")
			}
		}
		os.RemoveAll(tmp)
	}
	d.ckdumpAll(s)
	d.count("avail_scenarios")
}

// bigSstScenario: large sst files with fixed-length values, and a store that goes back to an
// older checkpoint and writes the same file numbers again: checkpoint B and the data directory
// then hold files of the same name, the same size and the same last 256 kB but other content.
func (d *ckDrv) bigSstScenario() {
	s := d.stores[1]
	backup := func() (ckName, bool) {
		if !d.bbegin(s) {
			return ckName{}, false
		}
		n := s.biName
		d.settle(s)
		return n, true
	}
	d.applyN(s, 2)
	d.compact(s)
	a, ok := backup()
	if !ok || !d.restore(s, a) {
		return
	}
	d.applyN(s, 1)
	d.compact(s)
	b, ok := backup()
	if !ok || !d.restore(s, a) {
		return
	}
	d.applyN(s, 2) // the same entry again and one more (same number of rewrites per key: same file size)
	d.compact(s)
	if os.Getenv("CK_DEBUG") != "" {
		for _, dir := range []string{s.kv.GetDataDir(), filepath.Join(s.kv.GetBackupDir(), rockredis.GetCheckpointDir(b.t, b.i))} {
			ents, _ := ioutil.ReadDir(dir)
			fmt.Fprintln(os.Stderr, "DIR", dir)
			for _, e := range ents {
				fmt.Fprintln(os.Stderr, "   ", e.Name(), e.Size())
			}
		}
	}
	d.restore(s, b)
	d.ckdumpAll(s)
	d.restore(s, a)
	d.ckdumpAll(s)
	d.count("bigsst_scenarios")
}

func (d *ckDrv) randomHistory(steps int) {
	s1, s2 := d.stores[1], d.stores[2]
	if d.rewind && d.eng != "mem" {
		d.rewindScenario()
	}
	d.applyN(s1, 3+d.rng.Intn(6))
	for k := 0; k < steps; k++ {
		s := s1
		if d.rng.Intn(5) == 0 {
			s = s2
		}
		switch c := d.rng.Intn(100); {
		case c < 34:
			d.applyN(s, 1+d.rng.Intn(5))
		case c < 50:
			if s.bi == nil {
				if d.bbegin(s) {
					d.bnotify(s)
					// the apply loop continues at once, while the checkpoint is still being written
					d.applyN(s, 1+d.rng.Intn(4))
				}
			} else {
				d.settle(s)
			}
		case c < 56:
			d.settle(s)
			// the raft snapshot recorded is (almost always) the newest checkpoint
			l := d.listing(s)
			if len(l) > 0 {
				x := l[len(l)-1]
				if d.rng.Intn(4) == 0 {
					x = l[d.rng.Intn(len(l))]
				}
				d.snap(s, ckName{x[0], x[1]})
			}
		case c < 70:
			if n, ok := d.randName(s); ok {
				if d.rng.Intn(3) == 0 && s.lastRes != nil {
					n = *s.lastRes // restore the same checkpoint again
				}
				if d.restore(s, n) && d.rng.Intn(3) > 0 {
					d.applyN(s, 1+d.rng.Intn(6)) // replay, possibly beyond the old end of the log
				}
			}
		case c < 80:
			if n, ok := d.randName(s1); ok {
				if d.fetch(s1, s2, n) && d.restore(s2, n) {
					d.applyN(s2, d.rng.Intn(5))
				}
			}
		case c < 88:
			d.compact(s)
		default:
			d.ckdumpAll(s)
		}
	}
	d.ckdumpAll(s1)
	d.ckdumpAll(s2)
}

// realName maps a model checkpoint name (t, i) to the real one: model entry i is the burst
// of real entries that ends at mreal[i], all of term t.
func (d *ckDrv) realName(t, i int) (ckName, bool) {
	if i <= 0 || i >= len(d.mreal) {
		return ckName{}, false
	}
	return ckName{uint64(t), uint64(d.mreal[i])}, true
}

func (d *ckDrv) simHistory(steps []graph.Edge) {
	for _, e := range steps {
		var s *ckStore
		if len(e.Args) > 0 && e.Name != "Fetch" && e.Name != "Purge" {
			s = d.stores[ckAtoi(e.Args[0])]
		}
		switch e.Name {
		case "Apply":
			if !d.applyLoopRuns(s) {
				continue
			}
			m := s.midx
			if m+1 >= len(d.mreal) {
				d.mreal = append(d.mreal, d.mreal[m]+1+d.rng.Intn(5))
				if t := uint64(ckAtoi(e.Args[1])); t > d.curTerm {
					d.curTerm = t // terms never go down in a log
				}
			}
			for s.applied < d.mreal[m+1] {
				before := s.applied
				if s.applied+1 > len(d.terms) {
					d.terms = append(d.terms, d.curTerm)
				}
				d.apply(s)
				if s.applied == before {
					break
				}
			}
			s.midx = m + 1
			if d.rng.Intn(6) == 0 {
				d.compact(s)
			}
		case "BackupBegin":
			d.bbegin(s)
		case "BackupCut":
			// inside the engine; nothing to call
		case "BackupNotify":
			d.bnotify(s)
		case "BackupDone":
			d.bnotify(s)
			d.bdone(s)
		case "RecordSnap":
			if n, ok := d.realName(ckAtoi(e.Args[1]), ckAtoi(e.Args[2])); ok {
				d.snap(s, n)
			}
		case "Restore":
			if n, ok := d.realName(ckAtoi(e.Args[1]), ckAtoi(e.Args[2])); ok {
				d.ckdumpAll(s)
				if d.restore(s, n) {
					s.midx = ckAtoi(e.Args[2])
					d.ckdumpAll(s)
				}
			}
		case "Fetch":
			from, to := d.stores[ckAtoi(e.Args[0])], d.stores[ckAtoi(e.Args[1])]
			if n, ok := d.realName(ckAtoi(e.Args[2]), ckAtoi(e.Args[3])); ok {
				d.fetch(from, to, n)
			}
		case "Purge", "Next":
			// purging is the code's own decision; the listing events show what it did
		default:
			panic("unknown action " + e.Label)
		}
	}
	for _, s := range []*ckStore{d.stores[1], d.stores[2]} {
		d.ckdumpAll(s)
	}
}

func ckptsim(args []string) error {
	fs := flag.NewFlagSet("ckptsim", flag.ExitOnError)
	sim := fs.String("sim", "", "prefix of behaviour files written by tlc -simulate file=<prefix>,num=N")
	nrand := fs.Int("random", 0, "number of seeded random histories")
	rlen := fs.Int("len", 30, "steps per random history")
	et := fs.String("eng", "pebble", "engine type: pebble | mem | rocksdb")
	outp := fs.String("o", "ckpt", "output prefix; parts are <prefix>.<i>.ndjson")
	parts := fs.Int("parts", 1, "number of trace files (segments are dealt round-robin)")
	seed := fs.Int64("seed", 1, "")
	keep := fs.Int("keep", 2, "KeepBackup of the stores (checkpoints kept by the purge)")
	inflight := fs.Bool("inflight", true, "keep applying entries as soon as WaitReady has returned, while the checkpoint is still being written (false: only after the backup is done)")
	useRsync := fs.Bool("rsync", false, "fetch checkpoints through an rsync daemon started by the driver (the path between hosts) instead of the local copy")
	navail := fs.Int("availrace", 0, "number of histories in which a consumer polls IsLocalBackupOK during backups of a large store and copies a checkpoint the moment it is reported available (-len backups each)")
	nbig := fs.Int("bigsst", 0, "number of scripted large-sst histories (bulk writes of fixed-length values, restore - rewrite - restore)")
	fs.BoolVar(&ckNoWAL, "nowal", false, "open the engines with disable_wal (informational experiment)")
	viasm := fs.Bool("viasm", false, "stores are kv state machines (node.NewKVStoreSM) and snapshots are taken through StateMachine.GetSnapshot, the entry point of the node's apply loop")
	rewind := fs.Bool("rewindfetch", false, "also fetch (with reuse of local files) after the source store went back to an older checkpoint (trigger of known finding ckpt-local-fetch-overwrites-hardlink)")
	fs.Parse(args)

	log.SetOutput(ioutil.Discard) // common.RunFileSync prints through the standard logger
	// the memory engine prints every checkpoint to stdout; keep stdout for the SUMMARY line
	realOut := os.Stdout
	if devnull, err := os.OpenFile(os.DevNull, os.O_WRONLY, 0); err == nil {
		os.Stdout = devnull
		defer func() { os.Stdout = realOut }()
	}
	slow.SetLogger(0, common.NewLogger())
	engine.SetLogLevel(0)
	rockredis.SetLogLevel(0)
	node.SetLogLevel(0)
	base, err := ioutil.TempDir(os.Getenv("ZR_SCRATCH"), "zrckpt")
	if err != nil {
		return err
	}
	defer os.RemoveAll(base)
	tws := make([]*trace.Writer, *parts)
	for i := range tws {
		tws[i], err = trace.Create(fmt.Sprintf("%s.%d.ndjson", *outp, i))
		if err != nil {
			return err
		}
	}
	d := &ckDrv{eng: *et, base: base, seed: *seed, keep: *keep, rng: rand.New(rand.NewSource(*seed)),
		stores: map[int]*ckStore{}, cnt: map[string]int{}, lastBackupSec: map[int]int64{}, rewind: *rewind, inflight: *inflight, viasm: *viasm}
	if *useRsync {
		ports, err := ckFreePorts(1)
		if err != nil {
			return err
		}
		conf := filepath.Join(base, "rsyncd.conf")
		ioutil.WriteFile(conf, []byte("use chroot = no\nmax connections = 64\nuid = "+strconv.Itoa(os.Getuid())+"\ngid = "+strconv.Itoa(os.Getgid())+"\n[mod]\npath = "+base+"\nread only = yes\n"), 0644)
		cmd := exec.Command("rsync", "--daemon", "--no-detach", "--address=127.0.0.1", "--port="+strconv.Itoa(ports[0]),
			"--config="+conf, "--log-file="+filepath.Join(base, "rsyncd.log"))
		if err := cmd.Start(); err != nil {
			return fmt.Errorf("rsync daemon: %v", err)
		}
		defer func() {
			cmd.Process.Kill()
			cmd.Wait()
		}()
		d.rsyncAddr = "127.0.0.1:" + strconv.Itoa(ports[0])
		up := false
		for k := 0; k < 100 && !up; k++ {
			if c, err := net.DialTimeout("tcp", d.rsyncAddr, 200*time.Millisecond); err == nil {
				c.Close()
				up = true
			} else {
				time.Sleep(50 * time.Millisecond)
			}
		}
		if !up {
			return fmt.Errorf("rsync daemon did not come up on %s", d.rsyncAddr)
		}
	}
	seg := 0
	var runErr error
	segment := func(f func()) {
		d.tw = tws[seg%len(tws)]
		seg++
		if err := d.reset(); err != nil {
			runErr = err
			return
		}
		func() {
			defer func() {
				if r := recover(); r != nil {
					d.tw.Emit(trace.M{"ev": "panic", "what": fmt.Sprint(r)})
					d.count("panics")
				}
			}()
			f()
		}()
	}
	nsim := 0
	if *sim != "" {
		files, _ := filepath.Glob(*sim + "_*")
		sort.Strings(files)
		for _, f := range files {
			steps, err := loadSimLabels(f)
			if err != nil {
				return err
			}
			if len(steps) == 0 {
				continue
			}
			nsim++
			segment(func() { d.simHistory(steps) })
			if runErr != nil {
				return runErr
			}
		}
	}
	for k := 0; k < *navail; k++ {
		d.big = true
		segment(func() { d.availScenario(*rlen) })
		d.big = false
		if runErr != nil {
			return runErr
		}
	}
	for k := 0; k < *nbig; k++ {
		d.big = true
		segment(func() { d.bigSstScenario() })
		d.big = false
		if runErr != nil {
			return runErr
		}
	}
	for k := 0; k < *nrand; k++ {
		segment(func() { d.randomHistory(*rlen) })
		if runErr != nil {
			return runErr
		}
	}
	d.closeAll()
	n := 0
	for _, tw := range tws {
		n += tw.N
		tw.Close()
	}
	os.Stdout = realOut
	summary(map[string]interface{}{"driver": "ckptsim", "engine": *et, "seed": *seed, "segments": seg,
		"sim_behaviours": nsim, "random_histories": *nrand, "events": n, "counts": d.cnt, "sample_dump": d.sample})
	return nil
}
