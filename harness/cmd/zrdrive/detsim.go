package main

// detsim (property C07): applies one committed log to fresh real state machines under many
// execution conditions (apply-group cut points, replay flag, checkpoint/restore + tail replay,
// close/reopen, engine, wall-clock position) and records, per run, the reply of every log
// position and a full dump.  spec/ZDetTrace.tla decides: reply[idx] and dump[key] are
// write-once across the runs of one log.
//
// Events:  log{id,n,policy,kind}  run{cond,...}  reply{idx,r}  dump{k,v}  dumpn{n}
//          panic{idx,msg} (no action in the specification)

import (
	"flag"
	"fmt"
	"math/rand"
	"os"
	"sort"
	"strconv"
	"strings"
	"time"

	"github.com/youzan/ZanRedisDB/node"
	"zrverif/trace"
)

func init() { commands["detsim"] = detsim }

const detTable = "ta"
const detHLLTable = "Qt" // raw keys of this table are left out of raw dumps (HLL write cache)

type detGen struct {
	rng     *rand.Rand
	ts      int64
	expSecs []int64
	varlen  bool // variable-length / binary / empty sub-keys (pebble only: mem radix finding)
	hllMix  bool // unrestricted SET on HyperLogLog keys (isolate stage)
	hllState map[string]string
	mono     bool     // strictly increasing timestamps
	syncAny  bool     // any entry may be typed FromClusterSyncer (isolate stage)
	durs     []string // TTL pool override (real-raft stage: real time, only 1 s and far TTLs)
	lastDel2 string
	bigUsed  bool  // at most one oversized value per log
	hot      []int // entry indexes after which a restart cut is most revealing (a command that is expected to fail in its handler after buffering)
	n       int
}

func (g *detGen) pick(ss ...string) string { return ss[g.rng.Intn(len(ss))] }
func (g *detGen) k(names ...string) string { return detTable + ":" + g.pick(names...) }
func (g *detGen) val() string {
	switch g.rng.Intn(6) {
	case 0:
		return ""
	case 1:
		return strconv.Itoa(g.rng.Intn(100) - 20)
	case 2:
		return strings.Repeat("x", 1+g.rng.Intn(40))
	default:
		g.n++
		return "v" + strconv.Itoa(g.n)
	}
}
func (g *detGen) sub(pool ...string) string {
	if g.varlen {
		switch g.rng.Intn(8) {
		case 0:
			return ""
		case 1:
			return "m1\x00"
		case 2:
			return "m"
		case 3:
			return "m1m1"
		case 4:
			return "\xff\x00"
		}
	}
	return g.pick(pool...)
}
func (g *detGen) dur() string {
	pool := []string{"1", "2", "3", "2", "100000"}
	if g.durs != nil {
		pool = g.durs
	}
	d := pool[g.rng.Intn(len(pool))]
	n, _ := strconv.ParseInt(d, 10, 64)
	if n < 1000 {
		g.expSecs = append(g.expSecs, g.ts/1e9+n)
	}
	return d
}

var detBigValue = strings.Repeat("B", 8*1024*1024+1)

var detMembers = []string{"m1", "m2", "m3", "m4", "m5"}
var detFields = []string{"f1", "f2", "f3", "f4"}

// step advances the log clock adversarially: equal nanosecond, +-1 ns, same second, around
// the second of a pending expiry.  Log time is not monotone.
func (g *detGen) step() {
	if g.mono {
		// strictly increasing log time (no two entries can conflict by timestamp)
		g.ts += 1 + int64(g.rng.Intn(3))*int64(g.rng.Intn(int(time.Second)))
		return
	}
	switch r := g.rng.Intn(20); {
	case r < 2:
	case r < 5:
		g.ts++
	case r < 6:
		g.ts--
	case r < 10:
		g.ts += int64(g.rng.Intn(1000))
	case r < 13:
		g.ts += int64(time.Millisecond) * int64(1+g.rng.Intn(300))
	case r < 15:
		g.ts += int64(g.rng.Intn(int(time.Second)))
	case r < 17:
		g.ts += int64(time.Second)
	default:
		if len(g.expSecs) > 0 {
			e := g.expSecs[g.rng.Intn(len(g.expSecs))] * int64(time.Second)
			g.ts = e + []int64{-1, 0, 1, 999999999, int64(time.Second), -int64(time.Second)}[g.rng.Intn(6)]
		} else {
			g.ts += 7
		}
	}
}

// cmd returns one write command in the form it has inside the log (namespace already cut).
func (g *detGen) cmd() []string {
	kv := func() string { return g.k("ka", "kb", "kc") }
	ik := func() string { return g.k("ia", "ib", "ka") }
	switch f := g.rng.Intn(100); {
	case f < 22: // strings
		switch g.rng.Intn(16) {
		case 0, 1, 2:
			return []string{"set", kv(), g.val()}
		case 3:
			return []string{"set", kv(), g.val(), "ex", g.dur()}
		case 4:
			return []string{"set", kv(), g.val(), g.pick("nx", "xx")}
		case 5:
			return []string{"setex", kv(), g.dur(), g.val()}
		case 6:
			return []string{"setnx", kv(), g.val()}
		case 7:
			return []string{"getset", kv(), g.val()}
		case 8:
			return []string{"append", kv(), g.val()}
		case 9:
			return []string{"setrange", kv(), strconv.Itoa(g.rng.Intn(12)), g.val()}
		case 10:
			return []string{"incr", ik()}
		case 11:
			return []string{"incrby", ik(), strconv.Itoa(g.rng.Intn(50) - 10)}
		case 12:
			if g.rng.Intn(2) == 0 {
				return []string{"del", kv(), g.k("ia", "kb")}
			}
			return []string{"del", g.k("ka", "kb", "kc", "ia")}
		case 13:
			return []string{"delifeq", kv(), g.pick("v1", "v2", g.val())}
		case 14:
			return []string{"expire", g.k("ka", "kb", "ia"), g.dur()}
		default:
			return []string{"persist", g.k("ka", "kb", "ia")}
		}
	case f < 28: // multi-key write (merge command) and setifeq
		if !g.bigUsed && g.rng.Intn(6) == 0 {
			// a later pair with a value over the 8 MiB limit: accepted at propose, rejected in the
			// apply handler after the earlier pair was buffered
			g.bigUsed = true
			return []string{"plset", g.k("ka"), g.val(), g.k("kc"), detBigValue}
		}
		if g.rng.Intn(2) == 0 {
			return []string{"plset", g.k("ka"), g.val(), g.k("kc"), g.val()}
		}
		return []string{"setifeq", kv(), g.val(), g.val()}
	case f < 34: // bitmap
		b := g.k("ba", "bb")
		switch g.rng.Intn(6) {
		case 0, 1, 2:
			return []string{g.pick("setbitv2", "setbit"), b, strconv.Itoa(g.rng.Intn(70000)), g.pick("0", "1", "1")}
		case 3:
			return []string{"bitclear", b}
		case 4:
			return []string{"bexpire", b, g.dur()}
		default:
			return []string{"bpersist", b}
		}
	case f < 38: // hyperloglog (a string type in Redis: DEL, EXISTS and SET on the same key are legitimate)
		hk := detHLLTable + ":" + g.pick("pa", "pb")
		if g.hllState == nil {
			g.hllState = map[string]string{}
		}
		// narrowed avoid rule of the open finding C07-hll-write-cache: the only thing kept out of
		// the general corpus is a string write on a key whose HLL may still sit in the write cache
		// (SET after PFADD without a DEL in between); -hllmix (isolate stage) lifts it
		switch r := g.rng.Intn(10); {
		case r < 2:
			g.hllState[hk] = ""
			if g.rng.Intn(3) == 0 {
				return []string{"del", g.k("kb"), hk}
			}
			return []string{"del", hk}
		case r < 3 && (g.hllMix || g.hllState[hk] != "pf"):
			g.hllState[hk] = "str"
			return []string{"set", hk, g.val()}
		}
		if g.hllState[hk] != "str" {
			g.hllState[hk] = "pf"
		}
		return []string{"pfadd", hk, g.val(), g.val()}
	case f < 46: // json
		j := g.k("ja", "jb")
		switch g.rng.Intn(6) {
		case 0, 1:
			return []string{"json.set", j, "", `{"a":` + strconv.Itoa(g.rng.Intn(9)) + `,"arr":[1],"o":{"x":"y"}}`}
		case 2:
			return []string{"json.set", j, g.pick("a", "o.x", "b"), strconv.Itoa(g.rng.Intn(99))}
		case 3:
			return []string{"json.arrappend", j, "arr", strconv.Itoa(g.rng.Intn(9)), `"s"`}
		case 4:
			return []string{"json.arrpop", j, "arr"}
		default:
			return []string{"json.del", j, g.pick("a", "o", "arr", "")}
		}
	case f < 60: // hash
		h := g.k("ha", "hb")
		switch g.rng.Intn(10) {
		case 0, 1:
			return []string{"hset", h, g.sub(detFields...), g.val()}
		case 2:
			return []string{"hsetnx", h, g.sub(detFields...), g.val()}
		case 3, 4:
			return []string{"hmset", h, g.sub(detFields...), g.val(), g.sub(detFields...), g.val()}
		case 5:
			return []string{"hdel", h, g.sub(detFields...), g.sub(detFields...)}
		case 6:
			return []string{"hincrby", h, g.pick("n1", "n2", "f1"), strconv.Itoa(g.rng.Intn(9) - 3)}
		case 7:
			return []string{"hclear", h}
		case 8:
			return []string{"hexpire", h, g.dur()}
		default:
			return []string{"hpersist", h}
		}
	case f < 72: // list
		l := g.k("la", "lb")
		switch g.rng.Intn(11) {
		case 0, 1:
			return []string{"lpush", l, g.val(), g.val()}
		case 2, 3:
			return []string{"rpush", l, g.val()}
		case 4:
			return []string{"lpop", l}
		case 5:
			return []string{"rpop", l}
		case 6:
			return []string{"lset", l, strconv.Itoa(g.rng.Intn(4) - 1), g.val()}
		case 7:
			return []string{"ltrim", l, strconv.Itoa(g.rng.Intn(3)), strconv.Itoa(g.rng.Intn(5) - 2)}
		case 8:
			return []string{"lclear", l}
		case 9:
			return []string{"lexpire", l, g.dur()}
		default:
			return []string{"lpersist", l}
		}
	case f < 84: // set
		s := g.k("sa", "sb")
		switch g.rng.Intn(9) {
		case 0, 1, 2:
			return []string{"sadd", s, g.sub(detMembers...), g.sub(detMembers...)}
		case 3:
			return []string{"srem", s, g.sub(detMembers...)}
		case 4:
			return []string{"spop", s}
		case 5:
			return []string{"spop", s, "2"}
		case 6:
			return []string{"sclear", s}
		case 7:
			return []string{"sexpire", s, g.dur()}
		default:
			return []string{"spersist", s}
		}
	default: // sorted set, incl. the zadd form geoadd is rewritten to on the leader
		z := g.k("za", "zb")
		sc := func() string {
			return g.pick("1", "2", "2", "-1.5", "3e2", "0", "1.25", strconv.Itoa(g.rng.Intn(7)))
		}
		switch g.rng.Intn(12) {
		case 0, 1, 2:
			return []string{"zadd", z, sc(), g.sub(detMembers...), sc(), g.sub(detMembers...)}
		case 3:
			return []string{"zadd", g.k("ga"), strconv.FormatUint(4000000000000000+uint64(g.rng.Intn(1000)), 10), g.sub(detMembers...)}
		case 4:
			return []string{"zincrby", z, sc(), g.sub(detMembers...)}
		case 5:
			return []string{"zrem", z, g.sub(detMembers...), g.sub(detMembers...)}
		case 6:
			return []string{"zremrangebyrank", z, strconv.Itoa(g.rng.Intn(3)), strconv.Itoa(g.rng.Intn(4) - 2)}
		case 7:
			return []string{"zremrangebyscore", z, g.pick("1", "(1", "-inf"), g.pick("2", "(2", "+inf")}
		case 8:
			return []string{"zremrangebylex", z, g.pick("[m1", "(m2", "-"), g.pick("[m3", "(m4", "+")}
		case 9:
			return []string{"zclear", z}
		case 10:
			return []string{"zexpire", z, g.dur()}
		default:
			return []string{"zpersist", z}
		}
	}
}

// dense returns a command of a batch-dense log: mostly the batchable writes (set, setex,
// single-key del, hmset) on few keys, so that batches form, get cut before repeated keys and
// around non-batchable commands.  With failing=true it also produces batchable commands that
// pass the leader-side checks but fail in the apply handler (isolate stage of finding
// C07-batch-abort-on-apply-error).
func (g *detGen) dense(failing bool) []string {
	if failing && g.rng.Intn(12) == 0 {
		return g.failingBatchable()
	}
	return g.denseValid()
}

func (g *detGen) failingBatchable() []string {
	kv := func() string { return g.k("ka", "kb", "kc") }
	h := func() string { return g.k("ha", "hb", "ka") }
	{
		switch g.rng.Intn(4) {
		case 0:
			return []string{"setex", kv(), "notnum", g.val()}
		case 1:
			return []string{"setex", kv(), g.pick("0", "-3"), g.val()}
		case 2:
			return []string{"hmset", h(), strings.Repeat("F", 1100), g.val()}
		default:
			return []string{"set", kv(), detBigValue}
		}
	}
}

func (g *detGen) denseValid() []string {
	kv := func() string { return g.k("ka", "kb", "kc", "kd", "ke") }
	h := func() string { return g.k("ha", "hb", "ka") }
	if g.lastDel2 != "" {
		// a batchable write on a NON-first key of the preceding multi-key DEL
		k := g.lastDel2
		g.lastDel2 = ""
		switch g.rng.Intn(4) {
		case 0:
			return []string{"set", k, g.val(), "nx"}
		case 1:
			return []string{"del", k}
		case 2:
			return []string{"setex", k, "100000", g.val()}
		}
	}
	switch r := g.rng.Intn(20); {
	case r < 6:
		return []string{"set", kv(), g.val()}
	case r < 9:
		return []string{"setex", kv(), g.dur(), g.val()}
	case r < 12:
		return []string{"del", kv()}
	case r < 15:
		return []string{"hmset", h(), g.sub(detFields...), g.val(), g.sub(detFields...), g.val()}
	case r < 16:
		a, b := kv(), kv()
		for b == a {
			b = kv()
		}
		g.lastDel2 = b
		return []string{"del", a, b}
	case r < 17:
		return []string{"incr", g.k("ia", "ka")}
	case r < 18:
		return []string{"getset", kv(), g.val()}
	case r < 19:
		return []string{"hset", h(), g.sub(detFields...), g.val()}
	default:
		return []string{"set", kv(), g.val(), g.pick("nx", "xx")}
	}
}

// commands registered in kvStoreSM.registerConflictHandlers (an unregistered command is always
// treated as a conflict by the live path)
var detConflictChecked = map[string]bool{"del": true, "delifeq": true, "set": true, "setifeq": true, "append": true, "setrange": true,
	"getset": true, "setnx": true, "incr": true, "incrby": true, "plset": true, "pfadd": true, "setbitv2": true, "setbit": true,
	"bitclear": true, "bexpire": true, "bpersist": true, "hset": true, "hsetnx": true, "hincrby": true, "hmset": true, "hdel": true,
	"lpop": true, "lpush": true, "lset": true, "ltrim": true, "rpop": true, "rpush": true, "lclear": true, "lexpire": true, "lpersist": true,
	"zadd": true, "zincrby": true, "zrem": true, "zremrangebyrank": true, "zremrangebyscore": true, "zremrangebylex": true, "zclear": true,
	"zexpire": true, "zpersist": true, "sadd": true, "srem": true, "spop": true, "sclear": true, "sexpire": true, "spersist": true,
	"setex": true, "expire": true, "persist": true}

// syncerCmd: writes of the families the conflict checker knows, on very few keys.
func (g *detGen) syncerCmd() []string {
	switch g.rng.Intn(10) {
	case 0, 1, 2:
		return []string{"set", g.k("ka", "kb"), g.val()}
	case 3:
		return []string{"incr", g.k("ia")}
	case 4:
		return []string{"del", g.k("ka", "kb")}
	case 5:
		return []string{"hset", g.k("ha"), g.pick("f1", "f2"), g.val()}
	case 6:
		return []string{"hdel", g.k("ha"), g.pick("f1", "f2")}
	case 7:
		return []string{"sadd", g.k("sa"), g.pick("m1", "m2")}
	case 8:
		return []string{"zadd", g.k("za"), g.pick("1", "2"), g.pick("m1", "m2")}
	default:
		return []string{"lpush", g.k("la"), g.val()}
	}
}

func detAllKeys() detKeys {
	p := func(names ...string) []string {
		out := make([]string, len(names))
		for i, n := range names {
			out[i] = detTable + ":" + n
		}
		return out
	}
	return detKeys{
		KV: p("ka", "kb", "kc", "kd", "ke", "ia", "ib"), Bit: p("ba", "bb"),
		HLL:  []string{detHLLTable + ":pa", detHLLTable + ":pb"},
		JSON: p("ja", "jb"), Hash: p("ha", "hb", "ka"), List: p("la", "lb"), Set: p("sa", "sb"),
		ZSet: p("za", "zb", "ga"),
	}
}

func (g *detGen) log(n int) []detEntry {
	return g.logKind(n, "general", false)
}

func (g *detGen) logKind(n int, kind string, failing bool) []detEntry {
	out := make([]detEntry, 0, n)
	for i := 0; i < n; i++ {
		g.step()
		if kind == "dense" && !failing && i > 0 && i+2 < n && g.rng.Intn(12) == 0 {
			// a batchable command that fails in its apply handler, placed right after a
			// non-batchable one: it is always the FIRST command of its write batch, whatever the
			// grouping, so the abort it triggers has no earlier command to drop (this is all the
			// avoid rule of finding C07-batch-abort-on-apply-error leaves out: a failing batchable
			// command WITH batch predecessors)
			out = append(out, detEntry{Ts: g.ts, Cmds: [][]string{{"incr", g.k("ia")}}})
			out = append(out, detEntry{Ts: g.ts + 1, Cmds: [][]string{g.failingBatchable()}})
			i++
			continue
		}
		if kind == "dense" && failing && i > 0 && i+3 < n && g.rng.Intn(8) == 0 {
			// the trigger of finding C07-batch-abort-on-apply-error on purpose: two batchable writes
			// on other keys in their own entries, then a batchable command that fails in its handler
			out = append(out, detEntry{Ts: g.ts, Cmds: [][]string{{"set", g.k("kd"), g.val()}}})
			out = append(out, detEntry{Ts: g.ts + 1, Cmds: [][]string{{"set", g.k("ke"), g.val()}}})
			out = append(out, detEntry{Ts: g.ts + 2, Cmds: [][]string{g.failingBatchable()}})
			i += 2
			continue
		}
		e := detEntry{Ts: g.ts, Syncer: kind == "syncer" && g.rng.Intn(5) < 3}
		nc := 1
		if g.rng.Intn(10) == 0 {
			nc = 2 + g.rng.Intn(2)
		}
		for c := 0; c < nc; c++ {
			if kind == "dense" {
				e.Cmds = append(e.Cmds, g.dense(failing))
			} else if kind == "syncer" && g.rng.Intn(3) > 0 {
				// few keys, so that entries from the two clusters meet on the same key
				e.Cmds = append(e.Cmds, g.syncerCmd())
			} else {
				e.Cmds = append(e.Cmds, g.cmd())
			}
		}
		if kind == "general" && !g.bigUsed && n > 20 && i == n/2 {
			// every general log has exactly one multi-pair write whose later value is over the
			// 8 MiB limit (accepted at propose, rejected by the apply handler after buffering)
			g.bigUsed = true
			e.Cmds = [][]string{{"plset", g.k("ka"), g.val(), g.k("kc"), detBigValue}}
		}
		if e.Syncer && !g.syncAny {
			// narrowed avoid rule of finding C07-syncer-conflict-filter: in the general corpus an entry
			// is typed FromClusterSyncer only if the conflict filter lets it through on every
			// replica: one command, of a family with a registered conflict handler, log time
			// strictly increasing and older than the process (SetSyncerOnly(false) at start)
			if len(e.Cmds) != 1 || !detConflictChecked[e.Cmds[0][0]] {
				e.Syncer = false
			}
		}
		for _, c := range e.Cmds {
			for _, a := range c {
				if len(a) > 8*1024*1024 {
					g.hot = append(g.hot, len(out)+1)
				}
			}
		}
		out = append(out, e)
	}
	return out
}

// ---------------------------------------------------------------- execution conditions

type detCond struct {
	Eng     string
	Replay  bool
	Cuts    []int  // an apply group ends after these entry indexes (exclusive upper bounds), ascending, last = len
	Restart int    // -1: none; else a checkpoint is taken after entry index Restart (a cut point)
	RKind   string // "restore": backup at Restart, apply Dirty more entries, restore, replay the tail;
	//                "reopen": close and reopen the store at Restart (persistent engines)
	Dirty int
	Name  string
}

func detCutsEvery(n, k int) []int {
	var c []int
	for i := k; i < n; i += k {
		c = append(c, i)
	}
	return append(c, n)
}

func detCutsRandom(rng *rand.Rand, n int) []int {
	var c []int
	for i := 1; i < n; i++ {
		if rng.Intn(4) == 0 {
			c = append(c, i)
		}
	}
	return append(c, n)
}

func detWithCut(cuts []int, h int) []int {
	out := []int{}
	done := false
	for _, c := range cuts {
		if !done && c >= h {
			if c != h {
				out = append(out, h)
			}
			done = true
		}
		out = append(out, c)
	}
	return out
}

func detConds(rng *rand.Rand, n int, engines []string, full bool, hot []int) []detCond {
	var cs []detCond
	add := func(c detCond) {
		c.Name = fmt.Sprintf("%s/replay=%v/cuts=%s/restart=%s@%d+%d", c.Eng, c.Replay, detCutName(c.Cuts, n), c.RKind, c.Restart, c.Dirty)
		cs = append(cs, c)
	}
	for ei, eng := range engines {
		// the reference shape first: every entry its own apply group
		add(detCond{Eng: eng, Cuts: detCutsEvery(n, 1), Restart: -1})
		ks := []int{2, 3, 7, n}
		if !full {
			ks = []int{[]int{2, 3, 5, 7}[rng.Intn(4)], n}
		}
		for _, k := range ks {
			add(detCond{Eng: eng, Cuts: detCutsEvery(n, k), Restart: -1, Replay: rng.Intn(2) == 0})
		}
		nr := 1
		if full {
			nr = 3
		}
		for i := 0; i < nr; i++ {
			add(detCond{Eng: eng, Cuts: detCutsRandom(rng, n), Restart: -1, Replay: i%2 == 0})
		}
		// checkpoint at a random cut + dirty tail + restore + replay of the tail
		for i := 0; i < nr; i++ {
			cuts := detCutsRandom(rng, n)
			at := cuts[rng.Intn(len(cuts))]
			add(detCond{Eng: eng, Cuts: cuts, Restart: at, RKind: "restore", Dirty: rng.Intn(6), Replay: true})
		}
		if eng == "pebble" && (full || ei == 0) {
			cuts := detCutsRandom(rng, n)
			add(detCond{Eng: eng, Cuts: cuts, Restart: cuts[rng.Intn(len(cuts))], RKind: "reopen", Replay: true})
		}
		// a restart exactly after an entry that is expected to fail after buffering: what it left
		// in the store's default write batch is lost here and committed by the next write elsewhere
		for _, h := range hot {
			if h <= 0 || h >= n {
				continue
			}
			add(detCond{Eng: eng, Cuts: detWithCut(detCutsRandom(rng, n), h), Restart: h, RKind: "restore", Replay: true})
			if eng == "pebble" {
				add(detCond{Eng: eng, Cuts: detWithCut(detCutsEvery(n, 3), h), Restart: h, RKind: "reopen", Replay: true})
			}
		}
	}
	return cs
}

func detCutName(c []int, n int) string {
	if len(c) == n {
		return "each"
	}
	if len(c) == 1 {
		return "one"
	}
	if len(c) <= 6 {
		return strings.Trim(strings.Replace(fmt.Sprint(c), " ", ",", -1), "[]")
	}
	return fmt.Sprintf("%d,%d,..(%d)", c[0], c[1], len(c))
}

type detRunner struct {
	tw       detEmitter
	scratch  string
	stats    map[string]int
	panics   int
	families map[string]int
}

// detKnownDivergent marks the log positions whose REPLY VALUE is known to depend on the flush
// state of the HyperLogLog write cache on the unchanged tree (open finding
// C07-hll-write-cache): DEL with a key of the HLL table.  Nothing else about such a command
// is excused: the stored data is compared strictly after a final flush.
func detKnownDivergent(log []detEntry, idx int) string {
	e, c := idx/100, idx%100
	if e < len(log) && c < len(log[e].Cmds) {
		cmd := log[e].Cmds[c]
		if cmd[0] == "del" {
			for _, k := range cmd[1:] {
				if strings.HasPrefix(k, detHLLTable+":") {
					return "hll-del"
				}
			}
		}
	}
	return ""
}

// detMaskHLL: a stored HyperLogLog value is [type][cached count 8][sketch...][ts 8].  The cached
// count and the timestamp depend on when the item was loaded into the cache, and the sketch
// bytes are not canonical either (the sparse form serialises a Go map), so a data record of the
// HLL table that carries an HLL type byte is compared by presence only; its content is
// compared through PFCOUNT and EXISTS in the logical dump.  Plain strings stored under such a
// key are compared in full.
func detMaskHLL(k, v []byte) []byte {
	if len(k) > 0 && k[0] == 0x15 && strings.Contains(string(k), detHLLTable+":") && len(v) >= 17 && v[0] <= 8 {
		return []byte("hll")
	}
	return v
}

// detRunDeadline: a run (one condition, normally well under a second) that does not come back
// within this time twice in a row is recorded as event `hung` (no action in the specification).
var detRunDeadline = 60 * time.Second

// run applies the log under one condition and emits the run's events; the work happens in a
// goroutine so that a deadlock inside the code under test cannot hang the driver.
func (r *detRunner) run(log []detEntry, policy string, c detCond, logical bool, extra trace.M) error {
	for attempt := 0; attempt < 2; attempt++ {
		buf := &detMemW{}
		sub := &detRunner{tw: buf, scratch: r.scratch, stats: map[string]int{}}
		ch := make(chan error, 1)
		go func() { ch <- sub.runInner(log, policy, c, logical, extra) }()
		select {
		case err := <-ch:
			for _, e := range buf.evs {
				r.tw.Emit(e)
			}
			for k, v := range sub.stats {
				r.stats[k] += v
			}
			r.panics += sub.panics
			return err
		case <-time.After(detRunDeadline):
			r.stats["run_timeouts"]++
		}
	}
	ev := trace.M{"ev": "run", "cond": c.Name, "eng": c.Eng, "replay": c.Replay, "groups": len(c.Cuts), "restart": c.RKind}
	for k, v := range extra {
		ev[k] = v
	}
	r.tw.Emit(ev)
	r.tw.Emit(trace.M{"ev": "hung", "cond": c.Name})
	r.stats["runs"]++
	r.stats["hung"]++
	return nil
}

func (r *detRunner) runInner(log []detEntry, policy string, c detCond, logical bool, extra trace.M) error {
	d, err := detOpenSM(r.scratch, c.Eng, policy)
	if err != nil {
		return err
	}
	defer d.close()
	ev := trace.M{"ev": "run", "cond": c.Name, "eng": c.Eng, "replay": c.Replay, "groups": len(c.Cuts), "restart": c.RKind}
	for k, v := range extra {
		ev[k] = v
	}
	r.tw.Emit(ev)
	r.stats["runs"]++
	emit := func(rs []detReply) {
		for _, x := range rs {
			if x.Panic != "" {
				r.tw.Emit(trace.M{"ev": "panic", "idx": x.Idx, "msg": x.Panic})
				r.panics++
				continue
			}
			r.tw.Emit(trace.M{"ev": "reply", "idx": x.Idx, "r": x.R, "kd": detKnownDivergent(log, x.Idx)})
			r.stats["replies"]++
		}
	}
	applyRange := func(lo, hi int) bool { // groups as cut by c.Cuts inside [lo,hi)
		from := lo
		for _, cut := range c.Cuts {
			if cut <= from {
				continue
			}
			to := cut
			if to > hi {
				to = hi
			}
			rs, p := d.applyGroup(log, from, to, c.Replay)
			r.stats["groups"]++
			emit(rs)
			if p != "" {
				return false
			}
			from = to
			if from >= hi {
				break
			}
		}
		return true
	}
	ok := true
	if c.Restart < 0 {
		ok = applyRange(0, len(log))
	} else {
		ok = applyRange(0, c.Restart)
		if ok && c.RKind == "restore" {
			bi := d.store().Backup(2, uint64(c.Restart))
			for try := 0; bi == nil && try < 50; try++ {
				// the store's backup goroutine takes requests one at a time
				time.Sleep(10 * time.Millisecond)
				bi = d.store().Backup(2, uint64(c.Restart))
			}
			if bi == nil {
				return fmt.Errorf("backup refused")
			}
			bi.WaitReady()
			if _, err := bi.GetResult(); err != nil {
				return fmt.Errorf("backup: %v", err)
			}
			hi := c.Restart + c.Dirty
			if hi > len(log) {
				hi = len(log)
			}
			// entries applied after the checkpoint was cut; they are applied again after the restore
			ok = applyRange(c.Restart, hi)
			if ok {
				if err := d.store().Restore(2, uint64(c.Restart)); err != nil {
					return fmt.Errorf("restore: %v", err)
				}
				r.stats["restores"]++
				ok = applyRange(c.Restart, len(log))
			}
		} else if ok {
			if err := d.reopen(); err != nil {
				return fmt.Errorf("reopen: %v", err)
			}
			r.stats["reopens"]++
			ok = applyRange(c.Restart, len(log))
		}
	}
	if !ok {
		return nil
	}
	// final flush of the HLL write cache (a checkpoint does it), so that the stored data of every
	// run is compared in its settled form
	fb := d.store().Backup(3, uint64(len(log))+1000)
	for try := 0; fb == nil && try < 50; try++ {
		time.Sleep(10 * time.Millisecond)
		fb = d.store().Backup(3, uint64(len(log))+1000)
	}
	if fb == nil {
		return fmt.Errorf("final backup refused")
	}
	fb.WaitReady()
	if _, err := fb.GetResult(); err != nil {
		return fmt.Errorf("final backup: %v", err)
	}
	raw, err := d.rawDump2(nil, detMaskHLL)
	if err != nil {
		return err
	}
	// a table key counter that is 0 and one that was never written are the same count (the
	// counter is a merge operand; +1 at a cache flush and -1 at the DEL leave a stored zero)
	for k, v := range raw {
		if strings.HasPrefix(k, "0a6d6574613a") && v == "0000000000000000" {
			delete(raw, k)
		}
	}
	keys := make([]string, 0, len(raw))
	for k := range raw {
		keys = append(keys, k)
	}
	sort.Strings(keys)
	for _, k := range keys {
		r.tw.Emit(trace.M{"ev": "dump", "k": "raw:" + k, "v": raw[k]})
	}
	n := len(raw)
	if logical {
		ld := d.logicalDump(detAllKeys())
		lk := make([]string, 0, len(ld))
		for k := range ld {
			lk = append(lk, k)
		}
		sort.Strings(lk)
		for _, k := range lk {
			r.tw.Emit(trace.M{"ev": "dump", "k": "log:" + k, "v": ld[k]})
		}
		n += len(ld)
	}
	r.tw.Emit(trace.M{"ev": "dumpn", "n": n})
	r.stats["dumpkeys"] += n
	return nil
}

func detLogEvent(id int, kind, policy string, log []detEntry) trace.M {
	cmds := 0
	names := []string{}
	for i, e := range log {
		cmds += len(e.Cmds)
		for ci, c := range e.Cmds {
			k := ""
			if len(c) > 1 {
				k = c[1]
				if len(k) > 20 {
					k = k[:20]
				}
			}
			names = append(names, fmt.Sprintf("%d %s %s %d", i*100+ci, c[0], k, len(c)))
		}
	}
	syn := []int{}
	for i, e := range log {
		if e.Syncer {
			for ci := range e.Cmds {
				syn = append(syn, i*100+ci)
			}
		}
	}
	return trace.M{"ev": "log", "id": id, "kind": kind, "policy": policy, "n": len(log), "cmds": cmds, "names": names, "syncer": syn}
}

func detDescribe(log []detEntry, base int64) []string {
	var out []string
	for i, e := range log {
		for ci, c := range e.Cmds {
			sc := make([]string, len(c))
			for k, a := range c {
				if len(a) > 40 {
					a = fmt.Sprintf("%s...(%d bytes)", a[:12], len(a))
				}
				sc[k] = a
			}
			out = append(out, fmt.Sprintf("%d.%d @%+dns %q", i, ci, e.Ts-base, sc))
		}
	}
	return out
}

// ---------------------------------------------------------------- straddle logs

type detStraddle struct {
	family string
	setup  [][]string
	expire []string
	probes [][]string
}

// detStraddleCases: for every write command of a family, a key that gets an expiry a few
// seconds ahead of the wall clock, then the command at a log time before and at a log time
// after the expiry instant.
func detStraddleCases() []detStraddle {
	var cs []detStraddle
	n := 0
	key := func(p string) string { n++; return fmt.Sprintf("%s:%s%02d", detTable, p, n) }
	addKV := func(setup func(k string) [][]string, exp string, probes ...func(k string) []string) {
		for _, p := range probes {
			k := key("x")
			cs = append(cs, detStraddle{family: exp, setup: setup(k), expire: []string{exp, k, "%EXP%"},
				probes: [][]string{p(k), p(k)}})
		}
	}
	one := func(c ...string) func(k string) [][]string {
		return func(k string) [][]string {
			o := make([]string, len(c))
			for i, a := range c {
				o[i] = strings.Replace(a, "%K", k, -1)
			}
			return [][]string{o}
		}
	}
	p := func(c ...string) func(k string) []string {
		return func(k string) []string {
			o := make([]string, len(c))
			for i, a := range c {
				o[i] = strings.Replace(a, "%K", k, -1)
			}
			return o
		}
	}
	addKV(one("set", "%K", "10"), "expire",
		p("set", "%K", "w", "nx"), p("set", "%K", "w", "xx"), p("setnx", "%K", "w"), p("getset", "%K", "w"),
		p("append", "%K", "ab"), p("setrange", "%K", "1", "zz"), p("incr", "%K"), p("incrby", "%K", "5"),
		p("del", "%K"), p("del", "%K", detTable+":nokey"), p("delifeq", "%K", "10"), p("setifeq", "%K", "10", "11"),
		p("expire", "%K", "100000"), p("persist", "%K"), p("plset", "%K", "w"), p("setex", "%K", "100000", "w"))
	addKV(one("setbitv2", "%K", "9", "1"), "bexpire",
		p("setbitv2", "%K", "9", "0"), p("setbitv2", "%K", "11", "1"), p("bitclear", "%K"), p("bexpire", "%K", "100000"), p("bpersist", "%K"))
	addKV(one("hmset", "%K", "f1", "1", "f2", "b"), "hexpire",
		p("hset", "%K", "f1", "w"), p("hset", "%K", "f3", "w"), p("hsetnx", "%K", "f1", "w"), p("hmset", "%K", "f1", "w", "f4", "w"),
		p("hdel", "%K", "f1"), p("hincrby", "%K", "f1", "4"), p("hclear", "%K"), p("hexpire", "%K", "100000"), p("hpersist", "%K"))
	addKV(one("rpush", "%K", "a", "b", "c"), "lexpire",
		p("lpush", "%K", "w"), p("rpush", "%K", "w"), p("lpop", "%K"), p("rpop", "%K"), p("lset", "%K", "0", "w"),
		p("ltrim", "%K", "0", "1"), p("lclear", "%K"), p("lexpire", "%K", "100000"), p("lpersist", "%K"))
	addKV(one("sadd", "%K", "m1", "m2", "m3"), "sexpire",
		p("sadd", "%K", "m1"), p("sadd", "%K", "m4"), p("srem", "%K", "m1"), p("spop", "%K"), p("spop", "%K", "2"),
		p("sclear", "%K"), p("sexpire", "%K", "100000"), p("spersist", "%K"))
	addKV(one("zadd", "%K", "1", "m1", "2", "m2", "3", "m3"), "zexpire",
		p("zadd", "%K", "5", "m1"), p("zadd", "%K", "5", "m4"), p("zincrby", "%K", "2", "m1"), p("zrem", "%K", "m1"),
		p("zremrangebyrank", "%K", "0", "0"), p("zremrangebyscore", "%K", "1", "2"), p("zremrangebylex", "%K", "[m1", "[m2"),
		p("zclear", "%K"), p("zexpire", "%K", "100000"), p("zpersist", "%K"))
	return cs
}

// ---------------------------------------------------------------- main

func detsim(args []string) error {
	fs := flag.NewFlagSet("detsim", flag.ExitOnError)
	seed := fs.Int64("seed", 1, "")
	nlogs := fs.Int("logs", 6, "number of generated logs")
	llen := fs.Int("len", 60, "entries per log")
	outp := fs.String("o", "det", "output prefix; parts are <prefix>.<i>.ndjson")
	parts := fs.Int("parts", 4, "trace files (a log with all its runs goes to one part)")
	engs := fs.String("engines", "pebble,mem", "")
	full := fs.Bool("full", false, "all batching shapes per engine instead of a sample")
	straddle := fs.Int("straddle", 0, "straddle rounds (each costs about 5 s of real sleep)")
	straddleOnly := fs.String("straddle-only", "", "comma separated command names: restrict straddle probes to these (isolate stages)")
	straddleSkip := fs.String("straddle-skip", "", "comma separated command names left out of straddle probes (recorded findings)")
	varlenEvery := fs.Int("varlen", 3, "every n-th log uses variable-length/binary sub-keys and runs on pebble only (0: never)")
	denseEvery := fs.Int("dense", 3, "every n-th log is batch-dense (0: never)")
	syncerEvery := fs.Int("syncer", 4, "every n-th log contains entries of the cross-cluster syncer with source-cluster timestamps (0: never)")
	syncerNonMono := fs.Bool("syncer-nonmono", false, "syncer logs with non-monotone / equal timestamps (isolate stage of finding C07-syncer-conflict-replay)")
	hllMix := fs.Bool("hllmix", false, "DEL and SET on HyperLogLog keys (exploration of the HLL write cache)")
	failing := fs.Bool("failing", false, "batch-dense logs contain batchable commands that fail in the apply handler (isolate stage)")
	fs.Parse(args)
	detSilence()
	// what a data node that accepts client writes does at start: the "syncer only" switch is off
	// and its change time is the start of the process
	node.SetSyncerOnly(false)
	rng := rand.New(rand.NewSource(*seed))
	scratch := os.Getenv("ZR_SCRATCH")
	engines := strings.Split(*engs, ",")
	tws := make([]*trace.Writer, *parts)
	for i := range tws {
		var err error
		if tws[i], err = trace.Create(fmt.Sprintf("%s.%d.ndjson", *outp, i)); err != nil {
			return err
		}
	}
	stats := map[string]int{}
	r := &detRunner{scratch: scratch, stats: stats}
	var samples []interface{}
	fam := map[string]int{}
	skipped := 0
	for li := 0; li < *nlogs; li++ {
		if stats["hung"] >= 1 {
			break
		}
		r.tw = tws[li%len(tws)]
		base := time.Now().Add(-2*time.Hour).UnixNano() + int64(li)*int64(10*time.Second)
		g := &detGen{rng: rng, ts: base, hllMix: *hllMix}
		g.varlen = *varlenEvery > 0 && li%*varlenEvery == *varlenEvery-1
		kind := "general"
		if *denseEvery > 0 && li%*denseEvery == 0 {
			kind = "dense"
			g.varlen = false
		}
		if *syncerEvery > 0 && (li+2)%*syncerEvery == 0 && kind == "general" {
			// log time of a source cluster: a month away from this replica's wall clock
			kind = "syncer"
			g.varlen = false
			g.ts = time.Now().Add(-30*24*time.Hour).UnixNano() + int64(li)*int64(time.Hour)
			g.mono = !*syncerNonMono
			g.syncAny = *syncerNonMono
			g.bigUsed = true
		}
		log := g.logKind(*llen, kind, *failing)
		for _, e := range log {
			for _, c := range e.Cmds {
				fam[c[0]]++
			}
		}
		le := engines
		if g.varlen {
			le = []string{"pebble"}
			kind = "varlen"
		}
		for _, policy := range []string{"compact", "local"} {
			if policy == "local" && !*full && li%2 == 1 {
				continue
			}
			r.tw.Emit(detLogEvent(li, kind, policy, log))
			stats["logs"]++
			hungBefore := stats["hung"]
			for _, c := range detConds(rng, len(log), le, *full, g.hot) {
				if err := r.run(log, policy, c, true, nil); err != nil {
					fmt.Fprintln(os.Stderr, "run skipped:", c.Name, err)
					skipped++
				}
				if stats["hung"] > hungBefore {
					break // one hung run per log is enough evidence; each costs two deadlines
				}
			}
		}
		if len(samples) < 2 {
			d := detDescribe(log, base)
			if len(d) > 12 {
				d = d[:12]
			}
			samples = append(samples, trace.M{"log": li, "kind": kind, "first_commands": d})
		}
	}
	// straddle rounds: run A now, run B after the wall clock has passed the expiry instant
	only := map[string]bool{}
	for _, s := range strings.Split(*straddleOnly, ",") {
		if s != "" {
			only[s] = true
		}
	}
	skip := map[string]bool{}
	for _, s := range strings.Split(*straddleSkip, ",") {
		if s != "" {
			skip[s] = true
		}
	}
	for round := 0; round < *straddle; round++ {
		cases := detStraddleCases()
		eng := engines[round%len(engines)]
		policy := []string{"compact", "local"}[(round/len(engines))%2]
		now := time.Now()
		t0 := now.UnixNano()
		// the expiry second lies between 2 and 3 s ahead
		expSec := now.Unix() + 3
		type sl struct {
			id  int
			log []detEntry
			cmd string
		}
		var logs []sl
		// one combined log per family (distinct keys per probed command): two store opens per
		// family instead of two per command, so that the A-runs finish well before the expiry
		byFam := map[string][]detStraddle{}
		var famOrder []string
		for _, c := range cases {
			name := c.probes[0][0]
			if (len(only) > 0 && !only[name]) || skip[name] {
				continue
			}
			if _, ok := byFam[c.family]; !ok {
				famOrder = append(famOrder, c.family)
			}
			byFam[c.family] = append(byFam[c.family], c)
			fam["straddle:"+name]++
		}
		for fi, f := range famOrder {
			var log []detEntry
			ts := t0
			for _, c := range byFam[f] {
				for _, s := range c.setup {
					ts += 1000
					log = append(log, detEntry{Ts: ts, Cmds: [][]string{s}})
				}
				ex := append([]string{}, c.expire...)
				ex[2] = strconv.FormatInt(expSec-ts/1e9, 10)
				ts += 1000
				log = append(log, detEntry{Ts: ts, Cmds: [][]string{ex}})
			}
			for i, c := range byFam[f] { // before the expiry instant by log time
				log = append(log, detEntry{Ts: (expSec-1)*1e9 + 5 + int64(i), Cmds: [][]string{c.probes[0]}})
			}
			for i, c := range byFam[f] { // after the expiry instant by log time
				log = append(log, detEntry{Ts: (expSec+2)*1e9 + 5 + int64(i), Cmds: [][]string{c.probes[1]}})
			}
			logs = append(logs, sl{id: 100000 + round*100 + fi, log: log, cmd: f})
		}
		cond := detCond{Eng: eng, Restart: -1}
		// events of one log must be contiguous in the trace: each log's A-run is kept in
		// memory and written out together with its B-run
		bufs := make([]*detMemW, len(logs))
		for i, s := range logs {
			bufs[i] = &detMemW{}
			bufs[i].Emit(detLogEvent(s.id, "straddle:"+s.cmd, policy, s.log))
			c := cond
			c.Cuts = detCutsEvery(len(s.log), 1)
			c.Name = fmt.Sprintf("%s/straddle=before", eng)
			rr := &detRunner{tw: bufs[i], scratch: scratch, stats: stats}
			if err := rr.run(s.log, policy, c, false, trace.M{"wall": "before-expiry"}); err != nil {
				skipped++
			}
			r.panics += rr.panics
		}
		late := time.Now().UnixNano() > (expSec*1e9 - int64(300*time.Millisecond))
		wait := time.Until(time.Unix(expSec+1, int64(300*time.Millisecond)))
		if wait > 0 {
			time.Sleep(wait)
		}
		for i, s := range logs {
			c := cond
			c.Cuts = detCutsEvery(len(s.log), 1)
			c.Name = fmt.Sprintf("%s/straddle=after", eng)
			rr := &detRunner{tw: bufs[i], scratch: scratch, stats: stats}
			if err := rr.run(s.log, policy, c, false, trace.M{"wall": "after-expiry"}); err != nil {
				skipped++
			}
			r.panics += rr.panics
			if late {
				stats["straddle_late"]++
				continue
			}
			tw := tws[i%len(tws)]
			for _, e := range bufs[i].evs {
				tw.Emit(e)
			}
			stats["logs"]++
			stats["straddle_logs"]++
		}
		if len(logs) > 0 && len(samples) < 3 {
			samples = append(samples, trace.M{"straddle": logs[0].cmd, "expiry_in_s": 3, "commands": detDescribe(logs[0].log, t0)})
		}
	}
	for _, tw := range tws {
		tw.Close()
	}
	cmdsSeen := make([]string, 0, len(fam))
	for k := range fam {
		cmdsSeen = append(cmdsSeen, k)
	}
	sort.Strings(cmdsSeen)
	summary(trace.M{"driver": "detsim", "seed": *seed, "stats": stats, "panics": r.panics, "skipped": skipped,
		"commands_seen": cmdsSeen, "samples": samples})
	return nil
}

// detMemW keeps events in memory.
type detMemW struct{ evs []interface{} }

func (m *detMemW) Emit(v interface{}) { m.evs = append(m.evs, v) }

type detEmitter interface{ Emit(v interface{}) }
