// vnode: one ZanRedisDB data node (real server.Server / KVNode, dependency shims) as a child
// process of the crash and cluster drivers (zrdrive crashsim / clustersim).
//
//   stdin   control lines:  status | transfer <raftID> | crash <hook> <k> | hold <hook> <k> [<rel> <j>]
//                           | pause | resume | stale on|off
//                           | hits | stop
//   fd 3    answers and hook reports, one line each:
//             READY {status}   the namespace started (restore + WAL read done, raft loop running)
//             FAILED <reason>  the namespace could not be started on this directory (restart failed)
//             STATUS {status}  | TRANSFER ok|<error> | ARMED ... | HITS {...} | STOPPED
//             DIED <hook> <k>  | HELD <hook> <k> | RELEASED <hook> <k>      (from node/verif_on.go)
//   stdout/stderr  the repository's own logging (the parent points them at a log file)
//
// SIGTERM = graceful stop (server.Stop) and exit 0.  The process never judges anything.
package main

import (
	"bufio"
	"encoding/json"
	"flag"
	"fmt"
	"io/ioutil"
	"os"
	"os/signal"
	"path"
	"strconv"
	"strings"
	"sync"
	"syscall"
	"time"

	"github.com/youzan/ZanRedisDB/common"
	"github.com/youzan/ZanRedisDB/node"
	"github.com/youzan/ZanRedisDB/rockredis"
	"github.com/youzan/ZanRedisDB/server"
	"github.com/youzan/ZanRedisDB/settings"
	"github.com/youzan/ZanRedisDB/wal"
)

type clusterInfo struct {
	syncs []common.SnapshotSyncInfo
}

func (ci *clusterInfo) GetClusterName() string { return "verif" }
func (ci *clusterInfo) GetSnapshotSyncInfo(fullNS string) ([]common.SnapshotSyncInfo, error) {
	return ci.syncs, nil
}
func (ci *clusterInfo) UpdateMeForNamespaceLeader(fullNS string) (bool, error) { return false, nil }

var (
	ctl   *os.File
	ctlMu sync.Mutex
)

func say(format string, args ...interface{}) {
	ctlMu.Lock()
	fmt.Fprintf(ctl, format+"\n", args...)
	ctlMu.Unlock()
}

func main() {
	id := flag.Int("id", 1, "replica / node id (1-based)")
	n := flag.Int("n", 1, "number of replicas")
	root := flag.String("root", "", "root directory; node i uses <root>/<i>")
	engine := flag.String("engine", "mem", "mem | pebble")
	portsF := flag.String("ports", "", "redis,http,raft;redis,http,raft;... one triple per node")
	snapCount := flag.Int("snapcount", 8, "")
	snapCatchup := flag.Int("snapcatchup", 3, "")
	keepWAL := flag.Int("keepwal", 2, "")
	keepBackup := flag.Int("keepbackup", 2, "")
	walSeg := flag.Int64("walseg", 0, "wal.SegmentSizeBytes (0 = default 64 MB)")
	stale := flag.Bool("stale", false, "allow follower (stale) reads from the start (the parent switches them on only for its dumps)")
	optFsync := flag.Bool("optfsync", false, "namespace option optimized_fsync")
	maxCommitted := flag.Uint64("maxcommitted", 0, "settings.Soft.MaxCommittedSizePerReady in bytes (0 = default 16 MB): a tiny value makes the committed entries of a Ready lag behind and straddle its new entries")
	flag.Parse()

	ctl = os.NewFile(3, "ctl")
	if ctl == nil {
		ctl = os.Stderr
	}
	type triple struct{ redis, http, raft int }
	var ports []triple
	for _, t := range strings.Split(*portsF, ";") {
		p := strings.Split(t, ",")
		if len(p) != 3 {
			say("FAILED bad -ports")
			os.Exit(2)
		}
		a, _ := strconv.Atoi(p[0])
		b, _ := strconv.Atoi(p[1])
		c, _ := strconv.Atoi(p[2])
		ports = append(ports, triple{a, b, c})
	}
	if len(ports) != *n || *id < 1 || *id > *n {
		say("FAILED bad -n/-id/-ports")
		os.Exit(2)
	}
	if *maxCommitted > 0 {
		settings.Soft.MaxCommittedSizePerReady = *maxCommitted
	}
	if *walSeg > 0 {
		wal.SegmentSizeBytes = *walSeg
	}
	dir := path.Join(*root, strconv.Itoa(*id))
	os.MkdirAll(dir, 0755)
	ioutil.WriteFile(path.Join(dir, "myid"), []byte(strconv.Itoa(*id)), common.FILE_PERM)

	ci := &clusterInfo{}
	var seeds []node.ReplicaInfo
	for j := 1; j <= *n; j++ {
		seeds = append(seeds, node.ReplicaInfo{NodeID: uint64(j), ReplicaID: uint64(j),
			RaftAddr: "http://127.0.0.1:" + strconv.Itoa(ports[j-1].raft)})
		ci.syncs = append(ci.syncs, common.SnapshotSyncInfo{NodeID: uint64(j), ReplicaID: uint64(j),
			RemoteAddr: "127.0.0.1", HttpAPIPort: strconv.Itoa(ports[j-1].http),
			DataRoot: path.Join(*root, strconv.Itoa(j))})
	}
	me := ports[*id-1]
	kvOpts := server.ServerConfig{ClusterID: "verif", DataDir: dir, RedisAPIPort: me.redis, HttpAPIPort: me.http,
		LocalRaftAddr: "http://127.0.0.1:" + strconv.Itoa(me.raft), BroadcastAddr: "127.0.0.1",
		TickMs: 100, ElectionTick: 10, KeepWAL: *keepWAL, KeepBackup: *keepBackup,
		ProfilePort: -1, MetricAddr: "127.0.0.1:0"}
	kvOpts.RocksDBOpts.EngineType = *engine
	nsConf := node.NewNSConfig()
	nsConf.Name = "default-0"
	nsConf.BaseName = "default"
	nsConf.EngType = rockredis.EngType
	nsConf.PartitionNum = 1
	nsConf.Replicator = *n
	nsConf.SnapCount = *snapCount
	nsConf.SnapCatchup = *snapCatchup
	nsConf.OptimizedFsync = *optFsync
	nsConf.RaftGroupConf.GroupID = 1000
	nsConf.RaftGroupConf.SeedNodes = seeds
	nsConf.ExpirationPolicy = common.WaitCompactExpirationPolicy
	nsConf.DataVersion = common.ValueHeaderV1Str

	kv, err := server.NewServer(kvOpts)
	if err != nil {
		say("FAILED newserver %v", err)
		os.Exit(3)
	}
	kv.VerifSetClusterInfo(ci)
	server.VerifAllowStaleRead(*stale)
	nn, err := kv.InitKVNamespace(uint64(*id), nsConf, false)
	if err != nil {
		say("FAILED initnamespace %v", err)
		os.Exit(3)
	}
	kv.Start() // NamespaceMgr.Start swallows the error of KVNode.Start; IsReady tells
	if !nn.IsReady() {
		say("FAILED namespace did not start on %s (restore / WAL replay error, see log)", dir)
		os.Exit(3)
	}
	st, _ := json.Marshal(nn.VerifStatus())
	say("READY %s", st)

	sig := make(chan os.Signal, 1)
	signal.Notify(sig, syscall.SIGTERM, syscall.SIGINT)
	stopOnce := sync.Once{}
	stop := func() {
		stopOnce.Do(func() {
			kv.Stop()
			say("STOPPED")
			os.Exit(0)
		})
	}
	go func() {
		<-sig
		stop()
	}()

	sc := bufio.NewScanner(os.Stdin)
	for sc.Scan() {
		f := strings.Fields(sc.Text())
		if len(f) == 0 {
			continue
		}
		switch f[0] {
		case "status":
			st, _ := json.Marshal(nn.VerifStatus())
			say("STATUS %s", st)
		case "transfer":
			to, _ := strconv.Atoi(f[1])
			go func() {
				if err := nn.Node.TransferLeadership(uint64(to)); err != nil {
					say("TRANSFER %s", strings.Replace(err.Error(), "\n", " ", -1))
				} else {
					say("TRANSFER ok")
				}
			}()
		case "crash":
			k := 1
			if len(f) > 2 {
				k, _ = strconv.Atoi(f[2])
			}
			node.VerifArmCrash(f[1], k)
			say("ARMED crash %s %d", f[1], k)
		case "hold":
			k, rel, j := 1, "", 1
			if len(f) > 2 {
				k, _ = strconv.Atoi(f[2])
			}
			if len(f) > 3 {
				rel = f[3]
			}
			if len(f) > 4 {
				j, _ = strconv.Atoi(f[4])
			}
			node.VerifArmHold(f[1], k, rel, j)
			say("ARMED hold %s %d", f[1], k)
		case "pause": // partition nemesis: cut this node off from its raft peers
			kv.VerifPauseRaft(true)
			say("PAUSED")
		case "resume":
			kv.VerifPauseRaft(false)
			say("RESUMED")
		case "stale": // follower (stale) reads on / off: on only while the parent dumps every replica
			server.VerifAllowStaleRead(len(f) > 1 && f[1] == "on")
			say("STALE %v", len(f) > 1 && f[1] == "on")
		case "hits":
			h, _ := json.Marshal(node.VerifHits())
			say("HITS %s", h)
		case "stop":
			stop()
		}
	}
	// stdin closed: the parent is gone; do not linger
	time.Sleep(200 * time.Millisecond)
	os.Exit(0)
}
