package main

// scratch experiment (not registered): 3-replica receiver, batches delivered to the leader
// through ApplyRaftReqs while leadership is transferred; looks for a source entry that was
// dropped while a later entry of the same pipelined batch was committed.

import (
	"context"
	"flag"
	"fmt"
	"io/ioutil"
	"math/rand"
	"os"
	"path"
	"strconv"
	"time"

	"github.com/youzan/ZanRedisDB/common"
	"github.com/youzan/ZanRedisDB/node"
	"github.com/youzan/ZanRedisDB/rockredis"
	"github.com/youzan/ZanRedisDB/server"
	"github.com/youzan/ZanRedisDB/syncerpb"
)

func init() { commands["syncmulti"] = syncmulti }

func syncmulti(args []string) error {
	fs := flag.NewFlagSet("syncmulti", flag.ExitOnError)
	seed := fs.Int64("seed", 1, "")
	rounds := fs.Int("rounds", 60, "")
	bsz := fs.Int("batch", 30, "")
	fs.Parse(args)
	ckSilence()
	base, _ := ioutil.TempDir(os.Getenv("ZR_SCRATCH"), "zrmulti")
	defer os.RemoveAll(base)
	rng := rand.New(rand.NewSource(*seed))
	ports, err := ckFreePorts(12)
	if err != nil {
		return err
	}
	var seeds []node.ReplicaInfo
	for i := 0; i < 3; i++ {
		seeds = append(seeds, node.ReplicaInfo{NodeID: uint64(1 + i), ReplicaID: uint64(1 + i), RaftAddr: "http://127.0.0.1:" + strconv.Itoa(ports[i*4+2])})
	}
	var kvs []*server.Server
	for i := 0; i < 3; i++ {
		dir := path.Join(base, strconv.Itoa(i))
		os.MkdirAll(dir, 0755)
		ioutil.WriteFile(path.Join(dir, "myid"), []byte(strconv.Itoa(1+i)), common.FILE_PERM)
		conf := server.ServerConfig{ClusterID: "verif", DataDir: dir, RedisAPIPort: ports[i*4], HttpAPIPort: ports[i*4+1],
			GrpcAPIPort: ports[i*4+3], ProfilePort: -1, LocalRaftAddr: seeds[i].RaftAddr, BroadcastAddr: "127.0.0.1", TickMs: 20, ElectionTick: 20}
		conf.RocksDBOpts.EngineType = "mem"
		kv, err := server.NewServer(conf)
		if err != nil {
			return err
		}
		nc := node.NewNSConfig()
		nc.Name, nc.BaseName, nc.EngType, nc.PartitionNum, nc.Replicator = "default-0", "default", rockredis.EngType, 1, 3
		nc.SnapCount, nc.SnapCatchup = 100000, 50000
		nc.RaftGroupConf.GroupID = 1000
		nc.RaftGroupConf.SeedNodes = seeds
		nc.ExpirationPolicy = common.WaitCompactExpirationPolicy
		nc.DataVersion = common.ValueHeaderV1Str
		if _, err := kv.InitKVNamespace(uint64(1+i), nc, false); err != nil {
			return err
		}
		kv.Start()
		kvs = append(kvs, kv)
	}
	defer func() {
		for _, kv := range kvs {
			kv.Stop()
		}
	}()
	node.SetSyncerOnly(true)
	leader := func() int {
		for k := 0; k < 500; k++ {
			for i, kv := range kvs {
				n := kv.GetNamespaceFromFullName("default-0")
				if n != nil && n.IsReady() && n.Node.IsLead() {
					return i
				}
			}
			time.Sleep(20 * time.Millisecond)
		}
		return -1
	}
	baseTs := time.Now().UnixNano()
	entry := func(i int) syncerpb.RaftLogData {
		cmd := common.BuildCommand([][]byte{[]byte("rpush"), []byte("t:lst"), []byte(strconv.Itoa(i))})
		var rl node.BatchInternalRaftRequest
		rl.ReqNum, rl.Timestamp, rl.OrigCluster = 1, baseTs+int64(i)*1000, "src"
		rl.Reqs = append(rl.Reqs, node.InternalRaftRequest{Header: node.RequestHeader{ID: uint64(100000 + i), Timestamp: rl.Timestamp}, Data: cmd.Raw})
		d, _ := rl.Marshal()
		return syncerpb.RaftLogData{Type: syncerpb.EntryNormalRaw, ClusterName: "src", RaftGroupName: "default-0", Term: 2, Index: uint64(i), RaftTimestamp: rl.Timestamp, Data: d}
	}
	stat := map[string]int{}
	for r := 0; r < *rounds; r++ {
		L := leader()
		if L < 0 {
			return fmt.Errorf("no leader")
		}
		nd := kvs[L].GetNamespaceFromFullName("default-0").Node
		_, si, _ := nd.GetRemoteClusterSyncedRaft("src")
		var reqs syncerpb.RaftReqs
		for i := int(si) + 1; i <= int(si)+*bsz; i++ {
			reqs.RaftLog = append(reqs.RaftLog, entry(i))
		}
		to := (L + 1 + rng.Intn(2)) % 3
		delay := time.Duration(rng.Intn(3000)) * time.Microsecond
		done := make(chan struct{})
		go func() {
			time.Sleep(delay)
			nd.TransferLeadership(uint64(1 + to))
			close(done)
		}()
		rsp, err := kvs[L].ApplyRaftReqs(context.Background(), &reqs)
		<-done
		if err != nil || (rsp != nil && rsp.ErrCode != 0) {
			stat["batches_with_error"]++
		} else {
			stat["batches_ok"]++
		}
		time.Sleep(300 * time.Millisecond)
		// what does the (new) leader hold?
		L2 := leader()
		if L2 < 0 {
			return fmt.Errorf("no leader after transfer")
		}
		if L2 != L {
			stat["leader_changes"]++
		}
		n2 := kvs[L2].GetNamespaceFromFullName("default-0").Node
		n2.RedisPropose(common.BuildCommand([][]byte{[]byte("set"), []byte("b:barrier"), []byte("x")}).Raw)
		_, s2, _ := n2.GetRemoteClusterSyncedRaft("src")
		var lst [][]byte
		ll, _ := n2.VerifSyncStore().LLen([]byte("t:lst"))
		for from := int64(0); from < ll; from += 1000 {
			part, lerr := n2.VerifSyncStore().LRange([]byte("t:lst"), from, from+999)
			if lerr != nil {
				fmt.Println("LRANGE error", lerr)
			}
			lst = append(lst, part...)
		}
		// exactly-once, in order: the list must be 1..synced
		bad := ""
		if len(lst) != int(s2) {
			bad = fmt.Sprintf("list has %d elements, synced position is %d", len(lst), s2)
		}
		for k, x := range lst {
			if v, _ := strconv.Atoi(string(x)); v != k+1 && bad == "" {
				bad = fmt.Sprintf("element %d of the list is entry %s (synced %d, list length %d)", k+1, x, s2, len(lst))
			}
		}
		if bad != "" {
			have := map[int]int{}
			for _, x := range lst {
				v, _ := strconv.Atoi(string(x))
				have[v]++
			}
			var missing, twice []int
			for i := 1; i <= int(s2); i++ {
				if have[i] == 0 {
					missing = append(missing, i)
				} else if have[i] > 1 {
					twice = append(twice, i)
				}
			}
			fmt.Printf("MISSING %v TWICE %v\n", missing, twice)
			time.Sleep(time.Second)
			for i, kv := range kvs {
				n := kv.GetNamespaceFromFullName("default-0").Node
				_, sx, _ := n.GetRemoteClusterSyncedRaft("src")
				lx, _ := n.VerifSyncStore().LLen([]byte("t:lst"))
				fmt.Printf("REPLICA %d synced=%d llen=%d lead=%v\n", i+1, sx, lx, n.IsLead())
			}
			stat["rounds_with_gap_or_duplicate"]++
			fmt.Printf("ROUND %d: batch %d..%d to leader %d, transfer to %d after %v, rpc err=%v code=%v: %s\n", r, si+1, int(si)+*bsz, L+1, to+1, delay, err, rsp, bad)
			break
		}
	}
	summary(map[string]interface{}{"driver": "syncmulti", "seed": *seed, "stats": stat})
	return nil
}
