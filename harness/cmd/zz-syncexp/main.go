// zrdrive: drivers that execute specification behaviours on the real ZanRedisDB code
// and record what the code did as ndjson traces.  Drivers never judge.
package main

import (
	"encoding/json"
	"fmt"
	"os"
)

// summary prints one machine-readable line about what a driver did.
func summary(v interface{}) {
	b, _ := json.Marshal(v)
	fmt.Printf("SUMMARY %s\n", b)
}

var commands = map[string]func(args []string) error{}

func main() {
	if len(os.Args) < 2 {
		fmt.Fprintln(os.Stderr, "usage: zrdrive <driver> [flags]")
		os.Exit(2)
	}
	f, ok := commands[os.Args[1]]
	if !ok {
		fmt.Fprintln(os.Stderr, "unknown driver", os.Args[1])
		os.Exit(2)
	}
	if err := f(os.Args[2:]); err != nil {
		fmt.Fprintln(os.Stderr, "driver error:", err)
		os.Exit(3)
	}
}
