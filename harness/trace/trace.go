// Package trace writes ndjson trace files: one JSON object per line, one line per
// specification action, in the order the driver executed them.
package trace

import (
	"bufio"
	"encoding/json"
	"os"
)

type Writer struct {
	f *os.File
	w *bufio.Writer
	N int
}

func Create(path string) (*Writer, error) {
	f, err := os.Create(path)
	if err != nil {
		return nil, err
	}
	return &Writer{f: f, w: bufio.NewWriterSize(f, 1<<20)}, nil
}

// Emit writes one event.  v must marshal to a JSON object.
func (t *Writer) Emit(v interface{}) {
	b, err := json.Marshal(v)
	if err != nil {
		panic(err)
	}
	t.w.Write(b)
	t.w.WriteByte('\n')
	t.N++
}

func (t *Writer) Close() error {
	t.w.Flush()
	return t.f.Close()
}

// M is a convenience alias for ad-hoc event objects.
type M map[string]interface{}
