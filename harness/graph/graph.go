// Package graph reads the labelled state graph TLC writes with
// `-dump dot,actionlabels` and computes walks that cover every edge, so that a
// driver can execute "one implementation test per transition".
package graph

import (
	"bufio"
	"fmt"
	"math/rand"
	"os"
	"regexp"
	"strings"
)

type Edge struct {
	Src, Dst int
	Label    string // e.g. Put(2,1)
	Name     string // Put
	Args     []string
}

type Graph struct {
	Init   int
	Labels []string // node index -> state text as printed by TLC
	Out    [][]int  // node index -> edge indexes
	Edges  []Edge
}

var reEdge = regexp.MustCompile(`^(-?[0-9]+) -> (-?[0-9]+) \[label="([^"]*)"`)
var reNode = regexp.MustCompile(`^(-?[0-9]+) \[label="((?:[^"\\]|\\.)*)"`)

// Load parses a dot dump.  Self loops and duplicate (src,label) edges are kept once.
func Load(path string) (*Graph, error) {
	fh, err := os.Open(path)
	if err != nil {
		return nil, err
	}
	defer fh.Close()
	sc := bufio.NewScanner(fh)
	sc.Buffer(make([]byte, 1<<22), 1<<26)
	g := &Graph{Init: -1}
	idx := map[string]int{}
	node := func(id string) int {
		if i, ok := idx[id]; ok {
			return i
		}
		i := len(g.Labels)
		idx[id] = i
		g.Labels = append(g.Labels, "")
		g.Out = append(g.Out, nil)
		return i
	}
	seen := map[string]bool{}
	for sc.Scan() {
		line := sc.Text()
		if m := reEdge.FindStringSubmatch(line); m != nil {
			key := m[1] + "|" + m[3]
			if seen[key] {
				continue
			}
			seen[key] = true
			e := Edge{Src: node(m[1]), Dst: node(m[2]), Label: m[3]}
			e.Name, e.Args = ParseLabel(m[3])
			g.Out[e.Src] = append(g.Out[e.Src], len(g.Edges))
			g.Edges = append(g.Edges, e)
		} else if m := reNode.FindStringSubmatch(line); m != nil {
			i := node(m[1])
			g.Labels[i] = strings.NewReplacer(`\n`, " ", `\\`, `\`, `\"`, `"`).Replace(m[2])
			if strings.Contains(line, "style = filled") && g.Init < 0 {
				g.Init = i
			}
		}
	}
	if err := sc.Err(); err != nil {
		return nil, err
	}
	if g.Init < 0 {
		return nil, fmt.Errorf("no initial state in %s", path)
	}
	return g, nil
}

// ParseLabel splits "Put(2,1)" into "Put", ["2","1"]; nested brackets are respected.
func ParseLabel(l string) (string, []string) {
	i := strings.Index(l, "(")
	if i < 0 {
		return l, nil
	}
	body := strings.TrimSuffix(l[i+1:], ")")
	var args []string
	depth, start := 0, 0
	for j, c := range body {
		switch c {
		case '(', '<', '[', '{':
			depth++
		case ')', '>', ']', '}':
			depth--
		case ',':
			if depth == 0 {
				args = append(args, strings.TrimSpace(body[start:j]))
				start = j + 1
			}
		}
	}
	args = append(args, strings.TrimSpace(body[start:]))
	return l[:i], args
}

// Step of a covering walk: either a reset (back to the initial state) or an edge.
type Step struct {
	Reset bool
	Edge  int // index into Edges
	Node  int // node reached after the step (Init after a reset)
}

// CoverWalk returns a walk that takes every edge reachable from Init at least once.
// It starts with a reset, prefers untaken edges, moves to the nearest node with an
// untaken edge otherwise, and resets after maxRun steps so that the walk can be cut
// into independent segments.  `want` may restrict the edges that must be covered
// (nil = all); `limit` > 0 stops after that many steps (a seeded sample).
func CoverWalk(g *Graph, rng *rand.Rand, maxRun int, limit int, want func(e *Edge) bool) []Step {
	taken := make([]bool, len(g.Edges))
	remaining := 0
	for i := range g.Edges {
		if want != nil && !want(&g.Edges[i]) {
			taken[i] = true
		} else {
			remaining++
		}
	}
	// order in which out-edges are tried, shuffled per node
	order := make([][]int, len(g.Out))
	for n := range g.Out {
		o := append([]int(nil), g.Out[n]...)
		rng.Shuffle(len(o), func(a, b int) { o[a], o[b] = o[b], o[a] })
		order[n] = o
	}
	var walk []Step
	cur := g.Init
	run := 0
	reset := func() {
		walk = append(walk, Step{Reset: true, Node: g.Init})
		cur = g.Init
		run = 0
	}
	take := func(ei int) {
		if !taken[ei] {
			taken[ei] = true
			remaining--
		}
		cur = g.Edges[ei].Dst
		walk = append(walk, Step{Edge: ei, Node: cur})
		run++
	}
	reset()
	prev := make([]int, len(g.Out))
	for remaining > 0 && (limit <= 0 || len(walk) < limit) {
		if run >= maxRun {
			reset()
		}
		found := -1
		for _, ei := range order[cur] {
			if !taken[ei] {
				found = ei
				break
			}
		}
		if found >= 0 {
			take(found)
			continue
		}
		// BFS to the nearest node with an untaken out-edge
		for i := range prev {
			prev[i] = -2
		}
		prev[cur] = -1
		q := []int{cur}
		target := -1
		for len(q) > 0 && target < 0 {
			n := q[0]
			q = q[1:]
			for _, ei := range order[n] {
				d := g.Edges[ei].Dst
				if prev[d] != -2 {
					continue
				}
				prev[d] = ei
				for _, e2 := range order[d] {
					if !taken[e2] {
						target = d
						break
					}
				}
				if target >= 0 {
					break
				}
				q = append(q, d)
			}
		}
		if target < 0 {
			if cur == g.Init {
				break // the rest is unreachable
			}
			reset()
			continue
		}
		var path []int
		for n := target; prev[n] >= 0; n = g.Edges[prev[n]].Src {
			path = append(path, prev[n])
		}
		for i := len(path) - 1; i >= 0; i-- {
			take(path[i])
		}
	}
	return walk
}
