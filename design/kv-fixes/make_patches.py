#!/usr/bin/env python3
"""Regenerates the proposed fix patches for the data-model findings (C08/C09/C10) as a
*cumulative* series: NN-name.diff applies on top of the ones before it (git apply, in order).
usage: make_patches.py <clean worktree of /repo> <outdir>"""
import os
import subprocess
import sys

WT, OUT = sys.argv[1], sys.argv[2]


def patch(path, old, new):
    p = os.path.join(WT, path)
    s = open(p).read()
    assert s.count(old) == 1, (path, old[:70], s.count(old))
    open(p, "w").write(s.replace(old, new))


def append(path, text):
    p = os.path.join(WT, path)
    open(p, "a").write(text)


def f_remove_on_expired():
    patch('rockredis/t_hash.go', '''	keyInfo, err := db.GetCollVersionKey(ts, HashType, key, false)
	if err != nil {
		return 0, err
	}
	table := keyInfo.Table
	rk := keyInfo.VerKey
	oldh := keyInfo.OldHeader
''', '''	keyInfo, err := db.GetCollVersionKey(ts, HashType, key, false)
	if err != nil {
		return 0, err
	}
	if keyInfo.IsNotExistOrExpired() {
		// an expired hash is absent: nothing to delete (its fields belong to a dead generation)
		return 0, nil
	}
	table := keyInfo.Table
	rk := keyInfo.VerKey
	oldh := keyInfo.OldHeader
''')
    patch('rockredis/t_set.go', '''	keyInfo, err := db.GetCollVersionKey(ts, SetType, key, false)
	if err != nil {
		return 0, err
	}
	table := keyInfo.Table
	rk := keyInfo.VerKey
	oldh := keyInfo.OldHeader
''', '''	keyInfo, err := db.GetCollVersionKey(ts, SetType, key, false)
	if err != nil {
		return 0, err
	}
	if keyInfo.IsNotExistOrExpired() {
		// an expired set is absent
		return 0, nil
	}
	table := keyInfo.Table
	rk := keyInfo.VerKey
	oldh := keyInfo.OldHeader
''')
    patch('rockredis/t_zset.go', '''	keyInfo, err := db.GetCollVersionKey(ts, ZSetType, key, false)
	if err != nil {
		return 0, err
	}
	table := keyInfo.Table

	wb := db.wb
	defer wb.Clear()

	var num int64 = 0
''', '''	keyInfo, err := db.GetCollVersionKey(ts, ZSetType, key, false)
	if err != nil {
		return 0, err
	}
	if keyInfo.IsNotExistOrExpired() {
		// an expired zset is absent
		return 0, nil
	}
	table := keyInfo.Table

	wb := db.wb
	defer wb.Clear()

	var num int64 = 0
''')
    patch('rockredis/t_zset.go', '''	if total == 0 {
		// no data to be deleted, avoid iterator data
		return 0, nil
	}
''', '''	if total == 0 || keyInfo.IsNotExistOrExpired() {
		// no data to be deleted (an expired zset is absent), avoid iterator data
		return 0, nil
	}
''')
    patch('rockredis/t_zset.go', '''	keyInfo, err := db.getZSetForRangeWithMinMax(ts, key, min, max, false)
	if err != nil {
		return 0, err
	}

	it, err := db.NewDBRangeIterator(keyInfo.RangeStart, keyInfo.RangeEnd, rangeType, false)
	if err != nil {
		return 0, err
	}
	defer it.Close()
	var num int64 = 0''', '''	keyInfo, err := db.getZSetForRangeWithMinMax(ts, key, min, max, false)
	if err != nil {
		return 0, err
	}
	if keyInfo.IsNotExistOrExpired() {
		// an expired zset is absent
		return 0, nil
	}

	it, err := db.NewDBRangeIterator(keyInfo.RangeStart, keyInfo.RangeEnd, rangeType, false)
	if err != nil {
		return 0, err
	}
	defer it.Close()
	var num int64 = 0''')


def f_append_setrange_on_expired():
    patch('rockredis/t_kv.go', '''	if realV == nil && !keyInfo.Expired {
		db.IncrTableKeyCount(keyInfo.Table, 1, db.wb)
	}
	extra := offset + len(value) - len(realV)''', '''	if realV == nil && !keyInfo.Expired {
		db.IncrTableKeyCount(keyInfo.Table, 1, db.wb)
	}
	if keyInfo.Expired {
		// the old value is dead: start from empty (as incr does)
		realV = nil
	}
	extra := offset + len(value) - len(realV)''')
    patch('rockredis/t_kv.go', '''	if realV == nil && !keyInfo.Expired {
		db.IncrTableKeyCount(keyInfo.Table, 1, db.wb)
	}

	newLen := len(realV) + len(value)''', '''	if realV == nil && !keyInfo.Expired {
		db.IncrTableKeyCount(keyInfo.Table, 1, db.wb)
	}
	if keyInfo.Expired {
		// the old value is dead: start from empty (as incr does)
		realV = nil
	}

	newLen := len(realV) + len(value)''')


def f_hclear_wall_clock():
    patch('rockredis/t_hash.go', '''	hlen, err := db.HLen(hkey)
	if err != nil {
		return 0, err
	}
	if hlen == 0 {
		return 0, nil
	}

	wb := db.wb
	err = db.hDeleteAll(ts, hkey, hlen, wb, tableIndexes)''', '''	// the size must be judged at the log timestamp, not at this replica's wall clock
	oldh, expired, err := db.hHeaderMeta(ts, hkey, false)
	if err != nil {
		return 0, err
	}
	if expired {
		return 0, nil
	}
	hlen, err := Int64(oldh.UserData, nil)
	if err != nil {
		return 0, err
	}
	if hlen == 0 {
		return 0, nil
	}

	wb := db.wb
	err = db.hDeleteAll(ts, hkey, hlen, wb, tableIndexes)''')


def f_ltrim():
    patch('rockredis/t_list.go', '''	if stop < 0 {
		stop = llen + stop
	}
	newLen := int64(0)
	// whole list deleted
	if start >= llen || start > stop {''', '''	if stop < 0 {
		stop = llen + stop
	}
	if start < 0 {
		start = 0
	}
	newLen := int64(0)
	// whole list deleted
	if start >= llen || start > stop {''')


def f_score_bound():
    patch('node/zset.go', '''		if isLOpen {
			leftRange++
		}''', '''		if isLOpen {
			// exclusive bound: the next representable score (scores are not integers)
			leftRange = math.Nextafter(leftRange, math.Inf(1))
		}''')
    patch('node/zset.go', '''		if isROpen {
			rightRange--
		}
''', '''		if isROpen {
			rightRange = math.Nextafter(rightRange, math.Inf(-1))
		}
''')
    patch('node/zset.go', '''	"fmt"
	"strconv"''', '''	"fmt"
	"math"
	"strconv"''')


def f_persist():
    patch('rockredis/t_kv.go', '''	if v == nil || expired {
		return 0, nil
	}

	return db.ExpireAt(KVType, rawKey, v, 0)''', '''	if v == nil || expired {
		return 0, nil
	}
	if _, h, herr := db.decodeDBRawValueToRealValue(v); herr == nil && h != nil &&
		h.Ver == byte(common.ValueHeaderV1) && h.ExpireAt == 0 {
		// no expiry to remove (redis answers 0)
		return 0, nil
	}

	return db.ExpireAt(KVType, rawKey, v, 0)''')
    patch('rockredis/t_collections.go', '''	oldh, expired, err := db.collHeaderMeta(ts, dt, key, false)
	if err != nil || expired || oldh.UserData == nil {
		return 0, err
	}

	rawV := db.expiration.encodeToRawValue(dt, oldh)
	return db.ExpireAt(dt, key, rawV, 0)''', '''	oldh, expired, err := db.collHeaderMeta(ts, dt, key, false)
	if err != nil || expired || oldh.UserData == nil {
		return 0, err
	}
	if oldh.Ver == byte(common.ValueHeaderV1) && oldh.ExpireAt == 0 {
		// no expiry to remove (redis answers 0)
		return 0, nil
	}

	rawV := db.expiration.encodeToRawValue(dt, oldh)
	return db.ExpireAt(dt, key, rawV, 0)''')


def f_empty_value():
    patch('rockredis/t_kv.go', '''func (db *RockDB) Append(ts int64, rawKey []byte, value []byte) (int64, error) {
	if len(value) == 0 {
		return 0, nil
	}
''', '''func (db *RockDB) Append(ts int64, rawKey []byte, value []byte) (int64, error) {
	// appending the empty string is an ordinary append (redis): it answers the current
	// length and creates an empty value for a missing key
''')
    patch('rockredis/t_kv.go', '''func (db *RockDB) SetRange(ts int64, rawKey []byte, offset int, value []byte) (int64, error) {
	if len(value) == 0 {
		return 0, nil
	}
''', '''func (db *RockDB) SetRange(ts int64, rawKey []byte, offset int, value []byte) (int64, error) {
	if len(value) == 0 {
		// nothing to write: answer the current length (redis), judged at the log timestamp
		keyInfo, realV, err := db.getDBKVRealValueAndHeader(ts, rawKey, false)
		if err != nil || keyInfo.Expired {
			return 0, err
		}
		return int64(len(realV)), nil
	}
''')


def f_del_on_expired():
    patch('rockredis/t_kv.go', '''func (db *RockDB) kvDel(key []byte, wb engine.WriteBatch) (int64, error) {''',
          '''func (db *RockDB) kvDel(ts int64, key []byte, wb engine.WriteBatch) (int64, error) {''')
    patch('rockredis/t_kv.go', '''			vok, _ := db.ExistNoLock(key)
			if vok {
				db.IncrTableKeyCount(table, -1, wb)
			} else {
				delCnt = int64(0)
			}
		} else {
			db.IncrTableKeyCount(table, -1, wb)
		}
	}
	wb.Delete(key)
	// fixme: if del is batched''', '''			v, _ := db.GetBytesNoLock(key)
			if v != nil {
				db.IncrTableKeyCount(table, -1, wb)
				if expired, _ := db.expiration.isExpired(ts, KVType, rawKey, v, false); expired {
					// the stored record goes away, but an expired key does not count as deleted
					delCnt = int64(0)
				}
			} else {
				delCnt = int64(0)
			}
		} else {
			db.IncrTableKeyCount(table, -1, wb)
		}
	}
	wb.Delete(key)
	// fixme: if del is batched''')
    patch('rockredis/t_kv.go', '''func (db *RockDB) DelKeys(keys ...[]byte) (int64, error) {
	if len(keys) == 0 {''', '''func (db *RockDB) DelKeys(keys ...[]byte) (int64, error) {
	return db.DelKeysAt(0, keys...)
}

// DelKeysAt deletes the keys; keys whose expiry has passed at the log timestamp ts do not count
func (db *RockDB) DelKeysAt(ts int64, keys ...[]byte) (int64, error) {
	if len(keys) == 0 {''')
    patch('rockredis/t_kv.go', '''		c, _ := db.kvDel(k, db.wb)''', '''		c, _ := db.kvDel(ts, k, db.wb)''')
    patch('node/keys.go', '''	cnt, err := kvsm.store.DelKeys(cmd.Args[1:]...)''', '''	cnt, err := kvsm.store.DelKeysAt(ts, cmd.Args[1:]...)''')


def f_dup_args():
    append('rockredis/util.go', '''
// dedupKeepLast drops all but the last occurrence of every byte string (order kept).
// Commands that take several members / fields / keys judge each argument against the
// committed data, so a repeated argument must be folded before it is counted.
func dedupKeepLast(args [][]byte) [][]byte {
	if len(args) < 2 {
		return args
	}
	last := make(map[string]int, len(args))
	for i, a := range args {
		last[string(a)] = i
	}
	if len(last) == len(args) {
		return args
	}
	out := make([][]byte, 0, len(last))
	for i, a := range args {
		if last[string(a)] == i {
			out = append(out, a)
		}
	}
	return out
}
''')
    patch('rockredis/t_set.go', '''	wb := db.wb
	defer wb.Clear()

	keyInfo, err := db.prepareCollKeyForWrite(ts, SetType, key, nil)''', '''	wb := db.wb
	defer wb.Clear()
	args = dedupKeepLast(args)

	keyInfo, err := db.prepareCollKeyForWrite(ts, SetType, key, nil)''')
    patch('rockredis/t_set.go', '''	wb := db.wb
	defer wb.Clear()
	keyInfo, err := db.GetCollVersionKey(ts, SetType, key, false)''', '''	wb := db.wb
	defer wb.Clear()
	args = dedupKeepLast(args)
	keyInfo, err := db.GetCollVersionKey(ts, SetType, key, false)''')
    patch('rockredis/t_hash.go', '''	if len(args) == 0 {
		return 0, nil
	}
	keyInfo, err := db.GetCollVersionKey(ts, HashType, key, false)''', '''	if len(args) == 0 {
		return 0, nil
	}
	args = dedupKeepLast(args)
	keyInfo, err := db.GetCollVersionKey(ts, HashType, key, false)''')
    patch('rockredis/t_hash.go', '''	var num int64
	var value []byte
	tsBuf := PutInt64(ts)
	for i := 0; i < len(args); i++ {''', '''	var num int64
	var value []byte
	tsBuf := PutInt64(ts)
	// a field given twice is one field (the last value wins)
	lastIdx := make(map[string]int, len(args))
	for i := range args {
		lastIdx[string(args[i].Key)] = i
	}
	for i := 0; i < len(args); i++ {
		if lastIdx[string(args[i].Key)] != i {
			continue
		}''')
    patch('rockredis/t_zset.go', '''	var num int64
	for i := 0; i < len(args); i++ {
		score := args[i].Score
		member := args[i].Member
''', '''	var num int64
	// a member given twice is one member (the last score wins)
	lastIdx := make(map[string]int, len(args))
	for i := range args {
		lastIdx[string(args[i].Member)] = i
	}
	for i := 0; i < len(args); i++ {
		if lastIdx[string(args[i].Member)] != i {
			continue
		}
		score := args[i].Score
		member := args[i].Member
''')
    patch('rockredis/t_zset.go', '''	if len(members) > MAX_BATCH_NUM {
		return 0, errTooMuchBatchSize
	}
	keyInfo, err := db.GetCollVersionKey(ts, ZSetType, key, false)''', '''	if len(members) > MAX_BATCH_NUM {
		return 0, errTooMuchBatchSize
	}
	members = dedupKeepLast(members)
	keyInfo, err := db.GetCollVersionKey(ts, ZSetType, key, false)''')
    patch('rockredis/t_kv.go', '''	delCnt := int64(0)
	for _, k := range keys {''', '''	delCnt := int64(0)
	keys = dedupKeepLast(keys)
	for _, k := range keys {''')


SERIES = [
    ("01-remove-on-expired-collection", f_remove_on_expired),
    ("02-append-setrange-on-expired", f_append_setrange_on_expired),
    ("03-hclear-wall-clock", f_hclear_wall_clock),
    ("04-ltrim-negative-out-of-range", f_ltrim),
    ("05-zset-exclusive-score-bound", f_score_bound),
    ("06-persist-without-expiry", f_persist),
    ("07-append-setrange-empty-value", f_empty_value),
    ("08-del-on-expired", f_del_on_expired),
    ("09-dup-args", f_dup_args),
]

os.makedirs(OUT, exist_ok=True)
prev = ""
for name, fn in SERIES:
    fn()
    subprocess.run(["git", "-C", WT, "add", "-A"], check=True)
    d = subprocess.run(["git", "-C", WT, "diff", "--cached", "HEAD"], check=True, capture_output=True, text=True).stdout
    # the step's own diff = commit it on a scratch branch
    subprocess.run(["git", "-C", WT, "-c", "user.name=x", "-c", "user.email=x@x", "commit", "-q", "-m", name], check=True)
    step = subprocess.run(["git", "-C", WT, "show", "--format=", "HEAD"], check=True, capture_output=True, text=True).stdout
    open(os.path.join(OUT, name + ".diff"), "w").write(step)
    print(name, step.count("\n@@ "), "hunks")
