#!/bin/sh
# usage: /tmp/zrshim/gotest.sh <worktree> <go test args...>
# Runs `go test` inside <worktree> with two dependency shims so that packages importing
# gorocksdb (engine, rockredis, raft, wal, node, server, ...) build in this sandbox.
# Does not modify <worktree>/go.mod.
WT=$1; shift
T=$(mktemp -d /tmp/zrshim/mod.XXXXXX)
trap 'rm -rf "$T"' EXIT
cp "$WT/go.mod" "$T/go.mod"; cp "$WT/go.sum" "$T/go.sum"
printf '\nreplace github.com/youzan/gorocksdb => /tmp/zrshim/gorocksdb\n\nreplace github.com/ugorji/go => /tmp/zrshim/ugorji-go\n' >> "$T/go.mod"
cd "$WT" && GOFLAGS=-mod=mod GOPROXY=off GOSUMDB=off GOTOOLCHAIN=local go test -modfile="$T/go.mod" -vet=off "$@"
