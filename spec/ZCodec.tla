------------------------------- MODULE ZCodec --------------------------------
(* The peer stream codecs of transport/rafthttp as a contract (property C16).  *)
(*                                                                             *)
(* A stream is a FIFO byte pipe between a sending node (Remote, seen from the  *)
(* reader) and a receiving node (Local).  Two stream kinds exist:              *)
(*   - "message": every raft message travels as a self-contained frame;        *)
(*   - "msgappv2" (cfg.compact): a stateful compaction for append messages.    *)
(*     Both ends keep a context  [term, index, fg, tg]  (term, last log index  *)
(*     and the source/destination raft-group identity of the last append sent  *)
(*     in full).  An append that is completely *predictable* from the context  *)
(*     may be sent as a continuation frame carrying only its entries and the   *)
(*     commit index; the link heartbeat is a one-byte frame; everything else   *)
(*     is a full frame.  A full frame is always a correct encoding.            *)
(* The contract is that the compaction is lossless: whatever was written is    *)
(* read back as the same sequence, field by field, and a damaged stream ends   *)
(* with an error after the whole frames before the damage.  The model is       *)
(* written from that contract; TLC proves on bounded instances that the        *)
(* continuation condition IsContinue is sufficient, and refutes each weakened  *)
(* variant (constant Mutant).                                                  *)
(*                                                                             *)
(* A message is a record                                                       *)
(*   [type, from, to, term, logterm, index, commit, ents, fg, tg, rest]        *)
(* ents: sequence of [index, term, d] (d: opaque payload, a size class in the  *)
(* bounded instance, a digest of type/len/bytes in recorded traces); fg, tg:   *)
(* group identities [node, gid, rep, name]; rest: opaque digest of the fields  *)
(* an append never carries (reject, rejectHint, context, snapshot).            *)
EXTENDS Integers, Sequences, TLC

CONSTANTS Mutant        \* "none", or the name of one removed guard (spec mutants)

VARIABLES cfg,          \* [compact, local, remote]: stream kind and its two ends
          enc,          \* encoder context
          dec,          \* decoder context
          wire,         \* frames written and not yet read
          sent,         \* history: messages written
          recvd,        \* history: messages read
          damaged,      \* the byte stream was truncated / corrupted
          closed,       \* the decoder returned an error (the reader closes the stream)
          whole         \* ghost: number of messages in whole frames before the damage

cvars == <<cfg, enc, dec, wire, sent, recvd, damaged, closed, whole>>

NoGroup == [node |-> 0, gid |-> 0, rep |-> 0, name |-> ""]
NoRest  == ""
Ctx0    == [term |-> 0, index |-> 0, fg |-> NoGroup, tg |-> NoGroup]

\* the link-layer heartbeat: MsgHeartbeat with every other field at its default
HBMsg == [type |-> "MsgHeartbeat", from |-> 0, to |-> 0, term |-> 0, logterm |-> 0,
          index |-> 0, commit |-> 0, ents |-> <<>>, fg |-> NoGroup, tg |-> NoGroup,
          rest |-> NoRest]

Frame(k, ents, commit, m) == [k |-> k, ents |-> ents, commit |-> commit, msg |-> m]
HBFrame      == Frame("hb", <<>>, 0, HBMsg)
BadFrame     == Frame("bad", <<>>, 0, HBMsg)
FullFrame(m) == Frame("full", <<>>, 0, m)
ContFrame(m) == Frame("cont", m.ents, m.commit, HBMsg)

-------------------------------------------------------------------------------
(* Pure operators (reused by ZCodecTrace).                                     *)

\* m is predictable from context c: it may travel as a continuation frame
IsContinue(c, m) ==
  /\ m.type = "MsgApp"
  /\ m.rest = NoRest
  /\ m.from = m.fg.rep /\ m.to = m.tg.rep
  /\ (Mutant = "noindex"   \/ c.index = m.index)
  /\ (Mutant = "noencterm" \/ c.term = m.logterm)
  /\ (Mutant = "nologterm" \/ m.logterm = m.term)
  /\ (Mutant = "nogroup"   \/ (c.fg = m.fg /\ c.tg = m.tg))

\* context after a full append frame: its term, groups and last log index
CtxOf(m) == [term |-> m.term,
             index |-> IF m.ents = <<>> THEN m.index ELSE m.ents[Len(m.ents)].index,
             fg |-> m.fg, tg |-> m.tg]

\* the frame the compacting encoder chooses
EncodeFrame(c, k, m) ==
  IF ~k.compact THEN FullFrame(m)
  ELSE IF m = HBMsg THEN HBFrame
  ELSE IF IsContinue(c, m) THEN ContFrame(m)
  ELSE FullFrame(m)

\* f is a correct encoding of m in context c (a full frame is merely less compact)
IsEncoding(c, k, m, f) == f = EncodeFrame(c, k, m) \/ f = FullFrame(m)

\* context of either end after frame f
CtxAfter(c, k, f) ==
  CASE f.k = "cont" -> [c EXCEPT !.index = IF Mutant = "nodecadv" THEN @ ELSE @ + Len(f.ents)]
    [] f.k = "full" -> IF k.compact THEN CtxOf(f.msg) ELSE c
    [] OTHER        -> c

\* what the reader makes of frame f in context c: [err, msg, ctx]
DecodeFrame(c, k, f) ==
  CASE f.k = "hb"   -> [err |-> FALSE, msg |-> HBMsg, ctx |-> c]
    [] f.k = "full" -> [err |-> FALSE, msg |-> f.msg, ctx |-> CtxAfter(c, k, f)]
    [] f.k = "cont" ->
         IF c.fg.node # k.remote \/ c.tg.node # k.local
         THEN [err |-> TRUE, msg |-> HBMsg, ctx |-> c]   \* the context is not of this node pair
         ELSE [err |-> FALSE,
               msg |-> [type |-> "MsgApp", from |-> c.fg.rep, to |-> c.tg.rep,
                        term |-> c.term, logterm |-> c.term, index |-> c.index,
                        commit |-> f.commit, ents |-> f.ents, fg |-> c.fg, tg |-> c.tg,
                        rest |-> NoRest],
               ctx |-> CtxAfter(c, k, f)]
    [] OTHER        -> [err |-> TRUE, msg |-> HBMsg, ctx |-> c]

-------------------------------------------------------------------------------
(* Actions.                                                                    *)

CInit(k) == /\ cfg = k /\ enc = Ctx0 /\ dec = Ctx0 /\ wire = <<>> /\ sent = <<>>
            /\ recvd = <<>> /\ damaged = FALSE /\ closed = FALSE /\ whole = 0

\* the writer's context after it has written m as frame f
EncAfter(c, k, m, f) == IF f.k = "cont" THEN [c EXCEPT !.index = @ + Len(m.ents)]
                        ELSE IF f.k = "full" /\ k.compact THEN CtxOf(m) ELSE c

\* the writer puts message m on the stream as frame f
SendFrame(m, f) ==
  /\ ~damaged
  /\ IsEncoding(enc, cfg, m, f)
  /\ wire' = Append(wire, f)
  /\ enc' = EncAfter(enc, cfg, m, f)
  /\ sent' = Append(sent, m)
  /\ UNCHANGED <<cfg, dec, recvd, damaged, closed, whole>>

\* the compacting writer of the implementation
Send(m) == SendFrame(m, EncodeFrame(enc, cfg, m))

\* the reader takes the next frame
Decode ==
  /\ wire # <<>> /\ ~closed
  /\ LET r == DecodeFrame(dec, cfg, Head(wire)) IN
       /\ wire' = Tail(wire)
       /\ IF r.err THEN closed' = TRUE /\ UNCHANGED <<dec, recvd>>
          ELSE closed' = closed /\ dec' = r.ctx /\ recvd' = Append(recvd, r.msg)
  /\ UNCHANGED <<cfg, enc, sent, damaged, whole>>

\* the byte stream ends after k whole frames and possibly a part of the next one
Truncate(k) ==
  /\ ~damaged /\ k \in 0..Len(wire)
  /\ wire' = Append(SubSeq(wire, 1, k), BadFrame)
  /\ damaged' = TRUE /\ whole' = Len(recvd) + k
  /\ UNCHANGED <<cfg, enc, dec, sent, recvd, closed>>

\* frame k is damaged in a way that breaks the framing (abstract: everything from
\* there on is unreadable; byte-level damage is explored on the real decoder)
Corrupt(k) ==
  /\ ~damaged /\ k \in 1..Len(wire)
  /\ wire' = Append(SubSeq(wire, 1, k - 1), BadFrame)
  /\ damaged' = TRUE /\ whole' = Len(recvd) + k - 1
  /\ UNCHANGED <<cfg, enc, dec, sent, recvd, closed>>

-------------------------------------------------------------------------------
(* Properties.                                                                 *)

\* messages sent and not yet received
Pending == SubSeq(sent, Len(recvd) + 1, Len(sent))

\* what was read is what was written, in order, field by field (record equality covers
\* type, from, to, term, logterm, index, commit, entries (index, term, payload), both
\* group identities and the rest digest)
Lossless == /\ Len(recvd) <= Len(sent)
            /\ \A i \in 1..Len(recvd) : recvd[i] = sent[i]

\* the inductive step of Lossless, a function of the VIEW of the bounded instance: the
\* next frame decodes to the oldest pending message
StepFaithful ==
  (wire # <<>> /\ ~closed /\ Head(wire).k # "bad") =>
     LET r == DecodeFrame(dec, cfg, Head(wire)) IN ~r.err /\ r.msg = Head(Pending)

\* nothing is lost or invented while the stream is intact
InSync == ~damaged => (Len(recvd) + Len(wire) = Len(sent) /\ ~closed)

\* both ends agree on the context whenever the pipe is empty
CtxAgree == (wire = <<>> /\ ~damaged) => enc = dec

\* a damaged stream yields exactly the whole frames before the damage, then an error
ErrorAfterDamage ==
  /\ closed => (damaged /\ Len(recvd) = whole /\ wire = <<>>)
  /\ damaged => Len(recvd) <= whole
  /\ (damaged /\ ~closed) => (wire # <<>> /\ wire[Len(wire)].k = "bad")
=============================================================================
