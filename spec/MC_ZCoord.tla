----------------------------- MODULE MC_ZCoord ------------------------------
(* Bounded instances of ZCoord for exhaustive checking (C18, part A) and for   *)
(* generating behaviours (TLC -simulate) that harness `coordsim` replays on    *)
(* the real coordinator.  N data nodes 1..N; the other constants come from the *)
(* cfg (checks/C18.py writes one cfg per (N, R) and per spec mutant from the   *)
(* template MC_ZCoord.cfg).                                                    *)
EXTENDS ZCoord, TLC
CONSTANT N
MCNodes == 1..N
\* the view hides nothing: every variable is either state or bounded history
=============================================================================
