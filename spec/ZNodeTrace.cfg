SPECIFICATION NSpec
CONSTRAINT Track
INVARIANT AllReplicasEqual
POSTCONDITION Accepted
CHECK_DEADLOCK FALSE
