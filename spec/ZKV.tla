-------------------------------- MODULE ZKV --------------------------------
(* The data model of ZanRedisDB: Redis strings, hashes, lists, sets and sorted *)
(* sets, each type in its own keyspace under table:key, with expiry evaluated  *)
(* against the *log* timestamp of a write and against the reader's clock on a  *)
(* read.  Written from the Redis command documentation and doc/user-guide.md   *)
(* (per-type keyspaces, *clear/*keyexist/*expire/*ttl/*persist extensions,     *)
(* SPOP/SRANDMEMBER in key order, the two expiry policies) - never from the    *)
(* code.  Properties C08 (replies and data equal this model), C09 (counts      *)
(* agree with enumerations) and C10 (expired data is dead, unexpired data is   *)
(* never removed) are decided by conformance of real traces to this module     *)
(* (ZKVTrace) plus the model theorems at the end (MC_ZKV).                     *)
(*                                                                             *)
(* Abstraction.  Keys, fields and members are positive integers that the Go    *)
(* driver instantiates order-consistently from adversarial byte-string pools.  *)
(* String values are sequences of symbols: 0..9 the decimal digits, 10 a       *)
(* non-digit byte chosen by the pool, 11 the minus sign, 12 the NUL byte       *)
(* (SETRANGE padding).  Command arguments name values by their index in        *)
(* ValTab.  Scores are integers in half units (3 = 1.5).  Time is counted in   *)
(* expiry ticks (the driver maps one tick to H real seconds, H >= 1); an       *)
(* expiry instant is a whole tick: a key given d ticks by a command logged in  *)
(* tick t is dead for every command logged in a tick >= t + d.                 *)
(*                                                                             *)
(* Expiry is a *view* at the time of the observing command, never a state      *)
(* change: log time is not monotone (leader changes, replays), so a later      *)
(* command with an earlier timestamp sees the record alive again.  A command   *)
(* that does nothing leaves the raw record untouched.                          *)
(*                                                                             *)
(* Policies.  "wc" (wait_compact, consistent): the expiry lives with the       *)
(* value; overwriting the whole value (SET, GETSET, MSET) or PERSIST clears    *)
(* it, modifying commands keep it, a re-created collection is empty, TTL is    *)
(* the remaining whole ticks.  "ld" (local deletion, the default, documented   *)
(* as: expiry only guarantees data is not deleted early; TTL and PERSIST are   *)
(* not supported; an expiry once given cannot be changed or cancelled, not     *)
(* even by a later SET): every expiry given to a key name stays pending until  *)
(* the node's background scan fires it; commands never look at it.             *)
EXTENDS Integers, Sequences, FiniteSets, TLC

CONSTANTS NKeys,        \* key ids are 1..NKeys
          Policy,       \* "wc" | "ld"
          Mut           \* "none", or the name of ONE rule that is removed (spec mutants: the
                        \* MC_ZKV_mut_*.cfg instances must be refuted by TLC, which shows that
                        \* the model theorems bite): "overwrite-keeps-expiry",
                        \* "modify-clears-expiry", "recreate-keeps-members",
                        \* "count-ignores-expiry", "expired-visible"

Keys == 1..NKeys

-----------------------------------------------------------------------------
(* Values *)
MAXIV  == <<9, 2, 2, 3, 3, 7, 2, 0, 3, 6, 8, 5, 4, 7, 7, 5, 8, 0, 7>>       \* int64 max
MAXI1V == <<9, 2, 2, 3, 3, 7, 2, 0, 3, 6, 8, 5, 4, 7, 7, 5, 8, 0, 6>>       \* int64 max - 1
MINIV  == <<11, 9, 2, 2, 3, 3, 7, 2, 0, 3, 6, 8, 5, 4, 7, 7, 5, 8, 0, 8>>   \* int64 min
ValTab == << <<>>, <<1>>, <<2>>, <<1, 0>>, <<10>>, <<10, 12, 10>>, <<11, 3>>, <<9, 9>>, MAXIV, MAXI1V, MINIV >>
Val(id) == ValTab[id]

NUL == 12
MINUS == 11
IsDigits(s) == s # <<>> /\ \A i \in 1..Len(s) : s[i] \in 0..9
Canon(s)    == IsDigits(s) /\ (Len(s) = 1 \/ s[1] # 0)
IsNum(v)    == \/ Canon(v)
               \/ (Len(v) >= 2 /\ v[1] = MINUS /\ Canon(Tail(v)) /\ Tail(v) # <<0>>)
RECURSIVE DigVal(_)
DigVal(s) == IF s = <<>> THEN 0 ELSE DigVal(SubSeq(s, 1, Len(s) - 1)) * 10 + s[Len(s)]
NumVal(v) == IF v[1] = MINUS THEN 0 - DigVal(Tail(v)) ELSE DigVal(v)
RECURSIVE DigSeq(_)
DigSeq(n) == IF n < 10 THEN <<n>> ELSE DigSeq(n \div 10) \o <<n % 10>>
NumSeq(n) == IF n < 0 THEN <<MINUS>> \o DigSeq(0 - n) ELSE DigSeq(n)
\* numerals the model does not evaluate (TLC integers are 32 bit)
TooBig(v) == Len(v) > 8
\* 64-bit extremes, symbolically.  Integer codes: IMAX = int64 max, IMAX1 = max - 1, IMIN = int64 min
\* (as INCRBY / HINCRBY deltas, as replies, as EXPIRE durations).  Redis: an increment that would
\* overflow answers an error and changes nothing.  SymAdd: <<"ok", new value, reply>> | <<"err">> | <<"out">>
IMAX == 2000000001   IMAX1 == 2000000002   IMIN == -2000000001
IsSymInt(d) == d \in {IMAX, IMIN}
SymAdd(has, v, d) ==
  LET big == has /\ v \in {MAXIV, MAXI1V, MINIV}
      small == ~has \/ (~TooBig(v) /\ IsNum(v))
      n == IF has THEN NumVal(v) ELSE 0
  IN IF big /\ d = 0 THEN <<"ok", v, IF v = MAXIV THEN IMAX ELSE IF v = MAXI1V THEN IMAX1 ELSE IMIN>>
     ELSE IF big /\ v = MAXIV THEN (IF d = IMIN THEN <<"ok", NumSeq(-1), -1>> ELSE IF d > 0 THEN <<"err">>
                                   ELSE IF d = -1 THEN <<"ok", MAXI1V, IMAX1>> ELSE <<"out">>)
     ELSE IF big /\ v = MAXI1V THEN (IF d = 1 THEN <<"ok", MAXIV, IMAX>> ELSE IF d > 1 THEN <<"err">> ELSE <<"out">>)
     ELSE IF big /\ v = MINIV THEN (IF d = IMAX THEN <<"ok", NumSeq(-1), -1>> ELSE IF d < 0 THEN <<"err">> ELSE <<"out">>)
     ELSE IF small /\ d = IMAX THEN (IF n > 0 THEN <<"err">> ELSE IF n = 0 THEN <<"ok", MAXIV, IMAX>>
                                    ELSE IF n = -1 THEN <<"ok", MAXI1V, IMAX1>> ELSE <<"out">>)
     ELSE IF small /\ d = IMIN THEN (IF n < 0 THEN <<"err">> ELSE IF n = 0 THEN <<"ok", MINIV, IMIN>> ELSE <<"out">>)
     ELSE <<"out">>
SymCase(has, v, d) == IsSymInt(d) \/ (has /\ v \in {MAXIV, MAXI1V, MINIV})

Max2(a, b) == IF a > b THEN a ELSE b
Min2(a, b) == IF a < b THEN a ELSE b
MinOf(S) == CHOOSE x \in S : \A y \in S : x <= y
RECURSIVE Sorted(_)
Sorted(S) == IF S = {} THEN <<>> ELSE LET m == MinOf(S) IN <<m>> \o Sorted(S \ {m})
RECURSIVE Flat(_)
Flat(ss) == IF ss = <<>> THEN <<>> ELSE Head(ss) \o Flat(Tail(ss))
Rev(s) == [i \in 1..Len(s) |-> s[Len(s) + 1 - i]]
Take(s, n) == IF n >= Len(s) THEN s ELSE SubSeq(s, 1, n)
EmptyF == [x \in {} |-> 0]
Restrict(f, D) == [x \in D |-> f[x]]
Upd(f, x, v) == [y \in DOMAIN f \cup {x} |-> IF y = x THEN v ELSE f[y]]

-----------------------------------------------------------------------------
(* Replies: flat integer sequences, so that any two replies are comparable.    *)
RNil       == <<0>>
RInt(n)    == <<1, n>>
ROk        == <<2>>
RBulk(v)   == <<3>> \o v
RErr       == <<4>>
Item(v)    == <<Len(v)>> \o v                \* element of an array of bulk strings
NilItem    == <<-1>>
RVals(its) == <<5, Len(its)>> \o Flat(its)   \* its: sequence of Item / NilItem
RIds(s)    == <<6, Len(s)>> \o s             \* array of field / member ids
RPairs(ps) == <<7, Len(ps)>> \o Flat(ps)     \* ps: sequence of <<member, score>>
RId(m)     == <<8, m>>
RScore(s)  == <<9, s>>
RFV(fs)    == <<10, Len(fs)>> \o Flat(fs)    \* fs: sequence of <<field>> \o Item(value)
ROut       == <<-99>>                        \* outside the model (see TooBig)

-----------------------------------------------------------------------------
(* Records.  pend: expiry ticks pending for this key name (policy "ld" only).  *)
KVNil == [has |-> FALSE, v |-> <<>>, exp |-> 0, pend |-> {}]
HNil  == [f |-> EmptyF, exp |-> 0, pend |-> {}]
LNil  == [q |-> <<>>, exp |-> 0, pend |-> {}]
SNil  == [m |-> {}, exp |-> 0, pend |-> {}]
ZNil  == [sc |-> EmptyF, exp |-> 0, pend |-> {}]
\* bitmaps (SETBIT / GETBIT / BITCOUNT / BITCLEAR and the b* extensions): a keyspace of their own, the set of
\* offsets of the 1 bits.  has: the bitmap exists (SETBIT k off 0 on a missing key creates an all-zero one).
BNil  == [has |-> FALSE, bits |-> {}, exp |-> 0, pend |-> {}]

InitDB == [kv |-> [k \in Keys |-> KVNil], hs |-> [k \in Keys |-> HNil],
           ls |-> [k \in Keys |-> LNil], st |-> [k \in Keys |-> SNil],
           zs |-> [k \in Keys |-> ZNil], bm |-> [k \in Keys |-> BNil]]

Dead(r, t) == r.exp # 0 /\ r.exp <= t
\* give an expiry / drop it
SetExp(r, e) == IF Policy = "wc" THEN [r EXCEPT !.exp = e] ELSE [r EXCEPT !.pend = @ \cup {e}]

KVGone(r)    == [r EXCEPT !.has = FALSE, !.v = <<>>, !.exp = 0]
KVLive(r, t) == IF Dead(r, t) /\ Mut # "expired-visible" THEN KVGone(r) ELSE r
KVSet(r, v)  == IF Mut = "overwrite-keeps-expiry" THEN [r EXCEPT !.has = TRUE, !.v = v]
                ELSE [r EXCEPT !.has = TRUE, !.v = v, !.exp = 0]      \* whole-value overwrite

\* collection types "h" "l" "s" "z" (and "b", the bitmaps)
Coll(db, ty, k) == CASE ty = "h" -> db.hs[k] [] ty = "l" -> db.ls[k]
                     [] ty = "s" -> db.st[k] [] ty = "z" -> db.zs[k] [] ty = "b" -> db.bm[k]
PutC(db, ty, k, x) == CASE ty = "h" -> [db EXCEPT !.hs[k] = x] [] ty = "l" -> [db EXCEPT !.ls[k] = x]
                        [] ty = "s" -> [db EXCEPT !.st[k] = x] [] ty = "z" -> [db EXCEPT !.zs[k] = x]
                        [] ty = "b" -> [db EXCEPT !.bm[k] = x]
CEmpty(ty, r) == CASE ty = "h" -> DOMAIN r.f = {} [] ty = "l" -> r.q = <<>>
                   [] ty = "s" -> r.m = {}        [] ty = "z" -> DOMAIN r.sc = {} [] ty = "b" -> ~r.has
CGone(ty, r) == CASE ty = "h" -> [r EXCEPT !.f = EmptyF, !.exp = 0] [] ty = "l" -> [r EXCEPT !.q = <<>>, !.exp = 0]
                  [] ty = "s" -> [r EXCEPT !.m = {}, !.exp = 0]     [] ty = "z" -> [r EXCEPT !.sc = EmptyF, !.exp = 0]
                  [] ty = "b" -> [r EXCEPT !.has = FALSE, !.bits = {}, !.exp = 0]
CLive(ty, r, t) == IF ~Dead(r, t) THEN r
                   ELSE IF Mut = "recreate-keeps-members" THEN [r EXCEPT !.exp = 0] ELSE CGone(ty, r)
\* a collection that lost its last element does not exist any more
CNorm(ty, r) == IF CEmpty(ty, r) THEN CGone(ty, r) ELSE r
CSize(ty, r) == CASE ty = "h" -> Cardinality(DOMAIN r.f) [] ty = "l" -> Len(r.q)
                  [] ty = "s" -> Cardinality(r.m)       [] ty = "z" -> Cardinality(DOMAIN r.sc)
                  [] ty = "b" -> Cardinality(r.bits)

\* Redis index range on a sequence of length n (0-based, negative from the end):
\* the 1-based inclusive bounds, <<1, 0>> when empty
IdxRange(n, s, e) ==
  LET s1 == IF s < 0 THEN n + s ELSE s
      e1 == IF e < 0 THEN n + e ELSE e
      s2 == IF s1 < 0 THEN 0 ELSE s1
      e2 == IF e1 >= n THEN n - 1 ELSE e1
  IN IF s2 > e2 \/ s2 >= n THEN <<1, 0>> ELSE <<s2 + 1, e2 + 1>>
Idx1(n, i) == IF i < 0 THEN n + i + 1 ELSE i + 1     \* 1-based position, may be out of 1..n

\* Scores.  A score is an integer code: |c| <= 1000000 is the score c/2 (half units); beyond that a few
\* symbolic classes stand for numeric extremes that no small domain reaches (the driver maps them to
\* the real numbers): +-tiny (1e-300), +-9e18 (just inside int64), +-2^63 (just outside), +-1e19,
\* +-infinity, and "-0" (an input spelling of 0).  Ord gives the numeric order between all of them,
\* so replies stay comparable; negative codes are the negated scores.
TINY == 1000001   E9E18 == 1000002   E263 == 1000003   E1E19 == 1000004   EINF == 1000005   NEGZERO == 1000006
Abs(x) == IF x < 0 THEN 0 - x ELSE x
Sgn(x) == IF x < 0 THEN -1 ELSE 1
IsExtreme(c) == Abs(c) > 1000000
Ord(c) == IF ~IsExtreme(c) THEN 4 * c
          ELSE Sgn(c) * (CASE Abs(c) = TINY -> 1 [] Abs(c) = E9E18 -> 1500000000 [] Abs(c) = E263 -> 1600000000
                           [] Abs(c) = E1E19 -> 1700000000 [] Abs(c) = EINF -> 1800000000 [] Abs(c) = NEGZERO -> 0)
ScoreNorm(c) == IF Abs(c) = NEGZERO THEN 0 ELSE c           \* what is stored / answered for an input score
\* score + delta in floating point: a huge score absorbs a small delta, a small delta absorbs tiny;
\* <<result, representable in this model>>
ScoreAdd(s, d) == IF ~IsExtreme(s) /\ ~IsExtreme(d) THEN <<s + d, Abs(s + d) <= 1000000>>
                  ELSE IF IsExtreme(d) THEN <<s, FALSE>>
                  ELSE IF Abs(s) = TINY THEN <<IF d = 0 THEN s ELSE d, TRUE>>
                  ELSE <<s, TRUE>>
\* sorted set order: by score, ties by member
ZLess(sc, a, b) == Ord(sc[a]) < Ord(sc[b]) \/ (Ord(sc[a]) = Ord(sc[b]) /\ a < b)
RECURSIVE ZOrd(_, _)
ZOrd(sc, S) == IF S = {} THEN <<>>
               ELSE LET m == CHOOSE x \in S : \A y \in S \ {x} : ZLess(sc, x, y)
                    IN <<m>> \o ZOrd(sc, S \ {m})
ZSeq(r) == ZOrd(r.sc, DOMAIN r.sc)
\* score interval: kinds 0 inclusive, 1 exclusive, 2 infinite
InScore(s, lo, lok, hi, hik) == /\ (lok = 2 \/ (lok = 0 /\ Ord(s) >= Ord(lo)) \/ (lok = 1 /\ Ord(s) > Ord(lo)))
                                /\ (hik = 2 \/ (hik = 0 /\ Ord(s) <= Ord(hi)) \/ (hik = 1 /\ Ord(s) < Ord(hi)))
InLex(m, lo, lok, hi, hik) == /\ (lok = 2 \/ (lok = 0 /\ m >= lo) \/ (lok = 1 /\ m > lo))
                              /\ (hik = 2 \/ (hik = 0 /\ m <= hi) \/ (hik = 1 /\ m < hi))
PairsOf(r, ms) == [i \in 1..Len(ms) |-> <<ms[i], r.sc[ms[i]]>>]
\* LIMIT offset count on a sequence
Lim(s, off, cnt) == IF off < 0 \/ off >= Len(s) THEN <<>>
                    ELSE IF cnt < 0 THEN SubSeq(s, off + 1, Len(s)) ELSE SubSeq(s, off + 1, Min2(Len(s), off + cnt))
SelSeq(s, P(_)) == LET F[i \in 0..Len(s)] == IF i = 0 THEN <<>> ELSE IF P(s[i]) THEN Append(F[i - 1], s[i]) ELSE F[i - 1]
                   IN F[Len(s)]

-----------------------------------------------------------------------------
(* The meaning of a command.  c = [c |-> name, k |-> key, a |-> <<int args>>], *)
(* t = log tick of a write, now = clock tick of the reader.                    *)
(* Result: [db |-> new state, r |-> reply].                                    *)
Res(db, r) == [db |-> db, r |-> r]
\* EXPIRE with a duration <= 0 (Redis: "the key is deleted", reply 1 for a live key).  In a model where
\* expiry is a view this needs no rule of its own: the expiry instant t + d is simply not after the
\* command's own log tick, so the key is dead for the command's own tick and every later one, and a
\* command logged at an EARLIER tick (log time is not monotone) still sees it.  Outside the model only:
\* the symbolic minimum (second count overflows) and an instant at or before tick 0 (tick 0 is the
\* model's "no expiry" mark; the driver's tick 0 is a real second far from 0).
PastOut(d, t) == d <= 0 /\ (d = IMIN \/ t + d < 1)
PutKV(db, k, x) == [db EXCEPT !.kv[k] = x]

\* generic collection extensions
DoCollExt(db, ty, op, k, a, t, now) ==
  LET raw == Coll(db, ty, k)
      lv  == CLive(ty, raw, t)
      rd  == CLive(ty, raw, now)
  IN CASE op = "clear"    -> IF CEmpty(ty, lv) THEN Res(db, RInt(0)) ELSE Res(PutC(db, ty, k, CGone(ty, raw)), RInt(1))
       [] op = "keyexist" -> Res(db, RInt(IF CEmpty(ty, rd) THEN 0 ELSE 1))
       [] op = "expire"   -> IF a[1] = IMAX THEN Res(db, RErr)      \* no representable expire time (Redis: invalid expire time)
                             ELSE IF PastOut(a[1], t) THEN Res(db, ROut)
                             ELSE IF CEmpty(ty, lv) THEN Res(db, RInt(0))
                             ELSE Res(PutC(db, ty, k, SetExp(lv, t + a[1])), RInt(1))
       [] op = "ttl"      -> Res(db, RInt(IF Policy = "wc" /\ ~CEmpty(ty, rd) /\ rd.exp # 0 THEN rd.exp - now ELSE -1))
       [] op = "persist"  -> IF CEmpty(ty, lv) \/ (Policy = "wc" /\ lv.exp = 0) THEN Res(db, RInt(0))
                             ELSE IF Policy = "ld" THEN Res(db, RErr)     \* not supported (user guide)
                             ELSE Res(PutC(db, ty, k, [lv EXCEPT !.exp = 0]), RInt(1))

DoKV(db, c, k, a, t, now) ==
  LET raw == db.kv[k]
      lv  == KVLive(raw, t)
      rd  == KVLive(raw, now)
      Opt(r) == IF r.has THEN Item(r.v) ELSE NilItem
  IN CASE c = "get"    -> Res(db, IF rd.has THEN RBulk(rd.v) ELSE RNil)
       [] c = "strlen" -> Res(db, RInt(Len(rd.v)))
       [] c = "exists" -> Res(db, RInt(IF rd.has THEN 1 ELSE 0))
       [] c = "exists2" -> Res(db, RInt((IF rd.has THEN 1 ELSE 0) + (IF KVLive(db.kv[a[1]], now).has THEN 1 ELSE 0)))
       [] c = "mget"   -> Res(db, RVals(<<Opt(rd), Opt(KVLive(db.kv[a[1]], now))>>))
       [] c = "getrange" ->
            LET n == Len(rd.v)
                s == a[1]
                e == a[2]
                s1 == IF s < 0 THEN Max2(n + s, 0) ELSE s
                e0 == IF e < 0 THEN Max2(n + e, 0) ELSE e
                e1 == IF e0 >= n THEN n - 1 ELSE e0
            IN \* "out of range requests are limited to the actual length of the string" (Redis doc)
               Res(db, IF n = 0 \/ s1 > e1 THEN RBulk(<<>>) ELSE RBulk(SubSeq(rd.v, s1 + 1, e1 + 1)))
       [] c = "ttl"    -> Res(db, RInt(IF Policy = "wc" /\ rd.has /\ rd.exp # 0 THEN rd.exp - now ELSE -1))
       [] c = "set"    -> Res(PutKV(db, k, KVSet(raw, Val(a[1]))), ROk)
       [] c = "setx"   -> \* SET k v [EX d] [NX|XX]: a = <<vid, d (0 none), mode (0 none, 1 NX, 2 XX)>>
            IF (a[3] = 1 /\ lv.has) \/ (a[3] = 2 /\ ~lv.has) THEN Res(db, RNil)
            ELSE Res(PutKV(db, k, IF a[2] > 0 THEN SetExp(KVSet(raw, Val(a[1])), t + a[2]) ELSE KVSet(raw, Val(a[1]))), ROk)
       [] c = "setex"  -> IF a[1] <= 0 \/ a[1] = IMAX THEN Res(db, RErr)
                          ELSE Res(PutKV(db, k, SetExp(KVSet(raw, Val(a[2])), t + a[1])), ROk)
       [] c = "setnx"  -> IF lv.has THEN Res(db, RInt(0)) ELSE Res(PutKV(db, k, KVSet(raw, Val(a[1]))), RInt(1))
       [] c = "getset" -> Res(PutKV(db, k, KVSet(raw, Val(a[1]))), IF lv.has THEN RBulk(lv.v) ELSE RNil)
       [] c = "mset"   -> \* a = <<vid, k2, vid2>>
            LET d1 == PutKV(db, k, KVSet(raw, Val(a[1])))
            IN Res(PutKV(d1, a[2], KVSet(d1.kv[a[2]], Val(a[3]))), ROk)
       [] c \in {"incr", "decr", "incrby", "decrby"} ->
            LET delta == CASE c = "incr" -> 1 [] c = "decr" -> -1 [] c = "incrby" -> a[1] [] c = "decrby" -> 0 - a[1]
            IN IF SymCase(lv.has, lv.v, delta) THEN
                    (IF lv.has /\ ~TooBig(lv.v) /\ ~IsNum(lv.v) THEN Res(db, RErr)
                     ELSE LET r == SymAdd(lv.has, lv.v, delta)
                          IN IF r[1] = "err" THEN Res(db, RErr) ELSE IF r[1] = "out" THEN Res(db, ROut)
                             ELSE Res(PutKV(db, k, [lv EXCEPT !.has = TRUE, !.v = r[2]]), RInt(r[3])))
               ELSE IF lv.has /\ TooBig(lv.v) THEN Res(db, ROut)
               ELSE IF lv.has /\ ~IsNum(lv.v) THEN Res(db, RErr)
               ELSE LET n == (IF lv.has THEN NumVal(lv.v) ELSE 0) + delta
                    IN Res(PutKV(db, k, [lv EXCEPT !.has = TRUE, !.v = NumSeq(n)]), RInt(n))
       [] c = "append" ->
            LET nv == lv.v \o Val(a[1])
            IN Res(PutKV(db, k, [lv EXCEPT !.has = TRUE, !.v = nv, !.exp = IF Mut = "modify-clears-expiry" THEN 0 ELSE @]), RInt(Len(nv)))
       [] c = "setrange" -> \* a = <<offset, vid>>
            LET val == Val(a[2])
                off == a[1]
                n   == Max2(Len(lv.v), off + Len(val))
                nv  == [i \in 1..n |-> IF i > off /\ i <= off + Len(val) THEN val[i - off]
                                       ELSE IF i <= Len(lv.v) THEN lv.v[i] ELSE NUL]
            IN IF off < 0 THEN Res(db, RErr)
               ELSE IF val = <<>> THEN Res(db, RInt(Len(lv.v)))
               ELSE Res(PutKV(db, k, [lv EXCEPT !.has = TRUE, !.v = nv]), RInt(n))
       \* DEL removes the record whatever its expiry (afterwards the key is absent for every
       \* observer); only keys that were alive at the log time count in the reply
       [] c = "del"    -> Res(PutKV(db, k, KVGone(raw)), RInt(IF lv.has THEN 1 ELSE 0))
       [] c = "del2"   -> \* DEL k k2
            LET n1 == IF lv.has THEN 1 ELSE 0
                d1 == PutKV(db, k, KVGone(raw))
                r2 == d1.kv[a[1]]
                l2 == KVLive(r2, t)
            IN Res(PutKV(d1, a[1], KVGone(r2)), RInt(n1 + (IF l2.has THEN 1 ELSE 0)))
       [] c = "expire" -> IF a[1] = IMAX THEN Res(db, RErr)
                          ELSE IF PastOut(a[1], t) THEN Res(db, ROut)
                          ELSE IF ~lv.has THEN Res(db, RInt(0)) ELSE Res(PutKV(db, k, SetExp(lv, t + a[1])), RInt(1))
       [] c = "persist" -> IF ~lv.has \/ (Policy = "wc" /\ lv.exp = 0) THEN Res(db, RInt(0))
                           ELSE IF Policy = "ld" THEN Res(db, RErr)       \* not supported (user guide)
                           ELSE Res(PutKV(db, k, [lv EXCEPT !.exp = 0]), RInt(1))

DoHash(db, c, k, a, t, now) ==
  LET raw == db.hs[k]
      lv  == CLive("h", raw, t)
      rd  == CLive("h", raw, now)
      Put(x) == PutC(db, "h", k, x)
      fs  == Sorted(DOMAIN rd.f)
      Opt(x) == IF x \in DOMAIN rd.f THEN Item(rd.f[x]) ELSE NilItem
  IN CASE c = "hget"    -> Res(db, IF a[1] \in DOMAIN rd.f THEN RBulk(rd.f[a[1]]) ELSE RNil)
       [] c = "hmget"   -> Res(db, RVals(<<Opt(a[1]), Opt(a[2])>>))
       [] c = "hexists" -> Res(db, RInt(IF a[1] \in DOMAIN rd.f THEN 1 ELSE 0))
       [] c = "hlen"    -> Res(db, RInt(Cardinality(DOMAIN (IF Mut = "count-ignores-expiry" THEN raw ELSE rd).f)))
       [] c = "hgetall" -> Res(db, RFV([i \in 1..Len(fs) |-> <<fs[i]>> \o Item(rd.f[fs[i]])]))
       [] c = "hkeys"   -> Res(db, RIds(fs))
       [] c = "hvals"   -> Res(db, RVals([i \in 1..Len(fs) |-> Item(rd.f[fs[i]])]))
       [] c = "hset"    -> Res(Put([lv EXCEPT !.f = Upd(lv.f, a[1], Val(a[2]))]), RInt(IF a[1] \in DOMAIN lv.f THEN 0 ELSE 1))
       [] c = "hsetnx"  -> IF a[1] \in DOMAIN lv.f THEN Res(db, RInt(0))
                           ELSE Res(Put([lv EXCEPT !.f = Upd(lv.f, a[1], Val(a[2]))]), RInt(1))
       [] c = "hmset"   -> Res(Put([lv EXCEPT !.f = Upd(Upd(lv.f, a[1], Val(a[2])), a[3], Val(a[4]))]), ROk)
       [] c \in {"hdel", "hdel2"} ->
            LET ds == IF c = "hdel" THEN {a[1]} ELSE {a[1], a[2]}
                n  == Cardinality(ds \cap DOMAIN lv.f)
            IN IF n = 0 THEN Res(db, RInt(0))
               ELSE Res(Put(CNorm("h", [lv EXCEPT !.f = Restrict(lv.f, DOMAIN lv.f \ ds)])), RInt(n))
       [] c = "hincrby" -> \* a = <<field, delta>>
            LET has == a[1] \in DOMAIN lv.f
                fv  == IF has THEN lv.f[a[1]] ELSE <<>>
            IN IF SymCase(has, fv, a[2]) THEN
                    (IF has /\ ~TooBig(fv) /\ ~IsNum(fv) THEN Res(db, RErr)
                     ELSE LET r == SymAdd(has, fv, a[2])
                          IN IF r[1] = "err" THEN Res(db, RErr) ELSE IF r[1] = "out" THEN Res(db, ROut)
                             ELSE Res(Put([lv EXCEPT !.f = Upd(lv.f, a[1], r[2])]), RInt(r[3])))
               ELSE IF has /\ TooBig(lv.f[a[1]]) THEN Res(db, ROut)
               ELSE IF has /\ ~IsNum(lv.f[a[1]]) THEN Res(db, RErr)
               ELSE LET n == (IF has THEN NumVal(lv.f[a[1]]) ELSE 0) + a[2]
                    IN Res(Put([lv EXCEPT !.f = Upd(lv.f, a[1], NumSeq(n))]), RInt(n))
       [] c = "hclear"    -> DoCollExt(db, "h", "clear", k, a, t, now)
       [] c = "hkeyexist" -> DoCollExt(db, "h", "keyexist", k, a, t, now)
       [] c = "hexpire"   -> DoCollExt(db, "h", "expire", k, a, t, now)
       [] c = "httl"      -> DoCollExt(db, "h", "ttl", k, a, t, now)
       [] c = "hpersist"  -> DoCollExt(db, "h", "persist", k, a, t, now)

DoList(db, c, k, a, t, now) ==
  LET raw == db.ls[k]
      lv  == CLive("l", raw, t)
      rd  == CLive("l", raw, now)
      Put(x) == PutC(db, "l", k, x)
      n   == Len(lv.q)
  IN CASE c = "llen"   -> Res(db, RInt(Len(rd.q)))
       [] c = "lindex" -> LET i == Idx1(Len(rd.q), a[1])
                          IN Res(db, IF i >= 1 /\ i <= Len(rd.q) THEN RBulk(rd.q[i]) ELSE RNil)
       [] c = "lrange" -> LET b == IdxRange(Len(rd.q), a[1], a[2])
                              s == SubSeq(rd.q, b[1], b[2])
                          IN Res(db, RVals([i \in 1..Len(s) |-> Item(s[i])]))
       [] c = "lpush"  -> Res(Put([lv EXCEPT !.q = <<Val(a[1])>> \o lv.q]), RInt(n + 1))
       [] c = "lpush2" -> Res(Put([lv EXCEPT !.q = <<Val(a[2]), Val(a[1])>> \o lv.q]), RInt(n + 2))
       [] c = "rpush"  -> Res(Put([lv EXCEPT !.q = Append(lv.q, Val(a[1]))]), RInt(n + 1))
       [] c = "rpush2" -> Res(Put([lv EXCEPT !.q = lv.q \o <<Val(a[1]), Val(a[2])>>]), RInt(n + 2))
       [] c = "lpop"   -> IF n = 0 THEN Res(db, RNil)
                          ELSE Res(Put(CNorm("l", [lv EXCEPT !.q = Tail(lv.q)])), RBulk(Head(lv.q)))
       [] c = "rpop"   -> IF n = 0 THEN Res(db, RNil)
                          ELSE Res(Put(CNorm("l", [lv EXCEPT !.q = SubSeq(lv.q, 1, n - 1)])), RBulk(lv.q[n]))
       [] c = "lset"   -> \* a = <<index, vid>>
            LET i == Idx1(n, a[1])
            IN IF i < 1 \/ i > n THEN Res(db, RErr)
               ELSE Res(Put([lv EXCEPT !.q = [lv.q EXCEPT ![i] = Val(a[2])]]), ROk)
       [] c = "ltrim"  -> LET b == IdxRange(n, a[1], a[2])
                          IN IF n = 0 THEN Res(db, ROk)
                             ELSE Res(Put(CNorm("l", [lv EXCEPT !.q = SubSeq(lv.q, b[1], b[2])])), ROk)
       \* repair command (admin): on a healthy list nothing changes
       [] c = "lfixkey"   -> Res(db, ROk)
       [] c = "lclear"    -> DoCollExt(db, "l", "clear", k, a, t, now)
       [] c = "lkeyexist" -> DoCollExt(db, "l", "keyexist", k, a, t, now)
       [] c = "lexpire"   -> DoCollExt(db, "l", "expire", k, a, t, now)
       [] c = "lttl"      -> DoCollExt(db, "l", "ttl", k, a, t, now)
       [] c = "lpersist"  -> DoCollExt(db, "l", "persist", k, a, t, now)

DoSet(db, c, k, a, t, now) ==
  LET raw == db.st[k]
      lv  == CLive("s", raw, t)
      rd  == CLive("s", raw, now)
      Put(x) == PutC(db, "s", k, x)
  IN CASE c = "scard"     -> Res(db, RInt(Cardinality((IF Mut = "count-ignores-expiry" THEN raw ELSE rd).m)))
       [] c = "sismember" -> Res(db, RInt(IF a[1] \in rd.m THEN 1 ELSE 0))
       [] c = "smembers"  -> Res(db, RIds(Sorted(rd.m)))
       [] c = "srandmember" -> IF a[1] <= 0 THEN Res(db, ROut) ELSE Res(db, RIds(Take(Sorted(rd.m), a[1])))
       [] c \in {"sadd", "sadd2"} ->
            LET ms == IF c = "sadd" THEN {a[1]} ELSE {a[1], a[2]}
            IN Res(Put([lv EXCEPT !.m = lv.m \cup ms]), RInt(Cardinality(ms \ lv.m)))
       [] c \in {"srem", "srem2"} ->
            LET ms == IF c = "srem" THEN {a[1]} ELSE {a[1], a[2]}
                n  == Cardinality(ms \cap lv.m)
            IN IF n = 0 THEN Res(db, RInt(0))
               ELSE Res(Put(CNorm("s", [lv EXCEPT !.m = lv.m \ ms])), RInt(n))
       [] c = "spop"  -> IF lv.m = {} THEN Res(db, RNil)
                         ELSE LET x == MinOf(lv.m) IN Res(Put(CNorm("s", [lv EXCEPT !.m = lv.m \ {x}])), RId(x))
       [] c = "spopn" -> IF a[1] <= 0 THEN Res(db, ROut)
                         ELSE IF lv.m = {} THEN Res(db, RIds(<<>>))
                         ELSE LET xs == Take(Sorted(lv.m), a[1])
                              IN Res(Put(CNorm("s", [lv EXCEPT !.m = lv.m \ {xs[i] : i \in 1..Len(xs)}])), RIds(xs))
       [] c = "sclear"    -> DoCollExt(db, "s", "clear", k, a, t, now)
       [] c = "skeyexist" -> DoCollExt(db, "s", "keyexist", k, a, t, now)
       [] c = "sexpire"   -> DoCollExt(db, "s", "expire", k, a, t, now)
       [] c = "sttl"      -> DoCollExt(db, "s", "ttl", k, a, t, now)
       [] c = "spersist"  -> DoCollExt(db, "s", "persist", k, a, t, now)

DoZSet(db, c, k, a, t, now) ==
  LET raw == db.zs[k]
      lv  == CLive("z", raw, t)
      rd  == CLive("z", raw, now)
      Put(x) == PutC(db, "z", k, x)
      zr  == ZSeq(rd)
      zw  == ZSeq(lv)
      \* remove the members ms from the live view (write commands)
      Rem(ms) == IF ms = {} THEN Res(db, RInt(0))
                 ELSE Res(Put(CNorm("z", [lv EXCEPT !.sc = Restrict(lv.sc, DOMAIN lv.sc \ ms)])), RInt(Cardinality(ms)))
      Rank(s, m) == CHOOSE i \in 1..Len(s) : s[i] = m
  IN CASE c = "zcard"  -> Res(db, RInt(Len(zr)))
       [] c = "zscore" -> Res(db, IF a[1] \in DOMAIN rd.sc THEN RScore(rd.sc[a[1]]) ELSE RNil)
       [] c = "zrank"  -> Res(db, IF a[1] \in DOMAIN rd.sc THEN RInt(Rank(zr, a[1]) - 1) ELSE RNil)
       [] c = "zrevrank" -> Res(db, IF a[1] \in DOMAIN rd.sc THEN RInt(Len(zr) - Rank(zr, a[1])) ELSE RNil)
       [] c = "zrange" -> LET b == IdxRange(Len(zr), a[1], a[2])
                          IN Res(db, RPairs(PairsOf(rd, SubSeq(zr, b[1], b[2]))))
       [] c = "zrevrange" -> LET b == IdxRange(Len(zr), a[1], a[2])
                             IN Res(db, RPairs(PairsOf(rd, SubSeq(Rev(zr), b[1], b[2]))))
       [] c = "zrangebyscore" -> \* a = <<lo, lokind, hi, hikind>>
            Res(db, RPairs(PairsOf(rd, SelSeq(zr, LAMBDA m : InScore(rd.sc[m], a[1], a[2], a[3], a[4])))))
       [] c = "zrevrangebyscore" ->
            Res(db, RPairs(PairsOf(rd, Rev(SelSeq(zr, LAMBDA m : InScore(rd.sc[m], a[1], a[2], a[3], a[4]))))))
       \* ... LIMIT offset count: a = <<lo, lokind, hi, hikind, offset, count>>; a negative count means "all from
       \* offset on", a negative offset selects nothing (Redis)
       [] c = "zrangebyscorel" ->
            Res(db, RPairs(PairsOf(rd, Lim(SelSeq(zr, LAMBDA m : InScore(rd.sc[m], a[1], a[2], a[3], a[4])), a[5], a[6]))))
       [] c = "zrevrangebyscorel" ->
            Res(db, RPairs(PairsOf(rd, Lim(Rev(SelSeq(zr, LAMBDA m : InScore(rd.sc[m], a[1], a[2], a[3], a[4]))), a[5], a[6]))))
       [] c = "zrangebylexl" -> Res(db, RIds(Lim(Sorted({m \in DOMAIN rd.sc : InLex(m, a[1], a[2], a[3], a[4])}), a[5], a[6])))
       [] c = "zcount" -> Res(db, RInt(Cardinality({m \in DOMAIN rd.sc : InScore(rd.sc[m], a[1], a[2], a[3], a[4])})))
       [] c = "zrangebylex" -> Res(db, RIds(Sorted({m \in DOMAIN rd.sc : InLex(m, a[1], a[2], a[3], a[4])})))
       [] c = "zlexcount" -> Res(db, RInt(Cardinality({m \in DOMAIN rd.sc : InLex(m, a[1], a[2], a[3], a[4])})))
       [] c = "zadd"   -> \* a = <<score, member>>
            Res(Put([lv EXCEPT !.sc = Upd(lv.sc, a[2], ScoreNorm(a[1]))]), RInt(IF a[2] \in DOMAIN lv.sc THEN 0 ELSE 1))
       [] c = "zadd2"  -> \* a = <<s1, m1, s2, m2>>
            Res(Put([lv EXCEPT !.sc = Upd(Upd(lv.sc, a[2], ScoreNorm(a[1])), a[4], ScoreNorm(a[3]))]), RInt(Cardinality({a[2], a[4]} \ DOMAIN lv.sc)))
       [] c = "zincrby" -> \* a = <<delta, member>>
            LET r == ScoreAdd(IF a[2] \in DOMAIN lv.sc THEN lv.sc[a[2]] ELSE 0, ScoreNorm(a[1]))
            IN IF ~r[2] THEN Res(db, ROut) ELSE Res(Put([lv EXCEPT !.sc = Upd(lv.sc, a[2], r[1])]), RScore(r[1]))
       [] c = "zrem"   -> Rem({a[1]} \cap DOMAIN lv.sc)
       [] c = "zrem2"  -> Rem({a[1], a[2]} \cap DOMAIN lv.sc)
       [] c = "zremrangebyrank" -> LET b == IdxRange(Len(zw), a[1], a[2])
                                   IN Rem({zw[i] : i \in b[1]..b[2]})
       [] c = "zremrangebyscore" -> Rem({m \in DOMAIN lv.sc : InScore(lv.sc[m], a[1], a[2], a[3], a[4])})
       [] c = "zremrangebylex"   -> Rem({m \in DOMAIN lv.sc : InLex(m, a[1], a[2], a[3], a[4])})
       \* repair command (admin): on a healthy sorted set nothing changes
       [] c = "zfixkey"   -> Res(db, ROk)
       [] c = "zclear"    -> DoCollExt(db, "z", "clear", k, a, t, now)
       [] c = "zkeyexist" -> DoCollExt(db, "z", "keyexist", k, a, t, now)
       [] c = "zexpire"   -> DoCollExt(db, "z", "expire", k, a, t, now)
       [] c = "zttl"      -> DoCollExt(db, "z", "ttl", k, a, t, now)
       [] c = "zpersist"  -> DoCollExt(db, "z", "persist", k, a, t, now)

(* Bitmaps.  Offsets: 0 .. 2^32-2; the codes BMAXOFF / BTOOBIG stand for 2^32-2 (the largest) and 2^32-1   *)
(* (refused).  Legacy layout: a key that has no bitmap but holds a string is read as the bits of that string *)
(* (as in Redis, where bitmaps are strings), and the first SETBIT adopts those bits into a new bitmap and    *)
(* removes the string.  BITCOUNT ranges are byte ranges; only non-negative bounds and the end -1 are in the   *)
(* model (negative bounds address the allocated length, which depends on the store's padding policy).       *)
BMAXOFF == 2000000000   BTOOBIG == 2000000001
ByteIx(off) == IF off >= BMAXOFF THEN 500000000 ELSE off \div 8
ByteOfSym(x) == IF x \in 0..9 THEN 48 + x ELSE IF x = MINUS THEN 45 ELSE 0       \* ASCII; symbol 10 is pool dependent
Pow2(n) == CASE n = 0 -> 1 [] n = 1 -> 2 [] n = 2 -> 4 [] n = 3 -> 8 [] n = 4 -> 16 [] n = 5 -> 32 [] n = 6 -> 64 [] n = 7 -> 128
BitsOfStr(v) == {o \in 0..(8 * Len(v) - 1) : (ByteOfSym(v[(o \div 8) + 1]) \div Pow2(7 - (o % 8))) % 2 = 1}
StrHasPoolSym(v) == \E i \in 1..Len(v) : v[i] = 10
\* the bits a reader / writer at tick t sees under key k: <<exists, bits, from the legacy string>>
BitView(db, k, t) ==
  LET b == CLive("b", db.bm[k], t)
      s == KVLive(db.kv[k], t)
  IN IF b.has THEN <<TRUE, b.bits, FALSE>> ELSE IF s.has THEN <<TRUE, BitsOfStr(s.v), TRUE>> ELSE <<FALSE, {}, FALSE>>
DoBit(db, c, k, a, t, now) ==
  LET raw == db.bm[k]
      lv  == CLive("b", raw, t)
      vw  == BitView(db, k, t)
      vr  == BitView(db, k, now)
      InBytes(o, s, e) == ByteIx(o) >= s /\ (e = -1 \/ ByteIx(o) <= e)
  IN CASE c = "getbit"    -> IF a[1] < 0 \/ a[1] = BTOOBIG THEN Res(db, ROut)
                             ELSE IF vr[3] /\ StrHasPoolSym(KVLive(db.kv[k], now).v) THEN Res(db, ROut)
                             ELSE Res(db, RInt(IF a[1] \in vr[2] THEN 1 ELSE 0))
       [] c = "bitcount"  -> IF vr[3] /\ StrHasPoolSym(KVLive(db.kv[k], now).v) THEN Res(db, ROut)
                             ELSE Res(db, RInt(Cardinality(vr[2])))
       [] c = "bitcount2" -> IF a[1] < 0 \/ a[2] < -1 THEN Res(db, ROut)
                             ELSE IF vr[3] /\ StrHasPoolSym(KVLive(db.kv[k], now).v) THEN Res(db, ROut)
                             ELSE Res(db, RInt(Cardinality({o \in vr[2] : InBytes(o, a[1], a[2])})))
       [] c = "setbit"    -> \* a = <<offset, 0 | 1>>
            IF a[1] < 0 \/ a[1] = BTOOBIG \/ a[2] \notin {0, 1} THEN Res(db, RErr)
            ELSE IF vw[3] /\ StrHasPoolSym(KVLive(db.kv[k], t).v) THEN Res(db, ROut)
            ELSE LET nb == IF a[2] = 1 THEN vw[2] \cup {a[1]} ELSE vw[2] \ {a[1]}
                     d1 == PutC(db, "b", k, [lv EXCEPT !.has = TRUE, !.bits = nb])
                 IN Res(IF vw[3] THEN PutKV(d1, k, KVGone(db.kv[k])) ELSE d1, RInt(IF a[1] \in vw[2] THEN 1 ELSE 0))
       [] c = "bitclear"  -> DoCollExt(db, "b", "clear", k, a, t, now)
       [] c = "bkeyexist" -> Res(db, RInt(IF vr[1] THEN 1 ELSE 0))
       [] c = "bexpire"   -> DoCollExt(db, "b", "expire", k, a, t, now)
       [] c = "bttl"      -> DoCollExt(db, "b", "ttl", k, a, t, now)
       [] c = "bpersist"  -> DoCollExt(db, "b", "persist", k, a, t, now)

BCmds == {"getbit", "bitcount", "bitcount2", "setbit", "bitclear", "bkeyexist", "bexpire", "bttl", "bpersist"}
KVCmds == {"get", "strlen", "exists", "exists2", "mget", "getrange", "ttl", "set", "setx", "setex", "setnx",
           "getset", "mset", "incr", "decr", "incrby", "decrby", "append", "setrange", "del", "del2",
           "expire", "persist"}
HCmds  == {"hget", "hmget", "hexists", "hlen", "hgetall", "hkeys", "hvals", "hset", "hsetnx", "hmset", "hdel",
           "hdel2", "hincrby", "hclear", "hkeyexist", "hexpire", "httl", "hpersist"}
LCmds  == {"lfixkey", "llen", "lindex", "lrange", "lpush", "lpush2", "rpush", "rpush2", "lpop", "rpop", "lset", "ltrim",
           "lclear", "lkeyexist", "lexpire", "lttl", "lpersist"}
SCmds  == {"scard", "sismember", "smembers", "srandmember", "sadd", "sadd2", "srem", "srem2", "spop", "spopn",
           "sclear", "skeyexist", "sexpire", "sttl", "spersist"}
ZCmds  == {"zfixkey", "zrangebyscorel", "zrevrangebyscorel", "zrangebylexl", "zcard", "zscore", "zrank", "zrevrank", "zrange", "zrevrange", "zrangebyscore", "zrevrangebyscore",
           "zcount", "zrangebylex", "zlexcount", "zadd", "zadd2", "zincrby", "zrem", "zrem2", "zremrangebyrank",
           "zremrangebyscore", "zremrangebylex", "zclear", "zkeyexist", "zexpire", "zttl", "zpersist"}
ReadCmds == {"get", "strlen", "exists", "exists2", "mget", "getrange", "ttl",
             "hget", "hmget", "hexists", "hlen", "hgetall", "hkeys", "hvals", "hkeyexist", "httl",
             "llen", "lindex", "lrange", "lkeyexist", "lttl",
             "scard", "sismember", "smembers", "srandmember", "skeyexist", "sttl",
             "zcard", "zscore", "zrank", "zrevrank", "zrange", "zrevrange", "zrangebyscore", "zrevrangebyscore",
             "zcount", "zrangebylex", "zlexcount", "zkeyexist", "zttl",
             "getbit", "bitcount", "bitcount2", "bkeyexist", "bttl", "zrangebyscorel", "zrevrangebyscorel", "zrangebylexl"}
ExpiryCmds == {"setx", "setex", "expire", "persist", "ttl", "hexpire", "httl", "hpersist", "lexpire", "lttl",
               "lpersist", "sexpire", "sttl", "spersist", "zexpire", "zttl", "zpersist", "bexpire", "bttl", "bpersist"}

\* Sub-key id OverLong stands for a field/member name longer than the store accepts (10240
\* bytes).  A write command that names it - in any argument position, also after valid ones -
\* answers an error and changes nothing.
OverLong == 9
SubArgs(c) == CASE c.c \in {"hset", "hsetnx", "hdel", "hincrby", "sadd", "srem", "zrem"} -> {c.a[1]}
                [] c.c \in {"hdel2", "sadd2", "srem2", "zrem2"} -> {c.a[1], c.a[2]}
                [] c.c = "hmset" -> {c.a[1], c.a[3]}
                [] c.c \in {"zadd", "zincrby"} -> {c.a[2]}
                [] c.c = "zadd2" -> {c.a[2], c.a[4]}
                [] OTHER -> {}
Do(db, c, t, now) ==
  CASE OverLong \in SubArgs(c) ->
         \* (removing from a collection that does not exist removes nothing, whatever the names)
         IF c.c \in {"hdel", "hdel2", "srem", "srem2", "zrem", "zrem2"}
            /\ LET ty == IF c.c \in HCmds THEN "h" ELSE IF c.c \in SCmds THEN "s" ELSE "z"
               IN CEmpty(ty, CLive(ty, Coll(db, ty, c.k), t))
         THEN Res(db, RInt(0)) ELSE Res(db, RErr)
    [] c.c \in KVCmds -> DoKV(db, c.c, c.k, c.a, t, now)
    [] c.c \in HCmds  -> DoHash(db, c.c, c.k, c.a, t, now)
    [] c.c \in LCmds  -> DoList(db, c.c, c.k, c.a, t, now)
    [] c.c \in SCmds  -> DoSet(db, c.c, c.k, c.a, t, now)
    [] c.c \in ZCmds  -> DoZSet(db, c.c, c.k, c.a, t, now)
    [] c.c \in BCmds  -> DoBit(db, c.c, c.k, c.a, t, now)

Reply(db, c, t, now)  == Do(db, c, t, now).r
Effect(db, c, t, now) == Do(db, c, t, now).db
Cmd(name, k, a) == [c |-> name, k |-> k, a |-> a]

\* the type letter of a command and the keys it names (for KeysIndependent and for the
\* classification of a failing trace line)
TyOf(c) == IF c.c \in KVCmds THEN "k" ELSE IF c.c \in HCmds THEN "h" ELSE IF c.c \in LCmds THEN "l"
           ELSE IF c.c \in SCmds THEN "s" ELSE IF c.c \in BCmds THEN "b" ELSE "z"
KeysOf(c) == CASE c.c \in {"exists2", "mget", "del2"} -> {c.k, c.a[1]}
               [] c.c = "mset" -> {c.k, c.a[2]}
               [] OTHER -> {c.k}
RecOf(db, ty, k) == IF ty = "k" THEN db.kv[k] ELSE Coll(db, ty, k)
\* does expiry play a part in what command c sees or does in state db at t / now ?
ExpiryInvolved(db, c, t, now) ==
  \/ c.c \in ExpiryCmds
  \/ \E k \in KeysOf(c) : RecOf(db, TyOf(c), k).exp # 0 \/ RecOf(db, TyOf(c), k).pend # {}

-----------------------------------------------------------------------------
(* Background work.                                                            *)
(* Local deletion scan at the node's clock tick `now`, as observed: `gone` is  *)
(* the set of <<type letter, key>> that disappeared.  Removing something whose *)
(* given expiry has not passed is the violation (commission); not removing     *)
(* something due is accepted (the documentation promises no timeliness).       *)
Due(r, now) == \E e \in r.pend : e <= now
TyLetters == {"k", "h", "l", "s", "z", "b"}
ScanNotEarly(db, gone, now) == \A g \in gone : Due(RecOf(db, g[1], g[2]), now)
ScanRec(ty, r, isGone, now) ==
  LET cleared == IF ~isGone THEN r ELSE IF ty = "k" THEN KVGone(r) ELSE CGone(ty, r)
  IN [cleared EXCEPT !.pend = {e \in r.pend : e > now}]
ScanEffect(db, gone, now) ==
  [kv |-> [k \in Keys |-> ScanRec("k", db.kv[k], <<"k", k>> \in gone, now)],
   hs |-> [k \in Keys |-> ScanRec("h", db.hs[k], <<"h", k>> \in gone, now)],
   ls |-> [k \in Keys |-> ScanRec("l", db.ls[k], <<"l", k>> \in gone, now)],
   st |-> [k \in Keys |-> ScanRec("s", db.st[k], <<"s", k>> \in gone, now)],
   zs |-> [k \in Keys |-> ScanRec("z", db.zs[k], <<"z", k>> \in gone, now)],
   bm |-> [k \in Keys |-> ScanRec("b", db.bm[k], <<"b", k>> \in gone, now)]]
\* what a complete scan removes
ScanDue(db, now) == {g \in TyLetters \X Keys : Due(RecOf(db, g[1], g[2]), now) /\
                        (IF g[1] = "k" THEN db.kv[g[2]].has ELSE ~CEmpty(g[1], Coll(db, g[1], g[2])))}
(* Compaction under "wc" physically drops what is dead for every clock the     *)
(* system can still present; it is invisible in this model (no action).        *)

-----------------------------------------------------------------------------
(* What a reader sees (used for dumps and for the C09 observations).           *)
ViewKV(db, k, now) == LET r == KVLive(db.kv[k], now) IN IF r.has THEN RBulk(r.v) ELSE RNil
=============================================================================
