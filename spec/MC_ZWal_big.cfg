SPECIFICATION Spec
CONSTANTS
  MaxCalls = 4
  MaxIdx = 3
  MaxTerm = 2
  MaxCut = 1
  WithCrash = FALSE
  Mutant = ""
INVARIANTS SyncPolicy EveryImageReopensWell SegmentTransparent ValidSnapshotsAreCommitted
