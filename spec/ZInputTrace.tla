----------------------------- MODULE ZInputTrace -----------------------------
(* Trace validation for ZInput (property C11).  The harness `inputsim` sends    *)
(* mutated argument vectors of every registered command to a real              *)
(* single-replica server (path "client") and feeds the vectors the leader-side *)
(* checks accepted to real state machines directly (path "apply"), and logs    *)
(* one `cmd` event per vector:                                                 *)
(*   cls      ok | err | noreply | closed                                      *)
(*   pre, dg  digest of the complete raw store content before / after          *)
(*   foreign  changed raw entries that belong to a known key the vector did    *)
(*            not address                                                      *)
(*   rw       r | w | m | mw   (registration table the command name is in)     *)
(*   want     the reply a probe command (valid command on a fresh key, sent     *)
(*            after every erroring vector) must get                            *)
(*   tw, rt   path "apply": digest and reply of the twin state machine that    *)
(*            skips every erroring vector                                      *)
(* `store` holds the digest of the real store.  An event that is not a step    *)
(* of ZInput (ErrReply: store unchanged; OkWrite: only addressed keys change,  *)
(* twin agrees, probe gets its reply; reads change nothing) and every `panic`, *)
(* `died`, `hung` event is printed as <<"MISMATCH", line, expected>>; the rest *)
(* of the segment (up to the next `reset`) is skipped.                         *)
EXTENDS ZInput, Json, IOUtils

VARIABLES l, bad

Trace == ndJsonDeserialize(IOEnv.ZR_TRACE)
E == Trace[l]
tvars == <<ivars, l, bad>>

TInit == /\ store = "" /\ wb = {} /\ up = TRUE
         /\ last = [cls |-> "none", key |-> {}, changed |-> {}]
         /\ l = 1 /\ bad = FALSE

ErrClass(c) == c \in {"err", "noreply", "closed"}
ToSet(s) == {s[i] : i \in 1..Len(s)}

\* what must hold of a logged command event for it to be a step of ZInput
Why ==
  CASE store # "" /\ E.pre # store -> "pre-state is not the post-state of the previous step"
    [] ErrClass(E.cls) /\ ~ErrStepOK(IF E.dg = E.pre THEN {} ELSE {"store"})
         -> "error reply but the store changed"
    [] ErrClass(E.cls) /\ E.probe -> "valid probe command after an erroring command was not executed"
    [] ErrClass(E.cls) /\ E.tw # "" /\ E.tw # E.dg -> "twin (never saw the erroring vector) differs"
    [] E.cls = "ok" /\ E.rw = "r" /\ E.dg # E.pre -> "read command changed the store"
    [] E.cls = "ok" /\ ~OkStepOK(ToSet(E.foreign), {}) -> "a key the command did not address changed"
    [] E.cls = "ok" /\ E.want # "" /\ E.r # E.want -> E.want
    [] E.cls = "ok" /\ E.tw # "" /\ E.tw # E.dg -> "store differs from the twin that skipped the erroring vectors"
    [] E.cls = "ok" /\ E.tw # "" /\ E.rt # E.r -> E.rt
    [] E.cls \notin {"ok", "err", "noreply", "closed"} -> "no such outcome"
    [] OTHER -> ""

TNext ==
  /\ l <= Len(Trace)
  /\ l' = l + 1
  /\ UNCHANGED <<wb, up>>
  /\ IF E.ev = "reset"
     THEN /\ store' = "" /\ bad' = FALSE
          /\ last' = [cls |-> "none", key |-> {}, changed |-> {}]
     ELSE IF bad THEN UNCHANGED <<store, last, bad>>
     ELSE IF E.ev = "cmd" /\ Why = ""
          THEN /\ store' = E.dg /\ UNCHANGED bad
               /\ last' = [cls |-> IF E.cls = "ok" THEN "ok" ELSE "err", key |-> {},
                           changed |-> IF E.cls = "ok" THEN ToSet(E.foreign)
                                       ELSE IF E.dg = E.pre THEN {} ELSE {"store"}]
          ELSE /\ bad' = TRUE
               /\ PrintT(<<"MISMATCH", l, IF E.ev = "cmd" THEN Why ELSE "no action for this event">>)
               /\ UNCHANGED <<store, last>>

TSpec == TInit /\ [][TNext]_tvars

AllConsumed == TLCGet("stats").diameter - 1 = Len(Trace)
=============================================================================
