------------------------------- MODULE ZRoute --------------------------------
(* Routing of keys to partitions (property C15).                               *)
(*                                                                             *)
(* A namespace has P partitions; Part maps every key to the partition the      *)
(* official client SDK computes for it.  Each partition is a small key-value   *)
(* store of its own (one raft group).  A server hosts some of the partitions.  *)
(* A single-key command is executed by the key's partition, or rejected when   *)
(* that partition is not hosted here.  The multi-key commands DEL / EXISTS /   *)
(* MGET / PLSET are split: every key goes to its own partition, the partial    *)
(* results are merged (sum of the counts, values and statuses in argument      *)
(* order).  `ref` is the same history executed on ONE store holding all keys;  *)
(* MergedEqualsSingleStore demands the same replies and the same content.      *)
(* Semantics are Redis': DEL counts the keys it removed (a key mentioned twice *)
(* is removed once), EXISTS counts every mention of an existing key, MGET      *)
(* returns nil for a missing key.                                              *)
EXTENDS Integers, Sequences, FiniteSets

CONSTANTS Keys,        \* key identifiers
          P,           \* number of partitions
          Hosted,      \* partitions (0..P-1) hosted by the server
          Vals,        \* values
          NsOf,        \* [Keys -> namespace]: a multi-key command names keys of ONE namespace
          Refused,     \* keys whose write the owning partition refuses when it applies it (too long, ...)
          RouteMulti,  \* "perkey" (the design) | "firstkey" (mutant: whole command to the first key's partition)
          OwnerShift,  \* 0 (the design) | 1 (mutant: the server computes another partition than the SDK)
          RejectUnhosted \* TRUE (the design) | FALSE (mutant: an unhosted key is served by some hosted partition)

VARIABLES part,    \* [Keys -> 0..P-1]: the SDK's mapping (chosen once, never changes)
          store,   \* [0..P-1 -> [subset of Keys -> Vals]]: content of every partition's store
          ref,     \* [subset of Keys -> Vals]: the single reference store
          reply,   \* reply of the last command (split / merged)
          refReply,\* reply of the same command on the reference store
          touched  \* history: set of <<partition, key>> a command was executed on

rvars == <<part, store, ref, reply, refReply, touched>>

Nil   == -1
Err   == "ERR"
Empty == [k \in {} |-> 0]

Parts == 0..(P - 1)

\* ---- one store (pure) ------------------------------------------------------
Has(d, k)      == k \in DOMAIN d
GetV(d, k)     == IF Has(d, k) THEN d[k] ELSE Nil
PutV(d, k, v)  == [x \in DOMAIN d \cup {k} |-> IF x = k THEN v ELSE d[x]]
DelKs(d, S)    == [x \in DOMAIN d \ S |-> d[x]]
Range(s)       == {s[i] : i \in DOMAIN s}
\* replies of the multi-key commands on one store
DelReply(d, ks)    == Cardinality(Range(ks) \cap DOMAIN d)
ExistsReply(d, ks) == Cardinality({i \in DOMAIN ks : Has(d, ks[i])})
MGetReply(d, ks)   == [i \in DOMAIN ks |-> GetV(d, ks[i])]
RECURSIVE PutAll(_, _, _)
PutAll(d, ks, vs)  == IF ks = <<>> THEN d ELSE PutAll(PutV(d, Head(ks), Head(vs)), Tail(ks), Tail(vs))
OKs(ks)            == [i \in DOMAIN ks |-> "OK"]

\* ---- routing (pure) --------------------------------------------------------
\* the partition the server sends key k to
Owner(k)    == (part[k] + OwnerShift) % P
\* a hosted partition that stands in for an unhosted one (mutant only)
Standin     == CHOOSE p \in Hosted : TRUE
Target(k)   == IF Owner(k) \in Hosted \/ RejectUnhosted THEN Owner(k) ELSE Standin
Served(k)   == Target(k) \in Hosted
\* partition that key number i of a multi-key command is sent to
MultiTarget(ks, i) == IF RouteMulti = "perkey" THEN Target(ks[i]) ELSE Target(ks[1])
OneNs(ks)          == \A i \in DOMAIN ks : NsOf[ks[i]] = NsOf[ks[1]]
\* a multi-key command is served iff all its keys are of one namespace and every partition
\* it needs is hosted; otherwise it is rejected as a whole and nothing changes
MultiServed(ks)    == OneNs(ks) /\ \A i \in DOMAIN ks : MultiTarget(ks, i) \in Hosted
\* sub-sequence of ks that goes to partition p
SubKeys(ks, p) == LET idx == {i \in DOMAIN ks : MultiTarget(ks, i) = p}
                      F[n \in 0..Len(ks)] == IF n = 0 THEN <<>>
                                             ELSE IF n \in idx THEN Append(F[n - 1], ks[n]) ELSE F[n - 1]
                  IN F[Len(ks)]
RECURSIVE Sum(_, _)
Sum(f, S) == IF S = {} THEN 0 ELSE LET x == CHOOSE y \in S : TRUE IN f[x] + Sum(f, S \ {x})

Touch(ks) == touched' = touched \cup {<<MultiTarget(ks, i), ks[i]>> : i \in DOMAIN ks}

RInit ==
  /\ part \in [Keys -> Parts]
  /\ store = [p \in Parts |-> Empty]
  /\ ref = Empty
  /\ reply = 0 /\ refReply = 0
  /\ touched = {}

\* ---- commands --------------------------------------------------------------
Rejected == reply' = Err /\ refReply' = Err /\ UNCHANGED <<part, store, ref, touched>>

Set(k, v) ==
  IF ~Served(k) THEN Rejected
  ELSE /\ store' = [store EXCEPT ![Target(k)] = PutV(@, k, v)]
       /\ ref' = PutV(ref, k, v)
       /\ reply' = "OK" /\ refReply' = "OK"
       /\ touched' = touched \cup {<<Target(k), k>>}
       /\ UNCHANGED part

Get(k) ==
  IF ~Served(k) THEN Rejected
  ELSE /\ reply' = GetV(store[Target(k)], k) /\ refReply' = GetV(ref, k)
       /\ touched' = touched \cup {<<Target(k), k>>}
       /\ UNCHANGED <<part, store, ref>>

Del(ks) ==
  IF ~MultiServed(ks) THEN Rejected
  ELSE /\ reply' = Sum([p \in Parts |-> DelReply(store[p], SubKeys(ks, p))], Parts)
       /\ refReply' = DelReply(ref, ks)
       /\ store' = [p \in Parts |-> DelKs(store[p], Range(SubKeys(ks, p)))]
       /\ ref' = DelKs(ref, Range(ks))
       /\ Touch(ks) /\ UNCHANGED part

Exists(ks) ==
  IF ~MultiServed(ks) THEN Rejected
  ELSE /\ reply' = Sum([p \in Parts |-> ExistsReply(store[p], SubKeys(ks, p))], Parts)
       /\ refReply' = ExistsReply(ref, ks)
       /\ Touch(ks) /\ UNCHANGED <<part, store, ref>>

MGet(ks) ==
  IF ~MultiServed(ks) THEN Rejected
  ELSE /\ reply' = [i \in DOMAIN ks |-> GetV(store[MultiTarget(ks, i)], ks[i])]
       /\ refReply' = MGetReply(ref, ks)
       /\ Touch(ks) /\ UNCHANGED <<part, store, ref>>

\* PLSET with a partition that refuses its share (it holds a refused key): that partition writes
\* nothing, the others write; there is one status per pair IN ARGUMENT ORDER - ERR for the pairs of a
\* refusing partition, OK for the others
Refusing(ks)   == {MultiTarget(ks, i) : i \in {j \in DOMAIN ks : ks[j] \in Refused}}
Statuses(ks)   == [i \in DOMAIN ks |-> IF MultiTarget(ks, i) \in Refusing(ks) THEN "ERR" ELSE "OK"]
RECURSIVE PutSome(_, _, _, _)
PutSome(d, ks, vs, ok) == IF ks = <<>> THEN d
                          ELSE PutSome(IF Head(ok) = "OK" THEN PutV(d, Head(ks), Head(vs)) ELSE d, Tail(ks), Tail(vs), Tail(ok))

PLSet(ks, vs) ==
  IF ~MultiServed(ks) THEN Rejected
  ELSE IF Refusing(ks) # {}
  THEN /\ store' = [p \in Parts |->
                      LET idx == {i \in DOMAIN ks : MultiTarget(ks, i) = p /\ p \notin Refusing(ks)}
                          G[n \in 0..Len(ks)] == IF n = 0 THEN store[p]
                                                 ELSE IF n \in idx THEN PutV(G[n - 1], ks[n], vs[n]) ELSE G[n - 1]
                      IN G[Len(ks)]]
       /\ ref' = PutSome(ref, ks, vs, Statuses(ks))
       /\ reply' = Statuses(ks) /\ refReply' = Statuses(ks)
       /\ Touch(ks) /\ UNCHANGED part
  ELSE /\ store' = [p \in Parts |->
                      LET idx == {i \in DOMAIN ks : MultiTarget(ks, i) = p}
                          G[n \in 0..Len(ks)] == IF n = 0 THEN store[p]
                                                 ELSE IF n \in idx THEN PutV(G[n - 1], ks[n], vs[n]) ELSE G[n - 1]
                      IN G[Len(ks)]]
       /\ ref' = PutAll(ref, ks, vs)
       /\ reply' = OKs(ks) /\ refReply' = OKs(ks)
       /\ Touch(ks) /\ UNCHANGED part

-------------------------------------------------------------------------------
(* Properties.                                                                 *)

\* every reply equals the reply of one store holding all keys, and the partitions
\* together hold exactly what that store holds
Union == [k \in UNION {DOMAIN store[p] : p \in Parts} |->
            store[CHOOSE p \in Parts : k \in DOMAIN store[p]][k]]
MergedEqualsSingleStore ==
  /\ reply = refReply
  /\ Union = ref
  /\ \A p \in Parts, q \in Parts : p # q => DOMAIN store[p] \cap DOMAIN store[q] = {}

\* a key is only ever executed on, and only ever stored in, the partition the SDK computes;
\* nothing is executed by a partition that is not hosted
OnlyOwnerExecutes ==
  /\ \A t \in touched : t[1] = part[t[2]] /\ t[1] \in Hosted
  /\ \A p \in Parts : \A k \in DOMAIN store[p] : part[k] = p
=============================================================================
