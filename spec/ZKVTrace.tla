------------------------------ MODULE ZKVTrace ------------------------------
(* Trace validation for ZKV (deterministic style, like ZEngineTrace).  The      *)
(* ndjson file named by ZR_TRACE was recorded by harness smsim from the real    *)
(* state machine (node.NewStateMachine + ApplyRaftRequest with chosen log       *)
(* timestamps, reads through the store's read API).  Segments start with a      *)
(* "reset" line.  Line kinds:                                                   *)
(*   cmd      one command: name c, key k, int args a, log tick t, reader's      *)
(*            clock tick now, normalised reply r  -> r must equal Reply and     *)
(*            the model moves to Effect                                         *)
(*   obs_k/h/l/s/z   what every counting / enumerating / point-lookup read      *)
(*            command says about one key of one type, at clock tick now ->      *)
(*            (C09) the pure predicate Consistent* must hold on the line        *)
(*            itself, and (C08/C10) it must equal the model's view              *)
(*   scan     one pass of the local-deletion scanner at clock tick now, with    *)
(*            the set of keys that disappeared -> none of them early            *)
(*   compact  one simulated compaction (no effect in the model)                 *)
(*   panic    the code under test panicked (no action: always a mismatch)       *)
(* The first disagreement of a segment is printed as                            *)
(*   "MISMATCH|line|class|expiryInvolved|expected"   (one string, one line)     *)
(* (class: reply | state | counts | early | panic | valtab) and the rest of     *)
(* the segment is skipped; "OUTOFMODEL|line" marks a segment the model          *)
(* cannot follow further (numerals beyond TLC's integers) - not a mismatch.     *)
(* Accepted iff every line was consumed and no MISMATCH was printed.            *)
EXTENDS ZKV, Json, IOUtils

VARIABLES db, l, bad

Trace == ndJsonDeserialize(IOEnv.ZR_TRACE)
E == Trace[l]
tvars == <<db, l, bad>>

TInit == db = InitDB /\ l = 1 /\ bad = FALSE

-----------------------------------------------------------------------------
(* The model's view of one key at clock tick now, in the shape of the obs lines *)
HView(k, now) == LET rd == CLive("h", db.hs[k], now)
                     fs == Sorted(DOMAIN rd.f)
                 IN [i \in 1..Len(fs) |-> <<fs[i], rd.f[fs[i]]>>]
LView(k, now) == CLive("l", db.ls[k], now).q
SView(k, now) == Sorted(CLive("s", db.st[k], now).m)
ZView(k, now) == LET rd == CLive("z", db.zs[k], now) IN PairsOf(rd, ZSeq(rd))
TtlView(ty, k, now) == LET r == RecOf(db, ty, k)
                       IN IF Policy = "wc" /\ r.exp # 0 /\ r.exp > now THEN r.exp - now ELSE -1
ExpInv(ty, k) == RecOf(db, ty, k).exp # 0 \/ RecOf(db, ty, k).pend # {}

Ids(s) == {s[i] : i \in 1..Len(s)}
StrictInc(s) == \A i \in 1..(Len(s) - 1) : s[i] < s[i + 1]
B(x) == IF x THEN 1 ELSE 0

(* C09: the pure predicates.  They talk about the observation line only.        *)
ConsistentH(o) ==
  /\ o.n = Len(o.fv) /\ o.n = Len(o.keys) /\ o.n = Len(o.vals)
  /\ o.keys = [i \in 1..Len(o.fv) |-> o.fv[i][1]]
  /\ o.vals = [i \in 1..Len(o.fv) |-> o.fv[i][2]]
  /\ StrictInc(o.keys)
  /\ o.ex = B(o.n > 0)
  /\ \A i \in 1..Len(o.pt) : LET p == o.pt[i] IN     \* p = <<field, hexists, hget-found, value>>
        /\ p[2] = B(p[1] \in Ids(o.keys)) /\ p[3] = p[2]
        /\ p[3] = 1 => \E j \in 1..Len(o.fv) : o.fv[j][1] = p[1] /\ o.fv[j][2] = p[4]
ConsistentS(o) ==
  /\ o.n = Len(o.mem) /\ StrictInc(o.mem) /\ o.ex = B(o.n > 0)
  /\ \A i \in 1..Len(o.pt) : o.pt[i][2] = B(o.pt[i][1] \in Ids(o.mem))
ConsistentL(o) ==
  /\ o.n = Len(o.all) /\ o.ex = B(o.n > 0)
  /\ \A i \in 1..Len(o.pt) : LET p == o.pt[i]        \* p = <<index, found, value>>
                                 j == Idx1(o.n, p[1])
                             IN /\ p[2] = B(j >= 1 /\ j <= o.n)
                                /\ p[2] = 1 => p[3] = o.all[j]
ConsistentZ(o) ==
  LET ms == [i \in 1..Len(o.rng) |-> o.rng[i][1]]
  IN /\ o.n = Len(o.rng) /\ o.n = Len(o.rev) /\ o.n = Len(o.bys) /\ o.n = Len(o.lex)
     /\ o.n = o.cnt /\ o.n = o.lcnt /\ o.ex = B(o.n > 0)
     /\ o.rev = Rev(o.rng) /\ o.bys = o.rng
     /\ Cardinality(Ids(ms)) = Len(ms)
     /\ \A i \in 1..(Len(o.rng) - 1) : \/ Ord(o.rng[i][2]) < Ord(o.rng[i + 1][2])
                                       \/ (Ord(o.rng[i][2]) = Ord(o.rng[i + 1][2]) /\ o.rng[i][1] < o.rng[i + 1][1])
     /\ o.lex = Sorted(Ids(ms))
     /\ \A i \in 1..Len(o.pt) : LET p == o.pt[i] IN  \* p = <<member, found, score, rank, revrank>>
           /\ p[2] = B(p[1] \in Ids(ms))
           /\ p[2] = 1 => \E j \in 1..Len(o.rng) : /\ o.rng[j] = <<p[1], p[3]>>
                                                   /\ p[4] = j - 1 /\ p[5] = o.n - j
           /\ p[2] = 0 => (p[4] = -1 /\ p[5] = -1)

ObsPure == CASE E.ev = "obs_h" -> ConsistentH(E) [] E.ev = "obs_s" -> ConsistentS(E)
             [] E.ev = "obs_l" -> ConsistentL(E) [] E.ev = "obs_z" -> ConsistentZ(E)
             [] OTHER -> TRUE
ObsModel ==
  CASE E.ev = "obs_k" -> LET rd == KVLive(db.kv[E.k], E.now)
                         IN /\ E.get = (IF rd.has THEN RBulk(rd.v) ELSE RNil)
                            /\ E.ex = B(rd.has) /\ E.len = Len(rd.v)
                            /\ E.ttl = (IF rd.has THEN TtlView("k", E.k, E.now) ELSE -1)
    [] E.ev = "obs_h" -> E.fv = HView(E.k, E.now) /\ E.ttl = (IF HView(E.k, E.now) # <<>> THEN TtlView("h", E.k, E.now) ELSE -1)
    [] E.ev = "obs_l" -> E.all = LView(E.k, E.now) /\ E.ttl = (IF LView(E.k, E.now) # <<>> THEN TtlView("l", E.k, E.now) ELSE -1)
    [] E.ev = "obs_s" -> E.mem = SView(E.k, E.now) /\ E.ttl = (IF SView(E.k, E.now) # <<>> THEN TtlView("s", E.k, E.now) ELSE -1)
    [] E.ev = "obs_z" -> E.rng = ZView(E.k, E.now) /\ E.ttl = (IF ZView(E.k, E.now) # <<>> THEN TtlView("z", E.k, E.now) ELSE -1)
    [] E.ev = "obs_b" -> \* bits: <<offset, GETBIT>> for every pool offset; cnt = BITCOUNT; ex = BKEYEXIST; ttl = BTTL
         LET v == BitView(db, E.k, E.now)
         IN \/ (v[3] /\ StrHasPoolSym(KVLive(db.kv[E.k], E.now).v))      \* legacy string with a pool-dependent byte: not modelled
            \/ /\ E.ex = B(v[1]) /\ E.cnt = Cardinality(v[2])
               /\ \A i \in 1..Len(E.bits) : E.bits[i][2] = B(E.bits[i][1] \in v[2])
               /\ E.ttl = (IF CLive("b", db.bm[E.k], E.now).has THEN TtlView("b", E.k, E.now) ELSE -1)
ObsExpected ==
  CASE E.ev = "obs_k" -> <<ViewKV(db, E.k, E.now), TtlView("k", E.k, E.now)>>
    [] E.ev = "obs_h" -> <<HView(E.k, E.now), TtlView("h", E.k, E.now)>>
    [] E.ev = "obs_l" -> <<LView(E.k, E.now), TtlView("l", E.k, E.now)>>
    [] E.ev = "obs_s" -> <<SView(E.k, E.now), TtlView("s", E.k, E.now)>>
    [] E.ev = "obs_z" -> <<ZView(E.k, E.now), TtlView("z", E.k, E.now)>>
    [] E.ev = "obs_b" -> <<BitView(db, E.k, E.now), TtlView("b", E.k, E.now)>>
ObsTy == CASE E.ev = "obs_k" -> "k" [] E.ev = "obs_h" -> "h" [] E.ev = "obs_l" -> "l"
           [] E.ev = "obs_s" -> "s" [] E.ev = "obs_z" -> "z" [] E.ev = "obs_b" -> "b"
IsObs == E.ev \in {"obs_k", "obs_h", "obs_l", "obs_s", "obs_z", "obs_b"}

-----------------------------------------------------------------------------
Mismatch(class, expinv, expected) ==
  /\ PrintT("MISMATCH|" \o ToString(l) \o "|" \o class \o "|" \o ToString(expinv) \o "|" \o ToString(expected))
  /\ bad' = TRUE /\ UNCHANGED db
Skip == UNCHANGED <<db, bad>>
Gone == {<<E.gone[i][1], E.gone[i][2]>> : i \in 1..Len(E.gone)}

TNext ==
  /\ l <= Len(Trace)
  /\ l' = l + 1
  /\ IF E.ev = "reset" THEN
        IF E.vals = ValTab THEN db' = InitDB /\ bad' = FALSE
        ELSE db' = InitDB /\ bad' = TRUE /\ PrintT("MISMATCH|" \o ToString(l) \o "|valtab|FALSE|" \o ToString(ValTab))
     ELSE IF bad THEN Skip
     ELSE IF E.ev = "cmd" THEN
        LET c == Cmd(E.c, E.k, E.a)
            d == Do(db, c, E.t, E.now)
        IN IF d.r = ROut THEN PrintT("OUTOFMODEL|" \o ToString(l)) /\ bad' = TRUE /\ UNCHANGED db
           ELSE IF E.r = d.r THEN db' = d.db /\ UNCHANGED bad
           ELSE Mismatch("reply", ExpiryInvolved(db, c, E.t, E.now), d.r)
     ELSE IF IsObs THEN
        IF ~ObsPure THEN Mismatch("counts", ExpInv(ObsTy, E.k), ObsExpected)
        ELSE IF ~ObsModel THEN Mismatch("state", ExpInv(ObsTy, E.k), ObsExpected)
        ELSE Skip
     ELSE IF E.ev = "scan" THEN
        IF ScanNotEarly(db, Gone, E.now) THEN db' = ScanEffect(db, Gone, E.now) /\ UNCHANGED bad
        ELSE Mismatch("early", TRUE, {g \in Gone : ~Due(RecOf(db, g[1], g[2]), E.now)})
     ELSE IF E.ev = "compact" THEN Skip
     ELSE Mismatch("panic", FALSE, E.ev)

TSpec == TInit /\ [][TNext]_tvars

\* every line consumed: one state per line plus the initial state
AllConsumed == TLCGet("stats").diameter - 1 = Len(Trace)
=============================================================================
