-------------------------------- MODULE ZCkpt --------------------------------
(* Checkpoints of a ZanRedisDB store (property C14).                           *)
(*                                                                             *)
(* There is one replicated log; entry k is the k-th write (every entry is a    *)
(* distinct, non-idempotent write) and log[k] is its raft term.  A store's     *)
(* data are a function of the index it has applied: the effect of              *)
(* log[1..applied[s]].  A checkpoint named (term, idx) holds an image, itself  *)
(* an index.  It is taken by the apply loop at index idx in three steps that   *)
(* belong to three goroutines                                                  *)
(*   BackupBegin   the apply loop asks for a backup and blocks                 *)
(*                 (node/state_machine.go GetSnapshot -> rockredis Backup),    *)
(*   BackupCut     the engine fixes the view that goes into the checkpoint     *)
(*                 (mem: the iterator; pebble/rocksdb: inside Checkpoint()),   *)
(*   BackupNotify  the apply loop is released (BackupInfo.started closed)      *)
(* and a fourth, BackupDone, when the directory is complete and recorded.      *)
(* The design needs Cut before Notify (CutBeforeNotify): the mem engine does   *)
(* it by program order, pebble and rocksdb release the apply loop from a 20 ms *)
(* timer - an assumption of the code that MC_ZCkpt_nocut shows to be           *)
(* necessary.                                                                  *)
(*                                                                             *)
(* Restore(s, c) makes the store's data the image of a checkpoint in its       *)
(* backup directory (same node after further writes; another node after Fetch  *)
(* copied the directory); the store then re-applies the log from there, as a   *)
(* restarted node or a follower that installed a snapshot does.  Purge removes *)
(* checkpoints; the design allows it only below the latest recorded raft       *)
(* snapshot index.                                                             *)
EXTENDS Integers, Sequences, FiniteSets

CONSTANTS Stores,            \* store ids
          CutBeforeNotify,   \* TRUE: the engine's cut precedes the release of the apply loop
          PurgeBelowSnapOnly,\* TRUE: purge only removes checkpoints below the recorded snapshot
          RestoreCopies,     \* TRUE: restore copies out of the checkpoint (FALSE: moves files)
          SharedFilesSafe    \* TRUE: later writes never alter files shared with a checkpoint

VARIABLES log,       \* Seq(Nat)              term of every entry of the replicated log
          applied,   \* [Stores -> Nat]       index the store has applied = its data
          ckpts,     \* [Stores -> SUBSET Ckpt] checkpoints in the store's backup directory
          flight,    \* [Stores -> in-flight backup record]
          snapIdx,   \* [Stores -> Nat]       latest recorded raft snapshot index
          born,      \* history: name -> image the checkpoint had when it was completed
          gone       \* history: set of [s, t, i, snap] - checkpoints that disappeared

cvars == <<log, applied, ckpts, flight, snapIdx, born, gone>>

NoNames     == [n \in {} |-> 0]
Name(t, i)  == <<t, i>>
NameOf(c)   == <<c.t, c.i>>
Idle        == [ph |-> "idle", t |-> 0, i |-> 0, img |-> 0, notified |-> FALSE]
Busy(s)     == flight[s].ph # "idle"
ApplyLoopRuns(s) == flight[s].ph = "idle" \/ flight[s].notified

Lookup(s, t, i) == CHOOSE c \in ckpts[s] : c.t = t /\ c.i = i
Has(s, t, i)    == \E c \in ckpts[s] : c.t = t /\ c.i = i
Put(f, k, v)    == [x \in DOMAIN f \cup {k} |-> IF x = k THEN v ELSE f[x]]

CInit ==
  /\ log     = <<>>
  /\ applied = [s \in Stores |-> 0]
  /\ ckpts   = [s \in Stores |-> {}]
  /\ flight  = [s \in Stores |-> Idle]
  /\ snapIdx = [s \in Stores |-> 0]
  /\ born    = NoNames
  /\ gone    = {}

-------------------------------------------------------------------------------
(* the apply loop applies the next entry: one that is in the log already       *)
(* (replay after a restore, a follower catching up) or a new one of term t     *)
Apply(s, t) ==
  /\ ApplyLoopRuns(s)
  /\ IF applied[s] < Len(log)
     THEN t = log[applied[s] + 1] /\ UNCHANGED log
     ELSE (IF Len(log) = 0 THEN TRUE ELSE t >= log[Len(log)]) /\ log' = Append(log, t)
  /\ applied' = [applied EXCEPT ![s] = @ + 1]
  /\ IF SharedFilesSafe
     THEN UNCHANGED ckpts
     ELSE \* (mutant) the write goes into files the store shares with the checkpoints
          \* that hold exactly its current data
          ckpts' = [ckpts EXCEPT ![s] = {IF c.img = applied[s] THEN [c EXCEPT !.img = @ + 1] ELSE c : c \in @}]
  /\ UNCHANGED <<flight, snapIdx, born, gone>>

\* a step that must not change the data (flush / compaction of the engine)
Compact(s) == ApplyLoopRuns(s) /\ UNCHANGED cvars

BackupBegin(s) ==
  /\ ~Busy(s)
  /\ applied[s] > 0
  /\ flight' = [flight EXCEPT ![s] = [ph |-> "begun", t |-> log[applied[s]], i |-> applied[s],
                                      img |-> 0, notified |-> FALSE]]
  /\ UNCHANGED <<log, applied, ckpts, snapIdx, born, gone>>

CutFlight(s) == [flight[s] EXCEPT !.ph = "cut", !.img = applied[s]]

BackupCut(s) ==
  /\ flight[s].ph = "begun"
  /\ flight' = [flight EXCEPT ![s] = CutFlight(s)]
  /\ UNCHANGED <<log, applied, ckpts, snapIdx, born, gone>>

BackupNotify(s) ==
  /\ Busy(s) /\ ~flight[s].notified
  /\ CutBeforeNotify => flight[s].ph = "cut"
  /\ flight' = [flight EXCEPT ![s].notified = TRUE]
  /\ UNCHANGED <<log, applied, ckpts, snapIdx, born, gone>>

\* the directory is complete; an older directory of the same name is replaced
BackupDone(s) ==
  /\ flight[s].ph = "cut"
  /\ LET f == flight[s]
         c == [t |-> f.t, i |-> f.i, img |-> f.img]
     IN /\ ckpts' = [ckpts EXCEPT ![s] = {x \in @ : NameOf(x) # NameOf(c)} \cup {c}]
        /\ born'  = Put(born, NameOf(c), f.img)
  /\ flight' = [flight EXCEPT ![s] = Idle]
  /\ UNCHANGED <<log, applied, snapIdx, gone>>

\* a raft snapshot whose data is checkpoint (t, i) has been recorded (snap file + WAL marker)
RecordSnap(s, t, i) ==
  /\ Has(s, t, i) /\ i >= snapIdx[s]
  /\ snapIdx' = [snapIdx EXCEPT ![s] = i]
  /\ UNCHANGED <<log, applied, ckpts, flight, born, gone>>

Purgeable(s, c) == PurgeBelowSnapOnly => c.i < snapIdx[s]

Lose(s, V) == gone' = gone \cup {[s |-> s, t |-> c.t, i |-> c.i, snap |-> snapIdx[s]] : c \in V}

Purge(s, V) ==
  /\ ~Busy(s)
  /\ V # {} /\ V \subseteq ckpts[s]
  /\ \A c \in V : Purgeable(s, c)
  /\ ckpts' = [ckpts EXCEPT ![s] = @ \ V]
  /\ Lose(s, V)
  /\ UNCHANGED <<log, applied, flight, snapIdx, born>>

\* the store's data become the checkpoint's image
Restore(s, t, i) ==
  /\ ~Busy(s)
  /\ Has(s, t, i)
  /\ LET c == Lookup(s, t, i)
     IN /\ applied' = [applied EXCEPT ![s] = c.img]
        /\ IF RestoreCopies
           THEN UNCHANGED <<ckpts, gone>>
           ELSE ckpts' = [ckpts EXCEPT ![s] = @ \ {c}] /\ Lose(s, {c})
  /\ UNCHANGED <<log, flight, snapIdx, born>>

\* store `to` copies checkpoint (t, i) out of store `from`'s backup directory
Fetch(from, to, t, i) ==
  /\ from # to /\ ~Busy(to) /\ ~Busy(from)
  /\ Has(from, t, i)
  /\ LET c == Lookup(from, t, i)
     IN ckpts' = [ckpts EXCEPT ![to] = {x \in @ : NameOf(x) # NameOf(c)} \cup {c}]
  /\ UNCHANGED <<log, applied, flight, snapIdx, born, gone>>

-------------------------------------------------------------------------------
(* Properties.                                                                 *)

\* the image of every checkpoint is the data as of the index in its name: what
\* Restore hands back is exactly the effect of log[1..i]
CheckpointExact ==
  \A s \in Stores : \A c \in ckpts[s] :
     c.img = c.i /\ c.i \in 1..Len(log) /\ c.t = log[c.i]

\* nothing (restore, later writes through shared files, another backup) changes a
\* completed checkpoint
CheckpointImmutable ==
  \A s \in Stores : \A c \in ckpts[s] :
     NameOf(c) \in DOMAIN born /\ c.img = born[NameOf(c)]

\* a checkpoint at or above the latest recorded snapshot index never disappears
PurgeKeepsRestorable == \A g \in gone : g.i < g.snap

\* hence the recorded snapshot can always be restored
SnapRestorable ==
  \A s \in Stores : snapIdx[s] > 0 => \E c \in ckpts[s] : c.i >= snapIdx[s]
=============================================================================
