-------------------------------- MODULE ZCkpt --------------------------------
(* Checkpoints of a ZanRedisDB store (property C14).                           *)
(*                                                                             *)
(* A store's content is the log prefix it has applied: a sequence of entry     *)
(* ids (every entry is a distinct, non-idempotent write), so its length is the *)
(* applied log index.  A checkpoint (term, idx) |-> image is taken by the      *)
(* apply loop at index idx in three steps that belong to three goroutines      *)
(*   BackupBegin   the apply loop asks for a backup and blocks                 *)
(*                 (node/state_machine.go GetSnapshot -> rockredis Backup),    *)
(*   BackupCut     the engine fixes the view that goes into the checkpoint     *)
(*                 (mem: the iterator; pebble/rocksdb: inside Checkpoint()),   *)
(*   BackupNotify  the apply loop is released (BackupInfo.started closed)      *)
(* and a fourth, BackupDone, when the directory is complete and recorded.      *)
(* The design needs Cut before Notify (CutBeforeNotify): the mem engine does   *)
(* it by program order, pebble and rocksdb release the apply loop from a 20 ms *)
(* timer - an assumption of the code that MC_ZCkpt_nocut shows to be           *)
(* necessary.                                                                  *)
(*                                                                             *)
(* Restore(s, c) replaces the store's content by the image of a checkpoint in  *)
(* the store's backup directory (same node after further writes; another node  *)
(* after Fetch copied the directory).  Purge removes checkpoints; the design   *)
(* allows it only below the latest recorded raft snapshot index.               *)
EXTENDS Integers, Sequences, FiniteSets

CONSTANTS Stores,            \* store ids (1 = the node that writes first, others fetch)
          CutBeforeNotify,   \* TRUE: the engine's cut precedes the release of the apply loop
          PurgeBelowSnapOnly,\* TRUE: purge only removes checkpoints below the recorded snapshot
          RestoreCopies,     \* TRUE: restore copies out of the checkpoint (FALSE: moves files)
          SharedFilesSafe    \* TRUE: later writes never alter files shared with a checkpoint

VARIABLES content,   \* [Stores -> Seq(Nat)]  applied log prefix = data of the store
          term,      \* [Stores -> Nat]       raft term the store currently applies in
          gterm,     \* Nat                   highest term handed out
          nextId,    \* Nat                   next fresh entry id
          ckpts,     \* [Stores -> SUBSET Ckpt] checkpoints in the store's backup directory
          flight,    \* [Stores -> in-flight backup record]
          snapIdx,   \* [Stores -> Nat]       latest recorded raft snapshot index
          born,      \* history: name -> image the checkpoint had when it was completed
          asOf,      \* history: name -> store content when the backup was requested
          gone       \* history: set of [s, t, i, snap] - checkpoints that disappeared

cvars == <<content, term, gterm, nextId, ckpts, flight, snapIdx, born, asOf, gone>>

Max(S)      == CHOOSE x \in S : \A y \in S : y <= x
NoNames     == [n \in {} |-> <<>>]
Name(t, i)  == <<t, i>>
NameOf(c)   == <<c.t, c.i>>
Idle        == [ph |-> "idle", t |-> 0, i |-> 0, img |-> <<>>, notified |-> FALSE]
Busy(s)     == flight[s].ph # "idle"
ApplyLoopRuns(s) == flight[s].ph = "idle" \/ flight[s].notified

Lookup(s, t, i) == CHOOSE c \in ckpts[s] : c.t = t /\ c.i = i
Has(s, t, i)    == \E c \in ckpts[s] : c.t = t /\ c.i = i

CInit ==
  /\ content = [s \in Stores |-> <<>>]
  /\ term    = [s \in Stores |-> s]      \* distinct terms: a name identifies one log prefix
  /\ gterm   = Max(Stores)
  /\ nextId  = 1
  /\ ckpts   = [s \in Stores |-> {}]
  /\ flight  = [s \in Stores |-> Idle]
  /\ snapIdx = [s \in Stores |-> 0]
  /\ born    = NoNames
  /\ asOf    = NoNames
  /\ gone    = {}

-------------------------------------------------------------------------------
(* the apply loop applies one more entry (a fresh one, or - after a restore -  *)
(* a replayed one: the trace specification passes the id)                      *)
WriteId(s, id) ==
  /\ ApplyLoopRuns(s)
  /\ content' = [content EXCEPT ![s] = Append(@, id)]
  /\ nextId'  = IF id >= nextId THEN id + 1 ELSE nextId
  /\ IF SharedFilesSafe
     THEN UNCHANGED ckpts
     ELSE \* (mutant) the write goes into files the store shares with the checkpoints
          \* that hold exactly its current data
          ckpts' = [ckpts EXCEPT ![s] = {IF c.img = content[s] THEN [c EXCEPT !.img = Append(@, id)] ELSE c : c \in @}]
  /\ UNCHANGED <<term, gterm, flight, snapIdx, born, asOf, gone>>

Write(s) == WriteId(s, nextId)

\* a step that must not change the data (flush / compaction of the engine)
Compact(s) == ApplyLoopRuns(s) /\ UNCHANGED cvars

Put(f, k, v) == [x \in DOMAIN f \cup {k} |-> IF x = k THEN v ELSE f[x]]

BackupBegin(s) ==
  /\ ~Busy(s)
  /\ Len(content[s]) > 0
  /\ flight' = [flight EXCEPT ![s] = [ph |-> "begun", t |-> term[s], i |-> Len(content[s]),
                                      img |-> <<>>, notified |-> FALSE]]
  /\ asOf'   = Put(asOf, Name(term[s], Len(content[s])), content[s])
  /\ UNCHANGED <<content, term, gterm, nextId, ckpts, snapIdx, born, gone>>

BackupCut(s) ==
  /\ flight[s].ph = "begun"
  /\ flight' = [flight EXCEPT ![s].ph = "cut", ![s].img = content[s]]
  /\ UNCHANGED <<content, term, gterm, nextId, ckpts, snapIdx, born, asOf, gone>>

BackupNotify(s) ==
  /\ Busy(s) /\ ~flight[s].notified
  /\ CutBeforeNotify => flight[s].ph = "cut"
  /\ flight' = [flight EXCEPT ![s].notified = TRUE]
  /\ UNCHANGED <<content, term, gterm, nextId, ckpts, snapIdx, born, asOf, gone>>

\* the directory is complete; an older directory of the same name is replaced
BackupDone(s) ==
  /\ flight[s].ph = "cut"
  /\ LET f == flight[s]
         c == [t |-> f.t, i |-> f.i, img |-> f.img]
     IN /\ ckpts' = [ckpts EXCEPT ![s] = {x \in @ : NameOf(x) # NameOf(c)} \cup {c}]
        /\ born'  = Put(born, NameOf(c), f.img)
  /\ flight' = [flight EXCEPT ![s] = Idle]
  /\ UNCHANGED <<content, term, gterm, nextId, snapIdx, asOf, gone>>

\* a raft snapshot whose data is checkpoint c has been recorded (snap file + WAL marker)
RecordSnap(s, t, i) ==
  /\ Has(s, t, i) /\ i >= snapIdx[s]
  /\ snapIdx' = [snapIdx EXCEPT ![s] = i]
  /\ UNCHANGED <<content, term, gterm, nextId, ckpts, flight, born, asOf, gone>>

Purgeable(s, c) == PurgeBelowSnapOnly => c.i < snapIdx[s]

Lose(s, V) == gone' = gone \cup {[s |-> s, t |-> c.t, i |-> c.i, snap |-> snapIdx[s]] : c \in V}

Purge(s, V) ==
  /\ ~Busy(s)
  /\ V # {} /\ V \subseteq ckpts[s]
  /\ \A c \in V : Purgeable(s, c)
  /\ ckpts' = [ckpts EXCEPT ![s] = @ \ V]
  /\ Lose(s, V)
  /\ UNCHANGED <<content, term, gterm, nextId, flight, snapIdx, born, asOf>>

\* the store's data become the checkpoint's image; the store continues in a new term
Restore(s, t, i) ==
  /\ ~Busy(s)
  /\ Has(s, t, i)
  /\ LET c == Lookup(s, t, i)
     IN /\ content' = [content EXCEPT ![s] = c.img]
        /\ IF RestoreCopies
           THEN UNCHANGED <<ckpts, gone>>
           ELSE ckpts' = [ckpts EXCEPT ![s] = @ \ {c}] /\ Lose(s, {c})
  /\ gterm' = gterm + 1
  /\ term'  = [term EXCEPT ![s] = gterm + 1]
  /\ UNCHANGED <<nextId, flight, snapIdx, born, asOf>>

\* store `to` copies checkpoint (t, i) out of store `from`'s backup directory
Fetch(from, to, t, i) ==
  /\ from # to /\ ~Busy(to) /\ ~Busy(from)
  /\ Has(from, t, i)
  /\ LET c == Lookup(from, t, i)
     IN ckpts' = [ckpts EXCEPT ![to] = {x \in @ : NameOf(x) # NameOf(c)} \cup {c}]
  /\ UNCHANGED <<content, term, gterm, nextId, flight, snapIdx, born, asOf, gone>>

-------------------------------------------------------------------------------
(* Properties.                                                                 *)

\* the image of every checkpoint is the store's data as of the index in its name:
\* what Restore hands back is exactly the log prefix of length i
CheckpointExact ==
  \A s \in Stores : \A c \in ckpts[s] :
     /\ NameOf(c) \in DOMAIN asOf
     /\ c.img = asOf[NameOf(c)]
     /\ Len(c.img) = c.i

\* nothing (restore, later writes through shared files, another backup) changes a
\* completed checkpoint
CheckpointImmutable ==
  \A s \in Stores : \A c \in ckpts[s] :
     NameOf(c) \in DOMAIN born /\ c.img = born[NameOf(c)]

\* a checkpoint at or above the latest recorded snapshot index never disappears
PurgeKeepsRestorable == \A g \in gone : g.i < g.snap

\* hence the recorded snapshot can always be restored
SnapRestorable ==
  \A s \in Stores : snapIdx[s] > 0 => \E c \in ckpts[s] : c.i >= snapIdx[s]
=============================================================================
