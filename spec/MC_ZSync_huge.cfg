SPECIFICATION Spec
CONSTANTS
  N = 5
  Term <- TermFn
  RecvFilter = TRUE
  ApplyFilter = "le"
  SyncedAfter = TRUE
  SnapHasSynced = TRUE
  MaxLog = 8
  MaxRestart = 2
INVARIANTS RemoteExactlyOnce SyncedAfterEffect SyncedExact SyncedMonotone SyncedSurvivesRestart
