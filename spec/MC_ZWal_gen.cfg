SPECIFICATION Spec
CONSTANTS
  MaxCalls = 9
  MaxIdx = 9
  MaxTerm = 3
  MaxCut = 3
  WithCrash = FALSE
  Mutant = ""
