----------------------------- MODULE MC_ZEngine -----------------------------
(* Bounded instance of ZEngine whose complete state graph is dumped and        *)
(* walked edge by edge on the real engines ("one implementation test per       *)
(* transition").                                                               *)
EXTENDS ZEngine, TLC

CONSTANTS Storable,     \* positions that may hold data in this instance
          PutVals,      \* values written by Put
          MergeDeltas,  \* deltas of counter merges
          MaxVal,       \* cap on stored values
          MaxBatch,     \* cap on the length of the open batch
          Indep         \* TRUE: leave out batches in which an operation depends on an
                        \* earlier operation of the same batch (known finding
                        \* mem-batch-order: the radix memory engine's batch does not
                        \* see its own earlier operations; kept out of the general
                        \* corpus of that engine, see DESIGN.md "avoid and isolate")

\* delete-range intervals used in the bounded instance (lo, hi as positions)
Ranges == {<<2, 4>>, <<2, 6>>, <<3, 7>>, <<1, 7>>}

Init == data = Empty /\ batch = <<>>

Touches(o, k) == IF o.op = "delrange" THEN k >= o.k /\ k < o.v ELSE o.k = k
\* kind of the last operation of the batch that touches k ("" if none)
LastOn(k) == LET idx == {i \in 1..Len(batch) : Touches(batch[i], k)}
             IN IF idx = {} THEN "" ELSE batch[CHOOSE i \in idx : \A j \in idx : j <= i].op
DepMerge(k)        == LastOn(k) \in {"del", "delrange"}
DepDelRange(lo, hi) == \E k \in Pos : k >= lo /\ k < hi /\ LastOn(k) \in {"put", "merge"}

Put(k, v)        == Len(batch) < MaxBatch /\ BPut(k, v)
Del(k)           == Len(batch) < MaxBatch /\ BDel(k)
DelRange(lo, hi) == /\ Len(batch) < MaxBatch
                    /\ (Indep => ~DepDelRange(lo, hi))
                    /\ BDelRange(lo, hi)
Merge(k, d)      == /\ Len(batch) < MaxBatch
                    /\ (Indep => ~DepMerge(k))
                    /\ LET cur == ApplyBatch(data, batch)
                       IN (IF k \in DOMAIN cur THEN cur[k] ELSE 0) + d <= MaxVal
                    /\ BMerge(k, d)
DoCommit         == batch # <<>> /\ Commit
DoClear          == batch # <<>> /\ Clear

Next == \/ \E k \in Storable, v \in PutVals : Put(k, v)
        \/ \E k \in Storable : Del(k)
        \/ \E r \in Ranges : DelRange(r[1], r[2])
        \/ \E k \in Storable, d \in MergeDeltas : Merge(k, d)
        \/ DoCommit
        \/ DoClear

Spec == Init /\ [][Next]_evars
=============================================================================
