SPECIFICATION Spec
CONSTANTS
  N = 6
  Term <- TermFn
  RecvFilter = TRUE
  ApplyFilter = "le"
  SyncedAfter = TRUE
  SnapHasSynced = TRUE
  Pipelined = FALSE
  MaxInstall = 1
  MaxLog = 14
  MaxRestart = 2
INVARIANTS RemoteExactlyOnce SyncedAfterEffect SyncedExact SyncedMonotone SyncedSurvivesRestart
