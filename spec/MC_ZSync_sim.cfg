SPECIFICATION Spec
CONSTANTS
  N = 6
  Term <- TermFn
  RecvFilter = TRUE
  ApplyFilter = "le"
  SyncedAfter = TRUE
  SnapHasSynced = TRUE
  MaxLog = 14
  MaxRestart = 2
INVARIANTS RemoteExactlyOnce SyncedAfterEffect SyncedExact SyncedMonotone SyncedSurvivesRestart
