SPECIFICATION TSpec
POSTCONDITION AllConsumed
CHECK_DEADLOCK FALSE
