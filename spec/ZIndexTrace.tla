------------------------------ MODULE ZIndexTrace ------------------------------
(* Trace validation for ZIndex (harness idxsim: real state machine, index DDL    *)
(* through schema-change proposals, real HsetIndexSearch).                       *)
(* Events: reset | w t k v | ddl t op ("ready" | "drop") err |                    *)
(*         q t lo il hi ih res err                                               *)
(* res = primary keys as key positions; a key of another table or an unknown     *)
(* name is -1.                                                                   *)
EXTENDS ZIndex, Json, IOUtils, TLC

VARIABLES l, bad

Trace == ndJsonDeserialize(IOEnv.ZR_TRACE)
E == Trace[l]
tvars == <<val, idx, l, bad>>

TInit == XInit /\ l = 1 /\ bad = FALSE

Expected == IF E.ev = "q" THEN <<"search", Search(E.t, E.lo, E.il, E.hi, E.ih), "index", idx[E.t]>> ELSE <<E.ev>>
Mismatch == bad' = TRUE /\ PrintT(<<"MISMATCH", l, Expected>>) /\ UNCHANGED xvars

TNext ==
  /\ l <= Len(Trace)
  /\ l' = l + 1
  /\ IF E.ev = "reset" THEN val' = [t \in Tabs |-> [k \in Keys |-> 0]] /\ idx' = [t \in Tabs |-> "none"] /\ bad' = FALSE
     ELSE IF bad THEN UNCHANGED <<val, idx, bad>>
     ELSE CASE E.ev = "w"   -> IF E.err = "" THEN Write(E.t, E.k, E.v) /\ UNCHANGED bad ELSE Mismatch
            [] E.ev = "ddl" -> IF E.err # "" THEN Mismatch
                               ELSE IF E.op = "ready" THEN MakeReady(E.t) /\ UNCHANGED bad
                               ELSE Drop(E.t) /\ UNCHANGED bad
            [] E.ev = "q"   -> IF idx[E.t] = "ready" /\ E.err = "" /\ E.res = Search(E.t, E.lo, E.il, E.hi, E.ih)
                               THEN UNCHANGED <<val, idx, bad>> ELSE Mismatch
            [] OTHER        -> Mismatch

TSpec == TInit /\ [][TNext]_tvars
AllConsumed == TLCGet("stats").diameter - 1 = Len(Trace)
=============================================================================
