------------------------------ MODULE ZDetTrace ------------------------------
(* Trace validation for ZDet (property C07).  The harness `detsim` applies one *)
(* committed log to fresh real state machines under many execution conditions  *)
(* and records per run the reply of every log position and a full dump of the  *)
(* store.  The specification's observation maps `reply` and `dump` are         *)
(* write-once across the runs of one log (ZDet!Trigger): the first run that    *)
(* produces a different reply for the same log position, a different value for *)
(* the same dump key or a different number of dump keys is printed as          *)
(*    <<"MISMATCH", line, expected>>                                           *)
(* and the rest of that run is skipped (after the first deviation everything   *)
(* downstream differs); validation goes on with the next run.  A reply event   *)
(* whose field kd is not empty (DEL on a HyperLogLog key: open finding          *)
(* C07-hll-write-cache) and that differs is printed as <<"KNOWN", line, first>> *)
(* and neither recorded nor followed by a skip.  Events `panic`                 *)
(* have no action: they are mismatches by construction.                        *)
(* Accepted iff every line was consumed and no MISMATCH was printed.           *)
EXTENDS ZDet, Json, IOUtils

VARIABLES l,      \* next trace line
          bad,    \* a mismatch was seen in the current run
          dumpn,  \* number of dump keys of a run (write-once as well), -1: not yet known
          cnt     \* dump events seen in the current run

Trace == ndJsonDeserialize(IOEnv.ZR_TRACE)
E == Trace[l]

tvars == <<dvars, l, bad, dumpn, cnt>>

Frozen == UNCHANGED <<log, store, wb, batching, dup, pend, pos, wall, snap, run, restarts>>

TInit == /\ log = <<>> /\ store = EmptyStore /\ wb = <<>> /\ batching = FALSE /\ dup = {}
         /\ pend = <<>> /\ pos = 1 /\ wall = 0 /\ snap = 0 /\ run = 1 /\ restarts = 0
         /\ reply = EmptyMap /\ dump = EmptyMap /\ conflict = FALSE
         /\ l = 1 /\ bad = FALSE /\ dumpn = -1 /\ cnt = 0

Mismatch(expected) == /\ bad' = TRUE
                      /\ PrintT(<<"MISMATCH", l, expected>>)
                      /\ UNCHANGED <<reply, dump, conflict, dumpn, cnt>>

TNext ==
  /\ l <= Len(Trace)
  /\ l' = l + 1
  /\ Frozen
  /\ CASE E.ev = "log" -> /\ reply' = EmptyMap /\ dump' = EmptyMap /\ conflict' = FALSE
                          /\ dumpn' = -1 /\ bad' = FALSE /\ cnt' = 0
       [] E.ev = "run" -> bad' = FALSE /\ cnt' = 0 /\ UNCHANGED <<reply, dump, conflict, dumpn>>
       [] OTHER ->
          IF bad THEN UNCHANGED <<reply, dump, conflict, dumpn, bad, cnt>>
          ELSE CASE E.ev = "reply" ->
                      LET t == Trigger(reply, conflict, E.idx, E.r)
                      IN IF t[2] /\ E.kd # ""
                         THEN \* a reply VALUE recorded as divergent on the unchanged tree (the driver
                              \* marks the position structurally, the check matches it against the open
                              \* finding): reported, not followed; everything else of the run stays strict
                              /\ PrintT(<<"KNOWN", l, reply[E.idx]>>)
                              /\ UNCHANGED <<reply, dump, conflict, dumpn, bad, cnt>>
                         ELSE IF t[2] THEN Mismatch(reply[E.idx])
                         ELSE reply' = t[1] /\ UNCHANGED <<dump, conflict, dumpn, bad, cnt>>
                 [] E.ev = "dump" ->
                      LET t == Trigger(dump, conflict, E.k, E.v)
                      IN IF t[2] THEN Mismatch(dump[E.k])
                         ELSE dump' = t[1] /\ cnt' = cnt + 1 /\ UNCHANGED <<reply, conflict, dumpn, bad>>
                 [] E.ev = "dumpn" ->
                      IF (dumpn = -1 \/ dumpn = E.n) /\ cnt = E.n
                      THEN dumpn' = E.n /\ UNCHANGED <<reply, dump, conflict, bad, cnt>>
                      ELSE Mismatch(IF cnt # E.n THEN cnt ELSE dumpn)
                 [] OTHER -> Mismatch("no such action")

TSpec == TInit /\ [][TNext]_tvars

AllConsumed == TLCGet("stats").diameter - 1 = Len(Trace)
=============================================================================
