------------------------------ MODULE MC_ZScan ------------------------------
(* Bounded instance of ZScan: every population of a pool of NPos elements,     *)
(* every start cursor, every COUNT from 1 to NPos+1, both directions, a few    *)
(* MATCH sets, with up to MaxWrites writes (to the scanned space and to a      *)
(* foreign one) interleaved between the pages of one iteration.                *)
EXTENDS ZScan, TLC

CONSTANTS MaxWrites     \* writes allowed while an iteration is running

VARIABLES nw            \* writes done during the running iteration

mvars == <<pop, foreign, it, nw>>

\* MATCH sets of the bounded instance: everything, the odd positions, all but the first
MatchSets == {Pos, {p \in Pos : p % 2 = 1}, Pos \ {1}}

Init == /\ pop \in SUBSET Pos
        /\ foreign \in SUBSET Pos
        /\ it = NoIter
        /\ nw = 0

MBegin == \E cur \in 0..(NPos + 1), cnt \in 1..(NPos + 1), rev \in BOOLEAN, M \in MatchSets :
            Begin(cur, cnt, rev, M) /\ UNCHANGED nw
MPage  == Page /\ UNCHANGED nw
MWrite == /\ it.active /\ ~it.done /\ nw < MaxWrites
          /\ nw' = nw + 1
          /\ \E p \in Pos : Add(p) \/ Rem(p) \/ ForeignAdd(p) \/ ForeignRemove(p)

Next == MBegin \/ MPage \/ MWrite

Spec == Init /\ [][Next]_mvars
=============================================================================
