------------------------------ MODULE MC_ZRoute ------------------------------
(* Bounded instance of ZRoute: TLC enumerates every mapping Part: Keys -> 0..P-1 *)
(* (through the initial condition) and every command over key sequences of     *)
(* length <= MaxLen with duplicates.                                           *)
EXTENDS ZRoute, TLC

CONSTANTS MaxLen

\* the largest key belongs to a second namespace
MCNs == [k \in Keys |-> IF \A j \in Keys : j <= k THEN 2 ELSE 1]

KeySeqs == UNION {[1..n -> Keys] : n \in 1..MaxLen}
ValSeqs(n) == [1..n -> Vals]

Init == RInit

Next ==
  \/ \E k \in Keys, v \in Vals : Set(k, v)
  \/ \E k \in Keys : Get(k)
  \/ \E ks \in KeySeqs : Del(ks)
  \/ \E ks \in KeySeqs : Exists(ks)
  \/ \E ks \in KeySeqs : MGet(ks)
  \/ \E ks \in KeySeqs : \E vs \in ValSeqs(Len(ks)) : PLSet(ks, vs)

Spec == Init /\ [][Next]_rvars

\* replies are observations, not state: two states that differ only in the last reply
\* continue identically (the invariants are evaluated on every generated state)
View == <<part, store, ref, touched>>
=============================================================================
