------------------------------ MODULE ZWalTrace ------------------------------
(* Trace validation for ZWal: replays the save history the driver `walsim`     *)
(* executed on the real wal package through the ZWal actions and judges, for   *)
(* every crash image the driver reopened the way node/raft.go openWAL does,    *)
(* whether what came back is allowed by ZWal:                                  *)
(*  - after every call: the records the implementation had handed to the OS    *)
(*    (nrec) and had fdatasynced (dur) cover what the design promises;         *)
(*  - every image: the answer is an error or ReadFrom of a prefix that         *)
(*    contains everything promised (ReopenIsDurablePrefix), a repairable image *)
(*    comes back (RepairThenOpenSucceedsWithPrefix), a second reopen returns   *)
(*    the same, ValidSnapshotEntries / Verify speak about such a prefix too,   *)
(*    no unexpected Go panic.                                                  *)
(* Segments start with "reset"; after the first mismatch the rest of the       *)
(* segment is skipped (ZEngineTrace pattern).                                  *)
EXTENDS ZWal, Json, IOUtils, TLC

VARIABLES l, bad

Trace == ndJsonDeserialize(IOEnv.ZR_TRACE)
E == Trace[l]

tvars == <<wvars, l, bad>>

Blank ==
  /\ recs' = <<>> /\ segs' = <<>> /\ handed' = 0 /\ synced' = 0 /\ pproc' = 0 /\ ppow' = 0
  /\ enti' = 0 /\ mode' = "none" /\ opt' = FALSE /\ locks' = [l |-> 1, p |-> 0]
  /\ img' = NoImg /\ snapq' = Snap0 /\ res' = NoRes

TInit ==
  /\ recs = <<>> /\ segs = <<>> /\ handed = 0 /\ synced = 0 /\ pproc = 0 /\ ppow = 0
  /\ enti = 0 /\ mode = "none" /\ opt = FALSE /\ locks = [l |-> 1, p |-> 0]
  /\ img = NoImg /\ snapq = Snap0 /\ res = NoRes
  /\ l = 1 /\ bad = FALSE

\* what the implementation reported after a call covers the promise of the design
\* the segment files that exist carry the names the design gives them: consecutive sequence
\* numbers, and as index the one after the last entry / marker saved when the segment was cut
NamesOK == E.names = [j \in 1..(Len(segs') - locks'.p) |-> [s |-> locks'.p + j - 1, i |-> segs'[locks'.p + j].idx]]

PostOK == /\ E.err = ""
          /\ NamesOK
          /\ E.nrec >= pproc' /\ E.nrec <= Len(recs')
          /\ E.dur >= ppow' /\ E.dur <= E.nrec

Im == [kind |-> E.kind, n |-> E.n, tail |-> E.tail, flip |-> E.flip]
\* power-loss floor: the promise in the normal mode; in optimized mode the contiguous
\* prefix covered by the fdatasyncs the implementation actually issued (wal sync hook)
PF == IF opt THEN E.dur ELSE ppow

SeqSet(s) == {s[j] : j \in 1..Len(s)}

C1 == mode \in {"append", "closed"} /\ ~E.panic /\ E.n <= Len(recs)
C2 == ResultAllowed(recs, segs, Im, pproc, PF, E.snap, E.res)
C3 == SucceedsIfRepairable(recs, segs, Im, E.snap, E.res)
C4 == NothingInvented(recs, E.snap, E.res)
C5 == E.res.err = "" => E.res2 = E.res
C6 == E.valid.err # "" \/ \E p \in Allowed(recs, Im, pproc, PF) : SeqSet(E.valid.snaps) = ValidSnaps(OnDisk(recs, p))
C7 == E.verify # "" \/ \E p \in Allowed(recs, Im, pproc, PF) : E.snap \in Markers(OnDisk(recs, p))
\* a second life: the image was reopened, further entries were saved (no hard state), the log was
\* closed and reopened again; what comes back then is what the first reopen returned (a prefix p)
\* plus what the second life saved on top - nothing that lay behind the write position resurfaces
LifeRecs == [j \in 1..Len(E.life.ents) |-> EntRec(E.life.ents[j])]
C8 == E.life.on =>
        /\ E.life.err = ""
        /\ LET PT == {p \in Allowed(recs, Im, pproc, PF) :
                         p >= segs[Len(segs)].first /\ E.res = ReadFromLoose(recs, segs, p, E.snap)}
           \* the second life ended with a clean Close: like any undamaged log it has to come back,
           \* unless reading it is an error by the model too (a gap behind a received snapshot)
           IN PT = {} \/ \E p \in PT :
                 LET m == ReadFromLoose(Pre(recs, p) \o LifeRecs, segs, p + Len(LifeRecs), E.snap)
                 IN IF m.err # "" THEN E.life.res.err # "" ELSE E.life.res = m
\* the snapshot the restart loaded (LoadNewestAvailable over the image's snapshot directory with
\* the markers ValidSnapshotEntries returned) is the newest file that is intact and marked valid,
\* with the content that was saved under that name - or none
C9 == (E.snapon /\ E.valid.err = "") =>
        LET F == SeqSet(E.files)
            p == PickSnap(F, SeqSet(E.valid.snaps))
        IN /\ E.picked = p
           /\ p # NoSnapFile => \E f \in F : f.i = p.i /\ f.t = p.t /\ f.ok /\ f.x = E.pdata
ImageOK == C1 /\ C2 /\ C3 /\ C4 /\ C5 /\ C6 /\ C7 /\ C8 /\ C9
\* which conjuncts failed, as a bit mask: 1 panic-or-count, 2 durable-prefix, 4 repairable,
\* 8 invented, 16 second-reopen, 32 valid-snapshots, 64 verify, 128 second-life, 256 snapshot-pick
Why == (IF C1 THEN 0 ELSE 1) + (IF C2 THEN 0 ELSE 2) + (IF C3 THEN 0 ELSE 4) + (IF C4 THEN 0 ELSE 8)
       + (IF C5 THEN 0 ELSE 16) + (IF C6 THEN 0 ELSE 32) + (IF C7 THEN 0 ELSE 64) + (IF C8 THEN 0 ELSE 128)
       + (IF C9 THEN 0 ELSE 256)

Mismatch(exp) == /\ bad' = TRUE
                 /\ PrintT(<<"MISMATCH", l, exp>>)
                 /\ UNCHANGED wvars

Step(A, exp) == IF ENABLED A THEN A /\ UNCHANGED bad ELSE Mismatch(exp)

TNext ==
  /\ l <= Len(Trace)
  /\ l' = l + 1
  /\ IF E.ev = "reset" THEN Blank /\ bad' = FALSE
     ELSE IF bad THEN UNCHANGED <<wvars, bad>>
     ELSE CASE E.ev = "create"  -> Step(Create(E.opt, E.meta) /\ PostOK, <<"create", 3>>)
            [] E.ev = "save"    -> Step(Save(E.hs, E.ents, E.cut) /\ PostOK,
                                        <<"save", pproc, ppow, Len(recs)>>)
            [] E.ev = "snap"    -> Step(SaveSnapshot([i |-> E.i, t |-> E.t]) /\ PostOK, <<"snap", Len(recs) + 1>>)
            [] E.ev = "release" -> Step(ReleaseLockTo(E.i) /\ E.err = "", <<"release">>)
            [] E.ev = "sync"    -> Step(Sync /\ PostOK, <<"sync", Len(recs)>>)
            [] E.ev = "close"   -> Step(Close /\ PostOK, <<"close", Len(recs)>>)
            [] E.ev = "purge"   -> IF E.removed = 0 /\ E.err = "" THEN UNCHANGED <<wvars, bad>>    \* removing less is fine
                                   ELSE Step(Purge(E.max, E.removed) /\ E.err = "", <<"purge", MaxPurge(E.max)>>)
            [] E.ev = "restart" -> IF E.err = "" THEN Step(Restart(E.snap), <<"restart">>)
                                   \* a clean restart may only fail where reading the whole log at that
                                   \* snapshot is an error by the model too (the history ends there)
                                   ELSE IF mode = "closed" /\ ReadFrom(recs, segs, Len(recs), E.snap).err # ""
                                        THEN UNCHANGED <<wvars, bad>>
                                        ELSE Mismatch(<<"restart">>)
            [] E.ev = "image"   -> IF ImageOK THEN UNCHANGED <<wvars, bad>>
                                   ELSE Mismatch(<<"image", Floor(Im, pproc, PF), Len(recs), Why>>)
            [] OTHER            -> Mismatch(<<"no such action">>)

TSpec == TInit /\ [][TNext]_tvars

AllConsumed == TLCGet("stats").diameter - 1 = Len(Trace)
=============================================================================
