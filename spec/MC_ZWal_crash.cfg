SPECIFICATION Spec
CONSTANTS
  MaxCalls = 2
  MaxIdx = 2
  MaxTerm = 2
  MaxCut = 1
  WithCrash = TRUE
  Mutant = ""
INVARIANTS SyncPolicy ReopenIsDurablePrefix NoCorruptDataReturned RepairThenOpenSucceedsWithPrefix
