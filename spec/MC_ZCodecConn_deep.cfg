SPECIFICATION Spec
CONSTANTS
  Mutant = "none"
  MaxWire = 2
  MaxWritten = 4
  MaxConns = 2
  MaxIdx = 1
INVARIANTS Lossless StepFaithful InOrderOnce DeliveredFaithful NothingFromCut Exact
